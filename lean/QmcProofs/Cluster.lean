/-
Helper lemmas for C09 (cluster update as a relation): decider soundness/completeness,
skeleton preservation, weight preservation, symmetry, consistency preservation.
-/
import QmcModel.Cluster
import QmcProofs.Common

namespace Qmc

/-! ### generic facts about `PairAll` -/

theorem PairAll.mono {P Q : Op → Op → Prop} (h : ∀ x y, P x y → Q x y) :
    ∀ {sb sa : Slots}, PairAll P sb sa → PairAll Q sb sa
  | [], [], _ => trivial
  | [], _ :: _, h' => by simp [PairAll] at h'
  | _ :: _, [], h' => by cases ‹Option Op› <;> simp [PairAll] at h'
  | none :: tb, none :: ta, h' => by
    simp only [PairAll] at h' ⊢; exact PairAll.mono h h'
  | none :: tb, some _ :: ta, h' => by simp [PairAll] at h'
  | some _ :: tb, none :: ta, h' => by simp [PairAll] at h'
  | some ob :: tb, some oa :: ta, h' => by
    simp only [PairAll] at h' ⊢; exact ⟨h _ _ h'.1, PairAll.mono h h'.2⟩

theorem pairAllB_iff {f : Op → Op → Bool} {P : Op → Op → Prop} (h : ∀ x y, f x y = true ↔ P x y) :
    ∀ (sb sa : Slots), pairAllB f sb sa = true ↔ PairAll P sb sa
  | [], [] => by simp [pairAllB, PairAll]
  | [], _ :: _ => by simp [pairAllB, PairAll]
  | none :: _, [] => by simp [pairAllB, PairAll]
  | some _ :: _, [] => by simp [pairAllB, PairAll]
  | none :: tb, none :: ta => by simp only [pairAllB, PairAll]; exact pairAllB_iff h tb ta
  | none :: tb, some _ :: ta => by simp [pairAllB, PairAll]
  | some _ :: tb, none :: ta => by simp [pairAllB, PairAll]
  | some ob :: tb, some oa :: ta => by
    simp only [pairAllB, PairAll, Bool.and_eq_true, h, pairAllB_iff h tb ta]

theorem PairAll.length_eq {P : Op → Op → Prop} :
    ∀ {sb sa : Slots}, PairAll P sb sa → sa.length = sb.length
  | [], [], _ => rfl
  | [], _ :: _, h' => by simp [PairAll] at h'
  | none :: _, [], h' => by simp [PairAll] at h'
  | some _ :: _, [], h' => by simp [PairAll] at h'
  | none :: tb, none :: ta, h' => by
    simp only [PairAll] at h'; simp [PairAll.length_eq h']
  | none :: tb, some _ :: ta, h' => by simp [PairAll] at h'
  | some _ :: tb, none :: ta, h' => by simp [PairAll] at h'
  | some ob :: tb, some oa :: ta, h' => by
    simp only [PairAll] at h'; simp [PairAll.length_eq h'.2]

/-- position-indexed reading of `PairAll` -/
theorem PairAll.get {P : Op → Op → Prop} :
    ∀ {sb sa : Slots}, PairAll P sb sa → ∀ p : Nat,
      (sb[p]? = some none → sa[p]? = some none) ∧
      (∀ ob, sb[p]? = some (some ob) → ∃ oa, sa[p]? = some (some oa) ∧ P ob oa)
  | [], [], _, p => by simp
  | [], _ :: _, h', _ => by simp [PairAll] at h'
  | none :: _, [], h', _ => by simp [PairAll] at h'
  | some _ :: _, [], h', _ => by simp [PairAll] at h'
  | none :: tb, none :: ta, h', p => by
    simp only [PairAll] at h'
    cases p with
    | zero => simp
    | succ p => simpa using PairAll.get h' p
  | none :: tb, some _ :: ta, h', _ => by simp [PairAll] at h'
  | some _ :: tb, none :: ta, h', _ => by simp [PairAll] at h'
  | some ob :: tb, some oa :: ta, h', p => by
    simp only [PairAll] at h'
    cases p with
    | zero => simpa using h'.1
    | succ p => simpa using PairAll.get h'.2 p

/-! ### the decider -/

theorem opOkB_iff (fr : SkOp → Bool) (ob oa : Op) : opOkB fr ob oa = true ↔ OpOk fr ob oa := by
  constructor
  · intro h
    simp only [opOkB, Bool.and_eq_true, Bool.or_eq_true, beq_iff_eq, Bool.not_eq_true'] at h
    obtain ⟨⟨⟨⟨⟨⟨⟨⟨h1, h2⟩, h3⟩, h4⟩, h5⟩, h6⟩, h7⟩, h8⟩, h9⟩ := h
    refine ⟨h1, h2, h3, h4, h5, h6, h7, ?_, ?_⟩
    · intro he
      rcases h8 with h8 | h8
      · rw [he] at h8; cases h8
      · exact h8
    · intro he hf
      rcases h9 with (h9 | h9) | h9
      · rw [he] at h9; cases h9
      · rw [hf] at h9; cases h9
      · exact h9
  · intro h
    simp only [opOkB, Bool.and_eq_true, Bool.or_eq_true, beq_iff_eq, Bool.not_eq_true']
    refine ⟨⟨⟨⟨⟨⟨⟨⟨h.vars, h.bond⟩, h.const⟩, h.insB⟩, h.outsB⟩, h.insA⟩, h.outsA⟩, ?_⟩, ?_⟩
    · cases he : ob.isEdge
      · exact Or.inr (h.closed he)
      · exact Or.inl rfl
    · cases he : ob.isEdge
      · cases hf : fr ob.sk
        · exact Or.inl (Or.inr rfl)
        · exact Or.inr (h.frozen he hf)
      · exact Or.inl (Or.inl rfl)

theorem idleB_iff (b a : Config) (hl : a.state.length = b.state.length) :
    idleB b a = true ↔ ∀ v, varHasOp (skeleton b.slots) v = false → a.state[v]? = b.state[v]? := by
  simp only [idleB, List.all_eq_true, List.mem_range, Bool.or_eq_true, beq_iff_eq]
  constructor
  · intro h v hv
    by_cases hlt : v < b.state.length
    · rcases h v hlt with h' | h'
      · rw [hv] at h'; cases h'
      · exact h'
    · have h1 : b.state.length ≤ v := Nat.le_of_not_lt hlt
      rw [List.getElem?_eq_none h1, List.getElem?_eq_none (hl ▸ h1)]
  · intro h v _
    cases hv : varHasOp (skeleton b.slots) v
    · exact Or.inr (h v hv)
    · exact Or.inl rfl

theorem isClusterMove_iff (fr : SkOp → Bool) (b a : Config) :
    isClusterMove fr b a = true ↔ ClusterMove fr b a := by
  constructor
  · intro h
    simp only [isClusterMove, Bool.and_eq_true, beq_iff_eq, decide_eq_true_eq] at h
    obtain ⟨⟨⟨h1, h2⟩, h3⟩, h4⟩ := h
    exact ⟨(pairAllB_iff (opOkB_iff fr) _ _).1 h1, h2, h3, (idleB_iff b a h2).1 h4⟩
  · intro h
    simp only [isClusterMove, Bool.and_eq_true, beq_iff_eq, decide_eq_true_eq]
    exact ⟨⟨⟨(pairAllB_iff (opOkB_iff fr) _ _).2 h.ops, h.stateLen⟩, h.linkClosed⟩,
      (idleB_iff b a h.stateLen).2 h.idle⟩

/-! ### the skeleton is unchanged -/

theorem OpOk.sk_eq {fr : SkOp → Bool} {ob oa : Op} (h : OpOk fr ob oa) : oa.sk = ob.sk := by
  simp [Op.sk, h.vars, h.bond, h.const]

theorem PairAll.skeleton_eq {P : Op → Op → Prop} (hP : ∀ x y, P x y → y.sk = x.sk) :
    ∀ {sb sa : Slots}, PairAll P sb sa → skeleton sa = skeleton sb
  | [], [], _ => rfl
  | [], _ :: _, h' => by simp [PairAll] at h'
  | none :: _, [], h' => by simp [PairAll] at h'
  | some _ :: _, [], h' => by simp [PairAll] at h'
  | none :: tb, none :: ta, h' => by
    simp only [PairAll] at h'
    have := PairAll.skeleton_eq hP h'
    simp only [skeleton] at this ⊢
    simp [this]
  | none :: tb, some _ :: ta, h' => by simp [PairAll] at h'
  | some _ :: tb, none :: ta, h' => by simp [PairAll] at h'
  | some ob :: tb, some oa :: ta, h' => by
    simp only [PairAll] at h'
    have := PairAll.skeleton_eq hP h'.2
    simp only [skeleton] at this ⊢
    simp [this, hP _ _ h'.1]

theorem ClusterMove.skeleton_eq {fr : SkOp → Bool} {b a : Config} (h : ClusterMove fr b a) :
    skeleton a.slots = skeleton b.slots :=
  PairAll.skeleton_eq (fun _ _ h => h.sk_eq) h.ops

theorem countOps_eq_of_skeleton : ∀ {sb sa : Slots}, skeleton sa = skeleton sb →
    countOps sa = countOps sb
  | [], [], _ => rfl
  | [], _ :: _, h => by simp [skeleton] at h
  | _ :: _, [], h => by simp [skeleton] at h
  | ob :: tb, oa :: ta, h => by
    simp only [skeleton, List.map_cons, List.cons.injEq] at h
    have ih := countOps_eq_of_skeleton (sb := tb) (sa := ta) h.2
    simp only [countOps] at ih ⊢
    cases ob <;> cases oa <;> simp_all

theorem countBond_eq_of_skeleton (k : Nat) : ∀ {sb sa : Slots}, skeleton sa = skeleton sb →
    countBond sa k = countBond sb k
  | [], [], _ => rfl
  | [], _ :: _, h => by simp [skeleton] at h
  | _ :: _, [], h => by simp [skeleton] at h
  | ob :: tb, oa :: ta, h => by
    simp only [skeleton, List.map_cons, List.cons.injEq] at h
    have ih := countBond_eq_of_skeleton k (sb := tb) (sa := ta) h.2
    simp only [countBond] at ih ⊢
    cases ob with
    | none => cases oa <;> simp_all
    | some ob =>
      cases oa with
      | none => simp at h
      | some oa =>
        have hb : oa.bond = ob.bond := by
          have := h.1; simp only [Option.map_some, Option.some.injEq, Op.sk, SkOp.mk.injEq] at this
          exact this.2.1
        simp only [List.filter_cons, hb]
        split <;> simp [ih]

/-! ### weight preservation -/

theorem weight_eq_of_pairAll (H : Ham) (fr : SkOp → Bool) :
    ∀ {sb sa : Slots}, PairAll (OpOk fr) sb sa →
      (∀ o ∈ opsOf sb, o.isEdge = false → fr o.sk = false → H.FlipSym o.bond) →
      (∀ o ∈ opsOf sb, o.isEdge = true → H.ConstW o.bond) →
      configWeightProd H sa = configWeightProd H sb
  | [], [], _, _, _ => rfl
  | [], _ :: _, h', _, _ => by simp [PairAll] at h'
  | none :: _, [], h', _, _ => by simp [PairAll] at h'
  | some _ :: _, [], h', _, _ => by simp [PairAll] at h'
  | none :: tb, none :: ta, h', hs, hc => by
    simp only [PairAll] at h'
    simp only [configWeightProd]
    exact weight_eq_of_pairAll H fr h' (fun o ho => hs o (by simpa [opsOf] using ho))
      (fun o ho => hc o (by simpa [opsOf] using ho))
  | none :: tb, some _ :: ta, h', _, _ => by simp [PairAll] at h'
  | some _ :: tb, none :: ta, h', _, _ => by simp [PairAll] at h'
  | some ob :: tb, some oa :: ta, h', hs, hc => by
    simp only [PairAll] at h'
    obtain ⟨hop, ht⟩ := h'
    simp only [configWeightProd]
    have ih := weight_eq_of_pairAll H fr ht (fun o ho => hs o (by simp [opsOf, ho]))
      (fun o ho => hc o (by simp [opsOf, ho]))
    rw [ih, hop.bond]
    congr 1
    cases he : ob.isEdge
    · -- non-edge op: flipped entirely or not at all
      cases hf : fr ob.sk
      · rcases hop.closed he with hu | hfl
        · rw [hu.1, hu.2]
        · rw [hfl.1, hfl.2]; exact hs ob (by simp [opsOf]) he hf _ _
      · have hu := hop.frozen he hf
        rw [hu.1, hu.2]
    · -- edge op: constant matrix
      exact hc ob (by simp [opsOf]) he _ _ _ _ (by rw [hop.insA, hop.insB]) (by rw [hop.outsA, hop.outsB])

/-! ### symmetry (reversibility) -/

theorem xorB_comm : ∀ (x y : List Bool), xorB x y = xorB y x
  | [], [] => rfl
  | [], _ :: _ => rfl
  | _ :: _, [] => rfl
  | a :: x, b :: y => by
    simp only [xorB, List.zipWith_cons_cons, List.cons.injEq]
    exact ⟨by cases a <;> cases b <;> rfl, xorB_comm x y⟩

theorem flipBits_flipBits (l : List Bool) : flipBits (flipBits l) = l := by
  induction l with
  | nil => rfl
  | cons a t ih => simp only [flipBits, List.map_cons, Bool.not_not, List.cons.injEq, true_and] at ih ⊢; exact ih

theorem flipBits_length (l : List Bool) : (flipBits l).length = l.length := by simp [flipBits]

theorem OpOk.isEdge_eq {fr : SkOp → Bool} {ob oa : Op} (h : OpOk fr ob oa) : oa.isEdge = ob.isEdge := by
  simp [Op.isEdge, h.sk_eq]

theorem OpOk.symm {fr : SkOp → Bool} {ob oa : Op} (h : OpOk fr ob oa) : OpOk fr oa ob := by
  have hv := h.vars
  refine ⟨hv.symm, h.bond.symm, h.const.symm, by rw [hv]; exact h.insA, by rw [hv]; exact h.outsA,
    by rw [hv]; exact h.insB, by rw [hv]; exact h.outsB, ?_, ?_⟩
  · intro he
    rw [h.isEdge_eq] at he
    rcases h.closed he with hu | hf
    · exact Or.inl ⟨hu.1.symm, hu.2.symm⟩
    · exact Or.inr ⟨by rw [hf.1, flipBits_flipBits], by rw [hf.2, flipBits_flipBits]⟩
  · intro he hf
    rw [h.isEdge_eq] at he
    rw [h.sk_eq] at hf
    have hu := h.frozen he hf
    exact ⟨hu.1.symm, hu.2.symm⟩

theorem PairAll.symm {P : Op → Op → Prop} (hP : ∀ x y, P x y → P y x) :
    ∀ {sb sa : Slots}, PairAll P sb sa → PairAll P sa sb
  | [], [], _ => trivial
  | [], _ :: _, h' => by simp [PairAll] at h'
  | none :: _, [], h' => by simp [PairAll] at h'
  | some _ :: _, [], h' => by simp [PairAll] at h'
  | none :: tb, none :: ta, h' => by
    simp only [PairAll] at h' ⊢; exact PairAll.symm hP h'
  | none :: tb, some _ :: ta, h' => by simp [PairAll] at h'
  | some _ :: tb, none :: ta, h' => by simp [PairAll] at h'
  | some ob :: tb, some oa :: ta, h' => by
    simp only [PairAll] at h' ⊢; exact ⟨hP _ _ h'.1, PairAll.symm hP h'.2⟩

theorem maskSlots_comm {fr : SkOp → Bool} :
    ∀ {sb sa : Slots}, PairAll (OpOk fr) sb sa → maskSlots sa sb = maskSlots sb sa
  | [], [], _ => rfl
  | [], _ :: _, h' => by simp [PairAll] at h'
  | none :: _, [], h' => by simp [PairAll] at h'
  | some _ :: _, [], h' => by simp [PairAll] at h'
  | none :: tb, none :: ta, h' => by
    simp only [PairAll] at h'; simp only [maskSlots, maskSlots_comm h']
  | none :: tb, some _ :: ta, h' => by simp [PairAll] at h'
  | some _ :: tb, none :: ta, h' => by simp [PairAll] at h'
  | some ob :: tb, some oa :: ta, h' => by
    simp only [PairAll] at h'
    simp only [maskSlots, maskSlots_comm h'.2, maskOp, h'.1.vars, h'.1.bond, h'.1.const,
      xorB_comm oa.ins, xorB_comm oa.outs]

theorem mask_comm {fr : SkOp → Bool} {b a : Config} (h : ClusterMove fr b a) : mask a b = mask b a := by
  simp only [mask, maskSlots_comm h.ops, xorB_comm a.state]

theorem ClusterMove.symm {fr : SkOp → Bool} {b a : Config} (h : ClusterMove fr b a) :
    ClusterMove fr a b := by
  refine ⟨PairAll.symm (fun _ _ h => h.symm) h.ops, h.stateLen.symm, ?_, ?_⟩
  · rw [mask_comm h]; exact h.linkClosed
  · intro v hv
    rw [h.skeleton_eq] at hv
    exact (h.idle v hv).symm

/-! ### consistency is preserved (propagation commutes with xor) -/

theorem xorB_length (x y : List Bool) : (xorB x y).length = min x.length y.length := by
  simp [xorB]

theorem xorB_set : ∀ (x y : List Bool) (v : Nat) (p q : Bool),
    xorB (x.set v p) (y.set v q) = (xorB x y).set v (p != q)
  | [], _, _, _, _ => by simp [xorB]
  | _ :: _, [], _, _, _ => by simp [xorB]
  | a :: x, b :: y, 0, p, q => by simp [xorB]
  | a :: x, b :: y, v + 1, p, q => by
    have := xorB_set x y v p q
    simp only [xorB] at this
    simp [xorB, this]

theorem getElem?_xorB (x y : List Bool) (i : Nat) :
    (xorB x y)[i]? = match x[i]?, y[i]? with
      | some p, some q => some (p != q)
      | _, _ => none := by
  simp only [xorB, List.getElem?_zipWith]
  cases x[i]? <;> cases y[i]? <;> rfl

theorem xorB_cancel : ∀ (x y z : List Bool), y.length = x.length → z.length = x.length →
    xorB x y = xorB x z → y = z
  | [], [], [], _, _, _ => rfl
  | [], _ :: _, _, h, _, _ => by simp at h
  | [], [], _ :: _, _, h, _ => by simp at h
  | _ :: _, [], _, h, _, _ => by simp at h
  | _ :: _, _ :: _, [], _, h, _ => by simp at h
  | a :: x, b :: y, c :: z, h1, h2, h => by
    simp only [xorB, List.zipWith_cons_cons, List.cons.injEq] at h
    have ht := xorB_cancel x y z (by simpa using h1) (by simpa using h2) h.2
    have hh : b = c := by
      have := h.1; revert this; cases a <;> cases b <;> cases c <;> simp
    rw [hh, ht]

theorem writeVars_xorB (vars : List Nat) : ∀ (bo ao sB sA : List Bool), bo.length = ao.length →
    xorB (writeVars sB vars bo) (writeVars sA vars ao) = writeVars (xorB sB sA) vars (xorB bo ao) := by
  induction vars with
  | nil => intro bo ao sB sA _; simp [writeVars]
  | cons v vs ih =>
    intro bo ao sB sA hl
    cases bo with
    | nil =>
      cases ao with
      | nil => simp [writeVars, xorB]
      | cons y ys => simp at hl
    | cons x xs =>
      cases ao with
      | nil => simp at hl
      | cons y ys =>
        have := ih xs ys (sB.set v x) (sA.set v y) (by simpa using hl)
        simp only [writeVars, xorB, List.zipWith_cons_cons, List.zip_cons_cons, List.foldl_cons] at this ⊢
        rw [this]
        have h2 := xorB_set sB sA v x y
        simp only [xorB] at h2
        rw [h2]

theorem inputs_xor (sB sA : List Bool) (vars : List Nat) : ∀ (bi ai : List Bool),
    bi.length = vars.length → ai.length = vars.length →
    (vars.zip bi).all (fun vb => sB[vb.1]? == some vb.2) = true →
    (vars.zip (xorB bi ai)).all (fun vb => (xorB sB sA)[vb.1]? == some vb.2) = true →
    (vars.zip ai).all (fun vb => sA[vb.1]? == some vb.2) = true := by
  induction vars with
  | nil => intro bi ai _ _ _ _; simp
  | cons v vs ih =>
    intro bi ai h1 h2 hb hm
    cases bi with
    | nil => simp at h1
    | cons x xs =>
      cases ai with
      | nil => simp at h2
      | cons y ys =>
        simp only [xorB, List.zipWith_cons_cons, List.zip_cons_cons, List.all_cons, Bool.and_eq_true,
          beq_iff_eq] at hb hm ⊢
        refine ⟨?_, ih xs ys (by simpa using h1) (by simpa using h2) hb.2 (by simpa [xorB] using hm.2)⟩
        have hx := getElem?_xorB sB sA v
        simp only [xorB] at hx
        rw [hx, hb.1] at hm
        cases hA : sA[v]? with
        | none => rw [hA] at hm; simp at hm
        | some q =>
          rw [hA] at hm
          have := hm.1
          simp only [Option.some.injEq] at this
          revert this; cases x <;> cases y <;> cases q <;> simp

/-- one op: if the op before meets its inputs and the mask op meets its inputs (on the xor of the
rolling states), the op after meets its inputs, and the rolling states stay related by xor -/
theorem applyOp_xor {fr : SkOp → Bool} {ob oa : Op} (h : OpOk fr ob oa) {sB sA sB' M' : List Bool}
    (hl : sA.length = sB.length)
    (hb : applyOp sB ob = some sB') (hm : applyOp (xorB sB sA) (maskOp ob oa) = some M') :
    ∃ sA', applyOp sA oa = some sA' ∧ sA'.length = sB'.length ∧ xorB sB' sA' = M' := by
  simp only [applyOp] at hb hm ⊢
  split at hb
  · rename_i hbi
    split at hm
    · rename_i hmi
      have hai : inputsMatch sA oa = true := by
        simp only [inputsMatch, maskOp] at hbi hmi ⊢
        rw [h.vars]
        exact inputs_xor sB sA ob.vars ob.ins oa.ins h.insB h.insA hbi hmi
      rw [if_pos hai]
      simp only [Option.some.injEq] at hb hm
      refine ⟨_, rfl, ?_, ?_⟩
      · rw [← hb, writeVars_length, writeVars_length, hl]
      · rw [← hb, ← hm, h.vars]
        simp only [maskOp]
        exact writeVars_xorB ob.vars ob.outs oa.outs sB sA (by rw [h.outsB, h.outsA])
    · cases hm
  · cases hb

theorem propagate_xorB {fr : SkOp → Bool} :
    ∀ {sb sa : Slots}, PairAll (OpOk fr) sb sa → ∀ {sB sA sB' M' : List Bool},
      sA.length = sB.length → propagate sB sb = some sB' →
      propagate (xorB sB sA) (maskSlots sb sa) = some M' →
      ∃ sA', propagate sA sa = some sA' ∧ sA'.length = sB'.length ∧ xorB sB' sA' = M'
  | [], [], _, sB, sA, sB', M', hl, hb, hm => by
    simp only [propagate, maskSlots, Option.some.injEq] at hb hm ⊢
    exact ⟨sA, rfl, by rw [← hb, hl], by rw [← hb, hm]⟩
  | [], _ :: _, h', _, _, _, _, _, _, _ => by simp [PairAll] at h'
  | none :: _, [], h', _, _, _, _, _, _, _ => by simp [PairAll] at h'
  | some _ :: _, [], h', _, _, _, _, _, _, _ => by simp [PairAll] at h'
  | none :: tb, none :: ta, h', sB, sA, sB', M', hl, hb, hm => by
    simp only [PairAll] at h'
    simp only [propagate, maskSlots] at hb hm ⊢
    exact propagate_xorB h' hl hb hm
  | none :: tb, some _ :: ta, h', _, _, _, _, _, _, _ => by simp [PairAll] at h'
  | some _ :: tb, none :: ta, h', _, _, _, _, _, _, _ => by simp [PairAll] at h'
  | some ob :: tb, some oa :: ta, h', sB, sA, sB', M', hl, hb, hm => by
    simp only [PairAll] at h'
    simp only [propagate, maskSlots] at hb hm ⊢
    cases hb1 : applyOp sB ob with
    | none => rw [hb1] at hb; cases hb
    | some sB1 =>
      rw [hb1] at hb
      cases hm1 : applyOp (xorB sB sA) (maskOp ob oa) with
      | none => rw [hm1] at hm; cases hm
      | some M1 =>
        rw [hm1] at hm
        obtain ⟨sA1, ha1, hl1, hx1⟩ := applyOp_xor h'.1 hl hb1 hm1
        rw [ha1]
        simp only
        subst hx1
        exact propagate_xorB h'.2 hl1 hb hm

theorem ClusterMove.consistent {fr : SkOp → Bool} {b a : Config} (h : ClusterMove fr b a)
    (hb : Consistent b) : Consistent a := by
  unfold Consistent at hb ⊢
  have hm := h.linkClosed
  unfold Consistent at hm
  simp only [mask] at hm
  obtain ⟨sA', ha, hl, hx⟩ := propagate_xorB h.ops h.stateLen hb hm
  have : sA' = a.state := xorB_cancel b.state sA' a.state hl h.stateLen hx
  rw [ha, this]

/-! ### the tag rule keeps tags canonical -/

theorem tagRule_canon : ∀ {sb sa : Slots}, PairAll (fun ob oa => tagRuleB ob oa = true) sb sa →
    TagCanon sb → TagCanon sa
  | [], [], _, _ => by intro o ho; simp [opsOf] at ho
  | [], _ :: _, h', _ => by simp [PairAll] at h'
  | none :: _, [], h', _ => by simp [PairAll] at h'
  | some _ :: _, [], h', _ => by simp [PairAll] at h'
  | none :: tb, none :: ta, h', hb => by
    simp only [PairAll] at h'
    have := tagRule_canon h' (fun o ho => hb o (by simpa [opsOf] using ho))
    intro o ho; exact this o (by simpa [opsOf] using ho)
  | none :: tb, some _ :: ta, h', _ => by simp [PairAll] at h'
  | some _ :: tb, none :: ta, h', _ => by simp [PairAll] at h'
  | some ob :: tb, some oa :: ta, h', hb => by
    simp only [PairAll] at h'
    have ih := tagRule_canon h'.2 (fun o ho => hb o (by simp [opsOf, ho]))
    intro o ho
    simp only [opsOf, List.mem_cons] at ho
    rcases ho with rfl | ho
    · have h1 := h'.1
      have hbo := hb ob (by simp [opsOf])
      simp only [tagRuleB] at h1
      split at h1
      · rename_i hu
        simp only [Bool.and_eq_true, beq_iff_eq] at hu h1
        rw [h1, hbo, hu.1, hu.2]
      · simpa using h1
    · exact ih o ho

/-! ### the transverse-field Ising matrix elements satisfy the hypotheses of the weight theorem -/

theorem twoSiteW_flip (J : Rat) (i o : List Bool) :
    twoSiteW J (flipBits i) (flipBits o) = twoSiteW J i o := by
  rcases i with _ | ⟨a, _ | ⟨b, _ | ⟨c, t⟩⟩⟩ <;> rcases o with _ | ⟨a', _ | ⟨b', _ | ⟨c', t'⟩⟩⟩ <;>
    simp only [twoSiteW, flipBits, List.map_cons, List.map_nil]
  cases a <;> cases b <;> cases a' <;> cases b' <;> rfl

theorem isingClusterHam_flipSym (edges : List (List Nat × Rat)) (g h : Rat) (nvars b : Nat)
    (hb : b < edges.length) : (isingClusterHam edges g h nvars).FlipSym b := by
  intro i o
  simp only [isingClusterHam, if_pos hb]
  exact twoSiteW_flip _ i o

theorem isingClusterHam_constW (edges : List (List Nat × Rat)) (g h : Rat) (nvars b : Nat)
    (h1 : edges.length ≤ b) (h2 : b < edges.length + nvars) :
    (isingClusterHam edges g h nvars).ConstW b := by
  intro i o i' o' _ _
  simp only [isingClusterHam, if_neg (Nat.not_lt.mpr h1), if_pos h2, transverseW]

/-! ### the empty move (all draws rejected) -/

/-- structural validity of a string: legs match variables, variables are in range -/
def ShapeOk (c : Config) : Prop :=
  ∀ o ∈ opsOf c.slots, o.ins.length = o.vars.length ∧ o.outs.length = o.vars.length ∧
    ∀ v ∈ o.vars, v < c.state.length

theorem xorB_self : ∀ (x : List Bool), xorB x x = List.replicate x.length false
  | [] => rfl
  | a :: x => by
    have := xorB_self x
    simp only [xorB] at this
    simp only [xorB, List.zipWith_cons_cons, List.length_cons, List.replicate_succ, this, List.cons.injEq,
      and_true]
    cases a <;> rfl

theorem inputs_false (n : Nat) : ∀ (vars : List Nat) (k : Nat), (∀ v ∈ vars, v < n) →
    (vars.zip (List.replicate k false)).all
      (fun vb => (List.replicate n false)[vb.1]? == some vb.2) = true
  | [], _, _ => by simp
  | v :: vs, 0, _ => by simp
  | v :: vs, k + 1, h => by
    simp only [List.replicate_succ, List.zip_cons_cons, List.all_cons, Bool.and_eq_true, beq_iff_eq]
    refine ⟨?_, inputs_false n vs k (fun v' hv' => h v' (by simp [hv']))⟩
    rw [List.getElem?_replicate, if_pos (h v (by simp))]

theorem writeVars_false (n : Nat) : ∀ (vars : List Nat) (k : Nat),
    writeVars (List.replicate n false) vars (List.replicate k false) = List.replicate n false
  | [], _ => by simp [writeVars]
  | v :: vs, 0 => by simp [writeVars]
  | v :: vs, k + 1 => by
    have := writeVars_false n vs k
    simp only [writeVars] at this
    simp only [writeVars, List.replicate_succ, List.zip_cons_cons, List.foldl_cons,
      List.set_replicate_self]
    exact this

theorem propagate_false (n : Nat) : ∀ (s : Slots),
    (∀ o ∈ opsOf s, o.ins.length = o.vars.length ∧ o.outs.length = o.vars.length ∧ ∀ v ∈ o.vars, v < n) →
    propagate (List.replicate n false) (maskSlots s s) = some (List.replicate n false)
  | [], _ => rfl
  | none :: t, h => by
    simp only [maskSlots, propagate]
    exact propagate_false n t (fun o ho => h o (by simpa [opsOf] using ho))
  | some o :: t, h => by
    obtain ⟨h1, h2, h3⟩ := h o (by simp [opsOf])
    have ih := propagate_false n t (fun o' ho' => h o' (by simp [opsOf, ho']))
    have hi : inputsMatch (List.replicate n false) (maskOp o o) = true := by
      simp only [inputsMatch, maskOp, xorB_self]
      exact inputs_false n o.vars _ h3
    simp only [maskSlots, propagate, applyOp, if_pos hi]
    simp only [maskOp, xorB_self, writeVars_false]
    exact ih

theorem pairAll_refl {fr : SkOp → Bool} : ∀ (s : Slots),
    (∀ o ∈ opsOf s, o.ins.length = o.vars.length ∧ o.outs.length = o.vars.length) →
    PairAll (OpOk fr) s s
  | [], _ => trivial
  | none :: t, h => by
    simp only [PairAll]; exact pairAll_refl t (fun o ho => h o (by simpa [opsOf] using ho))
  | some o :: t, h => by
    simp only [PairAll]
    obtain ⟨h1, h2⟩ := h o (by simp [opsOf])
    exact ⟨⟨rfl, rfl, rfl, h1, h2, h1, h2, fun _ => Or.inl ⟨rfl, rfl⟩, fun _ _ => ⟨rfl, rfl⟩⟩,
      pairAll_refl t (fun o' ho' => h o' (by simp [opsOf, ho']))⟩

theorem ClusterMove.refl (fr : SkOp → Bool) {b : Config} (h : ShapeOk b) : ClusterMove fr b b := by
  refine ⟨pairAll_refl _ (fun o ho => ⟨(h o ho).1, (h o ho).2.1⟩), rfl, ?_, fun _ _ => rfl⟩
  unfold Consistent
  simp only [mask, xorB_self]
  exact propagate_false _ _ h

/-! ### what `linkClosed` says leg by leg: propagation reads the links -/

theorem lookup_mem {β : Type} : ∀ (l : List (Nat × β)) (k : Nat) (x : β), l.lookup k = some x → (k, x) ∈ l
  | [], _, _, h => by simp at h
  | (k', y) :: t, k, x, h => by
    simp only [List.lookup_cons] at h
    split at h
    · rename_i he
      have : k = k' := by simpa using he
      simp only [Option.some.injEq] at h
      simp [this, h]
    · exact List.mem_cons_of_mem _ (lookup_mem t k x h)

theorem writeVars_getElem?_not_mem (v : Nat) : ∀ (vars : List Nat) (vals st : List Bool), v ∉ vars →
    (writeVars st vars vals)[v]? = st[v]?
  | [], _, _, _ => by simp [writeVars]
  | w :: ws, [], _, _ => by simp [writeVars]
  | w :: ws, x :: xs, st, h => by
    have hw : w ≠ v := fun e => h (by simp [e])
    have := writeVars_getElem?_not_mem v ws xs (st.set w x) (fun hm => h (by simp [hm]))
    simp only [writeVars] at this
    simp only [writeVars, List.zip_cons_cons, List.foldl_cons, this, List.getElem?_set, if_neg hw]

theorem writeVars_getElem?_mem (v : Nat) : ∀ (vars : List Nat) (vals st : List Bool), vars.Nodup →
    vals.length = vars.length → v ∈ vars → v < st.length →
    (writeVars st vars vals)[v]? = (vars.zip vals).lookup v
  | [], _, _, _, _, h, _ => by simp at h
  | w :: ws, [], _, _, hl, _, _ => by simp at hl
  | w :: ws, x :: xs, st, hn, hl, hm, hv => by
    simp only [writeVars, List.zip_cons_cons, List.foldl_cons, List.lookup_cons]
    have hn' := List.nodup_cons.mp hn
    by_cases he : v = w
    · subst he
      have := writeVars_getElem?_not_mem v ws xs (st.set v x) hn'.1
      simp only [writeVars] at this
      rw [this]
      simp [hv]
    · have hm' : v ∈ ws := by simpa [he] using hm
      have := writeVars_getElem?_mem v ws xs (st.set w x) hn'.2 (by simpa using hl) hm' (by simpa using hv)
      simp only [writeVars] at this
      rw [this]
      have : (v == w) = false := by simpa using he
      simp [this]

/-- the state entering a string agrees with the input leg of the first op on each variable -/
theorem propagate_firstIn (v : Nat) : ∀ (s : Slots) (st st' : List Bool) (x : Bool),
    propagate st s = some st' → firstIn v s = some x → st[v]? = some x
  | [], _, _, _, _, h => by simp [firstIn] at h
  | none :: t, st, st', x, hp, h => by
    simp only [propagate] at hp; simp only [firstIn] at h
    exact propagate_firstIn v t st st' x hp h
  | some o :: t, st, st', x, hp, h => by
    simp only [propagate] at hp
    cases ha : applyOp st o with
    | none => rw [ha] at hp; cases hp
    | some st1 =>
      rw [ha] at hp
      simp only [applyOp] at ha
      split at ha
      · rename_i hi
        simp only [Option.some.injEq] at ha
        simp only [firstIn] at h
        split at h
        · have hmem := lookup_mem _ _ _ h
          simp only [inputsMatch, List.all_eq_true, beq_iff_eq] at hi
          exact hi (v, x) hmem
        · rename_i hc
          have hnm : v ∉ o.vars := by simpa using hc
          have := propagate_firstIn v t st1 st' x hp h
          rw [← ha, writeVars_getElem?_not_mem v _ _ _ hnm] at this
          exact this
      · cases ha

/-- the output leg of an op agrees with the input leg of the next op on that variable -/
theorem propagate_link (v : Nat) (o : Op) (t : Slots) (st st' : List Bool) (x : Bool)
    (hn : o.vars.Nodup) (hi : o.ins.length = o.vars.length) (ho : o.outs.length = o.vars.length)
    (hp : propagate st (some o :: t) = some st') (hv : v ∈ o.vars) (hx : firstIn v t = some x) :
    o.legOut v = some x := by
  simp only [propagate] at hp
  cases ha : applyOp st o with
  | none => rw [ha] at hp; cases hp
  | some st1 =>
    rw [ha] at hp
    have h1 := propagate_firstIn v t st1 st' x hp hx
    simp only [applyOp] at ha
    split at ha
    · rename_i him
      simp only [Option.some.injEq] at ha
      -- v is checked against the state, hence in range
      have hlt : v < st.length := by
        obtain ⟨k, hk, hkv⟩ := List.getElem_of_mem hv
        have hk' : k < o.ins.length := by rw [hi]; exact hk
        have hmem : (v, o.ins[k]) ∈ o.vars.zip o.ins := by
          rw [← hkv]
          exact List.mem_iff_getElem.mpr ⟨k, by rw [List.length_zip]; exact Nat.lt_min.mpr ⟨hk, hk'⟩, by simp⟩
        simp only [inputsMatch, List.all_eq_true, beq_iff_eq] at him
        have := him _ hmem
        simp only at this
        by_cases hc : v < st.length
        · exact hc
        · rw [List.getElem?_eq_none (Nat.le_of_not_lt hc)] at this; cases this
      rw [← ha, writeVars_getElem?_mem v _ _ _ hn ho hv hlt] at h1
      exact h1
    · cases ha

theorem propagate_append_bind : ∀ (pre s : Slots) (st : List Bool),
    propagate st (pre ++ s) = (propagate st pre).bind (fun st1 => propagate st1 s)
  | [], s, st => by simp [propagate]
  | none :: t, s, st => by simp only [List.cons_append, propagate]; exact propagate_append_bind t s st
  | some o :: t, s, st => by
    simp only [List.cons_append, propagate]
    cases applyOp st o with
    | none => simp
    | some st1 => exact propagate_append_bind t s st1

theorem maskSlots_shape {fr : SkOp → Bool} : ∀ {sb sa : Slots}, PairAll (OpOk fr) sb sa →
    ∀ m ∈ opsOf (maskSlots sb sa), m.ins.length = m.vars.length ∧ m.outs.length = m.vars.length
  | [], [], _ => by intro m hm; simp [maskSlots, opsOf] at hm
  | [], _ :: _, h' => by simp [PairAll] at h'
  | none :: _, [], h' => by simp [PairAll] at h'
  | some _ :: _, [], h' => by simp [PairAll] at h'
  | none :: tb, none :: ta, h' => by
    simp only [PairAll] at h'
    intro m hm
    exact maskSlots_shape h' m (by simpa [maskSlots, opsOf] using hm)
  | none :: tb, some _ :: ta, h' => by simp [PairAll] at h'
  | some _ :: tb, none :: ta, h' => by simp [PairAll] at h'
  | some ob :: tb, some oa :: ta, h' => by
    simp only [PairAll] at h'
    intro m hm
    simp only [maskSlots, opsOf, List.mem_cons] at hm
    rcases hm with rfl | hm
    · simp only [maskOp, xorB_length, h'.1.insB, h'.1.insA, h'.1.outsB, h'.1.outsA, Nat.min_self,
        and_self]
    · exact maskSlots_shape h'.2 m hm

theorem mem_opsOf_of_split : ∀ (pre t : Slots) (m : Op), m ∈ opsOf (pre ++ some m :: t)
  | [], t, m => by simp [opsOf]
  | none :: p, t, m => by simp only [List.cons_append, opsOf]; exact mem_opsOf_of_split p t m
  | some o :: p, t, m => by
    simp only [List.cons_append, opsOf]; exact List.mem_cons_of_mem _ (mem_opsOf_of_split p t m)

/-- Leg-by-leg reading of `linkClosed`. `D` (the mask) takes the same value on the output leg of an
op and on the input leg of the next op on that variable — the next op being searched in the rest of
the string and then, through the time boundary, from the start of the string again. -/
theorem ClusterMove.link {fr : SkOp → Bool} {b a : Config} (h : ClusterMove fr b a)
    (pre t : Slots) (m : Op) (hm : maskSlots b.slots a.slots = pre ++ some m :: t)
    (hn : m.vars.Nodup) (v : Nat) (hv : v ∈ m.vars) (x : Bool)
    (hx : firstIn v (t ++ maskSlots b.slots a.slots) = some x) : m.legOut v = some x := by
  have hc := h.linkClosed
  unfold Consistent at hc
  simp only [mask] at hc
  -- run the string twice
  have h2 : propagate (xorB b.state a.state) (maskSlots b.slots a.slots ++ maskSlots b.slots a.slots) =
      some (xorB b.state a.state) := by
    rw [propagate_append_bind, hc]; exact hc
  have hsplit : maskSlots b.slots a.slots ++ maskSlots b.slots a.slots =
      pre ++ (some m :: (t ++ maskSlots b.slots a.slots)) := by
    conv => lhs; arg 1; rw [hm]
    simp
  rw [hsplit, propagate_append_bind] at h2
  cases hp : propagate (xorB b.state a.state) pre with
  | none => rw [hp] at h2; cases h2
  | some st1 =>
    rw [hp] at h2
    simp only [Option.bind_some] at h2
    have hsh := maskSlots_shape h.ops m (by rw [hm]; exact mem_opsOf_of_split pre t m)
    exact propagate_link v m _ st1 _ x hn hsh.1 hsh.2 h2 hv hx

/-- the state at p = 0 is flipped exactly when the first input leg on the variable (the link
crossing the time boundary) is flipped -/
theorem ClusterMove.boundary_state {fr : SkOp → Bool} {b a : Config} (h : ClusterMove fr b a)
    (v : Nat) (x : Bool) (hx : firstIn v (maskSlots b.slots a.slots) = some x) :
    (xorB b.state a.state)[v]? = some x := by
  have hc := h.linkClosed
  unfold Consistent at hc
  simp only [mask] at hc
  exact propagate_firstIn v _ _ _ x hc hx

end Qmc
