import QmcProofs.RvbReverse
import QmcProofs.RvbBalance

/-!
# The SSE weight of a configuration factors through the segment abstraction

For a Good configuration `c` and a well-formed region `R` (`RegionOK`):

  `opsW E c.slots = restW … · weight (extract E c R).1 (extract E c R).2.1`   (`opsW_factor`)

— the product of all matrix elements is the weight the abstraction assigns to the operators it
counts (rotatable operators at the `w_before` of their boundary bond, enclosed operators at
`u_before`) times the product over the operators it does not count (`restW`). With
`ExtractFlip.restW_eq` (the uncounted operators have the same weights before and after a move) this
gives `π(b) / weight(P_b, c_b) = π(a) / weight(P_a, c_a)`, the link between the SSE weight and the
abstract detailed-balance identity.

Also: provenance of the extracted segments / pairs (`Prov`), from which `Admissible` follows
(`admissible_of_prov`).
-/

namespace Qmc.Rvb.Kernel
open Qmc Qmc.Rvb Qmc.Rvb.ExtractFlip

/-! ## the weight the sweep has accounted for -/

/-- weight of the rotatable operators of the open segment, at the current boundary -/
def curW (E : Ising) (s : Sweep) : Rat :=
  prodR (s.cur.map fun j => ((boundary E s.st s.mask).getD j (0, 0, 0)).2.1)

/-- the abstraction's weight of what the sweep has seen so far -/
def TW (E : Ising) (s : Sweep) : Rat :=
  prodR (s.inner.map (·.1)) * useBef s.segs s.asg * curW E s

theorem useBef_snoc (segs : List Seg) (asg : Assign) (sg : Seg) (js : List Nat)
    (h : segs.length = asg.length) :
    useBef (segs ++ [sg]) (asg ++ [js]) =
      useBef segs asg * prodR (js.map fun j => (sg.bonds.getD j (0, 0)).1) := by
  unfold useBef
  rw [List.zip_append h, List.map_append, prodR_append]
  simp

theorem tw_commit (E : Ising) (s : Sweep) (h : s.segs.length = s.asg.length) :
    TW E (s.commit E) = TW E s := by
  have hfun : (fun j => ((List.map (fun x : Nat × Rat × Rat => (x.2.1, x.2.2)) (boundary E s.st s.mask)).getD j
      (0, 0)).1) = fun j => ((boundary E s.st s.mask).getD j (0, 0, 0)).2.1 := by
    funext j
    simp only [List.getD_eq_getElem?_getD, List.getElem?_map]
    cases (boundary E s.st s.mask)[j]? <;> rfl
  unfold TW curW Sweep.commit
  simp only [List.map_nil, prodR_nil, mul_one]
  rw [useBef_snoc _ _ _ _ h, hfun]
  ring

theorem weight_eq_tw (E : Ising) (s : Sweep) (h : s.cur = []) :
    weight { segs := s.segs, inner := s.inner } s.asg = TW E s := by
  unfold TW curW
  rw [h]
  simp only [List.map_nil, prodR_nil, mul_one]
  rfl

/-! ## foreign operators do not move the boundary weights -/

theorem getB_writeVars_not_mem (st : List Bool) (vars : List Nat) (vals : List Bool) (i : Nat)
    (h : i ∉ vars) : getB (writeVars st vars vals) i = getB st i := by
  induction vars generalizing st vals with
  | nil => cases vals <;> simp [writeVars]
  | cons v vs ih =>
    cases vals with
    | nil => simp [writeVars]
    | cons b bs =>
      have e : writeVars st (v :: vs) (b :: bs) = writeVars (st.set v b) vs bs := by simp [writeVars]
      rw [e, ih _ _ (fun hm => h (List.mem_cons_of_mem _ hm)), getB_set]
      have : v ≠ i := fun e => h (by simp [e])
      simp [this]

theorem twoSite_zero (a b : Bool) : twoSite 0 a b = 0 := by
  unfold twoSite absR; split <;> simp

/-- the two hypotheses about the set `ins` of variables that are ever inside the region -/
structure Ctx (E : Ising) (R : Region) (ins : Nat → Prop) : Prop where
  cov : ∀ v, ins v → v ∈ R.subvars
  nbr : ∀ e ∈ E.edges, e.2.2 ≠ 0 → (ins e.1 ∨ ins e.2.1) → e.1 ∈ R.subvars ∧ e.2.1 ∈ R.subvars

theorem boundary_foreign {E : Ising} {R : Region} {ins : Nat → Prop} (hc : Ctx E R ins)
    (st mask : List Bool) (hm : ∀ v, getB mask v = true → ins v) (vars : List Nat) (vals : List Bool)
    (hfor : ∀ w ∈ vars, w ∉ R.subvars) :
    boundary E (writeVars st vars vals) mask = boundary E st mask := by
  unfold boundary
  apply List.filterMap_congr
  rintro ⟨b, u, v, j⟩ hmem
  have he : (u, v, j) ∈ E.edges := (List.of_mem_zip hmem).2
  by_cases hmk : (getB mask u != getB mask v) = true
  · simp only [hmk, if_true]
    by_cases hj : j = 0
    · subst hj; simp only [twoSite_zero]
    · have hin : ins u ∨ ins v := by
        cases hu : getB mask u with
        | true => exact Or.inl (hm u hu)
        | false =>
          rw [hu] at hmk
          exact Or.inr (hm v (by simpa using hmk))
      obtain ⟨hu, hv⟩ := hc.nbr (u, v, j) he hj hin
      have hu' : u ∉ vars := fun h => hfor u h hu
      have hv' : v ∉ vars := fun h => hfor v h hv
      rw [getB_writeVars_not_mem _ _ _ _ hu', getB_writeVars_not_mem _ _ _ _ hv']
  · simp only [hmk, Bool.false_eq_true, if_false]

/-! ## one operator -/

/-- invariant of the sweep state: membership inside `ins`, remaining toggles among the region's,
one assignment entry per committed segment -/
structure SInv (R : Region) (ins : Nat → Prop) (s : Sweep) : Prop where
  mask : ∀ v, getB s.mask v = true → ins v
  tog : ∀ x ∈ s.tog, x ∈ R.toggles
  len : s.segs.length = s.asg.length

theorem outs_eq_ins_of_edge {E : Ising} {o : Op} (hb : o.bond < E.edges.length) (hpos : 0 < E.opW o) :
    o.outs = o.ins := by
  by_contra hne
  have : E.opW o = 0 := by
    unfold Ising.opW Ising.w
    rw [if_pos hb, if_neg (fun e => hne e.symm)]
  rw [this] at hpos
  exact lt_irrefl _ hpos

theorem getB_toggleAt (mask : List Bool) (v w : Nat) (h : getB (toggleAt mask v) w = true) :
    w = v ∨ getB mask w = true := by
  by_cases e : w = v
  · exact Or.inl e
  · rw [getB_toggleAt_ne _ _ _ e] at h; exact Or.inr h

/-- **one step of the sweep**: the accounted weight grows by the matrix element of the operator iff
the operator is counted; the state invariant is kept; the sweep's state follows the propagation -/
theorem tw_step {E : Ising} {R : Region} {ins : Nat → Prop} (hc : Ctx E R ins) {s : Sweep} {p : Nat}
    {o : Op} (hs : SInv R ins s) (hL : o.LegalFor (isingHam E)) (hin : inputsMatch s.st o = true)
    (htog : s.tog.head? = some p → o.const = true ∧ ∀ v ∈ o.vars, ins v) :
    TW E (stepI E R s p o) = TW E s * (if touched E R s o = true then E.opW o else 1) ∧
      SInv R ins (stepI E R s p o) ∧ (stepI E R s p o).st = writeVars s.st o.vars o.outs := by
  have hok := opOK_of_legalFor hL
  have hpos := opW_pos_of_legalFor hL
  have hli : o.ins.length = o.vars.length := hL.2.2.2.2.1.1
  have hmatch : ((o.vars.zip o.ins).all fun vb => s.st[vb.1]? == some vb.2) = true := by
    simpa [inputsMatch] using hin
  have hdiag : o.tagDiag = true → writeVars s.st o.vars o.outs = s.st := by
    intro h; rw [hok.1 h]; exact writeVars_matched _ _ _ hmatch
  cases hvis : o.vars.any R.subvars.contains with
  | false =>
    have ht : touched E R s o = false := by simp [touched, hvis]
    have hfor : ∀ w ∈ o.vars, w ∉ R.subvars := by
      intro w hw hws
      have := (visited_iff R o).2 ⟨w, hw, hws⟩
      rw [hvis] at this; cases this
    rw [stepI_foreign E R s p o hvis, ht]
    refine ⟨?_, ⟨hs.mask, hs.tog, hs.len⟩, rfl⟩
    simp only [TW, curW, boundary_foreign hc s.st s.mask hs.mask o.vars o.outs hfor, Bool.false_eq_true,
      if_false, mul_one]
  | true =>
    cases hidx : ((boundary E s.st s.mask).map (·.1)).idxOf? o.bond with
    | some i =>
      have ht : touched E R s o = true := by simp [touched, hvis, hidx]
      rw [stepI_rot E R s p o i hvis hidx, ht]
      have hidx' := hidx
      unfold List.idxOf? at hidx'
      rw [List.findIdx?_eq_some_iff_getElem] at hidx'
      obtain ⟨hlt, hbeq, -⟩ := hidx'
      have hlt' : i < (boundary E s.st s.mask).length := by simpa using hlt
      have hb1 : ((boundary E s.st s.mask)[i]).1 = o.bond := by simpa using hbeq
      have hmem : (boundary E s.st s.mask)[i] ∈ boundary E s.st s.mask := List.getElem_mem _
      rcases hx : (boundary E s.st s.mask)[i] with ⟨b0, wb, wa⟩
      rw [hx] at hb1 hmem
      simp only at hb1
      subst hb1
      obtain ⟨u, v, j, he, -, hwb, -⟩ := mem_boundary hmem
      have hvars := hok.2.1 u v j he
      obtain ⟨hins, -, -⟩ := ins_of_match hvars hli hin
      have hio : o.outs = o.ins := outs_eq_ins_of_edge (lt_of_getElem?_some he) hpos
      have hw : E.opW o = wb := by rw [opW_edge he hio hins, hwb]
      have hgd : (boundary E s.st s.mask).getD i (0, 0, 0) = (o.bond, wb, wa) := by
        rw [List.getD_eq_getElem?_getD, List.getElem?_eq_getElem hlt', hx]; rfl
      refine ⟨?_, ⟨hs.mask, hs.tog, hs.len⟩, ?_⟩
      · simp only [TW, curW, List.map_append, List.map_cons, List.map_nil, prodR_append, prodR_cons, prodR_nil,
          hgd, if_true, hw]
        ring
      · show s.st = _
        rw [hio]; exact (writeVars_matched _ _ _ hmatch).symm
    | none =>
      have ht : touched E R s o = o.vars.all (getB s.mask) := by simp [touched, hvis, hidx]
      rw [stepI_other E R s p o hvis hidx, ht]
      obtain ⟨a1, a2, a3, a4, a5, a6⟩ := addInner_fields E s o
      have h1 : TW E (addInner E s o) = TW E s * (if o.vars.all (getB s.mask) = true then E.opW o else 1) := by
        unfold addInner
        by_cases hall : o.vars.all (getB s.mask) = true
        · rw [if_pos hall, if_pos hall]
          simp only [TW, curW, List.map_append, List.map_cons, List.map_nil, prodR_append, prodR_cons, prodR_nil]
          ring
        · rw [if_neg hall, if_neg hall, mul_one]
      have hlen1 : (addInner E s o).segs.length = (addInner E s o).asg.length := by rw [a5, a6]; exact hs.len
      obtain ⟨f1, f2, f3⟩ := pre_fields E s o (!o.tagDiag || s.tog.head? == some p)
      have f_tw : TW E (if (!o.tagDiag || s.tog.head? == some p) = true then (addInner E s o).commit E
          else addInner E s o) = TW E s * (if o.vars.all (getB s.mask) = true then E.opW o else 1) := by
        rw [← h1]
        cases (!o.tagDiag || s.tog.head? == some p)
        · rfl
        · exact tw_commit E _ hlen1
      have f_len : (if (!o.tagDiag || s.tog.head? == some p) = true then (addInner E s o).commit E
          else addInner E s o).segs.length = (if (!o.tagDiag || s.tog.head? == some p) = true then
            (addInner E s o).commit E else addInner E s o).asg.length := by
        cases (!o.tagDiag || s.tog.head? == some p)
        · exact hlen1
        · show ((addInner E s o).segs ++ [_]).length = ((addInner E s o).asg ++ [_]).length
          simp [hlen1]
      have f_cur : (!o.tagDiag || s.tog.head? == some p) = true →
          (if (!o.tagDiag || s.tog.head? == some p) = true then (addInner E s o).commit E
            else addInner E s o).cur = [] := by
        intro h; rw [if_pos h]; rfl
      generalize (if (!o.tagDiag || s.tog.head? == some p) = true then (addInner E s o).commit E
          else addInner E s o) = s2 at f1 f2 f3 f_tw f_len f_cur ⊢
      refine ⟨?_, ⟨?_, ?_, f_len⟩, ?_⟩
      · rw [← f_tw]
        cases hcc : (!o.tagDiag || s.tog.head? == some p) with
        | true =>
          have := f_cur hcc
          simp only [TW, curW, finish, this, List.map_nil]
        | false =>
          have h1 : o.tagDiag = true := by
            cases hh : o.tagDiag with
            | true => rfl
            | false => rw [hh] at hcc; simp at hcc
          have h2 : (s.tog.head? == some p) = false := by
            cases hh : (s.tog.head? == some p) with
            | false => rfl
            | true => rw [hh] at hcc; simp at hcc
          simp only [TW, curW, finish, h1, h2, Bool.not_true, Bool.false_eq_true, if_false]
      · intro v hv
        change getB (if (s.tog.head? == some p) = true then toggleAt s2.mask (o.vars.headD 0) else s2.mask) v = true
          at hv
        rw [f2] at hv
        by_cases hT : (s.tog.head? == some p) = true
        · rw [if_pos hT] at hv
          obtain ⟨hconst, hvin⟩ := htog (by simpa using hT)
          rcases getB_toggleAt _ _ _ hv with e | e
          · subst e
            obtain ⟨t1, t2⟩ := hok.2.2 hconst
            have hv1 : o.vars = [o.bond - E.edges.length] := by
              rw [hL.2.1]
              simp only [isingHam, isingEdges, isingClusterHam, List.length_map]
              rw [if_neg (by omega), if_pos t2]
            exact hvin _ (by rw [hv1]; simp)
          · exact hs.mask v e
        · rw [if_neg hT] at hv; exact hs.mask v hv
      · intro x hx
        change x ∈ (if (s.tog.head? == some p) = true then s2.tog.tail else s2.tog) at hx
        rw [f3] at hx
        by_cases hT : (s.tog.head? == some p) = true
        · rw [if_pos hT] at hx; exact hs.tog x (List.mem_of_mem_tail hx)
        · rw [if_neg hT] at hx; exact hs.tog x hx
      · show (if (!o.tagDiag) = true then writeVars s2.st o.vars o.outs else s2.st) = _
        rw [f1]
        cases hh : o.tagDiag with
        | false => simp
        | true => simp [hdiag hh]

/-! ## the whole sweep -/

theorem tw_run {E : Ising} {R : Region} {ins : Nat → Prop} (hc : Ctx E R ins) :
    ∀ (sl : Slots) (s : Sweep) (p : Nat), SInv R ins s →
      (∀ o, some o ∈ sl → o.LegalFor (isingHam E)) → (∃ e, propagate s.st sl = some e) →
      (∀ (k : Nat) (o : Op), sl[k]? = some (some o) → p + k ∈ R.toggles →
        o.const = true ∧ ∀ v ∈ o.vars, ins v) →
      opsW E sl * TW E s = restW E R s p sl * TW E (runI E R s p sl) ∧
        (runI E R s p sl).segs.length = (runI E R s p sl).asg.length
  | [], s, p, hs, _, _, _ => by simp [opsW, restW, runI, hs.len]
  | none :: t, s, p, hs, hl, hp, ht => by
    have := tw_run hc t s (p + 1) hs (fun o ho => hl o (List.mem_cons_of_mem _ ho))
      (by simpa [propagate] using hp)
      (fun k o hk hpk => ht (k + 1) o (by simpa using hk) (by rw [← Nat.add_assoc, Nat.add_right_comm]; exact hpk))
    simpa [opsW, restW, runI] using this
  | some o :: t, s, p, hs, hl, hp, ht => by
    obtain ⟨e, he⟩ := hp
    have hin : inputsMatch s.st o = true := by
      cases hh : inputsMatch s.st o with
      | true => rfl
      | false => simp [propagate, applyOp, hh] at he
    have he' : propagate (writeVars s.st o.vars o.outs) t = some e := by
      simpa [propagate, applyOp, hin] using he
    obtain ⟨h1, h2, h3⟩ := tw_step (R := R) (p := p) hc hs (hl o (by simp)) hin
      (fun hh => ht 0 o rfl (hs.tog p (List.mem_of_head? hh)))
    obtain ⟨ih, ihl⟩ := tw_run hc t (stepI E R s p o) (p + 1) h2 (fun o ho => hl o (List.mem_cons_of_mem _ ho))
      ⟨e, by rw [h3]; exact he'⟩
      (fun k o hk hpk => ht (k + 1) o (by simpa using hk) (by rw [← Nat.add_assoc, Nat.add_right_comm]; exact hpk))
    refine ⟨?_, ihl⟩
    show E.opW o * opsW E t * TW E s =
      (if touched E R s o = true then 1 else E.opW o) * restW E R (stepI E R s p o) (p + 1) t *
        TW E (runI E R (stepI E R s p o) (p + 1) t)
    rw [mul_assoc _ (restW E R (stepI E R s p o) (p + 1) t) _, ← ih, h1]
    cases touched E R s o
    · simp only [Bool.false_eq_true, if_false]; ring
    · simp only [if_true]; ring

/-- **the SSE weight factors through the abstraction**: for a Good configuration and a well-formed
region whose sweep is not abandoned, the product of all matrix elements is `restW` (the operators the
abstraction does not count) times the abstraction's weight of the current assignment -/
theorem opsW_factor {E : Ising} {c : Config} {R : Region} (hg : Good (isingHam E) c) (hR : RegionOK E c R)
    (hnb : (rvbCodeMult E c R).2 = false) :
    opsW E c.slots = restW E R { st := c.state, mask := R.mask0, tog := R.toggles } 0 c.slots *
      weight (extract E c R).1 (extract E c R).2.1 := by
  have hc : Ctx E R (EverIn c R) := ⟨hR.cov, hR.nbr⟩
  have hs0 : SInv R (EverIn c R) { st := c.state, mask := R.mask0, tog := R.toggles } :=
    ⟨fun v hv => Or.inl hv, fun _ hx => hx, rfl⟩
  obtain ⟨h1, h2⟩ := tw_run hc c.slots _ 0 hs0 hg.2 ⟨c.state, hg.1⟩
    (fun k o hk hpk => by
      have hp : k ∈ R.toggles := by simpa using hpk
      exact ⟨hR.tog k hp o hk, fun v hv => Or.inr ⟨k, hp, o, hk, hv⟩⟩)
  have h0 : TW E { st := c.state, mask := R.mask0, tog := R.toggles } = 1 := by
    simp [TW, curW, useBef]
  rw [h0, mul_one] at h1
  rw [h1]
  unfold extract
  simp only
  rw [run_eq_runI E R c.slots _ 0 (run_not_broke E c R hnb)]
  rw [weight_eq_tw E _ rfl, tw_commit E _ h2]

/-! ## where the extracted data come from; `Admissible` -/

/-- the segment of boundary bonds for a state and a membership -/
def segOf (E : Ising) (st mask : List Bool) : Seg :=
  { bonds := (boundary E st mask).map fun x => (x.2.1, x.2.2) }

/-- every committed segment is the boundary of some state and membership, every enclosed-operator
pair is `(⟨o⟩, ⟨o flipped⟩)` for some operator -/
structure Prov (E : Ising) (s : Sweep) : Prop where
  segs : ∀ sg ∈ s.segs, ∃ st mask, sg = segOf E st mask
  inner : ∀ pr ∈ s.inner, ∃ o : Op, pr = (E.opW o, E.w o.bond (flipAll o.ins) (flipAll o.outs))

theorem prov_commit {E : Ising} {s : Sweep} (h : Prov E s) : Prov E (s.commit E) := by
  refine ⟨?_, h.inner⟩
  intro sg hsg
  change sg ∈ s.segs ++ [_] at hsg
  rcases List.mem_append.1 hsg with h1 | h1
  · exact h.segs sg h1
  · rw [List.mem_singleton] at h1
    exact ⟨s.st, s.mask, h1⟩

theorem prov_addInner {E : Ising} {s : Sweep} (h : Prov E s) (o : Op) : Prov E (addInner E s o) := by
  unfold addInner
  split
  · refine ⟨h.segs, ?_⟩
    intro pr hpr
    change pr ∈ s.inner ++ [_] at hpr
    rcases List.mem_append.1 hpr with h1 | h1
    · exact h.inner pr h1
    · rw [List.mem_singleton] at h1; exact ⟨o, h1⟩
  · exact h

theorem prov_stepI {E : Ising} (R : Region) {s : Sweep} (h : Prov E s) (p : Nat) (o : Op) :
    Prov E (stepI E R s p o) := by
  unfold stepI
  split
  · exact ⟨h.segs, h.inner⟩
  · split
    · exact ⟨h.segs, h.inner⟩
    · have h1 := prov_addInner h o
      have h2 : Prov E (if (!o.tagDiag || s.tog.head? == some p) = true then (addInner E s o).commit E
          else addInner E s o) := by
        split
        · exact prov_commit h1
        · exact h1
      exact ⟨h2.segs, h2.inner⟩

theorem prov_runI {E : Ising} (R : Region) : ∀ (sl : Slots) (s : Sweep) (p : Nat), Prov E s →
    Prov E (runI E R s p sl)
  | [], _, _, h => h
  | none :: t, s, p, h => prov_runI R t s (p + 1) h
  | some o :: t, _, p, h => prov_runI R t _ (p + 1) (prov_stepI R h p o)

theorem twoSite_nonneg (j : Rat) (a b : Bool) : 0 ≤ twoSite j a b := by
  unfold twoSite absR
  split <;> split <;> linarith

theorem isingW_nonneg (E : Ising) (hg : 0 ≤ E.gamma) (b : Nat) (i o : List Bool) : 0 ≤ E.w b i o := by
  unfold Ising.w
  split
  · split
    · exact twoSite_nonneg _ _ _
    · exact le_refl _
  · split
    · exact hg
    · unfold longitudinal absR
      split
      · split <;> split <;> linarith
      · exact le_refl _

theorem segOf_nonneg (E : Ising) (st mask : List Bool) : SegNonneg (segOf E st mask) := by
  intro pr hpr
  unfold segOf at hpr
  obtain ⟨⟨b, wb, wa⟩, hx, rfl⟩ := List.mem_map.1 hpr
  obtain ⟨u, v, j, -, -, h1, h2⟩ := mem_boundary hx
  simp only
  rw [h1, h2]
  exact ⟨twoSite_nonneg _ _ _, twoSite_nonneg _ _ _⟩

/-- the "totals closer than eps" shortcut of `calculate_mult` is exact on every boundary this model
can produce (trivially for `eps ≤ 0`; for the code's `eps = 2⁻⁵²` e.g. when all couplings are multiples
of a grid step `g ≥ eps/2`, cf. `Qmc.C03.calculateMult_grid`) -/
def CloseExact (E : Ising) (eps : Rat) : Prop :=
  ∀ st mask, absR ((segOf E st mask).wBef - (segOf E st mask).wAft) < eps →
    (segOf E st mask).wBef = (segOf E st mask).wAft

theorem closeExact_of_nonpos (E : Ising) {eps : Rat} (h : eps ≤ 0) : CloseExact E eps := by
  intro st mask hlt
  have := absR_nonneg ((segOf E st mask).wBef - (segOf E st mask).wAft)
  linarith

theorem prodR_eq_zero_of_mem {l : List Rat} (h : (0 : Rat) ∈ l) : prodR l = 0 := by
  induction l with
  | nil => simp at h
  | cons a t ih =>
    rcases List.mem_cons.1 h with e | e
    · rw [prodR_cons, ← e, zero_mul]
    · rw [prodR_cons, ih e, mul_zero]

/-- a segment holding rotatable operators has a positive total before the flip, because the
assignment's weight does not vanish -/
theorem occupied_of_useBef (segs : List Seg) (asg : Assign) (hn : ∀ s ∈ segs, SegNonneg s)
    (hw : useBef segs asg ≠ 0) :
    ∀ sk ∈ segs.zip (asg.map List.length), sk.2 ≠ 0 → sk.1.wBef ≠ 0 := by
  intro sk hsk hk h0
  apply hw
  apply useBef_zero_of_powBef_zero segs asg hn
  unfold powBef
  apply prodR_eq_zero_of_mem
  refine List.mem_map.2 ⟨sk, hsk, ?_⟩
  rw [h0, zero_pow hk]

theorem opsW_pos {E : Ising} : ∀ (s : Slots), (∀ o, some o ∈ s → 0 < E.opW o) → 0 < opsW E s
  | [], _ => by simp [opsW]
  | none :: t, h => by
    simp only [opsW]; exact opsW_pos t (fun o ho => h o (List.mem_cons_of_mem _ ho))
  | some o :: t, h => by
    simp only [opsW]
    exact mul_pos (h o (by simp)) (opsW_pos t (fun o' ho => h o' (List.mem_cons_of_mem _ ho)))

/-- **`Admissible` is no longer a hypothesis** for abstractions extracted from Good configurations -/
theorem admissible_of_good {E : Ising} {c : Config} {R : Region} {eps : Rat} (hg : Good (isingHam E) c)
    (hR : RegionOK E c R) (hnb : (rvbCodeMult E c R).2 = false) (hgam : 0 ≤ E.gamma)
    (hclose : CloseExact E eps) :
    Admissible (extract E c R).1 ((extract E c R).2.1.map List.length) eps := by
  have hfac := opsW_factor hg hR hnb
  have hpos : 0 < opsW E c.slots := opsW_pos c.slots (fun o ho => opW_pos_of_legalFor (hg.2 o ho))
  have hw : weight (extract E c R).1 (extract E c R).2.1 ≠ 0 := by
    intro h0; rw [hfac, h0, mul_zero] at hpos; exact lt_irrefl _ hpos
  have hprov : Prov E ((runI E R { st := c.state, mask := R.mask0, tog := R.toggles } 0 c.slots).commit E) :=
    prov_commit (prov_runI R c.slots _ 0 ⟨fun _ h => by simp at h, fun _ h => by simp at h⟩)
  have hex : extract E c R =
      ({ segs := ((runI E R { st := c.state, mask := R.mask0, tog := R.toggles } 0 c.slots).commit E).segs,
         inner := ((runI E R { st := c.state, mask := R.mask0, tog := R.toggles } 0 c.slots).commit E).inner },
       ((runI E R { st := c.state, mask := R.mask0, tog := R.toggles } 0 c.slots).commit E).asg,
       (extract E c R).2.2) := by
    unfold extract
    simp only
    rw [run_eq_runI E R c.slots _ 0 (run_not_broke E c R hnb)]
  rw [hex] at hw ⊢
  generalize ((runI E R { st := c.state, mask := R.mask0, tog := R.toggles } 0 c.slots).commit E) = sC
    at hprov hw ⊢
  simp only at hw ⊢
  have hsn : ∀ sg ∈ sC.segs, SegNonneg sg := by
    intro sg hsg
    obtain ⟨st, mask, rfl⟩ := hprov.segs sg hsg
    exact segOf_nonneg E st mask
  refine ⟨hsn, ?_, ?_, ?_⟩
  · intro pr hpr
    obtain ⟨o, rfl⟩ := hprov.inner pr hpr
    exact ⟨isingW_nonneg E hgam _ _ _, isingW_nonneg E hgam _ _ _⟩
  · intro sg hsg
    obtain ⟨st, mask, rfl⟩ := hprov.segs sg hsg
    exact hclose st mask
  · apply occupied_of_useBef sC.segs sC.asg hsn
    intro h0
    apply hw
    show prodR (sC.inner.map (·.1)) * useBef sC.segs sC.asg = 0
    rw [h0, mul_zero]

/-! ### `CloseExact` for couplings on a grid -/

theorem twoSite_grid (g : Rat) (k : Int) (a b : Bool) : ∃ m : Int, twoSite ((k : Rat) * g) a b = (m : Rat) * (2 * g) := by
  unfold twoSite absR
  split
  · split
    · exact ⟨-k, by push_cast; ring⟩
    · exact ⟨0, by push_cast; ring⟩
  · split
    · exact ⟨0, by push_cast; ring⟩
    · exact ⟨k, by ring⟩

theorem sum_grid (G : Rat) : ∀ l : List Rat, (∀ x ∈ l, ∃ m : Int, x = (m : Rat) * G) →
    ∃ M : Int, l.sum = (M : Rat) * G
  | [], _ => ⟨0, by simp⟩
  | x :: t, h => by
    obtain ⟨m, hm⟩ := h x (by simp)
    obtain ⟨M, hM⟩ := sum_grid G t (fun y hy => h y (List.mem_cons_of_mem _ hy))
    exact ⟨m + M, by rw [List.sum_cons, hm, hM]; push_cast; ring⟩

/-- **`CloseExact` holds when all couplings are integer multiples of a step `g` with `eps ≤ 2g`** —
in particular for dyadic couplings `k/8`, `k/16`, … against the code's `eps = 2⁻⁵²` -/
theorem closeExact_of_grid (E : Ising) (g eps : Rat) (hg : eps ≤ 2 * g)
    (hJ : ∀ e ∈ E.edges, ∃ k : Int, e.2.2 = (k : Rat) * g) : CloseExact E eps := by
  intro st mask
  have hentry : ∀ x ∈ boundary E st mask, (∃ m : Int, x.2.1 = (m : Rat) * (2 * g)) ∧
      ∃ m : Int, x.2.2 = (m : Rat) * (2 * g) := by
    rintro ⟨b, wb, wa⟩ hx
    obtain ⟨u, v, j, he, -, h1, h2⟩ := mem_boundary hx
    obtain ⟨k, hk⟩ := hJ (u, v, j) (List.mem_of_getElem? he)
    simp only at hk ⊢
    rw [h1, h2, hk]
    exact ⟨twoSite_grid g k _ _, twoSite_grid g k _ _⟩
  obtain ⟨B, hB⟩ : ∃ B : Int, (segOf E st mask).wBef = (B : Rat) * (2 * g) := by
    unfold Seg.wBef segOf
    apply sum_grid
    intro x hx
    simp only [List.map_map, List.mem_map, Function.comp] at hx
    obtain ⟨y, hy, rfl⟩ := hx
    exact (hentry y hy).1
  obtain ⟨A, hA⟩ : ∃ A : Int, (segOf E st mask).wAft = (A : Rat) * (2 * g) := by
    unfold Seg.wAft segOf
    apply sum_grid
    intro x hx
    simp only [List.map_map, List.mem_map, Function.comp] at hx
    obtain ⟨y, hy, rfl⟩ := hx
    exact (hentry y hy).2
  rw [hB, hA]
  exact close_exact_on_grid (2 * g) eps B A hg

end Qmc.Rvb.Kernel
