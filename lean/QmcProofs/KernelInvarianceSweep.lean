import QmcProofs.KernelInvarianceSlot

/-!
# The model's sweep visits slot `p` with `stateAt` of the current configuration
(helper of `KernelInvariance.lean`)

`sweepAux` threads a rolling state through the slots.  For both slot functions of the model that
state is `rollState` (only operators tagged off-diagonal write), and it can be read off the
*already updated* prefix: when the sweep arrives at slot `|pre|` the state it holds is
`stateAt ⟨st, updated pre ++ s :: post⟩ |pre|` — the state the slot kernel `slotKM … |pre|` uses on the
configuration produced so far.  Together with `sweep_uses_current_n` (same statement for the count)
this is why the sweep is the composition of the slot kernels.
-/

namespace Qmc.Kernel
open Qmc

theorem rollState_cons (st : List Bool) (s : Option Op) (t : Slots) :
    rollState st (s :: t) = rollState (rollState st [s]) t := by
  cases s with
  | none => rfl
  | some o =>
    simp only [rollState]
    split <;> rfl

theorem rollState_append (st : List Bool) : ∀ (a b : Slots),
    rollState st (a ++ b) = rollState (rollState st a) b
  | [], _ => rfl
  | s :: t, b => by
    rw [List.cons_append, rollState_cons, rollState_append _ t b, ← rollState_cons]

/-- the state a slot function hands on is the rolling state -/
def StateOK (f : Option Op → List Bool → Nat → RS → SlotRes) : Prop :=
  ∀ s st n rs, (f s st n rs).state = rollState st [s]

theorem metropolisSlot_stateOK (H : Ham) (β : Rat) (L : Nat) : StateOK (metropolisSlot H β L) := by
  intro s st n rs
  unfold metropolisSlot
  cases s with
  | none =>
    simp only [rollState]
    split
    · rfl
    · split <;> rfl
  | some op =>
    simp only [rollState]
    split
    · split
      · rfl
      · split <;> rfl
    · rfl

theorem heatBathSlot_stateOK (H : Ham) (bw : BW) (β : Rat) (L : Nat) :
    StateOK (heatBathSlot H bw β L) := by
  intro s st n rs
  unfold heatBathSlot
  cases s with
  | none =>
    simp only [rollState]
    split
    · rfl
    · split
      · rfl
      · split
        · rfl
        · split
          · rfl
          · split
            · rfl
            · split <;> rfl
  | some op =>
    simp only [rollState]
    split
    · split
      · rfl
      · split
        · rfl
        · split
          · rfl
          · split <;> rfl
    · rfl

/-- a slot function that respects `SlotOK` leaves a slot with the same effect on the rolling state -/
theorem rollState_slot_eq (f : Option Op → List Bool → Nat → RS → SlotRes) (hf : SlotOK f)
    (s : Option Op) (st st' : List Bool) (n : Nat) (rs : RS) :
    rollState st' [(f s st n rs).slot] = rollState st' [s] := by
  cases s with
  | none =>
    have hk := hf.kind none st n rs (fun op h => by cases h)
    cases hr : (f none st n rs).slot with
    | none => rfl
    | some o' => simp only [rollState, hk o' hr, if_true]
  | some op =>
    cases hd : op.tagDiag
    · rw [hf.offdiag op st n rs hd]
    · have hk := hf.kind (some op) st n rs (fun op' h => by cases h; exact hd)
      cases hr : (f (some op) st n rs).slot with
      | none => simp only [rollState, hd, if_true]
      | some o' => simp only [rollState, hk o' hr, hd, if_true]

/-- the rolling state after sweeping `sl` is `rollState` of the original and of the updated slots -/
theorem sweepAux_state (f : Option Op → List Bool → Nat → RS → SlotRes) (hf : SlotOK f) (hs : StateOK f) :
    ∀ (sl : Slots) (st : List Bool) (n : Nat) (rs : RS),
      (sweepAux f sl st n rs).2.1 = rollState st sl ∧
      (sweepAux f sl st n rs).2.1 = rollState st (sweepAux f sl st n rs).1
  | [], _, _, _ => ⟨rfl, rfl⟩
  | s :: t, st, n, rs => by
    rw [sweepAux_cons]
    simp only
    obtain ⟨h1, h2⟩ := sweepAux_state f hf hs t (f s st n rs).state (f s st n rs).n (f s st n rs).rs
    constructor
    · rw [h1, hs s st n rs, ← rollState_cons]
    · rw [h2, rollState_cons st (f s st n rs).slot, rollState_slot_eq f hf s st st n rs, ← hs s st n rs]

/-- **the sweep visits slot `|pre|` with `stateAt` of the configuration produced so far**
(already updated prefix, the slot itself, untouched suffix) -/
theorem sweep_uses_stateAt (f : Option Op → List Bool → Nat → RS → SlotRes) (hf : SlotOK f)
    (hs : StateOK f) (pre : Slots) (s : Option Op) (post : Slots) (st : List Bool) (n : Nat) (rs : RS) :
    (sweepAux f pre st n rs).2.1 =
      stateAt { state := st, slots := (sweepAux f pre st n rs).1 ++ s :: post } pre.length := by
  unfold stateAt
  simp only
  have hl := sweepAux_length f pre st n rs
  rw [← hl, List.take_left']
  · exact (sweepAux_state f hf hs pre st n rs).2
  · rfl

theorem sweep_uses_stateAt_M (H : Ham) (β : Rat) (L : Nat) (pre : Slots) (s : Option Op) (post : Slots)
    (st : List Bool) (n : Nat) (rs : RS) :
    (sweepAux (metropolisSlot H β L) pre st n rs).2.1 =
      stateAt { state := st, slots := (sweepAux (metropolisSlot H β L) pre st n rs).1 ++ s :: post }
        pre.length :=
  sweep_uses_stateAt _ (metropolisSlot_ok H β L) (metropolisSlot_stateOK H β L) pre s post st n rs

theorem sweep_uses_stateAt_HB (H : Ham) (bw : BW) (β : Rat) (L : Nat) (pre : Slots) (s : Option Op)
    (post : Slots) (st : List Bool) (n : Nat) (rs : RS) :
    (sweepAux (heatBathSlot H bw β L) pre st n rs).2.1 =
      stateAt { state := st, slots := (sweepAux (heatBathSlot H bw β L) pre st n rs).1 ++ s :: post }
        pre.length :=
  sweep_uses_stateAt _ (heatBathSlot_ok H bw β L) (heatBathSlot_stateOK H bw β L) pre s post st n rs

end Qmc.Kernel
