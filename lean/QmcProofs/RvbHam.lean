import QmcProofs.RvbExtractFlip
import QmcProofs.Good
import QmcModel.Diagonal
import Mathlib.Tactic.Ring

/-!
# The Ising Hamiltonian of the RVB model (`Rvb.Ising`) as a `Ham`

`isingHam E` = `isingClusterHam` (the Hamiltonian of the kernel development) for the parameters of
`E`; on operators of the right shape its matrix elements are `E.opW` (`isingHam_w`), so the SSE
weight of a Good configuration is `κ(n, L) · opsW E slots`. `opOK_of_legalFor`: the side conditions
of the extract-flip lemma follow from C07's `Legal`.
-/

namespace Qmc.Rvb.Kernel
open Qmc Qmc.Rvb Qmc.Rvb.ExtractFlip


/-- `QmcIsingGraph`'s Hamiltonian for the parameters of `E`, in the form the kernel development uses
(`isingClusterHam`: edges, then one transverse bond per variable, then one longitudinal bond) -/
def isingEdges (E : Ising) : List (List Nat × Rat) := E.edges.map fun e => ([e.1, e.2.1], e.2.2)

def isingHam (E : Ising) : Ham := isingClusterHam (isingEdges E) E.gamma E.h E.nvars

/-- product of the matrix elements `E.opW` over the operator string -/
def opsW (E : Ising) : Slots → Rat
  | [] => 1
  | none :: t => opsW E t
  | some o :: t => E.opW o * opsW E t

theorem isingHam_vars_edge (E : Ising) (b : Nat) (u v : Nat) (j : Rat) (h : E.edges[b]? = some (u, v, j)) :
    (isingHam E).vars b = [u, v] := by
  have hb : b < E.edges.length := by
    by_contra hc
    rw [List.getElem?_eq_none (by omega)] at h; cases h
  simp only [isingHam, isingEdges, isingClusterHam, List.length_map, hb, if_true, List.getElem?_map, h, Option.map_some,
    Option.getD_some]

/-- on operators of the right shape the two formulations of the matrix elements agree -/
theorem isingHam_w (E : Ising) (o : Op) (hv : o.vars = (isingHam E).vars o.bond)
    (hi : o.ins.length = o.vars.length) (ho : o.outs.length = o.vars.length) :
    (isingHam E).w o.bond o.ins o.outs = E.opW o := by
  unfold Ising.opW Ising.w
  by_cases h1 : o.bond < E.edges.length
  · rcases he : E.edges[o.bond] with ⟨u, v, j⟩
    have he' : E.edges[o.bond]? = some (u, v, j) := by rw [List.getElem?_eq_getElem h1, he]
    have hvv := isingHam_vars_edge E o.bond u v j he'
    rw [← hv] at hvv
    rw [hvv] at hi ho
    have hgd : E.edges.getD o.bond (0, 0, 0) = (u, v, j) := by
      rw [List.getD_eq_getElem?_getD, he']; rfl
    simp only [isingHam, isingEdges, isingClusterHam, List.length_map, h1, if_true, List.getElem?_map, he', Option.map_some,
      Option.getD_some, hgd]
    match hio : o.ins, o.outs, hi, ho with
    | [a, b], [c, d], _, _ =>
      simp only [twoSiteW, twoSite, List.getD_cons_zero, List.getD_cons_succ, Qmc.absR, Qmc.Rvb.absR]
      by_cases e1 : a = c <;> by_cases e2 : b = d <;> simp [e1, e2]
  · by_cases h2 : o.bond < E.edges.length + E.nvars
    · simp only [isingHam, isingEdges, isingClusterHam, List.length_map, h1, h2, if_true, if_false, transverseW]
    · have hvv : (isingHam E).vars o.bond = [o.bond - E.edges.length - E.nvars] := by
        simp only [isingHam, isingEdges, isingClusterHam, List.length_map, h1, h2, if_false]
      rw [← hv] at hvv
      rw [hvv] at hi ho
      simp only [isingHam, isingEdges, isingClusterHam, List.length_map, h1, h2, if_false]
      match hio : o.ins, o.outs, hi, ho with
      | [a], [c], _, _ =>
        simp only [longitudinalW, longitudinal, List.getD_cons_zero, Qmc.absR, Qmc.Rvb.absR]
        by_cases e1 : a = c <;> simp [e1]

theorem opsWeight_eq_opsW (E : Ising) : ∀ (s : Slots),
    (∀ o, some o ∈ s → o.vars = (isingHam E).vars o.bond ∧ o.ins.length = o.vars.length ∧
      o.outs.length = o.vars.length) → opsWeight (isingHam E) s = opsW E s
  | [], _ => rfl
  | none :: t, h => by
    simp only [opsWeight, opsW]
    exact opsWeight_eq_opsW E t (fun o ho => h o (List.mem_cons_of_mem _ ho))
  | some o :: t, h => by
    simp only [opsWeight, opsW]
    obtain ⟨h1, h2, h3⟩ := h o (by simp)
    rw [isingHam_w E o h1 h2 h3, opsWeight_eq_opsW E t (fun o ho => h o (List.mem_cons_of_mem _ ho))]

theorem shape_of_good {E : Ising} {c : Config} (h : Good (isingHam E) c) :
    ∀ o, some o ∈ c.slots → o.vars = (isingHam E).vars o.bond ∧ o.ins.length = o.vars.length ∧
      o.outs.length = o.vars.length := by
  intro o ho
  obtain ⟨-, l2, -, -, l5, -⟩ := h.2 o ho
  exact ⟨l2, l5.1, l5.2.1⟩

theorem edgeOpsNotConst_of_good {E : Ising} {c : Config} (h : Good (isingHam E) c) :
    edgeOpsNotConst E c.slots = true := by
  unfold edgeOpsNotConst
  rw [List.all_eq_true]
  intro x hx
  cases x with
  | none => rfl
  | some o =>
    obtain ⟨-, -, l3, -⟩ := h.2 o hx
    simp only [Bool.not_eq_true', Bool.and_eq_false_iff, decide_eq_false_iff_not]
    by_cases hlt : o.bond < E.edges.length
    · right
      rw [l3]
      simp only [isingHam, isingEdges, isingClusterHam, List.length_map, decide_eq_false_iff_not]
      omega
    · left; exact hlt


/-- the side conditions of the extract-flip lemma are consequences of legality -/
theorem opOK_of_legalFor {E : Ising} {o : Op} (h : o.LegalFor (isingHam E)) : OpOK E o := by
  obtain ⟨-, l2, l3, -, l5, -⟩ := h
  refine ⟨l5.2.2.2, ?_, ?_⟩
  · intro u v j he
    rw [l2]; exact isingHam_vars_edge E o.bond u v j he
  · intro hc
    rw [l3] at hc
    simpa [isingHam, isingEdges, isingClusterHam] using hc

theorem opsOK_of_good {E : Ising} {c : Config} (h : Good (isingHam E) c) : OpsOK E c.slots :=
  fun o ho => opOK_of_legalFor (h.2 o ho)

end Qmc.Rvb.Kernel
