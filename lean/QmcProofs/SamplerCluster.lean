/-
Whole-timestep theorems, C09 side (namespace `Qmc.Sampler`): the cluster kernel `clusterK` the
whole-step model plugs in (QmcModel/Sampler.lean; = the exact `clusterUpdate` of C09) satisfies the
hypothesis `ClusterCert` (QmcProofs/SamplerBridge.lean) under which QmcProofs/SamplerStep.lean proves
`isingTimestepWith_pres` / `isingRunWith_inv` / `genericTimestepWith_pres` / `genericRunWith_inv`.

The one-line composition `isingTimestep_pres := isingTimestepWith_pres clusterK … (ising_clusterCert …)`
cannot be type-checked: this file needs QmcModel/Cluster.lean, SamplerStep.lean needs
QmcModel/Worldline.lean, and both declare `Qmc.maskOp` / `Qmc.maskSlots` (their proof files share five
more names). Both halves state the SAME proposition `ClusterCert H K` (defined over QmcModel/Basic.lean
and QmcProofs/RefinementBridge.lean only).
-/
import QmcModel.Sampler
import QmcProofs.SamplerBridge
import QmcProofs.RefinementClusterExact

namespace Qmc.Sampler
open Qmc Qmc.Refine

theorem some_mem_of_mem_opsOf' : ∀ {s : Slots} {o : Op}, o ∈ opsOf s → some o ∈ s
  | [], _, h => by simp [opsOf] at h
  | none :: t, _, h => List.mem_cons_of_mem _ (some_mem_of_mem_opsOf' (s := t) (by simpa [opsOf] using h))
  | some x :: t, o, h => by
    simp only [opsOf, List.mem_cons] at h
    rcases h with rfl | h
    · exact List.mem_cons_self ..
    · exact List.mem_cons_of_mem _ (some_mem_of_mem_opsOf' h)

/-- the neutral `Shape` is C09's `ShapeOk ∧ NodupVars` -/
theorem shapeOk_of_shape {c : Config} (h : Shape c) : ShapeOk c ∧ NodupVars c.slots := by
  constructor
  · intro o ho
    obtain ⟨h1, h2, _, h4⟩ := h o (some_mem_of_mem_opsOf' ho)
    exact ⟨h1, h2, h4⟩
  · intro o ho
    exact (h o (some_mem_of_mem_opsOf' ho)).2.2.1

/-- **`clusterK_flipCert`** — the exact cluster update, on every structurally valid string, for every
flip probability, frozen-bond rule and script, is a certified spin-only update: same skeleton with the
tag rule of `edit_in_out`, same number of variables, periodic world lines stay periodic. -/
theorem clusterK_flipCert (p : Rat) (fz : Nat → Bool) (c : Config) (rs : RS) (h : Shape c) :
    FlipCert c (clusterK p fz c rs).1 := by
  rw [clusterK_cfg]
  exact exactClusterUpdate_flipCert p _ c rs (shapeOk_of_shape h)

/-- **`clusterK_clusterCert`** — … and it keeps every matrix element positive, hence satisfies
`ClusterCert H`, whenever every bond of `H` that is not a cluster edge (constant, one variable) and not
frozen is invariant under the global flip of its legs, and every cluster-edge bond has a constant matrix. -/
theorem clusterK_clusterCert (H : Ham) (p : Rat) (fz : Nat → Bool)
    (hsym : ∀ b, b < H.nbonds → isClusterEdge (H.const b) (H.vars b).length = false → fz b = false → H.FlipSym b)
    (hconst : ∀ b, b < H.nbonds → isClusterEdge (H.const b) (H.vars b).length = true → H.ConstW b) :
    ClusterCert H (clusterK p fz) := by
  intro c rs hs hok
  refine ⟨clusterK_flipCert p fz c rs hs, ?_⟩
  rw [clusterK_cfg]
  refine exactClusterUpdate_keepsWeight p _ H c rs (shapeOk_of_shape hs) ?_ ?_ ?_
  · intro o ho he hf
    obtain ⟨hb, hv, hc, _⟩ := hok o (some_mem_of_mem_opsOf' ho)
    refine hsym o.bond hb ?_ hf
    rw [← hv, ← hc]; exact he
  · intro o ho he
    obtain ⟨hb, hv, hc, _⟩ := hok o (some_mem_of_mem_opsOf' ho)
    refine hconst o.bond hb ?_
    rw [← hv, ← hc]; exact he
  · intro o ho
    exact (hok o (some_mem_of_mem_opsOf' ho)).2.2.2

/-! ### the Ising sampler's Hamiltonian and freezing rule -/

theorem twoSite_flip (i o : List Bool) (J : Rat) : twoSite (flipBits i) (flipBits o) J = twoSite i o J := by
  rcases i with _ | ⟨a, _ | ⟨b, _ | ⟨c, i⟩⟩⟩ <;> rcases o with _ | ⟨d, _ | ⟨e, _ | ⟨f, o⟩⟩⟩ <;>
    simp only [twoSite, flipBits, List.map_cons, List.map_nil]
  cases a <;> cases b <;> cases d <;> cases e <;> simp

/-- **`ising_clusterCert`** — for every transverse-field Ising model, with the field-freezing rule of
`QmcIsingGraph::timestep` (h ≠ 0: longitudinal bonds frozen; h = 0: nothing frozen, no longitudinal bonds
exist), the exact cluster update satisfies the hypothesis of `isingTimestepWith_pres`. -/
theorem ising_clusterCert (s : IsingSampler) (p : Rat) : ClusterCert s.spec.ham (clusterK p s.frozenBond) := by
  apply clusterK_clusterCert
  · intro b hb he hf i o
    by_cases h1 : b < s.spec.nedges
    · simp only [IsingSpec.ham, if_pos h1]
      exact twoSite_flip i o _
    · by_cases h2 : b < s.spec.nedges + s.spec.nvars
      · exfalso
        have : isClusterEdge (s.spec.ham.const b) (s.spec.ham.vars b).length = true := by
          simp [IsingSpec.ham, isClusterEdge, h1, h2, Nat.le_of_not_lt h1]
        rw [this] at he; cases he
      · exfalso
        by_cases h0 : s.spec.h = 0
        · simp [IsingSpec.ham, h0] at hb; omega
        · simp [IsingSampler.frozenBond, h0] at hf; omega
  · intro b hb he i o i' o' _ _
    have hc : s.spec.ham.const b = true := by
      simp only [isClusterEdge, Bool.and_eq_true] at he; exact he.1
    simp only [IsingSpec.ham, decide_eq_true_eq] at hc
    have h1 : ¬ b < s.spec.nedges := by omega
    simp [IsingSpec.ham, h1, hc.2]

/-! ### the generic sampler -/

/-- a constant full matrix has a constant weight function -/
theorem gbond_constW (bs : List GBond) (b : Nat) (hb : b < (genericHam bs).nbonds)
    (he : isClusterEdge ((genericHam bs).const b) ((genericHam bs).vars b).length = true) :
    (genericHam bs).ConstW b := by
  intro i o i' o' hi ho
  have hlt : b < bs.length := hb
  simp only [isClusterEdge, Bool.and_eq_true, genericHam, List.getElem?_eq_getElem hlt, Option.map_some,
    Option.getD_some] at he
  simp only [genericHam, List.getElem?_eq_getElem hlt, Option.map_some, Option.getD_some, GBond.w, hi, ho]
  have hfull : bs[b].full = true := by
    have := he.1; simp only [GBond.isConstant, Bool.and_eq_true] at this; exact this.1
  simp [hfull, he.1]

/-- **`generic_clusterCert`** — for the generic sampler (nothing frozen): the exact cluster update
satisfies the hypothesis of `genericTimestepWith_pres` provided every bond that is not a cluster edge is
invariant under the global flip (`hsym`; this is what the gate `!breaks_ising_symmetry` of
`should_do_cluster_update` stands for — C04 `cluster_gate`, C16 `flipSymmetric_iff_lookup`; not re-proved
for the table representation `GBond` used here). -/
theorem generic_clusterCert (bs : List GBond) (p : Rat)
    (hsym : ∀ b, b < bs.length → (genericHam bs).FlipSym b) :
    ClusterCert (genericHam bs) (clusterK p fun _ => false) :=
  clusterK_clusterCert _ p _ (fun b hb _ _ => hsym b hb) (gbond_constW bs)

/-! ### examples (non-vacuity) -/
namespace Example
open Qmc.Sampler

/-- the 3-variable Ising configuration of C09 / Refinement (`exB`): edge (0,1) with J = 1, Γ = 1/2, h = 1/4,
third spin idle; σx on spin 0 at p = 0 and p = 2, the bond op at p = 1, a constant op on spin 1 at p = 4 -/
def sx (v : Nat) (i o : Bool) : Op := ⟨[v], 1 + v, [i], [o], i == o, true⟩
def bd (i : List Bool) : Op := ⟨[0, 1], 0, i, i, true, false⟩
def exS : IsingSampler :=
  { spec := { nvars := 3, edges := [(0, 1, 1)], gamma := 1 / 2, h := 1 / 4 }
    state := [false, false, true]
    slots := [some (sx 0 false true), some (bd [true, false]), some (sx 0 true false), none, some (sx 1 false false)]
    cutoff := 5 }

/-- the certificate the C06 side asks for, on this sampler, heat bath on or off -/
example (hb : Bool) : ClusterCert exS.spec.ham (clusterK (1 / 2) (exS.setEnableHeatbath hb).frozenBond) :=
  ising_clusterCert (exS.setEnableHeatbath hb) (1 / 2)

/-- one whole `timestep` evaluated: the sweep keeps the bond op (word ½ against 2/21), fills p = 3 with a
constant op on spin 0 (`gen_range(0..7)` on 2^62 → bond 1; acceptance clipped) and keeps the op at p = 4;
the cluster update draws three clusters (accept, reject, accept), the refresh redraws the idle spin 2;
7 words consumed exactly; n = 5, cutoff 5 → 8 = 5 + 5/2 + 1 -/
example :
    let r := isingTimestep exS (3 / 2)
      (RS.ofScript [2 ^ 63, 2 ^ 62, 2 ^ 63, 2 ^ 62, 3 * 2 ^ 62, 2 ^ 62, 3 * 2 ^ 62])
    (r.1.state, r.1.n, r.1.cutoff, r.1.slots.length, r.2.clean) = ([true, true, false], 5, 8, 5, true) := by
  decide +kernel

/-- one whole generic `timestep` evaluated on a step RECORDED FROM THE REAL CODE (`fullstep generic`, seed 1,
/repo at 7073632 = after the fix F22 of the loop start): one variable, three constant terms on it (gate open),
loop updates on, Metropolis sweep, β = 9/4, cutoff 4 with a container of length 2 (padded by the sweep), state 1;
the sweep removes both operators and inserts two new ones at p = 2, 3; the loop update (start = ONE `gen_range` over
all variable slots + the side draw), the cluster update and the refresh follow; the 10 words the real
`Qmc::timestep` consumed are consumed exactly and the model lands on the real result -/
def kOp (b : Nat) : Op := ⟨[0], b, [true], [true], true, true⟩
def exG : GenericSampler :=
  { (((GenericSampler.new [true] true).addInteraction ⟨true, [0], [7 / 8, 7 / 8, 7 / 8, 7 / 8]⟩).addInteraction
      ⟨true, [0], [5 / 4, 5 / 4, 5 / 4, 5 / 4]⟩).addInteraction ⟨true, [0], [1 / 2, 1 / 2, 1 / 2, 1 / 2]⟩ with
    cutoff := 4, slots := [some (kOp 1), some (kOp 0)] }

example :
    let r := genericTimestep exG (9 / 4) (RS.ofScript [2578569419177895307, 2332731059678247252,
      8145825333725946663, 1622802237492031095, 4885187703429084985, 925293710385445914, 6816487346238253227,
      12074712245488097304, 10282180754580391475, 9229076234412414734])
    (r.1.slots, r.1.state, r.1.n, r.1.cutoff, exG.doLoop, exG.shouldCluster, r.2.clean)
      = ([none, none, some (kOp 1), some (kOp 0)], [true], 2, 4, true, true, true) := by
  decide +kernel

end Example

end Qmc.Sampler
