import QmcProofs.KernelInvarianceMask

/-!
# One `timestep` of the Ising sampler leaves the SSE weight invariant

From "each elementary move satisfies detailed balance w.r.t. the SSE weight" (C08
`detailed_balance_M`, C02 `heatbath_detailed_balance`, C09 `clusterMove_weight`, `clusterMove_symm`,
`clusterMove_consistent`) to statements about Markov kernels, for all Hamiltonians, β, cutoffs, sizes.

Kernels are plain functions `K : Config → Config → ℚ` (`K a b` = probability of `a → b`),
`Qmc.Dist.Reversible π K` is detailed balance on the whole type `Config`.  Invariance is stated on
a finite set `S` of configurations that the moves do not leave (`Closed H S`), through the subtype
`↥S` and `Qmc.Dist.Invariant`; `cfgSpace H N L` — all configurations with `N` variables, cutoff `L`
and operators of `H` — is such a set for every `H, N, L` (`cfgSpace_closed`).

Files: `KernelInvarianceLib` (general kernels), `…Slot` (diagonal update), `…Cluster` (cluster
family, refresh), `…Space` (`cfgSpace`), `…Mask` (cluster families from flip masks).
Main theorems (namespace `Qmc.Kernel`): `slot_kernel_reversible(_hb)`, `sweep_invariant(_hb)`,
`cluster_kernel_reversible`, `free_refresh_invariant`, `timestep_invariant(_hb)`,
`timestep_invariant_with`; general library: `reversible_invariantOn`, `invariant_compList`,
`invariantOn_mix`, `lazyK_reversible`, `flipsK_reversible`, `movesK_reversible`.
-/

open Finset

namespace Qmc.Kernel
open Qmc Qmc.Dist

/-- the SSE weight `βⁿ (L−n)!/L! · Π⟨out|H_b|in⟩` read on the finite set `S` -/
def sseOn (H : Ham) (β : Rat) (S : Finset Config) : S → Rat := fun c => configWeight H β c.1

/-- `S` is not left by the diagonal proposals nor by the refresh -/
structure Closed (H : Ham) (S : Finset Config) : Prop where
  slot : ∀ p b, b < H.nbonds → ∀ c ∈ S, slotFlip H p b c ∈ S
  idle : ∀ v, ∀ c ∈ S, toggleIdle v c ∈ S

/-- the configuration space of a sampler is closed, whatever `H`, `N`, `L` -/
theorem cfgSpace_closed (H : Ham) (N L : Nat) : Closed H (cfgSpace H N L) :=
  ⟨fun p b hb => cfgSpace_slotFlip H N L p b hb, fun v => cfgSpace_toggleIdle H N L v⟩

/-! ## 2. the single-slot kernels -/

/-- **`slot_kernel_reversible`** (Metropolis).  The kernel "empty slot `p` ↔ diagonal operator of
bond `b` at the current propagated sub-state, insertion probability `pInsertM`, removal probability
`pRemoveM` (cutoff and count of the current configuration), everything else fixed" satisfies detailed
balance with the SSE weight, for every Hamiltonian with non-negative diagonal weights. -/
theorem slot_kernel_reversible (H : Ham) (β : Rat) (hβ : 0 < β) (hw : ∀ b i, 0 ≤ H.w b i i) (p : Nat) :
    Reversible (configWeight H β) (slotKM H β p) :=
  slotKM_reversible H β hβ hw p

/-- **`slot_kernel_reversible`** (heat bath): `pInsertHB` / `pRemoveHB` with any valid table. -/
theorem slot_kernel_reversible_hb (H : Ham) (bw : BW) (β : Rat) (hβ : 0 < β) (hW : 0 < bw.sum)
    (hw : ∀ b i, 0 ≤ H.w b i i)
    (htab : ∀ b, b < bw.length → ∀ st : List Bool,
      H.w b (readVars st (H.vars b)) (readVars st (H.vars b)) ≤ bw.getD b 0) (p : Nat) :
    Reversible (configWeight H β) (slotKHB H bw β p) :=
  slotKHB_reversible H bw β hβ hW hw htab p

/-- what the kernel is, entry by entry: from a configuration with an empty slot `p`, the
configuration with the canonical operator of bond `b` there is reached with probability `pInsertM`
at the current count … -/
theorem slotKM_insert_entry (H : Ham) (β : Rat) (p : Nat) (b : Fin H.nbonds) (c : Config)
    (h : c.slots[p]? = some none)
    (hinj : ∀ b' : Fin H.nbonds, canonOp H c p b'.val = canonOp H c p b.val → b' = b) :
    slotKM H β p c (setSlot c p (some (canonOp H c p b.val))) =
      pInsertM β H.nbonds (curW H c p b.val) c.slots.length (countOps c.slots) := by
  have hp := lt_of_getElem? h
  have hne : ∀ b' : Fin H.nbonds, setSlot c p (some (canonOp H c p b'.val)) ≠ c := by
    intro b' e
    have := getElem?_setSlot hp (some (canonOp H c p b'.val))
    rw [e, h] at this
    cases this
  unfold slotKM movesK
  rw [if_neg (hne b), add_zero, Finset.sum_eq_single b]
  · simp only [slotFlip_empty h, true_and, ne_eq, hne b, not_false_eq_true, if_true, slotProbM, h]
  · intro b' _ hb'
    rw [if_neg]
    rintro ⟨e, -⟩
    have e' : setSlot c p (some (canonOp H c p b.val)) = slotFlip H p b'.val c := e
    rw [slotFlip_empty h] at e'
    have := congrArg (fun c => c.slots[p]?) e'
    simp only [getElem?_setSlot hp, Option.some.injEq] at this
    exact hb' (hinj b' this.symm)
  · intro hb; exact absurd (Finset.mem_univ b) hb

/-- … and from a configuration holding that operator the emptied one with probability `pRemoveM`. -/
theorem slotKM_remove_entry (H : Ham) (β : Rat) (p : Nat) (b : Fin H.nbonds) (c : Config)
    (h : c.slots[p]? = some (some (canonOp H c p b.val)))
    (hinj : ∀ b' : Fin H.nbonds, canonOp H c p b'.val = canonOp H c p b.val → b' = b) :
    slotKM H β p c (setSlot c p none) =
      pRemoveM β H.nbonds (curW H c p b.val) c.slots.length (countOps c.slots) := by
  have hp := lt_of_getElem? h
  have hne : setSlot c p none ≠ c := by
    intro e
    have := getElem?_setSlot hp (none : Option Op)
    rw [e, h] at this
    cases this
  unfold slotKM movesK
  rw [if_neg hne, add_zero, Finset.sum_eq_single b]
  · simp only [slotFlip_canon h, true_and, ne_eq, hne, not_false_eq_true, if_true, slotProbM, h]
  · intro b' _ hb'
    rw [if_neg]
    rintro ⟨-, hm⟩
    rcases slotFlip_moves hm with h' | h'
    · rw [h] at h'; cases h'
    · rw [h] at h'
      simp only [Option.some.injEq] at h'
      exact hb' (hinj b' h'.symm)
  · intro hb; exact absurd (Finset.mem_univ b) hb

/-! ## 3. the diagonal sweep -/

/-- **the Metropolis sweep**: the slot kernels of `p = 0, 1, …, L−1` one after the other; each acts
on the configuration produced so far, so its count `n` is the current one (`sweep_uses_current_n`) -/
def sweepKM (H : Ham) (β : Rat) (S : Finset Config) (L : Nat) : S → S → Rat :=
  compList ((List.range L).map fun p => restr S (slotKM H β p))

/-- **the heat-bath sweep** -/
def sweepKHB (H : Ham) (bw : BW) (β : Rat) (S : Finset Config) (L : Nat) : S → S → Rat :=
  compList ((List.range L).map fun p => restr S (slotKHB H bw β p))

/-- invariance of one slot kernel on a closed set -/
theorem slot_kernel_invariant (H : Ham) (β : Rat) (hβ : 0 < β) (hw : ∀ b i, 0 ≤ H.w b i i)
    {S : Finset Config} (hS : Closed H S) (p : Nat) :
    Invariant (sseOn H β S) (restr S (slotKM H β p)) :=
  reversible_invariantOn (slotKM_reversible H β hβ hw p) (slotKM_rowSumOn H β p (hS.slot p))

/-- **`sweep_invariant`**: the diagonal sweep (Metropolis) leaves the SSE weight invariant — for every
Hamiltonian with non-negative diagonal weights, β > 0, number of slots visited, and closed set. -/
theorem sweep_invariant (H : Ham) (β : Rat) (hβ : 0 < β) (hw : ∀ b i, 0 ≤ H.w b i i)
    {S : Finset Config} (hS : Closed H S) (L : Nat) :
    Invariant (sseOn H β S) (sweepKM H β S L) := by
  refine invariant_compList _ (fun K hK => ?_)
  obtain ⟨p, -, rfl⟩ := List.mem_map.mp hK
  exact slot_kernel_invariant H β hβ hw hS p

/-- **`sweep_invariant`**, heat-bath variant, any valid table with one entry per bond. -/
theorem sweep_invariant_hb (H : Ham) (bw : BW) (β : Rat) (hβ : 0 < β) (hW : 0 < bw.sum)
    (hw : ∀ b i, 0 ≤ H.w b i i)
    (htab : ∀ b, b < bw.length → ∀ st : List Bool,
      H.w b (readVars st (H.vars b)) (readVars st (H.vars b)) ≤ bw.getD b 0)
    (hlen : bw.length = H.nbonds) {S : Finset Config} (hS : Closed H S) (L : Nat) :
    Invariant (sseOn H β S) (sweepKHB H bw β S L) := by
  refine invariant_compList _ (fun K hK => ?_)
  obtain ⟨p, -, rfl⟩ := List.mem_map.mp hK
  exact reversible_invariantOn (slotKHB_reversible H bw β hβ hW hw htab p)
    (slotKHB_rowSumOn H bw β p (fun b hb => hS.slot p b (hlen ▸ hb)))

theorem sweepKM_rowSum (H : Ham) (β : Rat) {S : Finset Config} (hS : Closed H S) (L : Nat) :
    RowSum (sweepKM H β S L) := by
  refine rowSum_compList _ (fun K hK => ?_)
  obtain ⟨p, -, rfl⟩ := List.mem_map.mp hK
  exact restr_rowSum (slotKM_rowSumOn H β p (hS.slot p))

theorem sweepKHB_rowSum (H : Ham) (bw : BW) (β : Rat) (hlen : bw.length = H.nbonds)
    {S : Finset Config} (hS : Closed H S) (L : Nat) : RowSum (sweepKHB H bw β S L) := by
  refine rowSum_compList _ (fun K hK => ?_)
  obtain ⟨p, -, rfl⟩ := List.mem_map.mp hK
  exact restr_rowSum (slotKHB_rowSumOn H bw β p (fun b hb => hS.slot p b (hlen ▸ hb)))

/-! ## 4. the cluster update -/

variable {fr : SkOp → Bool} {S : Finset Config}

/-- **`cluster_kernel_reversible`**.  For any cluster family (per skeleton: finitely many maps that
on `S` are pairwise commuting involutions and C09 cluster moves), flipping each cluster independently
with probability ½ is in detailed balance with the SSE weight of every Hamiltonian that is
flip-symmetric on the non-frozen non-edge operators and constant on the edge operators occurring
in `S`.  (The kernel is symmetric, `clusterK_symmetric`, with entries `2^-k·#{…}`, `clusterK_value`.) -/
theorem cluster_kernel_reversible (fam : ClusterFamily fr S) (H : Ham) (β : Rat)
    (hH : ClusterSym H fr S) : Reversible (configWeight H β) (clusterK fam) :=
  clusterK_reversible_of fam _ (fun _ _ hf c => guardFlip_weight fam H β hH hf c)

theorem cluster_kernel_invariant (fam : ClusterFamily fr S) (H : Ham) (β : Rat)
    (hH : ClusterSym H fr S) : Invariant (sseOn H β S) (restr S (clusterK fam)) :=
  reversible_invariantOn (cluster_kernel_reversible fam H β hH) (clusterK_rowSumOn fam)

/-- … and with the SSE weight cut down to the consistent world-line configurations -/
theorem cluster_kernel_reversible_consistent (fam : ClusterFamily fr S) (H : Ham) (β : Rat)
    (hH : ClusterSym H fr S) :
    Reversible (cutTo (fun c => Consistent c) (configWeight H β)) (clusterK fam) :=
  cutTo_reversible _ (cluster_kernel_reversible fam H β hH) (clusterK_consistent fam)

theorem mem_of_mem_opsOf : ∀ {s : Slots} {o : Op}, o ∈ opsOf s → some o ∈ s
  | [], _, h => by simp [opsOf] at h
  | none :: t, o, h => by
    simp only [opsOf] at h; exact List.mem_cons_of_mem _ (mem_of_mem_opsOf h)
  | some o' :: t, o, h => by
    simp only [opsOf, List.mem_cons] at h
    rcases h with rfl | h
    · simp
    · exact List.mem_cons_of_mem _ (mem_of_mem_opsOf h)

/-- on the configuration space the hypothesis on `H` is a condition bond by bond -/
theorem clusterSym_cfgSpace (H : Ham) (fr : SkOp → Bool) (N L : Nat)
    (hsym : ∀ b < H.nbonds, isClusterEdge (H.const b) (H.vars b).length = false →
      fr ⟨H.vars b, b, H.const b⟩ = false → H.FlipSym b)
    (hconst : ∀ b < H.nbonds, isClusterEdge (H.const b) (H.vars b).length = true → H.ConstW b) :
    ClusterSym H fr (cfgSpace H N L) := by
  intro c hc
  rw [mem_cfgSpace] at hc
  constructor
  · intro o ho he hf
    obtain ⟨h1, h2, h3, -, -⟩ := hc.2.2 o (mem_of_mem_opsOf ho)
    refine hsym o.bond h1 ?_ ?_
    · rw [← h2, ← h3]; exact he
    · rw [← h2, ← h3]; exact hf
  · intro o ho he
    obtain ⟨h1, h2, h3, -, -⟩ := hc.2.2 o (mem_of_mem_opsOf ho)
    refine hconst o.bond h1 ?_
    rw [← h2, ← h3]; exact he

/-- the transverse-field Ising Hamiltonian (any couplings, Γ, h; frozen = longitudinal bonds)
satisfies it -/
theorem ising_clusterSym (edges : List (List Nat × Rat)) (g hz : Rat) (nvars N L : Nat) :
    ClusterSym (isingClusterHam edges g hz nvars) (isingFrozen edges.length nvars)
      (cfgSpace (isingClusterHam edges g hz nvars) N L) := by
  refine clusterSym_cfgSpace _ _ N L ?_ ?_
  · intro b _ _ hf
    have hf' : ¬ (edges.length + nvars ≤ b) := of_decide_eq_false hf
    by_cases h1 : b < edges.length
    · exact isingClusterHam_flipSym edges g hz nvars b h1
    · intro i o
      have h2 : b < edges.length + nvars := by omega
      simp only [isingClusterHam, if_neg h1, if_pos h2, transverseW]
  · intro b _ he
    have : edges.length ≤ b ∧ b < edges.length + nvars := by
      by_contra hc
      have : (isingClusterHam edges g hz nvars).const b = false := by
        simp only [isingClusterHam, decide_eq_false_iff_not]; exact hc
      rw [this] at he
      simp [isClusterEdge] at he
    exact isingClusterHam_constW edges g hz nvars b this.1 this.2

/-! ## 5. the free-spin refresh -/

/-- **`free_refresh_invariant`** (detailed balance form): variables without operators do not enter
`configWeight`; flipping each with probability ½ — i.e. resetting it to a fair coin,
`lazy_toggle_eq_reset` — is reversible for it. -/
theorem free_refresh_reversible (H : Ham) (β : Rat) (N : Nat) :
    Reversible (configWeight H β) (refreshK N) :=
  refreshK_reversible_of N _ (toggleIdle_weight H β)

/-- **`free_refresh_invariant`** -/
theorem free_refresh_invariant (H : Ham) (β : Rat) (N : Nat) {S : Finset Config} (hS : Closed H S) :
    Invariant (sseOn H β S) (restr S (refreshK N)) :=
  reversible_invariantOn (free_refresh_reversible H β N) (refreshK_rowSumOn N hS.idle)

/-! ## 6. one `timestep` -/

/-- `timestep` of `QmcIsingGraph`: diagonal sweep; `extra` (empty, or the RVB update when
`run_rvb_steps`); cluster update; free-spin refresh. -/
def timestepWith (sweepK : S → S → Rat) (extra : List (S → S → Rat)) (fam : ClusterFamily fr S)
    (N : Nat) : S → S → Rat :=
  compList (sweepK :: extra ++ [restr S (clusterK fam), restr S (refreshK N)])

/-- `timestep` with the Metropolis diagonal update, RVB off -/
def timestepK (H : Ham) (β : Rat) (fam : ClusterFamily fr S) (L N : Nat) : S → S → Rat :=
  timestepWith (sweepKM H β S L) [] fam N

/-- `timestep` with the heat-bath diagonal update (`set_enable_heatbath(true)`), RVB off -/
def timestepKHB (H : Ham) (bw : BW) (β : Rat) (fam : ClusterFamily fr S) (L N : Nat) : S → S → Rat :=
  timestepWith (sweepKHB H bw β S L) [] fam N

/-- composition: whatever the diagonal kernel and the extra steps are, if they leave the weight
invariant (named hypotheses `hsweep`, `hextra` — e.g. the RVB update, property C03) so does the
whole step -/
theorem timestep_invariant_with (H : Ham) (β : Rat) (fam : ClusterFamily fr S) (hH : ClusterSym H fr S)
    (hS : Closed H S) (N : Nat) (sweepK : S → S → Rat) (extra : List (S → S → Rat))
    (hsweep : Invariant (sseOn H β S) sweepK) (hextra : ∀ K ∈ extra, Invariant (sseOn H β S) K) :
    Invariant (sseOn H β S) (timestepWith sweepK extra fam N) := by
  refine invariant_compList _ (fun K hK => ?_)
  simp only [List.mem_cons, List.mem_append, List.not_mem_nil, or_false] at hK
  rcases hK with (rfl | hK) | rfl | rfl
  · exact hsweep
  · exact hextra K hK
  · exact cluster_kernel_invariant fam H β hH
  · exact free_refresh_invariant H β N hS

/-- **`timestep_invariant`**: sweep ; cluster ; refresh leaves the SSE weight invariant. -/
theorem timestep_invariant (H : Ham) (β : Rat) (hβ : 0 < β) (hw : ∀ b i, 0 ≤ H.w b i i)
    (fam : ClusterFamily fr S) (hH : ClusterSym H fr S) (hS : Closed H S) (L N : Nat) :
    Invariant (sseOn H β S) (timestepK H β fam L N) :=
  timestep_invariant_with H β fam hH hS N _ [] (sweep_invariant H β hβ hw hS L)
    (fun _ h => by simp at h)

/-- **`timestep_invariant`**, heat-bath variant. -/
theorem timestep_invariant_hb (H : Ham) (bw : BW) (β : Rat) (hβ : 0 < β) (hW : 0 < bw.sum)
    (hw : ∀ b i, 0 ≤ H.w b i i)
    (htab : ∀ b, b < bw.length → ∀ st : List Bool,
      H.w b (readVars st (H.vars b)) (readVars st (H.vars b)) ≤ bw.getD b 0)
    (hlen : bw.length = H.nbonds)
    (fam : ClusterFamily fr S) (hH : ClusterSym H fr S) (hS : Closed H S) (L N : Nat) :
    Invariant (sseOn H β S) (timestepKHB H bw β fam L N) :=
  timestep_invariant_with H β fam hH hS N _ []
    (sweep_invariant_hb H bw β hβ hW hw htab hlen hS L) (fun _ h => by simp at h)

/-- the step conserves probability (its rows sum to one on `S`) -/
theorem timestep_rowSum (H : Ham) (β : Rat) (fam : ClusterFamily fr S) (hS : Closed H S) (L N : Nat) :
    RowSum (timestepK H β fam L N) := by
  unfold timestepK timestepWith
  refine rowSum_compList _ (fun K hK => ?_)
  simp only [List.cons_append, List.nil_append, List.mem_cons, List.not_mem_nil, or_false] at hK
  rcases hK with rfl | rfl | rfl
  · exact sweepKM_rowSum H β hS L
  · exact restr_rowSum (clusterK_rowSumOn fam)
  · exact restr_rowSum (refreshK_rowSumOn N hS.idle)

/-- `m` steps (iterating is composing) -/
theorem timestep_iter_invariant (H : Ham) (β : Rat) (hβ : 0 < β) (hw : ∀ b i, 0 ≤ H.w b i i)
    (fam : ClusterFamily fr S) (hH : ClusterSym H fr S) (hS : Closed H S) (L N m : Nat) :
    Invariant (sseOn H β S) (iter (timestepK H β fam L N) m) :=
  invariant_iter (timestep_invariant H β hβ hw fam hH hS L N) m

/-- invariance written out: `Σ_{c ∈ S} W(c)·K(c, c') = W(c')` -/
theorem timestep_invariant_sum (H : Ham) (β : Rat) (hβ : 0 < β) (hw : ∀ b i, 0 ≤ H.w b i i)
    (fam : ClusterFamily fr S) (hH : ClusterSym H fr S) (hS : Closed H S) (L N : Nat) (c' : S) :
    ∑ c : S, configWeight H β c.1 * timestepK H β fam L N c c' = configWeight H β c'.1 :=
  timestep_invariant H β hβ hw fam hH hS L N c'

end Qmc.Kernel
