import QmcProofs.KernelInvarianceMask
import QmcProofs.KernelInvarianceSweep
import QmcProofs.KernelInvarianceComponents
import Mathlib.Tactic.NormNum

/-!
# One `timestep` of the Ising sampler leaves the SSE weight invariant

From "each elementary move satisfies detailed balance w.r.t. the SSE weight" (C08
`detailed_balance_M`, C02 `heatbath_detailed_balance`, C09 `clusterMove_weight`, `clusterMove_symm`,
`clusterMove_consistent`) to statements about Markov kernels, for all Hamiltonians, β, cutoffs, sizes.

Kernels are plain functions `K : Config → Config → ℚ` (`K a b` = probability of `a → b`),
`Qmc.Dist.Reversible π K` is detailed balance on the whole type `Config`.  Invariance is stated on
a finite set `S` of configurations that the moves do not leave (`Closed H S`), through the subtype
`↥S` and `Qmc.Dist.Invariant`; `cfgSpace H N L` — all configurations with `N` variables, cutoff `L`
and operators of `H` — is such a set for every `H, N, L` (`cfgSpace_closed`).

Files: `KernelInvarianceLib` (general kernels), `…Slot` (diagonal update), `…Sweep` (the model's sweep
visits each slot with `stateAt` of the current configuration), `…Cluster` (cluster family, refresh),
`…Space` (`cfgSpace`), `…Mask` (cluster families from flip masks).
Main theorems (namespace `Qmc.Kernel`): `slot_kernel_reversible(_hb)`, `sweep_invariant(_hb)`,
`cluster_kernel_reversible`, `free_refresh_invariant`, `timestep_invariant(_hb)`,
`timestep_invariant_with`; general library: `reversible_invariantOn`, `invariant_compList`,
`invariantOn_mix`, `lazyK_reversible`, `flipsK_reversible`, `movesK_reversible`.
-/

open Finset

namespace Qmc.Kernel
open Qmc Qmc.Dist

/-- the SSE weight `βⁿ (L−n)!/L! · Π⟨out|H_b|in⟩` read on the finite set `S` -/
def sseOn (H : Ham) (β : Rat) (S : Finset Config) : S → Rat := fun c => configWeight H β c.1

/-- `S` is not left by the diagonal proposals nor by the refresh -/
structure Closed (H : Ham) (S : Finset Config) : Prop where
  slot : ∀ p b, b < H.nbonds → ∀ c ∈ S, slotFlip H p b c ∈ S
  idle : ∀ v, ∀ c ∈ S, toggleIdle v c ∈ S

/-- the configuration space of a sampler is closed, whatever `H`, `N`, `L` -/
theorem cfgSpace_closed (H : Ham) (N L : Nat) : Closed H (cfgSpace H N L) :=
  ⟨fun p b hb => cfgSpace_slotFlip H N L p b hb, fun v => cfgSpace_toggleIdle H N L v⟩

/-! ## 2. the single-slot kernels -/

/-- **`slot_kernel_reversible`** (Metropolis).  The kernel "empty slot `p` ↔ diagonal operator of
bond `b` at the current propagated sub-state, insertion probability `pInsertM`, removal probability
`pRemoveM` (cutoff and count of the current configuration), everything else fixed" satisfies detailed
balance with the SSE weight, for every Hamiltonian with non-negative diagonal weights. -/
theorem slot_kernel_reversible (H : Ham) (β : Rat) (hβ : 0 < β) (hw : ∀ b i, 0 ≤ H.w b i i) (p : Nat) :
    Reversible (configWeight H β) (slotKM H β p) :=
  slotKM_reversible H β hβ hw p

/-- **`slot_kernel_reversible`** (heat bath): `pInsertHB` / `pRemoveHB` with any valid table. -/
theorem slot_kernel_reversible_hb (H : Ham) (bw : BW) (β : Rat) (hβ : 0 < β) (hW : 0 < bw.sum)
    (hw : ∀ b i, 0 ≤ H.w b i i)
    (htab : ∀ b, b < bw.length → ∀ st : List Bool,
      H.w b (readVars st (H.vars b)) (readVars st (H.vars b)) ≤ bw.getD b 0) (p : Nat) :
    Reversible (configWeight H β) (slotKHB H bw β p) :=
  slotKHB_reversible H bw β hβ hW hw htab p

/-- what the kernel is, entry by entry: from a configuration with an empty slot `p`, the
configuration with the canonical operator of bond `b` there is reached with probability `pInsertM`
at the current count … -/
theorem slotKM_insert_entry (H : Ham) (β : Rat) (p : Nat) (b : Fin H.nbonds) (c : Config)
    (h : c.slots[p]? = some none)
    (hinj : ∀ b' : Fin H.nbonds, canonOp H c p b'.val = canonOp H c p b.val → b' = b) :
    slotKM H β p c (setSlot c p (some (canonOp H c p b.val))) =
      pInsertM β H.nbonds (curW H c p b.val) c.slots.length (countOps c.slots) := by
  have hp := lt_of_getElem? h
  have hne : ∀ b' : Fin H.nbonds, setSlot c p (some (canonOp H c p b'.val)) ≠ c := by
    intro b' e
    have := getElem?_setSlot hp (some (canonOp H c p b'.val))
    rw [e, h] at this
    cases this
  unfold slotKM movesK
  rw [if_neg (hne b), add_zero, Finset.sum_eq_single b]
  · simp only [slotFlip_empty h, true_and, ne_eq, hne b, not_false_eq_true, if_true, slotProbM, h]
  · intro b' _ hb'
    rw [if_neg]
    rintro ⟨e, -⟩
    have e' : setSlot c p (some (canonOp H c p b.val)) = slotFlip H p b'.val c := e
    rw [slotFlip_empty h] at e'
    have := congrArg (fun c => c.slots[p]?) e'
    simp only [getElem?_setSlot hp, Option.some.injEq] at this
    exact hb' (hinj b' this.symm)
  · intro hb; exact absurd (Finset.mem_univ b) hb

/-- … and from a configuration holding that operator the emptied one with probability `pRemoveM`. -/
theorem slotKM_remove_entry (H : Ham) (β : Rat) (p : Nat) (b : Fin H.nbonds) (c : Config)
    (h : c.slots[p]? = some (some (canonOp H c p b.val)))
    (hinj : ∀ b' : Fin H.nbonds, canonOp H c p b'.val = canonOp H c p b.val → b' = b) :
    slotKM H β p c (setSlot c p none) =
      pRemoveM β H.nbonds (curW H c p b.val) c.slots.length (countOps c.slots) := by
  have hp := lt_of_getElem? h
  have hne : setSlot c p none ≠ c := by
    intro e
    have := getElem?_setSlot hp (none : Option Op)
    rw [e, h] at this
    cases this
  unfold slotKM movesK
  rw [if_neg hne, add_zero, Finset.sum_eq_single b]
  · simp only [slotFlip_canon h, true_and, ne_eq, hne, not_false_eq_true, if_true, slotProbM, h]
  · intro b' _ hb'
    rw [if_neg]
    rintro ⟨-, hm⟩
    rcases slotFlip_moves hm with h' | h'
    · rw [h] at h'; cases h'
    · rw [h] at h'
      simp only [Option.some.injEq] at h'
      exact hb' (hinj b' h'.symm)
  · intro hb; exact absurd (Finset.mem_univ b) hb

/-! ## 3. the diagonal sweep -/

/-- **the Metropolis sweep**: the slot kernels of `p = 0, 1, …, L−1` one after the other; each acts
on the configuration produced so far, so its count `n` is the current one (`sweep_uses_current_n`) -/
def sweepKM (H : Ham) (β : Rat) (S : Finset Config) (L : Nat) : S → S → Rat :=
  compList ((List.range L).map fun p => restr S (slotKM H β p))

/-- **the heat-bath sweep** -/
def sweepKHB (H : Ham) (bw : BW) (β : Rat) (S : Finset Config) (L : Nat) : S → S → Rat :=
  compList ((List.range L).map fun p => restr S (slotKHB H bw β p))

/-- invariance of one slot kernel on a closed set -/
theorem slot_kernel_invariant (H : Ham) (β : Rat) (hβ : 0 < β) (hw : ∀ b i, 0 ≤ H.w b i i)
    {S : Finset Config} (hS : Closed H S) (p : Nat) :
    Invariant (sseOn H β S) (restr S (slotKM H β p)) :=
  reversible_invariantOn (slotKM_reversible H β hβ hw p) (slotKM_rowSumOn H β p (hS.slot p))

/-- **`sweep_invariant`**: the diagonal sweep (Metropolis) leaves the SSE weight invariant — for every
Hamiltonian with non-negative diagonal weights, β > 0, number of slots visited, and closed set. -/
theorem sweep_invariant (H : Ham) (β : Rat) (hβ : 0 < β) (hw : ∀ b i, 0 ≤ H.w b i i)
    {S : Finset Config} (hS : Closed H S) (L : Nat) :
    Invariant (sseOn H β S) (sweepKM H β S L) := by
  refine invariant_compList _ (fun K hK => ?_)
  obtain ⟨p, -, rfl⟩ := List.mem_map.mp hK
  exact slot_kernel_invariant H β hβ hw hS p

/-- **`sweep_invariant`**, heat-bath variant, any valid table with one entry per bond. -/
theorem sweep_invariant_hb (H : Ham) (bw : BW) (β : Rat) (hβ : 0 < β) (hW : 0 < bw.sum)
    (hw : ∀ b i, 0 ≤ H.w b i i)
    (htab : ∀ b, b < bw.length → ∀ st : List Bool,
      H.w b (readVars st (H.vars b)) (readVars st (H.vars b)) ≤ bw.getD b 0)
    (hlen : bw.length = H.nbonds) {S : Finset Config} (hS : Closed H S) (L : Nat) :
    Invariant (sseOn H β S) (sweepKHB H bw β S L) := by
  refine invariant_compList _ (fun K hK => ?_)
  obtain ⟨p, -, rfl⟩ := List.mem_map.mp hK
  exact reversible_invariantOn (slotKHB_reversible H bw β hβ hW hw htab p)
    (slotKHB_rowSumOn H bw β p (fun b hb => hS.slot p b (hlen ▸ hb)))

theorem sweepKM_rowSum (H : Ham) (β : Rat) {S : Finset Config} (hS : Closed H S) (L : Nat) :
    RowSum (sweepKM H β S L) := by
  refine rowSum_compList _ (fun K hK => ?_)
  obtain ⟨p, -, rfl⟩ := List.mem_map.mp hK
  exact restr_rowSum (slotKM_rowSumOn H β p (hS.slot p))

theorem sweepKHB_rowSum (H : Ham) (bw : BW) (β : Rat) (hlen : bw.length = H.nbonds)
    {S : Finset Config} (hS : Closed H S) (L : Nat) : RowSum (sweepKHB H bw β S L) := by
  refine rowSum_compList _ (fun K hK => ?_)
  obtain ⟨p, -, rfl⟩ := List.mem_map.mp hK
  exact restr_rowSum (slotKHB_rowSumOn H bw β p (fun b hb => hS.slot p b (hlen ▸ hb)))

/-! ## 4. the cluster update -/

variable {fr : SkOp → Bool} {S : Finset Config}

/-- **`cluster_kernel_reversible`**.  For any cluster family (per skeleton: finitely many maps that
on `S` are pairwise commuting involutions and C09 cluster moves), flipping each cluster independently
with probability ½ is in detailed balance with the SSE weight of every Hamiltonian that is
flip-symmetric on the non-frozen non-edge operators and constant on the edge operators occurring
in `S`.  (The kernel is symmetric, `clusterK_symmetric`, with entries `2^-k·#{…}`, `clusterK_value`.) -/
theorem cluster_kernel_reversible (fam : ClusterFamily fr S) (H : Ham) (β : Rat)
    (hH : ClusterSym H fr S) : Reversible (configWeight H β) (clusterK fam) :=
  clusterK_reversible_of fam _ (fun _ _ hf c => guardFlip_weight fam H β hH hf c)

theorem cluster_kernel_invariant (fam : ClusterFamily fr S) (H : Ham) (β : Rat)
    (hH : ClusterSym H fr S) : Invariant (sseOn H β S) (restr S (clusterK fam)) :=
  reversible_invariantOn (cluster_kernel_reversible fam H β hH) (clusterK_rowSumOn fam)

/-- … and with the SSE weight cut down to the consistent world-line configurations -/
theorem cluster_kernel_reversible_consistent (fam : ClusterFamily fr S) (H : Ham) (β : Rat)
    (hH : ClusterSym H fr S) :
    Reversible (cutTo (fun c => Consistent c) (configWeight H β)) (clusterK fam) :=
  cutTo_reversible _ (cluster_kernel_reversible fam H β hH) (clusterK_consistent fam)

theorem mem_of_mem_opsOf : ∀ {s : Slots} {o : Op}, o ∈ opsOf s → some o ∈ s
  | [], _, h => by simp [opsOf] at h
  | none :: t, o, h => by
    simp only [opsOf] at h; exact List.mem_cons_of_mem _ (mem_of_mem_opsOf h)
  | some o' :: t, o, h => by
    simp only [opsOf, List.mem_cons] at h
    rcases h with rfl | h
    · simp
    · exact List.mem_cons_of_mem _ (mem_of_mem_opsOf h)

/-- on the configuration space the hypothesis on `H` is a condition bond by bond -/
theorem clusterSym_cfgSpace (H : Ham) (fr : SkOp → Bool) (N L : Nat)
    (hsym : ∀ b < H.nbonds, isClusterEdge (H.const b) (H.vars b).length = false →
      fr ⟨H.vars b, b, H.const b⟩ = false → H.FlipSym b)
    (hconst : ∀ b < H.nbonds, isClusterEdge (H.const b) (H.vars b).length = true → H.ConstW b) :
    ClusterSym H fr (cfgSpace H N L) := by
  intro c hc
  rw [mem_cfgSpace] at hc
  constructor
  · intro o ho he hf
    obtain ⟨h1, h2, h3, -, -⟩ := hc.2.2 o (mem_of_mem_opsOf ho)
    refine hsym o.bond h1 ?_ ?_
    · rw [← h2, ← h3]; exact he
    · rw [← h2, ← h3]; exact hf
  · intro o ho he
    obtain ⟨h1, h2, h3, -, -⟩ := hc.2.2 o (mem_of_mem_opsOf ho)
    refine hconst o.bond h1 ?_
    rw [← h2, ← h3]; exact he

/-- the transverse-field Ising Hamiltonian (any couplings, Γ, h; frozen = longitudinal bonds)
satisfies it -/
theorem ising_clusterSym (edges : List (List Nat × Rat)) (g hz : Rat) (nvars N L : Nat) :
    ClusterSym (isingClusterHam edges g hz nvars) (isingFrozen edges.length nvars)
      (cfgSpace (isingClusterHam edges g hz nvars) N L) := by
  refine clusterSym_cfgSpace _ _ N L ?_ ?_
  · intro b _ _ hf
    have hf' : ¬ (edges.length + nvars ≤ b) := of_decide_eq_false hf
    by_cases h1 : b < edges.length
    · exact isingClusterHam_flipSym edges g hz nvars b h1
    · intro i o
      have h2 : b < edges.length + nvars := by omega
      simp only [isingClusterHam, if_neg h1, if_pos h2, transverseW]
  · intro b _ he
    have : edges.length ≤ b ∧ b < edges.length + nvars := by
      by_contra hc
      have : (isingClusterHam edges g hz nvars).const b = false := by
        simp only [isingClusterHam, decide_eq_false_iff_not]; exact hc
      rw [this] at he
      simp [isClusterEdge] at he
    exact isingClusterHam_constW edges g hz nvars b this.1 this.2

/-! ## 5. the free-spin refresh -/

/-- **`free_refresh_invariant`** (detailed balance form): variables without operators do not enter
`configWeight`; flipping each with probability ½ — i.e. resetting it to a fair coin,
`lazy_toggle_eq_reset` — is reversible for it. -/
theorem free_refresh_reversible (H : Ham) (β : Rat) (N : Nat) :
    Reversible (configWeight H β) (refreshK N) :=
  refreshK_reversible_of N _ (toggleIdle_weight H β)

/-- **`free_refresh_invariant`** -/
theorem free_refresh_invariant (H : Ham) (β : Rat) (N : Nat) {S : Finset Config} (hS : Closed H S) :
    Invariant (sseOn H β S) (restr S (refreshK N)) :=
  reversible_invariantOn (free_refresh_reversible H β N) (refreshK_rowSumOn N hS.idle)

/-! ## 6. one `timestep` -/

/-- `timestep` of `QmcIsingGraph`: diagonal sweep; `extra` (empty, or the RVB update when
`run_rvb_steps`); cluster update; free-spin refresh. -/
def timestepWith (sweepK : S → S → Rat) (extra : List (S → S → Rat)) (fam : ClusterFamily fr S)
    (N : Nat) : S → S → Rat :=
  compList (sweepK :: extra ++ [restr S (clusterK fam), restr S (refreshK N)])

/-- `timestep` with the Metropolis diagonal update, RVB off -/
def timestepK (H : Ham) (β : Rat) (fam : ClusterFamily fr S) (L N : Nat) : S → S → Rat :=
  timestepWith (sweepKM H β S L) [] fam N

/-- `timestep` with the heat-bath diagonal update (`set_enable_heatbath(true)`), RVB off -/
def timestepKHB (H : Ham) (bw : BW) (β : Rat) (fam : ClusterFamily fr S) (L N : Nat) : S → S → Rat :=
  timestepWith (sweepKHB H bw β S L) [] fam N

/-- composition: whatever the diagonal kernel and the extra steps are, if they leave the weight
invariant (named hypotheses `hsweep`, `hextra` — e.g. the RVB update, property C03) so does the
whole step -/
theorem timestep_invariant_with (H : Ham) (β : Rat) (fam : ClusterFamily fr S) (hH : ClusterSym H fr S)
    (hS : Closed H S) (N : Nat) (sweepK : S → S → Rat) (extra : List (S → S → Rat))
    (hsweep : Invariant (sseOn H β S) sweepK) (hextra : ∀ K ∈ extra, Invariant (sseOn H β S) K) :
    Invariant (sseOn H β S) (timestepWith sweepK extra fam N) := by
  refine invariant_compList _ (fun K hK => ?_)
  simp only [List.mem_cons, List.mem_append, List.not_mem_nil, or_false] at hK
  rcases hK with (rfl | hK) | rfl | rfl
  · exact hsweep
  · exact hextra K hK
  · exact cluster_kernel_invariant fam H β hH
  · exact free_refresh_invariant H β N hS

/-- **`timestep_invariant`**: sweep ; cluster ; refresh leaves the SSE weight invariant. -/
theorem timestep_invariant (H : Ham) (β : Rat) (hβ : 0 < β) (hw : ∀ b i, 0 ≤ H.w b i i)
    (fam : ClusterFamily fr S) (hH : ClusterSym H fr S) (hS : Closed H S) (L N : Nat) :
    Invariant (sseOn H β S) (timestepK H β fam L N) :=
  timestep_invariant_with H β fam hH hS N _ [] (sweep_invariant H β hβ hw hS L)
    (fun _ h => by simp at h)

/-- **`timestep_invariant`**, heat-bath variant. -/
theorem timestep_invariant_hb (H : Ham) (bw : BW) (β : Rat) (hβ : 0 < β) (hW : 0 < bw.sum)
    (hw : ∀ b i, 0 ≤ H.w b i i)
    (htab : ∀ b, b < bw.length → ∀ st : List Bool,
      H.w b (readVars st (H.vars b)) (readVars st (H.vars b)) ≤ bw.getD b 0)
    (hlen : bw.length = H.nbonds)
    (fam : ClusterFamily fr S) (hH : ClusterSym H fr S) (hS : Closed H S) (L N : Nat) :
    Invariant (sseOn H β S) (timestepKHB H bw β fam L N) :=
  timestep_invariant_with H β fam hH hS N _ []
    (sweep_invariant_hb H bw β hβ hW hw htab hlen hS L) (fun _ h => by simp at h)

/-- the step conserves probability (its rows sum to one on `S`) -/
theorem timestep_rowSum (H : Ham) (β : Rat) (fam : ClusterFamily fr S) (hS : Closed H S) (L N : Nat) :
    RowSum (timestepK H β fam L N) := by
  unfold timestepK timestepWith
  refine rowSum_compList _ (fun K hK => ?_)
  simp only [List.cons_append, List.nil_append, List.mem_cons, List.not_mem_nil, or_false] at hK
  rcases hK with rfl | rfl | rfl
  · exact sweepKM_rowSum H β hS L
  · exact restr_rowSum (clusterK_rowSumOn fam)
  · exact restr_rowSum (refreshK_rowSumOn N hS.idle)

/-- `m` steps (iterating is composing) -/
theorem timestep_iter_invariant (H : Ham) (β : Rat) (hβ : 0 < β) (hw : ∀ b i, 0 ≤ H.w b i i)
    (fam : ClusterFamily fr S) (hH : ClusterSym H fr S) (hS : Closed H S) (L N m : Nat) :
    Invariant (sseOn H β S) (iter (timestepK H β fam L N) m) :=
  invariant_iter (timestep_invariant H β hβ hw fam hH hS L N) m

/-- invariance written out: `Σ_{c ∈ S} W(c)·K(c, c') = W(c')` -/
theorem timestep_invariant_sum (H : Ham) (β : Rat) (hβ : 0 < β) (hw : ∀ b i, 0 ≤ H.w b i i)
    (fam : ClusterFamily fr S) (hH : ClusterSym H fr S) (hS : Closed H S) (L N : Nat) (c' : S) :
    ∑ c : S, configWeight H β c.1 * timestepK H β fam L N c c' = configWeight H β c'.1 :=
  timestep_invariant H β hβ hw fam hH hS L N c'

end Qmc.Kernel


/-! ## 7. with the model's own cluster decomposition: nothing left to assume about the clusters -/

namespace Qmc.Kernel
open Qmc Qmc.Dist

/-- **`timestep_invariant` for the decomposition the model computes** (`compLab`, C09
`ClusterComponents`): for every Hamiltonian with non-negative diagonal weights whose bonds act on
distinct variables below `N` and which satisfies the symmetry hypothesis of `clusterMove_weight`, one
step "sweep ; flip every flippable component with probability ½ ; refresh" leaves the SSE weight
invariant on the whole configuration space. -/
theorem timestep_invariant_components (H : Ham) (β : Rat) (hβ : 0 < β) (hw : ∀ b i, 0 ≤ H.w b i i)
    (fr : SkOp → Bool) (N L : Nat) (hV : VarsOK H N) (hH : ClusterSym H fr (cfgSpace H N L)) :
    Invariant (sseOn H β (cfgSpace H N L))
      (timestepK H β (ClusterFamily.ofComponents fr H N L hV) L N) :=
  timestep_invariant H β hβ hw _ hH (cfgSpace_closed H N L) L N

theorem timestep_invariant_components_hb (H : Ham) (β : Rat) (hβ : 0 < β)
    (hw : ∀ b i, 0 ≤ H.w b i i) (hW : 0 < (makeBondWeights H).sum)
    (fr : SkOp → Bool) (N L : Nat) (hV : VarsOK H N) (hH : ClusterSym H fr (cfgSpace H N L)) :
    Invariant (sseOn H β (cfgSpace H N L))
      (timestepKHB H (makeBondWeights H) β (ClusterFamily.ofComponents fr H N L hV) L N) :=
  timestep_invariant_hb H _ β hβ hW hw (makeBondWeights_valid H) (makeBondWeights_length H) _ hH
    (cfgSpace_closed H N L) L N

theorem absR_ge (x : Rat) : -x ≤ absR x ∧ x ≤ absR x := by
  unfold absR; split <;> constructor <;> linarith

/-- the Ising matrix elements are non-negative for Γ ≥ 0 -/
theorem isingClusterHam_nonneg (edges : List (List Nat × Rat)) (g hz : Rat) (nvars : Nat) (hg : 0 ≤ g) :
    ∀ b i, 0 ≤ (isingClusterHam edges g hz nvars).w b i i := by
  intro b i
  simp only [isingClusterHam]
  split
  · generalize (edges[b]?.map (·.2)).getD 0 = J
    have := absR_ge J
    rcases i with _ | ⟨a, _ | ⟨c, _ | ⟨d, t⟩⟩⟩ <;> simp only [twoSiteW, le_refl]
    simp only [beq_self_eq_true, Bool.and_self, if_true]
    split <;> linarith [this.1, this.2]
  · split
    · exact hg
    · have := absR_ge hz
      rcases i with _ | ⟨a, _ | ⟨c, t⟩⟩ <;> simp only [longitudinalW, le_refl]
      cases a <;> simp <;> linarith [this.1, this.2]


/-- the Ising bonds act on distinct in-range variables when the edges do -/
theorem ising_varsOK (edges : List (List Nat × Rat)) (g hz : Rat) (nvars : Nat)
    (he : ∀ e ∈ edges, e.1.Nodup ∧ ∀ v ∈ e.1, v < nvars) :
    VarsOK (isingClusterHam edges g hz nvars) nvars := by
  intro b hb
  simp only [isingClusterHam] at hb ⊢
  by_cases h1 : b < edges.length
  · simp only [h1, if_true, List.getElem?_eq_getElem h1, Option.map_some, Option.getD_some]
    exact he _ (List.getElem_mem h1)
  · simp only [h1, if_false]
    by_cases h2 : b < edges.length + nvars
    · simp only [h2, if_true]
      refine ⟨by simp, ?_⟩
      intro v hv; simp at hv; omega
    · simp only [h2, if_false]
      refine ⟨by simp, ?_⟩
      intro v hv; simp at hv; omega

/-- **The transverse-field Ising sampler, all parameters**: any graph (edges on distinct
variables), couplings of any sign, Γ ≥ 0, any longitudinal field (its bonds frozen), β > 0, any
cutoff `L`: one `timestep` with the model's cluster decomposition leaves the SSE weight invariant
on the configuration space.  No hypothesis is left except those on the parameters. -/
theorem ising_timestep_invariant (edges : List (List Nat × Rat)) (g hz : Rat) (nvars L : Nat)
    (he : ∀ e ∈ edges, e.1.Nodup ∧ ∀ v ∈ e.1, v < nvars) (hg : 0 ≤ g) (β : Rat) (hβ : 0 < β) :
    Invariant (sseOn (isingClusterHam edges g hz nvars) β (cfgSpace (isingClusterHam edges g hz nvars) nvars L))
      (timestepK (isingClusterHam edges g hz nvars) β
        (ClusterFamily.ofComponents (isingFrozen edges.length nvars) _ nvars L
          (ising_varsOK edges g hz nvars he)) L nvars) :=
  timestep_invariant_components _ β hβ (isingClusterHam_nonneg edges g hz nvars hg) _ nvars L _
    (ising_clusterSym edges g hz nvars nvars L)

end Qmc.Kernel

/-! ## non-vacuity: concrete instances of every hypothesis -/

namespace Qmc.Kernel.Example
open Qmc Qmc.Dist Qmc.Kernel

/-! ### the general library on a four-point space: two commuting weight-preserving involutions
taken with probabilities 1/3 and 1/4 -/

def f1 : Bool × Bool → Bool × Bool := fun x => (!x.1, x.2)
def f2 : Bool × Bool → Bool × Bool := fun x => (x.1, !x.2)

example : Reversible (fun _ : Bool × Bool => (3 : Rat)) (lazyK (1 / 3) f1) :=
  lazyK_reversible _ (fun a => by simp [f1]) (fun _ => rfl)

example : Reversible (fun _ : Bool × Bool => (3 : Rat)) (flipsK [((1 / 3 : Rat), f1), (1 / 4, f2)]) := by
  refine flipsK_reversible _ ?_ (fun _ _ _ => rfl) ?_
  · intro x hx a
    simp only [List.mem_cons, List.not_mem_nil, or_false] at hx
    rcases hx with rfl | rfl <;> simp [f1, f2]
  · intro x hx y hy a
    simp only [List.mem_cons, List.not_mem_nil, or_false] at hx hy
    rcases hx with rfl | rfl <;> rcases hy with rfl | rfl <;> simp [f1, f2]

/-- detailed balance ⇒ invariance, composition and mixture, on `S = univ` -/
example : Invariant (fun _ : (Finset.univ : Finset (Bool × Bool)) => (3 : Rat))
    (comp (restr _ (lazyK (1 / 3) f1)) (restr _ (mix (1 / 5) (lazyK (1 / 4) f2) (lazyK (1 / 3) f1)))) := by
  have h1 : Invariant (fun _ : (Finset.univ : Finset (Bool × Bool)) => (3 : Rat))
      (restr _ (lazyK (1 / 3) f1)) :=
    reversible_invariantOn (π := fun _ => (3 : Rat))
      (lazyK_reversible _ (fun a => by simp [f1]) (fun _ => rfl))
      (fun a _ => lazyK_rowSum (f := f1) (1 / 3 : Rat) a)
  have h2 : Invariant (fun _ : (Finset.univ : Finset (Bool × Bool)) => (3 : Rat))
      (restr _ (lazyK (1 / 4) f2)) :=
    reversible_invariantOn (π := fun _ => (3 : Rat))
      (lazyK_reversible _ (fun a => by simp [f2]) (fun _ => rfl))
      (fun a _ => lazyK_rowSum (f := f2) (1 / 4 : Rat) a)
  exact invariant_comp h1 (invariantOn_mix (π := fun _ => (3 : Rat)) _ h2 h1)

/-- `movesK` with a non-constant weight: two states of weights 1 and 2, acceptances 1/2 and 1/4 -/
example : Reversible (fun b : Bool => if b then (2 : Rat) else 1)
    (movesK (fun _ : Unit => not) (fun _ b => if b then (1 / 4 : Rat) else 1 / 2)) :=
  movesK_reversible (fun _ a => by simp) (fun _ a _ => by cases a <;> norm_num)

/-! ### the sampler: two coupled spins and an idle one, Γ = 1/2, h = 1/4, β = 3/2, cutoff 5 -/

/-- `QmcIsingGraph` with one edge `(0,1)`, `J = 1`, three variables -/
def H : Ham := isingClusterHam [([0, 1], 1)] (1 / 2) (1 / 4) 3
def fr : SkOp → Bool := isingFrozen 1 3

theorem H_nonneg : ∀ b i, 0 ≤ H.w b i i := isingClusterHam_nonneg _ _ _ _ (by norm_num)

/-- the two flippable clusters of the skeleton of C09's example configuration `exB`, as masks:
`mA` = the move `exB → exA` of C09 (bond operator, the links to both σx on spin 0, spin 1 round the
boundary), `mB` = the rest of the world line of spin 0 (through `p = 0`) -/
def mA : Config := mask Qmc.C09.exB Qmc.C09.exA
def mB : Config :=
  ⟨[true, false, false],
   [some ⟨[0], 1, [true], [false], false, true⟩, some ⟨[0, 1], 0, [false, false], [false, false], false, false⟩,
    some ⟨[0], 1, [false], [true], false, true⟩, none, some ⟨[1], 2, [false], [false], false, true⟩]⟩

instance (o : Op) : Decidable (AllFalse o) := by unfold AllFalse; infer_instance
instance (o : Op) : Decidable (AllTrue o) := by unfold AllTrue; infer_instance
instance (o m : Op) : Decidable (FitOp o m) := by unfold FitOp; infer_instance
instance (s : Slots) : Decidable (TagCanon s) := by unfold TagCanon; infer_instance

theorem idle3 (m : Config) (hl : m.state.length = 3)
    (h : ∀ v < 3, varHasOp (skeleton m.slots) v = false → m.state.getD v false = false) :
    ∀ v, varHasOp (skeleton m.slots) v = false → m.state.getD v false = false := by
  intro v hv
  rcases Nat.lt_or_ge v 3 with h3 | h3
  · exact h v h3 hv
  · rw [List.getD_eq_getElem?_getD, List.getElem?_eq_none (by rw [hl]; exact h3)]; rfl

theorem mA_valid : ValidMask fr mA :=
  ⟨by decide, by decide, by decide, idle3 mA rfl (by decide)⟩

theorem mB_valid : ValidMask fr mB :=
  ⟨by decide, by decide, by decide, idle3 mB rfl (by decide)⟩

/-- the decomposition: the two clusters above for the skeleton of `exB`, none elsewhere -/
def masks (s : Skel) : List Config := if s = skeleton Qmc.C09.exB.slots then [mA, mB] else []

theorem masks_valid : ∀ s, ∀ m ∈ masks s, ValidMask fr m := by
  intro s m hm
  unfold masks at hm
  split at hm
  · simp only [List.mem_cons, List.not_mem_nil, or_false] at hm
    rcases hm with rfl | rfl
    · exact mA_valid
    · exact mB_valid
  · simp at hm

/-- the cluster family — only `ValidMask` had to be checked -/
noncomputable def fam : ClusterFamily fr (cfgSpace H 3 5) := ClusterFamily.ofMasks H 3 5 masks masks_valid

theorem H_sym : ClusterSym H fr (cfgSpace H 3 5) := ising_clusterSym _ _ _ _ 3 5

/-- the space is not empty: C09's `exB` (two σx, a bond operator, a σx on spin 1, an idle spin) is in it -/
theorem exB_mem : Qmc.C09.exB ∈ cfgSpace H 3 5 := by
  rw [mem_cfgSpace]
  refine ⟨rfl, rfl, ?_⟩
  intro o ho
  simp only [Qmc.C09.exB, List.mem_cons, Option.some.injEq, reduceCtorEq, List.not_mem_nil, or_false,
    false_or] at ho
  rcases ho with rfl | rfl | rfl | rfl <;> exact ⟨by decide, rfl, rfl, rfl, rfl⟩

/-- the first flip of the family really moves it: it is C09's move `exB → exA` -/
theorem flipA_exB : maskFlip (masks (skeleton Qmc.C09.exB.slots)) mA Qmc.C09.exB = Qmc.C09.exA := by
  have hfit : TagCanon Qmc.C09.exB.slots ∧
      ∀ m' ∈ masks (skeleton Qmc.C09.exB.slots), FitsShape m' Qmc.C09.exB := by
    refine ⟨by decide, ?_⟩
    intro m' hm'
    simp only [masks, if_true, List.mem_cons, List.not_mem_nil, or_false] at hm'
    rcases hm' with rfl | rfl
    · exact ⟨rfl, by simp only [mA, mask, Qmc.C09.exB, Qmc.C09.exA, maskSlots, PairAll]; decide⟩
    · exact ⟨rfl, by simp only [mB, Qmc.C09.exB, PairAll]; decide⟩
  rw [(maskFlip_dom (by simp [masks]) hfit).1]
  decide

/-- items 2, 3: slot kernels and sweeps, both variants, on the configuration space of `H` -/
example (p : Nat) : Reversible (configWeight H (3 / 2)) (slotKM H (3 / 2) p) :=
  slot_kernel_reversible H _ (by norm_num) H_nonneg p

example : Invariant (sseOn H (3 / 2) (cfgSpace H 3 5)) (sweepKM H (3 / 2) (cfgSpace H 3 5) 5) :=
  sweep_invariant H _ (by norm_num) H_nonneg (cfgSpace_closed H 3 5) 5

/-- the table the code builds for `H` is valid and has one entry per bond; its total is positive
because the bond operator has weight 2 on anti-aligned spins -/
theorem H_table : 0 < (makeBondWeights H).sum := by
  obtain ⟨W, hW, hpos⟩ := Qmc.C02.real_table_total_pos H 0 (by decide) [true, false] rfl
    (by simp [H, isingClusterHam, twoSiteW, absR]; norm_num)
  unfold bwTotal at hW
  split at hW
  · cases hW
  · cases hW; exact hpos

example (p : Nat) : Reversible (configWeight H (3 / 2)) (slotKHB H (makeBondWeights H) (3 / 2) p) :=
  slot_kernel_reversible_hb H _ _ (by norm_num) H_table H_nonneg (makeBondWeights_valid H) p

example : Invariant (sseOn H (3 / 2) (cfgSpace H 3 5))
    (sweepKHB H (makeBondWeights H) (3 / 2) (cfgSpace H 3 5) 5) :=
  sweep_invariant_hb H _ _ (by norm_num) H_table H_nonneg (makeBondWeights_valid H)
    (makeBondWeights_length H) (cfgSpace_closed H 3 5) 5

/-- item 4 -/
example : Reversible (configWeight H (3 / 2)) (clusterK fam) := cluster_kernel_reversible fam H _ H_sym

/-- item 5 -/
example : Invariant (sseOn H (3 / 2) (cfgSpace H 3 5)) (restr _ (refreshK 3)) :=
  free_refresh_invariant H _ 3 (cfgSpace_closed H 3 5)

/-- item 6, both variants, and with an extra invariant step in between -/
example : Invariant (sseOn H (3 / 2) (cfgSpace H 3 5)) (timestepK H (3 / 2) fam 5 3) :=
  timestep_invariant H _ (by norm_num) H_nonneg fam H_sym (cfgSpace_closed H 3 5) 5 3

example : Invariant (sseOn H (3 / 2) (cfgSpace H 3 5))
    (timestepKHB H (makeBondWeights H) (3 / 2) fam 5 3) :=
  timestep_invariant_hb H _ _ (by norm_num) H_table H_nonneg (makeBondWeights_valid H)
    (makeBondWeights_length H) fam H_sym (cfgSpace_closed H 3 5) 5 3

example : Invariant (sseOn H (3 / 2) (cfgSpace H 3 5))
    (timestepWith (sweepKM H (3 / 2) (cfgSpace H 3 5) 5) [restr _ (refreshK 2)] fam 3) :=
  timestep_invariant_with H _ fam H_sym (cfgSpace_closed H 3 5) 3 _ _
    (sweep_invariant H _ (by norm_num) H_nonneg (cfgSpace_closed H 3 5) 5)
    (fun K hK => by
      simp only [List.mem_cons, List.not_mem_nil, or_false] at hK
      rw [hK]; exact free_refresh_invariant H _ 2 (cfgSpace_closed H 3 5))

/-- the cluster kernel is not the identity: C09's move `exB → exA` has probability at least 1/4
(= flip cluster A, do not flip cluster B) -/
example : (1 / 4 : Rat) ≤ clusterK fam Qmc.C09.exB Qmc.C09.exA := by
  have hfl : fam.flips (skeleton Qmc.C09.exB.slots) =
      [maskFlip (masks (skeleton Qmc.C09.exB.slots)) mA,
       maskFlip (masks (skeleton Qmc.C09.exB.slots)) mB] := by
    show (masks _).map _ = _
    simp [masks]
  have hg : guardFlip (cfgSpace H 3 5) (skeleton Qmc.C09.exB.slots)
      (maskFlip (masks (skeleton Qmc.C09.exB.slots)) mA) Qmc.C09.exB = Qmc.C09.exA := by
    unfold guardFlip; rw [if_pos ⟨exB_mem, rfl⟩]; exact flipA_exB
  unfold clusterK fiberK clusterFlipList
  simp only [hfl, List.map_cons, List.map_nil]
  generalize hx2 : ((1 / 2 : Rat), guardFlip (cfgSpace H 3 5) (skeleton Qmc.C09.exB.slots)
      (maskFlip (masks (skeleton Qmc.C09.exB.slots)) mB)) = x2
  have hq : ∀ x ∈ [x2], (0 : Rat) ≤ x.1 ∧ x.1 ≤ 1 := by
    intro x hx
    simp only [List.mem_cons, List.not_mem_nil, or_false] at hx
    rw [hx, ← hx2]; constructor <;> norm_num
  have hq1 : x2.1 = 1 / 2 := by rw [← hx2]
  have h0 := flipsK_nonneg [x2] hq Qmc.C09.exB Qmc.C09.exA
  have h1 := flipsK_nonneg ([] : List (Rat × (Config → Config))) (by simp) (x2.2 Qmc.C09.exA) Qmc.C09.exA
  have h2 : flipsK [x2] Qmc.C09.exA Qmc.C09.exA =
      (1 - x2.1) * 1 + x2.1 * flipsK [] (x2.2 Qmc.C09.exA) Qmc.C09.exA := by
    simp only [flipsK, if_true]
  have h3 : flipsK [((1 / 2 : Rat), guardFlip (cfgSpace H 3 5) (skeleton Qmc.C09.exB.slots)
      (maskFlip (masks (skeleton Qmc.C09.exB.slots)) mA)), x2] Qmc.C09.exB Qmc.C09.exA =
      (1 - 1 / 2) * flipsK [x2] Qmc.C09.exB Qmc.C09.exA + 1 / 2 * flipsK [x2] Qmc.C09.exA Qmc.C09.exA := by
    conv_lhs => rw [flipsK]
    simp only [hg]
  rw [h3, h2, hq1]
  nlinarith [h0, h1]

theorem H_edges : ∀ e ∈ [(([0, 1] : List Nat), (1 : Rat))], e.1.Nodup ∧ ∀ v ∈ e.1, v < 3 := by
  intro e he; simp at he; subst he; exact ⟨by decide, by decide⟩

/-- item 6 with the model's own decomposition: nothing about the clusters is assumed -/
example : Invariant (sseOn H (3 / 2) (cfgSpace H 3 5))
    (timestepK H (3 / 2) (ClusterFamily.ofComponents fr H 3 5 (ising_varsOK _ _ _ _ H_edges)) 5 3) :=
  ising_timestep_invariant _ _ _ 3 5 H_edges (by norm_num) _ (by norm_num)

end Qmc.Kernel.Example
