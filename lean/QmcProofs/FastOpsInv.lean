/-
C11: the invariant, well-formedness, validity of mutations, and the facts about the canonical
container that `getters_eq_scan` needs.
-/
import QmcProofs.FastOpsGlobalStep

namespace Qmc

/-- an op the container is specified for: at least one variable, no repeated variable
(self-loop ops are EXCLUDED here), variables in range (the Rust indexes `last_vars[v]`,
`var_ends[v]`), bond in range when counters exist (the Rust indexes `bond_counters[bond]`). -/
def OpOK (nv : Nat) (nb : Option Nat) (op : Op) : Prop :=
  op.vars ≠ [] ∧ op.vars.Nodup ∧ (∀ v ∈ op.vars, v < nv) ∧ (∀ k, nb = some k → op.bond < k)

/-- well-formed slot array -/
def WF (nv : Nat) (nb : Option Nat) (s : Slots) : Prop :=
  ∀ q op, slotAt s q = some op → OpOK nv nb op

/-- number of bond counters, if any -/
def FastOps.nbonds (c : FastOps) : Option Nat := c.bondCounters.map List.length

/-- THE invariant: the container is exactly what one obtains by scanning its own slots, and the
slots are well formed -/
def Inv (c : FastOps) : Prop :=
  c = canon c.getNvars c.nbonds c.abs ∧ WF c.getNvars c.nbonds c.abs

/-- the one fact about `var_ends` that the global chain depends on (through the early exit of
`fill_args_at_p` when `unfilled = 0`): some variable has ops whenever some slot is occupied -/
def EndsOK (c : FastOps) : Prop :=
  c.getEmptyArgsAll.unfilled = 0 → ∀ q, occAt c.abs q = false

/-- what the callback of a sweep may return -/
def ActOK (nv : Nat) (nb : Option Nat) (r : Option (Option Op)) : Prop :=
  ∀ op, r = some (some op) → OpOK nv nb op

/-- what a callback may answer under a Varlist cursor: no change, or a change whose old op (if any)
and new op (if any) lie inside the listed variables (the first `debug_assert!` of `mutate_p`:
"Trying to mutate from or into an op which spans variables not prepared in the args") -/
def SubActOK (nv : Nat) (nb : Option Nat) (vs : List Nat) (o : Option Op) (r : Option (Option Op)) : Prop :=
  ∀ x, r = some x →
    (∀ op, o = some op → ∀ v, v ∈ op.vars → v ∈ vs) ∧
    (∀ op, x = some op → OpOK nv nb op ∧ ∀ v, v ∈ op.vars → v ∈ vs)

/-- `Valid`: exactly the conditions under which the Rust neither trips a `debug_assert`, nor
unwraps a `None`, nor indexes out of range — plus the domain restriction `OpOK` on new ops.
* `setSlot`: `self.ops[p]` must exist.
* `sweep`: `pstart ≤ pend`; `fill_args_at_p(pstart)` indexes `ops[pstart]` after the growth to
  `pend`, hence `pstart < max pend len` (only when some variable has ops; we demand it always).
* `sweepOps`: the same, and the callback never answers `Some(None)` (the all-variables branch
  does `self.ops[node_p].as_ref().unwrap()` after the call).
* `sweepArgs` / `sweepOpsArgsAll` (args built by the caller with the NON-hint fill before the
  array is grown): `pstart < len` (`fill_args_at_p` indexes `ops[pstart]`); for a `Varlist`: listed
  variables pairwise distinct and in range, the callback changes only ops inside the listed variables
  (`SubActOK`), and — the documented boundary of the non-hint fill — some listed variable has an op
  or nothing lies below `pstart` (otherwise `unfilled = 0` makes `fill_args_at_p` return at once with
  `last_p = None`; probe `varlist_nohint`). -/
def Mut.Valid {τ : Type} (c : FastOps) : Mut τ → Prop
  | .setSlot p new => p < c.ops.length ∧ ActOK c.getNvars c.nbonds (some new)
  | .sweep ps pe f _ => ps ≤ pe ∧ ps < max pe c.ops.length ∧ ∀ c' o t', ActOK c.getNvars c.nbonds (f c' o t').1
  | .sweepOps ps pe f _ => ps ≤ pe ∧ ps < max pe c.ops.length ∧
      ∀ c' o q t', ActOK c.getNvars c.nbonds (f c' o q t').1 ∧ (f c' o q t').1 ≠ some none
  | .setCutoff _ => True
  | .sweepArgs .all _ ps pe f _ =>
      ps ≤ pe ∧ ps < c.ops.length ∧ ∀ c' o t', ActOK c.getNvars c.nbonds (f c' o t').1
  | .sweepArgs (.varlist vs) _ ps pe f _ =>
      ps ≤ pe ∧ ps < c.ops.length ∧ vs.Nodup ∧ (∀ v, v ∈ vs → v < c.getNvars) ∧
      ((∃ v, v ∈ vs ∧ c.doesVarHaveOps v = true) ∨ ∀ q, q < ps → c.getPth q = none) ∧
      ∀ c' o t', SubActOK c.getNvars c.nbonds vs o (f c' o t').1
  | .sweepOpsArgsAll _ ps pe f _ => ps ≤ pe ∧ ps < c.ops.length ∧
      ∀ c' o q t', ActOK c.getNvars c.nbonds (f c' o q t').1 ∧ (f c' o q t').1 ≠ some none

/-- the callback observes the container only through its global view (`get_n`, `get_count`,
`get_pth`, `get_first_p`, … but not the per-variable links) -/
def Mut.GlobalObs {τ : Type} : Mut τ → Prop
  | .sweep _ _ f _ => ∀ c o t, f c o t = f c.g o t
  | .sweepOps _ _ _ _ => False
  | .sweepArgs _ _ _ _ _ _ => False
  | .sweepOpsArgsAll _ _ _ _ _ => False
  | _ => True

/-! ### the canonical container, read through the getters -/

theorem zipOpt_fst {α β : Type} (a : Option α) (b : Option β) (h : a.isSome = b.isSome) :
    (zipOpt a b).map (·.1) = a := by
  cases a <;> cases b <;> simp_all [zipOpt]

theorem zipOpt_snd {α β : Type} (a : Option α) (b : Option β) (h : a.isSome = b.isSome) :
    (zipOpt a b).map (·.2) = b := by
  cases a <;> cases b <;> simp_all [zipOpt]

theorem getFirstP_canon (nv : Nat) (nb : Option Nat) (s : Slots) :
    (canon nv nb s).getFirstP = firstOcc (occAt s) s.length := by
  simp only [FastOps.getFirstP, canon, canonEnds]
  exact zipOpt_fst _ _ first_some_iff_last_some

theorem getLastP_canon (nv : Nat) (nb : Option Nat) (s : Slots) :
    (canon nv nb s).getLastP = lastOcc (occAt s) s.length := by
  simp only [FastOps.getLastP, canon, canonEnds]
  exact zipOpt_snd _ _ first_some_iff_last_some

theorem varEnd_canon (nv : Nat) (nb : Option Nat) (s : Slots) (v : Nat) (hv : v < nv) :
    (canon nv nb s).varEnd v = canonVarEnd s v := by
  simp only [FastOps.varEnd, canon, List.getElem?_map, List.getElem?_range hv]
  rfl

theorem firstRel_isSome (s : Slots) (v : Nat) : (firstRel s v).isSome = (lastRel s v).isSome := by
  unfold firstRel lastRel
  simp only [Option.isSome_map]
  exact first_some_iff_last_some

theorem getFirstPForVar_canon (nv : Nat) (nb : Option Nat) (s : Slots) (v : Nat) (hv : v < nv) :
    (canon nv nb s).getFirstPForVar v = firstRel s v := by
  simp only [FastOps.getFirstPForVar, varEnd_canon nv nb s v hv, canonVarEnd]
  exact zipOpt_fst _ _ (firstRel_isSome s v)

theorem getLastPForVar_canon (nv : Nat) (nb : Option Nat) (s : Slots) (v : Nat) (hv : v < nv) :
    (canon nv nb s).getLastPForVar v = lastRel s v := by
  simp only [FastOps.getLastPForVar, varEnd_canon nv nb s v hv, canonVarEnd]
  exact zipOpt_snd _ _ (firstRel_isSome s v)

theorem doesVarHaveOps_canon (nv : Nat) (nb : Option Nat) (s : Slots) (v : Nat) (hv : v < nv) :
    (canon nv nb s).doesVarHaveOps v = true ↔ ∃ p op, slotAt s p = some op ∧ v ∈ op.vars := by
  simp only [FastOps.doesVarHaveOps, getFirstPForVar_canon nv nb s v hv, firstRel, Option.isSome_map]
  constructor
  · intro h
    cases hf : firstOcc (occVAt s v) s.length with
    | none => rw [hf] at h; cases h
    | some p =>
      obtain ⟨_, h2⟩ := firstOcc_mem hf
      unfold occVAt at h2
      cases hs : slotAt s p with
      | none => rw [hs] at h2; cases h2
      | some op => rw [hs] at h2; exact ⟨p, op, hs, by simpa using h2⟩
  · rintro ⟨p, op, hs, hmem⟩
    have hocc : occVAt s v p = true := by unfold occVAt; rw [hs]; simpa using hmem
    obtain ⟨f, hf⟩ := first_some_of_mem hocc (slotAt_lt hs)
    rw [hf]; rfl

theorem getCount_canon_counters (nv k : Nat) (s : Slots) (b : Nat) (hb : b < k) :
    (canon nv (some k) s).getCount b = countBond s b := by
  simp [FastOps.getCount, canon, List.getD, List.getElem?_range hb]

theorem new_eq_canon (nv : Nat) (nb : Option Nat) : FastOps.new nv nb = canon nv nb [] := by
  unfold FastOps.new canon
  have h1 : List.replicate nv (none : Option (PRel × PRel)) = (List.range nv).map (canonVarEnd []) := by
    apply List.ext_getElem?
    intro i
    simp only [List.getElem?_replicate, List.getElem?_map]
    by_cases hi : i < nv
    · simp [hi, canonVarEnd, firstRel, lastRel, firstOcc, lastOcc, nextFrom, prevOcc, zipOpt]
    · simp [hi]
  have h2 : nb.map (fun k => List.replicate k 0) = nb.map (fun k => (List.range k).map (countBond [])) := by
    congr 1
    funext k
    apply List.ext_getElem?
    intro i
    simp only [List.getElem?_replicate, List.getElem?_map]
    by_cases hi : i < k
    · simp [hi, countBond]
    · simp [hi]
  simp [h1, h2, countOps, canonEnds, firstOcc, lastOcc, nextFrom, prevOcc, zipOpt]

theorem new_GInv (nv : Nat) (nb : Option Nat) : GInv nb (FastOps.new nv nb) := by
  unfold GInv
  rw [new_eq_canon, abs_canon, canon_g]

end Qmc
