/-
C11, per-variable chains on the canonical container: the install loops of `mutate_p`.
-/
import QmcProofs.FastOpsVarCanon

namespace Qmc

/-- generic loop rule: a fold whose steps each finish one (fresh) key -/
theorem fold_inv {α : Type} (I : List Nat → FastOps → Prop) (step : FastOps → α → FastOps)
    (key : α → Nat) (good : α → Prop)
    (hstep : ∀ D c x, good x → key x ∉ D → I D c → I (key x :: D) (step c x)) :
    ∀ (l : List α) (D : List Nat) (c : FastOps),
      (∀ x ∈ l, good x) → (l.map key).Nodup → (∀ x ∈ l, key x ∉ D) → I D c →
      I ((l.map key).reverse ++ D) (l.foldl step c) := by
  intro l
  induction l with
  | nil => intro D c _ _ _ h; simpa using h
  | cons x t ih =>
    intro D c h1 h2 h3 h
    simp only [List.map_cons, List.nodup_cons] at h2
    have hs := hstep D c x (h1 x (by simp)) (h3 x (by simp)) h
    have := ih (key x :: D) _ (fun y hy => h1 y (by simp [hy])) h2.2
      (by
        intro y hy
        simp only [List.mem_cons, not_or]
        refine ⟨?_, h3 y (by simp [hy])⟩
        intro e
        apply h2.1
        rw [← e]
        exact List.mem_map_of_mem hy) hs
    simpa [List.reverse_cons, List.append_assoc] using this

theorem zip_map_self {β : Type} (l : List Nat) (F : Nat → β) :
    (l.map F).zip l = l.map (fun v => (F v, v)) := by
  induction l with
  | nil => rfl
  | cons a t ih => simp [ih]

theorem mem_zip_map_zipIdx {β : Type} (l : List Nat) (F : Nat → β) :
    ∀ x ∈ ((l.map F).zip l).zipIdx, l[x.2]? = some x.1.2 ∧ x.1.1 = F x.1.2 := by
  intro x hx
  rw [zip_map_self] at hx
  obtain ⟨_, h2, h3⟩ := List.mem_zipIdx hx
  simp only [Nat.sub_zero, Nat.zero_add, List.length_map] at h2 h3
  rw [List.getElem_map] at h3
  rw [List.getElem?_eq_getElem h2, h3]
  exact ⟨rfl, rfl⟩

theorem map_key_zip_map_zipIdx {β : Type} (l : List Nat) (F : Nat → β) :
    (((l.map F).zip l).zipIdx).map (fun x => x.1.2) = l := by
  rw [zip_map_self]
  have : (fun (x : (β × Nat) × Nat) => x.1.2) = (fun (y : β × Nat) => y.2) ∘ Prod.fst := rfl
  rw [this, ← List.map_map, List.zipIdx_map_fst, List.map_map]
  simp [Function.comp_def]

namespace FastOps

theorem nfv_installPrevWrite (p : Nat) (c : FastOps) (x : (Option PRel × Nat) × Nat) (r : Nat) :
    (installPrevWrite p c x).nfv r = (c.nfv r).map (fun l =>
      match x.1.1 with
      | some pr => if pr.p = r then l.set pr.relv (some ⟨p, x.2⟩) else l
      | none => l) := by
  unfold installPrevWrite
  simp only []
  cases x.1.1 <;> simp <;> cases c.nfv r <;> rfl

theorem pfv_installPrevWrite (p : Nat) (c : FastOps) (x : (Option PRel × Nat) × Nat) (r : Nat) :
    (installPrevWrite p c x).pfv r = c.pfv r := by
  unfold installPrevWrite
  simp only []
  cases x.1.1 <;> simp

theorem varEnds_installPrevWrite (p : Nat) (c : FastOps) (x : (Option PRel × Nat) × Nat) :
    (installPrevWrite p c x).varEnds =
      match x.1.1 with
      | some _ => c.varEnds
      | none => c.varEnds.set x.1.2 (match c.varEnd x.1.2 with
          | some (_, tail) => some (⟨p, x.2⟩, tail)
          | none => some (⟨p, x.2⟩, ⟨p, x.2⟩)) := by
  unfold installPrevWrite
  simp only []
  cases x.1.1 <;> simp
  cases c.varEnd x.1.2 <;> rfl

theorem pfv_installNextWrite (p : Nat) (c : FastOps) (x : (Option PRel × Nat) × Nat) (r : Nat) :
    (installNextWrite p c x).pfv r = (c.pfv r).map (fun l =>
      match x.1.1 with
      | some nx => if nx.p = r then l.set nx.relv (some ⟨p, x.2⟩) else l
      | none => l) := by
  unfold installNextWrite
  simp only []
  cases x.1.1 <;> simp <;> cases c.pfv r <;> rfl

theorem nfv_installNextWrite (p : Nat) (c : FastOps) (x : (Option PRel × Nat) × Nat) (r : Nat) :
    (installNextWrite p c x).nfv r = c.nfv r := by
  unfold installNextWrite
  simp only []
  cases x.1.1 <;> simp

theorem varEnds_installNextWrite (p : Nat) (c : FastOps) (x : (Option PRel × Nat) × Nat) :
    (installNextWrite p c x).varEnds =
      match x.1.1 with
      | some _ => c.varEnds
      | none => c.varEnds.set x.1.2 (match c.varEnd x.1.2 with
          | some (head, _) => some (head, ⟨p, x.2⟩)
          | none => some (⟨p, x.2⟩, ⟨p, x.2⟩)) := by
  unfold installNextWrite
  simp only []
  cases x.1.1 <;> simp
  cases c.varEnd x.1.2 <;> rfl

end FastOps

/-! ### the install loops on the canonical container -/

section Install
variable (s0 : Slots) (p : Nat) (op : Op)

/-- slots after the insertion -/
abbrev s1 : Slots := s0.set p (some op)

/-- predicate of variable `w` while the op is being linked in: variables in `D` are done -/
def PI (D : List Nat) (w : Nat) : Nat → Bool :=
  if w ∈ D then upd (occVAt s0 w) p true else occVAt s0 w

def nextRelI (D : List Nat) (w q : Nat) : Option PRel :=
  (nextOcc (PI s0 p D w) s0.length q).map (relAt (s1 s0 p op) w)
def prevRelI (D : List Nat) (w q : Nat) : Option PRel :=
  (prevOcc (PI s0 p D w) q).map (relAt (s1 s0 p op) w)

def E0 (w : Nat) : Option (PRel × PRel) := canonVarEnd s0 w
def E1 (w : Nat) : Option (PRel × PRel) :=
  match prevOcc (occVAt s0 w) p with
  | some _ => E0 s0 w
  | none => (match E0 s0 w with
    | some (_, tail) => some (relAt (s1 s0 p op) w p, tail)
    | none => some (relAt (s1 s0 p op) w p, relAt (s1 s0 p op) w p))
def E2 (w : Nat) : Option (PRel × PRel) :=
  match nextOcc (occVAt s0 w) s0.length p with
  | some _ => E1 s0 p op w
  | none => (match E1 s0 p op w with
    | some (head, _) => some (head, relAt (s1 s0 p op) w p)
    | none => some (relAt (s1 s0 p op) w p, relAt (s1 s0 p op) w p))

/-- invariant of the first install loop (`prevs`: writes `next_for_vars` of predecessors, heads) -/
structure VI1 (nv : Nat) (D : List Nat) (c : FastOps) : Prop where
  hn : ∀ q, q ≠ p → c.nfv q = (slotAt s0 q).map (fun oq => oq.vars.map (fun w => nextRelI s0 p op D w q))
  hp : ∀ q, q ≠ p → c.pfv q = (slotAt s0 q).map (fun oq => oq.vars.map (fun w => prevRelI s0 p op [] w q))
  hnp : c.nfv p = none
  hpp : c.pfv p = none
  hv : c.varEnds = (List.range nv).map (fun w => if w ∈ D then E1 s0 p op w else E0 s0 w)

/-- invariant of the second install loop (`nexts`: writes `previous_for_vars` of successors, tails) -/
structure VI2 (nv : Nat) (D : List Nat) (c : FastOps) : Prop where
  hn : ∀ q, q ≠ p → c.nfv q = (slotAt s0 q).map (fun oq => oq.vars.map (fun w => nextRelI s0 p op op.vars w q))
  hp : ∀ q, q ≠ p → c.pfv q = (slotAt s0 q).map (fun oq => oq.vars.map (fun w => prevRelI s0 p op D w q))
  hnp : c.nfv p = none
  hpp : c.pfv p = none
  hv : c.varEnds = (List.range nv).map (fun w =>
    if w ∈ D then E2 s0 p op w else if w ∈ op.vars then E1 s0 p op w else E0 s0 w)

theorem PI_cons_ne {D : List Nat} {v w : Nat} (h : w ≠ v) : PI s0 p (v :: D) w = PI s0 p D w := by
  unfold PI; simp [h]

theorem PI_cons_self {D : List Nat} {v : Nat} (h : v ∉ D) :
    PI s0 p (v :: D) v = upd (occVAt s0 v) p true ∧ PI s0 p D v = occVAt s0 v := by
  unfold PI; simp [h]

end Install

theorem relAt_s1_self (s0 : Slots) (p : Nat) (op : Op) (hpL : p < s0.length) (v relv : Nat)
    (hvr : op.vars[relv]? = some v) (hnd : op.vars.Nodup) :
    relAt (s1 s0 p op) v p = ⟨p, relv⟩ := by
  unfold relAt s1
  rw [slotAt_set]
  simp only [hpL, and_self, if_true]
  have hlt : relv < op.vars.length := by
    by_cases h : relv < op.vars.length
    · exact h
    · rw [List.getElem?_eq_none (Nat.le_of_not_lt h)] at hvr; cases hvr
  have : op.vars[relv] = v := by rw [List.getElem?_eq_getElem hlt] at hvr; exact Option.some.inj hvr
  rw [← this, hnd.idxOf_getElem relv hlt]

theorem installPrev_step (nv : Nat) (nb : Option Nat) (s0 : Slots) (p : Nat) (op : Op)
    (hsp : slotAt s0 p = none) (hpL : p < s0.length) (hwf : WF nv nb s0) (hok : OpOK nv nb op)
    (D : List Nat) (c : FastOps) (x : (Option PRel × Nat) × Nat)
    (hx : op.vars[x.2]? = some x.1.2 ∧ x.1.1 = prevRel s0 x.1.2 p) (hvD : x.1.2 ∉ D)
    (h : VI1 s0 p op nv D c) :
    VI1 s0 p op nv (x.1.2 :: D) (FastOps.installPrevWrite p c x) := by
  obtain ⟨⟨prev, v⟩, relv⟩ := x
  simp only at hx hvD ⊢
  obtain ⟨hvr, hprev⟩ := hx
  obtain ⟨_, hnodup, hlt, _⟩ := hok
  have hvmem : v ∈ op.vars := List.mem_of_getElem? hvr
  have hvn : v < nv := hlt v hvmem
  obtain ⟨hPv', hPv⟩ := PI_cons_self s0 p hvD
  have hrel := relAt_s1_self s0 p op hpL v relv hvr hnodup
  constructor
  · intro q hq
    rw [FastOps.nfv_installPrevWrite, h.hn q hq]
    simp only [hprev]
    cases hsq : slotAt s0 q with
    | none => rfl
    | some oq =>
      simp only [Option.map_some]
      congr 1
      obtain ⟨_, hnd_q, _, _⟩ := hwf q oq hsq
      have key : ∀ w, w ∈ oq.vars →
          (if w = v ∧ prevOcc (occVAt s0 v) p = some q then some (⟨p, relv⟩ : PRel) else nextRelI s0 p op D w q)
            = nextRelI s0 p op (v :: D) w q := by
        intro w hw
        by_cases hwv : w = v
        · subst hwv
          have hq_occ : occVAt s0 w q = true := occV_of_mem hsq hw
          unfold nextRelI
          rw [hPv', hPv, nextOcc_insert hq_occ hq hpL]
          split <;> simp_all
        · simp only [hwv, false_and, if_false]
          unfold nextRelI
          rw [PI_cons_ne s0 p hwv]
      have goal2 : oq.vars.map (fun w => nextRelI s0 p op (v :: D) w q)
          = oq.vars.map (fun w => if w = v ∧ prevOcc (occVAt s0 v) p = some q then some (⟨p, relv⟩ : PRel)
              else nextRelI s0 p op D w q) := by
        apply List.map_congr_left
        intro w hw
        exact (key w hw).symm
      rw [goal2]
      unfold prevRel
      cases hpo : prevOcc (occVAt s0 v) p with
      | none =>
        simp only [Option.map_none]
        apply List.map_congr_left
        intro w _
        simp
      | some q' =>
        simp only [Option.map_some]
        by_cases hqq : q' = q
        · subst hqq
          have hq_occ := (prevOcc_lt hpo).2
          have hvq : v ∈ oq.vars := mem_of_occV hsq hq_occ
          simp only [relAt, hsq, if_true]
          rw [map_set_nodup oq.vars _ v _ hvq hnd_q]
          apply List.map_congr_left
          intro w _
          by_cases hwv : w = v <;> simp [hwv]
        · have : ¬ (relAt s0 v q').p = q := hqq
          simp only [this, if_false]
          apply List.map_congr_left
          intro w _
          have : ¬ (some q' = some q) := by simpa using hqq
          simp [this]
  · intro q hq
    rw [FastOps.pfv_installPrevWrite, h.hp q hq]
  · rw [FastOps.nfv_installPrevWrite, h.hnp]; rfl
  · rw [FastOps.pfv_installPrevWrite, h.hpp]
  · rw [FastOps.varEnds_installPrevWrite]
    simp only [hprev]
    have hvl : v < c.varEnds.length := by rw [h.hv]; simpa using hvn
    have he0 : c.varEnd v = E0 s0 v := by
      simp [FastOps.varEnd, h.hv, List.getElem?_map, List.getElem?_range hvn, hvD]
    rw [he0, h.hv]
    apply List.ext_getElem?
    intro w
    unfold prevRel
    cases hpo : prevOcc (occVAt s0 v) p with
    | some q' =>
      simp only [Option.map_some, List.getElem?_map]
      cases hw : (List.range nv)[w]? with
      | none => rfl
      | some w' =>
        simp only [Option.map_some]
        by_cases hwv : w' = v
        · subst hwv; simp [hvD, E1, hpo]
        · simp [hwv]
    | none =>
      simp only [Option.map_none]
      rw [List.getElem?_set]
      simp only [List.length_map, List.length_range, List.getElem?_map]
      by_cases hwv : v = w
      · subst hwv
        simp only [if_true, hvn, List.getElem?_range hvn, Option.map_some, List.mem_cons, true_or]
        congr 1
        simp only [E1, hpo, hrel]
      · simp only [hwv, if_false]
        cases hw : (List.range nv)[w]? with
        | none => rfl
        | some w' =>
          have : w' = w := by
            have hwlt : w < nv := by
              by_cases hh : w < nv
              · exact hh
              · rw [List.getElem?_eq_none (by simpa using Nat.le_of_not_lt hh)] at hw; cases hw
            rw [List.getElem?_range hwlt] at hw
            exact (Option.some.inj hw).symm
          subst this
          have : ¬ w' = v := fun e => hwv e.symm
          simp [this]


theorem installNext_step (nv : Nat) (nb : Option Nat) (s0 : Slots) (p : Nat) (op : Op)
    (hsp : slotAt s0 p = none) (hpL : p < s0.length) (hwf : WF nv nb s0) (hok : OpOK nv nb op)
    (D : List Nat) (c : FastOps) (x : (Option PRel × Nat) × Nat)
    (hx : op.vars[x.2]? = some x.1.2 ∧ x.1.1 = nextRel s0 x.1.2 p) (hvD : x.1.2 ∉ D)
    (h : VI2 s0 p op nv D c) :
    VI2 s0 p op nv (x.1.2 :: D) (FastOps.installNextWrite p c x) := by
  obtain ⟨⟨next, v⟩, relv⟩ := x
  simp only at hx hvD ⊢
  obtain ⟨hvr, hnext⟩ := hx
  obtain ⟨_, hnodup, hlt, _⟩ := hok
  have hvmem : v ∈ op.vars := List.mem_of_getElem? hvr
  have hvn : v < nv := hlt v hvmem
  obtain ⟨hPv', hPv⟩ := PI_cons_self s0 p hvD
  have hrel := relAt_s1_self s0 p op hpL v relv hvr hnodup
  constructor
  · intro q hq
    rw [FastOps.nfv_installNextWrite, h.hn q hq]
  · intro q hq
    rw [FastOps.pfv_installNextWrite, h.hp q hq]
    simp only [hnext]
    cases hsq : slotAt s0 q with
    | none => rfl
    | some oq =>
      simp only [Option.map_some]
      congr 1
      obtain ⟨_, hnd_q, _, _⟩ := hwf q oq hsq
      have hqL := slotAt_lt hsq
      have key : ∀ w, w ∈ oq.vars →
          (if w = v ∧ nextOcc (occVAt s0 v) s0.length p = some q then some (⟨p, relv⟩ : PRel)
            else prevRelI s0 p op D w q) = prevRelI s0 p op (v :: D) w q := by
        intro w hw
        by_cases hwv : w = v
        · subst hwv
          have hq_occ : occVAt s0 w q = true := occV_of_mem hsq hw
          unfold prevRelI
          rw [hPv', hPv, prevOcc_insert hq_occ hq hqL]
          split <;> simp_all
        · simp only [hwv, false_and, if_false]
          unfold prevRelI
          rw [PI_cons_ne s0 p hwv]
      have goal2 : oq.vars.map (fun w => prevRelI s0 p op (v :: D) w q)
          = oq.vars.map (fun w => if w = v ∧ nextOcc (occVAt s0 v) s0.length p = some q
              then some (⟨p, relv⟩ : PRel) else prevRelI s0 p op D w q) := by
        apply List.map_congr_left
        intro w hw
        exact (key w hw).symm
      rw [goal2]
      unfold nextRel
      cases hno : nextOcc (occVAt s0 v) s0.length p with
      | none =>
        simp only [Option.map_none]
        apply List.map_congr_left
        intro w _
        simp
      | some q' =>
        simp only [Option.map_some]
        by_cases hqq : q' = q
        · subst hqq
          have hq_occ := (nextOcc_gt hno).2.2
          have hvq : v ∈ oq.vars := mem_of_occV hsq hq_occ
          simp only [relAt, hsq, if_true]
          rw [map_set_nodup oq.vars _ v _ hvq hnd_q]
          apply List.map_congr_left
          intro w _
          by_cases hwv : w = v <;> simp [hwv]
        · have : ¬ (relAt s0 v q').p = q := hqq
          simp only [this, if_false]
          apply List.map_congr_left
          intro w _
          have : ¬ (some q' = some q) := by simpa using hqq
          simp [this]
  · rw [FastOps.nfv_installNextWrite, h.hnp]
  · rw [FastOps.pfv_installNextWrite, h.hpp]; rfl
  · rw [FastOps.varEnds_installNextWrite]
    simp only [hnext]
    have hvl : v < c.varEnds.length := by rw [h.hv]; simpa using hvn
    have he0 : c.varEnd v = E1 s0 p op v := by
      simp [FastOps.varEnd, h.hv, List.getElem?_map, List.getElem?_range hvn, hvD, hvmem]
    rw [he0, h.hv]
    apply List.ext_getElem?
    intro w
    unfold nextRel
    cases hno : nextOcc (occVAt s0 v) s0.length p with
    | some q' =>
      simp only [Option.map_some, List.getElem?_map]
      cases hw : (List.range nv)[w]? with
      | none => rfl
      | some w' =>
        simp only [Option.map_some]
        by_cases hwv : w' = v
        · subst hwv; simp [hvD, E2, hno, hvmem]
        · simp [hwv]
    | none =>
      simp only [Option.map_none]
      rw [List.getElem?_set]
      simp only [List.length_map, List.length_range, List.getElem?_map]
      by_cases hwv : v = w
      · subst hwv
        simp only [if_true, hvn, List.getElem?_range hvn, Option.map_some, List.mem_cons, true_or]
        congr 1
        simp only [E2, hno, hrel]
      · simp only [hwv, if_false]
        cases hw : (List.range nv)[w]? with
        | none => rfl
        | some w' =>
          have : w' = w := by
            have hwlt : w < nv := by
              by_cases hh : w < nv
              · exact hh
              · rw [List.getElem?_eq_none (by simpa using Nat.le_of_not_lt hh)] at hw; cases hw
            rw [List.getElem?_range hwlt] at hw
            exact (Option.some.inj hw).symm
          subst this
          have : ¬ w' = v := fun e => hwv e.symm
          simp [this]

end Qmc
