import QmcProofs.RvbWeight
import QmcProofs.KernelInvarianceCut

/-!
# The RVB update as a Markov kernel on `Config`, reversible for the SSE weight

* general part: `remK S r` (off-diagonal rates `r`, the remaining mass stays), `mixRate` (a finite
  mixture over proposals `R` whose probability `q (g a) R` is read off a conserved quantity `g`);
* `MoveOK E N R c c'`: `c'` is an RVB move of the Good configuration `c` on the well-formed region `R`
  and the sweep of `calculate_flip_prob` is abandoned neither on `c` nor on `c'`; symmetric
  (`MoveOK.symm`: reverse move, Good and `RegionOK` are derived);
* `rvbT E N eps R c c'`: probability of `c → c'` given that region `R` was proposed — the model's
  `transProb` (acceptance `min 1 (Π (W_aft/W_bef)^k · Π u_aft/u_bef)` × redraw probability of the
  target assignment) of the abstraction `extract E c R`, on the pairs with `MoveOK`;
* `rvbT_balance`: `π(c)·T_R(c,c') = π(c')·T_R(c',c)` for the SSE weight — from the extract-flip
  lemma, the factorisation of the SSE weight through the abstraction, and `detailed_balance`;
* `rvbK`: the kernel; `rvbK_reversible(_cut)`, `rvbK_rowSumOn`, `rvbK_invariant(_cut)`;
* `ising_timestep_invariant_rvb(_cut)`: one `timestep` of the Ising sampler WITH the RVB update
  (`timestepWith … [restr S rvbK] …`) leaves the SSE measure invariant.
-/

open Finset

namespace Qmc.Rvb.Kernel
open Qmc Qmc.Rvb Qmc.Dist Qmc.Kernel Qmc.Rvb.ExtractFlip

/-! ## general part -/

section General
variable {α : Type*} [DecidableEq α]

/-- off-diagonal transition rates `r`; the remaining mass (relative to the finite set `S`) stays -/
def remK (S : Finset α) (r : α → α → Rat) : α → α → Rat :=
  fun a b => if b = a then 1 - ∑ c ∈ S.erase a, r a c else r a b

theorem remK_reversible {π : α → Rat} (S : Finset α) {r : α → α → Rat}
    (hr : ∀ a b, π a * r a b = π b * r b a) : Reversible π (remK S r) := by
  intro a b
  unfold remK
  by_cases h : b = a
  · subst h; rfl
  · rw [if_neg h, if_neg (fun e => h e.symm)]; exact hr a b

theorem remK_rowSumOn (S : Finset α) (r : α → α → Rat) : RowSumOn S (remK S r) := by
  intro a ha
  rw [← Finset.add_sum_erase S _ ha]
  have h1 : remK S r a a = 1 - ∑ c ∈ S.erase a, r a c := by unfold remK; rw [if_pos rfl]
  have h2 : ∑ b ∈ S.erase a, remK S r a b = ∑ b ∈ S.erase a, r a b := by
    refine Finset.sum_congr rfl (fun b hb => ?_)
    unfold remK; rw [if_neg (Finset.ne_of_mem_erase hb)]
  rw [h1, h2]; ring

/-- finite mixture over proposals: proposal `R` is made with probability `q (g a) R` -/
def mixRate {σ ι : Type*} (g : α → σ) (Rs : List ι) (q : σ → ι → Rat) (T : ι → α → α → Rat) :
    α → α → Rat :=
  fun a b => (Rs.map fun R => q (g a) R * T R a b).sum

omit [DecidableEq α] in
/-- **mixture of reversible proposals with probabilities read off a conserved quantity**: if every
`T R` is in detailed balance with `π` and only connects points with the same `g`, so is the mixture -/
theorem mixRate_balance {σ ι : Type*} {π : α → Rat} (g : α → σ) (Rs : List ι) (q : σ → ι → Rat)
    (T : ι → α → α → Rat) (hT : ∀ R ∈ Rs, ∀ a b, π a * T R a b = π b * T R b a)
    (hg : ∀ R ∈ Rs, ∀ a b, T R a b ≠ 0 → g b = g a) (a b : α) :
    π a * mixRate g Rs q T a b = π b * mixRate g Rs q T b a := by
  unfold mixRate
  induction Rs with
  | nil => simp
  | cons R t ih =>
    simp only [List.map_cons, List.sum_cons, mul_add]
    rw [ih (fun R' h' => hT R' (List.mem_cons_of_mem _ h')) (fun R' h' => hg R' (List.mem_cons_of_mem _ h'))]
    congr 1
    have h1 := hT R (by simp) a b
    by_cases hz : T R a b = 0
    · have hz' : π b * T R b a = 0 := by rw [← h1, hz, mul_zero]
      rw [hz, mul_zero, mul_zero]
      calc (0 : Rat) = q (g b) R * (π b * T R b a) := by rw [hz', mul_zero]
        _ = π b * (q (g b) R * T R b a) := by ring
    · have e := hg R (by simp) a b hz
      rw [e]
      calc π a * (q (g a) R * T R a b) = q (g a) R * (π a * T R a b) := by ring
        _ = q (g a) R * (π b * T R b a) := by rw [h1]
        _ = π b * (q (g a) R * T R b a) := by ring

omit [DecidableEq α] in
theorem mixRate_ne_zero {σ ι : Type*} (g : α → σ) (Rs : List ι) (q : σ → ι → Rat) (T : ι → α → α → Rat)
    (a b : α) (h : mixRate g Rs q T a b ≠ 0) : ∃ R ∈ Rs, T R a b ≠ 0 := by
  unfold mixRate at h
  induction Rs with
  | nil => simp at h
  | cons R t ih =>
    simp only [List.map_cons, List.sum_cons] at h
    by_cases hz : T R a b = 0
    · rw [hz, mul_zero, zero_add] at h
      obtain ⟨R', h1, h2⟩ := ih h
      exact ⟨R', List.mem_cons_of_mem _ h1, h2⟩
    · exact ⟨R, by simp, hz⟩

end General

/-! ## the transition probability given the region -/

/-- `c'` is an RVB move of the Good configuration `c` on the well-formed region `R`, and the sweep of
`calculate_flip_prob` is abandoned (`mult < EPSILON`) neither on `c` nor on `c'` -/
structure MoveOK (E : Ising) (N : Nat) (R : Region) (c c' : Config) : Prop where
  move : RvbMove E c c' R
  good : GoodN (isingHam E) N c
  region : RegionOK E c R
  nb : (rvbCodeMult E c R).2 = false
  nb' : (rvbCodeMult E c' R).2 = false

theorem MoveOK.good' {E : Ising} {N : Nat} {R : Region} {c c' : Config} (h : MoveOK E N R c c') :
    GoodN (isingHam E) N c' := rvbMove_good h.move h.good

/-- **the condition is symmetric**: the reverse move exists, the new configuration is Good, the
region is well formed for it -/
theorem MoveOK.symm {E : Ising} {N : Nat} {R : Region} {c c' : Config} (h : MoveOK E N R c c') :
    MoveOK E N R c' c :=
  ⟨rvbMove_reverse h.move h.good.2.2, h.good', regionOK_of_move h.move (opsOK_of_good h.good.2) h.region,
    h.nb', h.nb⟩

/-- the kernel does not leave the configuration space: every target of a transition from
`cfgSpace H N L` lies in `cfgSpace H N L` (so the mass `remK` keeps at `c` is exactly the rejected mass) -/
theorem MoveOK.mem_cfgSpace {E : Ising} {N L : Nat} {R : Region} {c c' : Config} (h : MoveOK E N R c c')
    (hc : c ∈ cfgSpace (isingHam E) N L) : c' ∈ cfgSpace (isingHam E) N L := by
  have h1 := good_mem_cfgSpace h.good'.2
  obtain ⟨-, hl, -⟩ := Qmc.Kernel.mem_cfgSpace.1 hc
  rw [h.good'.1, h.move.count.2, hl] at h1
  exact h1

/-- everything the balance identity of one region uses about the pair `c → c'` -/
structure Guard (E : Ising) (N : Nat) (eps : Rat) (R : Region) (c c' : Config) : Prop where
  move : RvbMove E c c' R
  good : GoodN (isingHam E) N c
  good' : GoodN (isingHam E) N c'
  flip : (extract E c' R).1 = (extract E c R).1.flip
  shape : (extract E c R).2.1.map List.length = (extract E c' R).2.1.map List.length
  adm : Admissible (extract E c R).1 ((extract E c R).2.1.map List.length) eps
  fact : ∃ ρ : Rat, opsW E c.slots = ρ * weight (extract E c R).1 (extract E c R).2.1 ∧
    opsW E c'.slots = ρ * weight (extract E c' R).1 (extract E c' R).2.1

/-- **nothing observed is left**: the flipped abstraction (`extract_flip`), the shape, `Admissible`
and the factorisation of the SSE weight are all derived from `MoveOK` -/
theorem guard_of_moveOK {E : Ising} {N : Nat} {eps : Rat} {R : Region} {c c' : Config}
    (hgam : 0 ≤ E.gamma) (hclose : CloseExact E eps) (h : MoveOK E N R c c') : Guard E N eps R c c' := by
  have hok := opsOK_of_good h.good.2
  have hfl := extract_flip h.move hok h.region.covered h.nb h.nb'
  refine ⟨h.move, h.good, h.good', hfl.1, hfl.2, admissible_of_good h.good.2 h.region h.nb hgam hclose,
    ⟨restW E R { st := c.state, mask := R.mask0, tog := R.toggles } 0 c.slots,
      opsW_factor h.good.2 h.region h.nb, ?_⟩⟩
  rw [restW_eq h.move hok h.region.covered]
  exact opsW_factor h.good'.2 h.symm.region h.nb'

open Classical in
/-- probability of `c → c'` given that region `R` was proposed: the model's `transProb` (acceptance ×
redraw of the target assignment) of the abstraction extracted from `c`, on the pairs with `MoveOK` -/
noncomputable def rvbT (E : Ising) (N : Nat) (eps : Rat) (R : Region) (c c' : Config) : Rat :=
  if MoveOK E N R c c' then
    transProb (extract E c R).1 (extract E c R).2.1 (extract E c' R).2.1 eps
  else 0

/-- **detailed balance of one region with the SSE weight** -/
theorem guard_balance {E : Ising} {N : Nat} {eps : Rat} {R : Region} {c c' : Config} (β : Rat)
    (g : Guard E N eps R c c') :
    configWeight (isingHam E) β c *
        transProb (extract E c R).1 (extract E c R).2.1 (extract E c' R).2.1 eps =
      configWeight (isingHam E) β c' *
        transProb (extract E c' R).1 (extract E c' R).2.1 (extract E c R).2.1 eps := by
  obtain ⟨ρ, h1, h2⟩ := g.fact
  have DB := detailed_balance (extract E c R).1 (extract E c R).2.1 (extract E c' R).2.1 eps g.shape g.adm
  rw [← g.flip] at DB
  obtain ⟨hn, hl⟩ := g.move.count
  unfold configWeight
  simp only
  rw [hn, hl, opsWeight_eq_opsW E c.slots (shape_of_good g.good.2),
    opsWeight_eq_opsW E c'.slots (shape_of_good g.good'.2), h1, h2]
  rw [show ∀ K r W t : Rat, K * (r * W) * t = K * r * (W * t) from fun _ _ _ _ => by ring, DB]
  ring

/-- `π(c)·T_R(c, c') = π(c')·T_R(c', c)` for the SSE weight `π = configWeight (isingHam E) β` -/
theorem rvbT_balance (E : Ising) (N : Nat) (eps : Rat) (hgam : 0 ≤ E.gamma) (hclose : CloseExact E eps)
    (R : Region) (β : Rat) (c c' : Config) :
    configWeight (isingHam E) β c * rvbT E N eps R c c' =
      configWeight (isingHam E) β c' * rvbT E N eps R c' c := by
  unfold rvbT
  by_cases h : MoveOK E N R c c'
  · rw [if_pos h, if_pos h.symm]; exact guard_balance β (guard_of_moveOK hgam hclose h)
  · rw [if_neg h, if_neg (fun h' => h h'.symm), mul_zero, mul_zero]

theorem rvbT_ne_zero {E : Ising} {N : Nat} {eps : Rat} {R : Region} {c c' : Config}
    (h : rvbT E N eps R c c' ≠ 0) : MoveOK E N R c c' := by
  unfold rvbT at h
  by_cases hg : MoveOK E N R c c'
  · exact hg
  · rw [if_neg hg] at h; exact absurd rfl h

/-- on a pair with `MoveOK` the entry is the model's acceptance × redraw probability -/
theorem rvbT_eq {E : Ising} {N : Nat} {eps : Rat} {R : Region} {c c' : Config} (h : MoveOK E N R c c') :
    rvbT E N eps R c c' =
      acceptProb (extract E c R).1 ((extract E c R).2.1.map List.length) eps *
        redrawProb (extract E c R).1 (extract E c' R).2.1 := by
  unfold rvbT; rw [if_pos h]; rfl

/-! ## the kernel -/

/-- **the RVB update as a Markov kernel on `Config`** (relative to the finite set `S` on which the
rejected mass is accounted for): region `R ∈ Rs` is proposed with probability `q (skeleton E c) R`
— a function of the skeleton only, `Qmc.C03.proposal_depends_on_skeleton_only` — and, given `R`,
`c → c'` has probability `rvbT` (acceptance × redraw); all remaining mass stays at `c`. -/
noncomputable def rvbK (E : Ising) (N : Nat) (eps : Rat) (q : Skeleton → Region → Rat) (Rs : List Region)
    (S : Finset Config) : Config → Config → Rat :=
  remK S (mixRate (skeleton E) Rs q (rvbT E N eps))

/-- **`rvbK` is in detailed balance with the SSE weight** -/
theorem rvbK_reversible (E : Ising) (N : Nat) (eps : Rat) (hgam : 0 ≤ E.gamma) (hclose : CloseExact E eps)
    (q : Skeleton → Region → Rat) (Rs : List Region) (S : Finset Config) (β : Rat) :
    Reversible (configWeight (isingHam E) β) (rvbK E N eps q Rs S) := by
  refine remK_reversible S (mixRate_balance (skeleton E) Rs q _
    (fun R _ a b => rvbT_balance E N eps hgam hclose R β a b) ?_)
  intro R _ a b h
  have g := rvbT_ne_zero h
  exact g.move.skeleton_eq (edgeOpsNotConst_of_good g.good.2)

theorem rvbK_rowSumOn (E : Ising) (N : Nat) (eps : Rat) (q : Skeleton → Region → Rat) (Rs : List Region)
    (S : Finset Config) : RowSumOn S (rvbK E N eps q Rs S) :=
  remK_rowSumOn S _

/-- … and with the true SSE measure `configWeight · 1_{Good}` -/
theorem rvbK_reversible_cut (E : Ising) (N : Nat) (eps : Rat) (hgam : 0 ≤ E.gamma)
    (hclose : CloseExact E eps) (q : Skeleton → Region → Rat) (Rs : List Region) (S : Finset Config)
    (β : Rat) :
    Reversible (cutTo (GoodN (isingHam E) N) (configWeight (isingHam E) β)) (rvbK E N eps q Rs S) := by
  refine cutTo_reversible _ (rvbK_reversible E N eps hgam hclose q Rs S β) (fun a b hk => ?_)
  by_cases hab : b = a
  · subst hab; exact Iff.rfl
  · unfold rvbK remK at hk
    rw [if_neg hab] at hk
    obtain ⟨R, -, hR⟩ := mixRate_ne_zero _ _ _ _ _ _ hk
    have g := rvbT_ne_zero hR
    exact ⟨fun _ => g.good', fun _ => g.good⟩

theorem rvbK_invariant (E : Ising) (N : Nat) (eps : Rat) (hgam : 0 ≤ E.gamma) (hclose : CloseExact E eps)
    (q : Skeleton → Region → Rat) (Rs : List Region) (S : Finset Config) (β : Rat) :
    Invariant (sseOn (isingHam E) β S) (restr S (rvbK E N eps q Rs S)) :=
  reversible_invariantOn (rvbK_reversible E N eps hgam hclose q Rs S β) (rvbK_rowSumOn E N eps q Rs S)

theorem rvbK_invariant_cut (E : Ising) (N : Nat) (eps : Rat) (hgam : 0 ≤ E.gamma)
    (hclose : CloseExact E eps) (q : Skeleton → Region → Rat) (Rs : List Region) (S : Finset Config)
    (hN : ∀ c ∈ S, c.state.length = N) (β : Rat) :
    Invariant (sseCutOn (isingHam E) β S) (restr S (rvbK E N eps q Rs S)) :=
  invariant_cut_of (isingHam E) β N hN (rvbK_reversible_cut E N eps hgam hclose q Rs S β)
    (rvbK_rowSumOn E N eps q Rs S)

/-! ## one `timestep` with the RVB update enabled -/

/-- the edges of `E` join two different variables below `nvars` -/
def EdgesOK (E : Ising) : Prop := ∀ e ∈ E.edges, e.1 ≠ e.2.1 ∧ e.1 < E.nvars ∧ e.2.1 < E.nvars

theorem isingEdges_ok {E : Ising} (he : EdgesOK E) :
    ∀ e ∈ isingEdges E, e.1.Nodup ∧ ∀ v ∈ e.1, v < E.nvars := by
  intro e hm
  unfold isingEdges at hm
  obtain ⟨e0, h0, rfl⟩ := List.mem_map.1 hm
  obtain ⟨h1, h2, h3⟩ := he e0 h0
  refine ⟨by simp [h1], ?_⟩
  intro v hv
  simp only [List.mem_cons, List.not_mem_nil, or_false] at hv
  rcases hv with rfl | rfl <;> assumption

theorem isingHam_varsOK {E : Ising} (he : EdgesOK E) : VarsOK (isingHam E) E.nvars :=
  ising_varsOK (isingEdges E) E.gamma E.h E.nvars (isingEdges_ok he)

/-- **`ising_timestep_invariant_rvb`**: one `timestep` of the Ising sampler with the RVB update
enabled — Metropolis diagonal sweep ; RVB update (`rvbK`) ; flip of every flippable component of
the model's own cluster decomposition with probability ½ ; free-spin refresh — leaves the SSE
weight invariant on the configuration space. Any graph (edges on two different variables), any
couplings, Γ ≥ 0, any h, β > 0, any cutoff `L`, any proposal distribution that is a function of the
skeleton, any finite list of regions, any `eps` for which the "totals closer than eps" shortcut of
`calculate_mult` is exact on the boundaries of `E` (`CloseExact`; trivially `eps = 0`). -/
theorem ising_timestep_invariant_rvb (E : Ising) (L : Nat) (he : EdgesOK E) (hg : 0 ≤ E.gamma) (β : Rat)
    (hβ : 0 < β) (eps : Rat) (hclose : CloseExact E eps) (q : Skeleton → Region → Rat) (Rs : List Region) :
    Invariant (sseOn (isingHam E) β (cfgSpace (isingHam E) E.nvars L))
      (timestepWith (sweepKM (isingHam E) β (cfgSpace (isingHam E) E.nvars L) L)
        [restr (cfgSpace (isingHam E) E.nvars L)
          (rvbK E E.nvars eps q Rs (cfgSpace (isingHam E) E.nvars L))]
        (ClusterFamily.ofComponents (isingFrozen (isingEdges E).length E.nvars) (isingHam E) E.nvars L
          (isingHam_varsOK he)) E.nvars) := by
  refine timestep_invariant_with (isingHam E) β _
    (ising_clusterSym (isingEdges E) E.gamma E.h E.nvars E.nvars L) (cfgSpace_closed _ _ L) E.nvars _ _
    (sweep_invariant _ β hβ (isingClusterHam_nonneg _ _ _ _ hg) (cfgSpace_closed _ _ L) L) ?_
  intro K hK
  obtain rfl := List.eq_of_mem_singleton hK
  exact rvbK_invariant E E.nvars eps hg hclose q Rs _ β

/-- **the same for the true SSE measure** `configWeight · 1_{Consistent ∧ Legal}` -/
theorem ising_timestep_invariant_rvb_cut (E : Ising) (L : Nat) (he : EdgesOK E) (hg : 0 ≤ E.gamma)
    (β : Rat) (hβ : 0 < β) (eps : Rat) (hclose : CloseExact E eps) (q : Skeleton → Region → Rat)
    (Rs : List Region) :
    Invariant (sseCutOn (isingHam E) β (cfgSpace (isingHam E) E.nvars L))
      (timestepWith (sweepKM (isingHam E) β (cfgSpace (isingHam E) E.nvars L) L)
        [restr (cfgSpace (isingHam E) E.nvars L)
          (rvbK E E.nvars eps q Rs (cfgSpace (isingHam E) E.nvars L))]
        (ClusterFamily.ofComponents (isingFrozen (isingEdges E).length E.nvars) (isingHam E) E.nvars L
          (isingHam_varsOK he)) E.nvars) := by
  refine timestep_invariant_cut_with (isingHam E) β E.nvars (isingHam_varsOK he) _
    (ofComponents_tagOK _ _ _ L _) (ising_clusterSym (isingEdges E) E.gamma E.h E.nvars E.nvars L)
    (cfgSpace_closed _ _ L) (cfgSpace_len _ _ L) E.nvars _ _
    (sweep_invariant_cut _ β hβ (isingClusterHam_nonneg _ _ _ _ hg) E.nvars (isingHam_varsOK he)
      (cfgSpace_closed _ _ L) (cfgSpace_len _ _ L) L) ?_
  intro K hK
  obtain rfl := List.eq_of_mem_singleton hK
  exact rvbK_invariant_cut E E.nvars eps hg hclose q Rs _ (cfgSpace_len _ _ L) β

/-- the heat-bath variant of the diagonal update (`set_enable_heatbath(true)`, table `makeBondWeights`) -/
theorem ising_timestep_invariant_rvb_cut_hb (E : Ising) (L : Nat) (he : EdgesOK E) (hg : 0 ≤ E.gamma)
    (β : Rat) (hβ : 0 < β) (hW : 0 < (makeBondWeights (isingHam E)).sum) (eps : Rat)
    (hclose : CloseExact E eps) (q : Skeleton → Region → Rat) (Rs : List Region) :
    Invariant (sseCutOn (isingHam E) β (cfgSpace (isingHam E) E.nvars L))
      (timestepWith
        (sweepKHB (isingHam E) (makeBondWeights (isingHam E)) β (cfgSpace (isingHam E) E.nvars L) L)
        [restr (cfgSpace (isingHam E) E.nvars L)
          (rvbK E E.nvars eps q Rs (cfgSpace (isingHam E) E.nvars L))]
        (ClusterFamily.ofComponents (isingFrozen (isingEdges E).length E.nvars) (isingHam E) E.nvars L
          (isingHam_varsOK he)) E.nvars) := by
  refine timestep_invariant_cut_with (isingHam E) β E.nvars (isingHam_varsOK he) _
    (ofComponents_tagOK _ _ _ L _) (ising_clusterSym (isingEdges E) E.gamma E.h E.nvars E.nvars L)
    (cfgSpace_closed _ _ L) (cfgSpace_len _ _ L) E.nvars _ _
    (sweep_invariant_cut_hb _ _ β hβ hW (isingClusterHam_nonneg _ _ _ _ hg) (makeBondWeights_valid _)
      (makeBondWeights_length _) E.nvars (isingHam_varsOK he) (cfgSpace_closed _ _ L) (cfgSpace_len _ _ L) L) ?_
  intro K hK
  obtain rfl := List.eq_of_mem_singleton hK
  exact rvbK_invariant_cut E E.nvars eps hg hclose q Rs _ (cfgSpace_len _ _ L) β

end Qmc.Rvb.Kernel
