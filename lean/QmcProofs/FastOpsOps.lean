/-
C11: `mutate_subsection_ops` (all-variables branch, = `DiagonalUpdater::mutate_ops`): the walk
along `next_p` on the canonical container equals the naive position-by-position sweep.
-/
import QmcProofs.FastOpsFull

namespace Qmc

/-- the naive wrapper used by `applyA` for `sweepOps` -/
def opsWrap {τ : Type} (f : FastOps → Op → Nat → τ → Option (Option Op) × τ) :
    FastOps → Option Op → τ × Nat → Option (Option Op) × (τ × Nat) :=
  fun c o tp =>
    match o with
    | some op => let r := f c op tp.2 tp.1; (r.1, (r.2, tp.2 + 1))
    | none => (none, (tp.1, tp.2 + 1))

theorem cursorByScan_skip (nv : Nat) (s : Slots) (p u : Nat) (h : slotAt s p = none) :
    cursorByScan nv s (p + 1) u = cursorByScan nv s p u := by
  unfold cursorByScan
  have hoccf : occAt s p = false := occ_false_of_slotAt h
  have hvf : ∀ v, occVAt s v p = false := by intro v; unfold occVAt; rw [h]
  simp only [prevOcc_succ, hoccf, prevRel_succ, hvf]
  rfl

namespace FastOps

theorem opsWalk_canon {τ : Type} (nv : Nat) (nb : Option Nat)
    (f : FastOps → Op → Nat → τ → Option (Option Op) × τ) (pe : Nat)
    (hf : ∀ c o q t, ActOK nv nb (f c o q t).1 ∧ (f c o q t).1 ≠ some none) (u : Nat) :
    ∀ (k p : Nat) (s : Slots) (t : τ) (fuel : Nat), WF nv nb s → p + k = min (pe + 1) s.length →
      k ≤ fuel →
      (opsWalk f pe fuel (nextFrom (occAt s) p (s.length - p)) (canon nv nb s) (cursorByScan nv s p u) t).1
          = canon nv nb (sweepLoopA nv nb (opsWrap f) p k s (t, p)).1 ∧
        (opsWalk f pe fuel (nextFrom (occAt s) p (s.length - p)) (canon nv nb s) (cursorByScan nv s p u) t).2.2
          = (sweepLoopA nv nb (opsWrap f) p k s (t, p)).2.1 ∧
        WF nv nb (sweepLoopA nv nb (opsWrap f) p k s (t, p)).1 := by
  intro k
  induction k with
  | zero =>
    intro p s t fuel hwf hk _
    simp only [sweepLoopA]
    have hp : p = min (pe + 1) s.length := by omega
    cases fuel with
    | zero => exact ⟨rfl, rfl, hwf⟩
    | succ fuel =>
      cases hst : nextFrom (occAt s) p (s.length - p) with
      | none => exact ⟨rfl, rfl, hwf⟩
      | some np =>
        rw [nextFrom_some_iff] at hst
        have hnp : np > pe := by omega
        simp only [opsWalk, hnp, if_true]
        exact ⟨trivial, trivial, hwf⟩
  | succ k ih =>
    intro p s t fuel hwf hk hfuel
    have hpL : p < s.length := by omega
    have hppe : p ≤ pe := by omega
    cases hsp : slotAt s p with
    | none =>
      -- empty slot: the walk does not stop here, the naive sweep leaves it alone
      have hnf : nextFrom (occAt s) p (s.length - p) = nextFrom (occAt s) (p + 1) (s.length - (p + 1)) := by
        have : s.length - p = (s.length - (p + 1)) + 1 := by omega
        rw [this, nextFrom, occ_false_of_slotAt hsp]
        simp
      rw [hnf, ← cursorByScan_skip nv s p u hsp]
      simp only [sweepLoopA, opsWrap, hsp, writeA]
      exact ih (p + 1) s t fuel hwf (by omega) (by omega)
    | some op =>
      have hnf : nextFrom (occAt s) p (s.length - p) = some p := by
        have : s.length - p = (s.length - (p + 1)) + 1 := by omega
        rw [this, nextFrom, occ_of_slotAt hsp]
        simp
      rw [hnf]
      cases fuel with
      | zero => omega
      | succ fuel =>
        have hnot : ¬ p > pe := by omega
        simp only [opsWalk, hnot, if_false]
        rw [← slotAt_abs, abs_canon, hsp]
        simp only []
        obtain ⟨hact, hnr⟩ := hf (canon nv nb s) op p t
        rw [mutatePWith_canon nv nb s p u _ hpL hwf hact]
        simp only [sweepLoopA, opsWrap, hsp]
        -- the slot stays occupied, its `next_p` is the next occupied slot
        have hwf' := WF_writeA nv nb s p (f (canon nv nb s) op p t).1 hwf hact
        have hnext : ((canon nv nb (writeA s p (f (canon nv nb s) op p t).1)).getNode p).bind (·.nextP)
            = nextFrom (occAt (writeA s p (f (canon nv nb s) op p t).1)) (p + 1)
                ((writeA s p (f (canon nv nb s) op p t).1).length - (p + 1)) := by
          rw [getNode_canon]
          cases hr : (f (canon nv nb s) op p t).1 with
          | none => simp [writeA, hsp, canonNode, nextOcc]
          | some x =>
            cases x with
            | none => exact absurd hr hnr
            | some o => simp [writeA, slotAt_set, hpL, canonNode, nextOcc]
        rw [hnext]
        exact ih (p + 1) _ (f (canon nv nb s) op p t).2 fuel hwf'
          (by rw [writeA_length]; omega) (by omega)

theorem firstNodeFrom_canon (nv : Nat) (nb : Option Nat) (s : Slots) (k : Nat) :
    (canon nv nb s).firstNodeFrom k = nextFrom (occAt s) k (s.length - k) := by
  unfold firstNodeFrom
  rw [length_canon]
  have : (fun q => ((canon nv nb s).getNode q).isSome) = occAt s := by
    funext q; rw [← occ_abs, abs_canon]
  rw [this]

/-- the starting position of the all-variables branch is the first occupied slot `≥ pstart` -/
theorem opsStart_canon (nv : Nat) (nb : Option Nat) (s : Slots) (ps : Nat) :
    ((canon nv nb s).pEnds.bind (fun (se : Nat × Nat) =>
      if ps ≤ se.1 then some se.1
      else if se.1 > se.2 then none
      else (canon nv nb s).firstNodeFrom ps)) = nextFrom (occAt s) ps (s.length - ps) := by
  simp only [canon, canonEnds]
  cases hf : firstOcc (occAt s) s.length with
  | none =>
    simp only [zipOpt, Option.bind_none]
    rw [firstOcc_none_iff] at hf
    symm
    rw [nextFrom_none_iff]
    intro j _ hj2
    exact hf j (by omega)
  | some st =>
    obtain ⟨l, hl⟩ : ∃ l, lastOcc (occAt s) s.length = some l := by
      have := @first_some_iff_last_some (occAt s) s.length
      rw [hf] at this
      cases h : lastOcc (occAt s) s.length with
      | none => rw [h] at this; cases this
      | some l => exact ⟨l, rfl⟩
    simp only [hl, zipOpt, Option.bind_some]
    by_cases h1 : ps ≤ st
    · simp only [h1, if_true]
      symm
      rw [nextFrom_some_iff]
      rw [firstOcc_some_iff] at hf
      exact ⟨h1, by omega, hf.2.1, fun j _ hj => hf.2.2 j hj⟩
    · simp only [h1, if_false]
      have h2 : ¬ st > l := by
        rw [firstOcc_some_iff] at hf
        rw [lastOcc_some_iff] at hl
        intro hgt
        have := hl.2.2 st hgt hf.1
        rw [hf.2.1] at this; cases this
      simp only [h2, if_false]
      have := firstNodeFrom_canon nv nb s ps
      simp only [canon] at this
      exact this

/-- `mutate_subsection_ops(pstart, pend, t, f, None)` = `DiagonalUpdater::mutate_ops` -/
theorem mutateSubsectionOps_canon {τ : Type} (nv : Nat) (nb : Option Nat) (s : Slots) (ps pe : Nat) (t : τ)
    (f : FastOps → Op → Nat → τ → Option (Option Op) × τ) (hwf : WF nv nb s) (hle : ps ≤ pe)
    (hlt : ps < max pe s.length)
    (hf : ∀ c o q t, ActOK nv nb (f c o q t).1 ∧ (f c o q t).1 ≠ some none) :
    (mutateSubsectionOps (canon nv nb s) ps pe t f none).1
        = canon nv nb (sweepLoopA nv nb (opsWrap f) ps (min (pe + 1) (growA s pe).length - ps)
            (growA s pe) (t, ps)).1 ∧
      WF nv nb (sweepLoopA nv nb (opsWrap f) ps (min (pe + 1) (growA s pe).length - ps)
            (growA s pe) (t, ps)).1 := by
  unfold mutateSubsectionOps
  simp only [grow_canon]
  have hwf' := WF_growA nv nb s pe hwf
  rw [fillArgsAtP_canon nv nb (growA s pe) ps hwf']
  simp only [cursorByScan]
  have hstart := opsStart_canon nv nb (growA s pe) ps
  have hlen : (growA s pe).length = max pe s.length := by
    unfold growA; split
    · simp; omega
    · omega
  have hk : ps + (min (pe + 1) (growA s pe).length - ps) = min (pe + 1) (growA s pe).length := by
    rw [hlen]; omega
  have := opsWalk_canon nv nb f pe hf
    ((canon nv nb (growA s pe)).fillArgsAtP ps (canon nv nb (growA s pe)).getEmptyArgsAll).unfilled
    (min (pe + 1) (growA s pe).length - ps) ps (growA s pe) t ((growA s pe).length + 1) hwf' hk (by omega)
  rw [← hstart] at this
  simp only [cursorByScan, length_canon] at this ⊢
  exact ⟨this.1, this.2.2⟩

end FastOps
end Qmc
