import QmcProofs.Dist
import Mathlib.Tactic.Ring
import Mathlib.Tactic.Linarith

/-!
# Kernels built from involutions (general part of `QmcProofs/KernelInvariance.lean`)

Extends `QmcProofs/Dist.lean` (kernels `K : α → α → R` on a type, `Reversible`, `Invariant`, `comp`,
`mix`, `wsum`, `metropolis`).  Everything here is independent of the QMC model.

* `detK f`               the deterministic kernel of a map;
* `lazyK q f`            with probability `q` apply `f`, otherwise stay (`= Dist.metropolis f (fun _ => q)`);
* `movesK f A`           finitely many proposals `f i` (each an involution), proposal `i` taken with
                         probability `A i a` (which already contains the selection probability), the
                         remaining mass stays;
* `flipsK [(q₁,f₁),…]`   independent choices: apply `f₁` with probability `q₁`, then `f₂` with
                         probability `q₂`, …;
* `restr S K`            a kernel on `α` read on the finite set `S` (a `Fintype`, so that
                         `Dist.Invariant` / `Dist.comp` apply);
* `compList`             composition of a list of kernels on a finite type;
* `fiberK`               a kernel that uses the parameters `D (g a)` attached to a conserved quantity `g`.

`Reversible` needs no finiteness and is proved on the whole type; finiteness enters only through
`restr S`, where conservation of probability is `RowSumOn S K` (all mass leaving a point of `S` stays
in `S`).
-/

open Finset

namespace Qmc.Kernel
open Qmc.Dist

variable {α : Type*} {R : Type*}

/-! ## Definitions -/

/-- the deterministic kernel of `f` -/
def detK [DecidableEq α] [CommSemiring R] (f : α → α) : α → α → R :=
  fun a b => if b = f a then 1 else 0

/-- with probability `q` apply `f`, otherwise stay -/
def lazyK [DecidableEq α] [CommRing R] (q : R) (f : α → α) : α → α → R :=
  metropolis f (fun _ => q)

/-- finitely many proposals: from `a` go to `f i a` with probability `A i a` (for the `i` that move
`a`), stay with the remaining probability -/
def movesK [DecidableEq α] [CommRing R] {ι : Type*} [Fintype ι] (f : ι → α → α) (A : ι → α → R) :
    α → α → R :=
  fun a b => (∑ i, if b = f i a ∧ f i a ≠ a then A i a else 0) +
    (if b = a then 1 - ∑ i, (if f i a ≠ a then A i a else 0) else 0)

/-- independent choices: apply `f₁` with probability `q₁` (else nothing), then `f₂` with `q₂`, … -/
def flipsK [DecidableEq α] [CommRing R] : List (R × (α → α)) → α → α → R
  | [] => fun a b => if b = a then 1 else 0
  | qf :: fs => fun a b => (1 - qf.1) * flipsK fs a b + qf.1 * flipsK fs (qf.2 a) b

/-- the kernel `K` read on the finite set `S` -/
def restr (S : Finset α) (K : α → α → R) : S → S → R := fun a b => K a.1 b.1

/-- all probability leaving a point of `S` stays in `S` and sums to one -/
def RowSumOn [CommSemiring R] (S : Finset α) (K : α → α → R) : Prop :=
  ∀ a ∈ S, ∑ b ∈ S, K a b = 1

/-- composition of a list of kernels, first element first -/
def compList [Fintype α] [DecidableEq α] [CommSemiring R] : List (α → α → R) → α → α → R
  | [] => idK
  | K :: Ks => comp K (compList Ks)

/-- a kernel whose parameters depend on a quantity `g a` of the current point -/
def fiberK {σ : Type*} (g : α → σ) (Kf : σ → α → α → R) : α → α → R := fun a b => Kf (g a) a b

/-- the weight `π` cut down to the set `P` -/
def cutTo [Zero R] (P : α → Prop) [DecidablePred P] (π : α → R) : α → R :=
  fun a => if P a then π a else 0

/-! ## restriction to a finite set; lists of kernels -/

section Restr
variable [CommSemiring R] {π : α → R} {K L : α → α → R} {S : Finset α}

theorem restr_reversible (h : Reversible π K) : Reversible (fun a : S => π a.1) (restr S K) :=
  fun a b => h a.1 b.1

theorem restr_rowSum (h : RowSumOn S K) : RowSum (restr S K) := by
  intro a
  have := h a.1 a.2
  rw [← Finset.sum_coe_sort S (fun b => K a.1 b)] at this
  exact this

/-- **detailed balance ⇒ invariance** on a finite set that the kernel does not leave -/
theorem reversible_invariantOn (hrev : Reversible π K) (hrow : RowSumOn S K) :
    Invariant (fun a : S => π a.1) (restr S K) :=
  reversible_invariant (restr_reversible hrev) (restr_rowSum hrow)

/-- what `Invariant` on the subtype says in terms of sums over `S` -/
theorem invariant_restr_iff :
    Invariant (fun a : S => π a.1) (restr S K) ↔ ∀ b ∈ S, ∑ a ∈ S, π a * K a b = π b := by
  constructor
  · intro h b hb
    have := h ⟨b, hb⟩
    rw [← Finset.sum_coe_sort S (fun a => π a * K a b)]
    exact this
  · intro h b
    have := h b.1 b.2
    rw [← Finset.sum_coe_sort S (fun a => π a * K a b.1)] at this
    exact this

end Restr

section CompList
variable [Fintype α] [DecidableEq α] [CommSemiring R] {π : α → R}

/-- **composition**: a list of kernels each leaving `π` invariant, run one after the other -/
theorem invariant_compList : ∀ (Ks : List (α → α → R)), (∀ K ∈ Ks, Invariant π K) →
    Invariant π (compList Ks)
  | [], _ => invariant_idK
  | K :: Ks, h => invariant_comp (h K (by simp))
      (invariant_compList Ks (fun K' hK' => h K' (by simp [hK'])))

theorem rowSum_compList : ∀ (Ks : List (α → α → R)), (∀ K ∈ Ks, RowSum K) → RowSum (compList Ks)
  | [], _ => rowSum_idK
  | K :: Ks, h => rowSum_comp (h K (by simp))
      (rowSum_compList Ks (fun K' hK' => h K' (by simp [hK'])))

theorem stochastic_compList [PartialOrder R] [IsOrderedRing R] :
    ∀ (Ks : List (α → α → R)), (∀ K ∈ Ks, Stochastic K) → Stochastic (compList Ks)
  | [], _ => stochastic_idK
  | K :: Ks, h => stochastic_comp (h K (by simp))
      (stochastic_compList Ks (fun K' hK' => h K' (by simp [hK'])))

end CompList

/-! ## deterministic and lazy kernels of an involution -/

section Lazy
variable [DecidableEq α] [CommRing R] {π : α → R} {f : α → α}

/-- **a kernel that with probability `q` applies a weight-preserving involution and otherwise stays
is reversible** (any `q`) -/
theorem lazyK_reversible (q : R) (hinv : ∀ a, f (f a) = a) (hπ : ∀ a, π (f a) = π a) :
    Reversible π (lazyK q f) :=
  involution_metropolis_reversible hinv (fun a => by rw [hπ a])

theorem lazyK_rowSum [Fintype α] (q : R) : RowSum (lazyK q f) := rowSum_metropolis

theorem lazyK_stochastic [Fintype α] [PartialOrder R] [IsOrderedRing R] {q : R} (h0 : 0 ≤ q)
    (h1 : q ≤ 1) : Stochastic (lazyK q f) :=
  stochastic_metropolis (fun _ => h0) (fun _ => h1)

theorem lazyK_apply (q : R) (a b : α) :
    lazyK q f a b = (if b = f a then q else 0) + (if b = a then 1 - q else 0) := rfl

/-- `flipsK` with one entry is the lazy kernel -/
theorem flipsK_single (q : R) (a b : α) : flipsK [(q, f)] a b = lazyK q f a b := by
  simp only [flipsK, lazyK_apply]
  by_cases h1 : b = f a <;> by_cases h2 : b = a <;> simp [h1, h2] <;> ring

end Lazy

/-! ## several involutive proposals -/

section Moves
variable [DecidableEq α] [CommRing R] {ι : Type*} [Fintype ι] {π : α → R}
  {f : ι → α → α} {A : ι → α → R}

/-- detailed balance of `movesK`: every proposal is an involution and satisfies pairwise balance
`π a · A i a = π (f i a) · A i (f i a)` on the points it moves -/
theorem movesK_reversible (hinv : ∀ i a, f i (f i a) = a)
    (hbal : ∀ i a, f i a ≠ a → π a * A i a = π (f i a) * A i (f i a)) :
    Reversible π (movesK f A) := by
  intro a b
  by_cases hab : b = a
  · subst hab; rfl
  · have hba : ¬ a = b := fun h => hab h.symm
    unfold movesK
    rw [if_neg hab, if_neg hba, add_zero, add_zero, Finset.mul_sum, Finset.mul_sum]
    refine Finset.sum_congr rfl (fun i _ => ?_)
    by_cases h : b = f i a ∧ f i a ≠ a
    · have h' : a = f i b ∧ f i b ≠ b := by
        refine ⟨by rw [h.1, hinv], ?_⟩
        rw [h.1, hinv]; exact fun e => h.2 e.symm
      rw [if_pos h, if_pos h', h.1]
      exact hbal i a h.2
    · have h' : ¬ (a = f i b ∧ f i b ≠ b) := by
        intro hc
        apply h
        refine ⟨by rw [hc.1, hinv], ?_⟩
        rw [hc.1, hinv]; exact fun e => hc.2 e.symm
      rw [if_neg h, if_neg h', mul_zero, mul_zero]

/-- conservation of probability of `movesK` on a finite set closed under the proposals -/
theorem movesK_rowSumOn {S : Finset α} (hcl : ∀ i, ∀ a ∈ S, f i a ∈ S) : RowSumOn S (movesK f A) := by
  intro a ha
  unfold movesK
  rw [Finset.sum_add_distrib, Finset.sum_comm]
  have h1 : ∀ i, (∑ b ∈ S, if b = f i a ∧ f i a ≠ a then A i a else 0) =
      (if f i a ≠ a then A i a else 0) := by
    intro i
    by_cases hm : f i a = a
    · simp [hm]
    · simp only [hm, and_true, not_false_eq_true, if_true, ne_eq]
      rw [Finset.sum_ite_eq' S (f i a) (fun _ => A i a), if_pos (hcl i a ha)]
  rw [Finset.sum_congr rfl (fun i _ => h1 i), Finset.sum_ite_eq' S a, if_pos ha]
  ring

/-- entries of `movesK` are non-negative when the acceptances are and their total is at most one -/
theorem movesK_nonneg [PartialOrder R] [IsOrderedRing R] (hA : ∀ i a, 0 ≤ A i a)
    (hsum : ∀ a, ∑ i, (if f i a ≠ a then A i a else 0) ≤ 1) (a b : α) : 0 ≤ movesK f A a b := by
  unfold movesK
  refine add_nonneg (Finset.sum_nonneg (fun i _ => ?_)) ?_
  · split_ifs
    · exact hA i a
    · exact le_rfl
  · split_ifs
    · exact sub_nonneg.mpr (hsum a)
    · exact le_rfl

end Moves

/-! ## independent choices over pairwise commuting involutions -/

section Flips
variable [DecidableEq α] [CommRing R] {π : α → R}

/-- the maps commute pairwise (also required of equal entries, where it is trivial) -/
def Commuting (fs : List (R × (α → α))) : Prop :=
  ∀ x ∈ fs, ∀ y ∈ fs, ∀ a, x.2 (y.2 a) = y.2 (x.2 a)

omit [DecidableEq α] [CommRing R] in
theorem Commuting.tail {qf : R × (α → α)} {fs : List (R × (α → α))} (h : Commuting (qf :: fs)) :
    Commuting fs :=
  fun x hx y hy => h x (List.mem_cons_of_mem _ hx) y (List.mem_cons_of_mem _ hy)

/-- an injective map commuting with all the flips is a symmetry of the kernel -/
theorem flipsK_equivariant (g : α → α) (hg : ∀ a b, g a = g b → a = b) :
    ∀ (fs : List (R × (α → α))), (∀ x ∈ fs, ∀ a, x.2 (g a) = g (x.2 a)) →
      ∀ a b, flipsK fs (g a) (g b) = flipsK fs a b
  | [], _, a, b => by
    simp only [flipsK]
    by_cases h : b = a
    · rw [if_pos h, if_pos (by rw [h])]
    · rw [if_neg h, if_neg (fun e => h (hg _ _ e))]
  | qf :: fs, h, a, b => by
    simp only [flipsK]
    have ih := flipsK_equivariant g hg fs (fun x hx => h x (List.mem_cons_of_mem _ hx))
    rw [ih a b, h qf (by simp) a, ih (qf.2 a) b]

/-- **a product of independent choices over pairwise commuting, weight-preserving involutions is
reversible** (any probabilities `qᵢ`) -/
theorem flipsK_reversible : ∀ (fs : List (R × (α → α))),
    (∀ x ∈ fs, ∀ a, x.2 (x.2 a) = a) → (∀ x ∈ fs, ∀ a, π (x.2 a) = π a) → Commuting fs →
    Reversible π (flipsK fs)
  | [], _, _, _ => by
    intro a b
    simp only [flipsK]
    by_cases h : b = a
    · subst h; rfl
    · rw [if_neg h, if_neg (fun e => h e.symm), mul_zero, mul_zero]
  | qf :: fs, hinv, hπ, hc => by
    intro a b
    have ih := flipsK_reversible fs (fun x hx => hinv x (List.mem_cons_of_mem _ hx))
      (fun x hx => hπ x (List.mem_cons_of_mem _ hx)) hc.tail
    have hf := hinv qf (by simp)
    have heq := flipsK_equivariant qf.2 (fun x y e => by rw [← hf x, e, hf]) fs
      (fun x hx a => hc x (List.mem_cons_of_mem _ hx) qf (by simp) a)
    simp only [flipsK]
    have h1 : π a * flipsK fs (qf.2 a) b = π b * flipsK fs (qf.2 b) a := by
      rw [← hπ qf (by simp) a, ih (qf.2 a) b, ← heq b (qf.2 a), hf]
    calc π a * ((1 - qf.1) * flipsK fs a b + qf.1 * flipsK fs (qf.2 a) b)
        = (1 - qf.1) * (π a * flipsK fs a b) + qf.1 * (π a * flipsK fs (qf.2 a) b) := by ring
      _ = (1 - qf.1) * (π b * flipsK fs b a) + qf.1 * (π b * flipsK fs (qf.2 b) a) := by
          rw [ih a b, h1]
      _ = π b * ((1 - qf.1) * flipsK fs b a + qf.1 * flipsK fs (qf.2 b) a) := by ring

/-- for a constant weight: the kernel is symmetric, `K a b = K b a` -/
theorem flipsK_symmetric (fs : List (R × (α → α))) (hinv : ∀ x ∈ fs, ∀ a, x.2 (x.2 a) = a)
    (hc : Commuting fs) (a b : α) : flipsK fs a b = flipsK fs b a := by
  have := flipsK_reversible (π := fun _ => (1 : R)) fs hinv (fun _ _ _ => rfl) hc a b
  simpa using this

/-- conservation of probability on a finite set closed under the flips -/
theorem flipsK_rowSumOn {S : Finset α} : ∀ (fs : List (R × (α → α))),
    (∀ x ∈ fs, ∀ a ∈ S, x.2 a ∈ S) → RowSumOn S (flipsK fs)
  | [], _ => by
    intro a ha
    simp only [flipsK]
    rw [Finset.sum_ite_eq' S a, if_pos ha]
  | qf :: fs, h => by
    intro a ha
    have ih := flipsK_rowSumOn fs (fun x hx => h x (List.mem_cons_of_mem _ hx))
    simp only [flipsK]
    rw [Finset.sum_add_distrib, ← Finset.mul_sum, ← Finset.mul_sum, ih a ha,
      ih (qf.2 a) (h qf (by simp) a ha)]
    ring

theorem flipsK_nonneg [PartialOrder R] [IsOrderedRing R] : ∀ (fs : List (R × (α → α))),
    (∀ x ∈ fs, 0 ≤ x.1 ∧ x.1 ≤ 1) → ∀ a b, 0 ≤ flipsK fs a b
  | [], _, a, b => by
    simp only [flipsK]; split_ifs
    · exact zero_le_one
    · exact le_rfl
  | qf :: fs, h, a, b => by
    have ih := flipsK_nonneg fs (fun x hx => h x (List.mem_cons_of_mem _ hx))
    simp only [flipsK]
    exact add_nonneg (mul_nonneg (sub_nonneg.mpr (h qf (by simp)).2) (ih a b))
      (mul_nonneg (h qf (by simp)).1 (ih _ b))

/-- a quantity conserved by every flip is conserved by the kernel -/
theorem flipsK_support {σ : Type*} (g : α → σ) : ∀ (fs : List (R × (α → α))),
    (∀ x ∈ fs, ∀ a, g (x.2 a) = g a) → ∀ a b, flipsK fs a b ≠ 0 → g b = g a
  | [], _, a, b, h => by
    simp only [flipsK] at h
    by_cases e : b = a
    · rw [e]
    · rw [if_neg e] at h; exact absurd rfl h
  | qf :: fs, hg, a, b, h => by
    have ih := flipsK_support g fs (fun x hx => hg x (List.mem_cons_of_mem _ hx))
    simp only [flipsK] at h
    by_cases h1 : flipsK fs a b = 0
    · by_cases h2 : flipsK fs (qf.2 a) b = 0
      · rw [h1, h2] at h; simp at h
      · rw [ih _ b h2, hg qf (by simp)]
    · exact ih a b h1

/-- the subsets of the flips, as the maps they compose to -/
def applySub : List Bool → List (R × (α → α)) → α → α
  | t :: ts, qf :: fs, a => applySub ts fs (if t then qf.2 a else a)
  | _, _, a => a

/-- all bit lists of a given length -/
def bitLists : Nat → List (List Bool)
  | 0 => [[]]
  | k + 1 => (bitLists k).map (false :: ·) ++ (bitLists k).map (true :: ·)

/-- explicit form for fair coins: `K a b = 2^-k · #{subsets T of the k flips : flip_T a = b}` -/
theorem flipsK_half_count [Invertible (2 : R)] : ∀ (fs : List (R × (α → α))), (∀ x ∈ fs, x.1 = ⅟2) →
    ∀ a b, flipsK fs a b =
      ⅟2 ^ fs.length * (((bitLists fs.length).filter (fun t => decide (applySub t fs a = b))).length : R)
  | [], _, a, b => by
    simp only [flipsK, bitLists, List.length_nil, pow_zero, one_mul, applySub]
    by_cases h : b = a
    · simp [h]
    · have : ¬ a = b := fun e => h e.symm
      simp [h, this]
  | qf :: fs, hq, a, b => by
    have ih := flipsK_half_count fs (fun x hx => hq x (List.mem_cons_of_mem _ hx))
    have hq0 : qf.1 = ⅟2 := hq qf (by simp)
    have h2 : (1 : R) - ⅟2 = ⅟2 := by
      rw [eq_comm, eq_sub_iff_add_eq, ← two_mul]; exact mul_invOf_self 2
    simp only [flipsK, List.length_cons, bitLists, List.filter_append, List.length_append,
      List.filter_map, List.length_map, Nat.cast_add]
    rw [hq0, h2, ih a b, ih (qf.2 a) b, pow_succ]
    have e1 : ((bitLists fs.length).filter ((fun t => decide (applySub t (qf :: fs) a = b)) ∘ (false :: ·)))
        = (bitLists fs.length).filter (fun t => decide (applySub t fs a = b)) := by
      apply List.filter_congr; intro t _; simp [applySub]
    have e2 : ((bitLists fs.length).filter ((fun t => decide (applySub t (qf :: fs) a = b)) ∘ (true :: ·)))
        = (bitLists fs.length).filter (fun t => decide (applySub t fs (qf.2 a) = b)) := by
      apply List.filter_congr; intro t _; simp [applySub]
    rw [e1, e2]
    ring

end Flips

/-! ## parameters depending on a conserved quantity; cutting the weight to an invariant set -/

section Fiber
variable [CommSemiring R] {π : α → R}

/-- a kernel that reads its parameters off a quantity `g` which it conserves is reversible as soon as
each member of the family is -/
theorem fiberK_reversible {σ : Type*} (g : α → σ) (Kf : σ → α → α → R)
    (hrev : ∀ s, Reversible π (Kf s)) (hsupp : ∀ s a b, Kf s a b ≠ 0 → g b = g a) :
    Reversible π (fiberK g Kf) := by
  intro a b
  unfold fiberK
  by_cases h : g b = g a
  · rw [h]; exact hrev (g a) a b
  · have h1 : Kf (g a) a b = 0 := by
      by_contra hc; exact h (hsupp _ _ _ hc)
    have h2 : Kf (g b) b a = 0 := by
      by_contra hc; exact h (hsupp _ _ _ hc).symm
    rw [h1, h2, mul_zero, mul_zero]

theorem fiberK_rowSumOn {σ : Type*} (g : α → σ) (Kf : σ → α → α → R) {S : Finset α}
    (h : ∀ a ∈ S, ∑ b ∈ S, Kf (g a) a b = 1) : RowSumOn S (fiberK g Kf) := h

/-- if the kernel never connects a point of `P` with a point outside, detailed balance for `π`
gives detailed balance for `π` cut down to `P` (e.g. `P` = consistent configurations) -/
theorem cutTo_reversible (P : α → Prop) [DecidablePred P] {K : α → α → R} (hrev : Reversible π K)
    (hP : ∀ a b, K a b ≠ 0 → (P a ↔ P b)) : Reversible (cutTo P π) K := by
  intro a b
  unfold cutTo
  by_cases h0 : K a b = 0
  · by_cases h1 : K b a = 0
    · rw [h0, h1, mul_zero, mul_zero]
    · have := hP b a h1
      by_cases hb : P b
      · rw [if_pos hb, if_pos (this.mp hb)]; exact hrev a b
      · rw [if_neg hb, if_neg (fun ha => hb (this.mpr ha)), zero_mul, zero_mul]
  · have := hP a b h0
    by_cases ha : P a
    · rw [if_pos ha, if_pos (this.mp ha)]; exact hrev a b
    · rw [if_neg ha, if_neg (fun hb => ha (this.mpr hb)), zero_mul, zero_mul]

end Fiber

/-! ## mixtures (re-exported from `Dist` for the subtype) -/

section Mix
variable [CommRing R] {π : α → R} {S : Finset α}

/-- **convex mixture** of invariant kernels on the finite set -/
theorem invariantOn_mix {K L : α → α → R} (p : R)
    (hK : Invariant (fun a : S => π a.1) (restr S K)) (hL : Invariant (fun a : S => π a.1) (restr S L)) :
    Invariant (fun a : S => π a.1) (restr S (mix p K L)) :=
  invariant_mix (p := p) hK hL

end Mix

end Qmc.Kernel
