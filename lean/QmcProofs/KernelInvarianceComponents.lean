import QmcProofs.KernelInvarianceSpace
import QmcProofs.ClusterComponents

/-!
# The cluster family of the model's own decomposition (helper of `KernelInvariance.lean`)

Instantiates `ClusterFamily` with the connected components of the leg graph as the model computes
them (`compLab sk = componentLabels (legGraph sk)`, C09 `QmcProofs/ClusterComponents.lean`):

* a skeleton with a cluster-edge operator: one flip `flipComponentT sk r` per component root `r`
  (`compLab[r] = r`) that holds no non-edge operator of flip weight 0 (`ComponentFreeSk`);
* a skeleton without any cluster-edge operator ("the whole thing is one cluster"): the single flip of
  all legs, if no operator of flip weight 0 is present and the string is not empty.

Every field of `ClusterFamily` is *proved* from C09's `flipComponentT_{clusterMove,involutive,comm}`
/ `flipConfig_clusterMove`, for every Hamiltonian whose bonds act on distinct in-range variables —
no hypothesis about the decomposition is left.  The flips act on configurations with canonical tags
(`TagCanon`, what the sampler produces) and are the identity elsewhere.
-/

namespace Qmc.Kernel
open Qmc

/-- every bond acts on distinct variables below `N` -/
def VarsOK (H : Ham) (N : Nat) : Prop := ∀ b < H.nbonds, (H.vars b).Nodup ∧ ∀ v ∈ H.vars b, v < N

theorem some_mem_of_mem_opsOf : ∀ {s : Slots} {o : Op}, o ∈ opsOf s → some o ∈ s
  | [], _, h => by simp [opsOf] at h
  | none :: t, o, h => by
    simp only [opsOf] at h; exact List.mem_cons_of_mem _ (some_mem_of_mem_opsOf h)
  | some o' :: t, o, h => by
    simp only [opsOf, List.mem_cons] at h
    rcases h with rfl | h
    · simp
    · exact List.mem_cons_of_mem _ (some_mem_of_mem_opsOf h)

theorem cfgSpace_shapeOk {H : Ham} {N L : Nat} (hV : VarsOK H N) {c : Config}
    (hc : c ∈ cfgSpace H N L) : ShapeOk c ∧ NodupVars c.slots := by
  rw [mem_cfgSpace] at hc
  constructor
  · intro o ho
    obtain ⟨h1, h2, -, h4, h5⟩ := hc.2.2 o (some_mem_of_mem_opsOf ho)
    refine ⟨h4, h5, ?_⟩
    intro v hv
    rw [hc.1]
    exact (hV o.bond h1).2 v (by rw [← h2]; exact hv)
  · intro o ho
    obtain ⟨h1, h2, -, -, -⟩ := hc.2.2 o (some_mem_of_mem_opsOf ho)
    rw [h2]; exact (hV o.bond h1).1

open Classical in
/-- roots of the flippable components -/
noncomputable def componentRoots (fr : SkOp → Bool) (s : Skel) : List Nat :=
  (List.range (legGraph s).nlegs).filter fun r =>
    (compLab s)[r]! == r && decide (ComponentFreeSk fr s r)

open Classical in
/-- a leg-set flip with the tag rule, on canonical-tag configurations -/
noncomputable def tagFlip (D : Nat → Bool) (c : Config) : Config :=
  if TagCanon c.slots then flipConfigT D c else c

open Classical in
/-- **the decomposition of the model**: components when a cluster edge exists, else everything -/
noncomputable def componentFlips (fr : SkOp → Bool) (s : Skel) : List (Config → Config) :=
  if (legGraph s).hasEdge then
    (componentRoots fr s).map fun r => tagFlip (fun i => (compLab s)[i]! == r)
  else if (∀ r, ComponentFreeSk fr s r) ∧ 0 < (legGraph s).nlegs then [tagFlip (fun _ => true)]
  else []

theorem flipConfigT_tagCanon (D : Nat → Bool) (c : Config) : TagCanon (flipConfigT D c).slots :=
  tagCanon_canonSlots _

theorem tagFlip_invol (D : Nat → Bool) (c : Config) (h : ShapedSlots c.slots) :
    tagFlip D (tagFlip D c) = c := by
  by_cases ht : TagCanon c.slots
  · have e : tagFlip D c = flipConfigT D c := by unfold tagFlip; rw [if_pos ht]
    rw [e]
    unfold tagFlip
    rw [if_pos (flipConfigT_tagCanon D c)]
    exact flipConfigT_involutive D c h ht
  · have e : tagFlip D c = c := by unfold tagFlip; rw [if_neg ht]
    rw [e, e]

theorem tagFlip_comm (D1 D2 : Nat → Bool) (c : Config) :
    tagFlip D1 (tagFlip D2 c) = tagFlip D2 (tagFlip D1 c) := by
  by_cases ht : TagCanon c.slots
  · have e1 : tagFlip D1 c = flipConfigT D1 c := by unfold tagFlip; rw [if_pos ht]
    have e2 : tagFlip D2 c = flipConfigT D2 c := by unfold tagFlip; rw [if_pos ht]
    rw [e1, e2]
    unfold tagFlip
    rw [if_pos (flipConfigT_tagCanon D2 c), if_pos (flipConfigT_tagCanon D1 c)]
    exact flipConfigT_comm D1 D2 c
  · have e1 : tagFlip D1 c = c := by unfold tagFlip; rw [if_neg ht]
    have e2 : tagFlip D2 c = c := by unfold tagFlip; rw [if_neg ht]
    rw [e1, e2, e1]

theorem mem_componentFlips {fr : SkOp → Bool} {s : Skel} {f : Config → Config}
    (hf : f ∈ componentFlips fr s) :
    (∃ r, (legGraph s).hasEdge = true ∧ ComponentFreeSk fr s r ∧ f = tagFlip (fun i => (compLab s)[i]! == r)) ∨
    ((legGraph s).hasEdge = false ∧ (∀ r, ComponentFreeSk fr s r) ∧ f = tagFlip (fun _ => true)) := by
  unfold componentFlips at hf
  split at hf
  · rename_i he
    obtain ⟨r, hr, rfl⟩ := List.mem_map.mp hf
    unfold componentRoots at hr
    simp only [List.mem_filter, Bool.and_eq_true, decide_eq_true_eq] at hr
    exact Or.inl ⟨r, he, hr.2.2, rfl⟩
  · rename_i he
    split at hf
    · rename_i h2
      simp only [List.mem_cons, List.not_mem_nil, or_false] at hf
      exact Or.inr ⟨by simpa using he, h2.1, hf⟩
    · simp at hf

theorem componentFlips_D {fr : SkOp → Bool} {s : Skel} {f : Config → Config}
    (hf : f ∈ componentFlips fr s) : ∃ D, f = tagFlip D := by
  rcases mem_componentFlips hf with ⟨r, -, -, e⟩ | ⟨-, -, e⟩
  · exact ⟨_, e⟩
  · exact ⟨_, e⟩

/-- each flip of the model's decomposition is a C09 cluster move -/
theorem componentFlips_move {fr : SkOp → Bool} {c : Config} (hshape : ShapeOk c)
    (hn : NodupVars c.slots) {f : Config → Config} (hf : f ∈ componentFlips fr (skeleton c.slots)) :
    f c = c ∨ ClusterMove fr c (f c) := by
  by_cases ht : TagCanon c.slots
  · right
    rcases mem_componentFlips hf with ⟨r, -, hfree, rfl⟩ | ⟨-, hfree, rfl⟩
    · have e : tagFlip (fun i => (compLab (skeleton c.slots))[i]! == r) c =
          flipComponentT (skeleton c.slots) r c := by
        unfold tagFlip; rw [if_pos ht]; rfl
      rw [e]
      exact flipComponentT_clusterMove fr c r hshape hn ((componentFree_iff fr c.slots hn r).mpr hfree)
    · have e : tagFlip (fun _ => true) c = canonConfig (flipConfig (fun _ => true) c) := by
        unfold tagFlip; rw [if_pos ht]; rfl
      rw [e]
      refine clusterMove_canon (flipConfig_clusterMove fr _ c hshape hn (fun _ _ => rfl) ?_)
      intro x hx hed hfr hpos
      exact absurd rfl ((componentFree_iff fr c.slots hn _).mpr (hfree _) x hx hed hfr hpos)
  · left
    obtain ⟨D, rfl⟩ := componentFlips_D hf
    unfold tagFlip; rw [if_neg ht]

/-- **The cluster family of the model's decomposition** — no hypothesis on the decomposition. -/
noncomputable def ClusterFamily.ofComponents (fr : SkOp → Bool) (H : Ham) (N L : Nat) (hV : VarsOK H N) :
    ClusterFamily fr (cfgSpace H N L) :=
  ClusterFamily.ofMoves (componentFlips fr)
    (by
      intro s f hf c hc _
      obtain ⟨D, rfl⟩ := componentFlips_D hf
      have hs := (cfgSpace_shapeOk hV hc).1
      exact tagFlip_invol D c (fun o ho => ⟨(hs o ho).1, (hs o ho).2.1⟩))
    (by
      intro s f hf g hg c _ _
      obtain ⟨D, rfl⟩ := componentFlips_D hf
      obtain ⟨D', rfl⟩ := componentFlips_D hg
      exact tagFlip_comm D D' c)
    (by
      intro s f hf c hc hs
      obtain ⟨h1, h2⟩ := cfgSpace_shapeOk hV hc
      subst hs
      exact componentFlips_move h1 h2 hf)

theorem ClusterFamily.ofComponents_flips (fr : SkOp → Bool) (H : Ham) (N L : Nat) (hV : VarsOK H N)
    (s : Skel) : (ClusterFamily.ofComponents fr H N L hV).flips s = componentFlips fr s := rfl

/-- the number of flips offered on a skeleton with a cluster edge is the number of component roots
without a frozen operator -/
theorem componentFlips_length (fr : SkOp → Bool) (s : Skel) (he : (legGraph s).hasEdge = true) :
    (componentFlips fr s).length = (componentRoots fr s).length := by
  unfold componentFlips; rw [if_pos he, List.length_map]

end Qmc.Kernel
