/-
Finite Markov kernels for C05 (own small library; deliberately independent of QmcProofs/Dist.lean):
invariance / reversibility, composition, mixture, Metropolis kernels of an involution, the
replica-exchange kernel on a product space, lifting of a one-replica kernel to the ladder.
-/
import Mathlib.Algebra.BigOperators.Ring.Finset
import Mathlib.Algebra.BigOperators.Field
import Mathlib.Algebra.Order.BigOperators.Group.Finset
import Mathlib.Data.Fintype.BigOperators
import Mathlib.Algebra.Order.Field.Rat
import Mathlib.Logic.Equiv.Basic
import Mathlib.Tactic.Ring
import Mathlib.Tactic.Linarith
import Mathlib.Tactic.FieldSimp

set_option linter.unusedSectionVars false

namespace Qmc
namespace TDist

open Finset

variable {α : Type} [Fintype α] [DecidableEq α]

/-- a kernel: `K x y` = probability to go from `x` to `y` -/
abbrev Kernel (α : Type) := α → α → ℚ

def RowSum (K : Kernel α) : Prop := ∀ x, ∑ y, K x y = 1
def Nonneg (K : Kernel α) : Prop := ∀ x y, 0 ≤ K x y
/-- `π` (not necessarily normalised) is invariant under `K` -/
def Invariant (π : α → ℚ) (K : Kernel α) : Prop := ∀ y, ∑ x, π x * K x y = π y
/-- detailed balance -/
def Reversible (π : α → ℚ) (K : Kernel α) : Prop := ∀ x y, π x * K x y = π y * K y x

theorem reversible_invariant {π : α → ℚ} {K : Kernel α} (hK : RowSum K) (h : Reversible π K) :
    Invariant π K := by
  intro y
  calc ∑ x, π x * K x y = ∑ x, π y * K y x := Finset.sum_congr rfl (fun x _ => h x y)
    _ = π y * ∑ x, K y x := by rw [Finset.mul_sum]
    _ = π y := by rw [hK y, mul_one]

/-- do `K1`, then `K2` -/
def comp (K1 K2 : Kernel α) : Kernel α := fun x z => ∑ y, K1 x y * K2 y z

theorem invariant_comp {π : α → ℚ} {K1 K2 : Kernel α} (h1 : Invariant π K1) (h2 : Invariant π K2) :
    Invariant π (comp K1 K2) := by
  intro z
  unfold comp
  calc ∑ x, π x * ∑ y, K1 x y * K2 y z
      = ∑ x, ∑ y, π x * K1 x y * K2 y z := by
        apply Finset.sum_congr rfl; intro x _; rw [Finset.mul_sum]
        apply Finset.sum_congr rfl; intro y _; ring
    _ = ∑ y, ∑ x, π x * K1 x y * K2 y z := Finset.sum_comm
    _ = ∑ y, π y * K2 y z := by
        apply Finset.sum_congr rfl; intro y _; rw [← Finset.sum_mul, h1 y]
    _ = π z := h2 z

theorem rowSum_comp {K1 K2 : Kernel α} (h1 : RowSum K1) (h2 : RowSum K2) : RowSum (comp K1 K2) := by
  intro x
  unfold comp
  rw [Finset.sum_comm]
  calc ∑ y, ∑ z, K1 x y * K2 y z = ∑ y, K1 x y := by
        apply Finset.sum_congr rfl; intro y _; rw [← Finset.mul_sum, h2 y, mul_one]
    _ = 1 := h1 x

theorem nonneg_comp {K1 K2 : Kernel α} (h1 : Nonneg K1) (h2 : Nonneg K2) : Nonneg (comp K1 K2) :=
  fun x z => Finset.sum_nonneg (fun y _ => mul_nonneg (h1 x y) (h2 y z))

/-- with probability `p` do `K1`, otherwise `K2` -/
def mix (p : ℚ) (K1 K2 : Kernel α) : Kernel α := fun x y => p * K1 x y + (1 - p) * K2 x y

theorem invariant_mix {π : α → ℚ} {K1 K2 : Kernel α} (p : ℚ) (h1 : Invariant π K1)
    (h2 : Invariant π K2) : Invariant π (mix p K1 K2) := by
  intro y
  unfold mix
  calc ∑ x, π x * (p * K1 x y + (1 - p) * K2 x y)
      = p * ∑ x, π x * K1 x y + (1 - p) * ∑ x, π x * K2 x y := by
        rw [Finset.mul_sum, Finset.mul_sum, ← Finset.sum_add_distrib]
        apply Finset.sum_congr rfl; intro x _; ring
    _ = π y := by rw [h1 y, h2 y]; ring

theorem rowSum_mix {K1 K2 : Kernel α} (p : ℚ) (h1 : RowSum K1) (h2 : RowSum K2) :
    RowSum (mix p K1 K2) := by
  intro x
  unfold mix
  rw [Finset.sum_add_distrib, ← Finset.mul_sum, ← Finset.mul_sum, h1 x, h2 x]; ring

theorem nonneg_mix {K1 K2 : Kernel α} {p : ℚ} (hp0 : 0 ≤ p) (hp1 : p ≤ 1) (h1 : Nonneg K1)
    (h2 : Nonneg K2) : Nonneg (mix p K1 K2) :=
  fun x y => add_nonneg (mul_nonneg hp0 (h1 x y)) (mul_nonneg (by linarith) (h2 x y))

/-- stay put -/
def idK : Kernel α := fun x y => if x = y then 1 else 0

theorem invariant_id (π : α → ℚ) : Invariant π (idK : Kernel α) := by
  intro y; unfold idK
  simp [Finset.sum_ite_eq']

theorem rowSum_id : RowSum (idK : Kernel α) := by
  intro x; unfold idK; simp [Finset.sum_ite_eq]

/-- a schedule: the kernels applied one after the other -/
def compList : List (Kernel α) → Kernel α
  | [] => idK
  | K :: t => comp K (compList t)

theorem invariant_compList {π : α → ℚ} : ∀ (l : List (Kernel α)),
    (∀ K ∈ l, Invariant π K) → Invariant π (compList l)
  | [], _ => invariant_id π
  | K :: t, h => invariant_comp (h K (List.mem_cons_self ..))
      (invariant_compList t (fun K' hK' => h K' (List.mem_cons_of_mem _ hK')))

theorem rowSum_compList : ∀ (l : List (Kernel α)), (∀ K ∈ l, RowSum K) → RowSum (compList l)
  | [], _ => rowSum_id
  | K :: t, h => rowSum_comp (h K (List.mem_cons_self ..))
      (rowSum_compList t (fun K' hK' => h K' (List.mem_cons_of_mem _ hK')))

/-! ### Metropolis kernel of an involution -/

/-- propose `f x`, accept with probability `acc x`, else stay -/
def metro (f : α → α) (acc : α → ℚ) : Kernel α :=
  fun x y => (if y = f x then acc x else 0) + (if y = x then 1 - acc x else 0)

theorem rowSum_metro (f : α → α) (acc : α → ℚ) : RowSum (metro f acc) := by
  intro x; unfold metro
  rw [Finset.sum_add_distrib]
  simp [Finset.sum_ite_eq']

theorem nonneg_metro (f : α → α) (acc : α → ℚ) (h0 : ∀ x, 0 ≤ acc x) (h1 : ∀ x, acc x ≤ 1) :
    Nonneg (metro f acc) := by
  intro x y; unfold metro
  have := h0 x; have := h1 x
  split_ifs <;> linarith

theorem metro_reversible {π : α → ℚ} (f : α → α) (acc : α → ℚ) (hf : ∀ x, f (f x) = x)
    (hb : ∀ x, π x * acc x = π (f x) * acc (f x)) : Reversible π (metro f acc) := by
  intro x y
  unfold metro
  by_cases hxy : y = x
  · subst hxy; rfl
  · have hyx : ¬ x = y := fun e => hxy e.symm
    simp only [hxy, hyx, if_false, add_zero]
    by_cases h1 : y = f x
    · have h2 : x = f y := by rw [h1, hf]
      simp only [h1, if_true]
      rw [hf x]; simp only [if_true]
      exact hb x
    · have h2 : ¬ x = f y := by
        intro e; apply h1; rw [e, hf]
      simp [h1, h2]

/-- the Metropolis acceptance `min 1 (B/A)` balances weights `A` and `B` -/
theorem min_ratio_balance (A B : ℚ) (hA : 0 ≤ A) (hB : 0 ≤ B) :
    A * min 1 (B / A) = B * min 1 (A / B) := by
  rcases eq_or_lt_of_le hA with hA0 | hApos
  · subst hA0; simp
  rcases eq_or_lt_of_le hB with hB0 | hBpos
  · subst hB0; simp
  rcases le_total A B with h | h
  · have h1 : 1 ≤ B / A := by rw [le_div_iff₀ hApos]; linarith
    have h2 : A / B ≤ 1 := by rw [div_le_iff₀ hBpos]; linarith
    rw [min_eq_left h1, min_eq_right h2]; field_simp
  · have h1 : B / A ≤ 1 := by rw [div_le_iff₀ hApos]; linarith
    have h2 : 1 ≤ A / B := by rw [le_div_iff₀ hBpos]; linarith
    rw [min_eq_right h1, min_eq_left h2]; field_simp

/-! ### the ladder: product law and the exchange kernel -/

variable {σ : Type} [Fintype σ] [DecidableEq σ] {N : Nat}

/-- the (unnormalised) product law `∏_i W_i(x_i)` -/
def prodLaw (W : Fin N → σ → ℚ) (x : Fin N → σ) : ℚ := ∏ i, W i (x i)

/-- exchange the configurations at positions `i` and `j` -/
def swapAt (i j : Fin N) (x : Fin N → σ) : Fin N → σ := fun k => x (Equiv.swap i j k)

theorem swapAt_invol (i j : Fin N) (x : Fin N → σ) : swapAt i j (swapAt i j x) = x := by
  funext k; simp [swapAt]

/-- the acceptance probability of the code: `min 1 (W_i(x_j) W_j(x_i) / (W_i(x_i) W_j(x_j)))` -/
def accRatio (W : Fin N → σ → ℚ) (i j : Fin N) (x : Fin N → σ) : ℚ :=
  min 1 (W i (x j) * W j (x i) / (W i (x i) * W j (x j)))

/-- the replica-exchange kernel of one neighbour pair -/
def swapKernel (W : Fin N → σ → ℚ) (i j : Fin N) : Kernel (Fin N → σ) :=
  metro (swapAt i j) (accRatio W i j)

theorem prodLaw_split (W : Fin N → σ → ℚ) (i j : Fin N) (hij : i ≠ j) (x : Fin N → σ) :
    prodLaw W x = W i (x i) * W j (x j) * ∏ k ∈ (univ.erase i).erase j, W k (x k) := by
  unfold prodLaw
  rw [← Finset.mul_prod_erase univ _ (mem_univ i),
    ← Finset.mul_prod_erase (univ.erase i) _ (mem_erase.mpr ⟨hij.symm, mem_univ j⟩)]
  ring

theorem prodLaw_swapAt (W : Fin N → σ → ℚ) (i j : Fin N) (hij : i ≠ j) (x : Fin N → σ) :
    prodLaw W (swapAt i j x) =
      W i (x j) * W j (x i) * ∏ k ∈ (univ.erase i).erase j, W k (x k) := by
  rw [prodLaw_split W i j hij]
  have e1 : swapAt i j x i = x j := by simp [swapAt]
  have e2 : swapAt i j x j = x i := by simp [swapAt]
  rw [e1, e2]
  congr 1
  apply Finset.prod_congr rfl
  intro k hk
  have hk' : k ≠ j ∧ k ≠ i := by
    simp only [mem_erase, mem_univ, and_true] at hk; exact ⟨hk.1, hk.2⟩
  simp [swapAt, Equiv.swap_apply_of_ne_of_ne hk'.2 hk'.1]

theorem swapKernel_reversible (W : Fin N → σ → ℚ) (hW : ∀ i s, 0 ≤ W i s) (i j : Fin N)
    (hij : i ≠ j) : Reversible (prodLaw W) (swapKernel W i j) := by
  apply metro_reversible _ _ (swapAt_invol i j)
  intro x
  rw [prodLaw_swapAt W i j hij, prodLaw_split W i j hij x]
  have e1 : swapAt i j x i = x j := by simp [swapAt]
  have e2 : swapAt i j x j = x i := by simp [swapAt]
  unfold accRatio
  rw [e1, e2]
  set R := ∏ k ∈ (univ.erase i).erase j, W k (x k)
  have hA : 0 ≤ W i (x i) * W j (x j) := mul_nonneg (hW _ _) (hW _ _)
  have hB : 0 ≤ W i (x j) * W j (x i) := mul_nonneg (hW _ _) (hW _ _)
  have := min_ratio_balance _ _ hA hB
  calc W i (x i) * W j (x j) * R * min 1 (W i (x j) * W j (x i) / (W i (x i) * W j (x j)))
      = R * (W i (x i) * W j (x j) * min 1 (W i (x j) * W j (x i) / (W i (x i) * W j (x j)))) := by ring
    _ = R * (W i (x j) * W j (x i) * min 1 (W i (x i) * W j (x j) / (W i (x j) * W j (x i)))) := by rw [this]
    _ = _ := by ring

theorem swapKernel_invariant (W : Fin N → σ → ℚ) (hW : ∀ i s, 0 ≤ W i s) (i j : Fin N)
    (hij : i ≠ j) : Invariant (prodLaw W) (swapKernel W i j) :=
  reversible_invariant (rowSum_metro _ _) (swapKernel_reversible W hW i j hij)

theorem accRatio_bounds (W : Fin N → σ → ℚ) (hW : ∀ i s, 0 ≤ W i s) (i j : Fin N) (x : Fin N → σ) :
    0 ≤ accRatio W i j x ∧ accRatio W i j x ≤ 1 := by
  unfold accRatio
  exact ⟨le_min (by norm_num) (div_nonneg (mul_nonneg (hW _ _) (hW _ _)) (mul_nonneg (hW _ _) (hW _ _))),
    min_le_left _ _⟩

/-! ### lifting a one-replica kernel to the ladder -/

/-- replica `i` makes a move with its own kernel `K`, every other position stays -/
def lift (i : Fin N) (K : Kernel σ) : Kernel (Fin N → σ) :=
  fun x y => if ∀ k, k ≠ i → y k = x k then K (x i) (y i) else 0

theorem prodLaw_update (W : Fin N → σ → ℚ) (i : Fin N) (y : Fin N → σ) (s : σ) :
    prodLaw W (Function.update y i s) = W i s * ∏ k ∈ univ.erase i, W k (y k) := by
  unfold prodLaw
  rw [← Finset.mul_prod_erase univ _ (mem_univ i)]
  simp only [Function.update_self]
  congr 1
  apply Finset.prod_congr rfl
  intro k hk
  have : k ≠ i := (mem_erase.mp hk).1
  rw [Function.update_of_ne this]

theorem lift_invariant (W : Fin N → σ → ℚ) (i : Fin N) (K : Kernel σ)
    (hK : Invariant (W i) K) : Invariant (prodLaw W) (lift i K) := by
  intro y
  have key : ∑ x, prodLaw W x * lift i K x y =
      ∑ s, prodLaw W (Function.update y i s) * K s (y i) := by
    symm
    apply Fintype.sum_of_injective (fun s => Function.update y i s)
      (Function.update_injective y i)
    · intro x hx
      unfold lift
      have : ¬ ∀ k, k ≠ i → y k = x k := by
        intro hP
        apply hx
        refine ⟨x i, ?_⟩
        funext k
        by_cases hk : k = i
        · subst hk; simp
        · simp [Function.update_of_ne hk, hP k hk]
      rw [if_neg this, mul_zero]
    · intro s
      unfold lift
      have hP : ∀ k, k ≠ i → y k = Function.update y i s k := by
        intro k hk; rw [Function.update_of_ne hk]
      rw [if_pos hP, Function.update_self]
  rw [key]
  calc ∑ s, prodLaw W (Function.update y i s) * K s (y i)
      = ∑ s, (∏ k ∈ univ.erase i, W k (y k)) * (W i s * K s (y i)) := by
        apply Finset.sum_congr rfl; intro s _; rw [prodLaw_update]; ring
    _ = (∏ k ∈ univ.erase i, W k (y k)) * W i (y i) := by rw [← Finset.mul_sum, hK (y i)]
    _ = prodLaw W y := by
        unfold prodLaw
        rw [← Finset.mul_prod_erase univ _ (mem_univ i)]; ring

theorem rowSum_lift (i : Fin N) (K : Kernel σ) (hK : RowSum K) : RowSum (lift i K : Kernel (Fin N → σ)) := by
  intro x
  have key : ∑ y, lift i K x y = ∑ s, K (x i) s := by
    symm
    apply Fintype.sum_of_injective (fun s => Function.update x i s) (Function.update_injective x i)
    · intro y hy
      unfold lift
      have : ¬ ∀ k, k ≠ i → y k = x k := by
        intro hP
        apply hy
        refine ⟨y i, ?_⟩
        funext k
        by_cases hk : k = i
        · subst hk; simp
        · simp [Function.update_of_ne hk, hP k hk]
      rw [if_neg this]
    · intro s
      unfold lift
      have hP : ∀ k, k ≠ i → Function.update x i s k = x k := by
        intro k hk; rw [Function.update_of_ne hk]
      rw [if_pos hP, Function.update_self]
  rw [key, hK]

end TDist
end Qmc
