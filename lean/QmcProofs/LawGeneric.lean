import QmcProofs.LawTimestep
import QmcProofs.LawTravOK
import QmcProofs.LawTravPerm

/-!
# The generic sampler `Qmc::timestep` without loop update: refinement, law = kernels, invariance

* `genericStepCfgT`, `genericTimestepT` — tree twins of the configuration part and of the whole
  `Sampler.genericTimestep` (`QmcModel/Sampler.lean`, `SamplerCore.lean`) for samplers with `do_loop_updates = false`:
  `diagonal_update` (lazy table, Metropolis or heat-bath sweep with the current cutoff, cutoff rule) ; cluster update
  (nothing frozen) iff the gate `should_do_cluster_update()` is on ; `flip_free_bits`.
  `genericTimestepWith_refines`, `genericTimestep_refines` — **refinement** on every script;
  `genericTimestepT_cfg` — its configuration part is `genericStepCfgT`.
* `lawK_genericStepCfgT(_hb)` — **law = `sweepK ; [clusterK (ofComponents) if gate] ; refreshK`** on `goodSpace H N L`
  (`genericKernels`).
* `genericStep_law_invariant(_hb)` — the idealised law leaves the true SSE measure `configWeight · 1_Good` invariant on
  `cfgSpace H N L`, gate on or off; `genericSampler_law_invariant(_hb)` — for `Sampler.GenericSampler`, hypotheses on the
  interaction list only.
-/

open Finset
namespace Qmc.Law
open Qmc Qmc.Kernel Qmc.Dist

/-! ### twins and refinement -/

/-- the configuration part of one `Qmc::timestep` without loop update: diagonal update ; cluster update iff
the gate `should_do_cluster_update()` is on (nothing frozen) ; free-spin refresh -/
def genericStepCfgT (H : Ham) (table : Option BW) (gate : Bool) (β : Rat) (cutoff : Nat) (c : Config) :
    PT Config :=
  PT.bind (diagUpdateT H table β cutoff c) (fun d =>
    PT.bind (if gate then clusterKT (1 / 2) (fun _ => false) d else PT.ret d) freeRefreshT)

/-- tree twin of `Sampler.genericTimestep` (`Qmc::timestep`) for a sampler with `do_loop_updates = false` -/
def genericTimestepT (s : Sampler.GenericSampler) (β : Rat) : PT Sampler.GenericSampler :=
  PT.bind (diagUpdateT s.ham s.tableUsed β s.cutoff s.cfg) (fun d =>
    PT.map (fun r : Config =>
        ({ s with state := d.state, slots := d.slots, table := s.tableAfter,
                  cutoff := nextCutoff s.cutoff (countOps d.slots) } : Sampler.GenericSampler).withCfg r)
      (PT.bind (if s.shouldCluster then clusterKT (1 / 2) (fun _ => false) d else PT.ret d) freeRefreshT))

/-- **refinement of the generic whole step, loops off**: on every script (and whatever the loop kernel) -/
theorem genericTimestepWith_refines (LK : Sampler.LoopK) (s : Sampler.GenericSampler) (hl : s.doLoop = false)
    (β : Rat) (rs : RS) :
    Sampler.genericTimestepWith LK Sampler.clusterK s β rs = (genericTimestepT s β).run rs := by
  unfold Sampler.genericTimestepWith Sampler.genericLoopStage Sampler.genericDiagonalUpdate genericTimestepT
  simp only [PT.run_bind, PT.run_map, hl, Bool.false_eq_true, if_false]
  rw [diagUpdate_refines]
  generalize (diagUpdateT s.ham s.tableUsed β s.cutoff s.cfg).run rs = dr
  simp only [Sampler.GenericSampler.shouldCluster, Sampler.GenericSampler.cfg]
  by_cases hg : (!s.breaksIsing && s.hasClusterEdges) = true
  · simp only [hg, if_true]
    rw [clusterK_refines, freeRefresh_refines]
  · simp only [hg, Bool.false_eq_true, if_false, PT.run_ret]
    rw [freeRefresh_refines]

theorem genericTimestep_refines (s : Sampler.GenericSampler) (hl : s.doLoop = false) (β : Rat) (rs : RS) :
    Sampler.genericTimestep s β rs = (genericTimestepT s β).run rs :=
  genericTimestepWith_refines Sampler.loopK s hl β rs

/-- the configuration after the step is the configuration part -/
theorem genericTimestepT_cfg (s : Sampler.GenericSampler) (β : Rat) :
    PT.map Sampler.GenericSampler.cfg (genericTimestepT s β) =
      genericStepCfgT s.ham s.tableUsed s.shouldCluster β s.cutoff s.cfg := by
  unfold genericTimestepT genericStepCfgT
  rw [PT.map_bind]
  congr 1
  funext d
  rw [PT.map_map]
  exact PT.map_id' _


/-! ### law of the generic step = composition of the kernels -/

/-- the kernels of one generic step without loop update, on the Good configurations: sweep ; component cluster
kernel (nothing frozen) iff the gate is on ; refresh -/
noncomputable def genericKernels (H : Ham) (N L : Nat) (hV : VarsOK H N) (gate : Bool)
    (sweepK : (goodSpace H N L) → (goodSpace H N L) → Rat) :
    List ((goodSpace H N L) → (goodSpace H N L) → Rat) :=
  if gate then
    [sweepK, restr (goodSpace H N L) (clusterK (ClusterFamily.ofComponents (fun _ => false) H N L hV)),
      restr (goodSpace H N L) (refreshK N)]
  else [sweepK, restr (goodSpace H N L) (refreshK N)]

theorem edgeNotFrozen_none (H : Ham) : EdgeNotFrozen H (fun _ => false) := fun _ _ _ => rfl

/-- composition of the generic step, whatever the diagonal update `D` whose law does not leave the Good
configurations -/
theorem lawK_genericStep_of (H : Ham) (N L : Nat) (hV : VarsOK H N) (gate : Bool)
    (hp : gate = true → VarsPos H)
    (hsym : gate = true → ClusterSym H (fun _ => false) (cfgSpace H N L)) (D : Config → PT Config)
    (hD : ∀ a ∈ goodSpace H N L, ∀ b, b ∉ goodSpace H N L → PT.law (D a) b = 0) :
    lawK (goodSpace H N L) (fun c => PT.bind (D c) (fun d =>
        PT.bind (if gate then clusterKT (1 / 2) (fun _ => false) d else PT.ret d) freeRefreshT)) =
      compList (genericKernels H N L hV gate (lawK (goodSpace H N L) D)) := by
  cases gate with
  | true =>
    simp only [if_true]
    have h := lawK_step_of H N L hV (fun _ => false) (hsym rfl)
      (fun _ hc => cfgSpace_travOK hV (hp rfl) (mem_goodSpace.mp hc).1) D hD
    rw [h]
    unfold stepKernels genericKernels
    rw [if_pos rfl]
    have : restr (goodSpace H N L) (clusterK (ClusterFamily.ofModel (fun _ => false) H N L hV)) =
        restr (goodSpace H N L) (clusterK (ClusterFamily.ofComponents (fun _ => false) H N L hV)) := by
      funext a b
      exact clusterK_ofModel_eq_ofComponents _ H N L hV a.1 b.1
        (cfgSpace_hperm hV (hp rfl) _ (edgeNotFrozen_none H) (mem_goodSpace.mp a.2).1)
    rw [this]
  | false =>
    simp only [Bool.false_eq_true, if_false, PT.ret_bind]
    rw [lawK_bind_of_zero _ D freeRefreshT hD, lawK_freeRefresh _ N (goodSpace_len H N L)]
    unfold genericKernels
    simp only [Bool.false_eq_true, if_false, compList, comp_idK]

/-- the composed kernels leave the SSE weight invariant as soon as the diagonal part does -/
theorem genericKernels_invariant (H : Ham) (β : Rat) (N L : Nat) (hV : VarsOK H N) (gate : Bool)
    (hsym : gate = true → ClusterSym H (fun _ => false) (cfgSpace H N L))
    (sweepK : (goodSpace H N L) → (goodSpace H N L) → Rat)
    (hsweep : Invariant (sseOn H β (goodSpace H N L)) sweepK) :
    Invariant (sseOn H β (goodSpace H N L)) (compList (genericKernels H N L hV gate sweepK)) := by
  refine invariant_compList _ (fun K hK => ?_)
  unfold genericKernels at hK
  cases gate with
  | true =>
    simp only [if_true, List.mem_cons, List.not_mem_nil, or_false] at hK
    rcases hK with rfl | rfl | rfl
    · exact hsweep
    · exact clusterK_invariant_good β _ (ofComponents_tagOK _ H N L hV) (hsym rfl)
    · exact refreshK_invariant_good H β N L hV
  | false =>
    simp only [Bool.false_eq_true, if_false, List.mem_cons, List.not_mem_nil, or_false] at hK
    rcases hK with rfl | rfl
    · exact hsweep
    · exact refreshK_invariant_good H β N L hV

theorem refresh_zero_off_good (H : Ham) (N L : Nat) (hV : VarsOK H N) :
    ∀ e ∈ goodSpace H N L, ∀ c, c ∉ goodSpace H N L → PT.law (freeRefreshT e) c = 0 := by
  intro e he c hc
  rw [law_freeRefresh, goodSpace_len H N L e he]
  by_contra hne
  have := flipsK_pred (fun x => x ∈ goodSpace H N L) _ (fun x hx y => by
    obtain ⟨-, v, ev⟩ := mem_refreshList hx
    rw [ev]
    constructor
    · intro h
      have := goodSpace_toggleIdle H N L hV v _ h
      rwa [toggleIdle_invol] at this
    · exact goodSpace_toggleIdle H N L hV v y) e c hne
  exact hc (this.mp he)

/-- no mass of the generic step leaves the Good configurations -/
theorem genericStep_zero_off_good (H : Ham) (N L : Nat) (hV : VarsOK H N) (gate : Bool)
    (hp : gate = true → VarsPos H)
    (hsym : gate = true → ClusterSym H (fun _ => false) (cfgSpace H N L)) (D : Config → PT Config)
    (hD : ∀ a ∈ goodSpace H N L, ∀ b, b ∉ goodSpace H N L → PT.law (D a) b = 0) :
    ∀ a ∈ goodSpace H N L, ∀ b, b ∉ goodSpace H N L →
      PT.law (PT.bind (D a) (fun d =>
        PT.bind (if gate then clusterKT (1 / 2) (fun _ => false) d else PT.ret d) freeRefreshT)) b = 0 := by
  cases gate with
  | true =>
    simp only [if_true]
    exact step_zero_off_good H N L hV (fun _ => false) (hsym rfl)
      (fun _ hc => cfgSpace_travOK hV (hp rfl) (mem_goodSpace.mp hc).1) D hD
  | false =>
    simp only [Bool.false_eq_true, if_false, PT.ret_bind]
    intro a ha
    exact PT.law_bind_zero_off (goodSpace H N L) (goodSpace H N L) _ (D a) (hD a ha)
      (refresh_zero_off_good H N L hV)


/-! ### Metropolis and heat-bath generic steps -/

/-- **law of one generic step (loops off) = `sweepKM ; [clusterK (ofComponents) if the gate is on] ; refreshK`** on
the Good configurations -/
theorem lawK_genericStepCfgT (H : Ham) (β : Rat) (hβ : 0 ≤ β) (hw : ∀ b i, 0 ≤ H.w b i i)
    (hNb : 0 < H.nbonds) (N L : Nat) (hV : VarsOK H N) (gate : Bool) (hp : gate = true → VarsPos H)
    (hsym : gate = true → ClusterSym H (fun _ => false) (cfgSpace H N L)) :
    lawK (goodSpace H N L) (genericStepCfgT H none gate β L) =
      compList (genericKernels H N L hV gate (sweepKM H β (goodSpace H N L) L)) := by
  have := lawK_genericStep_of H N L hV gate hp hsym (metropolisSweepT H β L)
    (metropolisSweep_zero_off_good H β hw N L hV)
  rw [law_metropolisSweep_good H β hβ hw hNb N L hV] at this
  exact this

theorem lawK_genericStepCfgT_hb (H : Ham) (β : Rat) (hβ : 0 ≤ β) (hW : 0 < (makeBondWeights H).sum)
    (hw : ∀ b i, 0 ≤ H.w b i i) (N L : Nat) (hV : VarsOK H N) (gate : Bool) (hp : gate = true → VarsPos H)
    (hsym : gate = true → ClusterSym H (fun _ => false) (cfgSpace H N L)) :
    lawK (goodSpace H N L) (genericStepCfgT H (some (makeBondWeights H)) gate β L) =
      compList (genericKernels H N L hV gate (sweepKHB H (makeBondWeights H) β (goodSpace H N L) L)) := by
  have := lawK_genericStep_of H N L hV gate hp hsym (heatBathSweepT H (makeBondWeights H) β L)
    (heatBathSweep_zero_off_good H _ β hw (makeBondWeights_length H) N L hV)
  rw [law_heatBathSweep_good H β hβ hW hw N L hV] at this
  exact this

/-- **`genericStep_law_invariant`** — the idealised law of the executable generic step (`Qmc::timestep` with
`do_loop_updates = false`, Metropolis diagonal update) leaves the true SSE measure `configWeight · 1_Good` invariant
on `cfgSpace H N L`: every Hamiltonian with non-negative diagonal weights, bonds on distinct variables `< N`, at least
one bond; `β > 0`; any `L`; with the gate on (`should_do_cluster_update()`), in addition every bond has a variable and
the cluster symmetry holds (all bonds flip-symmetric, cluster edges constant).  With the gate off the step is sweep ;
refresh and invariance still holds — the known finding F20 (no cluster AND no loop update) is about ERGODICITY of that
chain, not about invariance. -/
theorem genericStep_law_invariant (H : Ham) (β : Rat) (hβ : 0 < β) (hw : ∀ b i, 0 ≤ H.w b i i)
    (hNb : 0 < H.nbonds) (N L : Nat) (hV : VarsOK H N) (gate : Bool) (hp : gate = true → VarsPos H)
    (hsym : gate = true → ClusterSym H (fun _ => false) (cfgSpace H N L)) :
    Invariant (sseCutOn H β (cfgSpace H N L)) (lawK (cfgSpace H N L) (genericStepCfgT H none gate β L)) := by
  refine invariant_cut_of_good H β N L _
    (genericStep_zero_off_good H N L hV gate hp hsym _ (metropolisSweep_zero_off_good H β hw N L hV)) ?_
  rw [lawK_genericStepCfgT H β (le_of_lt hβ) hw hNb N L hV gate hp hsym]
  exact genericKernels_invariant H β N L hV gate hsym _
    (sweepKM_invariant_of_slotClosed H β hβ hw _ (goodSpace_slotClosed H N L hV hw) L)

/-- … with the heat-bath diagonal update (table `makeBondWeights H`, what `diagonal_update` builds lazily) -/
theorem genericStep_law_invariant_hb (H : Ham) (β : Rat) (hβ : 0 < β) (hW : 0 < (makeBondWeights H).sum)
    (hw : ∀ b i, 0 ≤ H.w b i i) (N L : Nat) (hV : VarsOK H N) (gate : Bool) (hp : gate = true → VarsPos H)
    (hsym : gate = true → ClusterSym H (fun _ => false) (cfgSpace H N L)) :
    Invariant (sseCutOn H β (cfgSpace H N L))
      (lawK (cfgSpace H N L) (genericStepCfgT H (some (makeBondWeights H)) gate β L)) := by
  refine invariant_cut_of_good H β N L _
    (genericStep_zero_off_good H N L hV gate hp hsym _
      (heatBathSweep_zero_off_good H _ β hw (makeBondWeights_length H) N L hV)) ?_
  rw [lawK_genericStepCfgT_hb H β (le_of_lt hβ) hW hw N L hV gate hp hsym]
  exact genericKernels_invariant H β N L hV gate hsym _
    (sweepKHB_invariant_of_slotClosed H _ β hβ hW hw (makeBondWeights_valid H) (makeBondWeights_length H) _
      (goodSpace_slotClosed H N L hV hw) L)

/-! ### the generic sampler `Sampler.GenericSampler` -/

/-- for the Hamiltonian of a generic sampler the cluster symmetry follows from "every bond is invariant under the
global flip" (what the gate `!breaks_ising_symmetry` stands for); cluster-edge bonds are constant by construction -/
theorem generic_clusterSym (bs : List Sampler.GBond) (N L : Nat)
    (hsym : ∀ b, b < bs.length → (Sampler.genericHam bs).FlipSym b) :
    ClusterSym (Sampler.genericHam bs) (fun _ => false) (cfgSpace (Sampler.genericHam bs) N L) :=
  clusterSym_cfgSpace _ _ N L (fun b hb _ _ => hsym b hb) (fun b hb he => Sampler.gbond_constW bs b hb he)

/-- the table the sweep of a sampler with a fresh (or absent) table runs with -/
theorem tableUsed_of_fresh (s : Sampler.GenericSampler) (ht : s.table = none) :
    s.tableUsed = if s.doHeatbath then some (makeBondWeights s.ham) else none := by
  unfold Sampler.GenericSampler.tableUsed Sampler.GenericSampler.tableAfter
  rw [ht]
  split <;> simp_all

/-- **the executable generic sampler, loops off, Metropolis**: hypotheses on the interaction list only -/
theorem genericSampler_law_invariant (s : Sampler.GenericSampler) (N : Nat) (hV : VarsOK s.ham N)
    (hw : ∀ b i, 0 ≤ s.ham.w b i i) (hNb : 0 < s.bonds.length) (hhb : s.doHeatbath = false)
    (hp : s.shouldCluster = true → VarsPos s.ham)
    (hsym : s.shouldCluster = true → ∀ b, b < s.bonds.length → s.ham.FlipSym b)
    (β : Rat) (hβ : 0 < β) (L : Nat) :
    Invariant (sseCutOn s.ham β (cfgSpace s.ham N L))
      (lawK (cfgSpace s.ham N L) (genericStepCfgT s.ham s.tableUsed s.shouldCluster β L)) := by
  have ht : s.tableUsed = none := by
    unfold Sampler.GenericSampler.tableUsed; rw [hhb]; rfl
  rw [ht]
  exact genericStep_law_invariant s.ham β hβ hw hNb N L hV _ hp
    (fun hg => generic_clusterSym s.bonds N L (hsym hg))

/-- … heat bath, table not yet built (or reset by `add_interaction`) -/
theorem genericSampler_law_invariant_hb (s : Sampler.GenericSampler) (N : Nat) (hV : VarsOK s.ham N)
    (hw : ∀ b i, 0 ≤ s.ham.w b i i) (hW : 0 < (makeBondWeights s.ham).sum) (hhb : s.doHeatbath = true)
    (ht : s.table = none) (hp : s.shouldCluster = true → VarsPos s.ham)
    (hsym : s.shouldCluster = true → ∀ b, b < s.bonds.length → s.ham.FlipSym b)
    (β : Rat) (hβ : 0 < β) (L : Nat) :
    Invariant (sseCutOn s.ham β (cfgSpace s.ham N L))
      (lawK (cfgSpace s.ham N L) (genericStepCfgT s.ham s.tableUsed s.shouldCluster β L)) := by
  rw [tableUsed_of_fresh s ht, hhb, if_pos rfl]
  exact genericStep_law_invariant_hb s.ham β hβ hW hw N L hV _ hp
    (fun hg => generic_clusterSym s.bonds N L (hsym hg))

end Qmc.Law
