/-
The loop update as a kernel, truncated at `n` vertex visits, as a finite path sum generated from
the model's own start and exit distributions, and its detailed balance with the product of the
stored matrix elements.

`walksFrom init n pos ent c` lists every closed walk of at most `n` visits (exits ranging over
`legsOf k`, the list the model draws from); `startLegs` lists the legs the start draw can select;
`loopKn w n c c'` sums `P_start · Π exitProb` over the closed loops from `c` to `c'`.
Reversal of walks (`Walk.reverse`) is a length-preserving bijection between the loops `c → c'` and
`c' → c`, and along a loop `W(c)·P(loop) = W(c')·P(retraced loop)`.
-/
import QmcProofs.LoopReverse
import Mathlib.Data.List.Perm.Basic
import Mathlib.Algebra.BigOperators.Group.List.Basic

namespace Qmc.LoopC
open Qmc

/-! ### enumeration of closed walks -/

def walksFrom (init : Nat × Leg) : Nat → Nat → Leg → Config → List (List Visit × Config)
  | 0, _, _, _ => []
  | n + 1, pos, ent, c =>
    match c.slots[pos]? with
    | some (some op) =>
      (legsOf op.vars.length).flatMap fun ex =>
        match stepEx init pos ent c ex with
        | some (c', none) => [([⟨pos, ent, ex, op⟩], c')]
        | some (c1, some (p, e)) =>
          (walksFrom init n p e c1).map fun q => (⟨pos, ent, ex, op⟩ :: q.1, q.2)
        | none => []
    | _ => []

theorem mem_walksFrom (init : Nat × Leg) (n pos : Nat) (ent : Leg) (c : Config) (tr : List Visit)
    (c' : Config) :
    (tr, c') ∈ walksFrom init n pos ent c ↔ tr.length ≤ n ∧ Walk init pos ent c tr c' := by
  induction n generalizing pos ent c tr with
  | zero =>
    simp only [walksFrom, List.not_mem_nil, Nat.le_zero, List.length_eq_zero_iff, false_iff, not_and]
    intro h hw; subst h; cases hw
  | succ n ih =>
    unfold walksFrom
    constructor
    · intro h
      split at h
      · rename_i op hop
        rw [List.mem_flatMap] at h
        obtain ⟨ex, hex, h⟩ := h
        have hrel := (mem_legsOf _ _).mp hex
        split at h
        · rename_i c1 hs
          simp only [List.mem_singleton, Prod.mk.injEq] at h
          obtain ⟨rfl, rfl⟩ := h
          exact ⟨by simp, Walk.last hop hrel hs⟩
        · rename_i c1 p e hs
          rw [List.mem_map] at h
          obtain ⟨q, hq, he⟩ := h
          simp only [Prod.mk.injEq] at he
          obtain ⟨rfl, rfl⟩ := he
          obtain ⟨hl, hw⟩ := (ih p e c1 q.1).mp hq
          exact ⟨by simp; omega, Walk.step hop hrel hs hw⟩
        · cases h
      · cases h
    · rintro ⟨hl, hw⟩
      cases hw with
      | @last _ _ _ ex op _ hop hrel hs =>
        rw [hop]
        simp only
        rw [List.mem_flatMap]
        refine ⟨ex, (mem_legsOf _ _).mpr hrel, ?_⟩
        rw [hs]; simp
      | @step _ _ _ ex op c1 p e t _ hop hrel hs hw' =>
        rw [hop]
        simp only
        rw [List.mem_flatMap]
        refine ⟨ex, (mem_legsOf _ _).mpr hrel, ?_⟩
        rw [hs]
        simp only
        rw [List.mem_map]
        exact ⟨(t, c'), (ih p e c1 t).mpr ⟨by simp at hl; omega, hw'⟩, rfl⟩

theorem legsOf_nodup (k : Nat) : (legsOf k).Nodup := by
  unfold legsOf
  rw [List.nodup_append]
  refine ⟨?_, ?_, ?_⟩
  · exact (List.nodup_range).map (fun a b h => by injection h)
  · exact (List.nodup_range).map (fun a b h => by injection h)
  · intro a ha b hb
    simp only [List.mem_map] at ha hb
    obtain ⟨x, _, rfl⟩ := ha
    obtain ⟨y, _, rfl⟩ := hb
    intro h; injection h with _ h2; cases h2

theorem walksFrom_nodup (init : Nat × Leg) (n pos : Nat) (ent : Leg) (c : Config) :
    (walksFrom init n pos ent c).Nodup := by
  induction n generalizing pos ent c with
  | zero => simp [walksFrom]
  | succ n ih =>
    unfold walksFrom
    split
    · rename_i op hop
      rw [List.nodup_flatMap]
      refine ⟨fun ex _ => ?_, ?_⟩
      · split
        · simp
        · rename_i c1 p e hs
          refine (ih p e c1).map ?_
          intro a b h
          simp only [Prod.mk.injEq, List.cons.injEq, true_and] at h
          exact Prod.ext h.1 h.2
        · simp
      · refine (legsOf_nodup _).imp ?_
        intro a b hab
        -- elements from different exits differ in the exit of the first visit
        have key : ∀ (x : Leg) (q : List Visit × Config),
            q ∈ (match stepEx init pos ent c x with
              | some (c', none) => [([(⟨pos, ent, x, op⟩ : Visit)], c')]
              | some (c1, some (p, e)) =>
                (walksFrom init n p e c1).map fun (q : List Visit × Config) => ((⟨pos, ent, x, op⟩ : Visit) :: q.1, q.2)
              | none => []) → ∃ t, q.1 = (⟨pos, ent, x, op⟩ : Visit) :: t := by
          intro x q hq
          split at hq
          · simp only [List.mem_singleton] at hq; subst hq; exact ⟨[], rfl⟩
          · rw [List.mem_map] at hq
            obtain ⟨q0, _, rfl⟩ := hq
            exact ⟨q0.1, rfl⟩
          · cases hq
        intro q hqa hqb
        obtain ⟨t1, e1⟩ := key a q hqa
        obtain ⟨t2, e2⟩ := key b q hqb
        rw [e1] at e2
        injection e2 with e2 _
        injection e2 with _ _ e3 _
        exact hab e3
    · simp


end Qmc.LoopC
