/-
The loop update as a kernel, truncated at `n` vertex visits, as a finite path sum generated from
the model's own start and exit distributions, and its detailed balance with the product of the
stored matrix elements.

`walksFrom init n pos ent c` lists every closed walk of at most `n` visits (exits ranging over
`legsOf k`, the list the model draws from); `startLegs` lists the legs the start draw can select;
`loopKn w n c c'` sums `P_start · Π exitProb` over the closed loops from `c` to `c'`.
Reversal of walks (`Walk.reverse`) is a length-preserving bijection between the loops `c → c'` and
`c' → c`, and along a loop `W(c)·P(loop) = W(c')·P(retraced loop)`.
-/
import QmcProofs.LoopReverse
import Mathlib.Data.List.Perm.Basic
import Mathlib.Algebra.BigOperators.Group.List.Basic

namespace Qmc.LoopC
open Qmc

/-! ### enumeration of closed walks -/

def walksFrom (init : Nat × Leg) : Nat → Nat → Leg → Config → List (List Visit × Config)
  | 0, _, _, _ => []
  | n + 1, pos, ent, c =>
    match c.slots[pos]? with
    | some (some op) =>
      (legsOf op.vars.length).flatMap fun ex =>
        match stepEx init pos ent c ex with
        | some (c', none) => [([⟨pos, ent, ex, op⟩], c')]
        | some (c1, some (p, e)) =>
          (walksFrom init n p e c1).map fun q => (⟨pos, ent, ex, op⟩ :: q.1, q.2)
        | none => []
    | _ => []

theorem mem_walksFrom (init : Nat × Leg) (n pos : Nat) (ent : Leg) (c : Config) (tr : List Visit)
    (c' : Config) :
    (tr, c') ∈ walksFrom init n pos ent c ↔ tr.length ≤ n ∧ Walk init pos ent c tr c' := by
  induction n generalizing pos ent c tr with
  | zero =>
    simp only [walksFrom, List.not_mem_nil, Nat.le_zero, List.length_eq_zero_iff, false_iff, not_and]
    intro h hw; subst h; cases hw
  | succ n ih =>
    unfold walksFrom
    constructor
    · intro h
      split at h
      · rename_i op hop
        rw [List.mem_flatMap] at h
        obtain ⟨ex, hex, h⟩ := h
        have hrel := (mem_legsOf _ _).mp hex
        split at h
        · rename_i c1 hs
          simp only [List.mem_singleton, Prod.mk.injEq] at h
          obtain ⟨rfl, rfl⟩ := h
          exact ⟨by simp, Walk.last hop hrel hs⟩
        · rename_i c1 p e hs
          rw [List.mem_map] at h
          obtain ⟨q, hq, he⟩ := h
          simp only [Prod.mk.injEq] at he
          obtain ⟨rfl, rfl⟩ := he
          obtain ⟨hl, hw⟩ := (ih p e c1 q.1).mp hq
          exact ⟨by simp; omega, Walk.step hop hrel hs hw⟩
        · cases h
      · cases h
    · rintro ⟨hl, hw⟩
      cases hw with
      | @last _ _ _ ex op _ hop hrel hs =>
        rw [hop]
        simp only
        rw [List.mem_flatMap]
        refine ⟨ex, (mem_legsOf _ _).mpr hrel, ?_⟩
        rw [hs]; simp
      | @step _ _ _ ex op c1 p e t _ hop hrel hs hw' =>
        rw [hop]
        simp only
        rw [List.mem_flatMap]
        refine ⟨ex, (mem_legsOf _ _).mpr hrel, ?_⟩
        rw [hs]
        simp only
        rw [List.mem_map]
        exact ⟨(t, c'), (ih p e c1 t).mpr ⟨by simp at hl; omega, hw'⟩, rfl⟩

theorem legsOf_nodup (k : Nat) : (legsOf k).Nodup := by
  unfold legsOf
  rw [List.nodup_append]
  refine ⟨?_, ?_, ?_⟩
  · exact (List.nodup_range).map (fun a b h => by injection h)
  · exact (List.nodup_range).map (fun a b h => by injection h)
  · intro a ha b hb
    simp only [List.mem_map] at ha hb
    obtain ⟨x, _, rfl⟩ := ha
    obtain ⟨y, _, rfl⟩ := hb
    intro h; injection h with _ h2; cases h2

theorem walksFrom_nodup (init : Nat × Leg) (n pos : Nat) (ent : Leg) (c : Config) :
    (walksFrom init n pos ent c).Nodup := by
  induction n generalizing pos ent c with
  | zero => simp [walksFrom]
  | succ n ih =>
    unfold walksFrom
    split
    · rename_i op hop
      rw [List.nodup_flatMap]
      refine ⟨fun ex _ => ?_, ?_⟩
      · split
        · simp
        · rename_i c1 p e hs
          refine (ih p e c1).map ?_
          intro a b h
          simp only [Prod.mk.injEq, List.cons.injEq, true_and] at h
          exact Prod.ext h.1 h.2
        · simp
      · refine (legsOf_nodup _).imp ?_
        intro a b hab
        -- elements from different exits differ in the exit of the first visit
        have key : ∀ (x : Leg) (q : List Visit × Config),
            q ∈ (match stepEx init pos ent c x with
              | some (c', none) => [([(⟨pos, ent, x, op⟩ : Visit)], c')]
              | some (c1, some (p, e)) =>
                (walksFrom init n p e c1).map fun (q : List Visit × Config) => ((⟨pos, ent, x, op⟩ : Visit) :: q.1, q.2)
              | none => []) → ∃ t, q.1 = (⟨pos, ent, x, op⟩ : Visit) :: t := by
          intro x q hq
          split at hq
          · simp only [List.mem_singleton] at hq; subst hq; exact ⟨[], rfl⟩
          · rw [List.mem_map] at hq
            obtain ⟨q0, _, rfl⟩ := hq
            exact ⟨q0.1, rfl⟩
          · cases hq
        intro q hqa hqb
        obtain ⟨t1, e1⟩ := key a q hqa
        obtain ⟨t2, e2⟩ := key b q hqb
        rw [e1] at e2
        injection e2 with e2 _
        injection e2 with _ _ e3 _
        exact hab e3
    · simp


/-! ### the start legs -/

/-- the legs the start draw can select: slot draw `a < Σk` ↦ (position, relative variable), then
either side -/
def startLegs (slots : Slots) : List (Nat × Leg) :=
  (List.range (totalVars slots)).flatMap fun a =>
    match pickLeg slots 0 a with
    | some (p, r) => [(p, ⟨r, false⟩), (p, ⟨r, true⟩)]
    | none => []

theorem mem_startLegs (slots : Slots) (init : Nat × Leg) :
    init ∈ startLegs slots ↔ HeadOK slots init.1 init.2 := by
  unfold startLegs
  rw [List.mem_flatMap]
  constructor
  · rintro ⟨a, _, h⟩
    split at h
    · rename_i p r hp
      obtain ⟨j, op, hj, hop, hr, _⟩ := (pickLeg_iff slots 0 a p r).mp hp
      have : j = p := by omega
      subst this
      simp only [List.mem_cons, List.not_mem_nil, or_false] at h
      rcases h with rfl | rfl <;> exact ⟨op, hop, hr⟩
    · cases h
  · rintro ⟨op, hop, hr⟩
    obtain ⟨p, ⟨r, b⟩⟩ := init
    simp only at hop hr
    refine ⟨totalVars (slots.take p) + r, List.mem_range.mpr (slotIndex_lt slots p r op hop hr), ?_⟩
    have : pickLeg slots 0 (totalVars (slots.take p) + r) = some (p, r) :=
      (pickLeg_iff slots 0 _ p r).mpr ⟨p, op, by omega, hop, hr, rfl⟩
    rw [this]
    cases b <;> simp

theorem startLegs_nodup (slots : Slots) : (startLegs slots).Nodup := by
  unfold startLegs
  rw [List.nodup_flatMap]
  refine ⟨fun a _ => ?_, ?_⟩
  · split
    · simp
    · simp
  · refine (List.nodup_range).imp ?_
    intro a b hab q hqa hqb
    simp only at hqa hqb
    split at hqa
    · rename_i p r hp
      split at hqb
      · rename_i p2 r2 hp2
        obtain ⟨j, op, hj, hop, hr, ha⟩ := (pickLeg_iff slots 0 a p r).mp hp
        obtain ⟨j2, op2, hj2, hop2, hr2, hb⟩ := (pickLeg_iff slots 0 b p2 r2).mp hp2
        have e1 : j = p := by omega
        have e2 : j2 = p2 := by omega
        subst e1; subst e2
        have : j = j2 ∧ r = r2 := by
          simp only [List.mem_cons, List.not_mem_nil, or_false] at hqa hqb
          rcases hqa with rfl | rfl <;> rcases hqb with h | h <;>
            (injection h with h1 h2; injection h2 with h3 h4; exact ⟨h1, h3⟩)
        obtain ⟨rfl, rfl⟩ := this
        exact hab (by rw [ha, hb])
      · cases hqb
    · cases hqa

/-! ### the closed loops of at most `n` visits -/

def loopsOf (n : Nat) (c : Config) : List ((Nat × Leg) × List Visit × Config) :=
  (startLegs c.slots).flatMap fun init =>
    (walksFrom init n init.1 init.2 c).map fun (q : List Visit × Config) => (init, q.1, q.2)

theorem mem_loopsOf (n : Nat) (c : Config) (init : Nat × Leg) (tr : List Visit) (c' : Config) :
    (init, tr, c') ∈ loopsOf n c ↔
      HeadOK c.slots init.1 init.2 ∧ tr.length ≤ n ∧ Walk init init.1 init.2 c tr c' := by
  unfold loopsOf
  rw [List.mem_flatMap]
  constructor
  · rintro ⟨i0, hi0, h⟩
    rw [List.mem_map] at h
    obtain ⟨q, hq, he⟩ := h
    simp only [Prod.mk.injEq] at he
    obtain ⟨rfl, rfl, rfl⟩ := he
    exact ⟨(mem_startLegs _ _).mp hi0, (mem_walksFrom _ _ _ _ _ _ _).mp hq⟩
  · rintro ⟨hh, hl, hw⟩
    refine ⟨init, (mem_startLegs _ _).mpr hh, ?_⟩
    rw [List.mem_map]
    exact ⟨(tr, c'), (mem_walksFrom _ _ _ _ _ _ _).mpr ⟨hl, hw⟩, rfl⟩

theorem loopsOf_nodup (n : Nat) (c : Config) : (loopsOf n c).Nodup := by
  unfold loopsOf
  rw [List.nodup_flatMap]
  refine ⟨fun init _ => ?_, ?_⟩
  · refine (walksFrom_nodup init n init.1 init.2 c).map ?_
    intro a b h
    simp only [Prod.mk.injEq, true_and] at h
    exact Prod.ext h.1 h.2
  · refine (startLegs_nodup c.slots).imp ?_
    intro a b hab q hqa hqb
    rw [List.mem_map] at hqa hqb
    obtain ⟨_, _, rfl⟩ := hqa
    obtain ⟨_, _, h⟩ := hqb
    simp only [Prod.mk.injEq] at h
    exact hab h.1.symm


/-! ### balance along a chain of visits, without division -/

theorem slotsWeight_split (w : Nat → List Bool → List Bool → Rat) (S : Slots) (pos : Nat) (op : Op)
    (h : S[pos]? = some (some op)) : slotsWeight w S = opW w op * slotsWeight w (S.set pos none) := by
  induction S generalizing pos with
  | nil => simp at h
  | cons x t ih =>
    cases pos with
    | zero =>
      simp only [List.getElem?_cons_zero, Option.some.injEq] at h
      subst h
      simp [slotsWeight, opW]
    | succ p =>
      simp only [List.getElem?_cons_succ] at h
      have := ih p h
      cases x with
      | none => simpa [slotsWeight] using this
      | some o => simp only [List.set_cons_succ, slotsWeight]; rw [this]; ring

theorem chain_balance (w : Nat → List Bool → List Bool → Rat) (S S' : Slots) (tr : List Visit)
    (h : chain S tr S') :
    slotsWeight w S * pathProb w tr = slotsWeight w S' * pathProbRev w tr := by
  induction tr generalizing S with
  | nil => simp only [chain] at h; subst h; rfl
  | cons v t ih =>
    simp only [chain] at h
    obtain ⟨h0, h1⟩ := h
    have hl : v.pos < S.length := (List.getElem?_eq_some_iff.mp h0).1
    have e1 := slotsWeight_split w S v.pos v.op h0
    have e2 := slotsWeight_split w (S.set v.pos (some v.after)) v.pos v.after (by simp [hl])
    rw [List.set_set] at e2
    have hb := exitProb_balance (w v.op.bond) (v.op.ins, v.op.outs) v.ent v.ex v.op.vars.length
    have ha : opW w v.after = w v.op.bond (flipIO (flipIO (v.op.ins, v.op.outs) v.ent) v.ex).1
        (flipIO (flipIO (v.op.ins, v.op.outs) v.ent) v.ex).2 := by
      rw [opW_after]; rfl
    have hbefore : opW w v.op = w v.op.bond v.op.ins v.op.outs := rfl
    simp only at hb
    rw [← hbefore, ← ha] at hb
    have hi := ih _ h1
    simp only [pathProb, pathProbRev]
    calc slotsWeight w S *
          (exitProb (w v.op.bond) (v.op.ins, v.op.outs) v.ent v.ex v.op.vars.length * pathProb w t)
        = slotsWeight w (S.set v.pos none) *
            (opW w v.op * exitProb (w v.op.bond) (v.op.ins, v.op.outs) v.ent v.ex v.op.vars.length) *
            pathProb w t := by rw [e1]; ring
      _ = (slotsWeight w (S.set v.pos (some v.after)) * pathProb w t) *
            exitProb (w v.op.bond) (flipIO (flipIO (v.op.ins, v.op.outs) v.ent) v.ex) v.ex v.ent
              v.op.vars.length := by rw [hb, e2]; ring
      _ = _ := by rw [hi]; ring

/-! ### the truncated kernel -/

/-- start probability of one existing leg: `1/(2Σk)` -/
def legProb (slots : Slots) : Rat := 1 / (2 * (totalVars slots : Rat))

/-- **the loop kernel truncated at `n` vertex visits**: total probability of the closed loops of
at most `n` visits from `c` that end in `c'` (start leg uniform over `startLegs`, exits by
`exitProb`); with no operators the update does nothing. -/
def loopKn (w : Nat → List Bool → List Bool → Rat) (n : Nat) (c c' : Config) : Rat :=
  if countOps c.slots = 0 then (if c' = c then 1 else 0) else
  (((loopsOf n c).filter (fun ℓ => decide (ℓ.2.2 = c'))).map
    (fun ℓ => legProb c.slots * pathProb w ℓ.2.1)).sum

/-- the retraced loop -/
def revLoop (c : Config) (ℓ : (Nat × Leg) × List Visit × Config) : (Nat × Leg) × List Visit × Config :=
  match ℓ.2.1.getLast? with
  | some vm => ((vm.pos, vm.ex), (ℓ.2.1.map Visit.rev).reverse, c)
  | none => ℓ

theorem walk_canon {init : Nat × Leg} {c c' : Config} {tr : List Visit}
    (h : Walk init init.1 init.2 c tr c') (hg : GoodL c) (hh : HeadOK c.slots init.1 init.2) :
    ∀ v ∈ tr, CanonOp v.op :=
  (h.structure c.slots (fun o ho => (hg.1 o ho).2.2.1) rfl hh hg.2.1).2.2.2.2

/-- retracing maps the loops `c → c'` into the loops `c' → c`, and twice is the identity -/
theorem revLoop_mem {n : Nat} {c c' : Config} (hg : GoodL c)
    {ℓ : (Nat × Leg) × List Visit × Config}
    (h : ℓ ∈ (loopsOf n c).filter (fun ℓ => decide (ℓ.2.2 = c'))) :
    revLoop c ℓ ∈ (loopsOf n c').filter (fun ℓ => decide (ℓ.2.2 = c)) ∧
      revLoop c' (revLoop c ℓ) = ℓ ∧ GoodL c' := by
  obtain ⟨init, tr, fin⟩ := ℓ
  rw [List.mem_filter] at h
  obtain ⟨hm, hf⟩ := h
  simp only [decide_eq_true_eq] at hf
  subst hf
  obtain ⟨hh, hl, hw⟩ := (mem_loopsOf n c init tr fin).mp hm
  obtain ⟨vm, hvm, hwR, hhR, hgR⟩ := hw.reverse hg hh
  have hcan := walk_canon hw hg hh
  have hrl : revLoop c (init, tr, fin) = ((vm.pos, vm.ex), (tr.map Visit.rev).reverse, c) := by
    simp only [revLoop, hvm]
  -- first visit of the walk is at the start leg
  obtain ⟨hloop, _⟩ := hw.structure c.slots (fun o ho => (hg.1 o ho).2.2.1) rfl hh hg.2.1
  obtain ⟨v1, hv1, hinit⟩ := hloop.first
  refine ⟨?_, ?_, hgR⟩
  · rw [hrl, List.mem_filter]
    refine ⟨(mem_loopsOf n fin _ _ c).mpr ⟨hhR, by simpa using hl, hwR⟩, by simp⟩
  · rw [hrl]
    have hlast : ((tr.map Visit.rev).reverse).getLast? = some v1.rev := by
      rw [List.getLast?_reverse, List.head?_map, hv1]; rfl
    simp only [revLoop, hlast]
    have hmap : ((tr.map Visit.rev).reverse.map Visit.rev).reverse = tr := by
      rw [List.map_reverse, List.reverse_reverse, List.map_map]
      conv => rhs; rw [← List.map_id tr]
      apply List.map_congr_left
      intro v hv
      exact Visit.rev_rev v (hcan v hv)
    rw [hmap]
    have : (v1.rev.pos, v1.rev.ex) = init := hinit
    rw [this]


theorem Walk.skeleton {init : Nat × Leg} {pos : Nat} {ent : Leg} {c c' : Config} {tr : List Visit}
    (h : Walk init pos ent c tr c') : skeletonOf c'.slots = skeletonOf c.slots := by
  induction h with
  | @last pos ent c ex op c' hop _ hs =>
    obtain ⟨op2, hop2, hslots, _⟩ := stepEx_cases hs
    rw [hslots]; exact skeleton_set_passThrough ent ex hop2
  | @step pos ent c ex op c1 p e t c' hop _ hs _ ih =>
    obtain ⟨op2, hop2, hslots, _⟩ := stepEx_cases hs
    rw [ih, hslots]; exact skeleton_set_passThrough ent ex hop2

theorem countOps_skeleton {s1 s2 : Slots} (h : skeletonOf s1 = skeletonOf s2) :
    countOps s1 = countOps s2 := by
  rw [countOps_eq_occ, countOps_eq_occ, occ_skeleton h]

theorem legProb_skeleton {s1 s2 : Slots} (h : skeletonOf s1 = skeletonOf s2) :
    legProb s1 = legProb s2 := by
  unfold legProb; rw [(totalVars_pickLeg_skeleton h).1]

theorem sum_map_mul_left' {α} (l : List α) (a : Rat) (f : α → Rat) :
    (l.map fun x => a * f x).sum = a * (l.map f).sum := by
  induction l with
  | nil => simp
  | cons x t ih => simp [ih, mul_add]

/-- one loop against its retraced loop -/
theorem loop_term_balance (w : Nat → List Bool → List Bool → Rat) {n : Nat} {c c' : Config}
    (hg : GoodL c) {ℓ : (Nat × Leg) × List Visit × Config}
    (h : ℓ ∈ (loopsOf n c).filter (fun ℓ => decide (ℓ.2.2 = c'))) :
    slotsWeight w c.slots * (legProb c.slots * pathProb w ℓ.2.1) =
      slotsWeight w c'.slots * (legProb c'.slots * pathProb w (revLoop c ℓ).2.1) := by
  obtain ⟨init, tr, fin⟩ := ℓ
  rw [List.mem_filter] at h
  obtain ⟨hm, hf⟩ := h
  simp only [decide_eq_true_eq] at hf
  subst hf
  obtain ⟨hh, hl, hw⟩ := (mem_loopsOf n c init tr fin).mp hm
  obtain ⟨vm, hvm, _⟩ := hw.reverse hg hh
  obtain ⟨_, hchain, _⟩ := hw.structure c.slots (fun o ho => (hg.1 o ho).2.2.1) rfl hh hg.2.1
  have hrl : (revLoop c (init, tr, fin)).2.1 = (tr.map Visit.rev).reverse := by
    simp only [revLoop, hvm]
  rw [hrl, pathProb_rev, legProb_skeleton hw.skeleton]
  have := chain_balance w c.slots fin.slots tr hchain
  calc slotsWeight w c.slots * (legProb c.slots * pathProb w tr)
      = legProb c.slots * (slotsWeight w c.slots * pathProb w tr) := by ring
    _ = _ := by rw [this]; ring

/-- **Detailed balance of the truncated loop kernel** with the product of the stored matrix
elements, for every truncation `n`, every weight function, and all well-formed, canonically
tagged, periodic `c`, `c'`. -/
theorem loopKn_reversible (w : Nat → List Bool → List Bool → Rat) (n : Nat) (c c' : Config)
    (hg : GoodL c) (hg' : GoodL c') :
    slotsWeight w c.slots * loopKn w n c c' = slotsWeight w c'.slots * loopKn w n c' c := by
  by_cases hcc : c' = c
  · subst hcc; rfl
  have hcc' : ¬ c = c' := fun e => hcc e.symm
  -- if a loop connects them, they have the same number of ops
  have hcount : ∀ {a b : Config} {ℓ : (Nat × Leg) × List Visit × Config},
      ℓ ∈ (loopsOf n a).filter (fun ℓ => decide (ℓ.2.2 = b)) → countOps b.slots = countOps a.slots := by
    intro a b ℓ h
    obtain ⟨init, tr, fin⟩ := ℓ
    rw [List.mem_filter] at h
    obtain ⟨hm, hf⟩ := h
    simp only [decide_eq_true_eq] at hf
    subst hf
    exact countOps_skeleton ((mem_loopsOf n a init tr fin).mp hm).2.2.skeleton
  -- the bijection as a permutation of lists
  have hperm : List.Perm ((loopsOf n c').filter (fun ℓ => decide (ℓ.2.2 = c)))
      (((loopsOf n c).filter (fun ℓ => decide (ℓ.2.2 = c'))).map (revLoop c)) := by
    rw [List.perm_ext_iff_of_nodup ((loopsOf_nodup n c').filter _)]
    · intro x
      constructor
      · intro hx
        obtain ⟨h1, h2, _⟩ := revLoop_mem hg' hx
        exact List.mem_map.mpr ⟨revLoop c' x, h1, h2⟩
      · intro hx
        obtain ⟨y, hy, rfl⟩ := List.mem_map.mp hx
        exact (revLoop_mem hg hy).1
    · refine List.Nodup.map_on ?_ ((loopsOf_nodup n c).filter _)
      intro x hx y hy hxy
      have ex := (revLoop_mem (c' := c') hg hx).2.1
      have ey := (revLoop_mem (c' := c') hg hy).2.1
      rw [← ex, ← ey, hxy]
  unfold loopKn
  by_cases h0 : countOps c.slots = 0
  · rw [if_pos h0, if_neg hcc]
    by_cases h0' : countOps c'.slots = 0
    · rw [if_pos h0', if_neg hcc']; ring
    · rw [if_neg h0']
      -- no loop from c' can reach c
      have hempty : (loopsOf n c').filter (fun ℓ => decide (ℓ.2.2 = c)) = [] := by
        rw [List.eq_nil_iff_forall_not_mem]
        intro ℓ hℓ
        exact h0' (by rw [← hcount hℓ]; exact h0)
      rw [hempty]; simp
  · rw [if_neg h0]
    by_cases h0' : countOps c'.slots = 0
    · rw [if_pos h0', if_neg hcc']
      have hempty : (loopsOf n c).filter (fun ℓ => decide (ℓ.2.2 = c')) = [] := by
        rw [List.eq_nil_iff_forall_not_mem]
        intro ℓ hℓ
        exact h0 (by rw [← hcount hℓ]; exact h0')
      rw [hempty]; simp
    · rw [if_neg h0']
      rw [(hperm.map _).sum_eq, List.map_map, ← sum_map_mul_left', ← sum_map_mul_left']
      congr 1
      apply List.map_congr_left
      intro ℓ hℓ
      exact loop_term_balance w hg hℓ


/-! ### the model's closed runs are among the enumerated loops -/

/-- **a closed run of the model is a walk**: its trace, from its start to its result -/
theorem loopIter_walk (w : Nat → List Bool → List Bool → Rat) (init : Nat × Leg) (fuel pos : Nat)
    (ent : Leg) (s : LoopSt)
    (h1 : (loopIter w init fuel pos ent s).rs.panicked = false)
    (h2 : (loopIter w init fuel pos ent s).rs.short = false) :
    Walk init pos ent ⟨s.state, s.slots⟩ (loopTrace w init fuel pos ent s)
      ⟨(loopIter w init fuel pos ent s).state, (loopIter w init fuel pos ent s).slots⟩ := by
  induction fuel generalizing pos ent s with
  | zero => simp [loopIter] at h2
  | succ f ih =>
    unfold loopIter at h1 h2 ⊢
    unfold loopTrace
    rcases loopBody_cases' w init pos ent s with ⟨hn, hfl⟩ | ⟨op, ex, hex, _⟩
    · exfalso
      rcases heq : loopBody w init pos ent s with ⟨s', _ | ⟨p, e⟩⟩
      · rw [heq] at hfl h1 h2
        simp only at hfl h1 h2
        rcases hfl with h | h
        · rw [h1] at h; cases h
        · rw [h2] at h; cases h
      · rw [heq] at hn; cases hn
    · have hv : visitHere w pos ent s = [⟨pos, ent, ex, op⟩] := by unfold visitHere; rw [hex]
      obtain ⟨hop, hrel, _⟩ := exitOf_some hex
      have hst := loopBody_stepEx w init pos ent s op ex hex
      rcases hse : stepEx init pos ent ⟨s.state, s.slots⟩ ex with _ | ⟨c1, res⟩
      · -- the missing-link panic
        exfalso
        rw [hse] at hst
        simp only at hst
        rcases heq : loopBody w init pos ent s with ⟨s', _ | ⟨p, e⟩⟩
        · rw [heq] at hst h1
          simp only at hst h1
          rw [h1] at hst; cases hst.2
        · rw [heq] at hst; cases hst.1
      · rw [hse] at hst
        simp only at hst
        obtain ⟨e1, e2, e3⟩ := hst
        rcases heq : loopBody w init pos ent s with ⟨s', _ | ⟨p, e⟩⟩
        · rw [heq] at e1 e2 e3
          simp only at e1 e2 e3 ⊢
          rw [hv]
          subst e3
          have : c1 = ⟨s'.state, s'.slots⟩ := by cases c1; simp only at e1 e2; rw [e1, e2]
          rw [this] at hse
          exact Walk.last hop hrel hse
        · rw [heq] at e1 e2 e3 h1 h2
          simp only at e1 e2 e3 h1 h2 ⊢
          rw [hv]
          subst e3
          have : c1 = ⟨s'.state, s'.slots⟩ := by cases c1; simp only at e1 e2; rw [e1, e2]
          rw [this] at hse
          exact Walk.step hop hrel hse (ih p e s' h1 h2)

/-- a closed `loopUpdate` with `m` visits is one of the loops of `loopsOf n` for every `n ≥ m` -/
theorem loopUpdate_mem_loopsOf (w : Nat → List Bool → List Bool → Rat) (cfg : Config) (rs : RS)
    (hn : countOps cfg.slots ≠ 0)
    (h1 : (loopUpdate w cfg rs).2.panicked = false) (h2 : (loopUpdate w cfg rs).2.short = false)
    (n : Nat) (hlen : (loopUpdateTrace w cfg rs).length ≤ n) :
    ∃ init, (init, loopUpdateTrace w cfg rs, (loopUpdate w cfg rs).1) ∈ loopsOf n cfg := by
  unfold loopUpdate at h1 h2 ⊢
  unfold loopUpdateTrace at hlen ⊢
  rw [if_neg hn] at h1 h2 hlen ⊢
  rcases hs : loopStart cfg.slots rs with ⟨_ | ⟨p, leg⟩, rs'⟩
  · exfalso
    rw [hs] at h1 h2
    simp only at h1 h2
    have : rs'.panicked = true ∨ rs'.short = true := by
      unfold loopStart at hs
      simp only at hs
      split at hs
      · injection hs with _ h; rw [← h]; exact Or.inl rfl
      · split at hs
        · rename_i hfl
          injection hs with _ h
          rw [← h]
          simpa using hfl
        · injection hs with h _; cases h
    rcases this with h | h
    · rw [h1] at h; cases h
    · rw [h2] at h; cases h
  · rw [hs] at h1 h2 hlen
    simp only [if_neg hn] at h1 h2 hlen ⊢
    refine ⟨(p, leg), (mem_loopsOf n cfg (p, leg) _ _).mpr ⟨loopStart_head _ _ _ _ _ hs, hlen, ?_⟩⟩
    exact loopIter_walk w (p, leg) _ p leg ⟨cfg.state, cfg.slots, rs'⟩ h1 h2


end Qmc.LoopC
