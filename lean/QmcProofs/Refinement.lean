/-
Refinement: the EXACT update functions (C08's diagonal sweeps, the free-spin refresh, the sampler step
with C12's cutoff rule, C04's loop update; C09's cluster update through the bridge) are instances of
the RELATIONS with which C06/C07 decide world-line consistency and legality. Namespace `Qmc.Refine`.

  part 1  QmcProofs/RefinementSweep.lean     `metropolisSweep_is_diagSweepStep`, `heatBathSweep_is_diagSweepStep`,
                                             `…_is_step`, `…_pres`
  part 2  QmcProofs/RefinementSampler.lean   `freeRefresh_is_freeStep`, `freeRefresh_is_step`, `freeRefresh_pres`
  part 3  QmcProofs/RefinementSampler.lean   `sampler_step_history`, `run_consistent_legal_headroom` (+ `_with mid`)
  part 4  this file                          spin-only updates given as functions: `spinFlipStep_of_consistent`,
                                             `certifiedUpdate_*` (bridge → C06), `loopUpdate_is_step` (C04, closed
                                             walks), `presUpdate_is_spinFlipStep` (parametrised)
          QmcProofs/RefinementClusterSide.lean  C09 → bridge, parametrised over the update function (cannot be
                                             imported here: name clashes between QmcModel/Cluster.lean and
                                             QmcModel/Worldline.lean); QmcProofs/RefinementClusterExact.lean
                                             instantiates it with the exact `clusterUpdate`
  examples: the 3-variable Ising configuration of C09 / KernelInvariance (`exB`, `exA`).
-/
import QmcProofs.RefinementSampler
import QmcProofs.RefinementBridge
import QmcProofs.LoopConsistent
import Mathlib.Tactic.NormNum

namespace Qmc.Refine
open Qmc Qmc.RS

/-! ### part 4a: two consistent configurations on one skeleton differ by a link-closed flip -/

theorem xorRel_mask_of_sameSkeleton {b a : Slots} (h : SameSkeleton b a) : XorRel b a (maskSlots b a) := by
  induction h with
  | nil => exact XorRel.nil
  | none _ ih => exact XorRel.none ih
  | some o o' hs _ _ ih =>
    obtain ⟨hv, _, _, _, ho⟩ := hs
    exact XorRel.some o o' (maskOp o o') hv rfl rfl rfl ho.symm ih

/-- **Converse of C06's `linkClosed_flip_consistent`**: if `b` and `a` are both consistent, have the
same number of variables and the same skeleton, then the flip mask `b xor a` is link-closed, i.e.
`SpinFlipStep b a`. So for an update given as a FUNCTION it is enough to know that it preserves
`Consistent` and the skeleton. -/
theorem spinFlipStep_of_consistent (b a : Config) (hlen : a.state.length = b.state.length)
    (hs : SameSkeleton b.slots a.slots) (hb : Consistent b) (ha : Consistent a) : SpinFlipStep b a := by
  refine ⟨hlen, hs, ?_⟩
  have := propagate_xor (xorRel_mask_of_sameSkeleton hs) hb ha
  exact this

/-! ### part 4b: bridge → C06 -/

theorem sameSkeleton_of_skelCert : ∀ {b a : Slots}, SkelCert b a → SameSkeleton b a
  | [], [], _ => SameSkeleton.nil
  | [], _ :: _, h => by simp [SkelCert] at h
  | none :: _, [], h => by simp [SkelCert] at h
  | some _ :: _, [], h => by simp [SkelCert] at h
  | none :: b, none :: a, h => by
    simp only [SkelCert] at h
    exact SameSkeleton.none (sameSkeleton_of_skelCert h)
  | none :: _, some _ :: _, h => by simp [SkelCert] at h
  | some _ :: _, none :: _, h => by simp [SkelCert] at h
  | some o :: b, some o' :: a, h => by
    simp only [SkelCert] at h
    obtain ⟨⟨h1, h2, h3, h4, h5, h6⟩, hr⟩ := h
    exact SameSkeleton.some o o' ⟨h1, h2, h3, h4, h5⟩ h6 (sameSkeleton_of_skelCert hr)

theorem skelCert_of_sameSkeleton {b a : Slots} (h : SameSkeleton b a) : SkelCert b a := by
  induction h with
  | nil => trivial
  | none _ ih => simpa [SkelCert] using ih
  | some o o' hs ht _ ih =>
    simp only [SkelCert]
    exact ⟨⟨hs.1, hs.2.1, hs.2.2.1, hs.2.2.2.1, hs.2.2.2.2, ht⟩, ih⟩

/-- the bridge's weight certificate is C07's `FlipKeepsWeight` -/
theorem keepsWeight_iff (H : Ham) : ∀ (b a : Slots), KeepsWeight H b a ↔ FlipKeepsWeight H b a
  | [], _ => by cases ‹Slots› <;> simp [KeepsWeight, FlipKeepsWeight]
  | _ :: _, [] => by simp [KeepsWeight, FlipKeepsWeight]
  | none :: b, x :: a => by simp only [KeepsWeight, FlipKeepsWeight]; exact keepsWeight_iff H b a
  | some _ :: b, none :: a => by simp only [KeepsWeight, FlipKeepsWeight]; exact keepsWeight_iff H b a
  | some o :: b, some o' :: a => by
    simp only [KeepsWeight, FlipKeepsWeight]; rw [keepsWeight_iff H b a]

/-- **bridge → C06**: a certified spin-only update of a consistent configuration is a `SpinFlipStep` -/
theorem flipCert_spinFlipStep {b a : Config} (h : FlipCert b a) (hb : Consistent b) : SpinFlipStep b a :=
  spinFlipStep_of_consistent b a h.len (sameSkeleton_of_skelCert h.skel) hb (h.cons hb)

/-- … and with the weight certificate one public call of C06/C07 -/
theorem flipCert_step (H : Ham) {b a : Config} (h : FlipCert b a) (hw : KeepsWeight H b.slots a.slots)
    (hb : Consistent b) : Step H b a :=
  Step.flip (flipCert_spinFlipStep h hb) ((keepsWeight_iff H _ _).1 hw)

/-- **Parametrised over the update function** (result type `Config × α`, domain `D`): if every call is
certified — for the cluster update that is `clusterUpdate_flipCert` of
QmcProofs/RefinementClusterSide.lean, i.e. `∀ c rs, ClusterMove fr c (update c rs).1` + the tag rule —
then every call on a consistent configuration is a `SpinFlipStep`, keeps `Consistent`, the cutoff and
the bond at every position. -/
theorem certifiedUpdate_is_spinFlipStep {α : Type} (update : Config → RS → Config × α)
    (D : Config → Prop) (hcert : ∀ c rs, D c → FlipCert c (update c rs).1) :
    ∀ c rs, D c → Consistent c →
      SpinFlipStep c (update c rs).1 ∧ Consistent (update c rs).1 ∧
      (update c rs).1.slots.length = c.slots.length ∧ ∀ p, bondAt (update c rs).1 p = bondAt c p := by
  intro c rs hD hc
  have h := flipCert_spinFlipStep (hcert c rs hD) hc
  exact ⟨h, (hcert c rs hD).cons hc, Qmc.C07.spinOnly_keeps_cutoff _ _ h,
    Qmc.C07.spinOnly_keeps_skeleton _ _ h⟩

/-- … and with the weight certificate every call is a `Step`, hence keeps `Consistent ∧ Legal` -/
theorem certifiedUpdate_pres {α : Type} (update : Config → RS → Config × α) (H : Ham) (n : Nat)
    (hH : HamWF H n) (D : Config → Prop) (hcert : ∀ c rs, D c → FlipCert c (update c rs).1)
    (hw : ∀ c rs, D c → Legal H c → KeepsWeight H c.slots (update c rs).1.slots) :
    ∀ c rs, D c → c.state.length = n → Consistent c → Legal H c →
      Step H c (update c rs).1 ∧ Consistent (update c rs).1 ∧ Legal H (update c rs).1 := by
  intro c rs hD hn hc hl
  have hs := flipCert_step H (hcert c rs hD) (hw c rs hD hl) hc
  obtain ⟨h1, h2, _⟩ := Qmc.C06.step_pres H n hH c _ hs hn hc hl
  exact ⟨hs, h1, h2⟩

/-- a certified update is an admissible middle part of the full time step, so
`run_consistent_legal_headroom_with` applies to `sweep ; update ; refresh ; cutoff rule` -/
theorem certifiedUpdate_midOK (H : Ham) (n : Nat) (mid : Config → RS → Config × RS)
    (hcert : ∀ c rs, c.state.length = n → Consistent c → Legal H c →
      FlipCert c (mid c rs).1 ∧ KeepsWeight H c.slots (mid c rs).1.slots) : MidOK H n mid := by
  intro c rs hn hc hl
  obtain ⟨h1, h2⟩ := hcert c rs hn hc hl
  exact ⟨flipCert_spinFlipStep h1 hc, (keepsWeight_iff H _ _).1 h2⟩

/-! ### part 4c: updates known to preserve `Consistent` and the skeleton (loop update) -/

/-- tags are canonical: `Diagonal` iff inputs = outputs (part of C07's `Legal`) -/
def TagCanonS (s : Slots) : Prop := ∀ o, some o ∈ s → o.tagDiag = decide (o.ins = o.outs)

theorem tagCanonS_of_legal (H : Ham) (c : Config) (h : Legal H c) : TagCanonS c.slots := by
  intro o ho
  have := (h o ho).2.2.2.1
  exact Bool.eq_iff_iff.mpr (by simpa using this)

theorem wfSlots_of_legal (H : Ham) (c : Config) (h : Legal H c) : WFSlots c.slots :=
  fun o ho => (h o ho).2.2.2.2.1

theorem legalSlots_of_legal (H : Ham) (c : Config) (h : Legal H c) : LegalSlots H.w c.slots :=
  fun o ho => (h o ho).2.2.2.2.2

/-- equal `skeletonOf` (C04's notion) + well-formed ops + canonical tags on the result give C06's
`SameSkeleton` -/
theorem sameSkeleton_of_skeletonOf : ∀ (b a : Slots), skeletonOf a = skeletonOf b → WFSlots b → WFSlots a →
    TagCanonS a → SameSkeleton b a
  | [], [], _, _, _, _ => SameSkeleton.nil
  | [], _ :: _, h, _, _, _ => by simp [skeletonOf] at h
  | _ :: _, [], h, _, _, _ => by simp [skeletonOf] at h
  | x :: b, y :: a, h, hb, ha, ht => by
    simp only [skeletonOf, List.map_cons, List.cons.injEq] at h
    have ih := sameSkeleton_of_skeletonOf b a h.2 (fun o ho => hb o (List.mem_cons_of_mem _ ho))
      (fun o ho => ha o (List.mem_cons_of_mem _ ho)) (fun o ho => ht o (List.mem_cons_of_mem _ ho))
    cases x with
    | none =>
      cases y with
      | none => exact SameSkeleton.none ih
      | some o' => simp at h
    | some o =>
      cases y with
      | none => simp at h
      | some o' =>
        have h1 := h.1
        simp only [Option.map_some, Option.some.injEq, Prod.mk.injEq] at h1
        have wb := hb o (List.mem_cons_self ..)
        have wa := ha o' (List.mem_cons_self ..)
        refine SameSkeleton.some o o' ⟨h1.1, h1.2.1, h1.2.2, ?_, ?_⟩
          (Or.inr (ht o' (List.mem_cons_self ..))) ih
        · rw [wa.1, wb.1, h1.1]
        · rw [wa.2.1, wb.2.1, h1.1]

theorem flipKeepsWeight_of_legalSlots (H : Ham) : ∀ (b a : Slots), LegalSlots H.w a → FlipKeepsWeight H b a
  | [], _, _ => by cases ‹Slots› <;> simp [FlipKeepsWeight]
  | _ :: _, [], _ => by simp [FlipKeepsWeight]
  | none :: b, x :: a, h => by
    simp only [FlipKeepsWeight]
    exact flipKeepsWeight_of_legalSlots H b a (fun o ho => h o (List.mem_cons_of_mem _ ho))
  | some _ :: b, none :: a, h => by
    simp only [FlipKeepsWeight]
    exact flipKeepsWeight_of_legalSlots H b a (fun o ho => h o (List.mem_cons_of_mem _ ho))
  | some o :: b, some o' :: a, h => by
    simp only [FlipKeepsWeight]
    exact ⟨Or.inr (h o' (List.mem_cons_self ..)),
      flipKeepsWeight_of_legalSlots H b a (fun o ho => h o (List.mem_cons_of_mem _ ho))⟩

/-- **Parametrised over the update function**, in the vocabulary of C04's `loopUpdate_pres`: an update
that, on a domain `D`, preserves `Consistent`, `skeletonOf`, `WFSlots`, `LegalSlots H.w`, canonical tags
and the number of variables is a `Step.flip` of C06/C07 on every legal consistent configuration. -/
theorem presUpdate_is_step {α : Type} (update : Config → RS → Config × α) (H : Ham)
    (D : Config → RS → Prop)
    (hpres : ∀ c rs, D c rs → Consistent c → Legal H c →
      Consistent (update c rs).1 ∧ skeletonOf (update c rs).1.slots = skeletonOf c.slots ∧
      WFSlots (update c rs).1.slots ∧ LegalSlots H.w (update c rs).1.slots ∧
      TagCanonS (update c rs).1.slots ∧ (update c rs).1.state.length = c.state.length) :
    ∀ c rs, D c rs → Consistent c → Legal H c →
      SpinFlipStep c (update c rs).1 ∧ Step H c (update c rs).1 := by
  intro c rs hD hc hl
  obtain ⟨h1, h2, h3, h4, h5, h6⟩ := hpres c rs hD hc hl
  have hs := spinFlipStep_of_consistent c _ h6
    (sameSkeleton_of_skeletonOf _ _ h2 (wfSlots_of_legal H c hl) h3 h5) hc h1
  exact ⟨hs, Step.flip hs (flipKeepsWeight_of_legalSlots H _ _ h4)⟩

/-! #### the loop update of C04 (exact function `loopUpdate`)

`QmcProps/C04.lean` itself is not imported (it pulls in `QmcProofs/HeatBath.lean`, which clashes with
`QmcProofs/Cutoff.lean` on `foldl_max_*`); the two lemmas behind `C04.loopUpdate_pres` are used
directly: `LoopC.loopUpdate_consistent` (QmcProofs/LoopConsistent.lean) and `loopUpdate_inv`
(QmcProofs/Loop.lean). -/

/-- the walk closed: no modelled panic, script not exhausted (this is `Qmc.C04.LoopClosed`, verbatim) -/
def LoopClosed (rs : RS) : Prop := rs.panicked = false ∧ rs.short = false

instance (rs : RS) : Decidable (LoopClosed rs) := by unfold LoopClosed; infer_instance

theorem passThrough_tag (op : Op) (a b : Leg) :
    (passThrough op a b).tagDiag = decide ((passThrough op a b).ins = (passThrough op a b).outs) := by
  simp only [passThrough, Op.withInOut]
  by_cases h : (flipIO (flipIO (op.ins, op.outs) a) b).1 = (flipIO (flipIO (op.ins, op.outs) a) b).2 <;>
    simp [h]

theorem loopBody_tag (w : Nat → List Bool → List Bool → Rat) (init : Nat × Leg) (pos : Nat) (ent : Leg)
    (s : LoopSt) (h : TagCanonS s.slots) : TagCanonS (loopBody w init pos ent s).1.slots := by
  rcases loopBody_slots w init pos ent s with heq | ⟨op, ex, _, _, _, heq⟩
  · rw [heq]; exact h
  · rw [heq]
    intro o ho
    rcases mem_set_some ho with rfl | ho
    · exact passThrough_tag op ent ex
    · exact h o ho

theorem loopIter_tag (w : Nat → List Bool → List Bool → Rat) (init : Nat × Leg) (fuel pos : Nat)
    (ent : Leg) (s : LoopSt) (h : TagCanonS s.slots) : TagCanonS (loopIter w init fuel pos ent s).slots := by
  induction fuel generalizing pos ent s with
  | zero => exact h
  | succ f ih =>
    unfold loopIter
    have hb := loopBody_tag w init pos ent s h
    split
    · rename_i s' heq; rw [heq] at hb; exact hb
    · rename_i s' p e heq; rw [heq] at hb; exact ih p e s' hb

/-- the loop update keeps tags canonical (every visited op is rewritten by `edit_in_out`) -/
theorem loopUpdate_tag (w : Nat → List Bool → List Bool → Rat) (cfg : Config) (rs : RS)
    (h : TagCanonS cfg.slots) : TagCanonS (loopUpdate w cfg rs).1.slots := by
  unfold loopUpdate
  split
  · exact h
  · split
    · exact h
    · exact loopIter_tag w _ _ _ _ _ h

/-- **`loopUpdate_is_step`**: the exact loop update with the weights of `H`, started on a consistent
legal configuration, is a `SpinFlipStep` and a `Step` of C06/C07 whenever the walk closed (no modelled
panic, script not exhausted — with the real, inexhaustible RNG every walk that returns has closed;
C04's `loopUpdate_consistent` needs exactly this). For every `H`, configuration and script. -/
theorem loopUpdate_is_step (H : Ham) (cfg : Config) (rs : RS) (hc : Consistent cfg) (hl : Legal H cfg)
    (hcl : LoopClosed (loopUpdate H.w cfg rs).2) :
    SpinFlipStep cfg (loopUpdate H.w cfg rs).1 ∧ Step H cfg (loopUpdate H.w cfg rs).1 := by
  refine presUpdate_is_step (loopUpdate H.w) H (fun c rs => LoopClosed (loopUpdate H.w c rs).2)
    ?_ cfg rs hcl hc hl
  intro c rs hcl hc hl
  have hwf := wfSlots_of_legal H c hl
  have hinv := loopUpdate_inv H.w c rs (sk := skeletonOf c.slots) (n := c.state.length)
    ⟨rfl, hwf, legalSlots_of_legal H c hl, rfl⟩
  exact ⟨LoopC.loopUpdate_consistent H.w c rs hwf hc hcl.1 hcl.2, hinv.skel, hinv.wf, hinv.legal,
    loopUpdate_tag H.w c rs (tagCanonS_of_legal H c hl), hinv.len⟩

/-- … hence it keeps `Consistent ∧ Legal` (C06 + C07 for the exact loop update) -/
theorem loopUpdate_pres (H : Ham) (n : Nat) (hH : HamWF H n) (cfg : Config) (rs : RS)
    (hn : cfg.state.length = n) (hc : Consistent cfg) (hl : Legal H cfg)
    (hcl : LoopClosed (loopUpdate H.w cfg rs).2) :
    Consistent (loopUpdate H.w cfg rs).1 ∧ Legal H (loopUpdate H.w cfg rs).1 := by
  obtain ⟨h1, h2, _⟩ := Qmc.C06.step_pres H n hH cfg _ (loopUpdate_is_step H cfg rs hc hl hcl).2 hn hc hl
  exact ⟨h1, h2⟩

/-- the part that needs no closed walk (C04's `loopUpdate_pres_partial`): same skeleton in C06's
sense, for every script -/
theorem loopUpdate_sameSkeleton (H : Ham) (cfg : Config) (rs : RS) (hl : Legal H cfg) :
    SameSkeleton cfg.slots (loopUpdate H.w cfg rs).1.slots ∧
    FlipKeepsWeight H cfg.slots (loopUpdate H.w cfg rs).1.slots := by
  have hwf := wfSlots_of_legal H cfg hl
  have hinv := loopUpdate_inv H.w cfg rs (sk := skeletonOf cfg.slots) (n := cfg.state.length)
    ⟨rfl, hwf, legalSlots_of_legal H cfg hl, rfl⟩
  exact ⟨sameSkeleton_of_skeletonOf _ _ hinv.skel hwf hinv.wf
    (loopUpdate_tag H.w cfg rs (tagCanonS_of_legal H cfg hl)), flipKeepsWeight_of_legalSlots H _ _ hinv.legal⟩

/-! ### the Ising Hamiltonian satisfies the sign hypothesis for every `β` -/

/-- all diagonal (indeed all) matrix elements of the transverse-field Ising Hamiltonian are ≥ 0 when
`Γ ≥ 0` -/
theorem ising_w_nonneg (s : IsingSpec) (hg : 0 ≤ s.gamma) (b : Nat) (i o : List Bool) : 0 ≤ s.ham.w b i o := by
  by_cases h1 : b < s.nedges
  · rw [IsingSpec.w_edge s b i o h1]
    rcases twoSite_values i o (s.J b) with h | h
    · exact le_of_eq h.symm
    · rw [h]; have := ratAbs_nonneg (s.J b); linarith
  · by_cases h2 : b < s.nedges + s.nvars
    · rw [IsingSpec.w_transverse s b i o (by omega) h2]; exact hg
    · rw [IsingSpec.w_longitudinal s b i o (by omega)]
      rcases longitudinal_values i o s.h with h | h
      · exact le_of_eq h.symm
      · rw [h]; have := ratAbs_nonneg s.h; linarith

theorem ising_metroSigns (s : IsingSpec) (hg : 0 ≤ s.gamma) (β : Rat) : MetroSigns s.ham β :=
  Or.inr fun b _ st => ising_w_nonneg s hg b st st

theorem ising_diagOK (s : IsingSpec) (hg : 0 ≤ s.gamma) (heatbath : Bool) (β : Rat) :
    DiagOK s.ham (if heatbath then some (makeBondWeights s.ham) else none) β := by
  cases heatbath
  · exact ising_metroSigns s hg β
  · exact makeBondWeights_tableOK s.ham

/-! ### examples: every hypothesis instantiated on the 3-variable Ising configuration of C09

Two spins joined by an antiferromagnetic bond (bond 0, J = 1) and an idle third spin; Γ = 1/2,
h = 1/4 (bonds 1–3 transverse, 4–6 longitudinal). `exB`: σx on spin 0 at p = 0 and p = 2, the bond op
on (0,1) at p = 1, a constant op on spin 1 at p = 4 — the configuration `Qmc.C09.exB`; `exA` is what
the cluster update makes of it when the cluster between the two σx ops is flipped. -/

def spec3 : IsingSpec := { nvars := 3, edges := [(0, 1, 1)], gamma := 1 / 2, h := 1 / 4 }

def sx (v : Nat) (i o : Bool) : Op := ⟨[v], 1 + v, [i], [o], i == o, true⟩
def bd (i : List Bool) : Op := ⟨[0, 1], 0, i, i, true, false⟩
def exB : Config :=
  ⟨[false, false, true], [some (sx 0 false true), some (bd [true, false]), some (sx 0 true false), none,
    some (sx 1 false false)]⟩
def exA : Config :=
  ⟨[false, true, true], [some (sx 0 false false), some (bd [false, true]), some (sx 0 false false), none,
    some (sx 1 true true)]⟩

theorem spec3_valid : spec3.Valid := by
  intro e he
  simp [spec3] at he
  subst he
  decide

theorem spec3_wf : HamWF spec3.ham 3 := spec3.hamWF spec3_valid

theorem exB_consistent : Consistent exB := by decide
theorem exB_legal : Legal spec3.ham exB := (legalB_iff _ _).1 (by decide +kernel)
theorem exA_legal : Legal spec3.ham exA := (legalB_iff _ _).1 (by decide +kernel)

/-- part 1, Metropolis: any script, also the empty one -/
example (ws : List Nat) :
    DiagSweepStep spec3.ham 5 exB (metropolisSweep spec3.ham (3 / 2) 5 exB (RS.ofScript ws)).1 :=
  metropolisSweep_is_diagSweepStep spec3.ham (3 / 2) (ising_metroSigns spec3 (by norm_num [spec3]) _) 5 exB _

example (ws : List Nat) :
    Consistent (metropolisSweep spec3.ham (3 / 2) 5 exB (RS.ofScript ws)).1 ∧
    Legal spec3.ham (metropolisSweep spec3.ham (3 / 2) 5 exB (RS.ofScript ws)).1 ∧
    (metropolisSweep spec3.ham (3 / 2) 5 exB (RS.ofScript ws)).1.state = exB.state :=
  metropolisSweep_pres spec3.ham 3 spec3_wf (3 / 2) (Or.inl (by norm_num)) 5 exB _ rfl (by decide)
    exB_consistent exB_legal

/-- part 1, heat bath with the table of `make_bond_weights` -/
example (ws : List Nat) :
    Consistent (heatBathSweep spec3.ham (makeBondWeights spec3.ham) (3 / 2) 5 exB (RS.ofScript ws)).1 ∧
    Legal spec3.ham (heatBathSweep spec3.ham (makeBondWeights spec3.ham) (3 / 2) 5 exB (RS.ofScript ws)).1 ∧
    (heatBathSweep spec3.ham (makeBondWeights spec3.ham) (3 / 2) 5 exB (RS.ofScript ws)).1.state = exB.state :=
  heatBathSweep_pres spec3.ham 3 spec3_wf _ (makeBondWeights_tableOK _) (3 / 2) 5 exB _ rfl (by decide)
    exB_consistent exB_legal

/-- the sweep really does something on this input: with the words `[2^63, 2^62, 2^63]` the bond op at
p = 1 survives its removal draw (`gen_bool(2/21)`, word = ½), the empty slot p = 3 draws bond 1
(`gen_range(0..7)` on `2^62`) and receives the σx-type constant op on the current sub-state without
an acceptance draw (`β·Nb·w = 21/4 > L − n = 1`: clipped), the op at p = 4 survives `gen_bool(4/21)`;
the script is consumed exactly -/
example : (metropolisSweep spec3.ham (3 / 2) 5 exB (RS.ofScript [2 ^ 63, 2 ^ 62, 2 ^ 63])).1.slots[3]?
      = some (some (insertedOp spec3.ham [false, false, true] 1)) ∧
    (metropolisSweep spec3.ham (3 / 2) 5 exB (RS.ofScript [2 ^ 63, 2 ^ 62, 2 ^ 63])).2.clean = true := by
  decide +kernel

/-! #### the hypotheses of part 1 are needed -/

def Hneg : Ham := { nbonds := 1, vars := fun _ => [0], const := fun _ => false, w := fun _ _ _ => -1 }
def Hzero : Ham := { nbonds := 3, vars := fun _ => [0], const := fun _ => false, w := fun _ _ _ => 0 }

theorem ham1_wf (H : Ham) (hv : ∀ b, H.vars b = [0]) : HamWF H 1 := by
  intro b _
  rw [hv b]
  exact ⟨by simp, by intro v hv; simp at hv; omega⟩

/-- **`MetroSigns` is needed**: with `β = −1` and a diagonal weight `−1` the insertion test
`β·Nb·w = 1 ≥ L − n = 1` passes (`gen_bool(1.0)`, no draw) and the sweep stores an operator of weight
`−1`; that is not a `DiagSweepStep` (it would be legal by `diagSweep_pres`). -/
theorem metroSigns_needed : ¬ MetroSigns Hneg (-1) ∧
    ¬ DiagSweepStep Hneg 1 ⟨[false], [none]⟩
      (metropolisSweep Hneg (-1) 1 ⟨[false], [none]⟩ (RS.ofScript [0])).1 := by
  constructor
  · rintro (h | h)
    · norm_num at h
    · have := h 0 (by decide) []
      simp only [Hneg] at this
      norm_num at this
  · intro h
    have hl := (diagSweep_pres_aux Hneg 1 1 (ham1_wf Hneg fun _ => rfl) _ _ rfl (by decide) (by decide)
      (empty_consistent_legal Hneg [false] 1).2 h).2.1
    have hmem : some (insertedOp Hneg [false] 0) ∈
        (metropolisSweep Hneg (-1) 1 ⟨[false], [none]⟩ (RS.ofScript [0])).1.slots := by decide +kernel
    have := (hl _ hmem).2.2.2.2.2
    simp only [Hneg] at this
    norm_num at this

/-- **`TableOK` (entries ≥ 0) is needed**: with the table `[1, −1, 2]` (total 2 > 0) the cumulative
search can return bond 1, whose entry is negative, and the rejection test `u·(−1) < w = 0` passes: an
operator of weight 0 is stored. -/
theorem tableOK_needed : ¬ TableOK Hzero [1, -1, 2] ∧
    ¬ DiagSweepStep Hzero 1 ⟨[false], [none]⟩
      (heatBathSweep Hzero [1, -1, 2] 1 1 ⟨[false], [none]⟩ (RS.ofScript [0, 2 ^ 63, 2 ^ 62])).1 := by
  constructor
  · intro h
    have := h.2 (-1) (by simp)
    norm_num at this
  · intro h
    have hl := (diagSweep_pres_aux Hzero 1 1 (ham1_wf Hzero fun _ => rfl) _ _ rfl (by decide) (by decide)
      (empty_consistent_legal Hzero [false] 1).2 h).2.1
    have hmem : some (insertedOp Hzero [false] 1) ∈
        (heatBathSweep Hzero [1, -1, 2] 1 1 ⟨[false], [none]⟩ (RS.ofScript [0, 2 ^ 63, 2 ^ 62])).1.slots := by
      decide +kernel
    have := (hl _ hmem).2.2.2.2.2
    simp only [Hzero] at this
    exact absurd this (lt_irrefl _)

/-- part 2: variable 2 carries no operator and is redrawn (word `2^63` = tails), 0 and 1 are kept -/
example : (freeRefresh exB (RS.ofScript [2 ^ 63])).1.state = [false, false, false] ∧
    (freeRefresh exB (RS.ofScript [2 ^ 63])).2.clean = true := by decide +kernel

example (ws : List Nat) : FreeStep exB (freeRefresh exB (RS.ofScript ws)).1 := freeRefresh_is_freeStep _ _

example (ws : List Nat) : Step spec3.ham exB (freeRefresh exB (RS.ofScript ws)).1 :=
  freeRefresh_is_step spec3.ham 3 spec3_wf exB _ rfl exB_legal

/-- part 3: two steps at β = 3/2 from `exB` with cutoff 5, Metropolis and heat bath, every script -/
example (heatbath : Bool) (ws : List Nat) :
    ∀ t ∈ runTrace spec3.ham (if heatbath then some (makeBondWeights spec3.ham) else none) [3 / 2, 3 / 2]
        ⟨5, exB⟩ (RS.ofScript ws),
      Consistent t.cfg ∧ Legal spec3.ham t.cfg ∧ t.cfg.slots.length ≤ t.cutoff ∧ 5 ≤ t.cutoff ∧
      countOps t.cfg.slots < t.cutoff ∧ countOps t.cfg.slots + countOps t.cfg.slots / 2 + 1 ≤ t.cutoff :=
  run_consistent_legal_headroom spec3.ham 3 spec3_wf _ _ ⟨5, exB⟩ _
    (fun β _ => ising_diagOK spec3 (by norm_num [spec3]) heatbath β) rfl (by decide) exB_consistent exB_legal

example (ws : List Nat) : History 3 spec3.ham exB (runHistory spec3.ham none [3 / 2, 3 / 2] ⟨5, exB⟩ (RS.ofScript ws)) :=
  sampler_step_history spec3.ham 3 spec3_wf none _ ⟨5, exB⟩ _
    (fun β _ => ising_metroSigns spec3 (by norm_num [spec3]) β) rfl (by decide) exB_consistent exB_legal

/-- a concrete run: the first step fills the string (5 operators in 5 slots, cutoff 5 → 8), the
second sweep works on the container grown to 8 slots (6 operators, cutoff → 10) -/
example : (runTrace spec3.ham none [3 / 2, 3 / 2] ⟨5, exB⟩
      (RS.ofScript [2 ^ 63, 2 ^ 62, 2 ^ 63, 0, 2 ^ 63, 2 ^ 63, 2 ^ 63, 2 ^ 63, 2 ^ 63, 2 ^ 63, 2 ^ 63, 2 ^ 63])).map
      (fun t => (t.cutoff, countOps t.cfg.slots, t.cfg.slots.length)) = [(8, 5, 5), (10, 6, 8)] := by
  decide +kernel

/-- part 4a/4b: the cluster move `exB → exA` of C09, certified in the bridge vocabulary, is a
`SpinFlipStep` and a `Step` -/
theorem ex_flipCert : FlipCert exB exA :=
  ⟨rfl, skelCert_of_sameSkeleton (sameSkeletonB_sound _ _ (by decide)), fun _ => by decide⟩

example : SpinFlipStep exB exA := flipCert_spinFlipStep ex_flipCert exB_consistent

example : Step spec3.ham exB exA :=
  flipCert_step spec3.ham ex_flipCert
    ((keepsWeight_iff _ _ _).2 (flipKeepsWeight_of_legalSlots _ _ _ (legalSlots_of_legal _ _ exA_legal)))
    exB_consistent

/-- the parametrised theorems on an update function that performs this move -/
def exUpdate (c : Config) (rs : RS) : Config × RS := (if c = exB then exA else c, rs)

example : ∀ c rs, c = exB → Consistent c → SpinFlipStep c (exUpdate c rs).1 ∧ Consistent (exUpdate c rs).1 ∧
    (exUpdate c rs).1.slots.length = c.slots.length ∧ ∀ p, bondAt (exUpdate c rs).1 p = bondAt c p :=
  certifiedUpdate_is_spinFlipStep exUpdate (fun c => c = exB) (fun c rs hc => by
    subst hc; simp only [exUpdate, if_true]; exact ex_flipCert)

/-- part 4c: the exact loop update on the one-world-line configuration of C04 (`wlCfg`, all matrix
elements 1), script `[0,0,0,0,0]`: the walk closes, so the call is a `Step` -/
def H1 : Ham := { nbonds := 1, vars := fun _ => [0], const := fun _ => true, w := fun _ _ _ => 1 }
def wlOp (b : Bool) : Op := Op.diagonal [0] 0 [b] true
def wlCfg : Config := ⟨[false], [some (wlOp false), some (wlOp false)]⟩

theorem wl_legal : Legal H1 wlCfg := (legalB_iff _ _).1 (by decide +kernel)

example : Step H1 wlCfg (loopUpdate H1.w wlCfg (RS.ofScript [0, 0, 0, 0, 0])).1 ∧
    (loopUpdate H1.w wlCfg (RS.ofScript [0, 0, 0, 0, 0])).1 = ⟨[true], [some (wlOp true), some (wlOp true)]⟩ :=
  ⟨(loopUpdate_is_step H1 wlCfg _ (by decide) wl_legal (by decide +kernel)).2, by decide +kernel⟩

/-- … and on the 3-variable Ising configuration for every script on which the walk closes -/
example (ws : List Nat) (hcl : LoopClosed (loopUpdate spec3.ham.w exB (RS.ofScript ws)).2) :
    Consistent (loopUpdate spec3.ham.w exB (RS.ofScript ws)).1 ∧
    Legal spec3.ham (loopUpdate spec3.ham.w exB (RS.ofScript ws)).1 :=
  loopUpdate_pres spec3.ham 3 spec3_wf exB _ rfl exB_consistent exB_legal hcl

end Qmc.Refine
