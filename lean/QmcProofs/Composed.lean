/-
Composition theorems that could not be stated while `QmcModel/Cluster.lean` (C09), `QmcModel/Worldline.lean`
(C06/C07), `QmcModel/Loop.lean` (C04), `QmcModel/Interaction.lean` (C16) and their proof files declared the same
names (design_notes/Cleanup.md). Every theorem here joins two halves that were proved against a neutral
"bridge" proposition (`Refine.FlipCert`, `Refine.KeepsWeight`, `Sampler.ClusterCert`; QmcProofs/RefinementBridge.lean,
QmcProofs/SamplerBridge.lean) because no file could import both sides. The bridge files stay (other checks build
them); this file makes the direct statements available. Namespace `Qmc.Composed`.

§0  the two vocabularies are the same: `maskConfig = mask`, `ratAbs = absR`, `twoSite`/`longitudinal` =
    `twoSiteW`/`longitudinalW` (all entries), `IsingSpec.ham` vs `isingClusterHam`, `HamWF = VarsOK`, `C04.LoopClosed = Refine.LoopClosed`.
§1  C09 ∘ C06/C07: the exact cluster update is a `SpinFlipStep` / `Step` and keeps `Consistent ∧ Legal`
    (`clusterUpdate_is_step`; announced in design_notes/Refinement.md).
§2  whole time steps with the exact kernels plugged in (`isingTimestep_pres`, `isingTrace_inv`, `isingRun_inv`,
    `genericTimestep_pres`, `genericTrace_inv`; announced in design_notes/FullStep.md).
§3  `Kernel.ising_timestep_invariant` for the Hamiltonian and the freezing rule the executable whole-step model
    `Sampler.isingTimestep` runs (`isingSpec_timestep_invariant`, `_hb`).
-/
import QmcProofs.SamplerStep
import QmcProofs.SamplerCluster
import QmcProofs.KernelInvariance
import QmcProps.C04

namespace Qmc.Composed
open Qmc

/-! ## §0 one vocabulary -/

/-- the flip mask of C06 (`SpinFlipStep`: `Consistent (maskConfig b a)`) is the flip mask of C09
(`ClusterMove.linkClosed`: `Consistent (mask b a)`) -/
theorem maskConfig_eq_mask (b a : Config) : maskConfig b a = mask b a := rfl

theorem xorBits_eq_xorB : xorBits = xorB := rfl

/-- `f64::abs` of IsingHam.lean and of Common.lean (Interaction / Cluster) -/
theorem ratAbs_eq_absR : ratAbs = absR := rfl

/-- `two_site_hamiltonian` of IsingHam.lean (C06/C07, whole-step model) and of Cluster.lean (C09, kernel) -/
theorem twoSite_eq_twoSiteW (i o : List Bool) (J : Rat) : twoSite i o J = twoSiteW J i o := by
  rcases i with _ | ⟨a, _ | ⟨b, _ | ⟨c, i⟩⟩⟩ <;> rcases o with _ | ⟨d, _ | ⟨e, _ | ⟨f, o⟩⟩⟩ <;>
    simp only [twoSite, twoSiteW]
  cases a <;> cases b <;> cases d <;> cases e <;> simp [ratAbs_eq_absR]

/-- `longitudinal_hamiltonian` of IsingHam.lean and of Cluster.lean agree on EVERY entry (since Cluster.lean's copy
was brought in line with the fix 9464564 (F15): `0` off the diagonal) -/
theorem longitudinal_eq_longitudinalW (i o : List Bool) (h : Rat) : longitudinal i o h = longitudinalW h i o := by
  rcases i with _ | ⟨a, _ | ⟨b, i⟩⟩ <;> rcases o with _ | ⟨c, _ | ⟨d, o⟩⟩ <;> simp only [longitudinal, longitudinalW]
  cases a <;> cases c <;> simp [ratAbs_eq_absR, Rat.sub_eq_add_neg]

theorem longitudinal_eq_longitudinalW_diag (i : List Bool) (h : Rat) : longitudinal i i h = longitudinalW h i i :=
  longitudinal_eq_longitudinalW i i h

/-- the edge list of an `IsingSpec` in the format of `isingClusterHam` -/
def clusterEdges (s : IsingSpec) : List (List Nat × Rat) := s.edges.map fun e => ([e.1, e.2.1], e.2.2)

/-- bond by bond, the Hamiltonian of the whole-step model / of C06/C07 (`IsingSpec.ham`) and the Hamiltonian of
C09 and of `Kernel.ising_timestep_invariant` (`isingClusterHam`) have the same variables, constant flags and
**matrix elements for EVERY bond index and every pair of leg values** (two-site, transverse and — since Cluster.lean's
`longitudinalW` was brought in line with the fix 9464564 — longitudinal bonds, off the diagonal too). Only the bond
counts differ for `h = 0`: `IsingSpec.ham` has the code's `edges + nvars (+ nvars if h ≠ 0)`, `isingClusterHam` always
`edges + 2·nvars` (for `h = 0` the extra bonds have weight `|0| ± 0 = 0`). -/
theorem isingSpec_ham_fields (s : IsingSpec) :
    let H' := isingClusterHam (clusterEdges s) s.gamma s.h s.nvars
    (∀ b, s.ham.vars b = H'.vars b) ∧ (∀ b, s.ham.const b = H'.const b) ∧
    (∀ b i o, s.ham.w b i o = H'.w b i o) ∧
    (s.h ≠ 0 → s.ham.nbonds = H'.nbonds) := by
  have hl : (clusterEdges s).length = s.nedges := by simp [clusterEdges, IsingSpec.nedges]
  refine ⟨?_, ?_, ?_, ?_⟩
  · intro b
    simp only [IsingSpec.ham, isingClusterHam, hl]
    by_cases h1 : b < s.nedges
    · have h1' : b < s.edges.length := h1
      simp [h1, IsingSpec.edgeVars, clusterEdges, List.getElem?_eq_getElem h1']
    · simp [h1]
  · intro b; simp only [IsingSpec.ham, isingClusterHam, hl]
  · intro b i o
    simp only [IsingSpec.ham, isingClusterHam, hl]
    by_cases h1 : b < s.nedges
    · have h1' : b < s.edges.length := h1
      simp [h1, IsingSpec.J, clusterEdges, List.getElem?_eq_getElem h1', twoSite_eq_twoSiteW]
    · by_cases h2 : b < s.nedges + s.nvars
      · simp [h1, h2, transverseW]
      · simp [h1, h2, longitudinal_eq_longitudinalW]
  · intro h0
    simp only [IsingSpec.ham, isingClusterHam, hl, if_neg h0]; omega

/-- … hence, when `h ≠ 0`, the two Hamiltonians are equal as structures -/
theorem isingSpec_ham_eq (s : IsingSpec) (h0 : s.h ≠ 0) :
    s.ham = isingClusterHam (clusterEdges s) s.gamma s.h s.nvars := by
  obtain ⟨h1, h2, h3, h4⟩ := isingSpec_ham_fields s
  have e1 : s.ham.vars = (isingClusterHam (clusterEdges s) s.gamma s.h s.nvars).vars := funext h1
  have e2 : s.ham.const = (isingClusterHam (clusterEdges s) s.gamma s.h s.nvars).const := funext h2
  have e3 : s.ham.w = (isingClusterHam (clusterEdges s) s.gamma s.h s.nvars).w :=
    funext fun b => funext fun i => funext fun o => h3 b i o
  have e4 := h4 h0
  cases hH : s.ham with
  | mk nb vs cs w =>
    cases hH' : isingClusterHam (clusterEdges s) s.gamma s.h s.nvars with
    | mk nb' vs' cs' w' =>
      rw [hH, hH'] at e1 e2 e3 e4
      simp only at e1 e2 e3 e4
      subst e1 e2 e3 e4
      rfl

/-- C07's well-formedness of a Hamiltonian is the kernel theorems' `VarsOK` -/
theorem hamWF_iff_varsOK (H : Ham) (n : Nat) : HamWF H n ↔ Kernel.VarsOK H n := Iff.rfl

/-- C04's and the Refinement theorems' "the walk closed" are the same proposition, so
`Refine.loopUpdate_is_step` can be audited next to `C04.loopUpdate_pres` -/
theorem loopClosed_iff (rs : RS) : C04.LoopClosed rs ↔ Refine.LoopClosed rs := Iff.rfl

/-! ## §1 the exact cluster update is a step of C06/C07 -/

theorem some_mem_of_mem_opsOf : ∀ {s : Slots} {o : Op}, o ∈ opsOf s → some o ∈ s :=
  Sampler.some_mem_of_mem_opsOf'

/-- the weight hypotheses of C09's `clusterMove_weight`, bond by bond (the form of `Kernel.clusterSym_cfgSpace`):
every bond that is neither a cluster edge (constant, one variable) nor frozen is invariant under the global flip
of its legs, and every cluster-edge bond has a constant matrix -/
structure BondSym (H : Ham) (fr : SkOp → Bool) : Prop where
  sym : ∀ b, b < H.nbonds → isClusterEdge (H.const b) (H.vars b).length = false →
    fr ⟨H.vars b, b, H.const b⟩ = false → H.FlipSym b
  const : ∀ b, b < H.nbonds → isClusterEdge (H.const b) (H.vars b).length = true → H.ConstW b

/-- **`clusterUpdate_is_step`** (C09 ∘ C06/C07, one environment) — on every consistent, legal configuration of a
well-formed Hamiltonian satisfying the bond symmetry, for EVERY flip probability and EVERY script, the exact model
`clusterUpdate` of `flip_each_cluster_rng` (QmcModel/ClusterExact.lean, tied to the code by C09's correspondence)
is a `SpinFlipStep`, is one public call `Step H` of C06/C07, and keeps `Consistent` and `Legal`. -/
theorem clusterUpdate_is_step (H : Ham) (n : Nat) (hH : HamWF H n) (prob : Rat) (fr : SkOp → Bool)
    (hsym : BondSym H fr) (c : Config) (rs : RS) (hn : c.state.length = n) (hc : Consistent c)
    (hl : Legal H c) :
    SpinFlipStep c (clusterUpdate prob fr c rs).1 ∧ Step H c (clusterUpdate prob fr c rs).1 ∧
      Consistent (clusterUpdate prob fr c rs).1 ∧ Legal H (clusterUpdate prob fr c rs).1 := by
  have hshape := Sampler.shapeOk_of_shape (Sampler.shape_of_legal H n hH c hn hl)
  have hok := Sampler.storedOk_of_legal H c hl
  have hcert : Refine.FlipCert c (clusterUpdate prob fr c rs).1 :=
    Refine.exactClusterUpdate_flipCert prob fr c rs hshape
  have hw : Refine.KeepsWeight H c.slots (clusterUpdate prob fr c rs).1.slots := by
    refine Refine.exactClusterUpdate_keepsWeight prob fr H c rs hshape ?_ ?_ ?_
    · intro o ho he hf
      obtain ⟨hb, hv, hk, _⟩ := hok o (some_mem_of_mem_opsOf ho)
      refine hsym.sym o.bond hb ?_ ?_
      · rw [← hv, ← hk]; exact he
      · rw [← hv, ← hk]; exact hf
    · intro o ho he
      obtain ⟨hb, hv, hk, _⟩ := hok o (some_mem_of_mem_opsOf ho)
      refine hsym.const o.bond hb ?_
      rw [← hv, ← hk]; exact he
    · intro o ho
      exact (hok o (some_mem_of_mem_opsOf ho)).2.2.2
  have hstep := Refine.flipCert_step H hcert hw hc
  obtain ⟨h1, h2, _⟩ := C06.step_pres H n hH c _ hstep hn hc hl
  exact ⟨Refine.flipCert_spinFlipStep hcert hc, hstep, h1, h2⟩

/-- the bond symmetry holds for every transverse-field Ising model with the freezing rule of
`QmcIsingGraph::timestep` (h ≠ 0: longitudinal bonds frozen; h = 0: none exist, nothing frozen) -/
theorem ising_bondSym (s : Sampler.IsingSampler) : BondSym s.spec.ham (fun o => s.frozenBond o.bond) where
  sym := by
    intro b hb he hf i o
    by_cases h1 : b < s.spec.nedges
    · simp only [IsingSpec.ham, if_pos h1]
      exact Sampler.twoSite_flip i o _
    · by_cases h2 : b < s.spec.nedges + s.spec.nvars
      · exfalso
        have : isClusterEdge (s.spec.ham.const b) (s.spec.ham.vars b).length = true := by
          simp [IsingSpec.ham, isClusterEdge, h1, h2, Nat.le_of_not_lt h1]
        rw [this] at he; cases he
      · exfalso
        by_cases h0 : s.spec.h = 0
        · simp [IsingSpec.ham, h0] at hb; omega
        · simp [Sampler.IsingSampler.frozenBond, h0] at hf; omega
  const := by
    intro b hb he i o i' o' _ _
    have hc : s.spec.ham.const b = true := by
      simp only [isClusterEdge, Bool.and_eq_true] at he; exact he.1
    simp only [IsingSpec.ham, decide_eq_true_eq] at hc
    have h1 : ¬ b < s.spec.nedges := by omega
    simp [IsingSpec.ham, h1, hc.2]

/-- **`ising_clusterUpdate_is_step`** — the cluster update of `QmcIsingGraph` (any graph with edges on two different
in-range variables, any couplings, Γ, h, flip probability, script) on a consistent legal configuration is a `Step`
and keeps `Consistent ∧ Legal`. -/
theorem ising_clusterUpdate_is_step (s : Sampler.IsingSampler) (hv : s.spec.Valid) (prob : Rat) (c : Config) (rs : RS)
    (hn : c.state.length = s.spec.nvars) (hc : Consistent c) (hl : Legal s.spec.ham c) :
    let a := (clusterUpdate prob (fun o => s.frozenBond o.bond) c rs).1
    SpinFlipStep c a ∧ Step s.spec.ham c a ∧ Consistent a ∧ Legal s.spec.ham a :=
  clusterUpdate_is_step s.spec.ham s.spec.nvars (s.spec.hamWF hv) prob _ (ising_bondSym s) c rs hn hc hl

/-! ## §2 whole time steps with the exact kernels -/

open Sampler in
/-- **`isingTimestep_pres`** — one whole `QmcIsingGraph::timestep` of the executable model `isingTimestep`
(= `isingTimestepWith clusterK`: Metropolis / heat-bath sweep ; EXACT cluster update ; free-spin refresh ; cutoff rule —
the function `drv_step` replays against the real code) keeps the sampler invariant (world lines periodic, every stored
operator legal, container under the cutoff, parameters and table untouched) and re-establishes `n < cutoff'`, the
headroom `n + n/2 + 1 ≤ cutoff'`, cutoff monotone: for EVERY β and EVERY script. No hypothesis on the cluster kernel
is left. -/
theorem isingTimestep_pres (s : IsingSampler) (β : Rat) (rs : RS) (h : IsingInv s) :
    let r := isingTimestep s β rs
    IsingInv r.1 ∧ r.1.n < r.1.cutoff ∧ r.1.n + r.1.n / 2 + 1 ≤ r.1.cutoff ∧ s.cutoff ≤ r.1.cutoff :=
  isingTimestepWith_pres clusterK s β rs h (ising_clusterCert s (1 / 2))

open Sampler in
/-- after every step of any run -/
theorem isingTrace_inv (βs : List Rat) (s : IsingSampler) (rs : RS) (h : IsingInv s) :
    ∀ t ∈ isingTraceWith clusterK βs s rs,
      IsingInv t ∧ t.n < t.cutoff ∧ t.n + t.n / 2 + 1 ≤ t.cutoff ∧ s.cutoff ≤ t.cutoff :=
  isingTraceWith_inv clusterK βs s rs h (ising_clusterCert s (1 / 2))

open Sampler in
/-- **`isingRun_inv`** — the sampler at the end of any run `isingRun` (one β per step, one RNG threaded through) -/
theorem isingRun_inv (βs : List Rat) (s : IsingSampler) (rs : RS) (h : IsingInv s) :
    IsingInv (isingRun βs s rs).1 ∧ s.cutoff ≤ (isingRun βs s rs).1.cutoff ∧
    (βs ≠ [] → (isingRun βs s rs).1.n < (isingRun βs s rs).1.cutoff ∧
      (isingRun βs s rs).1.n + (isingRun βs s rs).1.n / 2 + 1 ≤ (isingRun βs s rs).1.cutoff) :=
  isingRunWith_inv clusterK βs s rs h (ising_clusterCert s (1 / 2))

open Sampler in
/-- **`genericTimestep_pres`** — one whole `Qmc::timestep` of the executable model `genericTimestep`
(`diagonal_update` ; [EXACT loop update, the copy `StepLoop.loopUpdate` = C04's `loopUpdate`] ; [EXACT cluster update] ;
`flip_free_bits`) keeps the invariant and the headroom for every β and script, provided every bond is invariant under
the global flip (`hsym`: what the gate `!breaks_ising_symmetry` stands for) and the loop walk of this step closed. -/
theorem genericTimestep_pres (s : GenericSampler) (n : Nat) (β : Rat) (rs : RS) (h : GenericInv s n)
    (hsym : ∀ b, b < s.bonds.length → s.ham.FlipSym b)
    (hclosed : s.doLoop = true → Closed (genericLoopStage loopK s β rs).2) :
    let r := genericTimestep s β rs
    GenericInv r.1 n ∧ r.1.n < r.1.cutoff ∧ r.1.n + r.1.n / 2 + 1 ≤ r.1.cutoff ∧ s.cutoff ≤ r.1.cutoff ∧
    r.1.bonds = s.bonds ∧ r.1.doLoop = s.doLoop :=
  genericTimestepWith_pres loopK clusterK s n β rs h (loopK_stepOK s.ham n)
    (generic_clusterCert s.bonds (1 / 2) hsym) hclosed

open Sampler in
/-- after every step of any run of the generic sampler whose loop walks closed -/
theorem genericTrace_inv (n : Nat) (βs : List Rat) (s : GenericSampler) (rs : RS) (h : GenericInv s n)
    (hsym : ∀ b, b < s.bonds.length → s.ham.FlipSym b)
    (hcl : GenericLoopsClosed loopK clusterK βs s rs) :
    ∀ t ∈ genericTraceWith loopK clusterK βs s rs,
      GenericInv t n ∧ t.n < t.cutoff ∧ t.n + t.n / 2 + 1 ≤ t.cutoff ∧ s.cutoff ≤ t.cutoff :=
  genericRunWith_inv loopK clusterK n βs s rs h (loopK_stepOK s.ham n)
    (generic_clusterCert s.bonds (1 / 2) hsym) hcl

/-! ## §3 the invariance theorem for the Hamiltonian the whole-step model runs -/

open Kernel Dist in
/-- **`isingSpec_timestep_invariant`** — `Kernel.ising_timestep_invariant` restated for exactly the objects of the
executable whole-step model `Sampler.isingTimestep`: the Hamiltonian `s.spec.ham` (`IsingSpec.ham`, bond count of the
code: no longitudinal bonds when `h = 0`) and the freezing rule `s.frozenBond` that `isingTimestepWith` hands to the
cluster update. For every valid graph, couplings of any sign, Γ ≥ 0, any h, β > 0, any number of slots `L`: one
`timestep` (Metropolis sweep ; each flippable component of the model's own decomposition with probability ½ ;
refresh) leaves the SSE weight invariant on the whole configuration space. -/
theorem isingSpec_timestep_invariant (s : Sampler.IsingSampler) (hv : s.spec.Valid) (hg : 0 ≤ s.spec.gamma)
    (β : Rat) (hβ : 0 < β) (L : Nat) :
    Invariant (sseOn s.spec.ham β (cfgSpace s.spec.ham s.spec.nvars L))
      (timestepK s.spec.ham β
        (ClusterFamily.ofComponents (fun o => s.frozenBond o.bond) s.spec.ham s.spec.nvars L (s.spec.hamWF hv))
        L s.spec.nvars) :=
  timestep_invariant_components _ β hβ (fun b i => Refine.ising_w_nonneg s.spec hg b i i) _ _ L _
    (clusterSym_cfgSpace _ _ _ L (ising_bondSym s).sym (ising_bondSym s).const)

open Kernel Dist in
/-- the heat-bath variant (table `makeBondWeights`, the one `set_enable_heatbath` builds), when the table total is
positive -/
theorem isingSpec_timestep_invariant_hb (s : Sampler.IsingSampler) (hv : s.spec.Valid) (hg : 0 ≤ s.spec.gamma)
    (β : Rat) (hβ : 0 < β) (L : Nat) (hW : 0 < (makeBondWeights s.spec.ham).sum) :
    Invariant (sseOn s.spec.ham β (cfgSpace s.spec.ham s.spec.nvars L))
      (timestepKHB s.spec.ham (makeBondWeights s.spec.ham) β
        (ClusterFamily.ofComponents (fun o => s.frozenBond o.bond) s.spec.ham s.spec.nvars L (s.spec.hamWF hv))
        L s.spec.nvars) :=
  timestep_invariant_components_hb _ β hβ (fun b i => Refine.ising_w_nonneg s.spec hg b i i) hW _ _ L _
    (clusterSym_cfgSpace _ _ _ L (ising_bondSym s).sym (ising_bondSym s).const)

/-! ## non-vacuity: every composed theorem instantiated on the examples of the two halves -/
namespace Example
open Sampler Refine

/-- §1 on the 3-variable Ising configuration `exB` of C09 / Refinement (`spec3`: edge (0,1), J = 1, Γ = 1/2, h = 1/4;
the hypotheses `exB_consistent`, `exB_legal`, `spec3_valid` are proved there), every probability and script -/
example (hb : Bool) (p : Rat) (ws : List Nat) :
    let a := (clusterUpdate p (fun o => (exIsing hb).frozenBond o.bond) exB (RS.ofScript ws)).1
    SpinFlipStep exB a ∧ Step spec3.ham exB a ∧ Consistent a ∧ Legal spec3.ham a :=
  ising_clusterUpdate_is_step (exIsing hb) spec3_valid p exB _ rfl exB_consistent exB_legal

/-- §2, Ising: every run of the executable whole-step model from `exIsing hb` (heat bath on or off): any βs, any
script -/
example (hb : Bool) (βs : List Rat) (ws : List Nat) :
    ∀ t ∈ isingTraceWith clusterK βs (exIsing hb) (RS.ofScript ws),
      IsingInv t ∧ t.n < t.cutoff ∧ t.n + t.n / 2 + 1 ≤ t.cutoff ∧ 5 ≤ t.cutoff :=
  isingTrace_inv βs _ _ (exIsing_inv hb)

example (hb : Bool) (β : Rat) (ws : List Nat) : IsingInv (isingTimestep (exIsing hb) β (RS.ofScript ws)).1 :=
  (isingTimestep_pres (exIsing hb) β _ (exIsing_inv hb)).1

/-- both bonds of `exGeneric` (constant single-site term; diagonal two-site term `diag(1,0,0,1)`) are invariant under
the global flip -/
theorem exGeneric_flipSym : ∀ b, b < exGeneric.bonds.length → exGeneric.ham.FlipSym b := by
  intro b hb i o
  have hb2 : b < 2 := hb
  have hlen : ∀ l : List Bool, (flipBits l).length = l.length := fun l => by simp [flipBits]
  match b, hb2 with
  | 0, _ =>
    simp [GenericSampler.ham, genericHam, exGeneric, GenericSampler.addInteraction, GenericSampler.new, GBond.w, hlen,
      GBond.isConstant, GBond.allEq]
  | 1, _ =>
    simp only [GenericSampler.ham, genericHam, exGeneric, GenericSampler.addInteraction, GenericSampler.new, GBond.w,
      hlen, List.nil_append, List.cons_append]
    rcases i with _ | ⟨a, _ | ⟨b, _ | ⟨c, i⟩⟩⟩ <;> rcases o with _ | ⟨d, _ | ⟨e, _ | ⟨f, o⟩⟩⟩ <;>
      simp [flipBits]
    cases a <;> cases b <;> cases d <;> cases e <;> simp [bitIndex]

/-- §2, generic: every run of the executable whole-step model from `exGeneric` (loop AND cluster update active in every
step) on which the loop walks closed -/
example (βs : List Rat) (ws : List Nat) (hcl : GenericLoopsClosed loopK clusterK βs exGeneric (RS.ofScript ws)) :
    ∀ t ∈ genericTraceWith loopK clusterK βs exGeneric (RS.ofScript ws),
      GenericInv t 2 ∧ t.n < t.cutoff ∧ t.n + t.n / 2 + 1 ≤ t.cutoff ∧ 2 ≤ t.cutoff :=
  genericTrace_inv 2 βs _ _ exGeneric_inv exGeneric_flipSym hcl

/-- §3 on `spec3` (h ≠ 0: three frozen longitudinal bonds), β = 3/2, any `L` -/
example (hb : Bool) (L : Nat) :
    Dist.Invariant (Kernel.sseOn spec3.ham (3 / 2) (Kernel.cfgSpace spec3.ham 3 L))
      (Kernel.timestepK spec3.ham (3 / 2)
        (Kernel.ClusterFamily.ofComponents (fun o => (exIsing hb).frozenBond o.bond) spec3.ham 3 L
          (spec3.hamWF spec3_valid)) L 3) :=
  isingSpec_timestep_invariant (exIsing hb) spec3_valid (by norm_num [exIsing, IsingSampler.setEnableHeatbath, spec3])
    (3 / 2) (by norm_num) L

end Example

end Qmc.Composed
