/-
Assembly for C01/C04: the configuration-level SSE weight of the sampler's own objects
(`configSum` over consistent operator lists, QmcProofs/PathSum.lean) summed over operator
counts, placements and bond words equals the Taylor polynomial of `e^{βM}`, `M = Σ_b M_b`
(QmcProofs/SSE.lean), entry by entry.
-/
import QmcProofs.SSE
import QmcProofs.PathSum

open BigOperators Finset

namespace Qmc.SSEConfig
open Qmc Qmc.IsingSSE Qmc.PathSum Qmc.SSE

/-- basis states: bit patterns of length `N` -/
abbrev St (N : Nat) := ↥(patterns N).toFinset

/-- bond matrix, row = state before, column = state after: `B_b s s' = ⟨s'|M_b|s⟩` -/
def bondMatrix (H : Ham) (N : Nat) (b : Nat) : Matrix (St N) (St N) ℚ :=
  fun s s' => opEntry H b s.1 s'.1

theorem pathSum_eq_prod (H : Ham) (N : Nat) (bs : List Nat) (s t : St N) :
    pathSum H N bs s.1 t.1 = ((bs.map (bondMatrix H N)).prod) s t := by
  induction bs generalizing s with
  | nil =>
    simp only [pathSum, List.map_nil, List.prod_nil, Matrix.one_apply]
    by_cases h : s = t
    · simp [h]
    · have : s.1 ≠ t.1 := fun e => h (Subtype.ext e)
      simp [h, this]
  | cons b bs ih =>
    simp only [pathSum, List.map_cons, List.prod_cons, Matrix.mul_apply]
    rw [← List.sum_toFinset _ (nodup_patterns N)]
    rw [← Finset.sum_coe_sort (patterns N).toFinset
      (fun s' => opEntry H b s.1 s' * pathSum H N bs s' t.1)]
    refine Finset.sum_congr rfl (fun x _ => ?_)
    rw [ih x]; rfl

/-- **SSE representation on the sampler's own configuration space.** For a Hamiltonian with `nb`
bonds whose variable lists are duplicate-free and `< N`, and a basis state `α`: the total weight
`βⁿ (L−n)!/L! · Π (matrix elements)` of all consistent configurations with `p = 0` state `α`
— summed over the number `n ≤ L` of operators, their placement among the `L` slots, their bond
word and their recorded outputs — is `⟨α| Σ_{n≤L} (βM)ⁿ/n! |α⟩`, `M = Σ_b M_b`. -/
theorem config_weight_marginal (H : Ham) (N nb : Nat) (β : ℚ) (L : Nat) (α : St N)
    (hnd : ∀ b < nb, (H.vars b).Nodup) (hr : ∀ b < nb, ∀ v ∈ H.vars b, v < N) :
    ∑ n ∈ range (L + 1), ∑ _pos ∈ powersetCard n (range L), ∑ p : Fin n → Fin nb,
        β ^ n * ((L - n).factorial / L.factorial)
          * configSum H (List.ofFn fun i => (p i).val) α.1 α.1
      = ∑ n ∈ range (L + 1), β ^ n / n.factorial
          * ((∑ b : Fin nb, bondMatrix H N b.val) ^ n) α α := by
  rw [← state_marginal β L (fun b : Fin nb => bondMatrix H N b.val) α]
  refine Finset.sum_congr rfl (fun n _ => Finset.sum_congr rfl (fun _ _ =>
    Finset.sum_congr rfl (fun p _ => ?_)))
  have hα : α.1.length = N := by
    have h := α.2
    rw [List.mem_toFinset] at h
    exact mem_patterns.mp h
  rw [configSum_eq_pathSum H N _ α.1 α.1 hα
    (fun b hb => by
      obtain ⟨i, rfl⟩ := (List.mem_ofFn' _ _).mp hb
      exact hnd _ (p i).isLt)
    (fun b hb => by
      obtain ⟨i, rfl⟩ := (List.mem_ofFn' _ _).mp hb
      exact hr _ (p i).isLt)]
  rw [pathSum_eq_prod, List.map_ofFn]
  rfl

end Qmc.SSEConfig
