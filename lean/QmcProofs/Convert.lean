/-
Helper lemmas for C15: closed form of `into_qmc` (QmcModel/Convert.lean) built on the closed
forms of the constructors from C16 (`new_eq`, `newDiagonal_eq`, `flipPairsOk_eq`).
-/
import QmcModel.Convert
import QmcProofs.Interaction
import Mathlib.Tactic.Linarith
import Mathlib.Tactic.NormNum
import Mathlib.Tactic.SplitIfs
import Mathlib.Tactic.Ring
import Mathlib.Algebra.Order.Field.Rat

namespace Qmc

/-! ### `absR` -/

theorem absR_nonneg (x : Rat) : 0 ≤ absR x := by
  unfold absR; split_ifs <;> linarith

theorem absR_ge (x : Rat) : x ≤ absR x := by
  unfold absR; split_ifs <;> linarith

theorem absR_ge_neg (x : Rat) : -x ≤ absR x := by
  unfold absR; split_ifs <;> linarith

theorem absR_neg (x : Rat) : absR (-x) = absR x := by
  unfold absR; split_ifs <;> linarith

theorem absR_sub_comm (x y : Rat) : absR (x - y) = absR (y - x) := by
  rw [← absR_neg]; congr 1; ring

/-! ### the three matrices after the offset subtraction -/

/-- the edge table after subtracting its minimum `-|j|` -/
def edgeMatShifted (j : Rat) : List Rat := [absR j - j, absR j + j, absR j + j, absR j - j]

/-- the field matrix after subtracting the diagonal minimum `-|h|` from the diagonal -/
def fieldMatShifted (h : Rat) : List Rat := [absR h - h, 0, 0, absR h + h]

theorem minFold_pair_neg (j : Rat) : minFold [-j, j] = some (-(absR j)) := by
  unfold minFold
  simp only [List.foldl_cons, List.foldl_nil]
  rcases lt_trichotomy j 0 with h | h | h
  · have a : ¬ (-j < j) := by linarith
    simp [absR, h, a]
  · subst h; simp [absR]
  · have a : -j < j := by linarith
    have b : ¬ (j < 0) := by linarith
    simp [absR, a, b]

theorem minFold_edgeMat (j : Rat) : minFold (edgeMat j) = some (-(absR j)) := by
  unfold minFold edgeMat
  simp only [List.foldl_cons, List.foldl_nil]
  rcases lt_trichotomy j 0 with h | h | h
  · have a : ¬ (-j < j) := by linarith
    have b : j < -j := by linarith
    simp [absR, h, a, b]
  · subst h; simp [absR]
  · have a : -j < j := by linarith
    have b : ¬ (j < 0) := by linarith
    simp [absR, a, b]

theorem edgeMat_shift (j : Rat) : (edgeMat j).map (· - -(absR j)) = edgeMatShifted j := by
  simp only [edgeMat, edgeMatShifted, List.map_cons, List.map_nil]
  congr 1 <;> [ring; (congr 1 <;> [ring; (congr 1 <;> [ring; (congr 1; ring)])])]

theorem edgeMatShifted_nonneg (j : Rat) : ∀ x ∈ edgeMatShifted j, 0 ≤ x := by
  intro x hx
  have h1 := absR_ge j
  have h2 := absR_ge_neg j
  simp only [edgeMatShifted, List.mem_cons, List.not_mem_nil, or_false] at hx
  rcases hx with h | h | h | h <;> rw [h] <;> linarith

theorem fieldMatShifted_nonneg (h : Rat) : ∀ x ∈ fieldMatShifted h, 0 ≤ x := by
  intro x hx
  have h1 := absR_ge h
  have h2 := absR_ge_neg h
  simp only [fieldMatShifted, List.mem_cons, List.not_mem_nil, or_false] at hx
  rcases hx with h | h | h | h <;> rw [h] <;> linarith

/-! ### the interactions `into_qmc` creates -/

/-- interaction of an edge `(vars, j)` -/
def edgeI (vars : List Nat) (j : Rat) : Interaction := newDiagonalResult (edgeMatShifted j) vars
/-- transverse interaction on variable `v` -/
def transI (v : Nat) (g : Rat) : Interaction := newResult (transverseMat g) [v]
/-- field interaction on variable `v` -/
def fieldI (v : Nat) (h : Rat) : Interaction := newResult (fieldMatShifted h) [v]

theorem newDiagonalOffset_edge (vars : List Nat) (j : Rat) (hv : vars.length = 2) (hnd : vars.Nodup) :
    Interaction.newDiagonalOffset (edgeMat j) vars = .ok (edgeI vars j, -(absR j)) := by
  unfold Interaction.newDiagonalOffset
  simp only [minFold_edgeMat, Option.getD_some, edgeMat_shift]
  rw [newDiagonal_eq, if_pos]
  · rfl
  · refine ⟨edgeMatShifted_nonneg j, ⟨?_, hnd⟩, ?_⟩
    · intro h; rw [h] at hv; simp at hv
    · rw [hv]; rfl

theorem transverseMat_allEq (g : Rat) : AllEq (transverseMat g) := by
  intro x hx y hy
  simp only [transverseMat, List.mem_cons, List.not_mem_nil, or_false, or_self] at hx hy
  rw [hx, hy]

theorem new_transverse (v : Nat) (g : Rat) (hg : 0 ≤ g) :
    Interaction.new (transverseMat g) [v] = .ok (transI v g) := by
  rw [new_eq, if_pos]
  · rfl
  · refine ⟨?_, by simp, rfl⟩
    intro x hx
    simp only [transverseMat, List.mem_cons, List.not_mem_nil, or_false, or_self] at hx
    rw [hx]; exact hg

theorem new_transverse_neg (v : Nat) (g : Rat) (hg : g < 0) :
    Interaction.new (transverseMat g) [v] = .err := by
  rw [new_eq, if_neg]
  intro h
  have := h.1 g (by simp [transverseMat])
  linarith

theorem newOffset_field (v : Nat) (h : Rat) :
    Interaction.newOffset (fieldMat h) [v] = .ok (fieldI v h, -(absR h)) := by
  unfold Interaction.newOffset
  have hsz : getMatVarSize (fieldMat h).length = some 1 := by
    rw [getMatVarSize_iff]; rfl
  simp only [hsz]
  have hidx : (List.range (2 ^ 1)).map (fun i => (1 + 2 ^ 1) * i) = [0, 3] := by decide
  rw [hidx]
  have hmap : mapP [0, 3] (getP (fieldMat h)) = .ok [-h, h] := by
    simp [mapP, getP, fieldMat, Res.map, Res.bind]
  simp only [hmap, minFold_pair_neg, Option.getD_some]
  have hsub : Interaction.subAt (fieldMat h) (-(absR h)) [0, 3] = .ok (fieldMatShifted h) := by
    simp only [Interaction.subAt, fieldMat, fieldMatShifted]
    simp
    constructor <;> ring
  simp only [hsub]
  rw [new_eq, if_pos]
  · rfl
  · exact ⟨fieldMatShifted_nonneg h, by simp, rfl⟩

/-! ### classification of the three interactions -/

theorem edgeI_sym (vars : List Nat) (j : Rat) (hv : vars.length = 2) :
    (edgeI vars j).symUnderIsing = .ok true := by
  unfold Interaction.symUnderIsing edgeI newDiagonalResult
  simp only [hv]
  split_ifs
  · rfl
  · rw [flipPairsOk_eq _ _ _ (by simp [edgeMatShifted]) (by simp [edgeMatShifted])]
    congr 1
    apply decide_eq_true
    intro idx hidx
    have : idx = 0 ∨ idx = 1 ∨ idx = 2 ∨ idx = 3 := by omega
    rcases this with h | h | h | h <;> subst h <;> simp [edgeMatShifted, absR_zero, eps_pos]

theorem edgeI_not_constant (vars : List Nat) (j : Rat) : (edgeI vars j).isConstant = false := by
  simp [edgeI, newDiagonalResult, Interaction.isConstant]

theorem transI_constant (v : Nat) (g : Rat) : (transI v g).isConstant = true := by
  simp [transI, newResult, Interaction.isConstant, chainConst_of_allEq _ (transverseMat_allEq g)]

theorem transI_sym (v : Nat) (g : Rat) : (transI v g).symUnderIsing = .ok true := by
  unfold Interaction.symUnderIsing transI newResult
  simp [chainConst_of_allEq _ (transverseMat_allEq g)]

theorem transI_constDiag (v : Nat) (g : Rat) : (transI v g).isConstantDiag = true := by
  simp only [transI, newResult, Interaction.isConstantDiag]
  apply chainConst_of_allEq
  intro x hx y hy
  simp [diagOf, transverseMat, List.range_succ] at hx hy
  rw [hx, hy]

/-- one of the two diagonal entries of the shifted field matrix is `2|h|` -/
theorem fieldMat_gap (h : Rat) : absR ((absR h - h) - (absR h + h)) = 2 * absR h := by
  have : (absR h - h) - (absR h + h) = -(2 * h) := by ring
  rw [this, absR_neg]
  unfold absR
  split_ifs <;> linarith

theorem fieldI_not_constant (v : Nat) (h : Rat) (hh : eps < absR h) :
    (fieldI v h).isConstant = false := by
  have hpos := eps_pos
  simp only [fieldI, newResult, Interaction.isConstant, fieldMatShifted]
  have : chainConst [absR h - h, 0, 0, absR h + h] = false := by
    simp only [chainConst, Bool.and_eq_false_iff, decide_eq_false_iff_not, not_lt]
    -- either the first or the last entry is 2|h| ≥ eps away from 0
    by_cases hs : h < 0
    · left
      have : absR h = -h := by simp [absR, hs]
      rw [this] at hh ⊢
      have : absR (-h - h - 0) = -h - h := by
        unfold absR; split_ifs <;> linarith
      rw [this]; linarith
    · right; right; left
      have : absR h = h := by simp [absR, hs]
      rw [this] at hh ⊢
      have : absR (0 - (h + h)) = h + h := by
        unfold absR; split_ifs <;> linarith
      rw [this]; linarith
  simp [this]

theorem fieldI_not_sym (v : Nat) (h : Rat) (hh : eps < absR h) :
    (fieldI v h).symUnderIsing = .ok false := by
  unfold Interaction.symUnderIsing
  have hc : (fieldI v h).itype = .full false := by
    have := fieldI_not_constant v h hh
    simp only [Interaction.isConstant] at this
    cases hi : (fieldI v h).itype with
    | diagonal => simp [fieldI, newResult] at hi
    | full c =>
      cases c with
      | true => rw [hi] at this; simp at this
      | false => rfl
  rw [hc]
  simp only [fieldI, newResult, List.length_singleton]
  rw [flipPairsOk_eq _ _ _ (by simp [fieldMatShifted]) (by simp [fieldMatShifted])]
  congr 1
  apply decide_eq_false
  intro hall
  have := hall 0 (by norm_num)
  simp only [fieldMatShifted] at this
  norm_num at this
  rw [fieldMat_gap] at this
  have := eps_pos
  linarith

/-! ### folding `add_interaction` -/

namespace GenericSampler

/-- `add_interaction` when `sym_under_ising` answers `sym`, followed by `offset -= off` -/
def added (q : GenericSampler) (x : Interaction × Bool × Rat) : GenericSampler :=
  { q with
    hasClusterEdges := q.hasClusterEdges || isValidClusterEdge x.1.isConstant x.1.vars.length
    breaksIsingSymmetry := q.breaksIsingSymmetry || !x.2.1
    nonConstDiags := if x.1.isConstantDiag then q.nonConstDiags else q.nonConstDiags ++ [q.bonds.length]
    bonds := q.bonds ++ [x.1]
    offset := q.offset - x.2.2 }

def addList (q : GenericSampler) (l : List (Interaction × Bool × Rat)) : GenericSampler :=
  l.foldl added q

theorem addInteraction_eq (q : GenericSampler) (i : Interaction) (sym : Bool)
    (h : i.symUnderIsing = .ok sym) (off : Rat) :
    (q.addInteraction i).map (fun q' => { q' with offset := q'.offset - off })
      = .ok (q.added (i, sym, off)) := by
  unfold addInteraction; rw [h]; rfl

theorem addList_spec (l : List (Interaction × Bool × Rat)) (q : GenericSampler) :
    (q.addList l).bonds = q.bonds ++ l.map (·.1) ∧
    (q.addList l).offset = q.offset - (l.map (·.2.2)).sum ∧
    (q.addList l).hasClusterEdges
      = (q.hasClusterEdges || l.any (fun x => isValidClusterEdge x.1.isConstant x.1.vars.length)) ∧
    (q.addList l).breaksIsingSymmetry = (q.breaksIsingSymmetry || l.any (fun x => !x.2.1)) ∧
    (q.addList l).cutoff = q.cutoff ∧ (q.addList l).state = q.state ∧ (q.addList l).slots = q.slots ∧
    (q.addList l).doLoopUpdates = q.doLoopUpdates ∧ (q.addList l).doHeatbath = q.doHeatbath := by
  induction l generalizing q with
  | nil => simp [addList]
  | cons x t ih =>
    have := ih (q.added x)
    simp only [addList, List.foldl_cons] at this ⊢
    obtain ⟨h1, h2, h3, h4, h5, h6, h7, h8, h9⟩ := this
    refine ⟨?_, ?_, ?_, ?_, ?_, ?_, ?_, ?_, ?_⟩
    · rw [h1]; simp [added]
    · rw [h2]; simp [added]; ring
    · rw [h3]; simp [added, Bool.or_assoc]
    · rw [h4]; simp [added, Bool.or_assoc]
    · rw [h5]; rfl
    · rw [h6]; rfl
    · rw [h7]; rfl
    · rw [h8]; rfl
    · rw [h9]; rfl

end GenericSampler

open GenericSampler

theorem addEdges_eq (es : List (List Nat × Rat)) (hes : ∀ e ∈ es, e.1.length = 2)
    (hnds : ∀ e ∈ es, e.1.Nodup)
    (q : GenericSampler) :
    addEdges es q = .ok (q.addList (es.map fun e => (edgeI e.1 e.2, true, -(absR e.2)))) := by
  induction es generalizing q with
  | nil => rfl
  | cons e t ih =>
    obtain ⟨vars, j⟩ := e
    have hv : vars.length = 2 := hes (vars, j) (by simp)
    have hnd : vars.Nodup := hnds (vars, j) (by simp)
    have ht := ih (fun e he => hes e (by simp [he])) (fun e he => hnds e (by simp [he]))
    unfold addEdges
    have : q.makeDiagonalInteractionAndOffset (edgeMat j) vars
        = .ok (q.added (edgeI vars j, true, -(absR j))) := by
      unfold makeDiagonalInteractionAndOffset
      rw [newDiagonalOffset_edge vars j hv hnd]
      exact addInteraction_eq q _ true (edgeI_sym vars j hv) _
    rw [this]
    simp only [Res.unwrap, Res.bind, List.map_cons, addList, List.foldl_cons]
    exact ht _

theorem addTransverse_eq (g : Rat) (hg : 0 ≤ g) (vs : List Nat) (q : GenericSampler) :
    addTransverse g vs q = .ok (q.addList (vs.map fun v => (transI v g, true, 0))) := by
  induction vs generalizing q with
  | nil => rfl
  | cons v t ih =>
    unfold addTransverse
    have : q.makeInteraction (transverseMat g) [v] = .ok (q.added (transI v g, true, 0)) := by
      unfold makeInteraction
      rw [new_transverse v g hg]
      have := addInteraction_eq q _ true (transI_sym v g) 0
      simp only [Res.bind]
      unfold addInteraction at this ⊢
      rw [transI_sym] at this ⊢
      simp only [Res.map, Res.bind] at this
      simp only [added, sub_zero] at this ⊢
    rw [this]
    simp only [Res.unwrap, Res.bind, List.map_cons, addList, List.foldl_cons]
    exact ih _

theorem addTransverse_neg (g : Rat) (hg : g < 0) (v : Nat) (vs : List Nat) (q : GenericSampler) :
    addTransverse g (v :: vs) q = .panic := by
  unfold addTransverse makeInteraction
  rw [new_transverse_neg v g hg]; rfl

theorem addField_eq (h : Rat) (hh : eps < absR h) (vs : List Nat) (q : GenericSampler) :
    addField h vs q = .ok (q.addList (vs.map fun v => (fieldI v h, false, -(absR h)))) := by
  induction vs generalizing q with
  | nil => rfl
  | cons v t ih =>
    unfold addField
    have : q.makeInteractionAndOffset (fieldMat h) [v]
        = .ok (q.added (fieldI v h, false, -(absR h))) := by
      unfold makeInteractionAndOffset
      rw [newOffset_field v h]
      exact addInteraction_eq q _ false (fieldI_not_sym v h hh) _
    rw [this]
    simp only [Res.unwrap, Res.bind, List.map_cons, addList, List.foldl_cons]
    exact ih _

end Qmc

/-! ### closed form of `into_qmc` -/

namespace Qmc
open GenericSampler

/-- what the library guarantees about an Ising sampler it constructed (`new_with_rng…` builds
`vec![a, b]` for every edge) plus the constructor-domain requirement `Γ ≥ 0` of `make_interaction`
(for `Γ < 0` the Ising sampler itself cannot take a step: `gen_bool` of a negative ratio) -/
structure IsingSampler.WF (g : IsingSampler) : Prop where
  edges2 : ∀ e ∈ g.model.edges, e.1.length = 2
  /-- distinct endpoints: since fix F26 the interaction constructors reject a variable list naming a variable
  twice, so `into_qmc` of a graph with a self-loop edge `(a, a)` panics on its `unwrap()` (the Ising sampler
  itself panics on the first operator it inserts on such an edge) -/
  edgesNodup : ∀ e ∈ g.model.edges, e.1.Nodup
  gammaNonneg : 0 ≤ g.model.transverse

def edgeEntries (m : IsingModel) : List (Interaction × Bool × Rat) :=
  m.edges.map fun e => (edgeI e.1 e.2, true, -(absR e.2))
def transEntries (m : IsingModel) : List (Interaction × Bool × Rat) :=
  (List.range m.nvars).map fun v => (transI v m.transverse, true, 0)
def fieldEntries (m : IsingModel) : List (Interaction × Bool × Rat) :=
  if m.hasField then
    (List.range m.nvars).map fun v => (fieldI v m.longitudinal, false, -(absR m.longitudinal))
  else []

/-- (interaction, its `sym_under_ising`, its recorded offset) in creation order -/
def convertList (m : IsingModel) : List (Interaction × Bool × Rat) :=
  edgeEntries m ++ transEntries m ++ fieldEntries m

def convertBonds (m : IsingModel) : List Interaction := (convertList m).map (·.1)

/-- the sampler `into_qmc` returns -/
def convertResult (g : IsingSampler) : GenericSampler :=
  ((((newWithState g.model.nvars g.state false).addList (convertList g.model)).setManager g.slots).setCutoff
    g.cutoff)

theorem addList_append (q : GenericSampler) (a b : List (Interaction × Bool × Rat)) :
    q.addList (a ++ b) = (q.addList a).addList b := by
  simp [addList, List.foldl_append]

theorem hasField_iff (m : IsingModel) : m.hasField = true ↔ eps < absR m.longitudinal := by
  simp [IsingModel.hasField]

theorem intoQmc_eq (g : IsingSampler) (h : g.WF) : intoQmc g = .ok (convertResult g) := by
  unfold intoQmc
  simp only []
  rw [addEdges_eq _ h.edges2 h.edgesNodup]
  simp only [Res.bind]
  rw [addTransverse_eq _ h.gammaNonneg]
  set_option linter.unusedSimpArgs false in
  simp only [Res.bind]
  unfold convertResult convertList
  rw [addList_append, addList_append]
  by_cases hf : g.model.hasField = true
  · rw [if_pos hf, addField_eq _ ((hasField_iff _).mp hf)]
    simp only [edgeEntries, transEntries, fieldEntries, if_pos hf]
  · rw [if_neg hf]
    simp only [edgeEntries, transEntries, fieldEntries, if_neg hf, addList, List.foldl_nil]

/-- for `Γ < 0` (and at least one variable) the conversion panics (`unwrap` of
"Interaction contains negative weights") -/
theorem intoQmc_neg_gamma (g : IsingSampler) (he : ∀ e ∈ g.model.edges, e.1.length = 2)
    (hnd : ∀ e ∈ g.model.edges, e.1.Nodup)
    (hg : g.model.transverse < 0) (hn : 0 < g.model.nvars) : intoQmc g = .panic := by
  unfold intoQmc
  simp only []
  rw [addEdges_eq _ he hnd]
  simp only [Res.bind]
  obtain ⟨k, hk⟩ : ∃ k, g.model.nvars = k + 1 := ⟨g.model.nvars - 1, by omega⟩
  rw [hk, List.range_succ_eq_map, addTransverse_neg _ hg]

/-! ### element lookup of the three interactions -/

theorem edgeI_weight (vars : List Nat) (hv : vars.length = 2) (j : Rat) (ins outs : List Bool) :
    (edgeI vars j).weight ins outs =
      match ins, outs with
      | [i0, i1], [o0, o1] => twoSiteHamiltonian i0 i1 o0 o1 j
      | _, _ => 0 := by
  unfold Interaction.weight Interaction.atP edgeI newDiagonalResult
  simp only [hv]
  rcases ins with _ | ⟨i0, _ | ⟨i1, _ | ⟨i2, it⟩⟩⟩ <;> rcases outs with _ | ⟨o0, _ | ⟨o1, _ | ⟨o2, ot⟩⟩⟩ <;>
    simp
  -- the only shape with the right lengths
  cases i0 <;> cases i1 <;> cases o0 <;> cases o1 <;>
    simp [twoSiteHamiltonian, edgeMatShifted, Interaction.indexFromBits, getP] <;> ring

theorem transI_weight (v : Nat) (g : Rat) (ins outs : List Bool) :
    (transI v g).weight ins outs =
      match ins, outs with
      | [i], [o] => transverseHamiltonian i o g
      | _, _ => 0 := by
  unfold Interaction.weight Interaction.atP transI newResult
  simp only [chainConst_of_allEq _ (transverseMat_allEq g), List.length_singleton]
  rcases ins with _ | ⟨i0, _ | ⟨i1, it⟩⟩ <;> rcases outs with _ | ⟨o0, _ | ⟨o1, ot⟩⟩ <;>
    simp [transverseHamiltonian, transverseMat, getP]

theorem fieldI_weight (v : Nat) (h : Rat) (hh : eps < absR h) (ins outs : List Bool) :
    (fieldI v h).weight ins outs =
      match ins, outs with
      | [i], [o] => longitudinalHamiltonian i o h
      | _, _ => 0 := by
  have hc : (fieldI v h).itype = .full false := by
    have := fieldI_not_constant v h hh
    simp only [Interaction.isConstant] at this
    cases hi : (fieldI v h).itype with
    | diagonal => simp [fieldI, newResult] at hi
    | full c =>
      cases c with
      | true => rw [hi] at this; simp at this
      | false => rfl
  unfold Interaction.weight Interaction.atP
  rw [hc]
  simp only [fieldI, newResult, List.length_singleton]
  rcases ins with _ | ⟨i0, _ | ⟨i1, it⟩⟩ <;> rcases outs with _ | ⟨o0, _ | ⟨o1, ot⟩⟩ <;> simp
  cases i0 <;> cases o0 <;>
    simp [longitudinalHamiltonian, fieldMatShifted, Interaction.indexFromBits, getP]

end Qmc

/-! ### bond lookup and equality of the Hamiltonians -/

namespace Qmc
open GenericSampler

theorem convertBonds_eq (m : IsingModel) :
    convertBonds m = m.edges.map (fun e => edgeI e.1 e.2) ++
      (List.range m.nvars).map (fun v => transI v m.transverse) ++
      (if m.hasField then (List.range m.nvars).map (fun v => fieldI v m.longitudinal) else []) := by
  unfold convertBonds convertList edgeEntries transEntries fieldEntries
  split_ifs <;> simp [List.map_append, List.map_map, Function.comp_def]

theorem convertBonds_length (m : IsingModel) : (convertBonds m).length = m.numBonds := by
  rw [convertBonds_eq]; unfold IsingModel.numBonds
  split_ifs <;> simp
  omega

theorem convertBonds_get_edge (m : IsingModel) (b : Nat) (hb : b < m.edges.length) :
    (convertBonds m)[b]? = some (edgeI (m.edges[b]).1 (m.edges[b]).2) := by
  rw [convertBonds_eq, List.append_assoc, List.getElem?_append_left (by simpa using hb)]
  simp [hb]

theorem convertBonds_get_trans (m : IsingModel) (b : Nat) (h1 : m.edges.length ≤ b)
    (h2 : b < m.edges.length + m.nvars) :
    (convertBonds m)[b]? = some (transI (b - m.edges.length) m.transverse) := by
  rw [convertBonds_eq, List.append_assoc, List.getElem?_append_right (by simpa using h1)]
  rw [List.getElem?_append_left (by simp; omega)]
  rw [List.getElem?_map, List.getElem?_range (by simp; omega)]
  simp

theorem convertBonds_get_field (m : IsingModel) (b : Nat) (hf : m.hasField = true)
    (h1 : m.edges.length + m.nvars ≤ b) (h2 : b < m.edges.length + 2 * m.nvars) :
    (convertBonds m)[b]? = some (fieldI (b - m.edges.length - m.nvars) m.longitudinal) := by
  rw [convertBonds_eq, if_pos hf, List.getElem?_append_right (by simp; omega)]
  rw [List.getElem?_map, List.getElem?_range (by simp; omega)]
  simp only [List.length_append, List.length_map, List.length_range, Option.map_some]
  congr 2; omega

theorem convertBonds_get_none (m : IsingModel) (b : Nat) (h : m.numBonds ≤ b) :
    (convertBonds m)[b]? = none := by
  rw [List.getElem?_eq_none_iff, convertBonds_length]; exact h

theorem numBonds_cases (m : IsingModel) (b : Nat) :
    (b < m.edges.length) ∨ (m.edges.length ≤ b ∧ b < m.edges.length + m.nvars) ∨
    (m.hasField = true ∧ m.edges.length + m.nvars ≤ b ∧ b < m.edges.length + 2 * m.nvars ∧ b < m.numBonds) ∨
    (m.numBonds ≤ b ∧ m.edges.length + m.nvars ≤ b) := by
  unfold IsingModel.numBonds
  by_cases hf : m.hasField = true
  · simp only [hf, if_true, true_and]; omega
  · simp only [hf]; simp only [Bool.false_eq_true, if_false, false_and, false_or]; omega

/-- bond by bond, pattern by pattern, the converted sampler's weight is the Ising sampler's -/
theorem convert_w (m : IsingModel) (hm : ∀ e ∈ m.edges, e.1.length = 2) (b : Nat)
    (ins outs : List Bool) :
    (genericHam (convertBonds m)).w b ins outs = (isingHam m).w b ins outs := by
  simp only [genericHam, isingHam]
  rcases numBonds_cases m b with h | ⟨h1, h2⟩ | ⟨hf, h1, h2, h3⟩ | ⟨h, h'⟩
  · have hnb : b < m.numBonds := by unfold IsingModel.numBonds; omega
    rw [convertBonds_get_edge m b h, if_pos hnb]
    simp only [Option.map_some, Option.getD_some]
    rw [edgeI_weight _ (hm _ (List.getElem_mem h))]
    unfold IsingModel.hamiltonian
    rw [if_pos h, List.getElem?_eq_getElem h]
    rfl
  · have hnb : b < m.numBonds := by unfold IsingModel.numBonds; omega
    rw [convertBonds_get_trans m b h1 h2, if_pos hnb]
    simp only [Option.map_some, Option.getD_some]
    rw [transI_weight]
    unfold IsingModel.hamiltonian
    rw [if_neg (by omega), if_pos h2]
    rfl
  · rw [convertBonds_get_field m b hf h1 h2, if_pos h3]
    simp only [Option.map_some, Option.getD_some]
    rw [fieldI_weight _ _ ((hasField_iff m).mp hf)]
    unfold IsingModel.hamiltonian
    rw [if_neg (by omega), if_neg (by omega), if_pos h2]
    rfl
  · rw [convertBonds_get_none m b h, if_neg (by omega)]
    rfl

theorem convert_vars (m : IsingModel) (b : Nat) :
    (genericHam (convertBonds m)).vars b = (isingHam m).vars b := by
  simp only [genericHam, isingHam]
  rcases numBonds_cases m b with h | ⟨h1, h2⟩ | ⟨hf, h1, h2, h3⟩ | ⟨h, h'⟩
  · have hnb : b < m.numBonds := by unfold IsingModel.numBonds; omega
    rw [convertBonds_get_edge m b h, if_pos hnb]
    simp [IsingModel.bondVars, h, edgeI, newDiagonalResult]
  · have hnb : b < m.numBonds := by unfold IsingModel.numBonds; omega
    rw [convertBonds_get_trans m b h1 h2, if_pos hnb]
    simp only [IsingModel.bondVars, if_neg (show ¬ b < m.edges.length by omega), if_pos h2]
    simp [transI, newResult]
  · rw [convertBonds_get_field m b hf h1 h2, if_pos h3]
    simp only [IsingModel.bondVars, if_neg (show ¬ b < m.edges.length by omega),
      if_neg (show ¬ b < m.edges.length + m.nvars by omega)]
    simp [fieldI, newResult]; omega
  · rw [convertBonds_get_none m b h, if_neg (by omega)]
    rfl

theorem convert_const (m : IsingModel) (b : Nat) :
    (genericHam (convertBonds m)).const b = (isingHam m).const b := by
  simp only [genericHam, isingHam]
  rcases numBonds_cases m b with h | ⟨h1, h2⟩ | ⟨hf, h1, h2, h3⟩ | ⟨h, h'⟩
  · have hnb : b < m.numBonds := by unfold IsingModel.numBonds; omega
    rw [convertBonds_get_edge m b h, if_pos hnb]
    simp only [Option.map_some, Option.getD_some, edgeI_not_constant, IsingModel.bondConst]
    symm; rw [decide_eq_false_iff_not]; omega
  · have hnb : b < m.numBonds := by unfold IsingModel.numBonds; omega
    rw [convertBonds_get_trans m b h1 h2, if_pos hnb]
    simp only [Option.map_some, Option.getD_some, transI_constant, IsingModel.bondConst]
    symm; rw [decide_eq_true_iff]; omega
  · rw [convertBonds_get_field m b hf h1 h2, if_pos h3]
    simp only [Option.map_some, Option.getD_some, IsingModel.bondConst,
      fieldI_not_constant _ _ ((hasField_iff m).mp hf)]
    symm; rw [decide_eq_false_iff_not]; omega
  · rw [convertBonds_get_none m b h, if_neg (by omega)]
    rfl

/-- the two samplers hand *the same* Hamiltonian to the shared update routines -/
theorem convert_ham_eq (m : IsingModel) (hm : ∀ e ∈ m.edges, e.1.length = 2) :
    genericHam (convertBonds m) = isingHam m := by
  have h1 : (genericHam (convertBonds m)).nbonds = (isingHam m).nbonds := by
    simp [genericHam, isingHam, convertBonds_length]
  have h2 : (genericHam (convertBonds m)).vars = (isingHam m).vars := funext (convert_vars m)
  have h3 : (genericHam (convertBonds m)).const = (isingHam m).const := funext (convert_const m)
  have h4 : (genericHam (convertBonds m)).w = (isingHam m).w :=
    funext fun b => funext fun i => funext fun o => convert_w m hm b i o
  cases hg : genericHam (convertBonds m)
  cases hi : isingHam m
  rw [hg] at h1 h2 h3 h4; rw [hi] at h1 h2 h3 h4
  simp only at h1 h2 h3 h4
  rw [h1, h2, h3, h4]

end Qmc

/-! ### offset, flags, carried fields -/

namespace Qmc
open GenericSampler

theorem sum_map_const_range (n : Nat) (c : Rat) :
    ((List.range n).map (fun _ => c)).sum = (n : Rat) * c := by
  induction n with
  | zero => simp
  | succ k ih =>
    rw [List.range_succ, List.map_append, List.sum_append, ih]
    simp only [List.map_cons, List.map_nil, List.sum_cons, List.sum_nil]
    push_cast; ring

theorem sum_neg_abs (es : List (List Nat × Rat)) :
    (es.map (fun e => -(absR e.2))).sum = -(es.map (fun e => absR e.2)).sum := by
  induction es with
  | nil => simp
  | cons e t ih => simp only [List.map_cons, List.sum_cons, ih]; ring

theorem convertList_offsets (m : IsingModel) :
    ((convertList m).map (·.2.2)).sum =
      -((m.edges.map (fun e => absR e.2)).sum +
        (if m.hasField then (m.nvars : Rat) * absR m.longitudinal else 0)) := by
  unfold convertList edgeEntries transEntries fieldEntries
  simp only [List.map_append, List.sum_append, List.map_map, Function.comp_def]
  rw [sum_neg_abs, sum_map_const_range]
  split_ifs
  · simp only [List.map_map, Function.comp_def]
    rw [sum_map_const_range]; ring
  · simp

theorem any_range_true (n : Nat) : (List.range n).any (fun _ => true) = decide (0 < n) := by
  cases n with
  | zero => rfl
  | succ k => simp [List.range_succ]

theorem convertList_cluster (m : IsingModel) :
    (convertList m).any (fun x => isValidClusterEdge x.1.isConstant x.1.vars.length)
      = decide (0 < m.nvars) := by
  unfold convertList edgeEntries transEntries fieldEntries
  simp only [List.any_append, List.any_map, Function.comp_def]
  have h1 : (m.edges.any fun e => isValidClusterEdge (edgeI e.1 e.2).isConstant (edgeI e.1 e.2).vars.length)
      = false := by
    simp [edgeI_not_constant, isValidClusterEdge]
  have h2 : ((List.range m.nvars).any fun v =>
      isValidClusterEdge (transI v m.transverse).isConstant (transI v m.transverse).vars.length)
      = decide (0 < m.nvars) := by
    rw [← any_range_true]
    congr 1; funext v
    rw [transI_constant]
    simp [isValidClusterEdge, transI, newResult]
  rw [h1, h2]
  split_ifs with hf
  · have h3 : ((List.range m.nvars).any fun v =>
        isValidClusterEdge (fieldI v m.longitudinal).isConstant (fieldI v m.longitudinal).vars.length)
        = false := by
      simp [fieldI_not_constant _ _ ((hasField_iff m).mp hf), isValidClusterEdge]
    simp [List.any_map, Function.comp_def, h3]
  · simp

theorem convertList_breaks (m : IsingModel) :
    (convertList m).any (fun x => !x.2.1) = (m.hasField && decide (0 < m.nvars)) := by
  unfold convertList edgeEntries transEntries fieldEntries
  simp only [List.any_append, List.any_map, Function.comp_def]
  split_ifs with hf
  · simp only [List.any_map, Function.comp_def, Bool.not_true, Bool.not_false, hf, Bool.true_and]
    rw [any_range_true]; simp
  · simp [hf]

/-- every field of the converted sampler, in closed form -/
theorem convertResult_fields (g : IsingSampler) :
    (convertResult g).bonds = convertBonds g.model ∧
    (convertResult g).offset = (g.model.edges.map (fun e => absR e.2)).sum +
        (if g.model.hasField then (g.model.nvars : Rat) * absR g.model.longitudinal else 0) ∧
    (convertResult g).cutoff = g.cutoff ∧ (convertResult g).state = g.state ∧
    (convertResult g).slots = growSlots g.slots g.cutoff ∧
    (convertResult g).doLoopUpdates = false ∧ (convertResult g).doHeatbath = false ∧
    (convertResult g).hasClusterEdges = decide (0 < g.model.nvars) ∧
    (convertResult g).breaksIsingSymmetry = (g.model.hasField && decide (0 < g.model.nvars)) := by
  obtain ⟨h1, h2, h3, h4, h5, h6, h7, h8, h9⟩ :=
    addList_spec (convertList g.model) (newWithState g.model.nvars g.state false)
  refine ⟨?_, ?_, rfl, ?_, rfl, ?_, ?_, ?_, ?_⟩
  · show (addList _ _).bonds = _
    rw [h1]; simp [newWithState, convertBonds]
  · show (addList _ _).offset = _
    rw [h2, convertList_offsets]; simp [newWithState]
  · show (addList _ _).state = _
    rw [h6]; rfl
  · show (addList _ _).doLoopUpdates = _
    rw [h8]; rfl
  · show (addList _ _).doHeatbath = _
    rw [h9]; rfl
  · show (addList _ _).hasClusterEdges = _
    rw [h3, convertList_cluster]; simp [newWithState]
  · show (addList _ _).breaksIsingSymmetry = _
    rw [h4, convertList_breaks]; simp [newWithState]

/-! ### lock-step simulation -/

/-- what the composition argument needs from the shared routines: the sweep pads the container to
the cutoff before it starts (`mutate_subsection`'s resize), and the non-diagonal moves never
change the operator count. -/
structure Moves.Lawful (mv : Moves) : Prop where
  diag_pad : ∀ H c beta (w : World),
    mv.diag H c beta { w with slots := growSlots w.slots c } = mv.diag H c beta w
  count_cluster : ∀ w, mv.count (mv.clusterSym w).slots = mv.count w.slots
  count_free : ∀ w, mv.count (mv.freeFlip w).slots = mv.count w.slots

/-- "`q` is the conversion of `g`", up to trailing empty slots below the cutoff -/
def Sim (g : IsingSampler) (q : GenericSampler) : Prop :=
  q.state = g.state ∧ q.cutoff = g.cutoff ∧
  growSlots q.slots q.cutoff = growSlots g.slots g.cutoff ∧
  q.bonds = convertBonds g.model ∧ q.doLoopUpdates = false ∧ q.doHeatbath = false ∧
  q.shouldDoClusterUpdate = true

/-- the Ising sampler has no field and none of the options the conversion drops -/
def Plain (g : IsingSampler) : Prop :=
  g.model.hasField = false ∧ g.runRvb = false ∧ g.heatbath = false ∧
  (∀ e ∈ g.model.edges, e.1.length = 2)

theorem growSlots_idem (s : Slots) (c : Nat) : growSlots (growSlots s c) c = growSlots s c := by
  unfold growSlots
  simp only [List.length_append, List.length_replicate]
  have : c - (s.length + (c - s.length)) = 0 := by omega
  rw [this]; simp

theorem sim_convert (g : IsingSampler) (hf : g.model.hasField = false) (hn : 0 < g.model.nvars) :
    Sim g (convertResult g) := by
  obtain ⟨h1, _, h3, h4, h5, h6, h7, h8, h9⟩ := convertResult_fields g
  refine ⟨h4, h3, ?_, h1, h6, h7, ?_⟩
  · rw [h5, h3, growSlots_idem]
  · simp [shouldDoClusterUpdate, h8, h9, hf, hn]

theorem sim_step (mv : Moves) (hmv : mv.Lawful) (g : IsingSampler) (q : GenericSampler)
    (hs : Sim g q) (hp : Plain g) (beta : Rat) (rng : List Nat) :
    Sim (isingTimestep mv g beta rng).1 (genericTimestep mv q beta rng).1 ∧
    Plain (isingTimestep mv g beta rng).1 ∧
    (genericTimestep mv q beta rng).2 = (isingTimestep mv g beta rng).2 ∧
    (genericTimestep mv q beta rng).1.state = (isingTimestep mv g beta rng).1.state ∧
    (genericTimestep mv q beta rng).1.slots = (isingTimestep mv g beta rng).1.slots ∧
    (genericTimestep mv q beta rng).1.cutoff = (isingTimestep mv g beta rng).1.cutoff := by
  obtain ⟨s1, s2, s3, s4, s5, s6, s7⟩ := hs
  obtain ⟨p1, p2, p3, p4⟩ := hp
  have hham : q.ham = g.ham := by
    unfold GenericSampler.ham IsingSampler.ham
    rw [s4]; exact convert_ham_eq g.model p4
  -- the two sweeps start from the same padded operator string
  have hdiag : mv.diag q.ham q.cutoff beta { state := q.state, slots := q.slots, rng := rng }
      = mv.diag g.ham g.cutoff beta { state := g.state, slots := g.slots, rng := rng } := by
    have a := hmv.diag_pad q.ham q.cutoff beta { state := q.state, slots := q.slots, rng := rng }
    have b := hmv.diag_pad g.ham g.cutoff beta { state := g.state, slots := g.slots, rng := rng }
    rw [← a, ← b]
    rw [s2] at s3
    simp only [s3, s1, s2, hham]
  unfold isingTimestep genericTimestep
  simp only [p1, p2, p3, s5, s6, s7, Bool.false_eq_true, if_false, if_true, hdiag]
  refine ⟨⟨?_, ?_, ?_, ?_, ?_, ?_, ?_⟩, ⟨?_, ?_, ?_, ?_⟩, ?_, ?_, ?_, ?_⟩
  all_goals first
    | rfl
    | exact s4
    | exact p1
    | exact p4
    | (simp only [s2, hmv.count_free, hmv.count_cluster]; done)
    | (simpa [shouldDoClusterUpdate] using s7)

/-- `k` time steps, threading the rng -/
def isingSteps (mv : Moves) (beta : Rat) : Nat → IsingSampler × List Nat → IsingSampler × List Nat
  | 0, x => x
  | k + 1, x => isingSteps mv beta k (isingTimestep mv x.1 beta x.2)

def genericSteps (mv : Moves) (beta : Rat) :
    Nat → GenericSampler × List Nat → GenericSampler × List Nat
  | 0, x => x
  | k + 1, x => genericSteps mv beta k (genericTimestep mv x.1 beta x.2)

theorem sim_steps (mv : Moves) (hmv : mv.Lawful) (beta : Rat) (k : Nat) (g : IsingSampler)
    (q : GenericSampler) (rng : List Nat) (hs : Sim g q) (hp : Plain g) :
    Sim (isingSteps mv beta k (g, rng)).1 (genericSteps mv beta k (q, rng)).1 ∧
    (genericSteps mv beta k (q, rng)).2 = (isingSteps mv beta k (g, rng)).2 := by
  induction k generalizing g q rng with
  | zero => exact ⟨hs, rfl⟩
  | succ k ih =>
    obtain ⟨h1, h2, h3, _⟩ := sim_step mv hmv g q hs hp beta rng
    simp only [isingSteps, genericSteps]
    have := ih (isingTimestep mv g beta rng).1 (genericTimestep mv q beta rng).1
      (isingTimestep mv g beta rng).2 h1 h2
    rw [← h3] at this
    have hi : isingTimestep mv g beta rng
        = ((isingTimestep mv g beta rng).1, (genericTimestep mv q beta rng).2) := by rw [h3]
    have hq : genericTimestep mv q beta rng
        = ((genericTimestep mv q beta rng).1, (genericTimestep mv q beta rng).2) := rfl
    rw [hi, hq]; exact this

end Qmc

/-! ### diagonal sweeps agree for every field -/

namespace Qmc
open GenericSampler

/-- conversion relation without the cluster gate (holds for every `h`) -/
def SimD (g : IsingSampler) (q : GenericSampler) : Prop :=
  q.state = g.state ∧ q.cutoff = g.cutoff ∧
  growSlots q.slots q.cutoff = growSlots g.slots g.cutoff ∧
  q.bonds = convertBonds g.model ∧ q.doHeatbath = false

theorem simD_convert (g : IsingSampler) : SimD g (convertResult g) := by
  obtain ⟨h1, _, h3, h4, h5, _, h7, _, _⟩ := convertResult_fields g
  refine ⟨h4, h3, ?_, h1, h7⟩
  rw [h5, h3, growSlots_idem]

theorem simD_step (mv : Moves) (hmv : mv.Lawful) (g : IsingSampler) (q : GenericSampler)
    (hs : SimD g q) (hb : g.heatbath = false) (he : ∀ e ∈ g.model.edges, e.1.length = 2)
    (beta : Rat) (rng : List Nat) :
    SimD (isingDiagStep mv g beta rng).1 (genericDiagStep mv q beta rng).1 ∧
    (isingDiagStep mv g beta rng).1.heatbath = false ∧
    (isingDiagStep mv g beta rng).1.model = g.model ∧
    (genericDiagStep mv q beta rng).2 = (isingDiagStep mv g beta rng).2 ∧
    (genericDiagStep mv q beta rng).1.state = (isingDiagStep mv g beta rng).1.state ∧
    (genericDiagStep mv q beta rng).1.slots = (isingDiagStep mv g beta rng).1.slots ∧
    (genericDiagStep mv q beta rng).1.cutoff = (isingDiagStep mv g beta rng).1.cutoff := by
  obtain ⟨s1, s2, s3, s4, s6⟩ := hs
  have hham : q.ham = g.ham := by
    unfold GenericSampler.ham IsingSampler.ham
    rw [s4]; exact convert_ham_eq g.model he
  have hdiag : mv.diag q.ham q.cutoff beta { state := q.state, slots := q.slots, rng := rng }
      = mv.diag g.ham g.cutoff beta { state := g.state, slots := g.slots, rng := rng } := by
    have a := hmv.diag_pad q.ham q.cutoff beta { state := q.state, slots := q.slots, rng := rng }
    have b := hmv.diag_pad g.ham g.cutoff beta { state := g.state, slots := g.slots, rng := rng }
    rw [← a, ← b]
    rw [s2] at s3
    simp only [s3, s1, s2, hham]
  unfold isingDiagStep genericDiagStep
  simp only [hb, s6, Bool.false_eq_true, if_false, hdiag]
  refine ⟨⟨?_, ?_, ?_, ?_, ?_⟩, ?_, ?_, ?_, ?_, ?_, ?_⟩
  all_goals first
    | rfl
    | exact s4
    | (simp only [s2])

def isingDiagSteps (mv : Moves) (beta : Rat) :
    Nat → IsingSampler × List Nat → IsingSampler × List Nat
  | 0, x => x
  | k + 1, x => isingDiagSteps mv beta k (isingDiagStep mv x.1 beta x.2)

def genericDiagSteps (mv : Moves) (beta : Rat) :
    Nat → GenericSampler × List Nat → GenericSampler × List Nat
  | 0, x => x
  | k + 1, x => genericDiagSteps mv beta k (genericDiagStep mv x.1 beta x.2)

theorem simD_steps (mv : Moves) (hmv : mv.Lawful) (beta : Rat) (k : Nat) (g : IsingSampler)
    (q : GenericSampler) (rng : List Nat) (hs : SimD g q) (hb : g.heatbath = false)
    (he : ∀ e ∈ g.model.edges, e.1.length = 2) :
    SimD (isingDiagSteps mv beta k (g, rng)).1 (genericDiagSteps mv beta k (q, rng)).1 ∧
    (genericDiagSteps mv beta k (q, rng)).2 = (isingDiagSteps mv beta k (g, rng)).2 := by
  induction k generalizing g q rng with
  | zero => exact ⟨hs, rfl⟩
  | succ k ih =>
    obtain ⟨h1, h2, hm, h3, _⟩ := simD_step mv hmv g q hs hb he beta rng
    simp only [isingDiagSteps, genericDiagSteps]
    have := ih (isingDiagStep mv g beta rng).1 (genericDiagStep mv q beta rng).1
      (isingDiagStep mv g beta rng).2 h1 h2 (by rw [hm]; exact he)
    rw [← h3] at this
    have hi : isingDiagStep mv g beta rng
        = ((isingDiagStep mv g beta rng).1, (genericDiagStep mv q beta rng).2) := by rw [h3]
    have hq : genericDiagStep mv q beta rng
        = ((genericDiagStep mv q beta rng).1, (genericDiagStep mv q beta rng).2) := rfl
    rw [hi, hq]; exact this

end Qmc

/-! ### lock-step with heat-bath sweeps on both samplers -/

namespace Qmc
open GenericSampler

/-- the heat-bath sweep pads the container to the cutoff first, like the Metropolis sweep
(same `mutate_ps(0, cutoff, …)` entry point) -/
def Moves.HeatPad (mv : Moves) : Prop :=
  ∀ H c beta (w : World),
    mv.heat H c beta { w with slots := growSlots w.slots c } = mv.heat H c beta w

/-- conversion relation when heat-bath was switched on on the converted sampler as well -/
def SimHB (g : IsingSampler) (q : GenericSampler) : Prop :=
  q.state = g.state ∧ q.cutoff = g.cutoff ∧
  growSlots q.slots q.cutoff = growSlots g.slots g.cutoff ∧
  q.bonds = convertBonds g.model ∧ q.doLoopUpdates = false ∧ q.doHeatbath = true ∧
  q.shouldDoClusterUpdate = true

def PlainHB (g : IsingSampler) : Prop :=
  g.model.hasField = false ∧ g.runRvb = false ∧ g.heatbath = true ∧
  (∀ e ∈ g.model.edges, e.1.length = 2)

theorem simHB_convert (g : IsingSampler) (hf : g.model.hasField = false) (hn : 0 < g.model.nvars) :
    SimHB g ((convertResult g).setDoHeatbath true) := by
  obtain ⟨s1, s2, s3, s4, s5, _, s7⟩ := sim_convert g hf hn
  exact ⟨s1, s2, s3, s4, s5, rfl, s7⟩

theorem simHB_step (mv : Moves) (hmv : mv.Lawful) (hheat : mv.HeatPad) (g : IsingSampler)
    (q : GenericSampler) (hs : SimHB g q) (hp : PlainHB g) (beta : Rat) (rng : List Nat) :
    SimHB (isingTimestep mv g beta rng).1 (genericTimestep mv q beta rng).1 ∧
    PlainHB (isingTimestep mv g beta rng).1 ∧
    (genericTimestep mv q beta rng).2 = (isingTimestep mv g beta rng).2 ∧
    (genericTimestep mv q beta rng).1.state = (isingTimestep mv g beta rng).1.state ∧
    (genericTimestep mv q beta rng).1.slots = (isingTimestep mv g beta rng).1.slots ∧
    (genericTimestep mv q beta rng).1.cutoff = (isingTimestep mv g beta rng).1.cutoff := by
  obtain ⟨s1, s2, s3, s4, s5, s6, s7⟩ := hs
  obtain ⟨p1, p2, p3, p4⟩ := hp
  have hham : q.ham = g.ham := by
    unfold GenericSampler.ham IsingSampler.ham
    rw [s4]; exact convert_ham_eq g.model p4
  have hsweep : mv.heat q.ham q.cutoff beta { state := q.state, slots := q.slots, rng := rng }
      = mv.heat g.ham g.cutoff beta { state := g.state, slots := g.slots, rng := rng } := by
    have a := hheat q.ham q.cutoff beta { state := q.state, slots := q.slots, rng := rng }
    have b := hheat g.ham g.cutoff beta { state := g.state, slots := g.slots, rng := rng }
    rw [← a, ← b]
    rw [s2] at s3
    simp only [s3, s1, s2, hham]
  unfold isingTimestep genericTimestep
  simp only [p1, p2, p3, s5, s6, s7, Bool.false_eq_true, if_false, if_true, hsweep]
  refine ⟨⟨?_, ?_, ?_, ?_, ?_, ?_, ?_⟩, ⟨?_, ?_, ?_, ?_⟩, ?_, ?_, ?_, ?_⟩
  all_goals first
    | rfl
    | exact s4
    | exact p1
    | exact p4
    | (simp only [s2, hmv.count_free, hmv.count_cluster]; done)
    | (simpa [shouldDoClusterUpdate] using s7)

theorem simHB_steps (mv : Moves) (hmv : mv.Lawful) (hheat : mv.HeatPad) (beta : Rat) (k : Nat)
    (g : IsingSampler) (q : GenericSampler) (rng : List Nat) (hs : SimHB g q) (hp : PlainHB g) :
    SimHB (isingSteps mv beta k (g, rng)).1 (genericSteps mv beta k (q, rng)).1 ∧
    (genericSteps mv beta k (q, rng)).2 = (isingSteps mv beta k (g, rng)).2 := by
  induction k generalizing g q rng with
  | zero => exact ⟨hs, rfl⟩
  | succ k ih =>
    obtain ⟨h1, h2, h3, _⟩ := simHB_step mv hmv hheat g q hs hp beta rng
    simp only [isingSteps, genericSteps]
    have := ih (isingTimestep mv g beta rng).1 (genericTimestep mv q beta rng).1
      (isingTimestep mv g beta rng).2 h1 h2
    rw [← h3] at this
    have hi : isingTimestep mv g beta rng
        = ((isingTimestep mv g beta rng).1, (genericTimestep mv q beta rng).2) := by rw [h3]
    have hq : genericTimestep mv q beta rng
        = ((genericTimestep mv q beta rng).1, (genericTimestep mv q beta rng).2) := rfl
    rw [hi, hq]; exact this

end Qmc
