/-
The truncated loop kernel against the true SSE measure of KernelInvarianceCut:
`cutTo (Good H) (configWeight H β)` (configWeight on the Good = Consistent ∧ Legal configurations,
0 elsewhere). A loop started in a Good configuration reaches a non-Good one only with
probability 0 (the exit of weight 0 is never taken), loops keep the length of the string and the
number of operators (so the factor `β^n (L-n)!/L!` is the same on both sides), and on Good
configurations `loopKn_reversible` applies.
-/
import QmcProofs.LoopKernel
import QmcProofs.Good
import QmcProofs.KernelInvarianceLib
import QmcModel.Diagonal

namespace Qmc.LoopC
open Qmc Qmc.Dist Qmc.Kernel

theorem opsWeight_eq (H : Ham) (S : Slots) : opsWeight H S = slotsWeight H.w S := by
  induction S with
  | nil => rfl
  | cons x t ih => cases x <;> simp [opsWeight, slotsWeight, ih]

theorem good_goodL {H : Ham} {c : Config} (h : Good H c) : GoodL c := by
  obtain ⟨hc, hl⟩ := h
  refine ⟨fun o ho => (hl o ho).2.2.2.2.1, fun o ho => ?_, hc⟩
  obtain ⟨_, _, _, htag, _, _⟩ := hl o ho
  unfold CanonOp
  by_cases he : o.ins = o.outs
  · rw [htag.mpr he]; simp [he]
  · have : o.tagDiag = false := by
      cases ht : o.tagDiag with
      | false => rfl
      | true => exact absurd (htag.mp ht) he
    rw [this]; simp [he]

theorem slotsWeight_pos (w : Nat → List Bool → List Bool → Rat) (S : Slots)
    (h : ∀ o, some o ∈ S → 0 < w o.bond o.ins o.outs) : 0 < slotsWeight w S := by
  induction S with
  | nil => simp [slotsWeight]
  | cons x t ih =>
    have ht := ih (fun o ho => h o (List.mem_cons_of_mem _ ho))
    cases x with
    | none => simpa [slotsWeight] using ht
    | some o => simp only [slotsWeight]; exact mul_pos (h o (List.mem_cons_self ..)) ht

theorem slotsWeight_zero (w : Nat → List Bool → List Bool → Rat) (S : Slots) (o : Op)
    (ho : some o ∈ S) (hz : w o.bond o.ins o.outs = 0) : slotsWeight w S = 0 := by
  induction S with
  | nil => simp at ho
  | cons x t ih =>
    rcases List.mem_cons.mp ho with h | h
    · subst h; simp [slotsWeight, hz]
    · cases x with
      | none => simpa [slotsWeight] using ih h
      | some o' => simp [slotsWeight, ih h]

theorem chain_weight (w : Nat → List Bool → List Bool → Rat) (S S' : Slots) (tr : List Visit)
    (h : chain S tr S') :
    slotsWeight w S' * prodBefore w tr = slotsWeight w S * prodAfter w tr := by
  induction tr generalizing S with
  | nil => simp only [chain] at h; subst h; rfl
  | cons v t ih =>
    simp only [chain] at h
    obtain ⟨h0, h1⟩ := h
    have e := slotsWeight_set w S v.pos v.op v.after h0
    have hi := ih _ h1
    simp only [prodBefore, prodAfter]
    calc slotsWeight w S' * (opW w v.op * prodBefore w t)
        = (slotsWeight w S' * prodBefore w t) * opW w v.op := by ring
      _ = (slotsWeight w (S.set v.pos (some v.after)) * opW w v.op) * prodAfter w t := by rw [hi]; ring
      _ = _ := by rw [e]; ring

theorem pathProb_zero_of_prodAfter (w : Nat → List Bool → List Bool → Rat) (tr : List Visit)
    (h : prodAfter w tr = 0) : pathProb w tr = 0 := by
  induction tr with
  | nil => simp [prodAfter] at h
  | cons v t ih =>
    simp only [prodAfter, mul_eq_zero] at h
    simp only [pathProb]
    rcases h with h | h
    · rw [opW_after] at h
      unfold exitProb
      rw [h]; simp
    · rw [ih h]; simp

/-- a loop from a Good configuration to a non-Good one has probability 0 -/
theorem loop_to_bad_zero (H : Ham) (hw : ∀ b i o, 0 ≤ H.w b i o) {n : Nat} {a b : Config}
    (ha : Good H a) (hb : ¬ Good H b) {ℓ : (Nat × Leg) × List Visit × Config}
    (h : ℓ ∈ (loopsOf n a).filter (fun ℓ => decide (ℓ.2.2 = b))) : pathProb H.w ℓ.2.1 = 0 := by
  have hgl := good_goodL ha
  obtain ⟨_, _, hglb⟩ := revLoop_mem hgl h
  obtain ⟨init, tr, fin⟩ := ℓ
  rw [List.mem_filter] at h
  obtain ⟨hm, hf⟩ := h
  simp only [decide_eq_true_eq] at hf
  subst hf
  obtain ⟨hh, _, hwk⟩ := (mem_loopsOf n a init tr fin).mp hm
  obtain ⟨_, hchain, _⟩ := hwk.structure a.slots (fun o ho => (hgl.1 o ho).2.2.1) rfl hh hgl.2.1
  have hsk := hwk.skeleton
  -- the result is periodic, so it is not Legal: some op is not LegalFor
  have hnl : ¬ Legal H fin := fun hl => hb ⟨hglb.2.2, hl⟩
  unfold Legal at hnl
  obtain ⟨o, hno⟩ := Classical.not_forall.mp hnl
  obtain ⟨ho, hno⟩ := Classical.not_imp.mp hno
  -- its skeleton part is that of a Legal op of `a`
  obtain ⟨j, hj⟩ := List.mem_iff_getElem?.mp ho
  obtain ⟨oa, hoa, hva⟩ := skeleton_op hsk hj
  have hsk' := skeleton_getElem? hsk j
  rw [hj, hoa] at hsk'
  simp only [Option.map_some, Option.some.injEq, Prod.mk.injEq] at hsk'
  obtain ⟨l1, l2, l3, _, _, _⟩ := ha.2 oa (List.mem_of_getElem? hoa)
  have hz : H.w o.bond o.ins o.outs = 0 := by
    by_contra hne
    apply hno
    have hcan := hglb.2.1 o ho
    unfold CanonOp at hcan
    refine ⟨by rw [hsk'.2.1]; exact l1, by rw [hsk'.1, hsk'.2.1]; exact l2,
      by rw [hsk'.2.2, hsk'.2.1]; exact l3, ?_, hglb.1 o ho,
      lt_of_le_of_ne (hw _ _ _) (Ne.symm hne)⟩
    rw [hcan]; simp
  have hWb : slotsWeight H.w fin.slots = 0 := slotsWeight_zero H.w fin.slots o ho hz
  have hWa : 0 < slotsWeight H.w a.slots := slotsWeight_pos H.w a.slots (fun o ho => (ha.2 o ho).2.2.2.2.2)
  have := chain_weight H.w a.slots fin.slots tr hchain
  rw [hWb, zero_mul] at this
  have hpa : prodAfter H.w tr = 0 := by
    rcases mul_eq_zero.mp this.symm with h | h
    · exact absurd h (ne_of_gt hWa)
    · exact h
  exact pathProb_zero_of_prodAfter H.w tr hpa

theorem loopKn_to_bad (H : Ham) (hw : ∀ b i o, 0 ≤ H.w b i o) (n : Nat) {a b : Config}
    (ha : Good H a) (hb : ¬ Good H b) : loopKn H.w n a b = 0 := by
  unfold loopKn
  split
  · have : ¬ b = a := fun e => hb (e ▸ ha)
    rw [if_neg this]
  · apply List.sum_eq_zero
    intro x hx
    obtain ⟨ℓ, hℓ, rfl⟩ := List.mem_map.mp hx
    rw [loop_to_bad_zero H hw ha hb hℓ]; ring

/-- a non-zero entry of the kernel connects strings of the same length and operator count -/
theorem loopKn_ne_zero (w : Nat → List Bool → List Bool → Rat) (n : Nat) {a b : Config}
    (h : loopKn w n a b ≠ 0) :
    b.slots.length = a.slots.length ∧ countOps b.slots = countOps a.slots := by
  unfold loopKn at h
  split at h
  · by_cases e : b = a
    · subst e; exact ⟨rfl, rfl⟩
    · rw [if_neg e] at h; exact absurd rfl h
  · cases hl : (loopsOf n a).filter (fun ℓ => decide (ℓ.2.2 = b)) with
    | nil => rw [hl] at h; simp at h
    | cons ℓ t =>
      have hℓ : ℓ ∈ (loopsOf n a).filter (fun ℓ => decide (ℓ.2.2 = b)) := by rw [hl]; simp
      obtain ⟨init, tr, fin⟩ := ℓ
      rw [List.mem_filter] at hℓ
      obtain ⟨hm, hf⟩ := hℓ
      simp only [decide_eq_true_eq] at hf
      subst hf
      have hsk := ((mem_loopsOf n a init tr fin).mp hm).2.2.skeleton
      exact ⟨skeleton_length hsk, countOps_skeleton hsk⟩

/-- **Detailed balance of the truncated loop kernel with the true SSE measure**
`configWeight·1_Good` (the `π` of `KernelInvarianceCut`), for non-negative matrix elements. -/
theorem loopKn_reversible_cut (H : Ham) [DecidablePred (Good H)] (β : Rat)
    (hw : ∀ b i o, 0 ≤ H.w b i o) (n : Nat) :
    Reversible (cutTo (Good H) (configWeight H β)) (loopKn H.w n) := by
  intro a b
  unfold cutTo
  by_cases ha : Good H a
  · by_cases hb : Good H b
    · rw [if_pos ha, if_pos hb]
      have hrev := loopKn_reversible H.w n a b (good_goodL ha) (good_goodL hb)
      by_cases hK : loopKn H.w n a b = 0
      · have hWb : 0 < slotsWeight H.w b.slots :=
          slotsWeight_pos H.w b.slots (fun o ho => (hb.2 o ho).2.2.2.2.2)
        rw [hK, mul_zero] at hrev
        have : loopKn H.w n b a = 0 := by
          rcases mul_eq_zero.mp hrev.symm with h | h
          · exact absurd h (ne_of_gt hWb)
          · exact h
        rw [hK, this]; ring
      · obtain ⟨e1, e2⟩ := loopKn_ne_zero H.w n hK
        unfold configWeight
        simp only
        rw [opsWeight_eq, opsWeight_eq, e1, e2]
        calc _ = β ^ countOps a.slots * ((fact (a.slots.length - countOps a.slots) : Nat) : Rat) /
                  ((fact a.slots.length : Nat) : Rat) * (slotsWeight H.w a.slots * loopKn H.w n a b) := by ring
          _ = _ := by rw [hrev]; ring
    · rw [if_pos ha, if_neg hb, loopKn_to_bad H hw n ha hb]; ring
  · by_cases hb : Good H b
    · rw [if_neg ha, if_pos hb, loopKn_to_bad H hw n hb ha]; ring
    · rw [if_neg ha, if_neg hb]; ring

/-- **What the truncated kernel does to the SSE measure** (exact): the flow into `b` from a finite
set `S` of configurations equals `π(b)` times the mass the truncated kernel sends from `b` into
`S`. With `S` ⊇ the configurations reachable from `b`, that mass is
`1 − P(the walk from b needs more than n visits)`; it is not 1, the truncated kernel is
sub-stochastic, so this is sub-invariance `≤ π(b)` once the row mass is bounded by 1 (not proved
here), and invariance exactly when that mass is 1. -/
theorem loopKn_flow (H : Ham) [DecidablePred (Good H)] (β : Rat)
    (hw : ∀ b i o, 0 ≤ H.w b i o) (n : Nat) (S : Finset Config) (b : Config) :
    ∑ a ∈ S, cutTo (Good H) (configWeight H β) a * loopKn H.w n a b =
      cutTo (Good H) (configWeight H β) b * ∑ a ∈ S, loopKn H.w n b a := by
  rw [Finset.mul_sum]
  apply Finset.sum_congr rfl
  intro a _
  exact loopKn_reversible_cut H β hw n a b

end Qmc.LoopC
