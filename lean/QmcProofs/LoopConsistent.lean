/-
The directed-loop update keeps world lines periodic (`Consistent`): the "two open ends"
invariant of the walk of QmcModel/Loop.lean.

Invariant at the head of every vertex visit `(pos, ent)` of a loop started at `init`:
the current operator string with the two legs `(pos, ent)` (the moving head: the leg the walker
is about to enter) and `init` (the fixed tail) toggled is `Consistent` with the current state.
One visit toggles entrance and exit of the visited op and moves the head along the link of the
exit leg: in terms of the toggled ("virtual") string this flips both ends of one link (and
`state[v]` when the link crosses p = 0), which keeps `Consistent` (`link_*` lemmas). When the
head meets the tail the two toggles cancel and the string itself is `Consistent`.

Everything lives in `Qmc.LoopC` to keep the helper names out of the way of other files.
-/
import QmcProofs.Worldline
import QmcProofs.Loop
import QmcProofs.Generic

namespace Qmc.LoopC
open Qmc

/-! ### lists: `set` / `modify` -/

theorem set_modify_same {α} (l : List α) (i : Nat) (x : α) (f : α → α) :
    (l.set i x).modify i f = l.set i (f x) := by
  apply List.ext_getElem?
  intro j
  simp only [List.getElem?_modify, List.getElem?_set]
  by_cases h : i = j
  · subst h
    by_cases hl : i < l.length <;> simp [hl]
  · simp [h]

theorem modify_set_same {α} (l : List α) (i : Nat) (x : α) (f : α → α) :
    (l.modify i f).set i x = l.set i x := by
  apply List.ext_getElem?
  intro j
  simp only [List.getElem?_modify, List.getElem?_set, List.length_modify]
  by_cases h : i = j
  · subst h
    by_cases hl : i < l.length <;> simp [hl]
  · simp [h]

theorem modify_set_ne {α} (l : List α) (i j : Nat) (x : α) (f : α → α) (h : i ≠ j) :
    (l.modify i f).set j x = (l.set j x).modify i f := by
  apply List.ext_getElem?
  intro k
  simp only [List.getElem?_modify, List.getElem?_set, List.length_modify]
  by_cases h1 : j = k
  · subst h1
    have : ¬ i = j := h
    by_cases hl : j < l.length <;> simp [hl, this]
  · simp [h1]

theorem set_eq_modify_not (l : List Bool) (i : Nat) (b : Bool) (h : l[i]? = some b) :
    l.set i (!b) = l.modify i not := by
  apply List.ext_getElem?
  intro j
  simp only [List.getElem?_modify, List.getElem?_set]
  by_cases h1 : i = j
  · subst h1
    obtain ⟨hl, rfl⟩ := List.getElem?_eq_some_iff.mp h
    simp [hl]
  · simp [h1]

/-! ### state lemmas: a variable the op does not act on -/

theorem matchL_modify_free (st : List Bool) (vars : List Nat) (vals : List Bool) (v : Nat)
    (f : Bool → Bool) (h : v ∉ vars) : matchL (st.modify v f) vars vals = matchL st vars vals := by
  unfold matchL
  apply all_congr_mem
  intro x hx
  have : v ≠ x.1 := fun e => h (e ▸ (List.of_mem_zip hx).1)
  simp [this]

theorem writeVars_modify_free (st : List Bool) (vars : List Nat) (vals : List Bool) (v : Nat)
    (f : Bool → Bool) (h : v ∉ vars) :
    writeVars (st.modify v f) vars vals = (writeVars st vars vals).modify v f := by
  induction vars generalizing st vals with
  | nil => simp [writeVars]
  | cons w ws ih =>
    cases vals with
    | nil => simp [writeVars]
    | cons x xs =>
      have hw : v ≠ w := fun e => h (by simp [e])
      rw [writeVars_cons, writeVars_cons, modify_set_ne _ _ _ _ _ hw]
      exact ih _ _ (fun hm => h (by simp [hm]))

theorem applyOp_modify_free (st : List Bool) (o : Op) (v : Nat) (f : Bool → Bool) (h : v ∉ o.vars) :
    applyOp (st.modify v f) o = (applyOp st o).map (·.modify v f) := by
  unfold applyOp
  rw [inputsMatch_eq, inputsMatch_eq, matchL_modify_free st o.vars o.ins v f h]
  split
  · simp [writeVars_modify_free _ _ _ _ _ h]
  · rfl

/-- a variable no op of the segment acts on is carried through `propagate` with any change -/
theorem propagate_modify_free (seg : Slots) (st : List Bool) (v : Nat) (f : Bool → Bool)
    (h : ∀ o, some o ∈ seg → v ∉ o.vars) :
    propagate (st.modify v f) seg = (propagate st seg).map (·.modify v f) := by
  induction seg generalizing st with
  | nil => rfl
  | cons a t ih =>
    have ht : ∀ o, some o ∈ t → v ∉ o.vars := fun o ho => h o (by simp [ho])
    cases a with
    | none => simp only [propagate]; exact ih st ht
    | some o =>
      simp only [propagate]
      rw [applyOp_modify_free st o v f (h o (by simp))]
      cases applyOp st o with
      | none => rfl
      | some st' => simp only [Option.map_some]; exact ih st' ht

theorem writeVars_get_free (st : List Bool) (vars : List Nat) (vals : List Bool) (v : Nat)
    (h : v ∉ vars) : (writeVars st vars vals)[v]? = st[v]? := by
  induction vars generalizing st vals with
  | nil => simp [writeVars]
  | cons w ws ih =>
    cases vals with
    | nil => simp [writeVars]
    | cons x xs =>
      have hw : w ≠ v := fun e => h (by simp [e])
      rw [writeVars_cons, ih _ _ (fun hm => h (by simp [hm])), List.getElem?_set_ne hw]

theorem propagate_get_free (seg : Slots) (st r : List Bool) (v : Nat)
    (h : ∀ o, some o ∈ seg → v ∉ o.vars) (hp : propagate st seg = some r) : r[v]? = st[v]? := by
  induction seg generalizing st with
  | nil => simp [propagate] at hp; rw [hp]
  | cons a t ih =>
    have ht : ∀ o, some o ∈ t → v ∉ o.vars := fun o ho => h o (by simp [ho])
    cases a with
    | none => exact ih st ht (by simpa [propagate] using hp)
    | some o =>
      obtain ⟨_, h2⟩ := propagate_some_eq hp
      rw [ih _ ht h2, writeVars_get_free _ _ _ _ (h o (by simp))]

/-! ### state lemmas: a variable the op acts on -/

/-- structural part of `Op.WF` that `propagate` cares about -/
def OpOK (o : Op) : Prop :=
  o.ins.length = o.vars.length ∧ o.outs.length = o.vars.length ∧ o.vars.Nodup

theorem matchL_get (st : List Bool) (vars : List Nat) (vals : List Bool) (r : Nat)
    (hm : matchL st vars vals = true) (h1 : r < vars.length) (h2 : r < vals.length) :
    st[vars[r]]? = some vals[r] := by
  induction vars generalizing vals r with
  | nil => simp at h1
  | cons w ws ih =>
    cases vals with
    | nil => simp at h2
    | cons x xs =>
      rw [matchL_cons, Bool.and_eq_true] at hm
      cases r with
      | zero => simpa using hm.1
      | succ r => simpa using ih xs r hm.2 (by simpa using h1) (by simpa using h2)

theorem writeVars_get (st : List Bool) (vars : List Nat) (vals : List Bool) (r : Nat)
    (hn : vars.Nodup) (h1 : r < vars.length) (h2 : r < vals.length) (hv : vars[r] < st.length) :
    (writeVars st vars vals)[vars[r]]? = some vals[r] := by
  induction vars generalizing st vals r with
  | nil => simp at h1
  | cons w ws ih =>
    cases vals with
    | nil => simp at h2
    | cons x xs =>
      have hn' := List.nodup_cons.mp hn
      rw [writeVars_cons]
      cases r with
      | zero =>
        simp only [List.getElem_cons_zero] at hv ⊢
        rw [writeVars_get_free _ _ _ _ hn'.1]
        simp [hv]
      | succ r =>
        simp only [List.getElem_cons_succ] at hv ⊢
        exact ih _ xs r hn'.2 (by simpa using h1) (by simpa using h2) (by simpa using hv)

/-- toggling output `r` toggles the written state at `vars[r]` -/
theorem writeVars_modify_out (st : List Bool) (vars : List Nat) (vals : List Bool) (r : Nat)
    (hn : vars.Nodup) (h1 : r < vars.length) (h2 : r < vals.length) :
    writeVars st vars (vals.modify r not) = (writeVars st vars vals).modify vars[r] not := by
  induction vars generalizing st vals r with
  | nil => simp at h1
  | cons w ws ih =>
    have hn' := List.nodup_cons.mp hn
    cases vals with
    | nil => simp at h2
    | cons x xs =>
      cases r with
      | zero =>
        simp only [List.modify_zero_cons, List.getElem_cons_zero]
        rw [writeVars_cons, writeVars_cons, writeVars_set_comm _ _ _ _ _ hn'.1,
          writeVars_set_comm _ _ _ _ _ hn'.1, set_modify_same]
      | succ r =>
        simp only [List.modify_succ_cons, List.getElem_cons_succ]
        rw [writeVars_cons, writeVars_cons]
        exact ih _ xs r hn'.2 (by simpa using h1) (by simpa using h2)

/-- a changed incoming value at `v ∈ vars` is overwritten -/
theorem writeVars_modify_mem (st : List Bool) (vars : List Nat) (vals : List Bool) (v : Nat)
    (f : Bool → Bool) (hl : vals.length = vars.length) (hv : v ∈ vars) :
    writeVars (st.modify v f) vars vals = writeVars st vars vals := by
  induction vars generalizing st vals with
  | nil => simp at hv
  | cons w ws ih =>
    cases vals with
    | nil => simp at hl
    | cons x xs =>
      rw [writeVars_cons, writeVars_cons]
      by_cases he : v = w
      · subst he; rw [modify_set_same]
      · rw [modify_set_ne _ _ _ _ _ he]
        exact ih _ xs (by simpa using hl) (by simpa [he] using hv)

/-- toggling input `r` is matched by the toggled incoming value at `vars[r]` -/
theorem matchL_modify_in (st : List Bool) (vars : List Nat) (vals : List Bool) (r : Nat)
    (hn : vars.Nodup) (h1 : r < vars.length) (hm : matchL st vars vals = true) :
    matchL (st.modify vars[r] not) vars (vals.modify r not) = true := by
  induction vars generalizing vals r with
  | nil => simp at h1
  | cons w ws ih =>
    have hn' := List.nodup_cons.mp hn
    cases vals with
    | nil => simp [matchL]
    | cons x xs =>
      rw [matchL_cons, Bool.and_eq_true] at hm
      have hw : st[w]? = some x := by simpa using hm.1
      cases r with
      | zero =>
        simp only [List.modify_zero_cons, List.getElem_cons_zero]
        rw [matchL_cons, Bool.and_eq_true, matchL_modify_free _ _ _ _ _ hn'.1]
        refine ⟨?_, hm.2⟩
        simp [hw]
      | succ r =>
        simp only [List.modify_succ_cons, List.getElem_cons_succ]
        have hr : r < ws.length := by simpa using h1
        have hne : ws[r] ≠ w := by
          intro e
          exact hn'.1 (e ▸ List.getElem_mem _)
        rw [matchL_cons, Bool.and_eq_true]
        refine ⟨?_, ih xs r hn'.2 hr hm.2⟩
        simp [hne, hw]

/-! ### toggling one leg of an op -/

/-- `adjust_states` on one leg, every other field (also the tag) kept -/
def togOp (o : Op) (l : Leg) : Op :=
  { o with ins := (flipIO (o.ins, o.outs) l).1, outs := (flipIO (o.ins, o.outs) l).2 }

theorem togOp_vars (o : Op) (l : Leg) : (togOp o l).vars = o.vars := rfl

theorem togOp_out (o : Op) (r : Nat) :
    (togOp o ⟨r, true⟩).ins = o.ins ∧ (togOp o ⟨r, true⟩).outs = o.outs.modify r not := by
  simp [togOp, flipIO]

theorem togOp_in (o : Op) (r : Nat) :
    (togOp o ⟨r, false⟩).ins = o.ins.modify r not ∧ (togOp o ⟨r, false⟩).outs = o.outs := by
  simp [togOp, flipIO]

theorem togOp_OK (o : Op) (l : Leg) (h : OpOK o) : OpOK (togOp o l) := by
  obtain ⟨h1, h2, h3⟩ := h
  have := flipIO_length (o.ins, o.outs) l
  exact ⟨by simp only [togOp]; rw [this.1]; exact h1, by simp only [togOp]; rw [this.2]; exact h2, h3⟩

theorem togOp_togOp (o : Op) (l : Leg) : togOp (togOp o l) l = o := by
  simp only [togOp, flipIO_flipIO]

theorem togOp_comm (o : Op) (a b : Leg) : togOp (togOp o a) b = togOp (togOp o b) a := by
  simp only [togOp, flipIO_comm (o.ins, o.outs) a b]

/-- **P2**: with output leg `r` toggled the op writes the toggled value at `vars[r]` -/
theorem applyOp_tog_out (st m : List Bool) (o : Op) (r : Nat) (hok : OpOK o) (hr : r < o.vars.length)
    (h : applyOp st o = some m) :
    applyOp st (togOp o ⟨r, true⟩) = some (m.modify o.vars[r] not) := by
  obtain ⟨hm, rfl⟩ := applyOp_eq_some h
  obtain ⟨e1, e2⟩ := togOp_out o r
  have hm' : inputsMatch st (togOp o ⟨r, true⟩) = true := by
    rw [inputsMatch_eq, e1, togOp_vars]; exact hm
  rw [applyOp_of_match hm', e2, togOp_vars,
    writeVars_modify_out st o.vars o.outs r hok.2.2 hr (by rw [hok.2.1]; exact hr)]

/-- **P3**: with input leg `r` toggled the op accepts the state toggled at `vars[r]` and writes
the same outputs -/
theorem applyOp_tog_in (st m : List Bool) (o : Op) (r : Nat) (hok : OpOK o) (hr : r < o.vars.length)
    (h : applyOp st o = some m) :
    applyOp (st.modify o.vars[r] not) (togOp o ⟨r, false⟩) = some m := by
  obtain ⟨hm, rfl⟩ := applyOp_eq_some h
  obtain ⟨e1, e2⟩ := togOp_in o r
  have hm' : inputsMatch (st.modify o.vars[r] not) (togOp o ⟨r, false⟩) = true := by
    rw [inputsMatch_eq, e1, togOp_vars]
    exact matchL_modify_in st o.vars o.ins r hok.2.2 hr hm
  rw [applyOp_of_match hm', e2, togOp_vars,
    writeVars_modify_mem st o.vars o.outs _ not hok.2.1 (List.getElem_mem hr)]

/-! ### cutting the string at one position -/

theorem split_at (V : Slots) (a : Nat) (x : Option Op) (h : V[a]? = some x) :
    V = V.take a ++ x :: V.drop (a + 1) := by
  obtain ⟨hl, rfl⟩ := List.getElem?_eq_some_iff.mp h
  rw [← List.drop_eq_getElem_cons hl, List.take_append_drop]

theorem propagate_at {st fin : List Bool} {V : Slots} (h : propagate st V = some fin) (a : Nat)
    (o : Op) (ha : V[a]? = some (some o)) :
    ∃ m m', propagate st (V.take a) = some m ∧ applyOp m o = some m' ∧
      propagate m' (V.drop (a + 1)) = some fin := by
  rw [split_at V a _ ha] at h
  obtain ⟨m, h1, h2⟩ := propagate_append h
  obtain ⟨hm, h3⟩ := propagate_some_eq h2
  exact ⟨m, _, h1, applyOp_of_match hm, h3⟩

theorem propagate_at_of {st m m' fin : List Bool} {V : Slots} {a : Nat} {o' : Op}
    (ha : a < V.length) (h1 : propagate st (V.take a) = some m) (h2 : applyOp m o' = some m')
    (h3 : propagate m' (V.drop (a + 1)) = some fin) :
    propagate st (V.set a (some o')) = some fin := by
  rw [List.set_eq_take_append_cons_drop, if_pos ha]
  apply propagate_append_of h1
  simp only [propagate, h2]
  exact h3

/-- no op in positions `[lo, hi)` acts on `v` -/
def FreeIn (V : Slots) (v lo hi : Nat) : Prop :=
  ∀ j o, lo ≤ j → j < hi → V[j]? = some (some o) → v ∉ o.vars

theorem free_take (V : Slots) (v a : Nat) (h : FreeIn V v 0 a) :
    ∀ o, some o ∈ V.take a → v ∉ o.vars := by
  intro o ho
  obtain ⟨j, hj⟩ := List.mem_iff_getElem?.mp ho
  rw [List.getElem?_take] at hj
  split at hj
  · rename_i hlt; exact h j o (Nat.zero_le _) hlt hj
  · cases hj

theorem free_drop (V : Slots) (v b : Nat) (h : FreeIn V v (b + 1) V.length) :
    ∀ o, some o ∈ V.drop (b + 1) → v ∉ o.vars := by
  intro o ho
  obtain ⟨j, hj⟩ := List.mem_iff_getElem?.mp ho
  rw [List.getElem?_drop] at hj
  have hl : b + 1 + j < V.length := (List.getElem?_eq_some_iff.mp hj).1
  exact h (b + 1 + j) o (by omega) hl hj

theorem free_mid (V : Slots) (v a b : Nat) (h : FreeIn V v (a + 1) b) :
    ∀ o, some o ∈ (V.take b).drop (a + 1) → v ∉ o.vars := by
  intro o ho
  obtain ⟨j, hj⟩ := List.mem_iff_getElem?.mp ho
  rw [List.getElem?_drop, List.getElem?_take] at hj
  split at hj
  · rename_i hlt; exact h (a + 1 + j) o (by omega) hlt hj
  · cases hj

/-! ### flipping both ends of one link keeps the string propagating -/

/-- **S1** inner link: `o1` at `a` (output leg `r1`) is linked to `o2` at `b > a` (input leg `r2`) -/
theorem link_inner {st fin : List Bool} {V : Slots} (h : propagate st V = some fin)
    (a b r1 r2 : Nat) (o1 o2 : Op) (hab : a < b)
    (h1 : V[a]? = some (some o1)) (h2 : V[b]? = some (some o2))
    (ok1 : OpOK o1) (ok2 : OpOK o2) (hr1 : r1 < o1.vars.length) (hr2 : r2 < o2.vars.length)
    (hv : o2.vars[r2] = o1.vars[r1]) (hfree : FreeIn V o1.vars[r1] (a + 1) b) :
    propagate st ((V.set a (some (togOp o1 ⟨r1, true⟩))).set b (some (togOp o2 ⟨r2, false⟩)))
      = some fin := by
  have hbl : b < V.length := (List.getElem?_eq_some_iff.mp h2).1
  obtain ⟨m3, m4, p1, p2, p3⟩ := propagate_at h b o2 h2
  have h1' : (V.take b)[a]? = some (some o1) := by rw [List.getElem?_take, if_pos hab]; exact h1
  obtain ⟨m1, m2, q1, q2, q3⟩ := propagate_at p1 a o1 h1'
  -- first part, up to b
  have hA : propagate st ((V.set a (some (togOp o1 ⟨r1, true⟩))).take b)
      = some (m3.modify o1.vars[r1] not) := by
    rw [List.take_set]
    refine propagate_at_of (by rw [List.length_take]; omega) q1
      (applyOp_tog_out _ _ o1 r1 ok1 hr1 q2) ?_
    rw [propagate_modify_free _ _ _ _ (free_mid V _ a b hfree), q3]
    rfl
  refine propagate_at_of (by rw [List.length_set]; exact hbl) hA ?_ ?_
  · exact m4
  · have := applyOp_tog_in m3 m4 o2 r2 ok2 hr2 p2
    rw [hv] at this
    exact this
  · rw [List.drop_set_of_lt (by omega)]
    exact p3

/-- **S2** link through the time boundary, two ops: `o2` at `a` is the first op on `v` (input leg
`r2`), `o1` at `b > a` the last one (output leg `r1`); the state at `v` is toggled with them -/
theorem link_wrap {st fin : List Bool} {V : Slots} (h : propagate st V = some fin)
    (a b r1 r2 : Nat) (o1 o2 : Op) (hab : a < b)
    (h2 : V[a]? = some (some o2)) (h1 : V[b]? = some (some o1))
    (ok1 : OpOK o1) (ok2 : OpOK o2) (hr1 : r1 < o1.vars.length) (hr2 : r2 < o2.vars.length)
    (hv : o2.vars[r2] = o1.vars[r1]) (hfa : FreeIn V o1.vars[r1] 0 a)
    (hfb : FreeIn V o1.vars[r1] (b + 1) V.length) :
    propagate (st.modify o1.vars[r1] not)
        ((V.set a (some (togOp o2 ⟨r2, false⟩))).set b (some (togOp o1 ⟨r1, true⟩)))
      = some (fin.modify o1.vars[r1] not) := by
  have hbl : b < V.length := (List.getElem?_eq_some_iff.mp h1).1
  obtain ⟨m3, m4, p1, p2, p3⟩ := propagate_at h b o1 h1
  have h2' : (V.take b)[a]? = some (some o2) := by rw [List.getElem?_take, if_pos hab]; exact h2
  obtain ⟨m1, m2, q1, q2, q3⟩ := propagate_at p1 a o2 h2'
  have hA : propagate (st.modify o1.vars[r1] not) ((V.set a (some (togOp o2 ⟨r2, false⟩))).take b)
      = some m3 := by
    rw [List.take_set]
    refine propagate_at_of (m := m1.modify o1.vars[r1] not) (by rw [List.length_take]; omega) ?_ ?_ q3
    · rw [List.take_take, Nat.min_eq_left (by omega)] at q1 ⊢
      rw [propagate_modify_free _ _ _ _ (free_take V _ a hfa), q1]
      rfl
    · have := applyOp_tog_in m1 m2 o2 r2 ok2 hr2 q2
      rw [hv] at this
      exact this
  refine propagate_at_of (by rw [List.length_set]; exact hbl) hA
    (applyOp_tog_out _ _ o1 r1 ok1 hr1 p2) ?_
  rw [List.drop_set_of_lt (by omega), propagate_modify_free _ _ _ _ (free_drop V _ b hfb), p3]
  rfl

/-- **S3** link through the time boundary when `o` at `a` is the only op on `v`: its own input
and output leg are the two ends -/
theorem link_self {st fin : List Bool} {V : Slots} (h : propagate st V = some fin)
    (a r : Nat) (o : Op) (h1 : V[a]? = some (some o)) (ok : OpOK o) (hr : r < o.vars.length)
    (hfa : FreeIn V o.vars[r] 0 a) (hfb : FreeIn V o.vars[r] (a + 1) V.length) :
    propagate (st.modify o.vars[r] not)
        (V.set a (some (togOp (togOp o ⟨r, false⟩) ⟨r, true⟩)))
      = some (fin.modify o.vars[r] not) := by
  have hal : a < V.length := (List.getElem?_eq_some_iff.mp h1).1
  obtain ⟨m1, m2, p1, p2, p3⟩ := propagate_at h a o h1
  refine propagate_at_of (m := m1.modify o.vars[r] not) hal ?_ ?_ ?_
  · exact m2.modify o.vars[r] not
  · rw [propagate_modify_free _ _ _ _ (free_take V _ a hfa), p1]; rfl
  · exact applyOp_tog_out _ _ (togOp o ⟨r, false⟩) r (togOp_OK _ _ ok) hr
      (applyOp_tog_in m1 m2 o r ok hr p2)
  · rw [propagate_modify_free _ _ _ _ (free_drop V _ a hfb), p3]; rfl

end Qmc.LoopC
