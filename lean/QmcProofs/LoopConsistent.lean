/-
The directed-loop update keeps world lines periodic (`Consistent`): the "two open ends"
invariant of the walk of QmcModel/Loop.lean.

Invariant at the head of every vertex visit `(pos, ent)` of a loop started at `init`:
the current operator string with the two legs `(pos, ent)` (the moving head: the leg the walker
is about to enter) and `init` (the fixed tail) toggled is `Consistent` with the current state.
One visit toggles entrance and exit of the visited op and moves the head along the link of the
exit leg: in terms of the toggled ("virtual") string this flips both ends of one link (and
`state[v]` when the link crosses p = 0), which keeps `Consistent` (`link_*` lemmas). When the
head meets the tail the two toggles cancel and the string itself is `Consistent`.

Everything lives in `Qmc.LoopC` to keep the helper names out of the way of other files.
-/
import QmcProofs.Worldline
import QmcProofs.Loop
import QmcProofs.Generic

namespace Qmc.LoopC
open Qmc

/-! ### lists: `set` / `modify` -/

theorem set_modify_same {α} (l : List α) (i : Nat) (x : α) (f : α → α) :
    (l.set i x).modify i f = l.set i (f x) := by
  apply List.ext_getElem?
  intro j
  simp only [List.getElem?_modify, List.getElem?_set]
  by_cases h : i = j
  · subst h
    by_cases hl : i < l.length <;> simp [hl]
  · simp [h]

theorem modify_set_same {α} (l : List α) (i : Nat) (x : α) (f : α → α) :
    (l.modify i f).set i x = l.set i x := by
  apply List.ext_getElem?
  intro j
  simp only [List.getElem?_modify, List.getElem?_set, List.length_modify]
  by_cases h : i = j
  · subst h
    by_cases hl : i < l.length <;> simp [hl]
  · simp [h]

theorem modify_set_ne {α} (l : List α) (i j : Nat) (x : α) (f : α → α) (h : i ≠ j) :
    (l.modify i f).set j x = (l.set j x).modify i f := by
  apply List.ext_getElem?
  intro k
  simp only [List.getElem?_modify, List.getElem?_set, List.length_modify]
  by_cases h1 : j = k
  · subst h1
    have : ¬ i = j := h
    by_cases hl : j < l.length <;> simp [hl, this]
  · simp [h1]

theorem set_eq_modify_not (l : List Bool) (i : Nat) (b : Bool) (h : l[i]? = some b) :
    l.set i (!b) = l.modify i not := by
  apply List.ext_getElem?
  intro j
  simp only [List.getElem?_modify, List.getElem?_set]
  by_cases h1 : i = j
  · subst h1
    obtain ⟨hl, rfl⟩ := List.getElem?_eq_some_iff.mp h
    simp [hl]
  · simp [h1]

/-! ### state lemmas: a variable the op does not act on -/

theorem matchL_modify_free (st : List Bool) (vars : List Nat) (vals : List Bool) (v : Nat)
    (f : Bool → Bool) (h : v ∉ vars) : matchL (st.modify v f) vars vals = matchL st vars vals := by
  unfold matchL
  apply all_congr_mem
  intro x hx
  have : v ≠ x.1 := fun e => h (e ▸ (List.of_mem_zip hx).1)
  simp [this]

theorem writeVars_modify_free (st : List Bool) (vars : List Nat) (vals : List Bool) (v : Nat)
    (f : Bool → Bool) (h : v ∉ vars) :
    writeVars (st.modify v f) vars vals = (writeVars st vars vals).modify v f := by
  induction vars generalizing st vals with
  | nil => simp [writeVars]
  | cons w ws ih =>
    cases vals with
    | nil => simp [writeVars]
    | cons x xs =>
      have hw : v ≠ w := fun e => h (by simp [e])
      rw [writeVars_cons, writeVars_cons, modify_set_ne _ _ _ _ _ hw]
      exact ih _ _ (fun hm => h (by simp [hm]))

theorem applyOp_modify_free (st : List Bool) (o : Op) (v : Nat) (f : Bool → Bool) (h : v ∉ o.vars) :
    applyOp (st.modify v f) o = (applyOp st o).map (·.modify v f) := by
  unfold applyOp
  rw [inputsMatch_eq, inputsMatch_eq, matchL_modify_free st o.vars o.ins v f h]
  split
  · simp [writeVars_modify_free _ _ _ _ _ h]
  · rfl

/-- a variable no op of the segment acts on is carried through `propagate` with any change -/
theorem propagate_modify_free (seg : Slots) (st : List Bool) (v : Nat) (f : Bool → Bool)
    (h : ∀ o, some o ∈ seg → v ∉ o.vars) :
    propagate (st.modify v f) seg = (propagate st seg).map (·.modify v f) := by
  induction seg generalizing st with
  | nil => rfl
  | cons a t ih =>
    have ht : ∀ o, some o ∈ t → v ∉ o.vars := fun o ho => h o (by simp [ho])
    cases a with
    | none => simp only [propagate]; exact ih st ht
    | some o =>
      simp only [propagate]
      rw [applyOp_modify_free st o v f (h o (by simp))]
      cases applyOp st o with
      | none => rfl
      | some st' => simp only [Option.map_some]; exact ih st' ht

theorem writeVars_get_free (st : List Bool) (vars : List Nat) (vals : List Bool) (v : Nat)
    (h : v ∉ vars) : (writeVars st vars vals)[v]? = st[v]? := by
  induction vars generalizing st vals with
  | nil => simp [writeVars]
  | cons w ws ih =>
    cases vals with
    | nil => simp [writeVars]
    | cons x xs =>
      have hw : w ≠ v := fun e => h (by simp [e])
      rw [writeVars_cons, ih _ _ (fun hm => h (by simp [hm])), List.getElem?_set_ne hw]

theorem propagate_get_free (seg : Slots) (st r : List Bool) (v : Nat)
    (h : ∀ o, some o ∈ seg → v ∉ o.vars) (hp : propagate st seg = some r) : r[v]? = st[v]? := by
  induction seg generalizing st with
  | nil => simp [propagate] at hp; rw [hp]
  | cons a t ih =>
    have ht : ∀ o, some o ∈ t → v ∉ o.vars := fun o ho => h o (by simp [ho])
    cases a with
    | none => exact ih st ht (by simpa [propagate] using hp)
    | some o =>
      obtain ⟨_, h2⟩ := propagate_some_eq hp
      rw [ih _ ht h2, writeVars_get_free _ _ _ _ (h o (by simp))]

/-! ### state lemmas: a variable the op acts on -/

/-- structural part of `Op.WF` that `propagate` cares about -/
def OpOK (o : Op) : Prop :=
  o.ins.length = o.vars.length ∧ o.outs.length = o.vars.length ∧ o.vars.Nodup

theorem matchL_get (st : List Bool) (vars : List Nat) (vals : List Bool) (r : Nat)
    (hm : matchL st vars vals = true) (h1 : r < vars.length) (h2 : r < vals.length) :
    st[vars[r]]? = some vals[r] := by
  induction vars generalizing vals r with
  | nil => simp at h1
  | cons w ws ih =>
    cases vals with
    | nil => simp at h2
    | cons x xs =>
      rw [matchL_cons, Bool.and_eq_true] at hm
      cases r with
      | zero => simpa using hm.1
      | succ r => simpa using ih xs r hm.2 (by simpa using h1) (by simpa using h2)

theorem writeVars_get (st : List Bool) (vars : List Nat) (vals : List Bool) (r : Nat)
    (hn : vars.Nodup) (h1 : r < vars.length) (h2 : r < vals.length) (hv : vars[r] < st.length) :
    (writeVars st vars vals)[vars[r]]? = some vals[r] := by
  induction vars generalizing st vals r with
  | nil => simp at h1
  | cons w ws ih =>
    cases vals with
    | nil => simp at h2
    | cons x xs =>
      have hn' := List.nodup_cons.mp hn
      rw [writeVars_cons]
      cases r with
      | zero =>
        simp only [List.getElem_cons_zero] at hv ⊢
        rw [writeVars_get_free _ _ _ _ hn'.1]
        simp [hv]
      | succ r =>
        simp only [List.getElem_cons_succ] at hv ⊢
        exact ih _ xs r hn'.2 (by simpa using h1) (by simpa using h2) (by simpa using hv)

/-- toggling output `r` toggles the written state at `vars[r]` -/
theorem writeVars_modify_out (st : List Bool) (vars : List Nat) (vals : List Bool) (r : Nat)
    (hn : vars.Nodup) (h1 : r < vars.length) (h2 : r < vals.length) :
    writeVars st vars (vals.modify r not) = (writeVars st vars vals).modify vars[r] not := by
  induction vars generalizing st vals r with
  | nil => simp at h1
  | cons w ws ih =>
    have hn' := List.nodup_cons.mp hn
    cases vals with
    | nil => simp at h2
    | cons x xs =>
      cases r with
      | zero =>
        simp only [List.modify_zero_cons, List.getElem_cons_zero]
        rw [writeVars_cons, writeVars_cons, writeVars_set_comm _ _ _ _ _ hn'.1,
          writeVars_set_comm _ _ _ _ _ hn'.1, set_modify_same]
      | succ r =>
        simp only [List.modify_succ_cons, List.getElem_cons_succ]
        rw [writeVars_cons, writeVars_cons]
        exact ih _ xs r hn'.2 (by simpa using h1) (by simpa using h2)

/-- a changed incoming value at `v ∈ vars` is overwritten -/
theorem writeVars_modify_mem (st : List Bool) (vars : List Nat) (vals : List Bool) (v : Nat)
    (f : Bool → Bool) (hl : vals.length = vars.length) (hv : v ∈ vars) :
    writeVars (st.modify v f) vars vals = writeVars st vars vals := by
  induction vars generalizing st vals with
  | nil => simp at hv
  | cons w ws ih =>
    cases vals with
    | nil => simp at hl
    | cons x xs =>
      rw [writeVars_cons, writeVars_cons]
      by_cases he : v = w
      · subst he; rw [modify_set_same]
      · rw [modify_set_ne _ _ _ _ _ he]
        exact ih _ xs (by simpa using hl) (by simpa [he] using hv)

/-- toggling input `r` is matched by the toggled incoming value at `vars[r]` -/
theorem matchL_modify_in (st : List Bool) (vars : List Nat) (vals : List Bool) (r : Nat)
    (hn : vars.Nodup) (h1 : r < vars.length) (hm : matchL st vars vals = true) :
    matchL (st.modify vars[r] not) vars (vals.modify r not) = true := by
  induction vars generalizing vals r with
  | nil => simp at h1
  | cons w ws ih =>
    have hn' := List.nodup_cons.mp hn
    cases vals with
    | nil => simp [matchL]
    | cons x xs =>
      rw [matchL_cons, Bool.and_eq_true] at hm
      have hw : st[w]? = some x := by simpa using hm.1
      cases r with
      | zero =>
        simp only [List.modify_zero_cons, List.getElem_cons_zero]
        rw [matchL_cons, Bool.and_eq_true, matchL_modify_free _ _ _ _ _ hn'.1]
        refine ⟨?_, hm.2⟩
        simp [hw]
      | succ r =>
        simp only [List.modify_succ_cons, List.getElem_cons_succ]
        have hr : r < ws.length := by simpa using h1
        have hne : ws[r] ≠ w := by
          intro e
          exact hn'.1 (e ▸ List.getElem_mem _)
        rw [matchL_cons, Bool.and_eq_true]
        refine ⟨?_, ih xs r hn'.2 hr hm.2⟩
        simp [hne, hw]

/-! ### toggling one leg of an op -/

/-- `adjust_states` on one leg, every other field (also the tag) kept -/
def togOp (o : Op) (l : Leg) : Op :=
  { o with ins := (flipIO (o.ins, o.outs) l).1, outs := (flipIO (o.ins, o.outs) l).2 }

theorem togOp_vars (o : Op) (l : Leg) : (togOp o l).vars = o.vars := rfl

theorem togOp_out (o : Op) (r : Nat) :
    (togOp o ⟨r, true⟩).ins = o.ins ∧ (togOp o ⟨r, true⟩).outs = o.outs.modify r not := by
  simp [togOp, flipIO]

theorem togOp_in (o : Op) (r : Nat) :
    (togOp o ⟨r, false⟩).ins = o.ins.modify r not ∧ (togOp o ⟨r, false⟩).outs = o.outs := by
  simp [togOp, flipIO]

theorem togOp_OK (o : Op) (l : Leg) (h : OpOK o) : OpOK (togOp o l) := by
  obtain ⟨h1, h2, h3⟩ := h
  have := flipIO_length (o.ins, o.outs) l
  exact ⟨by simp only [togOp]; rw [this.1]; exact h1, by simp only [togOp]; rw [this.2]; exact h2, h3⟩

theorem togOp_togOp (o : Op) (l : Leg) : togOp (togOp o l) l = o := by
  simp only [togOp, Prod.mk.eta, flipIO_flipIO]

theorem togOp_comm (o : Op) (a b : Leg) : togOp (togOp o a) b = togOp (togOp o b) a := by
  simp only [togOp, Prod.mk.eta, flipIO_comm (o.ins, o.outs) a b]

/-- **P2**: with output leg `r` toggled the op writes the toggled value at `vars[r]` -/
theorem applyOp_tog_out (st m : List Bool) (o : Op) (r : Nat) (hok : OpOK o) (hr : r < o.vars.length)
    (h : applyOp st o = some m) :
    applyOp st (togOp o ⟨r, true⟩) = some (m.modify o.vars[r] not) := by
  obtain ⟨hm, rfl⟩ := applyOp_eq_some h
  obtain ⟨e1, e2⟩ := togOp_out o r
  have hm' : inputsMatch st (togOp o ⟨r, true⟩) = true := by
    rw [inputsMatch_eq, e1, togOp_vars]; exact hm
  rw [applyOp_of_match hm', e2, togOp_vars,
    writeVars_modify_out st o.vars o.outs r hok.2.2 hr (by rw [hok.2.1]; exact hr)]

/-- **P3**: with input leg `r` toggled the op accepts the state toggled at `vars[r]` and writes
the same outputs -/
theorem applyOp_tog_in (st m : List Bool) (o : Op) (r : Nat) (hok : OpOK o) (hr : r < o.vars.length)
    (h : applyOp st o = some m) :
    applyOp (st.modify o.vars[r] not) (togOp o ⟨r, false⟩) = some m := by
  obtain ⟨hm, rfl⟩ := applyOp_eq_some h
  obtain ⟨e1, e2⟩ := togOp_in o r
  have hm' : inputsMatch (st.modify o.vars[r] not) (togOp o ⟨r, false⟩) = true := by
    rw [inputsMatch_eq, e1, togOp_vars]
    exact matchL_modify_in st o.vars o.ins r hok.2.2 hr hm
  rw [applyOp_of_match hm', e2, togOp_vars,
    writeVars_modify_mem st o.vars o.outs _ not hok.2.1 (List.getElem_mem hr)]

/-! ### cutting the string at one position -/

theorem split_at (V : Slots) (a : Nat) (x : Option Op) (h : V[a]? = some x) :
    V = V.take a ++ x :: V.drop (a + 1) := by
  obtain ⟨hl, rfl⟩ := List.getElem?_eq_some_iff.mp h
  rw [← List.drop_eq_getElem_cons hl, List.take_append_drop]

theorem propagate_at {st fin : List Bool} {V : Slots} (h : propagate st V = some fin) (a : Nat)
    (o : Op) (ha : V[a]? = some (some o)) :
    ∃ m m', propagate st (V.take a) = some m ∧ applyOp m o = some m' ∧
      propagate m' (V.drop (a + 1)) = some fin := by
  rw [split_at V a _ ha] at h
  obtain ⟨m, h1, h2⟩ := propagate_append h
  obtain ⟨hm, h3⟩ := propagate_some_eq h2
  exact ⟨m, _, h1, applyOp_of_match hm, h3⟩

theorem propagate_at_of {st m m' fin : List Bool} {V : Slots} {a : Nat} {o' : Op}
    (ha : a < V.length) (h1 : propagate st (V.take a) = some m) (h2 : applyOp m o' = some m')
    (h3 : propagate m' (V.drop (a + 1)) = some fin) :
    propagate st (V.set a (some o')) = some fin := by
  rw [List.set_eq_take_append_cons_drop, if_pos ha]
  apply propagate_append_of h1
  simp only [propagate, h2]
  exact h3

/-- no op in positions `[lo, hi)` acts on `v` -/
def FreeIn (V : Slots) (v lo hi : Nat) : Prop :=
  ∀ j o, lo ≤ j → j < hi → V[j]? = some (some o) → v ∉ o.vars

theorem free_take (V : Slots) (v a : Nat) (h : FreeIn V v 0 a) :
    ∀ o, some o ∈ V.take a → v ∉ o.vars := by
  intro o ho
  obtain ⟨j, hj⟩ := List.mem_iff_getElem?.mp ho
  rw [List.getElem?_take] at hj
  split at hj
  · rename_i hlt; exact h j o (Nat.zero_le _) hlt hj
  · cases hj

theorem free_drop (V : Slots) (v b : Nat) (h : FreeIn V v (b + 1) V.length) :
    ∀ o, some o ∈ V.drop (b + 1) → v ∉ o.vars := by
  intro o ho
  obtain ⟨j, hj⟩ := List.mem_iff_getElem?.mp ho
  rw [List.getElem?_drop] at hj
  have hl : b + 1 + j < V.length := (List.getElem?_eq_some_iff.mp hj).1
  exact h (b + 1 + j) o (by omega) hl hj

theorem free_mid (V : Slots) (v a b : Nat) (h : FreeIn V v (a + 1) b) :
    ∀ o, some o ∈ (V.take b).drop (a + 1) → v ∉ o.vars := by
  intro o ho
  obtain ⟨j, hj⟩ := List.mem_iff_getElem?.mp ho
  rw [List.getElem?_drop, List.getElem?_take] at hj
  split at hj
  · rename_i hlt; exact h (a + 1 + j) o (by omega) hlt hj
  · cases hj

/-! ### flipping both ends of one link keeps the string propagating -/

/-- **S1** inner link: `o1` at `a` (output leg `r1`) is linked to `o2` at `b > a` (input leg `r2`) -/
theorem link_inner {st fin : List Bool} {V : Slots} (h : propagate st V = some fin)
    (a b r1 r2 : Nat) (o1 o2 : Op) (hab : a < b)
    (h1 : V[a]? = some (some o1)) (h2 : V[b]? = some (some o2))
    (ok1 : OpOK o1) (ok2 : OpOK o2) (hr1 : r1 < o1.vars.length) (hr2 : r2 < o2.vars.length)
    (hv : o2.vars[r2] = o1.vars[r1]) (hfree : FreeIn V o1.vars[r1] (a + 1) b) :
    propagate st ((V.set a (some (togOp o1 ⟨r1, true⟩))).set b (some (togOp o2 ⟨r2, false⟩)))
      = some fin := by
  have hbl : b < V.length := (List.getElem?_eq_some_iff.mp h2).1
  obtain ⟨m3, m4, p1, p2, p3⟩ := propagate_at h b o2 h2
  have h1' : (V.take b)[a]? = some (some o1) := by rw [List.getElem?_take, if_pos hab]; exact h1
  obtain ⟨m1, m2, q1, q2, q3⟩ := propagate_at p1 a o1 h1'
  -- first part, up to b
  have hA : propagate st ((V.set a (some (togOp o1 ⟨r1, true⟩))).take b)
      = some (m3.modify o1.vars[r1] not) := by
    rw [List.take_set]
    refine propagate_at_of (by rw [List.length_take]; omega) q1
      (applyOp_tog_out _ _ o1 r1 ok1 hr1 q2) ?_
    rw [propagate_modify_free _ _ _ _ (free_mid V _ a b hfree), q3]
    rfl
  refine propagate_at_of (m' := m4) (by rw [List.length_set]; exact hbl) hA ?_ ?_
  · have := applyOp_tog_in m3 m4 o2 r2 ok2 hr2 p2
    rw [hv] at this
    exact this
  · rw [List.drop_set_of_lt (by omega)]
    exact p3

/-- **S2** link through the time boundary, two ops: `o2` at `a` is the first op on `v` (input leg
`r2`), `o1` at `b > a` the last one (output leg `r1`); the state at `v` is toggled with them -/
theorem link_wrap {st fin : List Bool} {V : Slots} (h : propagate st V = some fin)
    (a b r1 r2 : Nat) (o1 o2 : Op) (hab : a < b)
    (h2 : V[a]? = some (some o2)) (h1 : V[b]? = some (some o1))
    (ok1 : OpOK o1) (ok2 : OpOK o2) (hr1 : r1 < o1.vars.length) (hr2 : r2 < o2.vars.length)
    (hv : o2.vars[r2] = o1.vars[r1]) (hfa : FreeIn V o1.vars[r1] 0 a)
    (hfb : FreeIn V o1.vars[r1] (b + 1) V.length) :
    propagate (st.modify o1.vars[r1] not)
        ((V.set a (some (togOp o2 ⟨r2, false⟩))).set b (some (togOp o1 ⟨r1, true⟩)))
      = some (fin.modify o1.vars[r1] not) := by
  have hbl : b < V.length := (List.getElem?_eq_some_iff.mp h1).1
  obtain ⟨m3, m4, p1, p2, p3⟩ := propagate_at h b o1 h1
  have h2' : (V.take b)[a]? = some (some o2) := by rw [List.getElem?_take, if_pos hab]; exact h2
  obtain ⟨m1, m2, q1, q2, q3⟩ := propagate_at p1 a o2 h2'
  have hA : propagate (st.modify o1.vars[r1] not) ((V.set a (some (togOp o2 ⟨r2, false⟩))).take b)
      = some m3 := by
    rw [List.take_set]
    refine propagate_at_of (m := m1.modify o1.vars[r1] not) (by rw [List.length_take]; omega) ?_ ?_ q3
    · rw [List.take_take, Nat.min_eq_left (by omega)] at q1 ⊢
      rw [propagate_modify_free _ _ _ _ (free_take V _ a hfa), q1]
      rfl
    · have := applyOp_tog_in m1 m2 o2 r2 ok2 hr2 q2
      rw [hv] at this
      exact this
  refine propagate_at_of (by rw [List.length_set]; exact hbl) hA
    (applyOp_tog_out _ _ o1 r1 ok1 hr1 p2) ?_
  rw [List.drop_set_of_lt (by omega), propagate_modify_free _ _ _ _ (free_drop V _ b hfb), p3]
  rfl

/-- **S3** link through the time boundary when `o` at `a` is the only op on `v`: its own input
and output leg are the two ends -/
theorem link_self {st fin : List Bool} {V : Slots} (h : propagate st V = some fin)
    (a r : Nat) (o : Op) (h1 : V[a]? = some (some o)) (ok : OpOK o) (hr : r < o.vars.length)
    (hfa : FreeIn V o.vars[r] 0 a) (hfb : FreeIn V o.vars[r] (a + 1) V.length) :
    propagate (st.modify o.vars[r] not)
        (V.set a (some (togOp (togOp o ⟨r, false⟩) ⟨r, true⟩)))
      = some (fin.modify o.vars[r] not) := by
  have hal : a < V.length := (List.getElem?_eq_some_iff.mp h1).1
  obtain ⟨m1, m2, p1, p2, p3⟩ := propagate_at h a o h1
  refine propagate_at_of (m := m1.modify o.vars[r] not) (m' := m2.modify o.vars[r] not) hal ?_ ?_ ?_
  · rw [propagate_modify_free _ _ _ _ (free_take V _ a hfa), p1]; rfl
  · exact applyOp_tog_out _ _ (togOp o ⟨r, false⟩) r (togOp_OK _ _ ok) hr
      (applyOp_tog_in m1 m2 o r ok hr p2)
  · rw [propagate_modify_free _ _ _ _ (free_drop V _ a hfb), p3]; rfl

/-! ### toggling a leg inside the string -/

def togAt (s : Slots) (x : Nat × Leg) : Slots := s.modify x.1 (Option.map (fun o => togOp o x.2))

theorem togAt_length (s : Slots) (x : Nat × Leg) : (togAt s x).length = s.length := by
  simp [togAt]

theorem togAt_getElem? (s : Slots) (x : Nat × Leg) (j : Nat) :
    (togAt s x)[j]? = if x.1 = j then (s[j]?).map (Option.map (fun o => togOp o x.2)) else s[j]? := by
  unfold togAt
  rw [List.getElem?_modify]
  by_cases h : x.1 = j <;> simp [h]

theorem togAt_togAt (s : Slots) (x : Nat × Leg) : togAt (togAt s x) x = s := by
  unfold togAt
  rw [List.modify_modify_eq]
  have : (Option.map (fun o => togOp o x.2) ∘ Option.map (fun o => togOp o x.2)) = id := by
    funext o; cases o <;> simp [togOp_togOp]
  rw [this, List.modify_id]

theorem togAt_comm (s : Slots) (x y : Nat × Leg) : togAt (togAt s x) y = togAt (togAt s y) x := by
  unfold togAt
  by_cases h : x.1 = y.1
  · rw [h, List.modify_modify_eq, List.modify_modify_eq]
    congr 1
    funext o; cases o <;> simp [togOp_comm]
  · exact List.modify_modify_ne _ _ _ h

theorem togAt_eq_set (s : Slots) (x : Nat × Leg) (o : Op) (h : s[x.1]? = some (some o)) :
    togAt s x = s.set x.1 (some (togOp o x.2)) := by
  unfold togAt
  rw [List.modify_eq_set_getElem?, h]
  rfl

/-- what `togAt` leaves alone: which variables sit at which position -/
theorem togAt_some (s : Slots) (x : Nat × Leg) (j : Nat) (o : Op) (h : (togAt s x)[j]? = some (some o)) :
    ∃ o0, s[j]? = some (some o0) ∧ o.vars = o0.vars ∧ (OpOK o0 → OpOK o) := by
  rw [togAt_getElem?] at h
  split at h
  · cases hs : s[j]? with
    | none => rw [hs] at h; cases h
    | some y =>
      cases y with
      | none => rw [hs] at h; cases h
      | some o0 =>
        rw [hs] at h
        simp only [Option.map_some, Option.some.injEq] at h
        subst h
        exact ⟨o0, rfl, rfl, togOp_OK _ _⟩
  · exact ⟨o, h, rfl, id⟩

theorem occV_togAt (s : Slots) (x : Nat × Leg) (v : Nat) : occV (togAt s x) v = occV s v := by
  unfold occV
  rw [togAt_length]
  apply List.filterMap_congr
  intro p _
  rw [togAt_getElem?]
  by_cases hx : x.1 = p
  · rw [if_pos hx]
    cases s[p]? with
    | none => rfl
    | some y =>
      cases y with
      | none => rfl
      | some o => rfl
  · rw [if_neg hx]

/-! ### the navigation getters, read as statements about positions -/

theorem indexOfVar_some {o : Op} {v r : Nat} (h : o.indexOfVar v = some r) :
    ∃ hr : r < o.vars.length, o.vars[r] = v := by
  unfold Op.indexOfVar at h
  simp only at h
  split at h
  · rename_i hlt
    injection h with h; subst h
    exact ⟨hlt, List.getElem_idxOf hlt⟩
  · cases h

theorem indexOfVar_of_mem {o : Op} {v : Nat} (h : v ∈ o.vars) : ∃ r, o.indexOfVar v = some r := by
  unfold Op.indexOfVar
  simp only
  rw [if_pos (List.idxOf_lt_length_of_mem h)]
  exact ⟨_, rfl⟩

theorem indexOfVar_getElem {o : Op} (hn : o.vars.Nodup) (r : Nat) (hr : r < o.vars.length) :
    o.indexOfVar o.vars[r] = some r := by
  unfold Op.indexOfVar
  simp only
  rw [hn.idxOf_getElem r hr, if_pos hr]

theorem mem_occV (s : Slots) (v q r : Nat) :
    (q, r) ∈ occV s v ↔ ∃ o, s[q]? = some (some o) ∧ o.indexOfVar v = some r := by
  unfold occV
  rw [List.mem_filterMap]
  constructor
  · rintro ⟨p, _, hp⟩
    cases hs : s[p]? with
    | none => rw [hs] at hp; cases hp
    | some y =>
      cases y with
      | none => rw [hs] at hp; cases hp
      | some o =>
        rw [hs] at hp
        simp only [Option.map_eq_some_iff, Prod.mk.injEq] at hp
        obtain ⟨r', hr', rfl, rfl⟩ := hp
        exact ⟨o, hs, hr'⟩
  · rintro ⟨o, ho, hr⟩
    refine ⟨q, List.mem_range.mpr (List.getElem?_eq_some_iff.mp ho).1, ?_⟩
    rw [ho]; simp [hr]

theorem occV_sorted (s : Slots) (v : Nat) : (occV s v).Pairwise (fun a b => a.1 < b.1) := by
  unfold occV
  refine List.Pairwise.filterMap _ ?_ List.pairwise_lt_range
  intro a a' haa b hb b' hb'
  have e1 : b.1 = a := by
    cases hs : s[a]? with
    | none => rw [hs] at hb; cases hb
    | some y =>
      cases y with
      | none => rw [hs] at hb; cases hb
      | some o =>
        rw [hs] at hb
        simp only [Option.map_eq_some_iff] at hb
        obtain ⟨_, _, rfl⟩ := hb; rfl
  have e2 : b'.1 = a' := by
    cases hs : s[a']? with
    | none => rw [hs] at hb'; cases hb'
    | some y =>
      cases y with
      | none => rw [hs] at hb'; cases hb'
      | some o =>
        rw [hs] at hb'
        simp only [Option.map_eq_some_iff] at hb'
        obtain ⟨_, _, rfl⟩ := hb'; rfl
  rw [e1, e2]; exact haa

/-- an op acting on `v` shows up in `occV` -/
theorem occV_of_touch (s : Slots) (v j : Nat) (o : Op) (h : s[j]? = some (some o)) (hv : v ∈ o.vars) :
    ∃ r, (j, r) ∈ occV s v := by
  obtain ⟨r, hr⟩ := indexOfVar_of_mem hv
  exact ⟨r, (mem_occV s v j r).mpr ⟨o, h, hr⟩⟩

theorem nextForVar_some {s : Slots} {v p q r : Nat} (h : nextForVar s v p = some (q, r)) :
    p < q ∧ (∃ o, s[q]? = some (some o) ∧ o.indexOfVar v = some r) ∧ FreeIn s v (p + 1) q := by
  unfold nextForVar at h
  obtain ⟨hp, as, bs, heq, has⟩ := List.find?_eq_some_iff_append.mp h
  have hpq : p < q := by simpa using hp
  have hmem : (q, r) ∈ occV s v := by rw [heq]; simp
  refine ⟨hpq, (mem_occV s v q r).mp hmem, ?_⟩
  intro j o hj1 hj2 ho hv
  obtain ⟨r', hr'⟩ := occV_of_touch s v j o ho hv
  have hsorted := occV_sorted s v
  rw [heq] at hr' hsorted
  rcases List.mem_append.mp hr' with h1 | h1
  · have := has _ h1
    simp at this
    omega
  · rcases List.mem_cons.mp h1 with h2 | h2
    · injection h2 with h2 _; omega
    · have := (List.pairwise_cons.mp (List.pairwise_append.mp hsorted).2.1).1 _ h2
      simp at this
      omega

theorem nextForVar_none {s : Slots} {v p : Nat} (h : nextForVar s v p = none) :
    FreeIn s v (p + 1) s.length := by
  unfold nextForVar at h
  rw [List.find?_eq_none] at h
  intro j o hj1 _ ho hv
  obtain ⟨r', hr'⟩ := occV_of_touch s v j o ho hv
  have := h _ hr'
  simp at this
  omega

theorem prevForVar_some {s : Slots} {v p q r : Nat} (h : prevForVar s v p = some (q, r)) :
    q < p ∧ (∃ o, s[q]? = some (some o) ∧ o.indexOfVar v = some r) ∧ FreeIn s v (q + 1) p := by
  unfold prevForVar at h
  obtain ⟨hp, as, bs, heq, has⟩ := List.find?_eq_some_iff_append.mp h
  have hpq : q < p := by simpa using hp
  have hmem : (q, r) ∈ occV s v := by
    rw [← List.mem_reverse, heq]; simp
  refine ⟨hpq, (mem_occV s v q r).mp hmem, ?_⟩
  intro j o hj1 hj2 ho hv
  obtain ⟨r', hr'⟩ := occV_of_touch s v j o ho hv
  have hsorted := List.pairwise_reverse.mpr (occV_sorted s v)
  rw [← List.mem_reverse] at hr'
  rw [heq] at hr' hsorted
  rcases List.mem_append.mp hr' with h1 | h1
  · have := has _ h1
    simp at this
    omega
  · rcases List.mem_cons.mp h1 with h2 | h2
    · injection h2 with h2 _; omega
    · have := (List.pairwise_cons.mp (List.pairwise_append.mp hsorted).2.1).1 _ h2
      simp at this
      omega

theorem prevForVar_none {s : Slots} {v p : Nat} (h : prevForVar s v p = none) :
    FreeIn s v 0 p := by
  unfold prevForVar at h
  rw [List.find?_eq_none] at h
  intro j o _ hj2 ho hv
  obtain ⟨r', hr'⟩ := occV_of_touch s v j o ho hv
  have := h _ (List.mem_reverse.mpr hr')
  simp at this
  omega

theorem firstForVar_some {s : Slots} {v q r : Nat} (h : firstForVar s v = some (q, r)) :
    (∃ o, s[q]? = some (some o) ∧ o.indexOfVar v = some r) ∧ FreeIn s v 0 q := by
  unfold firstForVar at h
  obtain ⟨ys, heq⟩ := List.head?_eq_some_iff.mp h
  have hmem : (q, r) ∈ occV s v := by rw [heq]; simp
  refine ⟨(mem_occV s v q r).mp hmem, ?_⟩
  intro j o _ hj2 ho hv
  obtain ⟨r', hr'⟩ := occV_of_touch s v j o ho hv
  have hsorted := occV_sorted s v
  rw [heq] at hr' hsorted
  rcases List.mem_cons.mp hr' with h2 | h2
  · injection h2 with h2 _; omega
  · have := (List.pairwise_cons.mp hsorted).1 _ h2
    simp at this
    omega

theorem lastForVar_some {s : Slots} {v q r : Nat} (h : lastForVar s v = some (q, r)) :
    (∃ o, s[q]? = some (some o) ∧ o.indexOfVar v = some r) ∧ FreeIn s v (q + 1) s.length := by
  unfold lastForVar at h
  obtain ⟨ys, heq⟩ := List.getLast?_eq_some_iff.mp h
  have hmem : (q, r) ∈ occV s v := by rw [heq]; simp
  refine ⟨(mem_occV s v q r).mp hmem, ?_⟩
  intro j o hj1 _ ho hv
  obtain ⟨r', hr'⟩ := occV_of_touch s v j o ho hv
  have hsorted := occV_sorted s v
  rw [heq] at hr' hsorted
  rcases List.mem_append.mp hr' with h1 | h1
  · have := (List.pairwise_append.mp hsorted).2.2 _ h1 (q, r) (by simp)
    simp at this
    omega
  · simp at h1
    omega

/-! ### the link lemma in the form the walk uses it -/

def SlotsOK (V : Slots) : Prop := ∀ (j : Nat) (o : Op), V[j]? = some (some o) → OpOK o

/-- value of one leg -/
def legVal (o : Op) (l : Leg) : Bool :=
  if l.out then o.outs.getD l.rel false else o.ins.getD l.rel false

theorem togAt2_ne (V : Slots) (a b : Nat) (la lb : Leg) (oa ob : Op) (hab : a ≠ b)
    (ha : V[a]? = some (some oa)) (hb : V[b]? = some (some ob)) :
    togAt (togAt V (a, la)) (b, lb) = (V.set a (some (togOp oa la))).set b (some (togOp ob lb)) := by
  rw [togAt_eq_set V (a, la) oa ha]
  apply togAt_eq_set
  simp only
  rw [List.getElem?_set_ne hab]
  exact hb

theorem togAt2_same (V : Slots) (a : Nat) (l1 l2 : Leg) (o : Op) (ha : V[a]? = some (some o)) :
    togAt (togAt V (a, l1)) (a, l2) = V.set a (some (togOp (togOp o l1) l2)) := by
  have hl : a < V.length := (List.getElem?_eq_some_iff.mp ha).1
  rw [togAt_eq_set V (a, l1) o ha]
  rw [togAt_eq_set _ (a, l2) (togOp o l1) (by simp [hl])]
  simp

/-- in a periodic string the output of the last op on `v` is the state at `v` -/
theorem val_out {st : List Bool} {V : Slots} (hc : propagate st V = some st) (pos r : Nat) (o : Op)
    (hop : V[pos]? = some (some o)) (ok : OpOK o) (hr : r < o.vars.length)
    (hf : FreeIn V o.vars[r] (pos + 1) V.length) :
    st[o.vars[r]]? = some (legVal o ⟨r, true⟩) := by
  obtain ⟨m1, m2, p1, p2, p3⟩ := propagate_at hc pos o hop
  obtain ⟨hm, rfl⟩ := applyOp_eq_some p2
  rw [inputsMatch_eq] at hm
  have hro : r < o.outs.length := by rw [ok.2.1]; exact hr
  have hri : r < o.ins.length := by rw [ok.1]; exact hr
  have hlt : o.vars[r] < m1.length := by
    have := matchL_get m1 o.vars o.ins r hm hr hri
    exact (List.getElem?_eq_some_iff.mp this).1
  rw [propagate_get_free _ _ _ _ (free_drop V _ pos hf) p3,
    writeVars_get m1 o.vars o.outs r ok.2.2 hr hro hlt]
  simp [legVal, List.getD, List.getElem?_eq_getElem hro]

/-- in a periodic string the input of the first op on `v` is the state at `v` -/
theorem val_in {st : List Bool} {V : Slots} (hc : propagate st V = some st) (pos r : Nat) (o : Op)
    (hop : V[pos]? = some (some o)) (ok : OpOK o) (hr : r < o.vars.length)
    (hf : FreeIn V o.vars[r] 0 pos) :
    st[o.vars[r]]? = some (legVal o ⟨r, false⟩) := by
  obtain ⟨m1, m2, p1, p2, p3⟩ := propagate_at hc pos o hop
  obtain ⟨hm, _⟩ := applyOp_eq_some p2
  rw [inputsMatch_eq] at hm
  have hri : r < o.ins.length := by rw [ok.1]; exact hr
  rw [← propagate_get_free _ _ _ _ (free_take V _ pos hf) p1, matchL_get m1 o.vars o.ins r hm hr hri]
  simp [legVal, List.getD, List.getElem?_eq_getElem hri]

theorem moveOn_congr (a b : Slots) (h : ∀ v, occV a v = occV b v) (st : List Bool) (pos : Nat)
    (op : Op) (ex : Leg) : moveOn a st pos op ex = moveOn b st pos op ex := by
  unfold moveOn nextForVar prevForVar firstForVar lastForVar
  simp only [h]

/-- **the link lemma**: in a periodic string `V`, toggle the leg `ex` of the op at `pos` and the leg
`moveOn` says it is linked to, with the state the walk writes when the link crosses p = 0
(`op'` is the op the walk reads the new value of the exit leg from): still periodic. -/
theorem link_move {st : List Bool} {V : Slots} (hok : SlotsOK V) (hc : propagate st V = some st)
    (pos : Nat) (oV : Op) (hop : V[pos]? = some (some oV)) (ex : Leg) (hr : ex.rel < oV.vars.length)
    (op' : Op) (hv' : op'.vars = oV.vars) (hval : legVal op' ex = !legVal oV ex)
    (st' : List Bool) (p' r' : Nat) (hm : moveOn V st pos op' ex = (st', some (p', r'))) :
    propagate st' (togAt (togAt V (pos, ex)) (p', ⟨r', !ex.out⟩)) = some st' := by
  have okV := hok pos oV hop
  obtain ⟨r, b⟩ := ex
  simp only at hr
  have hvv : op'.vars.getD r 0 = oV.vars[r] := by
    rw [hv']; simp [List.getD, List.getElem?_eq_getElem hr]
  have htouch : oV.vars[r] ∈ oV.vars := List.getElem_mem hr
  cases b with
  | true =>
    simp only [moveOn, if_true, hvv] at hm
    split at hm
    · -- inner link forward
      rename_i q hq
      injection hm with e1 e2
      subst e1
      injection e2 with e2
      subst e2
      obtain ⟨hlt, ⟨o2, ho2, hi2⟩, hfree⟩ := nextForVar_some hq
      obtain ⟨hr2, hv2⟩ := indexOfVar_some hi2
      rw [togAt2_ne V pos p' _ _ oV o2 (by omega) hop ho2]
      exact link_inner hc pos p' r r' oV o2 hlt hop ho2 okV (hok _ _ ho2) hr hr2 hv2 hfree
    · -- through the boundary, forward
      rename_i hq
      injection hm with e1 e2
      have hfb := nextForVar_none hq
      obtain ⟨⟨o2, ho2, hi2⟩, hfa⟩ := firstForVar_some e2
      obtain ⟨hr2, hv2⟩ := indexOfVar_some hi2
      have hst : st' = st.modify oV.vars[r] not := by
        rw [← e1]
        have h1 := val_out hc pos r oV hop okV hr hfb
        have h2 : op'.outs.getD r false = !legVal oV ⟨r, true⟩ := by
          rw [← hval]; simp [legVal]
        rw [h2]
        exact set_eq_modify_not _ _ _ h1
      rw [hst]
      have hle : p' ≤ pos := by
        by_contra hcon
        exact hfa pos oV (Nat.zero_le _) (by omega) hop htouch
      rcases Nat.lt_or_eq_of_le hle with hlt | heq
      · rw [togAt_comm, togAt2_ne V p' pos _ _ o2 oV (by omega) ho2 hop]
        exact link_wrap hc p' pos r r' oV o2 hlt ho2 hop okV (hok _ _ ho2) hr hr2 hv2 hfa hfb
      · subst heq
        rw [hop] at ho2
        injection ho2 with ho2; injection ho2 with ho2; subst ho2
        have : r' = r := by
          have := indexOfVar_getElem okV.2.2 r hr
          rw [hi2] at this; injection this
        subst this
        rw [togAt_comm, togAt2_same V p' _ _ oV hop]
        exact link_self hc p' r' oV hop okV hr hfa hfb
  | false =>
    simp only [moveOn, Bool.false_eq_true, if_false, hvv] at hm
    split at hm
    · -- inner link backward
      rename_i q hq
      injection hm with e1 e2
      subst e1
      injection e2 with e2
      subst e2
      obtain ⟨hlt, ⟨o1, ho1, hi1⟩, hfree⟩ := prevForVar_some hq
      obtain ⟨hr1, hv1⟩ := indexOfVar_some hi1
      rw [togAt_comm, togAt2_ne V p' pos _ _ o1 oV (by omega) ho1 hop]
      have hfree' : FreeIn V o1.vars[r'] (p' + 1) pos := by rw [hv1]; exact hfree
      exact link_inner hc p' pos r' r o1 oV hlt ho1 hop (hok _ _ ho1) okV hr1 hr hv1.symm hfree'
    · -- through the boundary, backward
      rename_i hq
      injection hm with e1 e2
      have hfa := prevForVar_none hq
      obtain ⟨⟨o1, ho1, hi1⟩, hfb⟩ := lastForVar_some e2
      obtain ⟨hr1, hv1⟩ := indexOfVar_some hi1
      have hst : st' = st.modify oV.vars[r] not := by
        rw [← e1]
        have h1 := val_in hc pos r oV hop okV hr hfa
        have h2 : op'.ins.getD r false = !legVal oV ⟨r, false⟩ := by
          rw [← hval]; simp [legVal]
        rw [h2]
        exact set_eq_modify_not _ _ _ h1
      rw [hst]
      have hle : pos ≤ p' := by
        by_contra hcon
        have hl : pos < V.length := (List.getElem?_eq_some_iff.mp hop).1
        exact hfb pos oV (by omega) hl hop htouch
      rcases Nat.lt_or_eq_of_le hle with hlt | heq
      · rw [togAt2_ne V pos p' _ _ oV o1 (by omega) hop ho1, ← hv1]
        have hfa' : FreeIn V o1.vars[r'] 0 pos := by rw [hv1]; exact hfa
        have hfb' : FreeIn V o1.vars[r'] (p' + 1) V.length := by rw [hv1]; exact hfb
        exact link_wrap hc pos p' r' r o1 oV hlt hop ho1 (hok _ _ ho1) okV hr1 hr hv1.symm hfa' hfb'
      · subst heq
        rw [hop] at ho1
        injection ho1 with ho1; injection ho1 with ho1; subst ho1
        have : r' = r := by
          have := indexOfVar_getElem okV.2.2 r hr
          rw [hi1] at this; injection this
        subst this
        rw [togAt2_same V pos _ _ oV hop]
        exact link_self hc pos r' oV hop okV hr hfa hfb

/-! ### leg values, tag erasure -/

theorem legVal_togOp_self (o : Op) (l : Leg) (hi : l.rel < o.ins.length) (ho : l.rel < o.outs.length) :
    legVal (togOp o l) l = !legVal o l := by
  obtain ⟨r, b⟩ := l
  cases b <;> simp_all [legVal, togOp, flipIO, List.getD]

theorem legVal_togOp_ne (o : Op) (l l' : Leg) (h : l ≠ l') : legVal (togOp o l) l' = legVal o l' := by
  obtain ⟨r, b⟩ := l
  obtain ⟨r', b'⟩ := l'
  have : b = b' → r ≠ r' := by
    intro e1 e2; exact h (by rw [e1, e2])
  cases b <;> cases b' <;> simp_all [legVal, togOp, flipIO, List.getD]

def retagOp (o : Op) : Op := { o with tagDiag := false }
def retag (s : Slots) : Slots := s.map (Option.map retagOp)

theorem applyOp_retag (st : List Bool) (o : Op) : applyOp st (retagOp o) = applyOp st o := rfl

theorem propagate_retag (st : List Bool) (s : Slots) : propagate st (retag s) = propagate st s := by
  induction s generalizing st with
  | nil => rfl
  | cons a t ih =>
    cases a with
    | none => simp only [retag, List.map_cons, Option.map_none, propagate]; exact ih st
    | some o =>
      simp only [retag, List.map_cons, Option.map_some, propagate, applyOp_retag]
      cases applyOp st o with
      | none => rfl
      | some st' => exact ih st'

theorem retag_getElem? (s : Slots) (j : Nat) : (retag s)[j]? = (s[j]?).map (Option.map retagOp) := by
  simp [retag]

theorem retagOp_passThrough (op : Op) (a b : Leg) :
    retagOp (passThrough op a b) = togOp (togOp (retagOp op) a) b := by
  simp [retagOp, passThrough, Op.withInOut, togOp]

theorem retag_set_passThrough (S : Slots) (pos : Nat) (op : Op) (a b : Leg)
    (h : S[pos]? = some (some op)) :
    retag (S.set pos (some (passThrough op a b))) = togAt (togAt (retag S) (pos, a)) (pos, b) := by
  have h' : (retag S)[pos]? = some (some (retagOp op)) := by rw [retag_getElem?, h]; rfl
  rw [togAt2_same (retag S) pos a b (retagOp op) h', ← retagOp_passThrough]
  simp [retag, List.map_set]

theorem occV_retag (s : Slots) (v : Nat) : occV (retag s) v = occV s v := by
  unfold occV
  have : (retag s).length = s.length := by simp [retag]
  rw [this]
  apply List.filterMap_congr
  intro p _
  rw [retag_getElem?]
  cases s[p]? with
  | none => rfl
  | some y =>
    cases y with
    | none => rfl
    | some o => rfl

theorem slotsOK_retag (s : Slots) (h : WFSlots s) : SlotsOK (retag s) := by
  intro j o ho
  rw [retag_getElem?] at ho
  cases hs : s[j]? with
  | none => rw [hs] at ho; cases ho
  | some y =>
    cases y with
    | none => rw [hs] at ho; cases ho
    | some o0 =>
      rw [hs] at ho
      simp only [Option.map_some, Option.some.injEq] at ho
      subst ho
      obtain ⟨h1, h2, h3, _⟩ := h o0 (List.mem_of_getElem? hs)
      exact ⟨h1, h2, h3⟩

theorem slotsOK_togAt (V : Slots) (x : Nat × Leg) (h : SlotsOK V) : SlotsOK (togAt V x) := by
  intro j o ho
  obtain ⟨o0, h0, _, himp⟩ := togAt_some V x j o ho
  exact himp (h j o0 h0)

/-! ### one vertex visit, by cases -/

/-- the result of one vertex visit, by cases: an error exit (flag raised), or the good path -/
theorem loopBody_cases (w : Nat → List Bool → List Bool → Rat) (init : Nat × Leg) (pos : Nat)
    (ent : Leg) (s : LoopSt) :
    ((loopBody w init pos ent s).2 = none ∧
      ((loopBody w init pos ent s).1.rs.panicked = true ∨ (loopBody w init pos ent s).1.rs.short = true)) ∨
    ∃ op ex, s.slots[pos]? = some (some op) ∧ ex.rel < op.vars.length ∧
      (loopBody w init pos ent s).1.slots = s.slots.set pos (some (passThrough op ent ex)) ∧
      (((pos, ex) = init ∧ (loopBody w init pos ent s).2 = none ∧
          (loopBody w init pos ent s).1.state = s.state) ∨
      ((pos, ex) ≠ init ∧ ∃ st' p' r',
          moveOn s.slots s.state pos (passThrough op ent ex) ex = (st', some (p', r')) ∧
          (loopBody w init pos ent s).1.state = st' ∧
          (((p', (⟨r', !ex.out⟩ : Leg)) = init ∧ (loopBody w init pos ent s).2 = none) ∨
           ((p', (⟨r', !ex.out⟩ : Leg)) ≠ init ∧
              (loopBody w init pos ent s).2 = some (p', ⟨r', !ex.out⟩))))) := by
  unfold loopBody
  split
  · rename_i op hop
    simp only
    split
    · rename_i hfl
      left
      refine ⟨rfl, ?_⟩
      simpa using hfl
    · split
      · left; exact ⟨rfl, Or.inl rfl⟩
      · rename_i j hj
        have hjl := pickIdx_lt hj
        simp only [exitWeights, List.length_map] at hjl
        have hleg : (legsOf op.vars.length).getD j default = (legsOf op.vars.length)[j] := by
          simp [List.getD, List.getElem?_eq_getElem hjl]
        have hrel : ((legsOf op.vars.length).getD j default).rel < op.vars.length := by
          rw [hleg]; exact (mem_legsOf _ _).mp (List.getElem_mem hjl)
        split
        · rename_i hinit
          right
          exact ⟨op, _, hop, hrel, rfl, Or.inl ⟨hinit, rfl, rfl⟩⟩
        · rename_i hinit
          split
          · rename_i st' p' r' hmv
            right
            split
            · rename_i h2
              exact ⟨op, _, hop, hrel, rfl, Or.inr ⟨hinit, st', p', r', hmv, rfl, Or.inl ⟨h2, rfl⟩⟩⟩
            · rename_i h2
              exact ⟨op, _, hop, hrel, rfl, Or.inr ⟨hinit, st', p', r', hmv, rfl, Or.inr ⟨h2, rfl⟩⟩⟩
          · left; exact ⟨rfl, Or.inl rfl⟩
  · left; exact ⟨rfl, Or.inl rfl⟩

/-! ### the invariant and the walk -/

/-- **the two-open-ends invariant** at the head of the visit `(pos, ent)` of a loop started at
`init`: the string with the head leg and the tail leg toggled is periodic for the current state -/
def Inv (init : Nat × Leg) (pos : Nat) (ent : Leg) (s : LoopSt) : Prop :=
  WFSlots s.slots ∧
    propagate s.state (togAt (togAt (retag s.slots) (pos, ent)) init) = some s.state

theorem wf_set_passThrough {slots : Slots} {pos : Nat} {op : Op} (ent ex : Leg) (h : WFSlots slots)
    (hop : slots[pos]? = some (some op)) : WFSlots (slots.set pos (some (passThrough op ent ex))) := by
  intro o ho
  rcases mem_set_some ho with rfl | ho
  · exact passThrough_WF op ent ex (h op (List.mem_of_getElem? hop))
  · exact h o ho

/-- **step lemma**: a visit that continues hands the invariant on; a visit that returns without
raising a flag leaves a periodic string. -/
theorem loopBody_spec (w : Nat → List Bool → List Bool → Rat) (init : Nat × Leg) (pos : Nat)
    (ent : Leg) (s : LoopSt) (h : Inv init pos ent s) :
    (∀ p e, (loopBody w init pos ent s).2 = some (p, e) → Inv init p e (loopBody w init pos ent s).1) ∧
    ((loopBody w init pos ent s).2 = none → (loopBody w init pos ent s).1.rs.panicked = false →
      (loopBody w init pos ent s).1.rs.short = false →
      WFSlots (loopBody w init pos ent s).1.slots ∧
      propagate (loopBody w init pos ent s).1.state (loopBody w init pos ent s).1.slots
        = some (loopBody w init pos ent s).1.state) := by
  obtain ⟨hwf, hc⟩ := h
  rcases loopBody_cases w init pos ent s with ⟨hn, hfl⟩ | ⟨op, ex, hop, hrel, hslots, hcase⟩
  · refine ⟨fun p e he => ?_, fun _ h1 h2 => ?_⟩
    · rw [hn] at he; cases he
    · rcases hfl with hfl | hfl
      · rw [h1] at hfl; cases hfl
      · rw [h2] at hfl; cases hfl
  · have hwf' := wf_set_passThrough ent ex hwf hop
    have hre := retag_set_passThrough s.slots pos op ent ex hop
    rcases hcase with ⟨hinit, hnone, hst⟩ | ⟨hinit, st', p', r', hmv, hst, hfin⟩
    · -- closed through the tail leg itself
      refine ⟨fun p e he => ?_, fun _ _ _ => ?_⟩
      · rw [hnone] at he; cases he
      · rw [hslots, hst]
        refine ⟨hwf', ?_⟩
        rw [← propagate_retag, hre, hinit]
        exact hc
    · -- moved along the link of the exit leg
      have hR : (retag s.slots)[pos]? = some (some (retagOp op)) := by
        rw [retag_getElem?, hop]; rfl
      have hokR : SlotsOK (retag s.slots) := slotsOK_retag _ hwf
      have hok1 : OpOK (togOp (retagOp op) ent) := togOp_OK _ _ (hokR pos _ hR)
      have hokV : SlotsOK (togAt (togAt (retag s.slots) (pos, ent)) init) :=
        slotsOK_togAt _ _ (slotsOK_togAt _ _ hokR)
      -- the op of the virtual string at `pos`
      have h1 : (togAt (retag s.slots) (pos, ent))[pos]? = some (some (togOp (retagOp op) ent)) := by
        rw [togAt_getElem?, if_pos rfl, hR]; rfl
      obtain ⟨oV, hoV, hvars, hlv⟩ : ∃ oV,
          (togAt (togAt (retag s.slots) (pos, ent)) init)[pos]? = some (some oV) ∧
          oV.vars = op.vars ∧ legVal oV ex = legVal (togOp (retagOp op) ent) ex := by
        rw [togAt_getElem?]
        by_cases hi : init.1 = pos
        · rw [if_pos hi, h1]
          refine ⟨_, rfl, rfl, ?_⟩
          apply legVal_togOp_ne
          intro e
          apply hinit
          rw [← e, ← hi]
        · rw [if_neg hi]
          exact ⟨_, h1, rfl, rfl⟩
      have hval : legVal (passThrough op ent ex) ex = !legVal oV ex := by
        have : legVal (passThrough op ent ex) ex = legVal (retagOp (passThrough op ent ex)) ex := rfl
        rw [this, retagOp_passThrough, hlv]
        apply legVal_togOp_self
        · rw [hok1.1]; exact hrel
        · rw [hok1.2.1]; exact hrel
      have hmv' : moveOn (togAt (togAt (retag s.slots) (pos, ent)) init) s.state pos
          (passThrough op ent ex) ex = (st', some (p', r')) := by
        rw [moveOn_congr _ s.slots (fun v => by rw [occV_togAt, occV_togAt, occV_retag])]
        exact hmv
      have hlink := link_move hokV hc pos oV hoV ex (by rw [hvars]; exact hrel)
        (passThrough op ent ex) (by rw [hvars]; exact (passThrough_fields op ent ex).1) hval
        st' p' r' hmv'
      rcases hfin with ⟨hhead, hnone⟩ | ⟨hhead, hsome⟩
      · -- the head met the tail
        refine ⟨fun p e he => ?_, fun _ _ _ => ?_⟩
        · rw [hnone] at he; cases he
        · rw [hslots, hst]
          refine ⟨hwf', ?_⟩
          rw [← propagate_retag, hre]
          rw [hhead, togAt_comm (togAt (retag s.slots) (pos, ent)) init (pos, ex), togAt_togAt] at hlink
          exact hlink
      · refine ⟨fun p e he => ?_, fun hn _ _ => ?_⟩
        · rw [hsome] at he
          injection he with he
          injection he with e1 e2
          subst e1; subst e2
          refine ⟨by rw [hslots]; exact hwf', ?_⟩
          rw [hslots, hst, hre,
            togAt_comm (togAt (togAt (retag s.slots) (pos, ent)) (pos, ex)) _ init,
            togAt_comm (togAt (retag s.slots) (pos, ent)) (pos, ex) init]
          exact hlink
        · rw [hsome] at hn; cases hn

theorem loopIter_spec (w : Nat → List Bool → List Bool → Rat) (init : Nat × Leg) (fuel pos : Nat)
    (ent : Leg) (s : LoopSt) (h : Inv init pos ent s)
    (h1 : (loopIter w init fuel pos ent s).rs.panicked = false)
    (h2 : (loopIter w init fuel pos ent s).rs.short = false) :
    propagate (loopIter w init fuel pos ent s).state (loopIter w init fuel pos ent s).slots
      = some (loopIter w init fuel pos ent s).state := by
  induction fuel generalizing pos ent s with
  | zero => simp [loopIter] at h2
  | succ f ih =>
    obtain ⟨hs, hn⟩ := loopBody_spec w init pos ent s h
    unfold loopIter at h1 h2 ⊢
    split at h1
    · rename_i s' heq
      rw [heq] at hn
      simp only [heq] at h2 ⊢
      exact (hn rfl h1 h2).2
    · rename_i s' p e heq
      rw [heq] at hs
      simp only [heq] at h2 ⊢
      exact ih p e s' (hs p e rfl) h1 h2

/-- the start: head = tail, the two toggles cancel -/
theorem inv_start (cfg : Config) (rs : RS) (p : Nat) (leg : Leg) (hwf : WFSlots cfg.slots)
    (hc : Consistent cfg) : Inv (p, leg) p leg { state := cfg.state, slots := cfg.slots, rs := rs } := by
  refine ⟨hwf, ?_⟩
  simp only
  rw [togAt_togAt, propagate_retag]
  exact hc

/-- **The loop update keeps world lines periodic**: whenever the update returns without raising
a flag (no modelled panic, script not exhausted — i.e. the walk closed), the result is
`Consistent`. -/
theorem loopUpdate_consistent (w : Nat → List Bool → List Bool → Rat) (cfg : Config) (rs : RS)
    (hwf : WFSlots cfg.slots) (hc : Consistent cfg)
    (h1 : (loopUpdate w cfg rs).2.panicked = false) (h2 : (loopUpdate w cfg rs).2.short = false) :
    Consistent (loopUpdate w cfg rs).1 := by
  unfold loopUpdate at h1 h2 ⊢
  split
  · exact hc
  · rename_i hn
    rw [if_neg hn] at h1 h2
    split
    · exact hc
    · rename_i p leg rs' heq
      simp only [heq] at h1 h2
      exact loopIter_spec w (p, leg) _ p leg _ (inv_start cfg rs' p leg hwf hc) h1 h2

end Qmc.LoopC
