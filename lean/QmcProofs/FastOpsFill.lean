/-
C11, Appendix B step 5: `fill_args_at_p` (through `iter_ops_above_p`) on the canonical container
produces the scan cursor.  The `unfilled` counter only bounds the walk; the counting argument
shows that the early exit never loses an entry.
-/
import QmcProofs.FastOpsCursor

namespace Qmc

theorem filter_remove_one (l : List Nat) (P : Nat → Bool) (v : Nat) (hn : l.Nodup) (hv : v ∈ l)
    (hP : P v = true) :
    (l.filter (fun w => P w && !(w == v))).length + 1 = (l.filter P).length := by
  induction l with
  | nil => cases hv
  | cons a t ih =>
    simp only [List.nodup_cons] at hn
    simp only [List.filter_cons]
    by_cases ha : a = v
    · subst ha
      simp only [hP, beq_self_eq_true, Bool.not_true, Bool.and_false, Bool.false_eq_true, if_false, if_true,
        List.length_cons]
      congr 1
      congr 1
      apply List.filter_congr
      intro w hw
      have : w ≠ a := fun e => hn.1 (e ▸ hw)
      simp [this]
    · have hvt : v ∈ t := by
        cases hv with
        | head => exact absurd rfl ha
        | tail _ h => exact h
      have := ih hn.2 hvt
      have hne : (a == v) = false := by simpa using ha
      by_cases hPa : P a = true <;> simp [hPa, hne] <;> omega

theorem prevOcc_ge_of_mem {P : Nat → Bool} {p q : Nat} (hq : P q = true) (hqp : q < p) :
    ∃ x, prevOcc P p = some x ∧ q ≤ x := by
  cases h : prevOcc P p with
  | none => exfalso; chain_finish
  | some x => refine ⟨x, rfl, ?_⟩; chain_finish

theorem occ_of_occV {s : Slots} {v q : Nat} (h : occV s v q = true) : occ s q = true := by
  unfold occV at h
  unfold occ
  cases hs : slotAt s q with
  | none => rw [hs] at h; cases h
  | some _ => rfl

/-- the variable has an op somewhere -/
def hasOpsV (s : Slots) (v : Nat) : Bool := (firstOcc (occV s v) s.length).isSome

theorem hasOpsV_of_occV {s : Slots} {v q : Nat} (h : occV s v q = true) : hasOpsV s v = true := by
  obtain ⟨f, hf⟩ := first_some_of_mem h (occV_lt h)
  unfold hasOpsV; rw [hf]; rfl

section Fill
variable (nv : Nat) (s : Slots) (p : Nat)

/-- state of the cursor during the walk: exactly the variables in `fl` are filled, with their
scan values; the counter dominates the number of variables that still could be filled -/
structure WG (fl : Nat → Bool) (a : Cursor) : Prop where
  hm : a.subvarMapping = none
  hv : a.lastVars = (List.range nv).map (fun v => if fl v then (prevRel s v p).map (·.p) else none)
  hr : a.lastRels = (List.range nv).map (fun v => if fl v then (prevRel s v p).map (·.relv) else none)
  hc : ((List.range nv).filter (fun v => hasOpsV s v && !fl v)).length ≤ a.unfilled
  hs : ∀ v, fl v = true → (prevRel s v p).isSome = true

theorem WG_congr {fl fl' : Nat → Bool} {a : Cursor} (h : ∀ v, v < nv → fl v = fl' v)
    (hs' : ∀ v, fl' v = true → (prevRel s v p).isSome = true) (hw : WG nv s p fl a) : WG nv s p fl' a := by
  have hmem : ∀ v, v ∈ List.range nv → fl v = fl' v := fun v hv => h v (by simpa using hv)
  constructor
  · exact hw.hm
  · rw [hw.hv]; apply List.map_congr_left; intro v hv; rw [hmem v hv]
  · rw [hw.hr]; apply List.map_congr_left; intro v hv; rw [hmem v hv]
  · have : (List.range nv).filter (fun v => hasOpsV s v && !fl' v)
        = (List.range nv).filter (fun v => hasOpsV s v && !fl v) := by
      apply List.filter_congr; intro v hv; rw [hmem v hv]
    rw [this]; exact hw.hc
  · exact hs'

theorem WG_lastVar {fl : Nat → Bool} {a : Cursor} (hw : WG nv s p fl a) (v : Nat) (hv : v < nv) :
    (a.lastVar v).isNone = !fl v := by
  simp only [Cursor.lastVar, hw.hv, List.getElem?_map, List.getElem?_range hv, Option.map_some,
    Option.join_some]
  cases hf : fl v with
  | false => simp
  | true =>
    have := hw.hs v hf
    cases hp : prevRel s v p with
    | none => rw [hp] at this; cases this
    | some pr => simp

/-- filling one variable with its scan value -/
theorem WG_fill {fl : Nat → Bool} {a : Cursor} (hw : WG nv s p fl a) (v : Nat) (hv : v < nv) (pr : PRel)
    (hpr : prevRel s v p = some pr) (hnf : fl v = false) :
    WG nv s p (fun w => fl w || w == v)
      { a with lastVars := a.lastVars.set v (some pr.p), lastRels := a.lastRels.set v (some pr.relv),
               unfilled := a.unfilled - 1 } := by
  have hocc : hasOpsV s v = true := by
    unfold prevRel at hpr
    cases hx : prevOcc (occV s v) p with
    | none => rw [hx] at hpr; cases hpr
    | some x => exact hasOpsV_of_occV (prevOcc_lt hx).2
  constructor
  · exact hw.hm
  · simp only [hw.hv, range_map_set]
    apply List.map_congr_left
    intro w _
    by_cases hwv : w = v
    · subst hwv; simp [hpr]
    · simp [hwv]
  · simp only [hw.hr, range_map_set]
    apply List.map_congr_left
    intro w _
    by_cases hwv : w = v
    · subst hwv; simp [hpr]
    · simp [hwv]
  · have h1 := filter_remove_one (List.range nv) (fun w => hasOpsV s w && !fl w) v List.nodup_range
      (by simpa using hv) (by simp [hocc, hnf])
    have : (List.range nv).filter (fun w => hasOpsV s w && !(fl w || w == v))
        = (List.range nv).filter (fun w => (hasOpsV s w && !fl w) && !(w == v)) := by
      apply List.filter_congr
      intro w _
      cases hasOpsV s w <;> cases fl w <;> cases (w == v) <;> rfl
    rw [this]
    have := hw.hc
    simp only
    omega
  · intro w hw'
    simp only [Bool.or_eq_true, beq_iff_eq] at hw'
    cases hw' with
    | inl h => exact hw.hs w h
    | inr h => subst h; rw [hpr]; rfl

/-- when every variable that has an op below `p` is filled, the lists are the scan lists -/
theorem WG_final {fl : Nat → Bool} {a : Cursor} (hw : WG nv s p fl a)
    (hall : ∀ v, v < nv → ∀ x, prevOcc (occV s v) p = some x → fl v = true) (u : Nat) :
    { a with lastP := prevOcc (occ s) p, unfilled := u } = cursorByScan nv s p u := by
  cases a with
  | mk lp lv lr sm uf =>
    have h1 := hw.hm; have h2 := hw.hv; have h3 := hw.hr
    simp only at h1 h2 h3
    subst h1 h2 h3
    unfold cursorByScan
    simp only [Cursor.mk.injEq, true_and, and_true]
    constructor
    · apply List.map_congr_left
      intro v hv
      have hv' : v < nv := by simpa using hv
      cases hf : fl v with
      | true => simp
      | false =>
        simp only [Bool.false_eq_true, if_false]
        unfold prevRel
        cases hx : prevOcc (occV s v) p with
        | none => rfl
        | some x => have := hall v hv' x hx; rw [hf] at this; cases this
    · apply List.map_congr_left
      intro v hv
      have hv' : v < nv := by simpa using hv
      cases hf : fl v with
      | true => simp
      | false =>
        simp only [Bool.false_eq_true, if_false]
        unfold prevRel
        cases hx : prevOcc (occV s v) p with
        | none => rfl
        | some x => have := hall v hv' x hx; rw [hf] at this; cases this

theorem WG_all_of_zero {fl : Nat → Bool} {a : Cursor} (hw : WG nv s p fl a) (h0 : a.unfilled = 0) :
    ∀ v, v < nv → ∀ x, prevOcc (occV s v) p = some x → fl v = true := by
  intro v hv x hx
  have hc := hw.hc
  rw [h0] at hc
  have hnil : (List.range nv).filter (fun v => hasOpsV s v && !fl v) = [] :=
    List.length_eq_zero_iff.mp (Nat.le_zero.mp hc)
  have hocc := hasOpsV_of_occV (prevOcc_lt hx).2
  cases hf : fl v with
  | true => rfl
  | false =>
    have : v ∈ (List.range nv).filter (fun v => hasOpsV s v && !fl v) := by
      rw [List.mem_filter]; exact ⟨by simpa using hv, by simp [hocc, hf]⟩
    rw [hnil] at this; cases this

/-- threshold form: the last occurrence below `p` is at or above `r` -/
def fil (r v : Nat) : Bool :=
  match prevOcc (occV s v) p with
  | some x => decide (r ≤ x)
  | none => false

end Fill

namespace FastOps

/-- the loop inside `fillF` at the node `q = prevOcc occ r` -/
theorem fillF_WG (nv : Nat) (nb : Option Nat) (s : Slots) (p r q : Nat) (oq : Op) (A : Nat → Bool)
    (hwf : WF nv nb s) (hrp : r ≤ p) (hq : prevOcc (occ s) r = some q) (hsq : slotAt s q = some oq)
    (a : Cursor) (hw : WG nv s p (fun w => fil s p r w || A w) a) :
    WG nv s p (fun w => fil s p q w || A w) (fillF q (canonNode s q oq) a).1 := by
  obtain ⟨_, hnodup, hlt, _⟩ := hwf q oq hsq
  rw [prevOcc_some_iff] at hq
  obtain ⟨hqr, hqocc, hgap⟩ := hq
  have hAs : ∀ w, A w = true → (prevRel s w p).isSome = true := by
    intro w hA; exact hw.hs w (by simp [hA])
  unfold fillF
  simp only []
  let I : List Nat → Cursor → Prop := fun D a' =>
    WG nv s p (fun w => (fil s p r w || A w) || D.contains w) a'
  have hbase : I [] (if a.lastP.isNone then { a with lastP := some q } else a) := by
    have : WG nv s p (fun w => fil s p r w || A w) (if a.lastP.isNone then { a with lastP := some q } else a) := by
      split
      · exact ⟨hw.hm, hw.hv, hw.hr, hw.hc, hw.hs⟩
      · exact hw
    exact WG_congr nv s p (fun v _ => by simp) (fun v hv => hw.hs v (by simpa using hv)) this
  have hfold := fold_inv' I
    (fun (a : Cursor) (vr : Nat × Nat) =>
      match a.varToSubvar vr.1 with
      | some sub =>
        if (a.lastVar sub).isNone then
          { a with lastVars := a.lastVars.set sub (some q), lastRels := a.lastRels.set sub (some vr.2),
                   unfilled := a.unfilled - 1 }
        else a
      | none => a)
    (fun vr => vr.1) (fun vr => oq.vars[vr.2]? = some vr.1)
    (by
      intro D a' x hx hD hI
      have hxmem : x.1 ∈ oq.vars := List.mem_of_getElem? hx
      have hxn : x.1 < nv := hlt x.1 hxmem
      have hidx := idxOf_of_getElem? hnodup hx
      have hoccq : occV s x.1 q = true := occV_of_mem hsq hxmem
      obtain ⟨y, hy, hqy⟩ := prevOcc_ge_of_mem hoccq (by omega : q < p)
      have hsub : a'.varToSubvar x.1 = some x.1 := by simp [Cursor.varToSubvar, hI.hm]
      simp only [hsub]
      have hln := WG_lastVar nv s p hI x.1 hxn
      by_cases hfl : ((fil s p r x.1 || A x.1) || D.contains x.1) = true
      · -- already filled
        rw [hfl] at hln
        simp only [Bool.not_true] at hln
        simp only [hln, Bool.false_eq_true, if_false]
        apply WG_congr nv s p _ _ hI
        · intro w _
          by_cases hw' : w = x.1
          · subst hw'; rw [hfl]; simp
          · simp [hw']
        · intro w hw'
          by_cases hwx : w = x.1
          · subst hwx; exact hI.hs _ hfl
          · exact hI.hs w (by simpa [hwx] using hw')
      · have hfl' : ((fil s p r x.1 || A x.1) || D.contains x.1) = false := by simpa using hfl
        rw [hfl'] at hln
        simp only [Bool.not_false] at hln
        simp only [hln, if_true]
        -- the last occurrence of x.1 below p is q
        have hfr : fil s p r x.1 = false := by
          cases h1 : fil s p r x.1 with
          | false => rfl
          | true => simp [h1] at hfl'
        have hyq : y = q := by
          unfold fil at hfr
          rw [hy] at hfr
          have hyr : ¬ r ≤ y := by simpa using hfr
          by_cases e : y = q
          · exact e
          · have := hgap y (by omega) (by omega)
            rw [occ_of_occV (prevOcc_lt hy).2] at this; cases this
        subst hyq
        have hpr : prevRel s x.1 p = some ⟨y, x.2⟩ := by
          unfold prevRel; rw [hy]; simp [relAt, hsq, hidx]
        have := WG_fill nv s p hI x.1 hxn ⟨y, x.2⟩ hpr hfl'
        apply WG_congr nv s p _ _ this
        · intro w _
          by_cases hw' : w = x.1
          · subst hw'; simp
          · simp [hw']
        · intro w hw'
          by_cases hwx : w = x.1
          · subst hwx; rw [hpr]; rfl
          · exact hI.hs w (by simpa [hwx] using hw'))
    oq.vars.zipIdx [] _ (zipIdx_getElem? oq.vars)
    (by rw [List.zipIdx_map_fst]; exact hnodup) (by simp) hbase
  rw [List.zipIdx_map_fst, List.append_nil] at hfold
  -- identify the final filled set with the threshold form at q
  apply WG_congr nv s p _ _ hfold
  · intro w _
    simp only [List.contains_reverse]
    unfold fil
    cases hx : prevOcc (occV s w) p with
    | none =>
      have hnm : w ∉ oq.vars := by
        intro hm
        obtain ⟨y, hy, _⟩ := prevOcc_ge_of_mem (occV_of_mem hsq hm) (by omega : q < p)
        rw [hx] at hy; cases hy
      simp [hnm]
    | some x =>
      have hxocc := occ_of_occV (prevOcc_lt hx).2
      by_cases hrx : r ≤ x
      · have : q ≤ x := by omega
        simp [hrx, this]
      · by_cases hqx : q ≤ x
        · have hxq : x = q := by
            by_cases e : x = q
            · exact e
            · have := hgap x (by omega) (by omega)
              rw [hxocc] at this; cases this
          subst hxq
          have hm : w ∈ oq.vars := mem_of_occV hsq (prevOcc_lt hx).2
          simp [hrx, hm]
        · have hnm : w ∉ oq.vars := by
            intro hm
            obtain ⟨y, hy, hqy⟩ := prevOcc_ge_of_mem (occV_of_mem hsq hm) (by omega : q < p)
            rw [hx] at hy
            have : x = y := Option.some.inj hy
            omega
          simp [hrx, hqx, hnm]
  · intro w hw'
    simp only [Bool.or_eq_true] at hw'
    cases hw' with
    | inl h =>
      unfold fil at h
      cases hx : prevOcc (occV s w) p with
      | none => rw [hx] at h; cases h
      | some x => unfold prevRel; rw [hx]; rfl
    | inr h => exact hAs w h

end FastOps
end Qmc
