/-
C11, Appendix B step 5: `fill_args_at_p` (through `iter_ops_above_p`) on the canonical container
produces the scan cursor.  The `unfilled` counter only bounds the walk; the counting argument
shows that the early exit never loses an entry.
-/
import QmcProofs.FastOpsCursor

namespace Qmc

theorem filter_remove_one (l : List Nat) (P : Nat → Bool) (v : Nat) (hn : l.Nodup) (hv : v ∈ l)
    (hP : P v = true) :
    (l.filter (fun w => P w && !(w == v))).length + 1 = (l.filter P).length := by
  induction l with
  | nil => cases hv
  | cons a t ih =>
    simp only [List.nodup_cons] at hn
    simp only [List.filter_cons]
    by_cases ha : a = v
    · subst ha
      simp only [hP, beq_self_eq_true, Bool.not_true, Bool.and_false, Bool.false_eq_true, if_false, if_true,
        List.length_cons]
      congr 1
      congr 1
      apply List.filter_congr
      intro w hw
      have : w ≠ a := fun e => hn.1 (e ▸ hw)
      simp [this]
    · have hvt : v ∈ t := by
        cases hv with
        | head => exact absurd rfl ha
        | tail _ h => exact h
      have := ih hn.2 hvt
      have hne : (a == v) = false := by simpa using ha
      by_cases hPa : P a = true <;> simp [hPa, hne] <;> omega

theorem prevOcc_ge_of_mem {P : Nat → Bool} {p q : Nat} (hq : P q = true) (hqp : q < p) :
    ∃ x, prevOcc P p = some x ∧ q ≤ x := by
  cases h : prevOcc P p with
  | none => exfalso; chain_finish
  | some x => refine ⟨x, rfl, ?_⟩; chain_finish

theorem occ_of_occV {s : Slots} {v q : Nat} (h : occVAt s v q = true) : occAt s q = true := by
  unfold occVAt at h
  unfold occAt
  cases hs : slotAt s q with
  | none => rw [hs] at h; cases h
  | some _ => rfl

/-- the variable has an op somewhere -/
def hasOpsV (s : Slots) (v : Nat) : Bool := (firstOcc (occVAt s v) s.length).isSome

theorem hasOpsV_of_occV {s : Slots} {v q : Nat} (h : occVAt s v q = true) : hasOpsV s v = true := by
  obtain ⟨f, hf⟩ := first_some_of_mem h (occV_lt h)
  unfold hasOpsV; rw [hf]; rfl

section Fill
variable (nv : Nat) (s : Slots) (p : Nat)

/-- state of the cursor during the walk: exactly the variables in `fl` are filled, with their
scan values; the counter dominates the number of variables that still could be filled -/
structure WG (fl : Nat → Bool) (a : Cursor) : Prop where
  hm : a.subvarMapping = none
  hv : a.lastVars = (List.range nv).map (fun v => if fl v then (prevRel s v p).map (·.p) else none)
  hr : a.lastRels = (List.range nv).map (fun v => if fl v then (prevRel s v p).map (·.relv) else none)
  hc : ((List.range nv).filter (fun v => hasOpsV s v && !fl v)).length ≤ a.unfilled
  hs : ∀ v, fl v = true → (prevRel s v p).isSome = true

theorem WG_congr {fl fl' : Nat → Bool} {a : Cursor} (h : ∀ v, v < nv → fl v = fl' v)
    (hs' : ∀ v, fl' v = true → (prevRel s v p).isSome = true) (hw : WG nv s p fl a) : WG nv s p fl' a := by
  have hmem : ∀ v, v ∈ List.range nv → fl v = fl' v := fun v hv => h v (by simpa using hv)
  constructor
  · exact hw.hm
  · rw [hw.hv]; apply List.map_congr_left; intro v hv; rw [hmem v hv]
  · rw [hw.hr]; apply List.map_congr_left; intro v hv; rw [hmem v hv]
  · have : (List.range nv).filter (fun v => hasOpsV s v && !fl' v)
        = (List.range nv).filter (fun v => hasOpsV s v && !fl v) := by
      apply List.filter_congr; intro v hv; rw [hmem v hv]
    rw [this]; exact hw.hc
  · exact hs'

theorem WG_lastVar {fl : Nat → Bool} {a : Cursor} (hw : WG nv s p fl a) (v : Nat) (hv : v < nv) :
    (a.lastVar v).isNone = !fl v := by
  simp only [Cursor.lastVar, hw.hv, List.getElem?_map, List.getElem?_range hv, Option.map_some,
    Option.join_some]
  cases hf : fl v with
  | false => simp
  | true =>
    have := hw.hs v hf
    cases hp : prevRel s v p with
    | none => rw [hp] at this; cases this
    | some pr => simp

/-- filling one variable with its scan value -/
theorem WG_fill {fl : Nat → Bool} {a : Cursor} (hw : WG nv s p fl a) (v : Nat) (hv : v < nv) (pr : PRel)
    (hpr : prevRel s v p = some pr) (hnf : fl v = false) :
    WG nv s p (fun w => fl w || w == v)
      { a with lastVars := a.lastVars.set v (some pr.p), lastRels := a.lastRels.set v (some pr.relv),
               unfilled := a.unfilled - 1 } := by
  have hocc : hasOpsV s v = true := by
    unfold prevRel at hpr
    cases hx : prevOcc (occVAt s v) p with
    | none => rw [hx] at hpr; cases hpr
    | some x => exact hasOpsV_of_occV (prevOcc_lt hx).2
  constructor
  · exact hw.hm
  · simp only [hw.hv, range_map_set]
    apply List.map_congr_left
    intro w _
    by_cases hwv : w = v
    · subst hwv; simp [hpr]
    · simp [hwv]
  · simp only [hw.hr, range_map_set]
    apply List.map_congr_left
    intro w _
    by_cases hwv : w = v
    · subst hwv; simp [hpr]
    · simp [hwv]
  · have h1 := filter_remove_one (List.range nv) (fun w => hasOpsV s w && !fl w) v List.nodup_range
      (by simpa using hv) (by simp [hocc, hnf])
    have : (List.range nv).filter (fun w => hasOpsV s w && !(fl w || w == v))
        = (List.range nv).filter (fun w => (hasOpsV s w && !fl w) && !(w == v)) := by
      apply List.filter_congr
      intro w _
      cases hasOpsV s w <;> cases fl w <;> cases (w == v) <;> rfl
    rw [this]
    have := hw.hc
    simp only
    omega
  · intro w hw'
    simp only [Bool.or_eq_true, beq_iff_eq] at hw'
    cases hw' with
    | inl h => exact hw.hs w h
    | inr h => subst h; rw [hpr]; rfl

/-- when every variable that has an op below `p` is filled, the lists are the scan lists -/
theorem WG_final {fl : Nat → Bool} {a : Cursor} (hw : WG nv s p fl a)
    (hall : ∀ v, v < nv → ∀ x, prevOcc (occVAt s v) p = some x → fl v = true) (u : Nat) :
    { a with lastP := prevOcc (occAt s) p, unfilled := u } = cursorByScan nv s p u := by
  cases a with
  | mk lp lv lr sm uf =>
    have h1 := hw.hm; have h2 := hw.hv; have h3 := hw.hr
    simp only at h1 h2 h3
    subst h1 h2 h3
    unfold cursorByScan
    simp only [Cursor.mk.injEq, true_and, and_true]
    constructor
    · apply List.map_congr_left
      intro v hv
      have hv' : v < nv := by simpa using hv
      cases hf : fl v with
      | true => simp
      | false =>
        simp only [Bool.false_eq_true, if_false]
        unfold prevRel
        cases hx : prevOcc (occVAt s v) p with
        | none => rfl
        | some x => have := hall v hv' x hx; rw [hf] at this; cases this
    · apply List.map_congr_left
      intro v hv
      have hv' : v < nv := by simpa using hv
      cases hf : fl v with
      | true => simp
      | false =>
        simp only [Bool.false_eq_true, if_false]
        unfold prevRel
        cases hx : prevOcc (occVAt s v) p with
        | none => rfl
        | some x => have := hall v hv' x hx; rw [hf] at this; cases this

theorem WG_all_of_zero {fl : Nat → Bool} {a : Cursor} (hw : WG nv s p fl a) (h0 : a.unfilled = 0) :
    ∀ v, v < nv → ∀ x, prevOcc (occVAt s v) p = some x → fl v = true := by
  intro v hv x hx
  have hc := hw.hc
  rw [h0] at hc
  have hnil : (List.range nv).filter (fun v => hasOpsV s v && !fl v) = [] :=
    List.length_eq_zero_iff.mp (Nat.le_zero.mp hc)
  have hocc := hasOpsV_of_occV (prevOcc_lt hx).2
  cases hf : fl v with
  | true => rfl
  | false =>
    have : v ∈ (List.range nv).filter (fun v => hasOpsV s v && !fl v) := by
      rw [List.mem_filter]; exact ⟨by simpa using hv, by simp [hocc, hf]⟩
    rw [hnil] at this; cases this

/-- threshold form: the last occurrence below `p` is at or above `r` -/
def fil (r v : Nat) : Bool :=
  match prevOcc (occVAt s v) p with
  | some x => decide (r ≤ x)
  | none => false

end Fill

namespace FastOps

/-- the loop inside `fillF` at the node `q = prevOcc occAt r` -/
theorem fillF_WG (nv : Nat) (nb : Option Nat) (s : Slots) (p r q : Nat) (oq : Op) (A : Nat → Bool)
    (hwf : WF nv nb s) (hrp : r ≤ p) (hq : prevOcc (occAt s) r = some q) (hsq : slotAt s q = some oq)
    (a : Cursor) (hw : WG nv s p (fun w => fil s p r w || A w) a) :
    WG nv s p (fun w => fil s p q w || A w) (fillF q (canonNode s q oq) a).1 := by
  obtain ⟨_, hnodup, hlt, _⟩ := hwf q oq hsq
  rw [prevOcc_some_iff] at hq
  obtain ⟨hqr, hqocc, hgap⟩ := hq
  have hAs : ∀ w, A w = true → (prevRel s w p).isSome = true := by
    intro w hA; exact hw.hs w (by simp [hA])
  unfold fillF
  simp only []
  let I : List Nat → Cursor → Prop := fun D a' =>
    WG nv s p (fun w => (fil s p r w || A w) || D.contains w) a'
  have hbase : I [] (if a.lastP.isNone then { a with lastP := some q } else a) := by
    have : WG nv s p (fun w => fil s p r w || A w) (if a.lastP.isNone then { a with lastP := some q } else a) := by
      split
      · exact ⟨hw.hm, hw.hv, hw.hr, hw.hc, hw.hs⟩
      · exact hw
    exact WG_congr nv s p (fun v _ => by simp) (fun v hv => hw.hs v (by simpa using hv)) this
  have hfold := fold_inv' I
    (fun (a : Cursor) (vr : Nat × Nat) =>
      match a.varToSubvar vr.1 with
      | some sub =>
        if (a.lastVar sub).isNone then
          { a with lastVars := a.lastVars.set sub (some q), lastRels := a.lastRels.set sub (some vr.2),
                   unfilled := a.unfilled - 1 }
        else a
      | none => a)
    (fun vr => vr.1) (fun vr => oq.vars[vr.2]? = some vr.1)
    (by
      intro D a' x hx hD hI
      have hxmem : x.1 ∈ oq.vars := List.mem_of_getElem? hx
      have hxn : x.1 < nv := hlt x.1 hxmem
      have hidx := idxOf_of_getElem? hnodup hx
      have hoccq : occVAt s x.1 q = true := occV_of_mem hsq hxmem
      obtain ⟨y, hy, hqy⟩ := prevOcc_ge_of_mem hoccq (by omega : q < p)
      have hsub : a'.varToSubvar x.1 = some x.1 := by simp [Cursor.varToSubvar, hI.hm]
      simp only [hsub]
      have hln := WG_lastVar nv s p hI x.1 hxn
      by_cases hfl : ((fil s p r x.1 || A x.1) || D.contains x.1) = true
      · -- already filled
        rw [hfl] at hln
        simp only [Bool.not_true] at hln
        simp only [hln, Bool.false_eq_true, if_false]
        apply WG_congr nv s p _ _ hI
        · intro w _
          by_cases hw' : w = x.1
          · subst hw'; rw [hfl]; simp
          · simp [hw']
        · intro w hw'
          by_cases hwx : w = x.1
          · subst hwx; exact hI.hs _ hfl
          · exact hI.hs w (by simpa [hwx] using hw')
      · have hfl' : ((fil s p r x.1 || A x.1) || D.contains x.1) = false := by simpa using hfl
        rw [hfl'] at hln
        simp only [Bool.not_false] at hln
        simp only [hln, if_true]
        -- the last occurrence of x.1 below p is q
        have hfr : fil s p r x.1 = false := by
          cases h1 : fil s p r x.1 with
          | false => rfl
          | true => simp [h1] at hfl'
        have hyq : y = q := by
          unfold fil at hfr
          rw [hy] at hfr
          have hyr : ¬ r ≤ y := by simpa using hfr
          by_cases e : y = q
          · exact e
          · have := hgap y (by omega) (by omega)
            rw [occ_of_occV (prevOcc_lt hy).2] at this; cases this
        subst hyq
        have hpr : prevRel s x.1 p = some ⟨y, x.2⟩ := by
          unfold prevRel; rw [hy]; simp [relAt, hsq, hidx]
        have := WG_fill nv s p hI x.1 hxn ⟨y, x.2⟩ hpr hfl'
        apply WG_congr nv s p _ _ this
        · intro w _
          by_cases hw' : w = x.1
          · subst hw'; simp
          · simp [hw']
        · intro w hw'
          by_cases hwx : w = x.1
          · subst hwx; rw [hpr]; rfl
          · exact hI.hs w (by simpa [hwx] using hw'))
    oq.vars.zipIdx [] _ (zipIdx_getElem? oq.vars)
    (by rw [List.zipIdx_map_fst]; exact hnodup) (by simp) hbase
  rw [List.zipIdx_map_fst, List.append_nil] at hfold
  -- identify the final filled set with the threshold form at q
  apply WG_congr nv s p _ _ hfold
  · intro w _
    simp only [List.contains_reverse]
    unfold fil
    cases hx : prevOcc (occVAt s w) p with
    | none =>
      have hnm : w ∉ oq.vars := by
        intro hm
        obtain ⟨y, hy, _⟩ := prevOcc_ge_of_mem (occV_of_mem hsq hm) (by omega : q < p)
        rw [hx] at hy; cases hy
      simp [hnm]
    | some x =>
      have hxocc := occ_of_occV (prevOcc_lt hx).2
      by_cases hrx : r ≤ x
      · have : q ≤ x := by omega
        simp [hrx, this]
      · by_cases hqx : q ≤ x
        · have hxq : x = q := by
            by_cases e : x = q
            · exact e
            · have := hgap x (by omega) (by omega)
              rw [hxocc] at this; cases this
          subst hxq
          have hm : w ∈ oq.vars := mem_of_occV hsq (prevOcc_lt hx).2
          simp [hrx, hm]
        · have hnm : w ∉ oq.vars := by
            intro hm
            obtain ⟨y, hy, hqy⟩ := prevOcc_ge_of_mem (occV_of_mem hsq hm) (by omega : q < p)
            rw [hx] at hy
            have : x = y := Option.some.inj hy
            omega
          simp [hrx, hqx, hnm]
  · intro w hw'
    simp only [Bool.or_eq_true] at hw'
    cases hw' with
    | inl h =>
      unfold fil at h
      cases hx : prevOcc (occVAt s w) p with
      | none => rw [hx] at h; cases h
      | some x => unfold prevRel; rw [hx]; rfl
    | inr h => exact hAs w h


theorem fil_all_of_none (s : Slots) (p r : Nat) (hr : prevOcc (occAt s) r = none) (A : Nat → Bool) (nv : Nat) :
    ∀ v, v < nv → ∀ x, prevOcc (occVAt s v) p = some x → (fil s p r v || A v) = true := by
  intro v _ x hx
  have hxocc := occ_of_occV (prevOcc_lt hx).2
  rw [prevOcc_none_iff] at hr
  have : r ≤ x := by
    by_cases h : r ≤ x
    · exact h
    · have := hr x (by omega); rw [hxocc] at this; cases this
  unfold fil
  simp [hx, this]

/-- the walk of `iter_ops_above_p` -/
theorem fillWalk_WG (nv : Nat) (nb : Option Nat) (s : Slots) (p : Nat) (hwf : WF nv nb s) (A : Nat → Bool) :
    ∀ (fuel r : Nat) (a : Cursor), r ≤ p → WG nv s p (fun w => fil s p r w || A w) a →
      (∀ q, prevOcc (occAt s) r = some q → q < fuel) →
      ∃ fl, WG nv s p fl (fillWalk (canon nv nb s) fuel (prevOcc (occAt s) r) a) ∧
        (∀ v, v < nv → ∀ x, prevOcc (occVAt s v) p = some x → fl v = true) := by
  intro fuel
  induction fuel with
  | zero =>
    intro r a _ hw hf
    have hr : prevOcc (occAt s) r = none := by
      cases h : prevOcc (occAt s) r with
      | none => rfl
      | some q => have := hf q h; omega
    exact ⟨_, by simpa [fillWalk] using hw, fil_all_of_none s p r hr A nv⟩
  | succ fuel ih =>
    intro r a hrp hw hf
    cases hr : prevOcc (occAt s) r with
    | none => exact ⟨_, by simpa [fillWalk] using hw, fil_all_of_none s p r hr A nv⟩
    | some q =>
      obtain ⟨hqr, hqocc⟩ := prevOcc_lt hr
      obtain ⟨oq, hsq⟩ := occ_iff.mp hqocc
      simp only [fillWalk, getNode_canon, hsq, Option.map_some]
      have hstep := fillF_WG nv nb s p r q oq A hwf hrp hr hsq a hw
      by_cases hcont : (fillF q (canonNode s q oq) a).2 = true
      · simp only [hcont, if_true]
        have hprev : (canonNode s q oq).previousP = prevOcc (occAt s) q := rfl
        rw [hprev]
        apply ih q _ (by omega) hstep
        intro q' hq'
        have := (prevOcc_lt hq').1
        have := hf q hr
        omega
      · simp only [hcont, Bool.false_eq_true, if_false]
        refine ⟨_, hstep, ?_⟩
        apply WG_all_of_zero nv s p hstep
        have : (fillF q (canonNode s q oq) a).2 = decide ((fillF q (canonNode s q oq) a).1.unfilled > 0) := rfl
        rw [this] at hcont
        simpa using hcont

theorem zip_self_map {β : Type} (l : List Nat) (F : Nat → β) :
    l.zip (l.map F) = l.map (fun v => (v, F v)) := by
  induction l with
  | nil => rfl
  | cons a t ih => simp [ih]

/-- the op sitting exactly at `p` -/
theorem fillAtP_WG (nv : Nat) (nb : Option Nat) (s : Slots) (p : Nat) (op : Op) (hwf : WF nv nb s)
    (hsp : slotAt s p = some op) (a : Cursor) (hw : WG nv s p (fun _ => false) a) :
    ∃ A : Nat → Bool, WG nv s p (fun w => fil s p p w || A w) (fillAtP (canonNode s p op) a).1 := by
  obtain ⟨_, hnodup, hlt, _⟩ := hwf p op hsp
  refine ⟨fun w => op.vars.reverse.contains w && (prevRel s w p).isSome, ?_⟩
  unfold fillAtP
  simp only [canonNode, zip_self_map]
  let I : List Nat → Cursor → Prop := fun D a' =>
    WG nv s p (fun w => D.contains w && (prevRel s w p).isSome) a'
  have hbase : I [] a := WG_congr nv s p (fun v _ => by simp) (fun v hv => by simp at hv) hw
  have hfold := fold_inv' I
    (fun (a : Cursor) (vp : Nat × Option PRel) =>
      match vp.2 with
      | none => a
      | some prel =>
        match a.varToSubvar vp.1 with
        | some sub =>
          if (a.lastVar sub).isNone then
            { a with unfilled := a.unfilled - 1, lastVars := a.lastVars.set sub (some prel.p),
                     lastRels := a.lastRels.set sub (some prel.relv) }
          else a
        | none => a)
    (fun vp => vp.1) (fun vp => vp.2 = prevRel s vp.1 p ∧ vp.1 ∈ op.vars)
    (by
      intro D a' x hx hD hI
      obtain ⟨hx2, hxmem⟩ := hx
      have hxn : x.1 < nv := hlt x.1 hxmem
      cases hpr : x.2 with
      | none =>
        simp only []
        apply WG_congr nv s p _ _ hI
        · intro w _
          by_cases hw' : w = x.1
          · rw [hw', ← hx2, hpr]; simp [hD]
          · simp [hw']
        · intro w hw'
          simp only [Bool.and_eq_true] at hw'
          exact hw'.2
      | some prel =>
        simp only []
        have hsub : a'.varToSubvar x.1 = some x.1 := by simp [Cursor.varToSubvar, hI.hm]
        simp only [hsub]
        have hln := WG_lastVar nv s p hI x.1 hxn
        have hflD : (D.contains x.1 && (prevRel s x.1 p).isSome) = false := by
          simp [hD]
        rw [hflD] at hln
        simp only [Bool.not_false] at hln
        simp only [hln, if_true]
        have hprel : prevRel s x.1 p = some prel := by rw [← hx2, hpr]
        have := WG_fill nv s p hI x.1 hxn prel hprel hflD
        apply WG_congr nv s p _ _ this
        · intro w _
          by_cases hw' : w = x.1
          · subst hw'; simp [hprel]
          · simp [hw']
        · intro w hw'
          simp only [Bool.and_eq_true] at hw'
          exact hw'.2)
    (op.vars.map (fun v => (v, prevRel s v p))) [] a
    (by
      intro x hx
      rw [List.mem_map] at hx
      obtain ⟨v, hv, e⟩ := hx
      subst e
      exact ⟨rfl, hv⟩)
    (by rw [List.map_map]; simpa [Function.comp_def] using hnodup) (by simp) hbase
  rw [List.map_map, List.append_nil] at hfold
  have hkeys : (List.map ((fun (vp : Nat × Option PRel) => vp.1) ∘ fun v => (v, prevRel s v p)) op.vars) = op.vars := by
    simp [Function.comp_def]
  rw [hkeys] at hfold
  have hfil : ∀ w, fil s p p w = false := by
    intro w
    unfold fil
    cases hx : prevOcc (occVAt s w) p with
    | none => rfl
    | some x => have := (prevOcc_lt hx).1; simp; omega
  have hfold' : WG nv s p (fun w => op.vars.reverse.contains w && (prevRel s w p).isSome)
      { (List.foldl _ a (op.vars.map (fun v => (v, prevRel s v p)))) with
        lastP := prevOcc (occAt s) p } :=
    ⟨hfold.hm, hfold.hv, hfold.hr, hfold.hc, hfold.hs⟩
  apply WG_congr nv s p _ _ hfold'
  · intro w _; simp [hfil]
  · intro w hw'
    simp only [hfil, Bool.false_or, Bool.and_eq_true] at hw'
    exact hw'.2

theorem replicate_eq_range_map {β : Type} (n : Nat) (x : β) :
    List.replicate n x = (List.range n).map (fun _ => x) := by
  apply List.ext_getElem?
  intro i
  simp only [List.getElem?_replicate, List.getElem?_map]
  by_cases hi : i < n
  · simp [hi]
  · simp [hi]

theorem emptyArgs_WG (nv : Nat) (nb : Option Nat) (s : Slots) (p : Nat) :
    WG nv s p (fun _ => false) (canon nv nb s).getEmptyArgsAll := by
  constructor
  · rfl
  · simp [getEmptyArgsAll, getNvars, canon, replicate_eq_range_map]
  · simp [getEmptyArgsAll, getNvars, canon, replicate_eq_range_map]
  · simp only [getEmptyArgsAll, canon, List.filter_map, List.length_map, Bool.not_false, Bool.and_true]
    apply Nat.le_of_eq
    congr 1
    apply List.filter_congr
    intro v _
    simp only [Function.comp, hasOpsV, canonVarEnd, firstRel, lastRel]
    have := @first_some_iff_last_some (occVAt s v) s.length
    cases h1 : firstOcc (occVAt s v) s.length <;> cases h2 : lastOcc (occVAt s v) s.length <;>
      simp [h1, h2, zipOpt] at this ⊢
  · intro v hv; cases hv

/-- `cursor_correct`: `fill_args_at_p(p, get_empty_args(All))` on the canonical container is the
scan cursor (the remaining `unfilled` is bookkeeping of the walk) -/
theorem fillArgsAtP_canon (nv : Nat) (nb : Option Nat) (s : Slots) (p : Nat) (hwf : WF nv nb s) :
    (canon nv nb s).fillArgsAtP p (canon nv nb s).getEmptyArgsAll
      = cursorByScan nv s p ((canon nv nb s).fillArgsAtP p (canon nv nb s).getEmptyArgsAll).unfilled := by
  have hE := emptyArgs_WG nv nb s p
  -- what the walk leaves in the per-variable tables
  have hW : ∃ fl, WG nv s p fl ((canon nv nb s).fillArgsAtP p (canon nv nb s).getEmptyArgsAll) ∧
      (∀ v, v < nv → ∀ x, prevOcc (occVAt s v) p = some x → fl v = true) := by
    unfold fillArgsAtP
    by_cases hu : (canon nv nb s).getEmptyArgsAll.unfilled > 0
    · simp only [hu, if_true, getNode_canon]
      have hfp : ∀ w, fil s p p w = false := by
        intro w
        unfold fil
        cases hx : prevOcc (occVAt s w) p with
        | none => rfl
        | some x => have := (prevOcc_lt hx).1; simp; omega
      cases hsp : slotAt s p with
      | none =>
        simp only [Option.map_none]
        have hs : scanDown (canon nv nb s) p = prevOcc (occAt s) p := by
          unfold scanDown
          apply prevOcc_congr
          intro k; rw [← occ_abs, abs_canon]
        rw [hs]
        apply fillWalk_WG nv nb s p hwf (fun _ => false) (p + 1) p _ (Nat.le_refl p)
        · exact WG_congr nv s p (fun v _ => by simp [hfp]) (fun v hv => by simp [hfp] at hv) hE
        · intro q hq; have := (prevOcc_lt hq).1; omega
      | some op =>
        simp only [Option.map_some]
        obtain ⟨A, hA⟩ := fillAtP_WG nv nb s p op hwf hsp _ hE
        by_cases hcont : (fillAtP (canonNode s p op) (canon nv nb s).getEmptyArgsAll).2 = true
        · simp only [hcont, if_true]
          have hprev : (canonNode s p op).previousP = prevOcc (occAt s) p := rfl
          rw [hprev]
          apply fillWalk_WG nv nb s p hwf A (p + 1) p _ (Nat.le_refl p) hA
          intro q hq; have := (prevOcc_lt hq).1; omega
        · simp only [hcont, Bool.false_eq_true, if_false]
          refine ⟨_, hA, ?_⟩
          apply WG_all_of_zero nv s p hA
          have : (fillAtP (canonNode s p op) (canon nv nb s).getEmptyArgsAll).2
              = decide ((fillAtP (canonNode s p op) (canon nv nb s).getEmptyArgsAll).1.unfilled > 0) := rfl
          rw [this] at hcont
          simpa using hcont
    · simp only [hu, if_false]
      exact ⟨_, hE, WG_all_of_zero nv s p hE (by omega)⟩
  obtain ⟨fl, hfl, hall⟩ := hW
  -- last_p
  have hG : GInv nb (canon nv nb s) := by unfold GInv; rw [abs_canon, canon_g]
  have hlp := fillArgsAtP_lastP hG p (canon nv nb s).getEmptyArgsAll rfl (by
    intro hu
    rw [abs_canon]
    have hz := WG_all_of_zero nv s p hE hu
    rw [prevOcc_none_iff]
    intro k hk
    cases hocc : occAt s k with
    | false => rfl
    | true =>
      exfalso
      obtain ⟨ok, hok⟩ := occ_iff.mp hocc
      obtain ⟨hne, _, hlt, _⟩ := hwf k ok hok
      cases hv : ok.vars with
      | nil => exact hne hv
      | cons v t =>
        have hmem : v ∈ ok.vars := by rw [hv]; simp
        obtain ⟨x, hx, _⟩ := prevOcc_ge_of_mem (occV_of_mem hok hmem) hk
        have := hz v (hlt v hmem) x hx
        cases this)
  rw [abs_canon] at hlp
  have := WG_final nv s p hfl hall ((canon nv nb s).fillArgsAtP p (canon nv nb s).getEmptyArgsAll).unfilled
  rw [← this, ← hlp]

end FastOps
end Qmc
