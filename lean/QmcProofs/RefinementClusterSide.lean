/-
Refinement, C09 side of the bridge: a cluster move (relation `ClusterMove` of QmcModel/Cluster.lean)
whose tags follow the rule of `edit_in_out` yields the neutral certificates of
QmcProofs/RefinementBridge.lean; the C06 side (QmcProofs/Refinement.lean) turns those into
`SpinFlipStep` / `Step` / `History`. This file cannot import anything of `Worldline` (name clashes, see
the bridge file) — build it on its own: `lake build QmcProofs.RefinementClusterSide`.

Shaped for `clusterUpdate` of QmcModel/ClusterExact.lean: `update := clusterUpdate prob fr`
(`Config → RS → Config × Nat × RS`), `hmove := clusterUpdate_is_clusterMove …`, `htag` = the tag rule of
`retagSlots`. Nothing of ClusterExact is imported here.
-/
import QmcProofs.RefinementBridge
import QmcProps.C09

namespace Qmc.Refine
open Qmc

/-- what `tagRuleB` says, as a proposition -/
abbrev TagRule (ob oa : Op) : Prop := tagRuleB ob oa = true

theorem op_eq_of_fields {o o' : Op} (h1 : o'.vars = o.vars) (h2 : o'.bond = o.bond) (h3 : o'.ins = o.ins)
    (h4 : o'.outs = o.outs) (h5 : o'.tagDiag = o.tagDiag) (h6 : o'.const = o.const) : o' = o := by
  cases o; cases o'; simp_all

/-- skeleton part of a cluster move + tag rule, position by position -/
theorem skelCert_of_pairAll {fr : SkOp → Bool} : ∀ {sb sa : Slots}, PairAll (OpOk fr) sb sa →
    PairAll TagRule sb sa → SkelCert sb sa
  | [], [], _, _ => trivial
  | [], _ :: _, h', _ => by simp [PairAll] at h'
  | none :: _, [], h', _ => by simp [PairAll] at h'
  | some _ :: _, [], h', _ => by simp [PairAll] at h'
  | none :: tb, none :: ta, h', ht => by
    simp only [PairAll] at h' ht
    simp only [SkelCert]
    exact skelCert_of_pairAll h' ht
  | none :: tb, some _ :: ta, h', _ => by simp [PairAll] at h'
  | some _ :: tb, none :: ta, h', _ => by simp [PairAll] at h'
  | some ob :: tb, some oa :: ta, h', ht => by
    simp only [PairAll] at h' ht
    simp only [SkelCert]
    obtain ⟨hop, hrest⟩ := h'
    refine ⟨⟨hop.vars, hop.bond, hop.const, by rw [hop.insA, hop.insB], by rw [hop.outsA, hop.outsB], ?_⟩,
      skelCert_of_pairAll hrest ht.2⟩
    have h1 := ht.1
    simp only [TagRule, tagRuleB] at h1
    split at h1
    · rename_i hu
      simp only [Bool.and_eq_true, beq_iff_eq] at hu h1
      exact Or.inl (op_eq_of_fields hop.vars hop.bond hu.1 hu.2 h1 hop.const)
    · right
      simp only [beq_iff_eq] at h1
      rw [h1]
      exact Bool.eq_iff_iff.mpr (by simp)

/-- one op of a cluster move keeps its matrix element, for a Hamiltonian whose non-edge bonds are
invariant under the global flip of their legs and whose edge bonds have a constant matrix -/
theorem opOk_weight_eq (H : Ham) {fr : SkOp → Bool} {ob oa : Op} (hop : OpOk fr ob oa)
    (hs : ob.isEdge = false → fr ob.sk = false → H.FlipSym ob.bond)
    (hc : ob.isEdge = true → H.ConstW ob.bond) :
    H.w oa.bond oa.ins oa.outs = H.w ob.bond ob.ins ob.outs := by
  rw [hop.bond]
  cases he : ob.isEdge
  · cases hf : fr ob.sk
    · rcases hop.closed he with hu | hfl
      · rw [hu.1, hu.2]
      · rw [hfl.1, hfl.2]; exact hs he hf _ _
    · have hu := hop.frozen he hf
      rw [hu.1, hu.2]
  · exact hc he _ _ _ _ (by rw [hop.insA, hop.insB]) (by rw [hop.outsA, hop.outsB])

/-- weight part: every op of the result has a positive matrix element when every op of the start has -/
theorem keepsWeight_of_pairAll (H : Ham) {fr : SkOp → Bool} : ∀ {sb sa : Slots}, PairAll (OpOk fr) sb sa →
    (∀ o ∈ opsOf sb, o.isEdge = false → fr o.sk = false → H.FlipSym o.bond) →
    (∀ o ∈ opsOf sb, o.isEdge = true → H.ConstW o.bond) →
    (∀ o ∈ opsOf sb, 0 < H.w o.bond o.ins o.outs) → KeepsWeight H sb sa
  | [], [], _, _, _, _ => trivial
  | [], _ :: _, h', _, _, _ => by simp [PairAll] at h'
  | none :: _, [], h', _, _, _ => by simp [PairAll] at h'
  | some _ :: _, [], h', _, _, _ => by simp [PairAll] at h'
  | none :: tb, none :: ta, h', hs, hc, hp => by
    simp only [PairAll] at h'
    simp only [KeepsWeight]
    exact keepsWeight_of_pairAll H h' (fun o ho => hs o (by simpa [opsOf] using ho))
      (fun o ho => hc o (by simpa [opsOf] using ho)) (fun o ho => hp o (by simpa [opsOf] using ho))
  | none :: tb, some _ :: ta, h', _, _, _ => by simp [PairAll] at h'
  | some _ :: tb, none :: ta, h', _, _, _ => by simp [PairAll] at h'
  | some ob :: tb, some oa :: ta, h', hs, hc, hp => by
    simp only [PairAll] at h'
    simp only [KeepsWeight]
    refine ⟨Or.inr ?_, keepsWeight_of_pairAll H h'.2 (fun o ho => hs o (by simp [opsOf, ho]))
      (fun o ho => hc o (by simp [opsOf, ho])) (fun o ho => hp o (by simp [opsOf, ho]))⟩
    rw [opOk_weight_eq H h'.1 (hs ob (by simp [opsOf])) (hc ob (by simp [opsOf]))]
    exact hp ob (by simp [opsOf])

/-- **C09 → bridge**: a cluster move with the tag rule is a certified spin-only update -/
theorem clusterMove_flipCert {fr : SkOp → Bool} {b a : Config} (h : ClusterMove fr b a)
    (ht : PairAll TagRule b.slots a.slots) : FlipCert b a :=
  ⟨h.stateLen, skelCert_of_pairAll h.ops ht, Qmc.C09.clusterMove_consistent h⟩

theorem clusterMove_keepsWeight (H : Ham) {fr : SkOp → Bool} {b a : Config} (h : ClusterMove fr b a)
    (hs : ∀ o ∈ opsOf b.slots, o.isEdge = false → fr o.sk = false → H.FlipSym o.bond)
    (hc : ∀ o ∈ opsOf b.slots, o.isEdge = true → H.ConstW o.bond)
    (hp : ∀ o ∈ opsOf b.slots, 0 < H.w o.bond o.ins o.outs) : KeepsWeight H b.slots a.slots :=
  keepsWeight_of_pairAll H h.ops hs hc hp

/-- **Parametrised over the update function** (any result type `α` after the configuration, e.g.
`Nat × RS` for `clusterUpdate`), on a domain `D` of configurations (e.g. `ShapeOk`): if every call is a
`ClusterMove` and follows the tag rule, every call is a certified spin-only update. -/
theorem clusterUpdate_flipCert {α : Type} (update : Config → RS → Config × α) (fr : SkOp → Bool)
    (D : Config → Prop)
    (hmove : ∀ c rs, D c → ClusterMove fr c (update c rs).1)
    (htag : ∀ c rs, D c → PairAll TagRule c.slots (update c rs).1.slots) :
    ∀ c rs, D c → FlipCert c (update c rs).1 :=
  fun c rs hD => clusterMove_flipCert (hmove c rs hD) (htag c rs hD)

theorem clusterUpdate_keepsWeight {α : Type} (update : Config → RS → Config × α) (fr : SkOp → Bool)
    (D : Config → Prop) (H : Ham)
    (hmove : ∀ c rs, D c → ClusterMove fr c (update c rs).1) :
    ∀ c rs, D c →
      (∀ o ∈ opsOf c.slots, o.isEdge = false → fr o.sk = false → H.FlipSym o.bond) →
      (∀ o ∈ opsOf c.slots, o.isEdge = true → H.ConstW o.bond) →
      (∀ o ∈ opsOf c.slots, 0 < H.w o.bond o.ins o.outs) →
      KeepsWeight H c.slots (update c rs).1.slots :=
  fun c rs hD hs hc hp => clusterMove_keepsWeight H (hmove c rs hD) hs hc hp

/-! ### non-vacuity: the 3-variable Ising move of C09 (two spins + an idle one) -/

theorem ex_tags : PairAll TagRule Qmc.C09.exB.slots Qmc.C09.exA.slots :=
  (pairAllB_iff (fun _ _ => Iff.rfl) _ _).1 (by decide)

/-- the hypotheses of `clusterMove_flipCert` hold on a concrete non-trivial move … -/
example : FlipCert Qmc.C09.exB Qmc.C09.exA :=
  clusterMove_flipCert (Qmc.C09.isClusterMove_sound (fr := fun _ => false) (by decide)) ex_tags

/-- … and those of the parametrised theorem on an update function that performs it -/
example : ∀ c rs, c = Qmc.C09.exB →
    FlipCert c ((fun (c : Config) (rs : RS) => (if c = Qmc.C09.exB then Qmc.C09.exA else c, (0, rs))) c rs).1 :=
  clusterUpdate_flipCert _ (fun _ => false) (fun c => c = Qmc.C09.exB)
    (fun c rs hc => by
      subst hc
      simp only [if_true]
      exact Qmc.C09.isClusterMove_sound (by decide))
    (fun c rs hc => by
      subst hc
      simp only [if_true]
      exact ex_tags)

/-- all matrix elements 1: flip symmetric, constant, positive -/
def Hone : Ham :=
  { nbonds := 4
    vars := fun b => if b = 0 then [0, 1] else [b - 1]
    const := fun b => decide (b ≠ 0)
    w := fun _ _ _ => 1 }

/-- the weight certificate on the same move -/
example : KeepsWeight Hone Qmc.C09.exB.slots Qmc.C09.exA.slots :=
  clusterMove_keepsWeight Hone (Qmc.C09.isClusterMove_sound (fr := fun _ => false) (by decide))
    (fun _ _ _ _ _ _ => rfl) (fun _ _ _ _ _ _ _ _ _ => rfl)
    (fun _ _ => by show (0 : Rat) < 1; decide +kernel)

end Qmc.Refine
