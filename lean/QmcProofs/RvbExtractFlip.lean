import QmcModel.Rvb
import QmcProofs.RvbMove
import QmcProofs.RvbSweep
import QmcProofs.RvbRegion

/-!
# The segment abstraction read off the configuration AFTER an RVB move is the flipped abstraction

`extract E a R = (extract E b R).flip` (on the `Problem` component; the assignments differ — the
rotatable operators were re-drawn — but have the same shape) whenever `RvbMove E b a R`, for all
configurations, regions, couplings.  This was the OBSERVED hypothesis `hflip`/`hshape` of
`Qmc.C03.rvb_detailed_balance_full_cfg`.

Exact statement proved (`extract_flip`): hypotheses
* `RvbMove E b a R`;
* `OpsOK E b.slots`: every operator of `b` with a diagonal tag has `outs = ins`, every operator on an
  edge bond acts on that edge's two variables, every operator flagged constant sits on a
  transverse-field bond (all three are consequences of C07's `Legal` for the Ising Hamiltonian);
* `Covered b R`: every variable that is inside the region at `p = 0` or at which the region toggles is
  listed in `R.subvars` (the code's `subvars` = cluster ∪ boundary variables);
* the sweep of `calculate_flip_prob` is abandoned neither on `b` nor on `a`
  (`(rvbCodeMult E · R).2 = false`).
The last hypothesis is NECESSARY: `Sweep.run` mirrors the code in not committing a segment once the
running product is below `f64::EPSILON`, so after an underflow the extracted segment list is
truncated; `underflow_corner` is a concrete move for which the flipped-abstraction statement fails.

Method: `stepI`/`runI` = the sweep without the EPSILON exits (`run_eq_runI`: equal to `Sweep.run`
whenever the latter never sets `broke`); lock-step induction over `Steps` with the relation `Rel`
between the sweep on `b` and the sweep on `a`.
-/

namespace Qmc.Rvb.ExtractFlip
open Qmc Qmc.Rvb

/-! ## the sweep without the EPSILON exits -/

/-- the Ising factor of an operator completely inside the region -/
def addInner (E : Ising) (s : Sweep) (o : Op) : Sweep :=
  if o.vars.all (getB s.mask) then
    { s with inner := s.inner ++ [(E.opW o, E.w o.bond (flipAll o.ins) (flipAll o.outs))],
             mult := s.mult * (E.w o.bond (flipAll o.ins) (flipAll o.outs) / E.opW o) }
  else s

/-- state / membership / toggle-list update after a visited operator that is not on a boundary bond -/
def finish (s2 : Sweep) (o : Op) (isTog : Bool) : Sweep :=
  { s2 with st := if !o.tagDiag then writeVars s2.st o.vars o.outs else s2.st,
            mask := if isTog then toggleAt s2.mask (o.vars.headD 0) else s2.mask,
            tog := if isTog then s2.tog.tail else s2.tog,
            bad := s2.bad || (isTog && !(o.const && o.vars.length == 1)) }

/-- `Sweep.stepOp` with the two `mult < EPSILON` tests removed -/
def stepI (E : Ising) (R : Region) (s : Sweep) (p : Nat) (o : Op) : Sweep :=
  if !(o.vars.any R.subvars.contains) then { s with st := writeVars s.st o.vars o.outs }
  else
    match ((boundary E s.st s.mask).map (·.1)).idxOf? o.bond with
    | some i => { s with cur := s.cur ++ [i], bad := s.bad || !o.tagDiag || s.tog.head? == some p }
    | none =>
      finish (if !o.tagDiag || s.tog.head? == some p then (addInner E s o).commit E else addInner E s o)
        o (s.tog.head? == some p)

def runI (E : Ising) (R : Region) : Sweep → Nat → Slots → Sweep
  | s, _, [] => s
  | s, p, none :: t => runI E R s (p + 1) t
  | s, p, some o :: t => runI E R (stepI E R s p o) (p + 1) t

/-- does the sweep count the operator in the segment abstraction (as a rotatable operator of the open
segment, or as an enclosed operator)? -/
def touched (E : Ising) (R : Region) (s : Sweep) (o : Op) : Bool :=
  o.vars.any R.subvars.contains &&
    ((((boundary E s.st s.mask).map (·.1)).idxOf? o.bond).isSome || o.vars.all (getB s.mask))

/-- product of the matrix elements of the operators the abstraction does NOT count -/
def restW (E : Ising) (R : Region) : Sweep → Nat → Slots → Rat
  | _, _, [] => 1
  | s, p, none :: t => restW E R s (p + 1) t
  | s, p, some o :: t => (if touched E R s o then 1 else E.opW o) * restW E R (stepI E R s p o) (p + 1) t

theorem commit_broke (E : Ising) (s : Sweep) : (s.commit E).broke = s.broke := rfl

/-- `broke` is sticky -/
theorem stepOp_broke (E : Ising) (R : Region) (s : Sweep) (p : Nat) (o : Op) (h : s.broke = true) :
    (s.stepOp E R p o).broke = true := by
  unfold Sweep.stepOp
  split
  · exact h
  · simp only
    split
    · exact h
    · simp only
      split <;> split <;> (try split) <;> (try split) <;> simp_all [Sweep.commit]

theorem run_broke (E : Ising) (R : Region) (sl : Slots) (s : Sweep) (p : Nat) (h : s.broke = true) :
    (Sweep.run E R s p sl).broke = true := by
  induction sl generalizing s p with
  | nil => exact h
  | cons x t ih =>
    cases x with
    | none => exact ih s (p + 1) h
    | some o => exact ih _ (p + 1) (stepOp_broke E R s p o h)

/-- as long as `broke` stays `false`, `stepOp` is `stepI` -/
theorem stepOp_eq_stepI (E : Ising) (R : Region) (s : Sweep) (p : Nat) (o : Op)
    (h : (s.stepOp E R p o).broke = false) :
    s.stepOp E R p o = stepI E R s p o := by
  unfold Sweep.stepOp stepI finish addInner at *
  by_cases hv : (!(o.vars.any R.subvars.contains)) = true
  · simp only [hv, if_true]
  · simp only [hv] at h ⊢
    generalize hidx : List.idxOf? o.bond (List.map (fun x => x.1) (boundary E s.st s.mask)) = r at h ⊢
    cases r with
    | some i => rfl
    | none =>
      simp only at h ⊢
      generalize hs1 : (if o.vars.all (getB s.mask) = true then
          ({ s with inner := s.inner ++ [(E.opW o, E.w o.bond (flipAll o.ins) (flipAll o.outs))],
                    mult := s.mult * (E.w o.bond (flipAll o.ins) (flipAll o.outs) / E.opW o) } : Sweep)
          else s) = s1 at h ⊢
      by_cases h1 : s1.mult < f64eps
      · simp only [h1, if_true] at h
        cases h
      · simp only [h1, if_false] at h ⊢
        generalize hs2 : (if (!o.tagDiag || s.tog.head? == some p) = true then s1.commit E else s1) = s2 at h ⊢
        by_cases h2 : s2.mult < f64eps
        · simp only [h2, if_true] at h
          cases h
        · simp only [h2, if_false]

theorem run_eq_runI (E : Ising) (R : Region) (sl : Slots) (s : Sweep) (p : Nat)
    (h : (Sweep.run E R s p sl).broke = false) : Sweep.run E R s p sl = runI E R s p sl := by
  induction sl generalizing s p with
  | nil => rfl
  | cons x t ih =>
    cases x with
    | none => exact ih s (p + 1) h
    | some o =>
      have hb : (s.stepOp E R p o).broke = false := by
        cases hc : (s.stepOp E R p o).broke with
        | false => rfl
        | true =>
          have := run_broke E R t _ (p + 1) hc
          have h' : (Sweep.run E R (s.stepOp E R p o) (p + 1) t).broke = false := h
          rw [this] at h'; cases h'
      show Sweep.run E R (s.stepOp E R p o) (p + 1) t = runI E R (stepI E R s p o) (p + 1) t
      rw [← stepOp_eq_stepI E R s p o hb]
      exact ih _ (p + 1) h

/-- the code did not abandon its sweep ⇒ the plain sweep never set `broke` -/
theorem run_not_broke (E : Ising) (c : Config) (R : Region) (h : (rvbCodeMult E c R).2 = false) :
    (Sweep.run E R { st := c.state, mask := R.mask0, tog := R.toggles } 0 c.slots).broke = false := by
  unfold rvbCodeMult at h
  simp only at h
  split at h
  · cases h
  · rename_i hb
    have hb' : (Sweep.runCode E R { st := c.state, mask := R.mask0, tog := R.toggles } 0 c.slots).broke = false := by
      simpa using hb
    rw [← Sweep.runCode_eq_run E R c.slots _ 0 hb' rfl]
    exact hb'

/-! ## list / boundary lemmas -/

theorem flipAll_flipAll (l : List Bool) : flipAll (flipAll l) = l := by
  unfold flipAll
  induction l with
  | nil => rfl
  | cons a t ih => simp [ih]

theorem xorL_xorL (a m : List Bool) (h : a.length = m.length) : xorL (xorL a m) m = a := by
  apply ext_getB
  · rw [xorL_length _ _ (by rw [xorL_length _ _ h, h]), xorL_length _ _ h]
  · intro i
    rw [getB_xorL _ _ (by rw [xorL_length _ _ h, h]), getB_xorL _ _ h]
    cases getB a i <;> cases getB m i <;> rfl

/-- writing the xor-ed outputs into the xor-ed state (the core of `Steps.propagate`) -/
theorem writeVars_xor (st mask mask2 : List Bool) (vars : List Nat) (outs : List Bool)
    (hl : st.length = mask.length) (hm2 : mask2.length = mask.length) (hnd : vars.Nodup)
    (hlo : outs.length = vars.length) (hoff : ∀ i, i ∉ vars → getB mask2 i = getB mask i) :
    writeVars (xorL st mask) vars (xorL outs (vars.map (getB mask2))) =
      xorL (writeVars st vars outs) mask2 := by
  have hl2 : (writeVars st vars outs).length = mask2.length := by rw [writeVars_length, hm2, hl]
  apply ext_getB
  · rw [writeVars_length, xorL_length _ _ hl, xorL_length _ _ hl2, writeVars_length]
  · intro i
    rw [getB_writeVars _ _ _ hnd, getB_xorL _ _ hl2, getB_writeVars _ _ _ hnd, lk_xorL _ _ _ _ hlo,
      xorL_length _ _ hl]
    cases hk : lk vars outs i with
    | some b =>
      simp only [Option.map_some]
      by_cases hi : i < st.length
      · simp [hi]
      · simp only [hi, if_false]
        have : getB mask2 i = false := by
          unfold getB
          rw [List.getD_eq_getElem?_getD, List.getElem?_eq_none (by omega)]; rfl
        rw [this]; rfl
    | none =>
      simp only [Option.map_none]
      have hni : i ∉ vars := by
        intro hmem
        obtain ⟨b, hb⟩ := lk_isSome_of_mem vars outs i hlo hmem
        rw [hb] at hk; cases hk
      rw [getB_xorL _ _ hl, hoff i hni]

theorem twoSite_xor (j : Rat) (a b mu mv : Bool) (h : (mu != mv) = true) :
    twoSite j (a != mu) (b != mv) = twoSite j (!a) b ∧ twoSite j (!(a != mu)) (b != mv) = twoSite j a b := by
  cases a <;> cases b <;> cases mu <;> cases mv <;> simp_all [twoSite]

/-- **the boundary of the flipped state**: same bonds, `(w_before, w_after)` swapped -/
theorem boundary_xor (E : Ising) (st mask : List Bool) (hl : st.length = mask.length) :
    boundary E (xorL st mask) mask = (boundary E st mask).map fun x => (x.1, x.2.2, x.2.1) := by
  unfold boundary
  rw [List.map_filterMap]
  apply List.filterMap_congr
  rintro ⟨b, u, v, j⟩ _
  simp only [getB_xorL _ _ hl]
  by_cases h : (getB mask u != getB mask v) = true
  · obtain ⟨h1, h2⟩ := twoSite_xor j (getB st u) (getB st v) _ _ h
    simp only [h, if_true, Option.map_some, h1, h2]
  · simp only [h, Bool.false_eq_true, if_false, Option.map_none]

theorem boundary_xor_bonds (E : Ising) (st mask : List Bool) (hl : st.length = mask.length) :
    (boundary E (xorL st mask) mask).map (·.1) = (boundary E st mask).map (·.1) := by
  rw [boundary_xor E st mask hl, List.map_map]; rfl

theorem mem_range_zip {α} (l : List α) (i : Nat) (x : α) (h : (i, x) ∈ (List.range l.length).zip l) :
    l[i]? = some x := by
  obtain ⟨k, hk⟩ := List.getElem?_of_mem h
  rw [List.getElem?_zip_eq_some] at hk
  obtain ⟨h1, h2⟩ := hk
  simp only at h1 h2
  have hk' : k < l.length := by
    by_contra hc
    rw [List.getElem?_eq_none (by omega)] at h2; cases h2
  rw [List.getElem?_range hk'] at h1
  injection h1 with h1
  subst h1; exact h2

/-- what a boundary entry is -/
theorem mem_boundary {E : Ising} {st mask : List Bool} {b : Nat} {wb wa : Rat}
    (h : (b, wb, wa) ∈ boundary E st mask) :
    ∃ u v j, E.edges[b]? = some (u, v, j) ∧ (getB mask u != getB mask v) = true ∧
      wb = twoSite j (getB st u) (getB st v) ∧ wa = twoSite j (!getB st u) (getB st v) := by
  unfold boundary at h
  rw [List.mem_filterMap] at h
  obtain ⟨⟨b', u, v, j⟩, hmem, heq⟩ := h
  have hb := mem_range_zip _ _ _ hmem
  simp only at heq
  split at heq
  · rename_i hm
    injection heq with heq
    injection heq with e1 e2
    injection e2 with e2 e3
    subst e1
    exact ⟨u, v, j, hb, hm, e2.symm, e3.symm⟩
  · cases heq

/-! ## side conditions -/

/-- what the sweep needs to know about an operator of the configuration before the move: a diagonal
tag means `outs = ins`; an operator on an edge bond acts on that edge's two variables; an operator
flagged constant sits on a transverse-field bond. (All three follow from C07's `Legal` for the Ising
Hamiltonian: `opOK_of_legalFor` in QmcProofs/RvbHam.lean.) -/
def OpOK (E : Ising) (o : Op) : Prop :=
  (o.tagDiag = true → o.outs = o.ins) ∧
  (∀ u v j, E.edges[o.bond]? = some (u, v, j) → o.vars = [u, v]) ∧
  (o.const = true → E.edges.length ≤ o.bond ∧ o.bond < E.edges.length + E.nvars)

def OpsOK (E : Ising) (s : Slots) : Prop := ∀ o, some o ∈ s → OpOK E o

/-- the operators at the toggle positions (counted from `p`) act on listed variables -/
def CovFrom (R : Region) (p : Nat) (s : Slots) : Prop :=
  ∀ k o, s[k]? = some (some o) → p + k ∈ R.toggles → ∀ v ∈ o.vars, v ∈ R.subvars

/-- every variable that is ever inside the region is listed in `subvars` -/
def Covered (c : Config) (R : Region) : Prop :=
  (∀ v, getB R.mask0 v = true → v ∈ R.subvars) ∧ CovFrom R 0 c.slots

theorem CovFrom.tail {R : Region} {p : Nat} {x : Option Op} {s : Slots} (h : CovFrom R p (x :: s)) :
    CovFrom R (p + 1) s := by
  intro k o hk hp v hv
  exact h (k + 1) o (by simpa using hk) (by rw [← Nat.add_assoc, Nat.add_right_comm]; exact hp) v hv

theorem OpsOK.tail {E : Ising} {x : Option Op} {s : Slots} (h : OpsOK E (x :: s)) : OpsOK E s :=
  fun o ho => h o (List.mem_cons_of_mem _ ho)

theorem visited_iff (R : Region) (o : Op) :
    o.vars.any R.subvars.contains = true ↔ ∃ v ∈ o.vars, v ∈ R.subvars := by
  simp [List.any_eq_true]

theorem transverse_w (E : Ising) (b : Nat) (h1 : E.edges.length ≤ b) (h2 : b < E.edges.length + E.nvars)
    (i o : List Bool) : E.w b i o = E.gamma := by
  unfold Ising.w
  rw [if_neg (by omega), if_pos h2]

/-! ## the relation between the two sweeps -/

/-- the sweep on `a` (second argument) mirrors the sweep on `b`: state xor-ed with the membership,
same membership and toggles, segments flipped, enclosed-operator pairs swapped, same shape of the
assignment -/
structure Rel (sb sa : Sweep) : Prop where
  st : sa.st = xorL sb.st sb.mask
  mask : sa.mask = sb.mask
  tog : sa.tog = sb.tog
  len : sb.st.length = sb.mask.length
  segs : sa.segs = sb.segs.map Seg.flip
  inner : sa.inner = sb.inner.map fun p => (p.2, p.1)
  cur : sa.cur.length = sb.cur.length
  asg : sa.asg.map List.length = sb.asg.map List.length

theorem commit_rel (E : Ising) {sb sa : Sweep} (h : Rel sb sa) : Rel (sb.commit E) (sa.commit E) := by
  refine ⟨h.st, h.mask, h.tog, h.len, ?_, h.inner, rfl, ?_⟩
  · show sa.segs ++ [_] = (sb.segs ++ [_]).map Seg.flip
    rw [List.map_append, h.segs, h.st, h.mask, boundary_xor E _ _ h.len]
    simp [Seg.flip, List.map_map, Function.comp_def]
  · show (sa.asg ++ [sa.cur]).map List.length = (sb.asg ++ [sb.cur]).map List.length
    rw [List.map_append, List.map_append, h.asg]
    simp [h.cur]

theorem idxOf?_some_of_mem {l : List Nat} {b : Nat} (h : b ∈ l) : ∃ i, l.idxOf? b = some i := by
  cases hc : l.idxOf? b with
  | some i => exact ⟨i, rfl⟩
  | none => exact absurd h (List.idxOf?_eq_none_iff.1 hc)

theorem onBoundary_iff_mem (E : Ising) (st mask : List Bool) (b : Nat) :
    OnBoundary E st mask b ↔ b ∈ (boundary E st mask).map (·.1) := by
  unfold OnBoundary
  simp [List.mem_map]

/-- an edge across the region boundary touches a listed variable -/
theorem visited_of_edge {R : Region} {mask : List Bool} (hcov : ∀ v, getB mask v = true → v ∈ R.subvars)
    {u v : Nat} (h : (getB mask u != getB mask v) = true) : ∃ w ∈ [u, v], w ∈ R.subvars := by
  cases hu : getB mask u with
  | true => exact ⟨u, by simp, hcov u hu⟩
  | false =>
    rw [hu] at h
    have hv : getB mask v = true := by simpa using h
    exact ⟨v, by simp, hcov v hv⟩

theorem stepI_foreign (E : Ising) (R : Region) (s : Sweep) (p : Nat) (o : Op)
    (h : o.vars.any R.subvars.contains = false) :
    stepI E R s p o = { s with st := writeVars s.st o.vars o.outs } := by
  unfold stepI; simp only [h, Bool.not_false, if_true]

theorem stepI_rot (E : Ising) (R : Region) (s : Sweep) (p : Nat) (o : Op) (i : Nat)
    (h : o.vars.any R.subvars.contains = true)
    (hi : ((boundary E s.st s.mask).map (·.1)).idxOf? o.bond = some i) :
    stepI E R s p o = { s with cur := s.cur ++ [i], bad := s.bad || !o.tagDiag || s.tog.head? == some p } := by
  unfold stepI; simp only [h, Bool.not_true, Bool.false_eq_true, if_false, hi]

theorem stepI_other (E : Ising) (R : Region) (s : Sweep) (p : Nat) (o : Op)
    (h : o.vars.any R.subvars.contains = true)
    (hi : ((boundary E s.st s.mask).map (·.1)).idxOf? o.bond = none) :
    stepI E R s p o =
      finish (if !o.tagDiag || s.tog.head? == some p then (addInner E s o).commit E else addInner E s o)
        o (s.tog.head? == some p) := by
  unfold stepI; simp only [h, Bool.not_true, Bool.false_eq_true, if_false, hi]

theorem addInner_fields (E : Ising) (s : Sweep) (o : Op) :
    (addInner E s o).st = s.st ∧ (addInner E s o).mask = s.mask ∧ (addInner E s o).tog = s.tog ∧
    (addInner E s o).cur = s.cur ∧ (addInner E s o).segs = s.segs ∧ (addInner E s o).asg = s.asg := by
  unfold addInner
  by_cases h : o.vars.all (getB s.mask) = true
  · rw [if_pos h]; exact ⟨rfl, rfl, rfl, rfl, rfl, rfl⟩
  · rw [if_neg h]; exact ⟨rfl, rfl, rfl, rfl, rfl, rfl⟩

/-- the fields the Ising factor and the commit leave alone -/
theorem pre_fields (E : Ising) (s : Sweep) (o : Op) (c : Bool) :
    (if c then (addInner E s o).commit E else addInner E s o).st = s.st ∧
    (if c then (addInner E s o).commit E else addInner E s o).mask = s.mask ∧
    (if c then (addInner E s o).commit E else addInner E s o).tog = s.tog := by
  obtain ⟨h1, h2, h3, -⟩ := addInner_fields E s o
  cases c
  · exact ⟨h1, h2, h3⟩
  · exact ⟨h1, h2, h3⟩

/-- one rotatable operator -/
theorem step_rebond {E : Ising} {R : Region} {sb sa : Sweep} {p : Nat} {o o' : Op} (hr : Rel sb sa)
    (hcov : ∀ v, getB sb.mask v = true → v ∈ R.subvars) (hok : OpOK E o)
    (hin : inputsMatch sb.st o = true) (hb : OnBoundary E sb.st sb.mask o.bond)
    (hrb : Rebond E sb.st sb.mask o o') :
    Rel (stepI E R sb p o) (stepI E R sa p o') ∧ (stepI E R sb p o).st = writeVars sb.st o.vars o.outs ∧
      (stepI E R sb p o).mask = sb.mask ∧ (stepI E R sb p o).tog = sb.tog ∧
      touched E R sb o = true ∧ touched E R sa o' = true := by
  -- the side before the move
  obtain ⟨⟨b0, wb0, wa0⟩, hx, hxb⟩ := hb
  simp only at hxb
  subst hxb
  obtain ⟨u, v, j, he, hm, -, -⟩ := mem_boundary hx
  have hvars : o.vars = [u, v] := hok.2.1 u v j he
  have hvis : o.vars.any R.subvars.contains = true := by
    rw [visited_iff, hvars]; exact visited_of_edge hcov hm
  obtain ⟨i, hi⟩ := idxOf?_some_of_mem (l := (boundary E sb.st sb.mask).map (·.1)) (b := o.bond)
    (List.mem_map.2 ⟨_, hx, rfl⟩)
  -- the side after the move
  obtain ⟨b1, wb1, wa1, u1, v1, j1, hx1, hb1, hg1, -, -, hvars1, -, -, -⟩ := hrb.target
  obtain ⟨u2, v2, j2, he2, hm2, -, -⟩ := mem_boundary hx1
  have hg2 : E.edges.getD b1 (0, 0, 0) = (u2, v2, j2) := by
    rw [List.getD_eq_getElem?_getD, he2]; rfl
  rw [hg1] at hg2
  injection hg2 with e1 e2
  injection e2 with e2 e3
  subst e1 e2
  have hvis' : o'.vars.any R.subvars.contains = true := by
    rw [visited_iff, hvars1]; exact visited_of_edge hcov hm2
  have hbonds : (boundary E sa.st sa.mask).map (·.1) = (boundary E sb.st sb.mask).map (·.1) := by
    rw [hr.st, hr.mask, boundary_xor_bonds E _ _ hr.len]
  obtain ⟨i', hi'⟩ := idxOf?_some_of_mem (l := (boundary E sa.st sa.mask).map (·.1)) (b := o'.bond)
    (by rw [hbonds, hb1]; exact List.mem_map.2 ⟨_, hx1, rfl⟩)
  have ht : touched E R sb o = true := by simp [touched, hvis, hi]
  have ht' : touched E R sa o' = true := by simp [touched, hvis', hi']
  rw [stepI_rot E R sb p o i hvis hi, stepI_rot E R sa p o' i' hvis' hi']
  have hwm : writeVars sb.st o.vars o.outs = sb.st := by
    rw [hrb.oldDiag.2]
    exact writeVars_matched sb.st o.vars o.ins (by simpa [inputsMatch] using hin)
  refine ⟨⟨hr.st, hr.mask, hr.tog, hr.len, hr.segs, hr.inner, ?_, hr.asg⟩, hwm.symm, rfl, rfl, ht, ht'⟩
  show (sa.cur ++ [i']).length = (sb.cur ++ [i]).length
  simp [hr.cur]

/-- the Ising factor of an enclosed operator: pairs swapped -/
theorem addInner_rel {E : Ising} {sb sa : Sweep} {o o' : Op} (hr : Rel sb sa) (hvars : o'.vars = o.vars)
    (hpair : o.vars.all (getB sb.mask) = true →
      (E.opW o', E.w o'.bond (flipAll o'.ins) (flipAll o'.outs)) =
        (E.w o.bond (flipAll o.ins) (flipAll o.outs), E.opW o)) :
    Rel (addInner E sb o) (addInner E sa o') := by
  have hcond : o'.vars.all (getB sa.mask) = o.vars.all (getB sb.mask) := by rw [hvars, hr.mask]
  unfold addInner
  rw [hcond]
  by_cases h : o.vars.all (getB sb.mask) = true
  · rw [if_pos h, if_pos h]
    refine ⟨hr.st, hr.mask, hr.tog, hr.len, hr.segs, ?_, hr.cur, hr.asg⟩
    show sa.inner ++ [_] = (sb.inner ++ [_]).map fun p : Rat × Rat => (p.2, p.1)
    rw [List.map_append, hr.inner, hpair h]
    rfl
  · rw [if_neg h, if_neg h]; exact hr

/-- one operator that is not on a boundary bond -/
theorem step_flip {E : Ising} {R : Region} {sb sa : Sweep} {p : Nat} {o o' : Op} {isTog : Bool}
    {mask2 : List Bool} (hr : Rel sb sa) (hcov : ∀ v, getB sb.mask v = true → v ∈ R.subvars)
    (hcovT : isTog = true → ∀ v ∈ o.vars, v ∈ R.subvars)
    (hok : OpOK E o) (hin : inputsMatch sb.st o = true) (hnb : ¬ OnBoundary E sb.st sb.mask o.bond)
    (hT : isTog = (sb.tog.head? == some p))
    (c1 : isTog = true → o.const = true ∧ ∃ v, o.vars = [v] ∧ mask2 = toggleAt sb.mask v)
    (c2 : isTog = false → mask2 = sb.mask ∧
      ((∀ v ∈ o.vars, getB sb.mask v = true) ∨ (∀ v ∈ o.vars, getB sb.mask v = false)))
    (hnd : o.vars.Nodup) (hli : o.ins.length = o.vars.length) (hlo : o.outs.length = o.vars.length)
    (ho' : o' = xorOp o sb.mask mask2 isTog) :
    Rel (stepI E R sb p o) (stepI E R sa p o') ∧ (stepI E R sb p o).st = writeVars sb.st o.vars o.outs ∧
      (stepI E R sb p o).mask = mask2 ∧ (stepI E R sb p o).tog = (if isTog then sb.tog.tail else sb.tog) ∧
      touched E R sa o' = touched E R sb o ∧ (touched E R sb o = false → E.opW o' = E.opW o) := by
  have hvars : o'.vars = o.vars := by rw [ho']; rfl
  have hbond : o'.bond = o.bond := by rw [ho']; rfl
  have hins : o'.ins = xorL o.ins (o.vars.map (getB sb.mask)) := by rw [ho']; rfl
  have houts : o'.outs = xorL o.outs (o.vars.map (getB mask2)) := by rw [ho']; rfl
  have hm2 : mask2.length = sb.mask.length := by
    cases hc : isTog with
    | true => obtain ⟨_, v, _, hm⟩ := c1 hc; rw [hm, toggleAt_length]
    | false => rw [(c2 hc).1]
  have hoff : ∀ i, i ∉ o.vars → getB mask2 i = getB sb.mask i := by
    intro i hi
    cases hc : isTog with
    | true =>
      obtain ⟨_, v, hv, hm⟩ := c1 hc
      rw [hm]
      apply getB_toggleAt_ne
      intro e; apply hi; rw [hv, e]; simp
    | false => rw [(c2 hc).1]
  have hmatch : ((o.vars.zip o.ins).all fun vb => sb.st[vb.1]? == some vb.2) = true := by
    simpa [inputsMatch] using hin
  have hW : writeVars (xorL sb.st sb.mask) o'.vars o'.outs = xorL (writeVars sb.st o.vars o.outs) mask2 := by
    rw [hvars, houts]; exact writeVars_xor _ _ _ _ _ hr.len hm2 hnd hlo hoff
  have hWlen : (writeVars sb.st o.vars o.outs).length = mask2.length := by
    rw [writeVars_length, hm2, hr.len]
  have hbonds : (boundary E sa.st sa.mask).map (·.1) = (boundary E sb.st sb.mask).map (·.1) := by
    rw [hr.st, hr.mask, boundary_xor_bonds E _ _ hr.len]
  have hTa : (sa.tog.head? == some p) = isTog := by rw [hr.tog, hT]
  have hM : (if isTog = true then toggleAt sb.mask (o.vars.headD 0) else sb.mask) = mask2 := by
    cases hc : isTog with
    | true => obtain ⟨_, v, hv, hm⟩ := c1 hc; simp [hv, hm]
    | false => simp [(c2 hc).1]
  have hdiag : o.tagDiag = true → writeVars sb.st o.vars o.outs = sb.st := by
    intro htd; rw [hok.1 htd]; exact writeVars_matched _ _ _ hmatch
  cases hvis : o.vars.any R.subvars.contains with
  | false =>
    have hnt : isTog = false := by
      cases hc : isTog with
      | false => rfl
      | true =>
        obtain ⟨_, v, hv, _⟩ := c1 hc
        have := (visited_iff R o).2 ⟨v, by rw [hv]; simp, hcovT hc v (by rw [hv]; simp)⟩
        rw [hvis] at this; cases this
    have hm : mask2 = sb.mask := (c2 hnt).1
    have hvis' : o'.vars.any R.subvars.contains = false := by rw [hvars]; exact hvis
    have ht : touched E R sb o = false := by simp [touched, hvis]
    have ht' : touched E R sa o' = false := by simp [touched, hvis']
    have hsame : o' = o := by
      rw [ho', hnt, hm]
      refine xorOp_outside o sb.mask hli hlo (fun v hv => ?_)
      cases hg : getB sb.mask v with
      | false => rfl
      | true =>
        have := (visited_iff R o).2 ⟨v, hv, hcov v hg⟩
        rw [hvis] at this; cases this
    rw [stepI_foreign E R sb p o hvis, stepI_foreign E R sa p o' hvis']
    refine ⟨⟨?_, hr.mask, hr.tog, ?_, hr.segs, hr.inner, hr.cur, hr.asg⟩, rfl, hm.symm, by rw [hnt]; rfl,
      by rw [ht, ht'], fun _ => by rw [hsame]⟩
    · show writeVars sa.st o'.vars o'.outs = xorL (writeVars sb.st o.vars o.outs) sb.mask
      rw [hr.st, hW, hm]
    · show (writeVars sb.st o.vars o.outs).length = sb.mask.length
      rw [writeVars_length]; exact hr.len
  | true =>
    have hvis' : o'.vars.any R.subvars.contains = true := by rw [hvars]; exact hvis
    have hi : ((boundary E sb.st sb.mask).map (·.1)).idxOf? o.bond = none :=
      List.idxOf?_eq_none_iff.2 (fun hm => hnb ((onBoundary_iff_mem _ _ _ _).2 hm))
    have hi' : ((boundary E sa.st sa.mask).map (·.1)).idxOf? o'.bond = none := by
      rw [hbonds, hbond]; exact hi
    have hcond : o'.vars.all (getB sa.mask) = o.vars.all (getB sb.mask) := by rw [hvars, hr.mask]
    have ht : touched E R sb o = o.vars.all (getB sb.mask) := by simp [touched, hvis, hi]
    have ht' : touched E R sa o' = o.vars.all (getB sb.mask) := by simp [touched, hvis', hi', hcond]
    have hw : touched E R sb o = false → E.opW o' = E.opW o := by
      intro hf
      rw [ht] at hf
      cases hc : isTog with
      | false =>
        obtain ⟨hm, hio⟩ := c2 hc
        rcases hio with hall | hnone
        · have : o.vars.all (getB sb.mask) = true := List.all_eq_true.2 hall
          rw [hf] at this; cases this
        · rw [ho', hc, hm, xorOp_outside o sb.mask hli hlo hnone]
      | true =>
        obtain ⟨hconst, _⟩ := c1 hc
        obtain ⟨t1, t2⟩ := hok.2.2 hconst
        simp only [Ising.opW, hbond, transverse_w E o.bond t1 t2]
    rw [stepI_other E R sb p o hvis hi, stepI_other E R sa p o' hvis' hi', hTa, ← hT]
    -- the commit condition is the same on both sides
    have hc : (!o'.tagDiag || isTog) = (!o.tagDiag || isTog) := by
      cases hc : isTog with
      | true => simp
      | false => rw [ho', hc]; simp [xorOp]
    -- the Ising factor
    have hR1 : Rel (addInner E sb o) (addInner E sa o') := by
      refine addInner_rel hr hvars (fun hall => ?_)
      have hall' : ∀ v ∈ o.vars, getB sb.mask v = true := fun v hv => List.all_eq_true.1 hall v hv
      cases hc : isTog with
      | false =>
        have hm : mask2 = sb.mask := (c2 hc).1
        have e : o' = { o with ins := flipAll o.ins, outs := flipAll o.outs } := by
          rw [ho', hc, hm]; exact xorOp_inside o sb.mask hli hlo hall'
        rw [e]
        simp only [Ising.opW, flipAll_flipAll]
      | true =>
        obtain ⟨hconst, _⟩ := c1 hc
        obtain ⟨t1, t2⟩ := hok.2.2 hconst
        simp only [Ising.opW, hbond, transverse_w E o.bond t1 t2]
    have hR2 : Rel (if (!o.tagDiag || isTog) = true then (addInner E sb o).commit E else addInner E sb o)
        (if (!o'.tagDiag || isTog) = true then (addInner E sa o').commit E else addInner E sa o') := by
      rw [hc]
      cases (!o.tagDiag || isTog)
      · simpa using hR1
      · simpa using commit_rel E hR1
    obtain ⟨f1, f2, f3⟩ := pre_fields E sb o (!o.tagDiag || isTog)
    obtain ⟨g1, g2, g3⟩ := pre_fields E sa o' (!o'.tagDiag || isTog)
    generalize (if (!o.tagDiag || isTog) = true then (addInner E sb o).commit E else addInner E sb o) = s2b
      at hR2 f1 f2 f3 ⊢
    generalize (if (!o'.tagDiag || isTog) = true then (addInner E sa o').commit E else addInner E sa o') = s2a
      at hR2 g1 g2 g3 ⊢
    have hWb : (if (!o.tagDiag) = true then writeVars s2b.st o.vars o.outs else s2b.st) =
        writeVars sb.st o.vars o.outs := by
      rw [f1]
      cases htd : o.tagDiag with
      | false => simp
      | true => simp [hdiag htd]
    have hWa : (if (!o'.tagDiag) = true then writeVars s2a.st o'.vars o'.outs else s2a.st) =
        xorL (writeVars sb.st o.vars o.outs) mask2 := by
      rw [g1, hr.st]
      cases htd : o'.tagDiag with
      | false => simpa using hW
      | true =>
        simp only [Bool.not_true, Bool.false_eq_true, if_false]
        cases hcT : isTog with
        | false =>
          have htd0 : o.tagDiag = true := by
            rw [ho', hcT] at htd; simpa [xorOp] using htd
          rw [(c2 hcT).1, hdiag htd0]
        | true =>
          have hio : o'.ins = o'.outs := by
            rw [ho', hcT] at htd
            simp only [xorOp, if_true, beq_iff_eq] at htd
            rw [hins, houts]; exact htd
          have him : ((o'.vars.zip o'.ins).all fun vb => (xorL sb.st sb.mask)[vb.1]? == some vb.2) = true := by
            rw [hvars, hins]
            exact inputsMatch_xor sb.st sb.mask hr.len o.vars o.ins hli hmatch
          rw [← hW, ← hio]
          exact (writeVars_matched _ _ _ him).symm
    refine ⟨⟨?_, ?_, ?_, ?_, hR2.segs, hR2.inner, hR2.cur, hR2.asg⟩, ?_, ?_, ?_, by rw [ht, ht'], hw⟩
    · show (if (!o'.tagDiag) = true then writeVars s2a.st o'.vars o'.outs else s2a.st) =
        xorL (if (!o.tagDiag) = true then writeVars s2b.st o.vars o.outs else s2b.st)
          (if isTog = true then toggleAt s2b.mask (o.vars.headD 0) else s2b.mask)
      rw [hWa, hWb, f2, hM]
    · show (if isTog = true then toggleAt s2a.mask (o'.vars.headD 0) else s2a.mask) =
        (if isTog = true then toggleAt s2b.mask (o.vars.headD 0) else s2b.mask)
      rw [g2, f2, hr.mask, hvars]
    · show (if isTog = true then s2a.tog.tail else s2a.tog) = (if isTog = true then s2b.tog.tail else s2b.tog)
      rw [g3, f3, hr.tog]
    · show (if (!o.tagDiag) = true then writeVars s2b.st o.vars o.outs else s2b.st).length =
        (if isTog = true then toggleAt s2b.mask (o.vars.headD 0) else s2b.mask).length
      rw [hWb, f2, hM]; exact hWlen
    · exact hWb
    · show (if isTog = true then toggleAt s2b.mask (o.vars.headD 0) else s2b.mask) = mask2
      rw [f2]; exact hM
    · show (if isTog = true then s2b.tog.tail else s2b.tog) = _
      rw [f3]

/-! ## lock-step induction over the move relation -/

theorem lockstep {E : Ising} {R : Region} {p st mask tog s s' m t} (h : Steps E p st mask tog s s' m t) :
    ∀ (sb sa : Sweep), Rel sb sa → sb.st = st → sb.mask = mask → sb.tog = tog →
      (∀ v, getB mask v = true → v ∈ R.subvars) → (∀ x ∈ tog, x ∈ R.toggles) →
      OpsOK E s → CovFrom R p s →
      Rel (runI E R sb p s) (runI E R sa p s') ∧ restW E R sb p s = restW E R sa p s' := by
  induction h with
  | nil p st mask tog => intro sb sa hr _ _ _ _ _ _ _; exact ⟨hr, rfl⟩
  | skip p st mask tog s s' m t _ ih =>
    intro sb sa hr e1 e2 e3 hcov htog hok hcf
    exact ih sb sa hr e1 e2 e3 hcov htog hok.tail hcf.tail
  | rebond p st mask tog o o' s s' m t hin hb hrb _ ih =>
    intro sb sa hr e1 e2 e3 hcov htog hok hcf
    subst e1 e2 e3
    obtain ⟨hr', h1, h2, h3, t1, t2⟩ := step_rebond (R := R) (p := p) hr hcov (hok o (by simp)) hin hb hrb
    obtain ⟨i1, i2⟩ := ih _ _ hr' h1 h2 h3 hcov htog hok.tail hcf.tail
    refine ⟨i1, ?_⟩
    show (if touched E R sb o = true then 1 else E.opW o) * restW E R (stepI E R sb p o) (p + 1) s =
      (if touched E R sa o' = true then 1 else E.opW o') * restW E R (stepI E R sa p o') (p + 1) s'
    rw [t1, t2, i2]; rfl
  | flip p st mask tog o o' s s' m t isTog mask2 hin hnb hT c1 c2 hnd hli hlo ho' _ _ ih =>
    intro sb sa hr e1 e2 e3 hcov htog hok hcf
    subst e1 e2 e3
    have hcovT : isTog = true → ∀ v ∈ o.vars, v ∈ R.subvars := by
      intro hc v hv
      have hp : p ∈ R.toggles := by
        rw [hc] at hT
        have : sb.tog.head? = some p := by simpa using hT.symm
        exact htog p (List.mem_of_head? this)
      exact hcf 0 o rfl (by simpa using hp) v hv
    obtain ⟨hr', h1, h2, h3, t1, t2⟩ :=
      step_flip (R := R) (p := p) hr hcov hcovT (hok o (by simp)) hin hnb hT c1 c2 hnd hli hlo ho'
    have hcov2 : ∀ v, getB mask2 v = true → v ∈ R.subvars := by
      intro v hv
      cases hc : isTog with
      | false => rw [(c2 hc).1] at hv; exact hcov v hv
      | true =>
        obtain ⟨_, w, hw, hm⟩ := c1 hc
        by_cases e : v = w
        · subst e; exact hcovT hc v (by rw [hw]; simp)
        · rw [hm, getB_toggleAt_ne _ _ _ e] at hv; exact hcov v hv
    have htog2 : ∀ x ∈ (if isTog = true then sb.tog.tail else sb.tog), x ∈ R.toggles := by
      intro x hx
      cases isTog with
      | false => exact htog x hx
      | true => exact htog x (List.mem_of_mem_tail hx)
    obtain ⟨i1, i2⟩ := ih _ _ hr' h1 h2 h3 hcov2 htog2 hok.tail hcf.tail
    refine ⟨i1, ?_⟩
    show (if touched E R sb o = true then 1 else E.opW o) * restW E R (stepI E R sb p o) (p + 1) s =
      (if touched E R sa o' = true then 1 else E.opW o') * restW E R (stepI E R sa p o') (p + 1) s'
    rw [t1, i2]
    cases htc : touched E R sb o with
    | true => rfl
    | false => simp only [Bool.false_eq_true, if_false]; rw [t2 htc]

/-- **the extract-flip lemma**: after an RVB move the segment abstraction read off the new
configuration is the flipped abstraction of the old one, and the two assignments have the same
shape — for all configurations, regions and couplings, provided neither sweep is abandoned. -/
theorem extract_flip {E : Ising} {b a : Config} {R : Region} (hmove : RvbMove E b a R)
    (hok : OpsOK E b.slots) (hcov : Covered b R)
    (hnb : (rvbCodeMult E b R).2 = false) (hna : (rvbCodeMult E a R).2 = false) :
    (extract E a R).1 = (extract E b R).1.flip ∧
      (extract E b R).2.1.map List.length = (extract E a R).2.1.map List.length := by
  obtain ⟨h1, h2, h3⟩ := hmove
  have hrel0 : Rel { st := b.state, mask := R.mask0, tog := R.toggles }
      { st := a.state, mask := R.mask0, tog := R.toggles } :=
    ⟨h1, rfl, rfl, h2, rfl, rfl, rfl, rfl⟩
  have hrel := (lockstep (R := R) h3 _ _ hrel0 rfl rfl rfl hcov.1 (fun _ hx => hx) hok hcov.2).1
  have hc := commit_rel E hrel
  unfold extract
  simp only
  rw [run_eq_runI E R b.slots _ 0 (run_not_broke E b R hnb),
    run_eq_runI E R a.slots _ 0 (run_not_broke E a R hna)]
  refine ⟨?_, hc.asg.symm⟩
  unfold Problem.flip
  simp only
  rw [hc.segs, hc.inner]

/-- the operators the abstraction does not count have the same weights before and after the move -/
theorem restW_eq {E : Ising} {b a : Config} {R : Region} (hmove : RvbMove E b a R)
    (hok : OpsOK E b.slots) (hcov : Covered b R) :
    restW E R { st := b.state, mask := R.mask0, tog := R.toggles } 0 b.slots =
      restW E R { st := a.state, mask := R.mask0, tog := R.toggles } 0 a.slots := by
  obtain ⟨h1, h2, h3⟩ := hmove
  have hrel0 : Rel { st := b.state, mask := R.mask0, tog := R.toggles }
      { st := a.state, mask := R.mask0, tog := R.toggles } :=
    ⟨h1, rfl, rfl, h2, rfl, rfl, rfl, rfl⟩
  exact (lockstep (R := R) h3 _ _ hrel0 rfl rfl rfl hcov.1 (fun _ hx => hx) hok hcov.2).2

/-! ## the corner: an abandoned sweep

Frustrated triangle with `J₀₁ = 2^60`, `J₁₂ = J₀₂ = 1`; the region is variable 1 between the
constant operators at slots 0 and 3; the diagonal operator on bond (0,1) rotates to bond (1,2).
The multiplier of the move `cB → cA` is `2 / 2^61 = 2^-60 < f64::EPSILON`: the code abandons its
sweep at slot 3 (and rejects). `Sweep.run` — like the code — commits no further segment after the
underflow, so the two off-diagonal operators on variable 2 (slots 4, 5) close segments in the sweep
over `cA` (multiplier `2^60`, never abandoned) but not in the sweep over `cB`: 5 segments against 3.
Both `cB → cA` and `cA → cB` are RVB moves. (In the real code this pair also shows the size of the
`EPSILON` approximation: `cA → cB` is accepted with probability 1, `cB → cA` with probability 0
instead of `2^-60`.) -/

def cE : Ising :=
  { nvars := 3, edges := [(0, 1, 1152921504606846976), (1, 2, 1), (0, 2, 1)], gamma := 1, h := 0 }
def cB : Config :=
  { state := [false, true, true],
    slots := [some (Op.diagonal [1] 4 [true] true), some (Op.diagonal [0, 1] 0 [false, true] false),
              none, some (Op.diagonal [1] 4 [true] true), some (Op.offdiagonal [2] 5 [true] [false] true),
              some (Op.offdiagonal [2] 5 [false] [true] true)] }
def cA : Config :=
  { state := [false, true, true],
    slots := [some (Op.offdiagonal [1] 4 [true] [false] true), some (Op.diagonal [1, 2] 1 [false, true] false),
              none, some (Op.offdiagonal [1] 4 [false] [true] true),
              some (Op.offdiagonal [2] 5 [true] [false] true), some (Op.offdiagonal [2] 5 [false] [true] true)] }
def cR : Region := { subvars := [0, 1, 2], mask0 := [false, false, false], toggles := [0, 3] }

/-- the no-underflow hypothesis of `extract_flip` cannot be dropped -/
theorem underflow_corner :
    isRvbMove cE cB cA cR = true ∧ isRvbMove cE cA cB cR = true ∧
    (rvbCodeMult cE cB cR).2 = true ∧ (rvbCodeMult cE cA cR) = (1152921504606846976, false) ∧
    (extract cE cB cR).1.segs.length = 3 ∧ (extract cE cA cR).1.segs.length = 5 ∧
    (extract cE cA cR).1 ≠ (extract cE cB cR).1.flip := by
  decide +kernel

end Qmc.Rvb.ExtractFlip
