/-
C18 — helper lemmas for the pool model (QmcModel/Pool.lean).
-/
import QmcModel.Pool

namespace Qmc.Pool

/-! ### every buffer type is listed -/

theorem Ty.mem_all (t : Ty) : t ∈ Ty.all := by cases t <;> simp [Ty.all]

theorem Update.mem_all (u : Update) : u ∈ Update.all := by cases u <;> simp [Update.all]

/-! ### words: net and peak -/

theorem netW_append (t : Ty) (u v : List Ev) : netW t (u ++ v) = netW t u + netW t v := by
  induction u with
  | nil => simp [netW]
  | cons e u ih => simp only [List.cons_append, netW, ih]; omega

theorem peakW_nonneg (t : Ty) (w : List Ev) : 0 ≤ peakW t w := by
  cases w with
  | nil => simp [peakW]
  | cons e w => simp only [peakW]; omega

theorem peakW_append (t : Ty) (u v : List Ev) :
    peakW t (u ++ v) = max (peakW t u) (netW t u + peakW t v) := by
  induction u with
  | nil =>
    have := peakW_nonneg t v
    simp only [List.nil_append, peakW, netW]; omega
  | cons e u ih => simp only [List.cons_append, peakW, netW, ih]; omega

theorem netW_le_peakW (t : Ty) (w : List Ev) : netW t w ≤ peakW t w := by
  induction w with
  | nil => simp [netW, peakW]
  | cons e w ih => simp only [netW, peakW]; omega

theorem delta_cases (t : Ty) (e : Ev) : delta t e = 1 ∨ delta t e = 0 ∨ delta t e = -1 := by
  cases e <;> simp only [delta] <;> split <;> simp

/-! ### one counter -/

/-- A word whose peak demand fits runs through, and leaves `c - net` free instances. -/
theorem runT_of_peak (t : Ty) (w : List Ev) :
    ∀ c : Nat, peakW t w ≤ c → ∃ c' : Nat, runT t c w = some c' ∧ (c' : Int) = c - netW t w := by
  induction w with
  | nil => intro c _; exact ⟨c, rfl, by simp [netW]⟩
  | cons e w ih =>
    intro c h
    have hnn := peakW_nonneg t w
    cases e with
    | get s =>
      simp only [peakW, netW, delta] at h ⊢
      simp only [runT]
      by_cases hs : s = t
      · simp only [hs, if_true] at h ⊢
        have hc : c ≠ 0 := by omega
        simp only [hc, if_false]
        obtain ⟨c', h1, h2⟩ := ih (c - 1) (by omega)
        exact ⟨c', h1, by omega⟩
      · simp only [hs, if_false] at h ⊢
        obtain ⟨c', h1, h2⟩ := ih c (by omega)
        exact ⟨c', h1, by omega⟩
    | ret s =>
      simp only [peakW, netW, delta] at h ⊢
      simp only [runT]
      by_cases hs : s = t
      · simp only [hs, if_true] at h ⊢
        obtain ⟨c', h1, h2⟩ := ih (c + 1) (by omega)
        exact ⟨c', h1, by omega⟩
      · simp only [hs, if_false] at h ⊢
        obtain ⟨c', h1, h2⟩ := ih c (by omega)
        exact ⟨c', h1, by omega⟩

/-- Conversely a word that needs more than `c` buffers at once hits "Out of instances". -/
theorem runT_none_of_peak (t : Ty) (w : List Ev) :
    ∀ c : Nat, (c : Int) < peakW t w → runT t c w = none := by
  induction w with
  | nil => intro c h; simp [peakW] at h; omega
  | cons e w ih =>
    intro c h
    cases e with
    | get s =>
      simp only [peakW, delta] at h
      simp only [runT]
      by_cases hs : s = t
      · simp only [hs, if_true] at h ⊢
        by_cases hc : c = 0
        · simp [hc]
        · simp only [hc, if_false]; exact ih (c - 1) (by omega)
      · simp only [hs, if_false] at h ⊢; exact ih c (by omega)
    | ret s =>
      simp only [peakW, delta] at h
      simp only [runT]
      by_cases hs : s = t
      · simp only [hs, if_true] at h ⊢; exact ih (c + 1) (by omega)
      · simp only [hs, if_false] at h ⊢; exact ih c (by omega)

/-! ### nine counters = the pool -/

theorem upd_same (c : Caps) (t : Ty) (v : Nat) : upd c t v t = v := by simp [upd]
theorem upd_other (c : Caps) {s t : Ty} (v : Nat) (h : s ≠ t) : upd c t v s = c s := by
  simp [upd, h]

theorem run_of_runT (w : List Ev) :
    ∀ c c' : Caps, (∀ t, runT t (c t) w = some (c' t)) → run c w = some c' := by
  induction w with
  | nil =>
    intro c c' h
    simp only [runT, Option.some.injEq] at h
    simp only [run]; congr 1; funext t; exact h t
  | cons e w ih =>
    intro c c' h
    cases e with
    | get s =>
      have hs := h s
      simp only [runT, if_true] at hs
      have hc : c s ≠ 0 := by intro h0; simp [h0] at hs
      simp only [hc, if_false] at hs
      simp only [run, hc, if_false]
      apply ih
      intro t
      by_cases hts : t = s
      · subst hts; rw [upd_same]; exact hs
      · rw [upd_other _ _ hts]
        have := h t
        simp only [runT] at this
        have hst : ¬ s = t := fun h => hts h.symm
        simpa [hst] using this
    | ret s =>
      have hs := h s
      simp only [runT, if_true] at hs
      simp only [run]
      apply ih
      intro t
      by_cases hts : t = s
      · subst hts; rw [upd_same]; exact hs
      · rw [upd_other _ _ hts]
        have := h t
        simp only [runT] at this
        have hst : ¬ s = t := fun h => hts h.symm
        simpa [hst] using this

theorem runT_of_run (w : List Ev) :
    ∀ c c' : Caps, run c w = some c' → ∀ t, runT t (c t) w = some (c' t) := by
  induction w with
  | nil => intro c c' h t; simp only [run, Option.some.injEq] at h; simp [runT, h]
  | cons e w ih =>
    intro c c' h t
    cases e with
    | get s =>
      simp only [run] at h
      by_cases hc : c s = 0
      · simp [hc] at h
      · simp only [hc, if_false] at h
        have := ih _ _ h t
        simp only [runT]
        by_cases hst : s = t
        · subst hst; simp only [if_true, hc, if_false]; rwa [upd_same] at this
        · simp only [hst, if_false]; rwa [upd_other _ _ (fun h => hst h.symm)] at this
    | ret s =>
      simp only [run] at h
      have := ih _ _ h t
      simp only [runT]
      by_cases hst : s = t
      · subst hst; simp only [if_true]; rwa [upd_same] at this
      · simp only [hst, if_false]; rwa [upd_other _ _ (fun h => hst h.symm)] at this

theorem run_append (u v : List Ev) :
    ∀ c : Caps, run c (u ++ v) = (run c u).bind fun c' => run c' v := by
  induction u with
  | nil => intro c; simp [run]
  | cons e u ih =>
    intro c
    cases e with
    | get s =>
      simp only [List.cons_append, run]
      by_cases hc : c s = 0
      · simp [hc]
      · simp only [hc, if_false]; exact ih _
    | ret s => simp only [List.cons_append, run]; exact ih _

/-- Word-level characterisation: a word runs from `c` back to `c` iff for every type it is
balanced and its peak demand is within `c`. -/
theorem run_restores_iff (c : Caps) (w : List Ev) :
    run c w = some c ↔ ∀ t, netW t w = 0 ∧ peakW t w ≤ c t := by
  constructor
  · intro h t
    have ht := runT_of_run w c c h t
    by_cases hp : peakW t w ≤ c t
    · obtain ⟨c', h1, h2⟩ := runT_of_peak t w (c t) hp
      rw [ht] at h1
      simp only [Option.some.injEq] at h1
      exact ⟨by omega, hp⟩
    · rw [runT_none_of_peak t w (c t) (by omega)] at ht
      exact absurd ht (by simp)
  · intro h
    apply run_of_runT
    intro t
    obtain ⟨c', h1, h2⟩ := runT_of_peak t w (c t) (h t).2
    rw [h1]; congr 1
    have := (h t).1
    omega

/-! ### grammars: the summary bounds every word of the language -/

theorem lang_summary (t : Ty) {g : G} {w : List Ev} (hl : Lang g w) :
    ∀ n p, summary t g = some (n, p) → netW t w = n ∧ peakW t w ≤ p := by
  induction hl with
  | eps => intro n p h; simp only [summary, Option.some.injEq, Prod.mk.injEq] at h; simp [netW, peakW, ← h.1, ← h.2]
  | ev e =>
    intro n p h
    simp only [summary, Option.some.injEq, Prod.mk.injEq] at h
    simp only [netW, peakW, ← h.1, ← h.2]
    omega
  | @seq a b u v _ _ iha ihb =>
    intro n p h
    simp only [summary] at h
    split at h
    · rename_i n1 p1 n2 p2 ha hb
      simp only [Option.some.injEq, Prod.mk.injEq] at h
      obtain ⟨ha1, ha2⟩ := iha n1 p1 ha
      obtain ⟨hb1, hb2⟩ := ihb n2 p2 hb
      rw [netW_append, peakW_append]
      omega
    · exact absurd h (by simp)
  | @altL a b u _ iha =>
    intro n p h
    simp only [summary] at h
    split at h
    · rename_i n1 p1 n2 p2 ha hb
      split at h
      · simp only [Option.some.injEq, Prod.mk.injEq] at h
        obtain ⟨ha1, ha2⟩ := iha n1 p1 ha
        omega
      · exact absurd h (by simp)
    · exact absurd h (by simp)
  | @altR a b u _ ihb =>
    intro n p h
    simp only [summary] at h
    split at h
    · rename_i n1 p1 n2 p2 ha hb
      split at h
      · simp only [Option.some.injEq, Prod.mk.injEq] at h
        obtain ⟨hb1, hb2⟩ := ihb n2 p2 hb
        omega
      · exact absurd h (by simp)
    · exact absurd h (by simp)
  | @starNil a =>
    intro n p h
    simp only [summary] at h
    split at h
    · split at h
      · simp only [Option.some.injEq, Prod.mk.injEq] at h
        simp only [netW, peakW]; omega
      · exact absurd h (by simp)
    · exact absurd h (by simp)
  | @starCons a u v _ _ iha ihs =>
    intro n p h
    have h' := h
    simp only [summary] at h
    split at h
    · rename_i n1 p1 ha
      split at h
      · rename_i hn
        simp only [Option.some.injEq, Prod.mk.injEq] at h
        obtain ⟨ha1, ha2⟩ := iha n1 p1 ha
        obtain ⟨hs1, hs2⟩ := ihs n p h'
        rw [netW_append, peakW_append]
        omega
      · exact absurd h (by simp)
    · exact absurd h (by simp)

/-- Propositional reading of `fitsB`. -/
def Fits (g : G) (caps : Caps) : Prop :=
  ∀ t, ∃ pk : Int, summary t g = some (0, pk) ∧ pk ≤ caps t

theorem fitsT_iff (t : Ty) (g : G) (cap : Nat) :
    fitsT t g cap = true ↔ ∃ pk : Int, summary t g = some (0, pk) ∧ pk ≤ cap := by
  unfold fitsT
  split
  · rename_i n p h
    simp only [Bool.and_eq_true, beq_iff_eq, decide_eq_true_eq, h, Option.some.injEq, Prod.mk.injEq]
    constructor
    · rintro ⟨h1, h2⟩; exact ⟨p, ⟨h1, rfl⟩, h2⟩
    · rintro ⟨pk, ⟨h1, h2⟩, h3⟩; exact ⟨h1, h2 ▸ h3⟩
  · rename_i h
    simp [h]

theorem fitsB_iff (g : G) (caps : Caps) : fitsB g caps = true ↔ Fits g caps := by
  unfold fitsB Fits
  rw [List.all_eq_true]
  constructor
  · intro h t; exact (fitsT_iff t g (caps t)).1 (h t (Ty.mem_all t))
  · intro h t _; exact (fitsT_iff t g (caps t)).2 (h t)

instance (g : G) (caps : Caps) : Decidable (Fits g caps) :=
  decidable_of_iff _ (fitsB_iff g caps)

/-- Core soundness: a balanced grammar whose peaks fit the capacities can neither exhaust the
pool nor change its occupancy, whatever word of the language is executed. -/
theorem fits_sound {g : G} {caps : Caps} (h : Fits g caps) :
    ∀ w, Lang g w → run caps w = some caps := by
  intro w hl
  rw [run_restores_iff]
  intro t
  obtain ⟨pk, hs, hle⟩ := h t
  obtain ⟨h1, h2⟩ := lang_summary t hl 0 pk hs
  exact ⟨h1, by omega⟩

/-! ### the derivative matcher is sound (and complete) for `Lang` -/

theorem nullable_sound : ∀ {g : G}, nullable g = true → Lang g []
  | .empty, h => by simp [nullable] at h
  | .eps, _ => .eps
  | .ev _, h => by simp [nullable] at h
  | .seq a b, h => by
    simp only [nullable, Bool.and_eq_true] at h
    have := Lang.seq (nullable_sound h.1) (nullable_sound h.2)
    simpa using this
  | .alt a b, h => by
    simp only [nullable, Bool.or_eq_true] at h
    rcases h with h | h
    · exact .altL (nullable_sound h)
    · exact .altR (nullable_sound h)
  | .star _, _ => .starNil

theorem lang_empty {w : List Ev} : ¬ Lang .empty w := by
  intro h; cases h

theorem mkSeq_sound {a b : G} {w : List Ev} (h : Lang (mkSeq a b) w) : Lang (.seq a b) w := by
  unfold mkSeq at h
  split at h
  · exact absurd h lang_empty
  · split at h
    · exact absurd h lang_empty
    · split at h
      · rename_i ha
        subst ha
        have := Lang.seq Lang.eps h
        simpa using this
      · exact h

theorem mkAlt_sound {a b : G} {w : List Ev} (h : Lang (mkAlt a b) w) : Lang (.alt a b) w := by
  unfold mkAlt at h
  split at h
  · exact .altR h
  · split at h
    · exact .altL h
    · split at h
      · exact .altL h
      · exact h

theorem deriv_sound (e : Ev) : ∀ {g : G} {w : List Ev}, Lang (deriv e g) w → Lang g (e :: w)
  | .empty, _, h => by simp only [deriv] at h; exact absurd h lang_empty
  | .eps, _, h => by simp only [deriv] at h; exact absurd h lang_empty
  | .ev e', w, h => by
    simp only [deriv] at h
    split at h
    · rename_i he
      cases h
      subst he
      exact .ev e
    · exact absurd h lang_empty
  | .seq a b, w, h => by
    simp only [deriv] at h
    split at h
    · rename_i hn
      have h := mkAlt_sound h
      cases h with
      | altL h =>
        have h := mkSeq_sound h
        cases h with
        | seq h1 h2 =>
          have := Lang.seq (deriv_sound e h1) h2
          simpa using this
      | altR h =>
        have := Lang.seq (nullable_sound hn) (deriv_sound e h)
        simpa using this
    · have h := mkSeq_sound h
      cases h with
      | seq h1 h2 =>
        have := Lang.seq (deriv_sound e h1) h2
        simpa using this
  | .alt a b, w, h => by
    simp only [deriv] at h
    have h := mkAlt_sound h
    cases h with
    | altL h => exact .altL (deriv_sound e h)
    | altR h => exact .altR (deriv_sound e h)
  | .star a, w, h => by
    simp only [deriv] at h
    have h := mkSeq_sound h
    cases h with
    | seq h1 h2 =>
      have := Lang.starCons (deriv_sound e h1) h2
      simpa using this

theorem matchesD_sound : ∀ {w : List Ev} {g : G}, matchesD g w = true → Lang g w
  | [], _, h => nullable_sound (by simpa [matchesD] using h)
  | e :: w, _, h => deriv_sound e (matchesD_sound (w := w) (by simpa [matchesD] using h))

/-! completeness (so the matcher raises no false alarm on a word of the language) -/

theorem nullable_complete {g : G} {w : List Ev} (h : Lang g w) : w = [] → nullable g = true := by
  induction h with
  | eps => intro _; rfl
  | ev e => intro h; simp at h
  | seq _ _ iha ihb =>
    intro h
    simp only [List.append_eq_nil_iff] at h
    simp [nullable, iha h.1, ihb h.2]
  | altL _ ih => intro h; simp [nullable, ih h]
  | altR _ ih => intro h; simp [nullable, ih h]
  | starNil => intro _; rfl
  | starCons _ _ _ _ => intro _; rfl

theorem mkSeq_complete {a b : G} {w : List Ev} (h : Lang (.seq a b) w) : Lang (mkSeq a b) w := by
  unfold mkSeq
  cases h with
  | seq h1 h2 =>
    split
    · rename_i ha; subst ha; exact absurd h1 lang_empty
    · split
      · rename_i hb; subst hb; exact absurd h2 lang_empty
      · split
        · rename_i ha; subst ha; cases h1; simpa using h2
        · exact .seq h1 h2

theorem mkAlt_complete {a b : G} {w : List Ev} (h : Lang (.alt a b) w) : Lang (mkAlt a b) w := by
  unfold mkAlt
  split
  · rename_i ha; subst ha
    cases h with
    | altL h => exact absurd h lang_empty
    | altR h => exact h
  · split
    · rename_i hb; subst hb
      cases h with
      | altL h => exact h
      | altR h => exact absurd h lang_empty
    · split
      · rename_i hab; subst hab
        cases h with
        | altL h => exact h
        | altR h => exact h
      · exact h

theorem deriv_complete (e : Ev) {g : G} {w' : List Ev} (h : Lang g w') :
    ∀ w, w' = e :: w → Lang (deriv e g) w := by
  induction h with
  | eps => intro w h; simp at h
  | ev e' =>
    intro w h
    simp only [List.cons.injEq] at h
    obtain ⟨h1, h2⟩ := h
    subst h1 h2
    simp only [deriv, if_true]
    exact .eps
  | @seq a b u v h1 h2 iha ihb =>
    intro w h
    simp only [deriv]
    cases u with
    | nil =>
      simp only [List.nil_append] at h
      have hn := nullable_complete h1 rfl
      simp only [hn, if_true]
      exact mkAlt_complete (.altR (ihb w h))
    | cons x u =>
      simp only [List.cons_append, List.cons.injEq] at h
      obtain ⟨hx, hw⟩ := h
      subst hx hw
      have := mkSeq_complete (.seq (iha u rfl) h2)
      split
      · exact mkAlt_complete (.altL this)
      · exact this
  | altL _ ih => intro w h; simp only [deriv]; exact mkAlt_complete (.altL (ih w h))
  | altR _ ih => intro w h; simp only [deriv]; exact mkAlt_complete (.altR (ih w h))
  | starNil => intro w h; simp at h
  | @starCons a u v h1 h2 iha ihs =>
    intro w h
    cases u with
    | nil => simp only [List.nil_append] at h; exact ihs w h
    | cons x u =>
      simp only [List.cons_append, List.cons.injEq] at h
      obtain ⟨hx, hw⟩ := h
      subst hx hw
      simp only [deriv]
      exact mkSeq_complete (.seq (iha u rfl) h2)

theorem matchesD_complete : ∀ {w : List Ev} {g : G}, Lang g w → matchesD g w = true
  | [], _, h => by simpa [matchesD] using nullable_complete h rfl
  | e :: w, _, h => by
    simp only [matchesD]
    exact matchesD_complete (deriv_complete e h w rfl)

theorem matchesD_iff (g : G) (w : List Ev) : matchesD g w = true ↔ Lang g w :=
  ⟨matchesD_sound, matchesD_complete⟩

/-! ### grammar notation -/

theorem lang_seqL_cons {a : G} {as : List G} {u v : List Ev}
    (h1 : Lang a u) (h2 : Lang (seqL as) v) : Lang (seqL (a :: as)) (u ++ v) := by
  cases as with
  | nil => simp only [seqL] at h2 ⊢; cases h2; simpa using h1
  | cons b bs => simp only [seqL] at h2 ⊢; exact .seq h1 h2

theorem lang_seqL_cons_inv {a : G} {as : List G} {w : List Ev} (h : Lang (seqL (a :: as)) w) :
    ∃ u v, w = u ++ v ∧ Lang a u ∧ Lang (seqL as) v := by
  cases as with
  | nil => exact ⟨w, [], by simp, h, .eps⟩
  | cons b bs =>
    simp only [seqL] at h
    cases h with
    | seq h1 h2 => exact ⟨_, _, rfl, h1, h2⟩

/-! ### BondContainer -/

namespace BC

/-- Folding `map[k] = None` over a key list clears exactly the listed addresses. -/
theorem foldl_clear_spec (keys : List (Nat × Rat)) :
    ∀ (m : List (Option Nat)) (i : Nat),
      ((keys.foldl (fun m kw => m.set kw.1 none) m).length = m.length) ∧
      (i < m.length → ((∃ kw ∈ keys, kw.1 = i) ∨ m[i]? = some none) →
        (keys.foldl (fun m kw => m.set kw.1 none) m)[i]? = some none) := by
  induction keys with
  | nil =>
    intro m i
    refine ⟨rfl, ?_⟩
    intro _ h
    rcases h with ⟨kw, hkw, _⟩ | h
    · simp at hkw
    · simpa using h
  | cons kw keys ih =>
    intro m i
    simp only [List.foldl_cons]
    obtain ⟨hl, hs⟩ := ih (m.set kw.1 none) i
    refine ⟨by rw [hl, List.length_set], ?_⟩
    intro hi h
    apply hs (by rw [List.length_set]; exact hi)
    rcases h with ⟨kw', hkw', hk⟩ | h
    · simp only [List.mem_cons] at hkw'
      rcases hkw' with rfl | hkw'
      · right; rw [hk, List.getElem?_set_self hi]
      · left; exact ⟨kw', hkw', hk⟩
    · right
      by_cases hk : kw.1 = i
      · rw [hk, List.getElem?_set_self hi]
      · rw [List.getElem?_set_ne hk]; exact h

theorem all_none_of_getElem? {m : List (Option Nat)}
    (h : ∀ i, i < m.length → m[i]? = some none) : m.all (· == none) = true := by
  rw [List.all_eq_true]
  intro x hx
  obtain ⟨i, hi, rfl⟩ := List.getElem_of_mem hx
  have := h i hi
  rw [List.getElem?_eq_getElem hi] at this
  simp only [Option.some.injEq] at this
  simp [this]

theorem getElem?_of_all_none {m : List (Option Nat)} (h : m.all (· == none) = true)
    (i : Nat) (hi : i < m.length) : m[i]? = some none := by
  rw [List.all_eq_true] at h
  have := h m[i] (List.getElem_mem hi)
  rw [List.getElem?_eq_getElem hi]
  simpa using this

theorem clear_keys (b : BC) : b.clear.keys = [] := rfl
theorem clear_total (b : BC) : b.clear.total = 0 := rfl
theorem clear_map_length (b : BC) : b.clear.map.length = b.map.length :=
  (foldl_clear_spec b.keys b.map 0).1

/-- Under `Covered`, `clear` leaves every address `None`. -/
theorem clear_map_none {b : BC} (h : b.Covered) (i : Nat) (hi : i < b.map.length) :
    b.clear.map[i]? = some none := by
  apply (foldl_clear_spec b.keys b.map i).2 hi
  by_cases hm : b.map[i]? = some none
  · exact Or.inr hm
  · exact Or.inl (h i hi hm)

theorem clear_clean {b : BC} (h : b.Covered) : b.clear.clean = true := by
  have hall : b.clear.map.all (· == none) = true := by
    apply all_none_of_getElem?
    intro i hi
    rw [clear_map_length] at hi
    exact clear_map_none h i hi
  simp only [clean, clear_keys, clear_total, hall]
  decide

theorem covered_new : BC.new.Covered := by
  intro i hi; simp [BC.new] at hi

theorem covered_of_clean {b : BC} (h : b.clean = true) : b.Covered := by
  intro i hi hne
  simp only [clean, Bool.and_eq_true] at h
  exact absurd (getElem?_of_all_none h.2 i hi) hne

theorem covered_clear (b : BC) (h : b.Covered) : b.clear.Covered :=
  covered_of_clean (clear_clean h)

/-! `Covered` is kept by every mutating operation -/

theorem grow_spec (m : List (Option Nat)) (k j : Nat) (hj : j < (grow m k).length)
    (hne : (grow m k)[j]? ≠ some none) : j < m.length ∧ m[j]? ≠ some none := by
  unfold grow at hj hne
  split at hj
  · rename_i hk
    simp only [hk, if_true] at hne
    by_cases hjl : j < m.length
    · rw [List.getElem?_append_left hjl] at hne
      exact ⟨hjl, hne⟩
    · exfalso
      apply hne
      rw [List.getElem?_append_right (by omega), List.getElem?_replicate]
      simp only [List.length_append, List.length_replicate] at hj
      have : j - m.length < k + 1 - m.length := by omega
      simp [this]
  · rename_i hk
    simp only [hk, if_false] at hne
    exact ⟨hj, hne⟩

theorem covered_insert (b : BC) (k : Nat) (w : Rat) (h : b.Covered) : (b.insert k w).Covered := by
  unfold BC.insert
  split
  · rename_i idx hidx
    split
    · rename_i key old hkey
      intro j hj hne
      obtain ⟨hj', hne'⟩ := grow_spec b.map k j hj hne
      obtain ⟨kw, hkw, hk⟩ := h j hj' hne'
      obtain ⟨p, hp⟩ := List.mem_iff_getElem?.1 hkw
      have hidxlt : idx < b.keys.length := by
        by_cases hlt : idx < b.keys.length
        · exact hlt
        · rw [List.getElem?_eq_none (by omega)] at hkey; exact absurd hkey (by simp)
      by_cases hpi : idx = p
      · subst hpi
        rw [hkey] at hp
        simp only [Option.some.injEq] at hp
        refine ⟨(key, w), List.mem_of_getElem? (List.getElem?_set_self hidxlt), ?_⟩
        rw [← hk, ← hp]
      · refine ⟨kw, List.mem_of_getElem? (i := p) ?_, hk⟩
        show (b.keys.set idx (key, w))[p]? = some kw
        rw [List.getElem?_set_ne hpi]; exact hp
    · exact h
  · intro j hj hne
    simp only [List.length_set] at hj
    by_cases hkj : k = j
    · exact ⟨(k, w), by simp, hkj⟩
    · have hne2 : (grow b.map k)[j]? ≠ some none := by
        intro h2; apply hne
        show ((grow b.map k).set k (some b.keys.length))[j]? = some none
        rw [List.getElem?_set_ne hkj]; exact h2
      obtain ⟨hj', hne'⟩ := grow_spec b.map k j hj hne2
      obtain ⟨kw, hkw, hk⟩ := h j hj' hne'
      exact ⟨kw, List.mem_append_left _ hkw, hk⟩

theorem covered_removeIndex (b : BC) (i : Nat) (h : b.Covered) : (b.removeIndex i).Covered := by
  unfold BC.removeIndex
  split
  · rename_i x l hx hl
    intro j hj hne
    simp only [List.length_set] at hj
    have hilt : i < b.keys.length := by
      by_cases hlt : i < b.keys.length
      · exact hlt
      · rw [List.getElem?_eq_none (by omega)] at hx; exact absurd hx (by simp)
    rw [List.getLast?_eq_getElem?] at hl
    by_cases hjx : x.1 = j
    · exfalso; apply hne
      show ((b.map.set l.1 (some i)).set x.1 none)[j]? = some none
      rw [hjx, List.getElem?_set_self (by simpa [List.length_set] using hj)]
    · have hne1 : (b.map.set l.1 (some i))[j]? ≠ some none := by
        intro h2; apply hne
        show ((b.map.set l.1 (some i)).set x.1 none)[j]? = some none
        rw [List.getElem?_set_ne hjx]; exact h2
      by_cases hjl : l.1 = j
      · -- the former last key now sits at position i < len - 1
        have hi2 : i < b.keys.length - 1 := by
          by_cases hlt : i < b.keys.length - 1
          · exact hlt
          · exfalso
            have : i = b.keys.length - 1 := by omega
            rw [this, hl] at hx
            simp only [Option.some.injEq] at hx
            exact hjx (hx ▸ hjl)
        refine ⟨l, List.mem_of_getElem? (i := i) ?_, hjl⟩
        show ((b.keys.set i l).dropLast)[i]? = some l
        rw [List.getElem?_dropLast]
        simp only [List.length_set, hi2, if_true]
        exact List.getElem?_set_self hilt
      · have hne2 : b.map[j]? ≠ some none := by
          intro h2; apply hne1
          rw [List.getElem?_set_ne hjl]; exact h2
        obtain ⟨kw, hkw, hk⟩ := h j hj hne2
        obtain ⟨p, hp⟩ := List.mem_iff_getElem?.1 hkw
        have hplt : p < b.keys.length := by
          by_cases hlt : p < b.keys.length
          · exact hlt
          · rw [List.getElem?_eq_none (by omega)] at hp; exact absurd hp (by simp)
        have hpi : i ≠ p := by
          intro hip; subst hip
          rw [hx] at hp; simp only [Option.some.injEq] at hp
          exact hjx (hp ▸ hk)
        have hplast : p ≠ b.keys.length - 1 := by
          intro hpl
          rw [hpl, hl] at hp; simp only [Option.some.injEq] at hp
          exact hjl (hp ▸ hk)
        refine ⟨kw, List.mem_of_getElem? (i := p) ?_, hk⟩
        show ((b.keys.set i l).dropLast)[p]? = some kw
        rw [List.getElem?_dropLast]
        have : p < b.keys.length - 1 := by omega
        simp only [List.length_set, this, if_true]
        rw [List.getElem?_set_ne hpi]; exact hp
  · exact h

theorem covered_remove (b : BC) (k : Nat) (h : b.Covered) : (b.remove k).Covered := by
  unfold BC.remove
  split
  · exact covered_removeIndex b _ h
  · exact h

end BC

end Qmc.Pool
