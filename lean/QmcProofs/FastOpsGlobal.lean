/-
C11, global chain (Appendix B steps 3–6 for `previous_p/next_p/p_ends/n/bond_counters`):
the global view `g` (per-variable fields erased), the global effect of `change`
(`mutate_p`'s container part), and the proof that on a canonical global view it produces the
canonical global view of the updated slots.
-/
import QmcProofs.FastOpsBasic

namespace Qmc

/-- erase the per-variable links of a node -/
def Node.g (nd : Node) : Node := { nd with previousForVars := [], nextForVars := [] }

namespace FastOps

/-- the global view: per-variable fields erased -/
def g (c : FastOps) : FastOps := { c with ops := c.ops.map (Option.map Node.g), varEnds := [] }

@[simp] theorem g_length (c : FastOps) : c.g.ops.length = c.ops.length := by simp [g]
@[simp] theorem g_n (c : FastOps) : c.g.n = c.n := rfl
@[simp] theorem g_pEnds (c : FastOps) : c.g.pEnds = c.pEnds := rfl
@[simp] theorem g_bc (c : FastOps) : c.g.bondCounters = c.bondCounters := rfl

theorem getNode_g (c : FastOps) (q : Nat) : c.g.getNode q = (c.getNode q).map Node.g := by
  simp only [g, getNode, List.getElem?_map]
  cases c.ops[q]? with
  | none => rfl
  | some o => cases o <;> rfl

theorem getPth_g (c : FastOps) (q : Nat) : c.g.getPth q = c.getPth q := by
  simp only [getPth, getNode_g, Option.map_map]; rfl

theorem abs_g (c : FastOps) : c.g.abs = c.abs := by
  simp only [abs, g, List.map_map]
  congr 1
  funext o
  cases o <;> rfl

/-- equality of global views, field by field -/
theorem g_ext {c d : FastOps} (hl : c.ops.length = d.ops.length)
    (hn : ∀ q, q < c.ops.length → (c.getNode q).map Node.g = (d.getNode q).map Node.g)
    (h1 : c.n = d.n) (h2 : c.pEnds = d.pEnds) (h4 : c.bondCounters = d.bondCounters) : c.g = d.g := by
  apply ext'
  · simpa using hl
  · intro q hq
    rw [getNode_g, getNode_g]
    exact hn q (by simpa using hq)
  · exact h1
  · exact h2
  · rfl
  · exact h4

/-! ### frame: per-variable writes are invisible in the global view -/

theorem modifyNode_g (ops : List (Option Node)) (q : Nat) (f : Node → Node)
    (hf : ∀ nd, (f nd).g = nd.g) :
    (modifyNode ops q f).map (Option.map Node.g) = ops.map (Option.map Node.g) := by
  apply List.ext_getElem?
  intro r
  simp only [modifyNode, List.getElem?_map, List.getElem?_modify]
  cases ops[r]? with
  | none => rfl
  | some o =>
    cases o with
    | none => by_cases h : q = r <;> simp [h]
    | some nd => by_cases h : q = r <;> simp [h, hf]

@[simp] theorem setNextFor_g (c : FastOps) (q k : Nat) (x) : (c.setNextFor q k x).g = c.g := by
  simp only [setNextFor, g]
  rw [modifyNode_g]; intro nd; rfl

@[simp] theorem setPrevFor_g (c : FastOps) (q k : Nat) (x) : (c.setPrevFor q k x).g = c.g := by
  simp only [setPrevFor, g]
  rw [modifyNode_g]; intro nd; rfl

@[simp] theorem setVarEnd_g (c : FastOps) (v : Nat) (x) : (c.setVarEnd v x).g = c.g := rfl

theorem uninstallVar_g (node : Node) (a : Cursor) (c : FastOps) (vr : Nat × Nat) :
    (uninstallVar node a c vr).g = c.g := by
  unfold uninstallVar
  simp only []
  split <;> split <;> simp

theorem foldl_g {α : Type} (f : FastOps → α → FastOps) (hf : ∀ c x, (f c x).g = c.g)
    (l : List α) (c : FastOps) : (l.foldl f c).g = c.g := by
  induction l generalizing c with
  | nil => rfl
  | cons x t ih => rw [List.foldl_cons, ih, hf]

theorem installPrevWrite_g (p : Nat) (c : FastOps) (x) : (installPrevWrite p c x).g = c.g := by
  unfold installPrevWrite
  simp only []
  split <;> simp

theorem installNextWrite_g (p : Nat) (c : FastOps) (x) : (installNextWrite p c x).g = c.g := by
  unfold installNextWrite
  simp only []
  split <;> simp

/-! ### global writes commute with the view -/

theorem modifyNode_g_comm (ops : List (Option Node)) (q : Nat) (f : Node → Node)
    (hf : ∀ nd, (f nd).g = f nd.g) :
    (modifyNode ops q f).map (Option.map Node.g) = modifyNode (ops.map (Option.map Node.g)) q f := by
  apply List.ext_getElem?
  intro r
  simp only [modifyNode, List.getElem?_map, List.getElem?_modify]
  cases ops[r]? with
  | none => rfl
  | some o =>
    cases o with
    | none => by_cases h : q = r <;> simp [h]
    | some nd => by_cases h : q = r <;> simp [h, hf]

@[simp] theorem setNextP_g (c : FastOps) (q : Nat) (x) : (c.setNextP q x).g = c.g.setNextP q x := by
  simp only [setNextP, g]
  rw [modifyNode_g_comm]; intro nd; rfl

@[simp] theorem setPrevP_g (c : FastOps) (q : Nat) (x) : (c.setPrevP q x).g = c.g.setPrevP q x := by
  simp only [setPrevP, g]
  rw [modifyNode_g_comm]; intro nd; rfl

@[simp] theorem decrBond_g (c : FastOps) (b : Nat) : (c.decrBond b).g = c.g.decrBond b := rfl
@[simp] theorem incrBond_g (c : FastOps) (b : Nat) : (c.incrBond b).g = c.g.incrBond b := rfl

@[simp] theorem setOp_g (c : FastOps) (p : Nat) (x : Option Node) :
    (c.setOp p x).g = c.g.setOp p (x.map Node.g) := by
  simp only [setOp, g, List.map_set]

@[simp] theorem setN_g (c : FastOps) (k : Nat) : (c.setN k).g = c.g.setN k := rfl
@[simp] theorem setPEnds_g (c : FastOps) (e) : (c.setPEnds e).g = c.g.setPEnds e := rfl

@[simp] theorem isSome_getNode_g (c : FastOps) (q : Nat) : (c.g.getNode q).isSome = (c.getNode q).isSome := by
  rw [getNode_g]; cases c.getNode q <;> rfl

theorem uninstallGlobal_g (c : FastOps) (node : Node) (a : Cursor) :
    (uninstallGlobal c node a).g = uninstallGlobal c.g node a := by
  unfold uninstallGlobal
  cases hl : a.lastP <;> cases hn : node.nextP <;> simp <;> split <;> simp


/-- `uninstall` seen through the global view -/
def uninstallG (c : FastOps) (node : Node) (a : Cursor) : FastOps :=
  let c1 := uninstallGlobal c node a
  (c1.setN (c1.n - 1)).decrBond node.op.bond

theorem uninstallGlobal_node_g (c : FastOps) (node : Node) (a : Cursor) :
    uninstallGlobal c node.g a = uninstallGlobal c node a := rfl

theorem uninstall_g (c : FastOps) (node : Node) (a : Cursor) :
    (uninstall c node a).g = uninstallG c.g node a := by
  unfold uninstall uninstallG
  have h := foldl_g _ (uninstallVar_g node a) node.op.vars.zipIdx (uninstallGlobal c node a)
  have hn : (node.op.vars.zipIdx.foldl (uninstallVar node a) (uninstallGlobal c node a)).n
      = (uninstallGlobal c.g node a).n := by
    have := congrArg FastOps.n h
    simpa [uninstallGlobal_g] using this
  simp only [decrBond_g, setN_g, hn]
  rw [h, uninstallGlobal_g]

theorem uninstallG_node_g (c : FastOps) (node : Node) (a : Cursor) :
    uninstallG c node.g a = uninstallG c node a := rfl

/-- `install` seen through the global view -/
def installG (c : FastOps) (p : Nat) (op : Op) (a : Cursor) : FastOps := installGlobal c p op [] [] a

theorem installNextP_g (c : FastOps) (a : Cursor) : installNextP c.g a = installNextP c a := by
  unfold installNextP
  cases a.lastP with
  | none => rfl
  | some lp => simp only [getNode_g]; cases c.getNode lp <;> rfl

theorem installGlobalCore_g (c : FastOps) (p : Nat) (node : Node) :
    (installGlobalCore c p node).g = installGlobalCore c.g p node.g := by
  unfold installGlobalCore
  have e1 : node.g.previousP = node.previousP := rfl
  have e2 : node.g.nextP = node.nextP := rfl
  have e3 : node.g.op = node.op := rfl
  rw [e1, e2, e3]
  cases node.previousP <;> cases node.nextP <;> simp

theorem installGlobal_g (c : FastOps) (p : Nat) (op : Op) (prevs nexts) (a : Cursor) :
    (installGlobal c p op prevs nexts a).g = installGlobal c.g p op [] [] a := by
  unfold installGlobal
  rw [installGlobalCore_g, installNextP_g]
  rfl

theorem install_g (c : FastOps) (p : Nat) (op : Op) (a : Cursor) :
    (install c p op a).g = installG c.g p op a := by
  unfold install installG
  simp only [installGlobal_g]
  rw [foldl_g _ (installNextWrite_g p), foldl_g _ (installPrevWrite_g p)]

theorem fastInstall_g (c : FastOps) (p : Nat) (old : Node) (op : Op) :
    (fastInstall c p old op).g = fastInstall c.g p old.g op := by
  unfold fastInstall
  simp [Node.g]

/-- `change` seen through the global view -/
def changeG (c : FastOps) (p : Nat) (new : Option Op) (a : Cursor) : FastOps :=
  let old := c.getNode p
  let c0 := c.setOp p none
  let sameVars :=
    match new, old with
    | some o, some nd => nd.op.vars == o.vars
    | _, _ => false
  if sameVars then
    match new, old with
    | some o, some nd => fastInstall c0 p nd o
    | _, _ => c0
  else
    let c1 := match old with
      | some nd => uninstallG c0 nd a
      | none => c0
    match new with
    | some o => installG c1 p o a
    | none => c1

theorem change_g (c : FastOps) (p : Nat) (new : Option Op) (a : Cursor) :
    (change c p new a).g = changeG c.g p new a := by
  unfold change changeG
  rw [getNode_g]
  cases hnew : new <;> cases hold : c.getNode p <;>
    simp [uninstall_g, install_g, fastInstall_g, apply_ite FastOps.g, uninstallG_node_g,
      show ∀ nd : Node, nd.g.op = nd.op from fun _ => rfl]

theorem getNode_uninstallGlobal (c : FastOps) (nd : Node) (a : Cursor) (q : Nat) :
    (uninstallGlobal c nd a).getNode q = (c.getNode q).map (fun x =>
      { x with nextP := if a.lastP = some q then nd.nextP else x.nextP,
               previousP := if nd.nextP = some q then a.lastP else x.previousP }) := by
  unfold uninstallGlobal
  cases hl : a.lastP <;> cases hn : nd.nextP <;> simp only [] <;> (try split) <;>
    cases hq : c.getNode q <;> simp_all <;> (repeat' split) <;> simp_all

theorem pEnds_uninstallGlobal (c : FastOps) (nd : Node) (a : Cursor) :
    (uninstallGlobal c nd a).pEnds =
      let pe1 := match a.lastP with
        | some _ => c.pEnds
        | none => (match c.pEnds with | some (_, tail) => nd.nextP.map (fun nh => (nh, tail)) | none => none)
      match nd.nextP.bind (fun q => c.getNode q) with
      | some _ => pe1
      | none => (match pe1 with | some (head, _) => nd.previousP.map (fun nt => (head, nt)) | none => none) := by
  unfold uninstallGlobal
  cases hl : a.lastP <;> cases hn : nd.nextP <;> simp only [] <;> (try split) <;> simp_all <;> grind


theorem n_uninstallGlobal (c : FastOps) (nd : Node) (a : Cursor) : (uninstallGlobal c nd a).n = c.n := by
  unfold uninstallGlobal
  cases hl : a.lastP <;> cases hn : nd.nextP <;> simp only [] <;> (try split) <;> simp

theorem bc_uninstallGlobal (c : FastOps) (nd : Node) (a : Cursor) :
    (uninstallGlobal c nd a).bondCounters = c.bondCounters := by
  unfold uninstallGlobal
  cases hl : a.lastP <;> cases hn : nd.nextP <;> simp only [] <;> (try split) <;> simp

theorem length_uninstallGlobal (c : FastOps) (nd : Node) (a : Cursor) :
    (uninstallGlobal c nd a).ops.length = c.ops.length := by
  unfold uninstallGlobal
  cases hl : a.lastP <;> cases hn : nd.nextP <;> simp only [] <;> (try split) <;> simp

theorem varEnds_uninstallGlobal (c : FastOps) (nd : Node) (a : Cursor) :
    (uninstallGlobal c nd a).varEnds = c.varEnds := by
  unfold uninstallGlobal
  cases hl : a.lastP <;> cases hn : nd.nextP <;> simp only [] <;> (try split) <;> simp

theorem getNode_installGlobalCore (c : FastOps) (p : Nat) (node : Node) (q : Nat) :
    (installGlobalCore c p node).getNode q =
      if p = q ∧ p < c.ops.length then some node
      else (c.getNode q).map (fun x =>
        { x with nextP := if node.previousP = some q then some p else x.nextP,
                 previousP := if node.nextP = some q then some p else x.previousP }) := by
  unfold installGlobalCore
  cases hl : node.previousP <;> cases hn : node.nextP <;> cases hq : c.getNode q <;> simp_all <;>
    (repeat' split) <;> simp_all

theorem pEnds_installGlobalCore (c : FastOps) (p : Nat) (node : Node) :
    (installGlobalCore c p node).pEnds =
      let pe1 := match node.previousP with
        | some _ => c.pEnds
        | none => (match c.pEnds with | some (_, tail) => some (p, tail) | none => some (p, p))
      match node.nextP with
      | some _ => pe1
      | none => (match pe1 with | some (head, _) => some (head, p) | none => some (p, p)) := by
  unfold installGlobalCore
  cases hl : node.previousP <;> cases hn : node.nextP <;> simp_all <;>
    (cases c.pEnds <;> rfl)

theorem n_installGlobalCore (c : FastOps) (p : Nat) (node : Node) :
    (installGlobalCore c p node).n = c.n + 1 := by
  unfold installGlobalCore
  cases hl : node.previousP <;> cases hn : node.nextP <;> simp

theorem bc_installGlobalCore (c : FastOps) (p : Nat) (node : Node) :
    (installGlobalCore c p node).bondCounters =
      c.bondCounters.map (fun l => l.modify node.op.bond (· + 1)) := by
  unfold installGlobalCore
  cases hl : node.previousP <;> cases hn : node.nextP <;> simp

theorem length_installGlobalCore (c : FastOps) (p : Nat) (node : Node) :
    (installGlobalCore c p node).ops.length = c.ops.length := by
  unfold installGlobalCore
  cases hl : node.previousP <;> cases hn : node.nextP <;> simp

theorem varEnds_installGlobalCore (c : FastOps) (p : Nat) (node : Node) :
    (installGlobalCore c p node).varEnds = c.varEnds := by
  unfold installGlobalCore
  cases hl : node.previousP <;> cases hn : node.nextP <;> simp

end FastOps
end Qmc
