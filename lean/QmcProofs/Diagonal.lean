/-
Helper lemmas for C08 (Metropolis diagonal update): decision ↔ threshold bridge, the clipping
algebra, generic sweep lemmas (decomposition, count bookkeeping, off-diagonal ops untouched), the
SSE weight step.
-/
import QmcModel.Diagonal
import Mathlib.Tactic.Ring
import Mathlib.Tactic.Linarith
import Mathlib.Tactic.NormNum
import Mathlib.Tactic.FieldSimp
import Mathlib.Tactic.Positivity
import Mathlib.Algebra.Order.Field.Rat
import Mathlib.Algebra.Order.Floor.Ring
import Mathlib.Data.Rat.Floor

namespace Qmc
open RS

/-! ### `gen_bool` as a threshold on the next word -/

theorem two64_pos : (0 : Rat) < ((two64 : Nat) : Rat) := by
  unfold two64; positivity

theorem next_cons (rs : RS) (v : Nat) (s : List Nat) (h : rs.script = v :: s) :
    rs.next = (v % two64, { rs with script := s, draws := rs.draws + 1 }) := by
  unfold RS.next; rw [h]

theorem noteMargin_script (rs : RS) (m : Rat) : (rs.noteMargin m).script = rs.script := by
  unfold noteMargin; dsimp only; split <;> split <;> rfl

theorem noteMargin_panicked (rs : RS) (m : Rat) : (rs.noteMargin m).panicked = rs.panicked := by
  unfold noteMargin; dsimp only; split <;> split <;> rfl

/-- the decision of `gen_bool(p)` for `0 ≤ p < 1` is `word < ⌊p·2^64⌋` -/
theorem genBool_true_iff (rs : RS) (p : Rat) (v : Nat) (s : List Nat) (h : rs.script = v :: s)
    (hv : v < two64) (h0 : 0 ≤ p) (h1 : p < 1) :
    (rs.genBool p).1 = true ↔ (v : Int) < ⌊p * ((two64 : Nat) : Rat)⌋ := by
  unfold genBool
  have hp1 : p ≠ 1 := ne_of_lt h1
  have hno : ¬ (p < 0 ∨ 1 < p) := by
    intro hc; rcases hc with hc | hc <;> linarith
  rw [if_neg hp1, if_neg hno, next_cons rs v s h]
  simp only [Nat.mod_eq_of_lt hv, decide_eq_true_eq]
  rfl

/-- `gen_bool(p)` says yes only for `p > 0` -/
theorem genBool_true_pos (rs : RS) (p : Rat) (h : (rs.genBool p).1 = true) : 0 < p := by
  unfold genBool at h
  by_cases hp1 : p = 1
  · rw [hp1]; norm_num
  · rw [if_neg hp1] at h
    by_cases hno : (p < 0 ∨ 1 < p)
    · rw [if_pos hno] at h; simp at h
    · rw [if_neg hno] at h
      simp only [decide_eq_true_eq] at h
      have hfl : (0 : Int) < (p * ((two64 : Nat) : Rat)).floor := by
        have : (0 : Int) ≤ ((rs.next.1 : Nat) : Int) := Int.natCast_nonneg _
        omega
      have hpos : (0 : Rat) < p * ((two64 : Nat) : Rat) := by
        by_contra hc
        rw [not_lt] at hc
        have h3 : ⌊p * ((two64 : Nat) : Rat)⌋ ≤ ⌊(0 : Rat)⌋ := Int.floor_le_floor hc
        rw [Int.floor_zero] at h3
        have h4 : (p * ((two64 : Nat) : Rat)).floor = ⌊p * ((two64 : Nat) : Rat)⌋ := rfl
        omega
      by_contra hc
      rw [not_lt] at hc
      have := mul_nonpos_of_nonpos_of_nonneg hc (le_of_lt two64_pos)
      linarith

/-- the threshold divided by 2^64 is the probability up to 2^-64 -/
theorem floor_threshold_bounds (p : Rat) :
    p - 1 / ((two64 : Nat) : Rat) < ((⌊p * ((two64 : Nat) : Rat)⌋ : Int) : Rat) / ((two64 : Nat) : Rat) ∧
    ((⌊p * ((two64 : Nat) : Rat)⌋ : Int) : Rat) / ((two64 : Nat) : Rat) ≤ p := by
  have hpos := two64_pos
  constructor
  · rw [lt_div_iff₀ hpos]
    have := Int.lt_floor_add_one (p * ((two64 : Nat) : Rat))
    have h2 : (p - 1 / ((two64 : Nat) : Rat)) * ((two64 : Nat) : Rat) = p * ((two64 : Nat) : Rat) - 1 := by
      field_simp
    linarith
  · rw [div_le_iff₀ hpos]
    exact Int.floor_le _

/-! ### clipping -/

theorem clip1_of_le {x : Rat} (h : x ≤ 1) : clip1 x = x := by
  unfold clip1; rw [if_neg (not_lt.mpr h)]

theorem clip1_of_ge {x : Rat} (h : 1 ≤ x) : clip1 x = 1 := by
  unfold clip1
  by_cases hx : x > 1
  · rw [if_pos hx]
  · rw [if_neg hx]; linarith [not_lt.mp hx]

theorem clip1_le_one (x : Rat) : clip1 x ≤ 1 := by
  unfold clip1; split <;> linarith

theorem clip1_pos {x : Rat} (h : 0 < x) : 0 < clip1 x := by
  unfold clip1; split <;> linarith

theorem clipProb_eq {num den : Rat} (hd : 0 < den) : clipProb num den = clip1 (num / den) := by
  unfold clipProb clip1
  have : num > den ↔ num / den > 1 := by
    constructor
    · intro h; exact (one_lt_div hd).mpr h
    · intro h; exact (one_lt_div hd).mp h
  by_cases h : num > den
  · rw [if_pos h, if_pos (this.mp h)]
  · rw [if_neg h, if_neg (fun hc => h (this.mpr hc))]

/-- `min 1 x / min 1 (1/x) = x` -/
theorem clip1_ratio {x : Rat} (h : 0 < x) : clip1 x / clip1 (1 / x) = x := by
  rcases le_total x 1 with hx | hx
  · have h1 : 1 ≤ 1 / x := by rw [le_div_iff₀ h]; linarith
    rw [clip1_of_le hx, clip1_of_ge h1]; simp
  · have h1 : 1 / x ≤ 1 := by rw [div_le_iff₀ h]; linarith
    rw [clip1_of_ge hx, clip1_of_le h1]; field_simp

/-- `numerator > denominator || gen_bool(numerator/denominator)` is `word < ⌊min 1 (num/den)·2^64⌋`
on the next word of the script (which is left unconsumed in the clipped case). -/
theorem genClipped_true_iff (rs : RS) (num den : Rat) (v : Nat) (s : List Nat) (h : rs.script = v :: s)
    (hv : v < two64) (h0 : 0 ≤ num) (hd : 0 < den) :
    (genClipped rs num den).1 = true ↔ (v : Int) < ⌊clip1 (num / den) * ((two64 : Nat) : Rat)⌋ := by
  unfold genClipped
  have hvI : (v : Int) < ⌊(1 : Rat) * ((two64 : Nat) : Rat)⌋ := by
    rw [one_mul, Int.floor_natCast]; exact_mod_cast hv
  by_cases hgt : num > den
  · rw [if_pos hgt]
    have : 1 ≤ num / den := by rw [le_div_iff₀ hd]; linarith
    rw [clip1_of_ge this]
    simp only [true_iff]; exact hvI
  · rw [if_neg hgt, if_neg (ne_of_gt hd)]
    have hle : num / den ≤ 1 := by rw [div_le_iff₀ hd]; linarith [not_lt.mp hgt]
    rw [clip1_of_le hle]
    rcases lt_or_eq_of_le hle with hlt | heq
    · exact genBool_true_iff rs _ v s h hv (div_nonneg h0 (le_of_lt hd)) hlt
    · rw [heq]
      unfold genBool; rw [if_pos rfl]
      simp only [true_iff]; exact hvI

/-- `genClipped` says yes only for a positive numerator (given a non-negative denominator) -/
theorem genClipped_true_pos (rs : RS) (num den : Rat) (hd : 0 ≤ den)
    (h : (genClipped rs num den).1 = true) : 0 < num := by
  unfold genClipped at h
  by_cases hgt : num > den
  · linarith
  · rw [if_neg hgt] at h
    by_cases hz : den = 0
    · rw [if_pos hz] at h; simp at h
    · rw [if_neg hz] at h
      have hp := genBool_true_pos rs _ h
      have hdpos : 0 < den := lt_of_le_of_ne hd (Ne.symm hz)
      by_contra hc
      rw [not_lt] at hc
      have := div_nonpos_of_nonpos_of_nonneg hc hd
      linarith

/-! ### Metropolis ratio -/

theorem natSub_cast {L n : Nat} (h : n ≤ L) : ((L - n : Nat) : Rat) = (L : Rat) - (n : Rat) := by
  exact Nat.cast_sub h

theorem accRemM_succ (β : Rat) (Nb : Nat) (w : Rat) (L n : Nat) (h : n < L)
    (hpos : 0 < β * (Nb : Rat) * w) :
    accRemM β Nb w L (n + 1) = clip1 (1 / (β * (Nb : Rat) * w / ((L - n : Nat) : Rat))) := by
  unfold accRemM
  have h1 : ((L - (n + 1) : Nat) : Rat) + 1 = ((L - n : Nat) : Rat) := by
    rw [natSub_cast (by omega : n + 1 ≤ L), natSub_cast (le_of_lt h)]; push_cast; ring
  rw [h1, clipProb_eq hpos, one_div_div]

theorem metropolis_ratio_aux (β : Rat) (Nb : Nat) (w : Rat) (L n : Nat)
    (hβ : 0 < β) (hNb : 0 < Nb) (hw : 0 < w) (hn : n < L) :
    pInsertM β Nb w L n / pRemoveM β Nb w L (n + 1) = β * w / ((L : Rat) - (n : Rat)) := by
  unfold pInsertM pRemoveM
  have hNbq : (0 : Rat) < (Nb : Rat) := by exact_mod_cast hNb
  rw [accRemM_succ β Nb w L n hn (by positivity)]
  unfold accInsM
  have hd : (0 : Rat) < ((L - n : Nat) : Rat) := by
    have : 0 < L - n := by omega
    exact_mod_cast this
  have hx : 0 < β * (Nb : Rat) * w / ((L - n : Nat) : Rat) := by positivity
  rw [clipProb_eq hd, mul_div_assoc, clip1_ratio hx, natSub_cast (le_of_lt hn)]
  rw [natSub_cast (le_of_lt hn)] at hd
  field_simp

/-! ### generic sweep lemmas -/

def cnt (o : Option Op) : Nat := if o.isSome then 1 else 0

theorem countOps_cons (o : Option Op) (t : Slots) : countOps (o :: t) = cnt o + countOps t := by
  unfold countOps cnt
  cases o <;> simp [Nat.add_comm]

theorem countOps_nil : countOps ([] : Slots) = 0 := rfl

theorem countOps_append (a b : Slots) : countOps (a ++ b) = countOps a + countOps b := by
  unfold countOps; simp [List.filter_append]

/-- the slot function keeps the count in step with the slot content (a `some` slot implies `n ≥ 1`
inside a sweep) and never touches off-diagonal operators -/
structure SlotOK (f : Option Op → List Bool → Nat → RS → SlotRes) : Prop where
  count : ∀ s st n rs, (s.isSome → 1 ≤ n) → (f s st n rs).n + cnt s = n + cnt (f s st n rs).slot
  offdiag : ∀ op st n rs, op.tagDiag = false → (f (some op) st n rs).slot = some op
  kind : ∀ s st n rs, (∀ op, s = some op → op.tagDiag = true) →
    ∀ op', (f s st n rs).slot = some op' → op'.tagDiag = true

theorem sweepAux_cons (f) (s : Option Op) (t : Slots) (st n rs) :
    sweepAux f (s :: t) st n rs =
      (let r := f s st n rs
       ((r.slot :: (sweepAux f t r.state r.n r.rs).1), (sweepAux f t r.state r.n r.rs).2)) := by
  rfl

theorem sweepAux_length (f) : ∀ (sl : Slots) st n rs, (sweepAux f sl st n rs).1.length = sl.length
  | [], _, _, _ => rfl
  | s :: t, st, n, rs => by
    rw [sweepAux_cons]; simp only [List.length_cons]
    rw [sweepAux_length f t]

/-- a sweep over `pre ++ post` is the sweep over `pre` followed by the sweep over `post` started
from the state, count and RNG the first part left behind -/
theorem sweepAux_append (f) : ∀ (pre post : Slots) st n rs,
    sweepAux f (pre ++ post) st n rs =
      (let a := sweepAux f pre st n rs
       let b := sweepAux f post a.2.1 a.2.2.1 a.2.2.2
       (a.1 ++ b.1, b.2))
  | [], post, st, n, rs => by simp [sweepAux]
  | s :: t, post, st, n, rs => by
    rw [List.cons_append, sweepAux_cons, sweepAux_cons]
    simp only
    rw [sweepAux_append f t post]
    simp only [List.cons_append]

/-- count bookkeeping: if `n` counts the operators of the part still to be visited plus `e` others, the
count after the sweep counts the new content plus `e` -/
theorem sweepAux_count (f) (hf : SlotOK f) : ∀ (sl : Slots) st e rs,
    (sweepAux f sl st (countOps sl + e) rs).2.2.1 = countOps (sweepAux f sl st (countOps sl + e) rs).1 + e
  | [], _, _, _ => by simp [sweepAux, countOps_nil]
  | s :: t, st, e, rs => by
    rw [sweepAux_cons]
    simp only
    have hc := hf.count s st (countOps (s :: t) + e) rs (by
      intro hs; rw [countOps_cons]; unfold cnt; rw [if_pos hs]; omega)
    rw [countOps_cons] at hc ⊢
    have hn : (f s st (cnt s + countOps t + e) rs).n
        = countOps t + (cnt (f s st (cnt s + countOps t + e) rs).slot + e) := by omega
    rw [hn, sweepAux_count f hf t, countOps_cons]
    omega

theorem sweepAux_offdiag (f) (hf : SlotOK f) : ∀ (sl : Slots) st n rs (p : Nat) (op : Op),
    sl[p]? = some (some op) → op.tagDiag = false → (sweepAux f sl st n rs).1[p]? = some (some op)
  | [], _, _, _, p, op, h, _ => by simp at h
  | s :: t, st, n, rs, 0, op, h, hd => by
    rw [sweepAux_cons]
    simp only [List.getElem?_cons_zero, Option.some.injEq] at h ⊢
    subst h
    exact hf.offdiag op st n rs hd
  | s :: t, st, n, rs, p + 1, op, h, hd => by
    rw [sweepAux_cons]
    simp only [List.getElem?_cons_succ] at h ⊢
    exact sweepAux_offdiag f hf t _ _ _ p op h hd

theorem sweepAux_kind (f) (hf : SlotOK f) : ∀ (sl : Slots) st n rs (p : Nat),
    (∀ op, sl[p]? = some (some op) → op.tagDiag = true) →
    ∀ op', (sweepAux f sl st n rs).1[p]? = some (some op') → op'.tagDiag = true
  | [], _, _, _, p, _, op', h => by simp [sweepAux] at h
  | s :: t, st, n, rs, 0, hs, op', h => by
    rw [sweepAux_cons] at h
    simp only [List.getElem?_cons_zero, Option.some.injEq] at h hs
    exact hf.kind s st n rs (fun op ho => hs op ho) op' h
  | s :: t, st, n, rs, p + 1, hs, op', h => by
    rw [sweepAux_cons] at h
    simp only [List.getElem?_cons_succ] at h hs
    exact sweepAux_kind f hf t _ _ _ p hs op' h

/-! ### the Metropolis slot function -/

theorem metropolisSlot_offdiag (H : Ham) (β : Rat) (L : Nat) (op : Op) (st n rs)
    (h : op.tagDiag = false) :
    metropolisSlot H β L (some op) st n rs = ⟨some op, writeVars st op.vars op.outs, n, rs⟩ := by
  unfold metropolisSlot; simp [h]

/-- unfolding of the empty-slot branch when nothing panics -/
theorem metropolisSlot_empty (H : Ham) (β : Rat) (L : Nat) (st : List Bool) (n : Nat) (rs : RS)
    (hn : n ≤ L) (hr : varsInRange st (H.vars (rs.genRange H.nbonds).1) = true) :
    metropolisSlot H β L none st n rs =
      (let b := (rs.genRange H.nbonds).1
       let rs1 := (rs.genRange H.nbonds).2
       let sub := readVars st (H.vars b)
       let d := genClipped rs1 (β * (H.nbonds : Rat) * H.w b sub sub) ((L - n : Nat) : Rat)
       if d.1 then ⟨some (Op.diagonal (H.vars b) b sub (H.const b)), st, n + 1, d.2⟩
       else ⟨none, st, n, d.2⟩) := by
  unfold metropolisSlot
  simp only
  have hno : ¬ (L < n ∨ varsInRange st (H.vars (rs.genRange H.nbonds).1) = false) := by
    rw [hr]; simp; omega
  rw [if_neg hno]

/-- unfolding of the diagonal-operator branch when nothing panics -/
theorem metropolisSlot_diag (H : Ham) (β : Rat) (L : Nat) (op : Op) (st : List Bool) (n : Nat) (rs : RS)
    (hd : op.tagDiag = true) (hn : n ≤ L) (hr : varsInRange st (H.vars op.bond) = true) :
    metropolisSlot H β L (some op) st n rs =
      (let sub := readVars st (H.vars op.bond)
       let d := genClipped rs (((L - n : Nat) : Rat) + 1) (β * (H.nbonds : Rat) * H.w op.bond sub sub)
       if d.1 then ⟨none, st, n - 1, d.2⟩ else ⟨some op, st, n, d.2⟩) := by
  unfold metropolisSlot
  simp only [hd, if_true]
  have hno : ¬ (L < n ∨ varsInRange st (H.vars op.bond) = false) := by
    rw [hr]; simp; omega
  rw [if_neg hno]

theorem metropolisSlot_ok (H : Ham) (β : Rat) (L : Nat) : SlotOK (metropolisSlot H β L) where
  count := by
    intro s st n rs hs
    unfold metropolisSlot
    cases s with
    | none =>
      simp only
      split
      · simp [SlotRes.panic, cnt]
      · split <;> simp [cnt]
    | some op =>
      have h1 : 1 ≤ n := hs rfl
      simp only
      split
      · split
        · simp [SlotRes.panic, cnt]
        · split
          · simp [cnt]; omega
          · simp [cnt]
      · simp [cnt]
  offdiag := by
    intro op st n rs h
    rw [metropolisSlot_offdiag H β L op st n rs h]
  kind := by
    intro s st n rs hs op' h
    unfold metropolisSlot at h
    cases s with
    | none =>
      simp only at h
      split at h
      · simp [SlotRes.panic] at h
      · split at h
        · simp only [Option.some.injEq] at h; subst h; rfl
        · simp at h
    | some op =>
      have hd := hs op rfl
      simp only [hd, if_true] at h
      split at h
      · simp only [SlotRes.panic, Option.some.injEq] at h; subst h; exact hd
      · split at h
        · simp at h
        · simp only [Option.some.injEq] at h; subst h; exact hd

/-! ### SSE weight -/

theorem opsWeight_append (H : Ham) : ∀ (a b : Slots), opsWeight H (a ++ b) = opsWeight H a * opsWeight H b
  | [], b => by simp [opsWeight]
  | none :: t, b => by rw [List.cons_append]; simp only [opsWeight]; exact opsWeight_append H t b
  | some o :: t, b => by
    rw [List.cons_append]; simp only [opsWeight]; rw [opsWeight_append H t b]; ring

theorem fact_pos (n : Nat) : 0 < fact n := by
  induction n with
  | zero => simp [fact]
  | succ k ih => simp only [fact]; exact Nat.mul_pos (Nat.succ_pos k) ih

/-- filling the empty slot after `pre` with an operator of matrix element `H.w o.bond o.ins o.outs`
multiplies the SSE weight `β^n (L−n)!/L! Π w` by `β·w/(L−n)` -/
theorem weight_step_aux (H : Ham) (β : Rat) (st : List Bool) (pre post : Slots) (o : Op)
    (hn : countOps (pre ++ none :: post) < (pre ++ none :: post).length) :
    configWeight H β { state := st, slots := pre ++ some o :: post } =
      configWeight H β { state := st, slots := pre ++ none :: post } * β * H.w o.bond o.ins o.outs /
        (((pre ++ none :: post).length : Rat) - (countOps (pre ++ none :: post) : Rat)) := by
  unfold configWeight
  simp only
  have hlen : (pre ++ some o :: post).length = (pre ++ none :: post).length := by simp
  have hcnt : countOps (pre ++ some o :: post) = countOps (pre ++ none :: post) + 1 := by
    simp [countOps_append, countOps_cons, cnt]; omega
  have hw : opsWeight H (pre ++ some o :: post) = H.w o.bond o.ins o.outs * opsWeight H (pre ++ none :: post) := by
    rw [opsWeight_append, opsWeight_append]; simp only [opsWeight]; ring
  rw [hlen, hcnt, hw]
  generalize (pre ++ none :: post).length = L at hn ⊢
  generalize countOps (pre ++ none :: post) = n at hn ⊢
  obtain ⟨k, hk⟩ : ∃ k, L - n = k + 1 := ⟨L - n - 1, by omega⟩
  have hk' : L - (n + 1) = k := by omega
  rw [hk, hk']
  have hLn : (L : Rat) - (n : Rat) = (k : Rat) + 1 := by
    have : L = n + (k + 1) := by omega
    rw [this]; push_cast; ring
  rw [hLn]
  have hfk : ((fact (k + 1) : Nat) : Rat) = ((k : Rat) + 1) * ((fact k : Nat) : Rat) := by
    simp only [fact]; push_cast; ring
  rw [hfk]
  have hL : ((fact L : Nat) : Rat) ≠ 0 := by
    have := fact_pos L
    exact_mod_cast (Nat.pos_iff_ne_zero.mp this)
  have hk1 : (k : Rat) + 1 ≠ 0 := by positivity
  rw [pow_succ]
  field_simp

end Qmc
