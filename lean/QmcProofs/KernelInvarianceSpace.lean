import QmcProofs.KernelInvarianceSlot
import QmcProofs.KernelInvarianceCluster
import Mathlib.Data.Set.Finite.Basic
import Mathlib.Data.Set.Finite.List

/-!
# The finite configuration space of a sampler (helper of `KernelInvariance.lean`)

`cfgSpace H N L`: all configurations with `N` variables, cutoff `L`, whose operators are operators
of the Hamiltonian `H` (bond `b < H.nbonds`, variables `H.vars b`, constant flag `H.const b`, one
input and one output value per variable; any values, any tag).  It is finite, and closed under
every elementary move of the Ising sampler: the diagonal proposals `slotFlip`, the idle toggles, and
every C09 cluster move.  This is the set on which invariance is stated.
-/

namespace Qmc.Kernel
open Qmc

/-- `o` is an operator of `H` -/
def OpOf (H : Ham) (o : Op) : Prop :=
  o.bond < H.nbonds ∧ o.vars = H.vars o.bond ∧ o.const = H.const o.bond ∧
    o.ins.length = o.vars.length ∧ o.outs.length = o.vars.length

/-- configurations of the sampler for `H` with `N` variables and cutoff `L` -/
def Shape (H : Ham) (N L : Nat) (c : Config) : Prop :=
  c.state.length = N ∧ c.slots.length = L ∧ ∀ o, some o ∈ c.slots → OpOf H o

def opEnum (H : Ham) : List Op :=
  (List.range H.nbonds).flatMap fun b =>
    (allSub (H.vars b).length).flatMap fun i =>
      (allSub (H.vars b).length).flatMap fun o =>
        [⟨H.vars b, b, i, o, true, H.const b⟩, ⟨H.vars b, b, i, o, false, H.const b⟩]

def slotsEnum (ops : List Op) : Nat → List Slots
  | 0 => [[]]
  | L + 1 => (slotsEnum ops L).flatMap fun t => (none :: t) :: ops.map (fun o => some o :: t)

def cfgEnum (H : Ham) (N L : Nat) : List Config :=
  (allSub N).flatMap fun st => (slotsEnum (opEnum H) L).map fun sl => (⟨st, sl⟩ : Config)

theorem mem_opEnum {H : Ham} {o : Op} (h : OpOf H o) : o ∈ opEnum H := by
  obtain ⟨hb, hv, hc, hi, ho⟩ := h
  unfold opEnum
  simp only [List.mem_flatMap, List.mem_range]
  refine ⟨o.bond, hb, o.ins, mem_allSub _ _ (by rw [hi, hv]), o.outs, mem_allSub _ _ (by rw [ho, hv]), ?_⟩
  cases o with
  | mk vars bond ins outs tag const =>
    simp only at hv hc
    subst hv hc
    cases tag <;> simp

theorem mem_slotsEnum {ops : List Op} : ∀ (s : Slots), (∀ o, some o ∈ s → o ∈ ops) →
    s ∈ slotsEnum ops s.length
  | [], _ => by simp [slotsEnum]
  | x :: t, h => by
    have ih := mem_slotsEnum t (fun o ho => h o (List.mem_cons_of_mem _ ho))
    simp only [List.length_cons, slotsEnum, List.mem_flatMap]
    refine ⟨t, ih, ?_⟩
    cases x with
    | none => simp
    | some o =>
      have := h o (by simp)
      simp only [List.mem_cons, List.cons.injEq, reduceCtorEq, List.mem_map, and_true,
        false_or]
      exact ⟨o, this, rfl⟩

theorem mem_cfgEnum {H : Ham} {N L : Nat} {c : Config} (h : Shape H N L c) : c ∈ cfgEnum H N L := by
  obtain ⟨hs, hl, ho⟩ := h
  unfold cfgEnum
  simp only [List.mem_flatMap, List.mem_map]
  refine ⟨c.state, mem_allSub _ _ hs, c.slots, ?_, rfl⟩
  rw [← hl]
  exact mem_slotsEnum c.slots (fun o h => mem_opEnum (ho o h))

theorem shape_finite (H : Ham) (N L : Nat) : {c : Config | Shape H N L c}.Finite :=
  (List.finite_toSet (cfgEnum H N L)).subset (fun _ hc => mem_cfgEnum hc)

/-- **the configuration space**: finite set of all configurations of shape `(H, N, L)` -/
noncomputable def cfgSpace (H : Ham) (N L : Nat) : Finset Config := (shape_finite H N L).toFinset

theorem mem_cfgSpace {H : Ham} {N L : Nat} {c : Config} : c ∈ cfgSpace H N L ↔ Shape H N L c := by
  unfold cfgSpace; rw [Set.Finite.mem_toFinset]; rfl

/-! ### closure under the elementary moves -/

theorem canonOp_opOf (H : Ham) (c : Config) (p b : Nat) (hb : b < H.nbonds) : OpOf H (canonOp H c p b) := by
  refine ⟨hb, rfl, rfl, ?_, ?_⟩ <;> simp [canonOp, Op.diagonal, readVars]

theorem shape_setSlot {H : Ham} {N L : Nat} {c : Config} (h : Shape H N L c) (p : Nat) (x : Option Op)
    (hx : ∀ o, x = some o → OpOf H o) : Shape H N L (setSlot c p x) := by
  refine ⟨h.1, by simpa using h.2.1, ?_⟩
  intro o ho
  rcases List.mem_or_eq_of_mem_set ho with h1 | h1
  · exact h.2.2 o h1
  · exact hx o h1.symm

theorem cfgSpace_slotFlip (H : Ham) (N L : Nat) (p b : Nat) (hb : b < H.nbonds) :
    ∀ c ∈ cfgSpace H N L, slotFlip H p b c ∈ cfgSpace H N L := by
  intro c hc
  rw [mem_cfgSpace] at hc ⊢
  unfold slotFlip
  split
  · exact shape_setSlot hc p _ (fun o ho => by cases ho; exact canonOp_opOf H c p b hb)
  · split
    · exact shape_setSlot hc p none (fun o ho => by cases ho)
    · exact hc
  · exact hc

theorem cfgSpace_toggleIdle (H : Ham) (N L : Nat) (v : Nat) :
    ∀ c ∈ cfgSpace H N L, toggleIdle v c ∈ cfgSpace H N L := by
  intro c hc
  rw [mem_cfgSpace] at hc ⊢
  refine ⟨by rw [toggleIdle_length]; exact hc.1, by rw [toggleIdle_slots]; exact hc.2.1, ?_⟩
  rw [toggleIdle_slots]; exact hc.2.2

theorem mem_of_getElem? {l : Slots} {p : Nat} {x : Option Op} (h : l[p]? = some x) : x ∈ l :=
  List.mem_of_getElem? h

/-- every C09 cluster move stays in the configuration space -/
theorem cfgSpace_clusterMove {H : Ham} {N L : Nat} {fr : SkOp → Bool} {b a : Config}
    (h : ClusterMove fr b a) (hb : b ∈ cfgSpace H N L) : a ∈ cfgSpace H N L := by
  rw [mem_cfgSpace] at hb ⊢
  refine ⟨by rw [h.stateLen]; exact hb.1, by rw [h.ops.length_eq]; exact hb.2.1, ?_⟩
  intro oa hoa
  obtain ⟨p, hp⟩ := List.getElem?_of_mem hoa
  have hs := h.symm
  obtain ⟨ob, hob, hop⟩ := (hs.ops.get p).2 oa hp
  obtain ⟨h1, h2, h3, h4, h5⟩ := hb.2.2 ob (List.mem_of_getElem? hob)
  -- hop : OpOk fr oa ob, i.e. ob.vars = oa.vars etc.
  refine ⟨by rw [← hop.bond]; exact h1, ?_, ?_, hop.insB, hop.outsB⟩
  · rw [← hop.vars, ← hop.bond]; exact h2
  · rw [← hop.const, ← hop.bond]; exact h3

/-- a cluster family on the configuration space needs no separate closure hypothesis -/
def ClusterFamily.ofMoves {fr : SkOp → Bool} {H : Ham} {N L : Nat}
    (flips : Skel → List (Config → Config))
    (invol : ∀ s, ∀ f ∈ flips s, ∀ c ∈ cfgSpace H N L, skeleton c.slots = s → f (f c) = c)
    (comm : ∀ s, ∀ f ∈ flips s, ∀ g ∈ flips s, ∀ c ∈ cfgSpace H N L, skeleton c.slots = s →
      f (g c) = g (f c))
    (move : ∀ s, ∀ f ∈ flips s, ∀ c ∈ cfgSpace H N L, skeleton c.slots = s →
      f c = c ∨ ClusterMove fr c (f c)) : ClusterFamily fr (cfgSpace H N L) where
  flips := flips
  closed := by
    intro s f hf c hc hs
    rcases move s f hf c hc hs with e | hm
    · rw [e]; exact hc
    · exact cfgSpace_clusterMove hm hc
  invol := invol
  comm := comm
  move := move

end Qmc.Kernel
