/-
C11, per-variable chains (Appendix B steps 2–4 for `previous_for_vars/next_for_vars/var_ends`):
reads of the per-variable fields after each write, and the frame facts.
-/
import QmcProofs.FastOpsInv

namespace Qmc

/-! ### list facts -/

theorem map_set_nodup {α : Type} (l : List Nat) (F : Nat → α) (v : Nat) (y : α) (hv : v ∈ l)
    (hn : l.Nodup) :
    (l.map F).set (l.idxOf v) y = l.map (fun w => if w = v then y else F w) := by
  apply List.ext_getElem?
  intro i
  rw [List.getElem?_set]
  simp only [List.getElem?_map, List.length_map]
  have hlt := List.idxOf_lt_length_of_mem hv
  by_cases hi : l.idxOf v = i
  · subst hi
    simp only [if_true, hlt]
    rw [List.getElem?_eq_getElem hlt, List.getElem_idxOf hlt]
    simp
  · simp only [hi, if_false]
    cases hli : l[i]? with
    | none => rfl
    | some w =>
      have hil : i < l.length := by
        by_cases h : i < l.length
        · exact h
        · rw [List.getElem?_eq_none (Nat.le_of_not_lt h)] at hli; cases hli
      have hw : l[i] = w := by rw [List.getElem?_eq_getElem hil] at hli; exact Option.some.inj hli
      have : w ≠ v := by
        intro e
        apply hi
        rw [← e, ← hw]
        exact hn.idxOf_getElem i hil
      simp [this]

namespace FastOps

/-- `next_for_vars` list of the node at `q` -/
def nfv (c : FastOps) (q : Nat) : Option (List (Option PRel)) := (c.getNode q).map (·.nextForVars)
/-- `previous_for_vars` list of the node at `q` -/
def pfv (c : FastOps) (q : Nat) : Option (List (Option PRel)) := (c.getNode q).map (·.previousForVars)

theorem node_ext {x y : Node} (hg : x.g = y.g) (h1 : x.previousForVars = y.previousForVars)
    (h2 : x.nextForVars = y.nextForVars) : x = y := by
  cases x; cases y
  simp only [Node.g, Node.mk.injEq] at hg
  simp only at h1 h2
  simp [hg.1, hg.2.1, hg.2.2.1, h1, h2]

/-- a container is determined by its global view and its per-variable fields -/
theorem eq_of_g_v {c d : FastOps} (hg : c.g = d.g) (hn : ∀ q, nfv c q = nfv d q)
    (hp : ∀ q, pfv c q = pfv d q) (hv : c.varEnds = d.varEnds) : c = d := by
  have hl : c.ops.length = d.ops.length := by
    have := congrArg (fun x => x.ops.length) hg
    simpa using this
  apply ext' hl
  · intro q _
    have h1 := congrArg (fun x => x.getNode q) hg
    simp only [getNode_g] at h1
    have h2 := hn q
    have h3 := hp q
    unfold nfv at h2
    unfold pfv at h3
    cases hc : c.getNode q with
    | none =>
      rw [hc] at h1
      cases hd : d.getNode q with
      | none => rfl
      | some y => rw [hd] at h1; cases h1
    | some x =>
      rw [hc] at h1 h2 h3
      cases hd : d.getNode q with
      | none => rw [hd] at h1; cases h1
      | some y =>
        rw [hd] at h1 h2 h3
        simp only [Option.map_some, Option.some.injEq] at h1 h2 h3
        rw [node_ext h1 h3 h2]
  · have := congrArg FastOps.n hg; simpa using this
  · have := congrArg FastOps.pEnds hg; simpa using this
  · exact hv
  · have := congrArg FastOps.bondCounters hg; simpa using this

/-! ### reads after writes -/

@[simp] theorem nfv_setNextFor (c : FastOps) (q k r : Nat) (x) :
    (c.setNextFor q k x).nfv r = (c.nfv r).map (fun l => if q = r then l.set k x else l) := by
  simp only [nfv, getNode_setNextFor]
  cases c.getNode r <;> simp
  split <;> rfl

@[simp] theorem pfv_setNextFor (c : FastOps) (q k r : Nat) (x) : (c.setNextFor q k x).pfv r = c.pfv r := by
  simp only [pfv, getNode_setNextFor]
  cases c.getNode r <;> simp
  split <;> rfl

@[simp] theorem pfv_setPrevFor (c : FastOps) (q k r : Nat) (x) :
    (c.setPrevFor q k x).pfv r = (c.pfv r).map (fun l => if q = r then l.set k x else l) := by
  simp only [pfv, getNode_setPrevFor]
  cases c.getNode r <;> simp
  split <;> rfl

@[simp] theorem nfv_setPrevFor (c : FastOps) (q k r : Nat) (x) : (c.setPrevFor q k x).nfv r = c.nfv r := by
  simp only [nfv, getNode_setPrevFor]
  cases c.getNode r <;> simp
  split <;> rfl

@[simp] theorem nfv_setVarEnd (c : FastOps) (v r : Nat) (x) : (c.setVarEnd v x).nfv r = c.nfv r := rfl
@[simp] theorem pfv_setVarEnd (c : FastOps) (v r : Nat) (x) : (c.setVarEnd v x).pfv r = c.pfv r := rfl
@[simp] theorem nfv_setPEnds (c : FastOps) (e) (r : Nat) : (c.setPEnds e).nfv r = c.nfv r := rfl
@[simp] theorem pfv_setPEnds (c : FastOps) (e) (r : Nat) : (c.setPEnds e).pfv r = c.pfv r := rfl
@[simp] theorem nfv_setN (c : FastOps) (k r : Nat) : (c.setN k).nfv r = c.nfv r := rfl
@[simp] theorem pfv_setN (c : FastOps) (k r : Nat) : (c.setN k).pfv r = c.pfv r := rfl
@[simp] theorem nfv_decrBond (c : FastOps) (b r : Nat) : (c.decrBond b).nfv r = c.nfv r := rfl
@[simp] theorem pfv_decrBond (c : FastOps) (b r : Nat) : (c.decrBond b).pfv r = c.pfv r := rfl
@[simp] theorem nfv_incrBond (c : FastOps) (b r : Nat) : (c.incrBond b).nfv r = c.nfv r := rfl
@[simp] theorem pfv_incrBond (c : FastOps) (b r : Nat) : (c.incrBond b).pfv r = c.pfv r := rfl

@[simp] theorem nfv_setNextP (c : FastOps) (q r : Nat) (x) : (c.setNextP q x).nfv r = c.nfv r := by
  simp only [nfv, getNode_setNextP]
  cases c.getNode r <;> simp
  split <;> rfl

@[simp] theorem pfv_setNextP (c : FastOps) (q r : Nat) (x) : (c.setNextP q x).pfv r = c.pfv r := by
  simp only [pfv, getNode_setNextP]
  cases c.getNode r <;> simp
  split <;> rfl

@[simp] theorem nfv_setPrevP (c : FastOps) (q r : Nat) (x) : (c.setPrevP q x).nfv r = c.nfv r := by
  simp only [nfv, getNode_setPrevP]
  cases c.getNode r <;> simp
  split <;> rfl

@[simp] theorem pfv_setPrevP (c : FastOps) (q r : Nat) (x) : (c.setPrevP q x).pfv r = c.pfv r := by
  simp only [pfv, getNode_setPrevP]
  cases c.getNode r <;> simp
  split <;> rfl

@[simp] theorem nfv_setOp (c : FastOps) (p r : Nat) (x : Option Node) :
    (c.setOp p x).nfv r = if p = r ∧ p < c.ops.length then x.map (·.nextForVars) else c.nfv r := by
  simp only [nfv, getNode_setOp]
  split <;> rfl

@[simp] theorem pfv_setOp (c : FastOps) (p r : Nat) (x : Option Node) :
    (c.setOp p x).pfv r = if p = r ∧ p < c.ops.length then x.map (·.previousForVars) else c.pfv r := by
  simp only [pfv, getNode_setOp]
  split <;> rfl

theorem nfv_uninstallGlobal (c : FastOps) (nd : Node) (a : Cursor) (r : Nat) :
    (uninstallGlobal c nd a).nfv r = c.nfv r := by
  simp only [nfv, getNode_uninstallGlobal]
  cases c.getNode r <;> rfl

theorem pfv_uninstallGlobal (c : FastOps) (nd : Node) (a : Cursor) (r : Nat) :
    (uninstallGlobal c nd a).pfv r = c.pfv r := by
  simp only [pfv, getNode_uninstallGlobal]
  cases c.getNode r <;> rfl

theorem nfv_installGlobalCore (c : FastOps) (p : Nat) (node : Node) (r : Nat) :
    (installGlobalCore c p node).nfv r =
      if p = r ∧ p < c.ops.length then some node.nextForVars else c.nfv r := by
  simp only [nfv, getNode_installGlobalCore]
  split
  · rfl
  · cases c.getNode r <;> rfl

theorem pfv_installGlobalCore (c : FastOps) (p : Nat) (node : Node) (r : Nat) :
    (installGlobalCore c p node).pfv r =
      if p = r ∧ p < c.ops.length then some node.previousForVars else c.pfv r := by
  simp only [pfv, getNode_installGlobalCore]
  split
  · rfl
  · cases c.getNode r <;> rfl

/-- the link stored for relative index `relv` in the node being removed -/
def nodeNext (nd : Node) (relv : Nat) : Option PRel := (nd.nextForVars[relv]?).join
def nodePrev (nd : Node) (relv : Nat) : Option PRel := (nd.previousForVars[relv]?).join

theorem nfv_uninstallVar (nd : Node) (a : Cursor) (c : FastOps) (vr : Nat × Nat) (r : Nat) :
    (uninstallVar nd a c vr).nfv r = (c.nfv r).map (fun l =>
      match a.lastPRel vr.1 with
      | some pr => if pr.p = r then l.set pr.relv (nodeNext nd vr.2) else l
      | none => l) := by
  unfold uninstallVar nodeNext
  simp only []
  cases a.lastPRel vr.1 <;> cases (nd.nextForVars[vr.2]?).join <;> simp <;> cases c.nfv r <;> rfl

theorem pfv_uninstallVar (nd : Node) (a : Cursor) (c : FastOps) (vr : Nat × Nat) (r : Nat) :
    (uninstallVar nd a c vr).pfv r = (c.pfv r).map (fun l =>
      match nodeNext nd vr.2 with
      | some nx => if nx.p = r then l.set nx.relv (a.lastPRel vr.1) else l
      | none => l) := by
  unfold uninstallVar nodeNext
  simp only []
  cases a.lastPRel vr.1 <;> cases (nd.nextForVars[vr.2]?).join <;> simp <;> cases c.pfv r <;> rfl

theorem varEnd_setVarEnd (c : FastOps) (v : Nat) (x) (hv : v < c.varEnds.length) :
    (c.setVarEnd v x).varEnd v = x := by
  simp [varEnd, setVarEnd, hv]

/-- `var_ends` after one uninstall iteration, when `v` is in range -/
theorem varEnds_uninstallVar (nd : Node) (a : Cursor) (c : FastOps) (vr : Nat × Nat)
    (hv : vr.1 < c.varEnds.length) :
    (uninstallVar nd a c vr).varEnds =
      let e0 := c.varEnd vr.1
      let e1 := match a.lastPRel vr.1 with
        | some _ => e0
        | none => (match e0 with | some (_, tail) => (nodeNext nd vr.2).map (fun nh => (nh, tail)) | none => none)
      let e2 := match nodeNext nd vr.2 with
        | some _ => e1
        | none => (match e1 with | some (head, _) => (nodePrev nd vr.2).map (fun nt => (head, nt)) | none => none)
      c.varEnds.set vr.1 e2 := by
  unfold uninstallVar nodeNext nodePrev
  simp only []
  have hself : c.varEnds.set vr.1 (c.varEnd vr.1) = c.varEnds := by
    unfold varEnd
    rw [List.getElem?_eq_getElem hv]
    simp
  cases a.lastPRel vr.1 <;> cases (nd.nextForVars[vr.2]?).join <;>
    simp [varEnd_setVarEnd, hv, hself, List.set_set] <;>
    first
      | rfl
      | (cases c.varEnd vr.1 <;> rfl)
      | (rename_i x; cases x <;> rfl)

end FastOps
end Qmc
