/-
C11, finding F32: the per-bond counter table with growth on demand (QmcModel/FastOpsCounters.lean).
`getCountT (bumpCount cs b) b' = getCountT cs b' + [b' = b]` for ALL `b`, `b'`; the table never shrinks; inside the
table the updates are those of the existing container model (`incrBond` / `decrBond`); and the invariant
"`get_count(b)` = number of stored operators with bond `b`, for EVERY `b`" survives every `mutate_p` change.
-/
import QmcModel.FastOpsCounters
import QmcProofs.FastOpsBasic

namespace Qmc.Counters
open Qmc

theorem getD_pad (cs : List Nat) (k j : Nat) : (cs ++ List.replicate k 0).getD j 0 = cs.getD j 0 := by
  simp only [List.getD_eq_getElem?_getD]
  by_cases h : j < cs.length
  · rw [List.getElem?_append_left h]
  · rw [List.getElem?_append_right (Nat.le_of_not_lt h), List.getElem?_eq_none (Nat.le_of_not_lt h)]
    by_cases h2 : j - cs.length < k
    · simp [h2]
    · simp [h2]

theorem getD_modify (cs : List Nat) (b j : Nat) (f : Nat → Nat) (hb : b < cs.length) :
    (cs.modify b f).getD j 0 = if j = b then f (cs.getD b 0) else cs.getD j 0 := by
  simp only [List.getD_eq_getElem?_getD, List.getElem?_modify]
  by_cases hj : j = b
  · subst hj; simp [List.getElem?_eq_getElem hb]
  · have : ¬ b = j := fun e => hj e.symm
    simp [hj, this]

/-- **growth on demand**: the table reaches `b + 1` and never shrinks -/
theorem length_bumpCount (cs : List Nat) (b : Nat) : (bumpCount cs b).length = max cs.length (b + 1) := by
  unfold bumpCount
  by_cases h : b ≥ cs.length
  · simp [h]; omega
  · simp [h]; omega

theorem length_bumpCount_mono (cs : List Nat) (b : Nat) : cs.length ≤ (bumpCount cs b).length := by
  rw [length_bumpCount]; omega

/-- **the increment, for every bond in or out of range** -/
theorem getCountT_bumpCount (cs : List Nat) (b b' : Nat) :
    getCountT (bumpCount cs b) b' = getCountT cs b' + (if b' = b then 1 else 0) := by
  unfold getCountT bumpCount
  by_cases h : b ≥ cs.length
  · simp only [h, if_true]
    rw [getD_modify _ b b' _ (by simp; omega), getD_pad, getD_pad]
    split
    · next e => subst e; rfl
    · rfl
  · simp only [h, if_false]
    rw [getD_modify _ b b' _ (by omega)]
    split
    · next e => subst e; rfl
    · rfl

/-- inside the table `bumpCount` is the update of the existing container model (`incrBond`) -/
theorem bumpCount_eq_modify (cs : List Nat) (b : Nat) (h : b < cs.length) : bumpCount cs b = cs.modify b (· + 1) := by
  unfold bumpCount
  have : ¬ b ≥ cs.length := by omega
  simp [this]

theorem dropCount_some (cs : List Nat) (b k : Nat) (h : cs[b]? = some (k + 1)) :
    dropCount cs b = some (cs.modify b (· - 1)) := by
  unfold dropCount
  rw [h]
  simp only [Option.some.injEq]
  apply List.ext_getElem?
  intro j
  rw [List.getElem?_set, List.getElem?_modify]
  by_cases hj : b = j
  · subst hj
    have hb : b < cs.length := by
      by_cases hb : b < cs.length
      · exact hb
      · rw [List.getElem?_eq_none (Nat.le_of_not_lt hb)] at h; cases h
    have hv : cs[b] = k + 1 := by rw [List.getElem?_eq_getElem hb] at h; exact Option.some.inj h
    simp [hb, hv]
  · simp [hj]

theorem getCountT_dropCount (cs cs' : List Nat) (b b' : Nat) (h : dropCount cs b = some cs') :
    getCountT cs' b' + (if b' = b then 1 else 0) = getCountT cs b' := by
  unfold dropCount at h
  cases hb : cs[b]? with
  | none => rw [hb] at h; cases h
  | some x =>
    cases x with
    | zero => rw [hb] at h; cases h
    | succ k =>
      rw [hb] at h
      simp only [Option.some.injEq] at h
      subst h
      unfold getCountT
      simp only [List.getD_eq_getElem?_getD, List.getElem?_set]
      by_cases hj : b' = b
      · subst hj
        have hlt : b' < cs.length := by
          by_cases hlt : b' < cs.length
          · exact hlt
          · rw [List.getElem?_eq_none (Nat.le_of_not_lt hlt)] at hb; cases hb
        have hv : cs[b'] = k + 1 := by rw [List.getElem?_eq_getElem hlt] at hb; exact Option.some.inj hb
        simp [hlt, hv]
      · have : ¬ b = b' := fun e => hj e.symm
        simp [hj, this]

theorem length_dropCount (cs cs' : List Nat) (b : Nat) (h : dropCount cs b = some cs') : cs'.length = cs.length := by
  unfold dropCount at h
  cases hb : cs[b]? with
  | none => rw [hb] at h; cases h
  | some x =>
    cases x with
    | zero => rw [hb] at h; cases h
    | succ k => rw [hb] at h; simp only [Option.some.injEq] at h; subst h; simp

/-- the invariant: `get_count(b)` = number of stored operators with bond `b`, for EVERY `b` (0 beyond the table) -/
def CountsOK (cs : List Nat) (s : Slots) : Prop := ∀ b, getCountT cs b = countBond s b

theorem countsOK_new (nbonds : Nat) (k : Nat) : CountsOK (List.replicate nbonds 0) (List.replicate k none) := by
  intro b
  unfold getCountT
  have h1 : (List.replicate nbonds 0).getD b 0 = 0 := by
    simp only [List.getD_eq_getElem?_getD, List.getElem?_replicate]; split <;> rfl
  have h2 : countBond (List.replicate k (none : Option Op)) b = 0 := by
    have := countBond_append_none [] k b
    simpa [countBond] using this
  rw [h1, h2]

/-- **every `mutate_p` change keeps the invariant, for an operator of ANY bond** (no hypothesis `bond < nbonds`):
insertion, removal, replacement (fast path or not); the decrement never panics -/
theorem changeCounters_ok (cs : List Nat) (s : Slots) (p : Nat) (new : Option Op) (hp : p < s.length)
    (hok : CountsOK cs s) :
    ∃ cs', changeCounters cs (slotAt s p) new = some cs' ∧ CountsOK cs' (s.set p new) ∧ cs.length ≤ cs'.length := by
  -- first the old op
  obtain ⟨cs1, h1, hok1, hl1⟩ : ∃ cs1, dropOld cs (slotAt s p) = some cs1 ∧ CountsOK cs1 (s.set p none) ∧
      cs1.length = cs.length := by
    unfold dropOld
    cases hsp : slotAt s p with
    | none =>
      refine ⟨cs, rfl, ?_, rfl⟩
      intro b
      have := countBond_set s p none b hp
      simp [hsp, bondIs] at this
      rw [hok b]; omega
    | some o =>
      have hset := fun b => countBond_set s p none b hp
      simp only [hsp, bondIs] at hset
      have hpos : getCountT cs o.bond = countBond (s.set p none) o.bond + 1 := by
        have := hset o.bond
        simp only [beq_self_eq_true, if_true] at this
        rw [hok o.bond]; simpa using this.symm
      have hidx : cs[o.bond]? = some (countBond (s.set p none) o.bond + 1) := by
        unfold getCountT at hpos
        rw [List.getD_eq_getElem?_getD] at hpos
        cases h : cs[o.bond]? with
        | none => rw [h] at hpos; simp at hpos
        | some x => rw [h] at hpos; simp at hpos; rw [hpos]
      have hd : dropCount cs o.bond = some (cs.set o.bond (countBond (s.set p none) o.bond)) := by
        unfold dropCount; rw [hidx]
      refine ⟨_, hd, ?_, by simp⟩
      intro b
      have h2 := getCountT_dropCount cs _ o.bond b hd
      have h3 := hset b
      rw [hok b] at h2
      by_cases hb : b = o.bond
      · subst hb; simp only [if_true, beq_self_eq_true] at h2 h3; simp at h3; omega
      · have hb' : (o.bond == b) = false := by simpa using fun e => hb e.symm
        simp only [hb, if_false, hb'] at h2 h3
        simp at h3; omega
  unfold changeCounters
  rw [h1]
  simp only [Option.map_some]
  have hset' : ∀ b, countBond (s.set p new) b = countBond (s.set p none) b + (if bondIs b new then 1 else 0) := by
    intro b
    have h2 := countBond_set s p new b hp
    have h3 := countBond_set s p none b hp
    have h4 : bondIs b (none : Option Op) = false := rfl
    rw [h4] at h3
    simp only [Bool.false_eq_true, if_false] at h3
    omega
  cases new with
  | none =>
    exact ⟨cs1, rfl, hok1, by omega⟩
  | some n =>
    refine ⟨bumpCount cs1 n.bond, rfl, ?_, by have := length_bumpCount_mono cs1 n.bond; omega⟩
    intro b
    rw [getCountT_bumpCount, hok1 b, hset' b]
    simp only [bondIs]
    by_cases hb : b = n.bond
    · subst hb; simp
    · have : (n.bond == b) = false := by simpa using fun e => hb e.symm
      simp [hb, this]

/-- after storing an op of bond `b` the table covers `b` -/
theorem bump_table_covers (cs : List Nat) (b : Nat) : b < (bumpCount cs b).length := by
  rw [length_bumpCount]; omega

end Qmc.Counters
