/-
Helper lemmas for C12 (cutoff growth / container length). Model: QmcModel/Cutoff.lean.
-/
import QmcModel.Cutoff

namespace Qmc

/-! ### the rule -/

theorem nextCutoff_ge_left (c n : Nat) : c ≤ nextCutoff c n := by
  unfold nextCutoff; omega

theorem nextCutoff_gt_n (c n : Nat) : n < nextCutoff c n := by
  unfold nextCutoff; omega

theorem nextCutoff_margin (c n : Nat) : n + n / 2 + 1 ≤ nextCutoff c n := by
  unfold nextCutoff; omega

theorem nextCutoff_eq (c n : Nat) :
    nextCutoff c n = if c ≤ n + n / 2 then n + n / 2 + 1 else c := by
  unfold nextCutoff; split <;> omega

theorem nextCutoffOld_ge_left (c n : Nat) : c ≤ nextCutoffOld c n := by
  unfold nextCutoffOld; omega

theorem growLen_eq_max (len c : Nat) : growLen len c = max len c := by
  unfold growLen; split <;> omega

theorem growLen_ge_left (len c : Nat) : len ≤ growLen len c := by
  rw [growLen_eq_max]; omega

theorem growLen_ge_right (len c : Nat) : c ≤ growLen len c := by
  rw [growLen_eq_max]; omega

/-! ### slot arrays -/

theorem growOcc_length (occ : List Bool) (c : Nat) :
    (growOcc occ c).length = growLen occ.length c := by
  unfold growOcc growLen
  rw [List.length_append, List.length_replicate]
  split <;> omega

theorem rewriteBelow_length (d : Nat → Bool → Bool) (c : Nat) (l : List Bool) (start : Nat) :
    (rewriteBelow d c start l).length = l.length := by
  induction l generalizing start with
  | nil => rfl
  | cons b t ih => simp [rewriteBelow, ih]

theorem sweepOcc_length (d : Nat → Bool → Bool) (c : Nat) (occ : List Bool) :
    (sweepOcc d c occ).length = growLen occ.length c := by
  unfold sweepOcc; rw [rewriteBelow_length, growOcc_length]

theorem countOcc_le_length (occ : List Bool) : countOcc occ ≤ occ.length :=
  List.count_le_length

theorem countOcc_growOcc (occ : List Bool) (c : Nat) : countOcc (growOcc occ c) = countOcc occ := by
  unfold countOcc growOcc
  rw [List.count_append, List.count_replicate]
  simp

/-- slots at or above the cutoff are untouched by a sweep -/
theorem rewriteBelow_drop (d : Nat → Bool → Bool) (c : Nat) (l : List Bool) (start : Nat) :
    (rewriteBelow d c start l).drop (c - start) = l.drop (c - start) := by
  induction l generalizing start with
  | nil => simp [rewriteBelow]
  | cons b t ih =>
    by_cases h : start < c
    · have : c - start = (c - (start + 1)) + 1 := by omega
      rw [this]
      simp only [rewriteBelow, List.drop_succ_cons]
      exact ih (start + 1)
    · have : c - start = 0 := by omega
      rw [this]
      simp only [List.drop_zero, rewriteBelow, if_neg h]
      have h2 := ih (start + 1)
      have : c - (start + 1) = 0 := by omega
      rw [this] at h2
      simpa using h2

theorem sweepOcc_drop (d : Nat → Bool → Bool) (c : Nat) (occ : List Bool) :
    (sweepOcc d c occ).drop c = (growOcc occ c).drop c := by
  have := rewriteBelow_drop d c (growOcc occ c) 0
  simpa [sweepOcc] using this

/-- any array of the same length that agrees above the cutoff is produced by some decisions -/
theorem rewriteBelow_reach (a : List Bool) (c : Nat) (l : List Bool) (start : Nat)
    (hlen : a.length = l.length) (hdrop : a.drop (c - start) = l.drop (c - start)) :
    rewriteBelow (fun p _ => a.getD (p - start) false) c start l = a := by
  induction l generalizing start a with
  | nil =>
    cases a with
    | nil => rfl
    | cons _ _ => simp at hlen
  | cons b t ih =>
    cases a with
    | nil => simp at hlen
    | cons x a' =>
      simp only [List.length_cons, Nat.add_right_cancel_iff] at hlen
      simp only [rewriteBelow]
      by_cases h : start < c
      · have hc : c - start = (c - (start + 1)) + 1 := by omega
        rw [hc] at hdrop
        simp only [List.drop_succ_cons] at hdrop
        have ih' := ih a' (start + 1) hlen hdrop
        simp only [if_pos h, Nat.sub_self, List.getD_cons_zero]
        congr 1
        -- the two decision functions agree on every slot the recursion visits
        have key : ∀ (l : List Bool) (s : Nat), start + 1 ≤ s →
            rewriteBelow (fun p _ => (x :: a').getD (p - start) false) c s l
              = rewriteBelow (fun p _ => a'.getD (p - (start + 1)) false) c s l := by
          intro l
          induction l with
          | nil => intro s _; rfl
          | cons y l ihl =>
            intro s hs
            simp only [rewriteBelow]
            rw [ihl (s + 1) (by omega)]
            congr 1
            have : s - start = (s - (start + 1)) + 1 := by omega
            rw [this, List.getD_cons_succ]
        rw [key t (start + 1) (Nat.le_refl _)]
        exact ih'
      · have hc : c - start = 0 := by omega
        rw [hc] at hdrop
        simp only [List.drop_zero] at hdrop
        injection hdrop with hx ha
        subst hx; subst ha
        simp only [if_neg h]
        congr 1
        -- no slot of the tail is below the cutoff either
        have key : ∀ (l : List Bool) (s : Nat) (f : Nat → Bool → Bool), c ≤ s →
            rewriteBelow f c s l = l := by
          intro l
          induction l with
          | nil => intro s f _; rfl
          | cons y l ihl =>
            intro s f hs
            simp only [rewriteBelow]
            rw [if_neg (by omega), ihl (s + 1) f (by omega)]
        exact key a' (start + 1) _ (by omega)

theorem isSweepResult_sound (d : Nat → Bool → Bool) (c : Nat) (occ : List Bool) :
    isSweepResult c occ (sweepOcc d c occ) = true := by
  unfold isSweepResult
  simp [sweepOcc_length, sweepOcc_drop]

theorem isSweepResult_complete (c : Nat) (before after : List Bool)
    (h : isSweepResult c before after = true) : ∃ d, sweepOcc d c before = after := by
  unfold isSweepResult at h
  simp only [Bool.and_eq_true, beq_iff_eq] at h
  refine ⟨fun p _ => after.getD (p - 0) false, ?_⟩
  unfold sweepOcc
  apply rewriteBelow_reach
  · rw [h.1, growOcc_length]
  · simpa using h.2

/-! ### one step -/

namespace CSampler

theorem n_le_len (s : CSampler) : s.n ≤ s.len := countOcc_le_length _

theorem diagStepWith_len (rule : Nat → Nat → Nat) (d : Nat → Bool → Bool) (s : CSampler) :
    (diagStepWith rule d s).len = growLen s.len s.cutoff := by
  simp [diagStepWith, len, sweepOcc_length]

theorem diagStepWith_cutoff (rule : Nat → Nat → Nat) (d : Nat → Bool → Bool) (s : CSampler) :
    (diagStepWith rule d s).cutoff = rule s.cutoff (diagStepWith rule d s).n := rfl

/-- after a sweep from a sampler with `Inv`, the container is exactly as long as the cutoff the
sweep used -/
theorem diagStepWith_len_of_inv (rule : Nat → Nat → Nat) (d : Nat → Bool → Bool) (s : CSampler)
    (h : s.Inv) : (diagStepWith rule d s).len = s.cutoff := by
  rw [diagStepWith_len, growLen_eq_max]; unfold Inv at h; omega

theorem diagStepWith_n_le (rule : Nat → Nat → Nat) (d : Nat → Bool → Bool) (s : CSampler)
    (h : s.Inv) : (diagStepWith rule d s).n ≤ s.cutoff := by
  have := n_le_len (diagStepWith rule d s)
  rw [diagStepWith_len_of_inv rule d s h] at this; exact this

theorem diagStepWith_inv (rule : Nat → Nat → Nat) (hr : ∀ c n, c ≤ rule c n)
    (d : Nat → Bool → Bool) (s : CSampler) (h : s.Inv) : (diagStepWith rule d s).Inv := by
  unfold Inv
  rw [diagStepWith_len_of_inv rule d s h, diagStepWith_cutoff]
  exact hr _ _

theorem setCutoff_len (c : Nat) (s : CSampler) : (setCutoff c s).len = growLen s.len c := by
  simp [setCutoff, len, growOcc_length]

theorem setCutoff_n (c : Nat) (s : CSampler) : (setCutoff c s).n = s.n := by
  simp [setCutoff, n, countOcc_growOcc]

theorem setCutoff_inv (c : Nat) (s : CSampler) (h : s.len ≤ c) : (setCutoff c s).Inv := by
  unfold Inv; rw [setCutoff_len, growLen_eq_max]; simp [setCutoff]; omega

theorem newIsing_inv (c : Nat) : (newIsing c).Inv := by
  unfold Inv newIsing len; simp [growOcc_length, growLen_eq_max]

theorem newGeneric_inv (nvars : Nat) : (newGeneric nvars).Inv := by
  unfold Inv newGeneric len; simp

theorem runWith_inv (rule : Nat → Nat → Nat) (hr : ∀ c n, c ≤ rule c n)
    (ds : List (Nat → Bool → Bool)) (s : CSampler) (h : s.Inv) : (runWith rule ds s).Inv := by
  induction ds generalizing s with
  | nil => exact h
  | cons d t ih => exact ih _ (diagStepWith_inv rule hr d s h)

theorem runWith_cutoff_mono (rule : Nat → Nat → Nat) (hr : ∀ c n, c ≤ rule c n)
    (ds : List (Nat → Bool → Bool)) (s : CSampler) : s.cutoff ≤ (runWith rule ds s).cutoff := by
  induction ds generalizing s with
  | nil => exact Nat.le_refl _
  | cons d t ih =>
    exact Nat.le_trans (by rw [diagStepWith_cutoff]; exact hr _ _) (ih (diagStepWith rule d s))

end CSampler

/-! ### `increase_cutoff_to` -/

theorem increaseCutoffTo_spec (c : Nat) (s : CSampler) :
    (CSampler.increaseCutoffTo c s).cutoff = max s.cutoff c ∧
    (CSampler.increaseCutoffTo c s).n = s.n ∧
    (CSampler.increaseCutoffTo c s).len = growLen s.len (max s.cutoff c) ∧
    (s.Inv → (CSampler.increaseCutoffTo c s).Inv) := by
  refine ⟨rfl, CSampler.setCutoff_n _ _, CSampler.setCutoff_len _ _, ?_⟩
  intro h
  apply CSampler.setCutoff_inv
  unfold CSampler.Inv at h; omega

/-! ### raw swap and conversion -/

theorem swapSamplers_spec (a b : CSampler) (ha : a.Inv) (hb : b.Inv) :
    (swapSamplers a b).1.cutoff = max a.cutoff b.cutoff ∧
    (swapSamplers a b).2.cutoff = max a.cutoff b.cutoff ∧
    (swapSamplers a b).1.n = b.n ∧ (swapSamplers a b).2.n = a.n ∧
    (swapSamplers a b).1.len = max a.cutoff b.cutoff ∧
    (swapSamplers a b).2.len = max a.cutoff b.cutoff ∧
    (swapSamplers a b).1.Inv ∧ (swapSamplers a b).2.Inv := by
  unfold CSampler.Inv at ha hb
  have l1 : (swapSamplers a b).1.len = max a.cutoff b.cutoff := by
    show (CSampler.setCutoff _ _).len = _
    rw [CSampler.setCutoff_len, growLen_eq_max]
    show max b.len _ = _
    omega
  have l2 : (swapSamplers a b).2.len = max a.cutoff b.cutoff := by
    show (CSampler.setCutoff _ _).len = _
    rw [CSampler.setCutoff_len, growLen_eq_max]
    show max a.len _ = _
    omega
  refine ⟨rfl, rfl, CSampler.setCutoff_n _ _, CSampler.setCutoff_n _ _, l1, l2, ?_, ?_⟩
  · unfold CSampler.Inv; rw [l1]; exact Nat.le_refl _
  · unfold CSampler.Inv; rw [l2]; exact Nat.le_refl _

theorem convertSampler_spec (nvars : Nat) (s : CSampler) :
    (convertSampler nvars s).cutoff = s.cutoff ∧ (convertSampler nvars s).n = s.n ∧
    (convertSampler nvars s).len = growLen s.len s.cutoff ∧
    (s.Inv → (convertSampler nvars s).Inv) := by
  refine ⟨rfl, CSampler.setCutoff_n _ _, CSampler.setCutoff_len _ _, ?_⟩
  intro h
  exact CSampler.setCutoff_inv _ _ h

theorem inv_n_le (s : CSampler) (h : s.Inv) : s.n ≤ s.cutoff :=
  Nat.le_trans (CSampler.n_le_len s) h

/-! ### maximum over replicas -/

theorem foldl_natMax_ge_init (cs : List Nat) (a : Nat) : a ≤ cs.foldl max a := by
  induction cs generalizing a with
  | nil => exact Nat.le_refl _
  | cons x t ih => exact Nat.le_trans (Nat.le_max_left a x) (ih (max a x))

theorem le_foldl_max (cs : List Nat) (a x : Nat) (hx : x ∈ cs) : x ≤ cs.foldl max a := by
  induction cs generalizing a with
  | nil => cases hx
  | cons y t ih =>
    cases hx with
    | head => exact Nat.le_trans (Nat.le_max_right a x) (foldl_natMax_ge_init t _)
    | tail _ h => exact ih (max a y) h

theorem le_maxCutoff (cs : List Nat) (x : Nat) (hx : x ∈ cs) : x ≤ maxCutoff cs :=
  le_foldl_max cs 0 x hx

theorem foldl_natMax_mem (cs : List Nat) (a : Nat) : cs.foldl max a = a ∨ cs.foldl max a ∈ cs := by
  induction cs generalizing a with
  | nil => exact Or.inl rfl
  | cons x t ih =>
    simp only [List.foldl_cons]
    cases ih (max a x) with
    | inl h =>
      rw [h]
      by_cases hax : a ≤ x
      · right; rw [Nat.max_eq_right hax]; exact List.mem_cons_self
      · left; exact Nat.max_eq_left (by omega)
    | inr h => right; exact List.mem_cons_of_mem _ h

end Qmc
