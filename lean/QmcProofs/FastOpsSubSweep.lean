/-
C11, sub-variable mutations: `mutate_p` depends on the cursor only through `last_p` and the entries
of the variables of the old and the new op (congruence), a Varlist cursor is advanced like the full
one, hence `mutate_subsection(pstart, pend, …, Some(varlist args))` refines the naive sweep as long
as the callback only changes ops inside the listed variables (the API's contract, enforced by the
first `debug_assert!` of `mutate_p`).
-/
import QmcProofs.FastOpsSubFill

namespace Qmc

theorem foldl_congr_mem {α β : Type} (f g : β → α → β) (l : List α) (b : β)
    (h : ∀ x, x ∈ l → ∀ b, f b x = g b x) : l.foldl f b = l.foldl g b := by
  induction l generalizing b with
  | nil => rfl
  | cons x t ih =>
    simp only [List.foldl_cons]
    rw [h x (by simp) b]
    exact ih _ (fun y hy => h y (by simp [hy]))

/-- two cursors that `mutate_p` cannot tell apart on the variables in `V` -/
structure CurAgree (V : List Nat) (a a' : Cursor) : Prop where
  hP : a.lastP = a'.lastP
  hrel : ∀ v, v ∈ V → a.lastPRel v = a'.lastPRel v
  hvar : ∀ v, v ∈ V → a.lastVar ((a.varToSubvar v).getD 0) = a'.lastVar ((a'.varToSubvar v).getD 0)

namespace FastOps

theorem uninstall_congr (c : FastOps) (nd : Node) (a a' : Cursor) (V : List Nat)
    (hV : ∀ v, v ∈ nd.op.vars → v ∈ V) (h : CurAgree V a a') : uninstall c nd a = uninstall c nd a' := by
  have hg : uninstallGlobal c nd a = uninstallGlobal c nd a' := by
    unfold uninstallGlobal; rw [h.hP]
  have hf : nd.op.vars.zipIdx.foldl (uninstallVar nd a) (uninstallGlobal c nd a')
      = nd.op.vars.zipIdx.foldl (uninstallVar nd a') (uninstallGlobal c nd a') := by
    apply foldl_congr_mem
    intro x hx b
    have hm : x.1 ∈ nd.op.vars := List.mem_of_getElem? (zipIdx_getElem? nd.op.vars x hx)
    simp only [uninstallVar, h.hrel x.1 (hV x.1 hm)]
  simp only [uninstall, hg, hf]

theorem install_congr (c : FastOps) (p : Nat) (op : Op) (a a' : Cursor) (V : List Nat)
    (hV : ∀ v, v ∈ op.vars → v ∈ V) (h : CurAgree V a a') : install c p op a = install c p op a' := by
  unfold install
  have hl : op.vars.map (installLinks c a) = op.vars.map (installLinks c a') := by
    apply List.map_congr_left
    intro v hv
    unfold installLinks
    simp only [h.hrel v (hV v hv), h.hvar v (hV v hv)]
  have hn : ∀ c2 : FastOps, installNextP c2 a = installNextP c2 a' := by
    intro c2; unfold installNextP; rw [h.hP]
  simp only [hl, installGlobal, h.hP, hn]

/-- `change` depends on the cursor only through `last_p` and the entries of the old/new op's variables -/
theorem change_congr (c : FastOps) (p : Nat) (new : Option Op) (a a' : Cursor) (V : List Nat)
    (hold : ∀ nd, c.getNode p = some nd → ∀ v, v ∈ nd.op.vars → v ∈ V)
    (hnew : ∀ o, new = some o → ∀ v, v ∈ o.vars → v ∈ V) (h : CurAgree V a a') :
    change c p new a = change c p new a' := by
  unfold change
  cases hn : new with
  | none =>
    cases ho : c.getNode p with
    | none => rfl
    | some nd =>
      simp only [Bool.false_eq_true, if_false]
      exact uninstall_congr _ nd a a' V (hold nd ho) h
  | some o =>
    cases ho : c.getNode p with
    | none =>
      simp only [Bool.false_eq_true, if_false]
      exact install_congr _ p o a a' V (hnew o hn) h
    | some nd =>
      simp only []
      split
      · rfl
      · rw [uninstall_congr _ nd a a' V (hold nd ho) h]
        exact install_congr _ p o a a' V (hnew o hn) h

end FastOps

/-! ### reads of a correct Varlist cursor -/

theorem SubCur.lastPRel_eq {a : Cursor} {vs : List Nat} {s : Slots} {p : Nat} (h : SubCur a vs s p)
    (hn : vs.Nodup) (v : Nat) (hv : v ∈ vs) : a.lastPRel v = prevRel s v p := by
  unfold Cursor.lastPRel
  rw [h.hm]
  simp only [hv, if_true, Option.getD_some, Cursor.lastVar, Cursor.lastRel, h.hv, h.hr,
    map_idxOf vs hn _ v hv, Option.join_some]
  cases prevRel s v p <;> rfl

theorem SubCur.lastVar_eq {a : Cursor} {vs : List Nat} {s : Slots} {p : Nat} (h : SubCur a vs s p)
    (hn : vs.Nodup) (v : Nat) (hv : v ∈ vs) :
    a.lastVar ((a.varToSubvar v).getD 0) = (prevRel s v p).map (·.p) := by
  rw [h.hm]
  simp only [hv, if_true, Option.getD_some, Cursor.lastVar, h.hv, map_idxOf vs hn _ v hv, Option.join_some]

theorem SubCur.agree {a : Cursor} {vs : List Nat} {s : Slots} {p : Nat} (h : SubCur a vs s p)
    (hn : vs.Nodup) (nv : Nat) (hlt : ∀ v ∈ vs, v < nv) (u : Nat) :
    CurAgree vs a (cursorByScan nv s p u) := by
  have hc := curOK_scan nv s p u
  constructor
  · rw [h.hP]; rfl
  · intro v hv; rw [h.lastPRel_eq hn v hv, hc.hrel v (hlt v hv)]
  · intro v hv; rw [h.lastVar_eq hn v hv, hc.hvar v (hlt v hv)]

theorem SubCur.set {a : Cursor} {vs : List Nat} {s : Slots} {p : Nat} (h : SubCur a vs s p)
    (x : Option Op) (hpL : p < s.length) : SubCur a vs (s.set p x) p := by
  constructor
  · rw [occ_set s p x hpL, prevOcc_upd_self]; exact h.hP
  · exact h.hm
  · rw [h.hv]; apply List.map_congr_left; intro v _; rw [prevRel_set_self s p x v hpL]
  · rw [h.hr]; apply List.map_congr_left; intro v _; rw [prevRel_set_self s p x v hpL]

namespace FastOps

/-- the `advance` loop on a Varlist cursor -/
theorem advance_sub (nv : Nat) (nb : Option Nat) (vs : List Nat) (hn : vs.Nodup) (s : Slots) (p : Nat)
    (hwf : WF nv nb s) (a : Cursor) (h : SubCur a vs s p) :
    SubCur (advance (canon nv nb s) p a) vs s (p + 1) := by
  unfold advance
  rw [← slotAt_abs, abs_canon]
  cases hsp : slotAt s p with
  | none =>
    simp only []
    have hoccf : occAt s p = false := occ_false_of_slotAt hsp
    have hvf : ∀ v, occVAt s v p = false := by intro v; unfold occVAt; rw [hsp]
    constructor
    · rw [prevOcc_succ, hoccf]; exact h.hP
    · exact h.hm
    · rw [h.hv]; apply List.map_congr_left; intro v _; rw [prevRel_succ, hvf]; rfl
    · rw [h.hr]; apply List.map_congr_left; intro v _; rw [prevRel_succ, hvf]; rfl
  | some op =>
    simp only []
    obtain ⟨_, hnodup, _, _⟩ := hwf p op hsp
    let I : List Nat → Cursor → Prop := fun D a' =>
      a'.lastP = a.lastP ∧ (∀ v, a'.varToSubvar v = a.varToSubvar v) ∧
      a'.lastVars = vs.map (fun v => if v ∈ D then some p else (prevRel s v p).map (·.p)) ∧
      a'.lastRels = vs.map (fun v => if v ∈ D then some (op.vars.idxOf v) else (prevRel s v p).map (·.relv))
    have hbase : I [] a := by
      refine ⟨rfl, fun _ => rfl, ?_, ?_⟩
      · rw [h.hv]; apply List.map_congr_left; intro v _; simp
      · rw [h.hr]; apply List.map_congr_left; intro v _; simp
    have hfold := fold_inv' I
      (fun (a : Cursor) (vr : Nat × Nat) =>
        match a.varToSubvar vr.1 with
        | some sub => { a with lastVars := a.lastVars.set sub (some p), lastRels := a.lastRels.set sub (some vr.2) }
        | none => a)
      (fun vr => vr.1) (fun vr => op.vars[vr.2]? = some vr.1)
      (by
        intro D a' x hx hD ⟨h1, h2, h3, h4⟩
        have hidx := idxOf_of_getElem? hnodup hx
        have hsub : a'.varToSubvar x.1 = if x.1 ∈ vs then some (vs.idxOf x.1) else none := by
          rw [h2, h.hm]
        simp only [hsub]
        by_cases hxv : x.1 ∈ vs
        · simp only [hxv, if_true]
          refine ⟨h1, fun v => by simpa [Cursor.varToSubvar] using h2 v, ?_, ?_⟩
          · simp only [h3]
            rw [map_set_nodup vs _ x.1 _ hxv hn]
            apply List.map_congr_left
            intro w _
            by_cases hw : w = x.1 <;> simp [hw]
          · simp only [h4]
            rw [map_set_nodup vs _ x.1 _ hxv hn]
            apply List.map_congr_left
            intro w _
            by_cases hw : w = x.1
            · subst hw; simp [hidx]
            · simp [hw]
        · simp only [hxv, if_false]
          refine ⟨h1, h2, ?_, ?_⟩
          · rw [h3]; apply List.map_congr_left; intro w hw
            have : ¬ w = x.1 := fun e => hxv (e ▸ hw)
            simp [this]
          · rw [h4]; apply List.map_congr_left; intro w hw
            have : ¬ w = x.1 := fun e => hxv (e ▸ hw)
            simp [this])
      op.vars.zipIdx [] a (zipIdx_getElem? op.vars)
      (by rw [List.zipIdx_map_fst]; exact hnodup) (by simp) hbase
    rw [List.zipIdx_map_fst, List.append_nil] at hfold
    generalize List.foldl _ a op.vars.zipIdx = a' at hfold
    obtain ⟨_, h2, h3, h4⟩ := hfold
    constructor
    · simp only [prevOcc_succ, occ_of_slotAt hsp, if_true]
    · intro v
      have := h2 v
      simp only [Cursor.varToSubvar] at this ⊢
      rw [this]
      have := h.hm v
      simpa [Cursor.varToSubvar] using this
    · show a'.lastVars = _
      rw [h3]
      apply List.map_congr_left
      intro v _
      rw [prevRel_succ]
      by_cases hv : v ∈ op.vars
      · simp [hv, occV_of_mem hsp hv, relAt]
      · simp [hv, occV_false_of_not_mem hsp hv]
    · show a'.lastRels = _
      rw [h4]
      apply List.map_congr_left
      intro v _
      rw [prevRel_succ]
      by_cases hv : v ∈ op.vars
      · simp [hv, occV_of_mem hsp hv, relAt, hsp]
      · simp [hv, occV_false_of_not_mem hsp hv]

end FastOps

namespace FastOps

/-- one `mutate_p` with a Varlist cursor -/
theorem mutatePWith_sub (nv : Nat) (nb : Option Nat) (vs : List Nat) (hn : vs.Nodup)
    (hlt : ∀ v ∈ vs, v < nv) (s : Slots) (p : Nat) (new : Option (Option Op)) (a : Cursor)
    (hpL : p < s.length) (hwf : WF nv nb s) (hnew : SubActOK nv nb vs (slotAt s p) new)
    (ha : SubCur a vs s p) :
    (mutatePWith (canon nv nb s) p new a).1 = canon nv nb (writeA s p new) ∧
    SubCur (mutatePWith (canon nv nb s) p new a).2 vs (writeA s p new) (p + 1) ∧
    WF nv nb (writeA s p new) := by
  unfold mutatePWith
  cases new with
  | none =>
    simp only [writeA]
    exact ⟨trivial, advance_sub nv nb vs hn s p hwf a ha, hwf⟩
  | some x =>
    simp only [writeA]
    obtain ⟨hold, hnewop⟩ := hnew x rfl
    have hok : ∀ o, x = some o → OpOK nv nb o := fun o ho => (hnewop o ho).1
    have hc : change (canon nv nb s) p x a = canon nv nb (s.set p x) := by
      rw [change_congr (canon nv nb s) p x a (cursorByScan nv s p 0) vs
        (by
          intro nd hnd v hv
          rw [getNode_canon] at hnd
          cases hsp : slotAt s p with
          | none => rw [hsp] at hnd; cases hnd
          | some op =>
            rw [hsp] at hnd
            simp only [Option.map_some, Option.some.injEq] at hnd
            subst hnd
            exact hold op hsp v hv)
        (fun o ho => (hnewop o ho).2) (ha.agree hn nv hlt 0)]
      exact change_canon nv nb s p x _ hpL hwf hok (curOK_scan nv s p 0)
    have hwf' := WF_set nv nb s p x hwf hok
    rw [hc]
    exact ⟨rfl, advance_sub nv nb vs hn (s.set p x) p hwf' a (ha.set x hpL), hwf'⟩

/-- `(pstart..pend).fold(mutate_p)` with a Varlist cursor: the callback only changes ops inside
the listed variables -/
theorem sweepLoop_sub {τ : Type} (nv : Nat) (nb : Option Nat) (vs : List Nat) (hn : vs.Nodup)
    (hlt : ∀ v ∈ vs, v < nv)
    (f : FastOps → Option Op → τ → Option (Option Op) × τ)
    (hf : ∀ c o t, SubActOK nv nb vs o (f c o t).1) :
    ∀ (k p : Nat) (s : Slots) (t : τ) (a : Cursor), WF nv nb s → p + k ≤ s.length → SubCur a vs s p →
      (sweepLoop f p k (canon nv nb s) a t).1 = canon nv nb (sweepLoopA nv nb f p k s t).1 ∧
      (sweepLoop f p k (canon nv nb s) a t).2.2 = (sweepLoopA nv nb f p k s t).2 ∧
      WF nv nb (sweepLoopA nv nb f p k s t).1 := by
  intro k
  induction k with
  | zero => intro p s t a h _ _; exact ⟨rfl, rfl, h⟩
  | succ k ih =>
    intro p s t a h hk ha
    simp only [sweepLoop, sweepLoopA, mutateP]
    rw [← slotAt_abs, abs_canon]
    obtain ⟨h1, h2, h3⟩ := mutatePWith_sub nv nb vs hn hlt s p (f (canon nv nb s) (slotAt s p) t).1 a
      (by omega) h (hf _ _ _) ha
    have := ih (p + 1) (writeA s p (f (canon nv nb s) (slotAt s p) t).1)
      (f (canon nv nb s) (slotAt s p) t).2 _ h3 (by rw [writeA_length]; omega) h2
    rw [h1]
    exact this

end FastOps
end Qmc
