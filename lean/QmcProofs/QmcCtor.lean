/-
Helper lemmas for QmcProps/C16Sampler.lean: the sampler-level constructors of QmcModel/QmcCtor.lean
in closed form (what an accepted / rejected call does), and the closed form of a whole sequence of
constructor calls.
-/
import QmcProofs.Interaction
import QmcModel.QmcCtor
import Mathlib.Algebra.BigOperators.Group.List.Basic

namespace Qmc.QmcCtor
open Qmc Qmc.Interaction

theorem outOfRange_false_iff (n : Nat) (vs : List Nat) :
    outOfRange n vs = false ↔ ∀ v ∈ vs, v < n := by
  simp [outOfRange, List.any_eq_false]

theorem outOfRange_true_iff (n : Nat) (vs : List Nat) :
    outOfRange n vs = true ↔ ∃ v ∈ vs, n ≤ v := by
  simp [outOfRange]

/-! ### `sym_under_ising` never panics on what the constructors return -/

theorem sym_ok_newResult (m : List Rat) (vs : List Nat) (h : m.length = 4 ^ vs.length) :
    ∃ b, (newResult m vs).symUnderIsing = .ok b := by
  have hlen : m.length = 2 ^ (2 * vs.length) := by rw [h, Nat.pow_mul]
  have hpos : 0 < m.length := by rw [hlen]; exact Nat.two_pow_pos _
  cases hcc : chainConst m with
  | true => exact ⟨true, by simp [Interaction.symUnderIsing, newResult, hcc]⟩
  | false =>
    refine ⟨decide (∀ idx, idx < m.length →
      absR ((m[idx]?).getD 0 - (m[m.length - 1 - idx]?).getD 0) < eps), ?_⟩
    simp only [Interaction.symUnderIsing, newResult, hcc]
    rw [← hlen]
    exact flipPairsOk_eq m (m.length - 1) m.length (le_refl _) (by omega)

theorem sym_ok_newDiagonalResult (m : List Rat) (vs : List Nat) (h : m.length = 2 ^ vs.length) :
    ∃ b, (newDiagonalResult m vs).symUnderIsing = .ok b := by
  have hpos : 0 < m.length := by rw [h]; exact Nat.two_pow_pos _
  cases hcc : chainConst m with
  | true => exact ⟨true, by simp [Interaction.symUnderIsing, newDiagonalResult, hcc]⟩
  | false =>
    refine ⟨decide (∀ idx, idx < m.length →
      absR ((m[idx]?).getD 0 - (m[m.length - 1 - idx]?).getD 0) < eps), ?_⟩
    simp only [Interaction.symUnderIsing, newDiagonalResult, hcc]
    rw [← h]
    exact flipPairsOk_eq m (m.length - 1) m.length (le_refl _) (by omega)

/-- what every standalone constructor guarantees about an interaction it returns -/
structure WF (I : Interaction) (vs : List Nat) : Prop where
  vars : I.vars = vs
  nodup : vs.Nodup
  ne : vs ≠ []
  sym : ∃ b, I.symUnderIsing = .ok b

theorem new_wf {m : List Rat} {vs : List Nat} {I : Interaction} (h : Interaction.new m vs = .ok I) :
    WF I vs := by
  rw [new_eq] at h
  split at h
  · rename_i hc
    injection h with h; subst h
    exact ⟨rfl, hc.2.1.2, hc.2.1.1, sym_ok_newResult m vs hc.2.2⟩
  · cases h

theorem newDiagonal_wf {m : List Rat} {vs : List Nat} {I : Interaction}
    (h : Interaction.newDiagonal m vs = .ok I) : WF I vs := by
  rw [newDiagonal_eq] at h
  split at h
  · rename_i hc
    injection h with h; subst h
    exact ⟨rfl, hc.2.1.2, hc.2.1.1, sym_ok_newDiagonalResult m vs hc.2.2⟩
  · cases h

theorem newOffset_cases (m : List Rat) (vs : List Nat) :
    Interaction.newOffset m vs = .err ∨
      ∃ d m', Interaction.newOffset m vs = (Interaction.new m' vs).map (fun i => (i, d)) := by
  have h := Qmc.newOffset_spec m vs
  by_cases hl : m.length = 4 ^ vs.length
  · obtain ⟨d, m', _, _, _, _, _, heq⟩ := h.2 hl
    exact Or.inr ⟨d, m', heq⟩
  · rcases h.1 hl with e | ⟨_, _, _, e⟩ <;> exact Or.inl e

theorem map_pair_ok {α : Type} {r : Res α} {d d' : Rat} {a : α}
    (h : r.map (fun i => (i, d)) = .ok (a, d')) : r = .ok a ∧ d' = d := by
  cases r with
  | ok x =>
    simp only [Res.map, Res.bind] at h
    injection h with h; injection h with h1 h2
    exact ⟨by rw [h1], h2.symm⟩
  | err => simp [Res.map, Res.bind] at h
  | panic => simp [Res.map, Res.bind] at h

theorem map_pair_ne_panic {α : Type} {r : Res α} {d : Rat} (h : r ≠ .panic) :
    r.map (fun i => (i, d)) ≠ .panic := by
  cases r <;> simp_all [Res.map, Res.bind]

theorem new_ne_panic (m : List Rat) (vs : List Nat) : Interaction.new m vs ≠ .panic := by
  rw [new_eq]; split <;> simp

theorem newDiagonal_ne_panic (m : List Rat) (vs : List Nat) : Interaction.newDiagonal m vs ≠ .panic := by
  rw [newDiagonal_eq]; split <;> simp

theorem newOffset_ne_panic (m : List Rat) (vs : List Nat) : Interaction.newOffset m vs ≠ .panic := by
  rcases newOffset_cases m vs with e | ⟨d, m', e⟩
  · rw [e]; simp
  · rw [e]; exact map_pair_ne_panic (new_ne_panic m' vs)

theorem newDiagonalOffset_ne_panic (m : List Rat) (vs : List Nat) :
    Interaction.newDiagonalOffset m vs ≠ .panic := by
  rw [newDiagonalOffset_eq]; split <;> simp

theorem newOffset_wf {m : List Rat} {vs : List Nat} {I : Interaction} {d : Rat}
    (h : Interaction.newOffset m vs = .ok (I, d)) : WF I vs := by
  rcases newOffset_cases m vs with e | ⟨d', m', e⟩
  · rw [e] at h; cases h
  · rw [e] at h; exact new_wf (map_pair_ok h).1

theorem newDiagonalOffset_wf {m : List Rat} {vs : List Nat} {I : Interaction} {d : Rat}
    (h : Interaction.newDiagonalOffset m vs = .ok (I, d)) : WF I vs := by
  rw [newDiagonalOffset_eq] at h
  split at h
  · rename_i hc
    injection h with h; injection h with h1 h2; subst h1
    exact ⟨rfl, hc.1.2, hc.1.1, sym_ok_newDiagonalResult _ vs (by simpa using hc.2)⟩
  · cases h

theorem standalone_wf {k : Kind} {m : List Rat} {vs : List Nat} {I : Interaction} {d : Rat}
    (h : standalone k m vs = .ok (I, d)) : WF I vs := by
  cases k with
  | new => exact new_wf (map_pair_ok h).1
  | newOff => exact newOffset_wf h
  | diag => exact newDiagonal_wf (map_pair_ok h).1
  | diagOff => exact newDiagonalOffset_wf h

theorem standalone_ne_panic (k : Kind) (m : List Rat) (vs : List Nat) : standalone k m vs ≠ .panic := by
  cases k with
  | new => exact map_pair_ne_panic (new_ne_panic m vs)
  | newOff => exact newOffset_ne_panic m vs
  | diag => exact map_pair_ne_panic (newDiagonal_ne_panic m vs)
  | diagOff => exact newDiagonalOffset_ne_panic m vs

theorem standalone_offset_zero {k : Kind} {m : List Rat} {vs : List Nat} {I : Interaction} {d : Rat}
    (hk : k = .new ∨ k = .diag) (h : standalone k m vs = .ok (I, d)) : d = 0 := by
  rcases hk with rfl | rfl
  · exact (map_pair_ok h).2
  · exact (map_pair_ok h).2

/-! ### one call in closed form -/

/-- the state after an interaction `I` (Ising-symmetric iff `sym`) reporting the offset `d` has been
accepted -/
def accepted (I : Interaction) (sym : Bool) (d : Rat) (s : State) : State :=
  { s with
    bonds := s.bonds ++ [I]
    offset := s.offset - d
    hasClusterEdges := s.hasClusterEdges || isValidClusterEdge I.isConstant I.vars.length
    breaksIsing := s.breaksIsing || !sym
    nonConstDiags := if I.isConstantDiag then s.nonConstDiags else s.nonConstDiags ++ [s.bonds.length]
    bondWeights := none }

theorem State.ext' {a b : State} (h1 : a.nvars = b.nvars) (h2 : a.bonds = b.bonds) (h3 : a.offset = b.offset)
    (h4 : a.hasClusterEdges = b.hasClusterEdges) (h5 : a.breaksIsing = b.breaksIsing)
    (h6 : a.nonConstDiags = b.nonConstDiags) (h7 : a.bondWeights = b.bondWeights)
    (h8 : a.doHeatbath = b.doHeatbath) (h9 : a.doLoopUpdates = b.doLoopUpdates) : a = b := by
  cases a; cases b; simp_all

theorem addCore_eq (s : State) (I : Interaction) (sym : Bool) (h : I.symUnderIsing = .ok sym) :
    addCore s I = (.ok (), accepted I sym 0 s) := by
  unfold addCore
  rw [h]
  simp only [Prod.mk.injEq, true_and]
  apply State.ext' <;>
    cases hv : isValidClusterEdge I.isConstant I.vars.length <;> cases sym <;>
      cases hd : I.isConstantDiag <;> simp [accepted, hv, hd]

theorem addInteraction_in (s : State) (I : Interaction) (sym : Bool) (h : I.symUnderIsing = .ok sym)
    (hr : outOfRange s.nvars I.vars = false) : addInteraction s I = (.ok (), accepted I sym 0 s) := by
  unfold addInteraction; rw [hr]; exact addCore_eq s I sym h

theorem addInteraction_out (s : State) (I : Interaction) (hr : outOfRange s.nvars I.vars = true) :
    addInteraction s I = (.err, s) := by
  unfold addInteraction; rw [hr]; rfl

theorem accepted_offset (I : Interaction) (sym : Bool) (d : Rat) (s : State) :
    { accepted I sym 0 s with offset := (accepted I sym 0 s).offset - d } = accepted I sym d s := by
  apply State.ext' <;> simp [accepted]

theorem make_of_err {k : Kind} {m : List Rat} {vs : List Nat} (s : State)
    (h : standalone k m vs = .err) : make k s m vs = (.err, s) := by
  cases k <;> simp only [standalone] at h <;>
    simp only [make, makeInteraction, makeInteractionAndOffset, makeDiagonalInteraction,
      makeDiagonalInteractionAndOffset]
  · cases hn : Interaction.new m vs <;> simp_all [Res.map, Res.bind]
  · rw [h]
  · cases hn : Interaction.newDiagonal m vs <;> simp_all [Res.map, Res.bind]
  · rw [h]

theorem make_of_ok_out {k : Kind} {m : List Rat} {vs : List Nat} {I : Interaction} {d : Rat} (s : State)
    (h : standalone k m vs = .ok (I, d)) (hr : outOfRange s.nvars vs = true) :
    make k s m vs = (.err, s) := by
  have hw := standalone_wf h
  have hr' : outOfRange s.nvars I.vars = true := by rw [hw.vars]; exact hr
  cases k <;> simp only [standalone] at h <;>
    simp only [make, makeInteraction, makeInteractionAndOffset, makeDiagonalInteraction,
      makeDiagonalInteractionAndOffset]
  · rw [(map_pair_ok h).1]; exact addInteraction_out s I hr'
  · rw [h]; simp only [addInteraction_out s I hr']
  · rw [(map_pair_ok h).1]; exact addInteraction_out s I hr'
  · rw [h]; simp only [addInteraction_out s I hr']

theorem make_of_ok_in {k : Kind} {m : List Rat} {vs : List Nat} {I : Interaction} {d : Rat} (s : State)
    (h : standalone k m vs = .ok (I, d)) (hr : outOfRange s.nvars vs = false) :
    ∃ sym, I.symUnderIsing = .ok sym ∧ make k s m vs = (.ok (), accepted I sym d s) := by
  have hw := standalone_wf h
  obtain ⟨sym, hsym⟩ := hw.sym
  have hr' : outOfRange s.nvars I.vars = false := by rw [hw.vars]; exact hr
  refine ⟨sym, hsym, ?_⟩
  cases k <;> simp only [standalone] at h <;>
    simp only [make, makeInteraction, makeInteractionAndOffset, makeDiagonalInteraction,
      makeDiagonalInteractionAndOffset]
  · rw [(map_pair_ok h).1, (map_pair_ok h).2]; exact addInteraction_in s I sym hsym hr'
  · rw [h]; simp only [addInteraction_in s I sym hsym hr', accepted_offset]
  · rw [(map_pair_ok h).1, (map_pair_ok h).2]; exact addInteraction_in s I sym hsym hr'
  · rw [h]; simp only [addInteraction_in s I sym hsym hr', accepted_offset]

/-! ### a whole sequence of calls in closed form -/

/-- `!interaction.sym_under_ising()` (a panic — which no constructed interaction produces — counts as
"breaks") -/
def breaks (I : Interaction) : Bool :=
  match I.symUnderIsing with
  | .ok true => false
  | _ => true

/-- `is_valid_cluster_edge(interaction.is_constant(), interaction.vars.len())` -/
def isEdge (I : Interaction) : Bool := isValidClusterEdge I.isConstant I.vars.length

/-- what a call contributes to a sampler with `n` variables: the interaction it registers and the
offset it reports, or nothing when it is rejected -/
def contribution (n : Nat) (c : Call) : Option (Interaction × Rat) :=
  match standalone c.kind c.mat c.vars with
  | .ok (I, d) => if outOfRange n c.vars then none else some (I, d)
  | _ => none

def apply1 (s : State) (p : Interaction × Rat) : State := accepted p.1 (!breaks p.1) p.2 s

theorem make_snd (s : State) (c : Call) :
    (make c.kind s c.mat c.vars).2 =
      match contribution s.nvars c with
      | some p => apply1 s p
      | none => s := by
  unfold contribution
  cases hst : standalone c.kind c.mat c.vars with
  | ok r =>
    obtain ⟨I, d⟩ := r
    cases hr : outOfRange s.nvars c.vars with
    | true => simp [make_of_ok_out s hst hr]
    | false =>
      obtain ⟨sym, hsym, hm⟩ := make_of_ok_in s hst hr
      have : (!breaks I) = sym := by unfold breaks; rw [hsym]; cases sym <;> rfl
      simp [hm, apply1, this]
  | err => simp [make_of_err s hst]
  | panic => exact absurd hst (standalone_ne_panic _ _ _)

theorem apply1_nvars (s : State) (p : Interaction × Rat) : (apply1 s p).nvars = s.nvars := rfl

theorem foldl_apply1_nvars (ps : List (Interaction × Rat)) (s : State) :
    (ps.foldl apply1 s).nvars = s.nvars := by
  induction ps generalizing s with
  | nil => rfl
  | cons p t ih => rw [List.foldl_cons, ih, apply1_nvars]

theorem runCalls_eq (cs : List Call) (s : State) :
    runCalls s cs = (cs.filterMap (contribution s.nvars)).foldl apply1 s := by
  unfold runCalls
  induction cs generalizing s with
  | nil => rfl
  | cons c t ih =>
    rw [List.foldl_cons, ih, make_snd]
    cases hc : contribution s.nvars c with
    | none => simp [hc]
    | some p => simp [hc, apply1_nvars]

/-- the `non_const_diags` entries pushed while registering the interactions `l` from bond index `base` on -/
def ncdOf (base : Nat) : List Interaction → List Nat
  | [] => []
  | I :: t => (if I.isConstantDiag then [] else [base]) ++ ncdOf (base + 1) t

theorem foldl_apply1_closed (ps : List (Interaction × Rat)) (s : State) :
    (ps.foldl apply1 s).bonds = s.bonds ++ ps.map (·.1) ∧
    (ps.foldl apply1 s).offset = s.offset - (ps.map (·.2)).sum ∧
    (ps.foldl apply1 s).hasClusterEdges = (s.hasClusterEdges || ps.any (fun p => isEdge p.1)) ∧
    (ps.foldl apply1 s).breaksIsing = (s.breaksIsing || ps.any (fun p => breaks p.1)) ∧
    (ps.foldl apply1 s).nonConstDiags = s.nonConstDiags ++ ncdOf s.bonds.length (ps.map (·.1)) ∧
    (ps.foldl apply1 s).bondWeights = (if ps.isEmpty then s.bondWeights else none) := by
  induction ps generalizing s with
  | nil => simp [ncdOf]
  | cons p t ih =>
    rw [List.foldl_cons]
    obtain ⟨h1, h2, h3, h4, h5, h6⟩ := ih (apply1 s p)
    refine ⟨?_, ?_, ?_, ?_, ?_, ?_⟩
    · rw [h1]; simp [apply1, accepted]
    · rw [h2]; simp only [apply1, accepted, List.map_cons, List.sum_cons]; ring
    · rw [h3]; simp [apply1, accepted, isEdge, Bool.or_assoc]
    · rw [h4]; simp [apply1, accepted, Bool.or_assoc]
    · rw [h5]
      cases hd : p.1.isConstantDiag <;> simp [apply1, accepted, ncdOf, hd]
    · rw [h6]; cases t <;> simp [apply1, accepted]

theorem mem_ncdOf (l : List Interaction) (base i : Nat) :
    i ∈ ncdOf base l ↔ ∃ j I, i = base + j ∧ l[j]? = some I ∧ I.isConstantDiag = false := by
  induction l generalizing base with
  | nil => simp [ncdOf]
  | cons a t ih =>
    simp only [ncdOf, List.mem_append, ih]
    constructor
    · rintro (h | ⟨j, I, rfl, hj, hI⟩)
      · cases hd : a.isConstantDiag with
        | true => simp [hd] at h
        | false =>
          simp [hd] at h
          exact ⟨0, a, by omega, by simp, hd⟩
      · exact ⟨j + 1, I, by omega, by simpa using hj, hI⟩
    · rintro ⟨j, I, rfl, hj, hI⟩
      cases j with
      | zero =>
        left
        simp at hj; subst hj
        simp [hI]
      | succ j =>
        right
        exact ⟨j, I, by omega, by simpa using hj, hI⟩

theorem ncdOf_ge (l : List Interaction) (base i : Nat) (h : i ∈ ncdOf base l) : base ≤ i := by
  obtain ⟨j, _, rfl, _, _⟩ := (mem_ncdOf l base i).mp h; omega

theorem ncdOf_sorted (l : List Interaction) (base : Nat) : (ncdOf base l).Pairwise (· < ·) := by
  induction l generalizing base with
  | nil => simp [ncdOf]
  | cons a t ih =>
    simp only [ncdOf]
    rw [List.pairwise_append]
    refine ⟨?_, ih _, ?_⟩
    · split <;> simp
    · intro x hx y hy
      have := ncdOf_ge t (base + 1) y hy
      split at hx
      · simp at hx
      · simp at hx; omega

theorem ncdOf_length (l : List Interaction) (base : Nat) :
    (ncdOf base l).length = l.countP (fun I => !I.isConstantDiag) := by
  induction l generalizing base with
  | nil => rfl
  | cons a t ih =>
    simp only [ncdOf, List.length_append, ih, List.countP_cons]
    cases a.isConstantDiag <;> simp; omega

theorem ncdOf_length_perm (l l' : List Interaction) (h : l.Perm l') :
    (ncdOf 0 l).length = (ncdOf 0 l').length := by
  rw [ncdOf_length, ncdOf_length, h.countP_eq]

end Qmc.QmcCtor
