/-
C09 helper lemmas about the draws of the cluster update (one `gen_bool` per cluster) and the tag rule.
-/
import QmcModel.Cluster
import Mathlib.Tactic.NormNum
import Mathlib.Algebra.Order.Field.Rat
import Mathlib.Algebra.Order.Floor.Ring

namespace Qmc

theorem noteMargin_fields (s : RS) (m : Rat) :
    (s.noteMargin m).script = s.script ∧ (s.noteMargin m).draws = s.draws ∧
    (s.noteMargin m).short = s.short ∧ (s.noteMargin m).panicked = s.panicked := by
  unfold RS.noteMargin
  dsimp only
  split <;> split <;> exact ⟨rfl, rfl, rfl, rfl⟩

/-- `gen_bool(p)` for a regular `p` (not 1, inside [0,1]) and a non-empty script: one word is
consumed and the answer is `word < ⌊p·2^64⌋`. -/
theorem genBool_cons (s : RS) (w : Nat) (t : List Nat) (p : Rat) (hs : s.script = w :: t)
    (h1 : p ≠ 1) (h01 : ¬ (p < 0 ∨ 1 < p)) :
    (s.genBool p).1 = decide (((w % RS.two64 : Nat) : Int) < (p * (RS.two64 : Rat)).floor) ∧
    (s.genBool p).2.script = t ∧ (s.genBool p).2.draws = s.draws + 1 ∧
    (s.genBool p).2.short = s.short ∧ (s.genBool p).2.panicked = s.panicked := by
  simp only [RS.genBool, if_neg h1, if_neg h01, RS.next, hs]
  obtain ⟨a, b, c, d⟩ := noteMargin_fields
    { script := t, margin := s.margin, short := s.short, panicked := s.panicked, draws := s.draws + 1 }
    (((w % RS.two64 : Nat) : Rat) / (RS.two64 : Rat) - p)
  exact ⟨trivial, a, b, c, d⟩

/-- the flips of `clusterFlips` as a function of the words: the i-th cluster is flipped iff the i-th
word is below `⌊c_i·prob·2^64⌋`; exactly one word per cluster is consumed; no other word matters. -/
theorem clusterFlips_spec_aux (prob : Rat) : ∀ (cs : List Rat) (ws rest : List Nat) (s : RS),
    s.script = ws ++ rest → ws.length = cs.length →
    (∀ c ∈ cs, c * prob ≠ 1 ∧ ¬ (c * prob < 0 ∨ 1 < c * prob)) →
    (clusterFlips prob cs s).1 =
      List.zipWith (fun c w => decide (((w % RS.two64 : Nat) : Int) < (c * prob * (RS.two64 : Rat)).floor)) cs ws ∧
    (clusterFlips prob cs s).2.script = rest ∧
    (clusterFlips prob cs s).2.draws = s.draws + cs.length ∧
    (clusterFlips prob cs s).2.short = s.short ∧ (clusterFlips prob cs s).2.panicked = s.panicked
  | [], ws, rest, s, hs, hl, _ => by
    have : ws = [] := List.length_eq_zero_iff.mp hl
    subst this
    simp [clusterFlips, hs]
  | c :: cs, [], rest, s, hs, hl, _ => by simp at hl
  | c :: cs, w :: ws, rest, s, hs, hl, hc => by
    obtain ⟨h1, h01⟩ := hc c (by simp)
    obtain ⟨g1, g2, g3, g4, g5⟩ := genBool_cons s w (ws ++ rest) (c * prob) (by simpa using hs) h1 h01
    obtain ⟨i1, i2, i3, i4, i5⟩ := clusterFlips_spec_aux prob cs ws rest (s.genBool (c * prob)).2 g2
      (by simpa using hl) (fun c' hc' => hc c' (by simp [hc']))
    simp only [clusterFlips, List.zipWith_cons_cons, List.length_cons]
    refine ⟨by rw [g1, i1], i2, by rw [i3, g3]; omega, by rw [i4, g4], by rw [i5, g5]⟩

theorem half_regular : (1 : Rat) * (1 / 2) ≠ 1 ∧ ¬ ((1 : Rat) * (1 / 2) < 0 ∨ 1 < (1 : Rat) * (1 / 2)) := by
  constructor <;> norm_num

theorem zero_regular (prob : Rat) : (0 : Rat) * prob ≠ 1 ∧ ¬ ((0 : Rat) * prob < 0 ∨ 1 < (0 : Rat) * prob) := by
  constructor <;> norm_num

theorem half_threshold : ((1 : Rat) * (1 / 2) * (RS.two64 : Rat)).floor = 2 ^ 63 := by
  have : ((1 : Rat) * (1 / 2) * (RS.two64 : Rat)) = ((2 ^ 63 : Int) : Rat) := by
    simp only [RS.two64]; norm_num
  rw [this, Rat.floor_intCast]

theorem zero_threshold (prob : Rat) : ((0 : Rat) * prob * (RS.two64 : Rat)).floor = 0 := by
  have : ((0 : Rat) * prob * (RS.two64 : Rat)) = ((0 : Int) : Rat) := by simp
  rw [this, Rat.floor_intCast]

end Qmc
