/-
The named hypothesis `TravOK` of the Law theorems (QmcProofs/LawCluster.lean) on the transliterated
traversal `traverse` (QmcModel/ClusterExact.lean).

* QmcProofs/ClusterTraverse.lean proves the traversal algorithm itself correct for ANY navigation
  tables satisfying `NavSpec` (link partner = involution on valid legs, cluster edges have one variable,
  ops have a variable, leg count bounded): every expansion labels a partner- and star-closed set, never
  meets a foreign label, the fuel `4·(nlegs+8)²` always suffices (`expandLoop_ok`, `travLoop_ok`).
* Here: `travOK_of_navGraphOK` — `TravOK (skeleton s)` follows from a STATIC property of the tables
  `mkNav (skeleton s)` alone (`NavGraphOK`: `NavSpec` + every edge of `legGraph` is an inner edge of a
  non-edge op or joins a leg to its link partner + the leg id of an op side is where `legGraph` puts it).
-/
import QmcProofs.LawCluster
import QmcProofs.ClusterTraverse
import QmcProofs.ClusterNav

namespace Qmc.Law
open Qmc

/-- what is needed of the tables `mkNav sk` (no traversal involved) -/
structure NavGraphOK (sk : Skel) : Prop where
  spec : NavSpec (mkNav sk)
  size : (mkNav sk).ops.size = sk.length
  edgeAt : ∀ p o, sk[p]? = some (some o) → (mkNav sk).isEdgeAt p = o.isEdge
  legOf : ∃ legOf : Nat → TLeg,
    (∀ e ∈ (legGraph sk).edges,
      ((legOf e.1).1 = (legOf e.2).1 ∧ (mkNav sk).isEdgeAt (legOf e.1).1 = false ∧
        (legOf e.1).1 < (mkNav sk).ops.size ∧ 0 < (mkNav sk).nvAt (legOf e.1).1) ∨
      ((mkNav sk).ValidLeg (legOf e.1) ∧ legOf e.2 = (mkNav sk).partner (legOf e.1))) ∧
    (∀ q : Nat × Bool, q.1 < (mkNav sk).ops.size → 0 < (mkNav sk).nvAt q.1 →
      (mkNav sk).sideLeg q < (legGraph sk).nlegs ∧ (legOf ((mkNav sk).sideLeg q)).side = q)

theorem unl_le_nlegs {nav : Nav} (hN : NavSpec nav) (t : Trav) : unl nav t ≤ 5 * nav.nlegs := by
  have h1 : unl nav t ≤ ∑ p ∈ Finset.range nav.ops.size, 5 * (2 * nav.nvAt p) := by
    unfold unl
    refine Finset.sum_le_sum (fun p _ => ?_)
    unfold unlAt
    split <;> split <;> omega
  rw [← Finset.mul_sum] at h1
  have := hN.legsBound
  omega

theorem fuel_bound (n : Nat) : 6 * n + 10 ≤ 4 * (n + 8) * (n + 8) := by
  have : 4 * (n + 8) * 8 ≤ 4 * (n + 8) * (n + 8) := Nat.mul_le_mul_left _ (by omega)
  omega

theorem getElem!_replicate_none (n i : Nat) : (Array.replicate n (none : Option Nat))[i]! = none := by
  simp only [Array.getElem!_eq_getD, Array.getD_eq_getD_getElem?, Array.getElem?_replicate]
  split <;> rfl

theorem findConstantOp_some (sk : Skel) (cp : Nat) (h : findConstantOp sk = some cp) :
    cp < sk.length ∧ ∃ o, sk[cp]? = some (some o) ∧ o.isEdge = true := by
  unfold findConstantOp at h
  have h1 := List.find?_some h
  have h2 := List.mem_range.mp (List.mem_of_find?_eq_some h)
  refine ⟨h2, ?_⟩
  cases hsk : sk[cp]? with
  | none => rw [hsk] at h1; simp at h1
  | some x =>
    cases x with
    | none => rw [hsk] at h1; simp at h1
    | some o => rw [hsk] at h1; exact ⟨o, rfl, by simpa using h1⟩

/-- the start state of `traverse` -/
def trav0 (n cp : Nat) : Trav :=
  { bin := Array.replicate n none, bout := Array.replicate n none, frontier := [(cp, false), (cp, true)] }

/-- the traversal of a skeleton whose tables are `NavGraphOK` ends in a state satisfying the invariant -/
theorem traverse_outInv (sk : Skel) (h : NavGraphOK sk) (cp : Nat) (hcp : findConstantOp sk = some cp) :
    OutInv (mkNav sk) (travLoop (mkNav sk) (4 * ((mkNav sk).nlegs + 8) * ((mkNav sk).nlegs + 8))
      (4 * ((mkNav sk).nlegs + 8) * ((mkNav sk).nlegs + 8))
      (trav0 (mkNav sk).ops.size cp)) ∧
    HalfOK (mkNav sk) (travLoop (mkNav sk) (4 * ((mkNav sk).nlegs + 8) * ((mkNav sk).nlegs + 8))
      (4 * ((mkNav sk).nlegs + 8) * ((mkNav sk).nlegs + 8))
      (trav0 (mkNav sk).ops.size cp)) (fun _ => False) ∧
    (travLoop (mkNav sk) (4 * ((mkNav sk).nlegs + 8) * ((mkNav sk).nlegs + 8))
      (4 * ((mkNav sk).nlegs + 8) * ((mkNav sk).nlegs + 8))
      (trav0 (mkNav sk).ops.size cp)).frontier = [] ∧
    (travLoop (mkNav sk) (4 * ((mkNav sk).nlegs + 8) * ((mkNav sk).nlegs + 8))
      (4 * ((mkNav sk).nlegs + 8) * ((mkNav sk).nlegs + 8))
      (trav0 (mkNav sk).ops.size cp)).unmapped (mkNav sk) = none := by
  obtain ⟨hlt, o, ho, hoe⟩ := findConstantOp_some sk cp hcp
  have hN := h.spec
  have hp : cp < (mkNav sk).ops.size := by rw [h.size]; exact hlt
  have hed : (mkNav sk).isEdgeAt cp = true := by rw [h.edgeAt cp o ho]; exact hoe
  have hnv : 0 < (mkNav sk).nvAt cp := by rw [hN.edge1 cp hed]; exact Nat.one_pos
  generalize hnav : mkNav sk = nav at *
  have hlab0 : ∀ q, (trav0 nav.ops.size cp).lab q = none := by
    intro q
    unfold Trav.lab trav0
    split <;> exact getElem!_replicate_none _ _
  have hu0 : OutInv nav (trav0 nav.ops.size cp) := by
    refine ⟨by simp [trav0], by simp [trav0], rfl, ?_, ?_, ?_, ?_⟩
    · intro q c' hq; rw [hlab0] at hq; cases hq
    · intro x _ c' hq; rw [hlab0] at hq; cases hq
    · intro p _ _ _; rw [hlab0, hlab0]
    · intro i hi; simp [trav0] at hi
  have hF := fuel_bound nav.nlegs
  obtain ⟨F, hFeq⟩ : ∃ F, 4 * (nav.nlegs + 8) * (nav.nlegs + 8) = F + 1 := ⟨4 * (nav.nlegs + 8) * (nav.nlegs + 8) - 1, by omega⟩
  have hef : 2 * nav.nlegs + 1 ≤ 4 * (nav.nlegs + 8) * (nav.nlegs + 8) := by omega
  rw [show travLoop nav (4 * (nav.nlegs + 8) * (nav.nlegs + 8)) (4 * (nav.nlegs + 8) * (nav.nlegs + 8)) =
    travLoop nav (4 * (nav.nlegs + 8) * (nav.nlegs + 8)) (F + 1) by rw [hFeq]]
  have hH0 : HalfOK nav (trav0 nav.ops.size cp) (fun _ => False) := by
    intro q s' _ _ hsome _
    rw [hlab0] at hsome; cases hsome
  obtain ⟨t'', heq, hu'', hG'', hH'', hm⟩ := travLoop_pop hN _ hef F _ hu0 cp false [(cp, true)] rfl hp hnv
    (fun _ => hlab0 _) (fun hb => by rw [hlab0] at hb; simp at hb) (fun e he => Or.inr (by simpa using he)) hH0
    (fun _ => by simp)
  rw [heq]
  refine travLoop_ok hN _ hef F t'' hu'' hG'' hH'' ?_
  have hpsi0 : Psi nav (trav0 nav.ops.size cp) ≤ 2 + nav.nlegs + 5 * nav.nlegs := by
    unfold Psi
    have := pend_le_nlegs hN (trav0 nav.ops.size cp)
    have := unl_le_nlegs hN (trav0 nav.ops.size cp)
    simp only [trav0, List.length_cons, List.length_nil] at *; omega
  rcases hm with h' | h'
  · rw [hlab0] at h'; simp at h'
  · omega

/-- **`TravOK` from the static property of the tables** -/
theorem travOK_of_navGraphOK (s : Slots) (hn : NodupVars s) (h : NavGraphOK (skeleton s)) : TravOK (skeleton s) := by
  by_cases h0 : (skCount (skeleton s) == 0) = true
  · constructor <;> simp [traverse, h0]
  · cases hcp : findConstantOp (skeleton s) with
    | none => constructor <;> simp [traverse, h0, hcp]
    | some cp =>
      have hout := (traverse_outInv (skeleton s) h cp hcp).1
      have htr : (traverse (skeleton s)).bad = (travLoop (mkNav (skeleton s))
            (4 * ((mkNav (skeleton s)).nlegs + 8) * ((mkNav (skeleton s)).nlegs + 8))
            (4 * ((mkNav (skeleton s)).nlegs + 8) * ((mkNav (skeleton s)).nlegs + 8))
            (trav0 (mkNav (skeleton s)).ops.size cp)).bad ∧
          (traverse (skeleton s)).reps = (travLoop (mkNav (skeleton s))
            (4 * ((mkNav (skeleton s)).nlegs + 8) * ((mkNav (skeleton s)).nlegs + 8))
            (4 * ((mkNav (skeleton s)).nlegs + 8) * ((mkNav (skeleton s)).nlegs + 8))
            (trav0 (mkNav (skeleton s)).ops.size cp)).reps.toList := by
        simp [traverse, h0, hcp, trav0]
      generalize (travLoop (mkNav (skeleton s)) _ _ _) = r at hout htr
      refine ⟨by rw [htr.1]; exact hout.notBad, ?_⟩
      rw [htr.2]
      obtain ⟨legOf, hedges, hside⟩ := h.legOf
      -- the label of a leg id is constant on the components of the leg graph
      have hconst : ∀ e ∈ (legGraph (skeleton s)).edges, r.lab (legOf e.1).side = r.lab (legOf e.2).side := by
        intro e he
        rcases hedges e he with ⟨h1, h2, h3, h4⟩ | ⟨h1, h2⟩
        · have hst := hout.star _ h3 h4 h2
          rw [TLeg.side_eq, TLeg.side_eq, ← h1]
          cases (legOf e.1).2.2 <;> cases (legOf e.2).2.2 <;> first | rfl | exact hst | exact hst.symm
        · rw [h2]
          cases hl : r.lab (legOf e.1).side with
          | some c' => exact (hout.closed _ h1 c' hl).symm
          | none =>
            cases hl2 : r.lab ((mkNav (skeleton s)).partner (legOf e.1)).side with
            | none => rfl
            | some c' =>
              have := hout.closed _ (h.spec.valid _ h1) c' hl2
              rw [h.spec.invol _ h1, hl] at this
              cases this
      rw [List.nodup_iff_injective_getElem]
      intro i j hij
      simp only [List.getElem_map, Array.getElem_toList] at hij
      have hi : i.1 < r.reps.size := by have := i.2; simpa using this
      have hj : j.1 < r.reps.size := by have := j.2; simpa using this
      obtain ⟨qi, a1, a2, a3, a4, -⟩ := hout.repsOK i.1 hi
      obtain ⟨qj, b1, b2, b3, b4, -⟩ := hout.repsOK j.1 hj
      have ei : r.reps[i.1]'hi = (mkNav (skeleton s)).sideLeg qi := by
        rw [← a3]; simp [Array.getElem!_eq_getD, Array.getD_eq_getD_getElem?, hi]
      have ej : r.reps[j.1]'hj = (mkNav (skeleton s)).sideLeg qj := by
        rw [← b3]; simp [Array.getElem!_eq_getD, Array.getD_eq_getD_getElem?, hj]
      rw [ei, ej] at hij
      obtain ⟨c1, c2⟩ := hside qi a1 a2
      obtain ⟨d1, d2⟩ := hside qj b1 b2
      have hconn := (compLab_eq_iff s hn c1 d1).mp hij
      have := Conn.const (fun id => r.lab (legOf id).side) hconst hconn
      simp only [c2, d2, a4, b4, Option.some.injEq] at this
      exact Fin.ext this

/-! ### the tables of every well-formed skeleton are `NavGraphOK` -/

theorem mkNav_isEdgeAt (sk : Skel) (p : Nat) : (mkNav sk).isEdgeAt p = edgeAtSk sk p := by
  rw [mkNav_eq]; rfl

theorem mkNav_off (sk : Skel) (hnd : SkNodup sk) (p : Nat) (hp : p < sk.length) : (mkNav sk).off[p]! = offOf sk p := by
  have := (navMain_inv sk hnd sk.length (Nat.le_refl _)).2.2.2 p hp
  rw [mkNav_eq]; exact this

theorem navGraphOK (sk : Skel) (hnd : SkNodup sk) (hpos : SkPos sk) : NavGraphOK sk := by
  have hspec := mkNav_navSpec sk hnd hpos
  refine ⟨hspec, mkNav_size sk, ?_, legOfId sk, ?_, ?_⟩
  · intro p o ho
    rw [mkNav_isEdgeAt]
    simp only [edgeAtSk, toArray_getElem! sk p _ ho]
  · intro e he
    rcases legGraph_edges_nav sk hnd e he with ⟨P, j, hP, hed, hnv, hj, rfl⟩ | ⟨a, ha, rfl⟩
    · left
      have h0 := legOfId_spec sk P 0 (by omega)
      have hj' := legOfId_spec sk P j hj
      simp only [Nat.add_zero] at h0
      refine ⟨?_, ?_, ?_, ?_⟩
      · rw [h0, hj']; split <;> split <;> rfl
      · rw [h0, mkNav_isEdgeAt]; split <;> exact hed
      · rw [h0, mkNav_size]; split <;> exact hP
      · rw [h0, mkNav_nvAt]; split <;> exact hnv
    · right
      obtain ⟨⟨hbv, hinv⟩, -⟩ := navClose_final sk hnd a ha
      rw [legOfId_out sk _ hbv.2, legOfId_in sk a ha.2]
      refine ⟨(mkNav_valid sk _).mpr hbv, ?_⟩
      rw [mkNav_partner]
      simp only [Bool.not_true, Bool.false_eq_true, if_false]
      rw [hinv]
  · intro q hq hnv
    rw [mkNav_size] at hq
    rw [mkNav_nvAt] at hnv
    have hoff : (mkNav sk).sideLeg q = offOf sk q.1 + (if q.2 then nvOf sk.toArray q.1 else 0) := by
      unfold Nav.sideLeg
      rw [mkNav_off sk hnd q.1 hq, mkNav_nvAt]
    have hnl : (legGraph sk).nlegs = offOf sk sk.length := by
      have := (sim_main sk hnd sk.length (Nat.le_refl _)).2
      have hscan : scanP sk sk.length = sk.foldl Scan.step {} := by unfold scanP; rw [List.take_length]
      rw [hscan] at this
      exact this
    rw [hoff, hnl]
    have hmono := offOf_mono sk (show q.1 + 1 ≤ sk.length by omega)
    rw [offOf_succ] at hmono
    obtain ⟨q1, q2⟩ := q
    cases q2
    · simp only [Bool.false_eq_true, if_false, Nat.add_zero]
      refine ⟨by simp only at hmono hnv; omega, ?_⟩
      have := legOfId_spec sk q1 0 (by simp only at hnv; omega)
      simp only [Nat.add_zero] at this
      rw [this, if_pos hnv]; rfl
    · simp only [if_true]
      refine ⟨by simp only at hmono hnv; omega, ?_⟩
      rw [legOfId_spec sk q1 _ (by simp only at hnv; omega), if_neg (by omega)]
      simp [TLeg.side]

theorem mem_opsOf_of_some : ∀ {s : Slots} {o : Op}, some o ∈ s → o ∈ opsOf s
  | [], _, h => by simp at h
  | none :: t, o, h => by
    simp only [opsOf]; exact mem_opsOf_of_some (by simpa using h)
  | some o' :: t, o, h => by
    simp only [List.mem_cons, Option.some.injEq] at h
    simp only [opsOf, List.mem_cons]
    rcases h with h | h
    · exact Or.inl h
    · exact Or.inr (mem_opsOf_of_some h)

/-- **`TravOK` for every well-formed skeleton**: no op lists a variable twice, every op has a variable -/
theorem travOK (s : Slots) (hn : NodupVars s) (hpos : ∀ o ∈ opsOf s, o.vars ≠ []) : TravOK (skeleton s) := by
  refine travOK_of_navGraphOK s hn (navGraphOK (skeleton s) ?_ ?_)
  · intro o ho
    simp only [skeleton, List.mem_map] at ho
    obtain ⟨x, hx, hxo⟩ := ho
    cases x with
    | none => cases hxo
    | some op =>
      simp only [Option.map_some, Option.some.injEq] at hxo
      rw [← hxo]
      exact hn op (mem_opsOf_of_some hx)
  · intro o ho
    simp only [skeleton, List.mem_map] at ho
    obtain ⟨x, hx, hxo⟩ := ho
    cases x with
    | none => cases hxo
    | some op =>
      simp only [Option.map_some, Option.some.injEq] at hxo
      rw [← hxo]
      exact hpos op (mem_opsOf_of_some hx)

/-! ### on the configuration spaces of the Law theorems -/

/-- every bond of the Hamiltonian acts on at least one variable (a zero-variable bond makes the real traversal
loop forever as soon as a constant single-site bond exists; `VarsOK` does not exclude it) -/
def VarsPos (H : Ham) : Prop := ∀ b, b < H.nbonds → H.vars b ≠ []

/-- **the traversal of every configuration of `cfgSpace` is `TravOK`** -/
theorem cfgSpace_travOK {H : Ham} {N L : Nat} (hV : Kernel.VarsOK H N) (hp : VarsPos H) {c : Config}
    (hc : c ∈ Kernel.cfgSpace H N L) : TravOK (skeleton c.slots) := by
  refine travOK c.slots (Kernel.cfgSpace_shapeOk hV hc).2 (fun o ho => ?_)
  obtain ⟨h1, h2, -⟩ := (Kernel.mem_cfgSpace.mp hc).2.2 o (Kernel.some_mem_of_mem_opsOf ho)
  rw [h2]; exact hp _ h1

theorem isingSpec_varsPos (s : IsingSpec) : VarsPos s.ham := by
  intro b _
  simp only [IsingSpec.ham]
  by_cases h1 : b < s.nedges
  · rw [if_pos h1]
    unfold IsingSpec.edgeVars
    have : b < s.edges.length := h1
    rw [List.getElem?_eq_getElem this]
    simp
  · rw [if_neg h1]; split <;> simp

end Qmc.Law
