import QmcProofs.LawCluster
import QmcProofs.LawRefresh
import QmcProofs.LawGood

/-!
# One whole `timestep` of the executable model: refinement, law = composition of the kernels, invariance

* `diagUpdateT`, `stepCfgT`, `isingTimestepT` — tree twins of `Sampler.diagUpdate` and `Sampler.isingTimestep`
  (`QmcModel/Sampler.lean`, `SamplerCore.lean`: the exact executable model of `QmcIsingGraph::timestep`, RVB off);
  `isingTimestep_refines` — **refinement** on every script; `isingTimestepT_cfg` — its configuration part is
  `stepCfgT` = diagonal update ; cluster update ; free-spin refresh.
* `lawK_step_of`, `lawK_stepCfgT_metropolis`, `lawK_stepCfgT_heatBath` — **law of the step = composition**
  `sweepKM ; clusterK (ClusterFamily.ofModel …) ; refreshK` (`stepKernels`, i.e. `Kernel.timestepWith` unfolded) on
  `goodSpace H N L`, the Good configurations of `cfgSpace H N L` (`QmcProofs/LawGood.lean`).
* `step_law_invariant_good(_hb)`, `step_law_invariant_cut(_hb)` — **the idealised law of the whole step leaves
  the SSE weight invariant** on `goodSpace`, and the true SSE measure `configWeight · 1_Good` invariant on
  `cfgSpace H N L`.
* `isingStep_law_invariant_partial(_hb)` — the Ising sampler, hypotheses on the parameters only, plus the
  hypothesis `htrav` on the traversal (`TravOK`, `QmcProofs/LawCluster.lean`).  `htrav` is **proved in general**
  (`Qmc.Law.cfgSpace_travOK`, `QmcProofs/LawTravOK.lean`); the hypothesis-free corollaries are
  `Qmc.LawThm.isingStep_law_invariant(_hb)`, `step_law_eq_kernels`, and with the component family
  `step_law_eq_kernels_components(_hb)`, `isingStep_law_eq_timestepK(_hb)` (`QmcProps/Law.lean`).  `travOK_of_enum`
  (evaluation on the finitely many skeletons of a concrete `H`, `L`) is kept as an independent check.
-/

open Finset
namespace Qmc.Law
open Qmc Qmc.Kernel Qmc.Dist

/-! ### twins and refinement of the whole step -/

/-- tree twin of `Sampler.diagUpdate` -/
def diagUpdateT (H : Ham) (bw : Option BW) (β : Rat) (cutoff : Nat) (c : Config) : PT Config :=
  match bw with
  | none => metropolisSweepT H β cutoff c
  | some t => heatBathSweepT H t β cutoff c

theorem diagUpdate_refines (H : Ham) (bw : Option BW) (β : Rat) (cutoff : Nat) (c : Config) (rs : RS) :
    Sampler.diagUpdate H bw β cutoff c rs = (diagUpdateT H bw β cutoff c).run rs := by
  unfold Sampler.diagUpdate diagUpdateT
  cases bw with
  | none => exact metropolisSweep_refines H β cutoff c rs
  | some t => exact heatBathSweep_refines H t β cutoff c rs

/-- the configuration part of one `timestep`: diagonal update ; cluster update ; free-spin refresh -/
def stepCfgT (H : Ham) (table : Option BW) (fz : Nat → Bool) (β : Rat) (cutoff : Nat) (c : Config) : PT Config :=
  PT.bind (diagUpdateT H table β cutoff c) (fun d => PT.bind (clusterKT (1 / 2) fz d) freeRefreshT)

/-- tree twin of `Sampler.isingTimestep` (`QmcIsingGraph::timestep`, RVB off) -/
def isingTimestepT (s : Sampler.IsingSampler) (β : Rat) : PT Sampler.IsingSampler :=
  PT.map (fun r : Config => { s with state := r.state, slots := r.slots,
                                      cutoff := nextCutoff s.cutoff (countOps r.slots) })
    (stepCfgT s.spec.ham s.table s.frozenBond β s.cutoff s.cfg)

/-- **refinement of the whole step**: on every script, `isingTimestep` is the run of its tree -/
theorem isingTimestep_refines (s : Sampler.IsingSampler) (β : Rat) (rs : RS) :
    Sampler.isingTimestep s β rs = (isingTimestepT s β).run rs := by
  unfold Sampler.isingTimestep Sampler.isingTimestepWith isingTimestepT stepCfgT
  simp only [PT.run_map, PT.run_bind]
  rw [diagUpdate_refines, clusterK_refines, freeRefresh_refines]


/-! ### the cluster kernel and the refresh on the Good configurations -/

/-- the update's own family leaves canonical tags -/
theorem ofModel_tagOK (fr : SkOp → Bool) (H : Ham) (N L : Nat) (hV : VarsOK H N) :
    (ClusterFamily.ofModel fr H N L hV).TagOK := by
  intro s f hf c _ _
  rw [ofModel_flips] at hf
  obtain ⟨r, -, rfl⟩ := mem_modelFlips hf
  unfold tagFlip
  by_cases ht : TagCanon c.slots
  · right; rw [if_pos ht]; exact flipConfigT_tagCanon _ c
  · left; rw [if_neg ht]

variable {fr : SkOp → Bool}

theorem clusterFlip_mem_good {H : Ham} {N L : Nat} (fam : ClusterFamily fr (cfgSpace H N L)) (htag : fam.TagOK)
    (hsym : ClusterSym H fr (cfgSpace H N L)) (s : Skel) :
    ∀ x ∈ clusterFlipList fam s, ∀ a ∈ goodSpace H N L, x.2 a ∈ goodSpace H N L := by
  intro x hx a ha
  obtain ⟨-, f, hf, e⟩ := mem_clusterFlipList hx
  rw [mem_goodSpace] at ha ⊢
  rw [e]
  exact ⟨guardFlip_mem fam hf ha.1, guardFlip_good_of fam htag hsym hf ha.2⟩

theorem clusterK_rowSumOn_good {H : Ham} {N L : Nat} (fam : ClusterFamily fr (cfgSpace H N L))
    (htag : fam.TagOK) (hsym : ClusterSym H fr (cfgSpace H N L)) :
    RowSumOn (goodSpace H N L) (clusterK fam) :=
  fiberK_rowSumOn _ _ (fun a ha => flipsK_rowSumOn _ (clusterFlip_mem_good fam htag hsym _) a ha)

/-- the cluster kernel leaves the SSE weight invariant on the Good configurations -/
theorem clusterK_invariant_good {H : Ham} {N L : Nat} (β : Rat) (fam : ClusterFamily fr (cfgSpace H N L))
    (htag : fam.TagOK) (hsym : ClusterSym H fr (cfgSpace H N L)) :
    Invariant (sseOn H β (goodSpace H N L)) (restr (goodSpace H N L) (clusterK fam)) :=
  reversible_invariantOn (cluster_kernel_reversible fam H β hsym) (clusterK_rowSumOn_good fam htag hsym)

/-- no mass of the cluster kernel leaves the Good configurations -/
theorem clusterK_zero_off_good {H : Ham} {N L : Nat} (fam : ClusterFamily fr (cfgSpace H N L))
    (htag : fam.TagOK) (hsym : ClusterSym H fr (cfgSpace H N L)) (a : Config) (ha : a ∈ goodSpace H N L)
    (b : Config) (hb : b ∉ goodSpace H N L) : clusterK fam a b = 0 := by
  by_contra hne
  unfold clusterK fiberK at hne
  have := flipsK_pred (fun c => c ∈ goodSpace H N L) _ (fun x hx c => by
    obtain ⟨-, f, hf, e⟩ := mem_clusterFlipList hx
    constructor
    · intro h
      have h2 := clusterFlip_mem_good fam htag hsym _ x hx _ h
      rw [e, guardFlip_invol fam hf] at h2
      exact h2
    · exact clusterFlip_mem_good fam htag hsym _ x hx c) a b hne
  exact hb (this.mp ha)

theorem goodSpace_toggleIdle (H : Ham) (N L : Nat) (hH : HamWF H N) :
    ∀ v, ∀ c ∈ goodSpace H N L, toggleIdle v c ∈ goodSpace H N L := by
  intro v c hc
  rw [mem_goodSpace] at hc ⊢
  exact ⟨cfgSpace_toggleIdle H N L v c hc.1, toggleIdle_good_of hH v hc.2⟩

theorem refreshK_invariant_good (H : Ham) (β : Rat) (N L : Nat) (hH : HamWF H N) :
    Invariant (sseOn H β (goodSpace H N L)) (restr (goodSpace H N L) (refreshK N)) :=
  reversible_invariantOn (free_refresh_reversible H β N) (refreshK_rowSumOn N (goodSpace_toggleIdle H N L hH))

theorem goodSpace_len (H : Ham) (N L : Nat) : ∀ c ∈ goodSpace H N L, c.state.length = N :=
  fun _ hc => (mem_cfgSpace.mp (mem_goodSpace.mp hc).1).1

/-! ### law of the cluster update on the Good configurations -/

/-- **law of the cluster update = cluster kernel of its own family**, on the Good configurations, under
the hypothesis `TravOK` on the traversal of every skeleton that occurs (proved: `cfgSpace_travOK`,
QmcProofs/LawTravOK.lean) -/
theorem lawK_clusterKT_good (fz : Nat → Bool) (H : Ham) (N L : Nat) (hV : VarsOK H N)
    (htrav : ∀ c ∈ goodSpace H N L, TravOK (skeleton c.slots)) :
    lawK (goodSpace H N L) (clusterKT (1 / 2) fz) =
      restr (goodSpace H N L) (clusterK (ClusterFamily.ofModel (fun o => fz o.bond) H N L hV)) := by
  funext a b
  unfold lawK restr
  have ha := mem_goodSpace.mp a.2
  exact law_clusterKT fz H N L hV a.1 ha.1 ha.2.2.tagCanon (htrav a.1 a.2) b.1


/-! ### law of the whole step -/

theorem comp_idK {α : Type} [Fintype α] [DecidableEq α] (K : α → α → Rat) : comp K idK = K := by
  funext a c
  unfold comp idK
  rw [Finset.sum_eq_single c]
  · simp
  · intro b _ hb; simp [hb]
  · intro h; exact absurd (Finset.mem_univ c) h

/-- the three kernels of one step on the Good configurations: sweep ; clusters of the update's own family ;
refresh — `Kernel.timestepWith` unfolded, with the cluster family read on `goodSpace` -/
noncomputable def stepKernels (H : Ham) (N L : Nat) (hV : VarsOK H N) (fz : Nat → Bool)
    (sweepK : (goodSpace H N L) → (goodSpace H N L) → Rat) :
    List ((goodSpace H N L) → (goodSpace H N L) → Rat) :=
  [sweepK, restr (goodSpace H N L) (clusterK (ClusterFamily.ofModel (fun o => fz o.bond) H N L hV)),
    restr (goodSpace H N L) (refreshK N)]

/-- composition of the step: whatever the diagonal update `D`, if no mass of its law leaves the Good
configurations the law of `D ; cluster update ; refresh` is the composition of the three laws -/
theorem lawK_step_of (H : Ham) (N L : Nat) (hV : VarsOK H N) (fz : Nat → Bool)
    (hsym : ClusterSym H (fun o => fz o.bond) (cfgSpace H N L))
    (htrav : ∀ c ∈ goodSpace H N L, TravOK (skeleton c.slots)) (D : Config → PT Config)
    (hD : ∀ a ∈ goodSpace H N L, ∀ b, b ∉ goodSpace H N L → PT.law (D a) b = 0) :
    lawK (goodSpace H N L) (fun c => PT.bind (D c) (fun d => PT.bind (clusterKT (1 / 2) fz d) freeRefreshT)) =
      compList (stepKernels H N L hV fz (lawK (goodSpace H N L) D)) := by
  have hcl : ∀ a ∈ goodSpace H N L, ∀ b, b ∉ goodSpace H N L → PT.law (clusterKT (1 / 2) fz a) b = 0 := by
    intro a ha b hb
    have ha' := mem_goodSpace.mp ha
    rw [law_clusterKT fz H N L hV a ha'.1 ha'.2.2.tagCanon (htrav a ha) b]
    exact clusterK_zero_off_good _ (ofModel_tagOK _ H N L hV) hsym a ha b hb
  rw [lawK_bind_of_zero _ D _ hD, lawK_bind_of_zero _ (clusterKT (1 / 2) fz) freeRefreshT hcl,
    lawK_clusterKT_good fz H N L hV htrav, lawK_freeRefresh _ N (goodSpace_len H N L)]
  unfold stepKernels
  simp only [compList, comp_idK]

/-- the composed kernels leave the SSE weight invariant as soon as the diagonal part does -/
theorem stepKernels_invariant (H : Ham) (β : Rat) (N L : Nat) (hV : VarsOK H N) (fz : Nat → Bool)
    (hsym : ClusterSym H (fun o => fz o.bond) (cfgSpace H N L))
    (sweepK : (goodSpace H N L) → (goodSpace H N L) → Rat)
    (hsweep : Invariant (sseOn H β (goodSpace H N L)) sweepK) :
    Invariant (sseOn H β (goodSpace H N L)) (compList (stepKernels H N L hV fz sweepK)) := by
  refine invariant_compList _ (fun K hK => ?_)
  unfold stepKernels at hK
  simp only [List.mem_cons, List.not_mem_nil, or_false] at hK
  rcases hK with rfl | rfl | rfl
  · exact hsweep
  · exact clusterK_invariant_good β _ (ofModel_tagOK _ H N L hV) hsym
  · exact refreshK_invariant_good H β N L hV

/-- no mass of the step leaves the Good configurations -/
theorem step_zero_off_good (H : Ham) (N L : Nat) (hV : VarsOK H N) (fz : Nat → Bool)
    (hsym : ClusterSym H (fun o => fz o.bond) (cfgSpace H N L))
    (htrav : ∀ c ∈ goodSpace H N L, TravOK (skeleton c.slots)) (D : Config → PT Config)
    (hD : ∀ a ∈ goodSpace H N L, ∀ b, b ∉ goodSpace H N L → PT.law (D a) b = 0) :
    ∀ a ∈ goodSpace H N L, ∀ b, b ∉ goodSpace H N L →
      PT.law (PT.bind (D a) (fun d => PT.bind (clusterKT (1 / 2) fz d) freeRefreshT)) b = 0 := by
  intro a ha
  refine PT.law_bind_zero_off (goodSpace H N L) (goodSpace H N L) _ (D a) (hD a ha) (fun d hd => ?_)
  refine PT.law_bind_zero_off (goodSpace H N L) (goodSpace H N L) _ _ (fun b hb => ?_) (fun e he c hc => ?_)
  · have hd' := mem_goodSpace.mp hd
    rw [law_clusterKT fz H N L hV d hd'.1 hd'.2.2.tagCanon (htrav d hd) b]
    exact clusterK_zero_off_good _ (ofModel_tagOK _ H N L hV) hsym d hd b hb
  · rw [law_freeRefresh, goodSpace_len H N L e he]
    by_contra hne
    have := flipsK_pred (fun x => x ∈ goodSpace H N L) _ (fun x hx y => by
      obtain ⟨-, v, ev⟩ := mem_refreshList hx
      rw [ev]
      constructor
      · intro h
        have := goodSpace_toggleIdle H N L hV v _ h
        rwa [toggleIdle_invol] at this
      · exact goodSpace_toggleIdle H N L hV v y) e c hne
    exact hc (this.mp he)


/-! ### Metropolis and heat-bath steps -/

/-- **law of one step (Metropolis sweep ; cluster update ; refresh) = composition of the three kernels**
on the Good configurations -/
theorem lawK_stepCfgT_metropolis (H : Ham) (β : Rat) (hβ : 0 ≤ β) (hw : ∀ b i, 0 ≤ H.w b i i)
    (hNb : 0 < H.nbonds) (N L : Nat) (hV : VarsOK H N) (fz : Nat → Bool)
    (hsym : ClusterSym H (fun o => fz o.bond) (cfgSpace H N L))
    (htrav : ∀ c ∈ goodSpace H N L, TravOK (skeleton c.slots)) :
    lawK (goodSpace H N L) (stepCfgT H none fz β L) =
      compList (stepKernels H N L hV fz (sweepKM H β (goodSpace H N L) L)) := by
  have := lawK_step_of H N L hV fz hsym htrav (metropolisSweepT H β L)
    (metropolisSweep_zero_off_good H β hw N L hV)
  rw [law_metropolisSweep_good H β hβ hw hNb N L hV] at this
  exact this

theorem lawK_stepCfgT_heatBath (H : Ham) (β : Rat) (hβ : 0 ≤ β) (hW : 0 < (makeBondWeights H).sum)
    (hw : ∀ b i, 0 ≤ H.w b i i) (N L : Nat) (hV : VarsOK H N) (fz : Nat → Bool)
    (hsym : ClusterSym H (fun o => fz o.bond) (cfgSpace H N L))
    (htrav : ∀ c ∈ goodSpace H N L, TravOK (skeleton c.slots)) :
    lawK (goodSpace H N L) (stepCfgT H (some (makeBondWeights H)) fz β L) =
      compList (stepKernels H N L hV fz (sweepKHB H (makeBondWeights H) β (goodSpace H N L) L)) := by
  have := lawK_step_of H N L hV fz hsym htrav (heatBathSweepT H (makeBondWeights H) β L)
    (heatBathSweep_zero_off_good H _ β hw (makeBondWeights_length H) N L hV)
  rw [law_heatBathSweep_good H β hβ hW hw N L hV] at this
  exact this

/-- **the idealised law of one whole step of the executable model leaves the SSE weight invariant on the
Good configurations** (Metropolis diagonal update) -/
theorem step_law_invariant_good (H : Ham) (β : Rat) (hβ : 0 < β) (hw : ∀ b i, 0 ≤ H.w b i i)
    (hNb : 0 < H.nbonds) (N L : Nat) (hV : VarsOK H N) (fz : Nat → Bool)
    (hsym : ClusterSym H (fun o => fz o.bond) (cfgSpace H N L))
    (htrav : ∀ c ∈ goodSpace H N L, TravOK (skeleton c.slots)) :
    Invariant (sseOn H β (goodSpace H N L)) (lawK (goodSpace H N L) (stepCfgT H none fz β L)) := by
  rw [lawK_stepCfgT_metropolis H β (le_of_lt hβ) hw hNb N L hV fz hsym htrav]
  exact stepKernels_invariant H β N L hV fz hsym _
    (sweepKM_invariant_of_slotClosed H β hβ hw _ (goodSpace_slotClosed H N L hV hw) L)

theorem step_law_invariant_good_hb (H : Ham) (β : Rat) (hβ : 0 < β) (hW : 0 < (makeBondWeights H).sum)
    (hw : ∀ b i, 0 ≤ H.w b i i) (N L : Nat) (hV : VarsOK H N) (fz : Nat → Bool)
    (hsym : ClusterSym H (fun o => fz o.bond) (cfgSpace H N L))
    (htrav : ∀ c ∈ goodSpace H N L, TravOK (skeleton c.slots)) :
    Invariant (sseOn H β (goodSpace H N L))
      (lawK (goodSpace H N L) (stepCfgT H (some (makeBondWeights H)) fz β L)) := by
  rw [lawK_stepCfgT_heatBath H β (le_of_lt hβ) hW hw N L hV fz hsym htrav]
  exact stepKernels_invariant H β N L hV fz hsym _
    (sweepKHB_invariant_of_slotClosed H _ β hβ hW hw (makeBondWeights_valid H) (makeBondWeights_length H) _
      (goodSpace_slotClosed H N L hV hw) L)

/-- … **and the true SSE measure `configWeight · 1_Good` invariant on the whole configuration space** -/
theorem step_law_invariant_cut (H : Ham) (β : Rat) (hβ : 0 < β) (hw : ∀ b i, 0 ≤ H.w b i i)
    (hNb : 0 < H.nbonds) (N L : Nat) (hV : VarsOK H N) (fz : Nat → Bool)
    (hsym : ClusterSym H (fun o => fz o.bond) (cfgSpace H N L))
    (htrav : ∀ c ∈ goodSpace H N L, TravOK (skeleton c.slots)) :
    Invariant (sseCutOn H β (cfgSpace H N L)) (lawK (cfgSpace H N L) (stepCfgT H none fz β L)) :=
  invariant_cut_of_good H β N L _
    (step_zero_off_good H N L hV fz hsym htrav _ (metropolisSweep_zero_off_good H β hw N L hV))
    (step_law_invariant_good H β hβ hw hNb N L hV fz hsym htrav)

theorem step_law_invariant_cut_hb (H : Ham) (β : Rat) (hβ : 0 < β) (hW : 0 < (makeBondWeights H).sum)
    (hw : ∀ b i, 0 ≤ H.w b i i) (N L : Nat) (hV : VarsOK H N) (fz : Nat → Bool)
    (hsym : ClusterSym H (fun o => fz o.bond) (cfgSpace H N L))
    (htrav : ∀ c ∈ goodSpace H N L, TravOK (skeleton c.slots)) :
    Invariant (sseCutOn H β (cfgSpace H N L))
      (lawK (cfgSpace H N L) (stepCfgT H (some (makeBondWeights H)) fz β L)) :=
  invariant_cut_of_good H β N L _
    (step_zero_off_good H N L hV fz hsym htrav _
      (heatBathSweep_zero_off_good H _ β hw (makeBondWeights_length H) N L hV))
    (step_law_invariant_good_hb H β hβ hW hw N L hV fz hsym htrav)

/-! ### the Ising sampler -/

/-- the configuration after one `timestep` of the executable model is the configuration part of the step -/
theorem isingTimestepT_cfg (s : Sampler.IsingSampler) (β : Rat) :
    PT.map Sampler.IsingSampler.cfg (isingTimestepT s β) =
      stepCfgT s.spec.ham s.table s.frozenBond β s.cutoff s.cfg := by
  unfold isingTimestepT
  rw [PT.map_map]
  exact PT.map_id' _

/-- **`isingTimestep`, the executable whole-step model of `QmcIsingGraph::timestep` (RVB off, heat bath
off): its idealised law leaves the true SSE measure invariant** — for any valid graph, couplings of any
sign, Γ ≥ 0, any h, β > 0, cutoff `L`; stated with the hypothesis `htrav` (discharged in general by
`Qmc.Law.cfgSpace_travOK`; hypothesis-free form `Qmc.LawThm.isingStep_law_invariant`): on every skeleton of a Good
configuration the traversal `traverse` ends without `bad` and returns representatives of pairwise different
components. -/
theorem isingStep_law_invariant_partial (s : Sampler.IsingSampler) (hv : s.spec.Valid)
    (hg : 0 ≤ s.spec.gamma) (hNb : 0 < s.spec.ham.nbonds) (β : Rat) (hβ : 0 < β) (L : Nat)
    (htrav : ∀ c ∈ goodSpace s.spec.ham s.spec.nvars L, TravOK (skeleton c.slots)) :
    Invariant (sseCutOn s.spec.ham β (cfgSpace s.spec.ham s.spec.nvars L))
      (lawK (cfgSpace s.spec.ham s.spec.nvars L) (stepCfgT s.spec.ham none s.frozenBond β L)) :=
  step_law_invariant_cut _ β hβ (fun b i => Refine.ising_w_nonneg s.spec hg b i i) hNb _ L
    (s.spec.hamWF hv) _
    (clusterSym_cfgSpace _ _ _ L (Composed.ising_bondSym s).sym (Composed.ising_bondSym s).const) htrav

theorem isingStep_law_invariant_partial_hb (s : Sampler.IsingSampler) (hv : s.spec.Valid)
    (hg : 0 ≤ s.spec.gamma) (hW : 0 < (makeBondWeights s.spec.ham).sum) (β : Rat) (hβ : 0 < β) (L : Nat)
    (htrav : ∀ c ∈ goodSpace s.spec.ham s.spec.nvars L, TravOK (skeleton c.slots)) :
    Invariant (sseCutOn s.spec.ham β (cfgSpace s.spec.ham s.spec.nvars L))
      (lawK (cfgSpace s.spec.ham s.spec.nvars L)
        (stepCfgT s.spec.ham (some (makeBondWeights s.spec.ham)) s.frozenBond β L)) :=
  step_law_invariant_cut_hb _ β hβ hW (fun b i => Refine.ising_w_nonneg s.spec hg b i i) _ L
    (s.spec.hamWF hv) _
    (clusterSym_cfgSpace _ _ _ L (Composed.ising_bondSym s).sym (Composed.ising_bondSym s).const) htrav

/-! ### discharging `htrav` for a concrete Hamiltonian and number of slots -/

/-- the skeleton entries a slot of `cfgSpace H N L` can hold -/
def skOps (H : Ham) : List (Option SkOp) :=
  none :: (List.range H.nbonds).map (fun b => some ⟨H.vars b, b, H.const b⟩)

/-- all skeletons of configurations with `L` slots over `H` -/
def skEnum (H : Ham) : Nat → List Skel
  | 0 => [[]]
  | L + 1 => (skEnum H L).flatMap (fun t => (skOps H).map (fun x => x :: t))

theorem skeleton_mem_skEnum (H : Ham) : ∀ (sl : Slots), (∀ o, some o ∈ sl → OpOf H o) →
    skeleton sl ∈ skEnum H sl.length
  | [], _ => by simp [skEnum, skeleton]
  | x :: t, h => by
    have ih := skeleton_mem_skEnum H t (fun o ho => h o (List.mem_cons_of_mem _ ho))
    simp only [skeleton, List.map_cons, List.length_cons, skEnum, List.mem_flatMap, List.mem_map]
    refine ⟨skeleton t, ih, x.map Op.sk, ?_, rfl⟩
    cases x with
    | none => simp [skOps]
    | some o =>
      obtain ⟨h1, h2, h3, -, -⟩ := h o (by simp)
      simp only [skOps, Option.map_some, List.mem_cons, reduceCtorEq, List.mem_map, List.mem_range,
        Option.some.injEq, false_or]
      exact ⟨o.bond, h1, by simp [Op.sk, h2, h3]⟩

/-- `htrav` from the evaluation of the traversal on the finitely many skeletons -/
theorem travOK_of_enum (H : Ham) (N L : Nat) (h : ∀ sk ∈ skEnum H L, TravOK sk) :
    ∀ c ∈ goodSpace H N L, TravOK (skeleton c.slots) := by
  intro c hc
  have hs := mem_cfgSpace.mp (mem_goodSpace.mp hc).1
  have := skeleton_mem_skEnum H c.slots hs.2.2
  rw [hs.2.1] at this
  exact h _ this

end Qmc.Law
