/-
C01 capstone, graded by the operator count: **for every function `g` of the number of operators**

  Σ_{c ∈ cfgSpace H N L, Good H c, c.state = α} g(countOps c.slots) · configWeight H β c
      = Σ_{n≤L} g n · βⁿ/n! · (Mⁿ) α α,            M = Σ_b bondMatrix H N b

(`config_marginal_g`; `g = 1` is `Marginal.config_marginal`), summed over the states `config_partition_g`, and for the
function `sseCutOn` of the invariance theorems `sseCutOn_total_g`.  With `g n = n` the right side is
`Σ_n n·βⁿ/n!·Tr(Mⁿ) = β·Σ_{n<L} βⁿ/n!·Tr(M^{n+1})` (`C01.sse_mean_n`): the numerator of the sampler's energy estimator
`E = C − ⟨n⟩/β` as a sum over the sampler's own configuration space.

Proof: the steps of QmcProofs/ConfigMarginal.lean with the factor `g` carried along; the one new ingredient is the
per-`n` identity `W H n α α = (Mⁿ) α α` (`W_eq_pow`: bond words ↔ matrix products, QmcProofs/{PathSum,SSE,SSEConfig}.lean).
-/
import QmcProofs.ConfigMarginal
import QmcProofs.KernelInvarianceCut

open BigOperators Finset

namespace Qmc.CapstoneLimit
open Qmc Qmc.IsingSSE Qmc.PathSum Qmc.Kernel Qmc.SSE Qmc.SSEConfig Qmc.Marginal

/-- `⟨α|Mⁿ|α⟩` is the total weight of the bond words of length `n` -/
theorem W_eq_pow (H : Ham) (N : Nat) (hV : VarsOK H N) (n : Nat) (α : St N) :
    W H n α.1 α.1 = ((∑ b : Fin H.nbonds, bondMatrix H N b.val) ^ n) α α := by
  rw [W_eq_words, sum_pow_eq_sum_words, Matrix.sum_apply]
  refine Finset.sum_congr rfl (fun p _ => ?_)
  rw [configSum_eq_pathSum H N _ α.1 α.1 (length_of_st α)
    (fun b hb => by
      obtain ⟨i, rfl⟩ := (List.mem_ofFn' _ _).mp hb
      exact (hV _ (p i).isLt).1)
    (fun b hb => by
      obtain ⟨i, rfl⟩ := (List.mem_ofFn' _ _).mp hb
      exact (hV _ (p i).isLt).2)]
  rw [pathSum_eq_prod, List.map_ofFn]
  rfl

theorem g_mul_term (g : Nat → ℚ) (H : Ham) (n : Nat) (s t : List Bool) (sl : Slots) :
    g (countOps sl) * term H n s t sl = g n * term H n s t sl := by
  unfold term
  by_cases h : propagate s sl = some t ∧ countOps sl = n
  · rw [if_pos h, h.2]
  · rw [if_neg h, mul_zero, mul_zero]

theorem sum_slotsF_g_configWeight (g : Nat → ℚ) (H : Ham) (β : ℚ) (L : Nat) (α : List Bool) :
    ∑ sl ∈ (slotsF H L).filter (fun sl => propagate α sl = some α),
        g (countOps sl) * configWeight H β ⟨α, sl⟩
      = ∑ n ∈ range (L + 1), g n * (coef β L n * F H L n α α) := by
  rw [Finset.sum_filter]
  have hterm : ∀ sl ∈ slotsF H L,
      (if propagate α sl = some α then g (countOps sl) * configWeight H β ⟨α, sl⟩ else 0)
        = ∑ n ∈ range (L + 1), g n * (coef β L n * term H n α α sl) := by
    intro sl hsl
    have h := cut_configWeight_eq_sum_term H β L α sl (mem_slotsF.mp hsl).1
    have h2 : (if propagate α sl = some α then g (countOps sl) * configWeight H β ⟨α, sl⟩ else 0)
        = g (countOps sl) * (if propagate α sl = some α then configWeight H β ⟨α, sl⟩ else 0) := by
      split <;> simp
    rw [h2, h, Finset.mul_sum]
    refine Finset.sum_congr rfl (fun n _ => ?_)
    rw [mul_left_comm, g_mul_term, mul_left_comm]
  rw [Finset.sum_congr rfl hterm, Finset.sum_comm]
  refine Finset.sum_congr rfl (fun n _ => ?_)
  unfold F
  rw [Finset.mul_sum, Finset.mul_sum]

theorem sum_slotsF_g_eq_taylor (g : Nat → ℚ) (H : Ham) (N : Nat) (β : ℚ) (L : Nat) (α : St N)
    (hV : VarsOK H N) :
    ∑ sl ∈ (slotsF H L).filter (fun sl => propagate α.1 sl = some α.1),
        g (countOps sl) * configWeight H β ⟨α.1, sl⟩
      = ∑ n ∈ range (L + 1), g n * (β ^ n / n.factorial
          * ((∑ b : Fin H.nbonds, bondMatrix H N b.val) ^ n) α α) := by
  rw [sum_slotsF_g_configWeight]
  refine Finset.sum_congr rfl (fun n hn => ?_)
  have hnL : n ≤ L := Nat.lt_succ_iff.mp (Finset.mem_range.mp hn)
  rw [F_eq H N hV α.1 L n α.1 (length_of_st α), W_eq_pow H N hV n α]
  have hp := placement_weight L n hnL
  generalize ((∑ b : Fin H.nbonds, bondMatrix H N b.val) ^ n) α α = x
  unfold coef
  congr 1
  calc β ^ n * ((L - n).factorial / L.factorial : ℚ) * ((L.choose n : ℚ) * x)
      = β ^ n * ((L.choose n : ℚ) * ((L - n).factorial / L.factorial)) * x := by ring
    _ = β ^ n / n.factorial * x := by rw [hp]; ring

/-- **graded T1**: the state marginal of `g(#operators) · SSE weight` over the Good configurations of the space -/
theorem config_marginal_g (g : Nat → ℚ) (H : Ham) (N : Nat) (β : ℚ) (L : Nat) (α : St N) (hV : VarsOK H N)
    (hw : ∀ b < H.nbonds, ∀ i o, 0 ≤ H.w b i o)
    [DecidablePred fun c : Config => Good H c ∧ c.state = α.1] :
    ∑ c ∈ (cfgSpace H N L).filter (fun c => Good H c ∧ c.state = α.1),
        g (countOps c.slots) * configWeight H β c
      = ∑ n ∈ range (L + 1), g n * (β ^ n / n.factorial
          * ((∑ b : Fin H.nbonds, bondMatrix H N b.val) ^ n) α α) := by
  classical
  rw [sum_cfgSpace_eq_sum_slotsF H N L α.1 (length_of_st α) (Good H)
    (fun sl => propagate α.1 sl = some α.1 ∧ PosW H sl)
    (fun c hc hst => by
      rw [good_iff_struct hV hc]
      unfold Consistent; rw [hst]
      exact ⟨fun h => ⟨h.2.1, h.1, h.2.2⟩, fun h => ⟨h.2.1, h.1, h.2.2⟩⟩)
    (fun c => g (countOps c.slots) * configWeight H β c)]
  rw [← sum_slotsF_g_eq_taylor g H N β L α hV]
  refine Finset.sum_subset ?_ ?_
  · intro sl hsl
    simp only [Finset.mem_filter] at hsl ⊢
    exact ⟨hsl.1, hsl.2.1⟩
  · intro sl hsl hnot
    simp only [Finset.mem_filter] at hsl hnot
    show g (countOps sl) * configWeight H β ⟨α.1, sl⟩ = 0
    rw [configWeight_eq_zero_of_not_posW H β L α.1 sl hw hsl.1 (fun hp => hnot ⟨hsl.1, hsl.2, hp⟩), mul_zero]

/-- **graded T2** -/
theorem config_partition_g (g : Nat → ℚ) (H : Ham) (N : Nat) (β : ℚ) (L : Nat) (hV : VarsOK H N)
    (hw : ∀ b < H.nbonds, ∀ i o, 0 ≤ H.w b i o) [DecidablePred fun c : Config => Good H c] :
    ∑ c ∈ (cfgSpace H N L).filter (fun c => Good H c), g (countOps c.slots) * configWeight H β c
      = ∑ n ∈ range (L + 1), g n * (β ^ n / n.factorial
          * Matrix.trace ((∑ b : Fin H.nbonds, bondMatrix H N b.val) ^ n)) := by
  classical
  rw [sum_over_states]
  rw [Finset.sum_congr rfl (fun α _ => config_marginal_g g H N β L α hV hw)]
  rw [Finset.sum_comm]
  refine Finset.sum_congr rfl (fun n _ => ?_)
  rw [← Finset.mul_sum, ← Finset.mul_sum]
  rfl

/-- graded total of the measure `sseCutOn` of the invariance theorems -/
theorem sseCutOn_total_g (g : Nat → ℚ) (H : Ham) [DecidablePred (Good H)] (N : Nat) (β : ℚ) (L : Nat)
    (hV : VarsOK H N) (hw : ∀ b < H.nbonds, ∀ i o, 0 ≤ H.w b i o) :
    ∑ c : (cfgSpace H N L : Finset Config), g (countOps c.1.slots) * sseCutOn H β (cfgSpace H N L) c
      = ∑ n ∈ range (L + 1), g n * (β ^ n / n.factorial
          * Matrix.trace ((∑ b : Fin H.nbonds, bondMatrix H N b.val) ^ n)) := by
  rw [← config_partition_g g H N β L hV hw]
  show ∑ c : (cfgSpace H N L : Finset Config),
    (fun c : Config => g (countOps c.slots) * (if Good H c then configWeight H β c else 0)) c.1 = _
  rw [Finset.sum_coe_sort (cfgSpace H N L)
    (fun c => g (countOps c.slots) * (if Good H c then configWeight H β c else 0))]
  rw [Finset.sum_filter]
  refine Finset.sum_congr rfl (fun c _ => ?_)
  by_cases h : Good H c <;> simp [h]

end Qmc.CapstoneLimit
