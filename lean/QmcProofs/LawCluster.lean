import QmcProofs.LawTree
import QmcProofs.KernelInvarianceComponents
import QmcProofs.ClusterExact
import QmcModel.Sampler
import Mathlib.Tactic.NormNum

/-!
# Cluster update: refinement, law = cluster kernel of the update's own family

* `clusterFlipsT`, `clusterUpdateT`, `clusterKT` — tree twins of `clusterFlips`, `clusterUpdate`
  (`QmcModel/ClusterExact.lean`, the exact model of `flip_each_cluster_rng`) and `Sampler.clusterK`
  (`QmcModel/Sampler.lean`): one `flip (c_k · prob)` per cluster in the order of the traversal;
  `clusterUpdate_refines`, `clusterK_refines` — **refinement** on every script.
* `flipConfig_xorD` — flipping two leg sets one after the other is flipping their symmetric difference;
  `clusterResult_eq` — on canonical-tag configurations the tag rule of `edit_in_out` gives canonical tags.
* `law_clusterFlips` — **the coins**: flipping the union of the accepted clusters = independent choices
  "flip cluster `r` with probability `w_r/2`" (`flipsK`), for pairwise disjoint clusters.
* `ClusterFamily.ofModel fr H N L hV` — the cluster family of the update itself: per skeleton the clusters
  of closure-weight 1 that `traverse` found, in the order of the draws; `invol`, `comm`, `move` from C09
  (`modelFlip_clusterMove`: a cluster of weight 1 is a component — or everything — without an operator of flip
  weight 0, so its flip is a `ClusterMove`).  No completeness of the traversal is needed for this.
* `TravOK sk` — what the law theorem needs of the traversal (decidable per skeleton): `traverse sk` does not
  end `bad` and its representatives have pairwise different component labels.  It is a hypothesis *of the
  theorems of this file*; it is **proved for every well-formed skeleton** in `QmcProofs/LawTravOK.lean`
  (`Qmc.Law.travOK`, `cfgSpace_travOK`: on `cfgSpace H N L` for `VarsOK H N` and `VarsPos H`), so the
  hypothesis-free forms are `Qmc.LawThm.clusterUpdate_law_eq_kernel`, `step_law_eq_kernels`, `isingStep_law_invariant`.
* `law_clusterKT` — **law = kernel**: on a canonical-tag configuration of `cfgSpace H N L` whose skeleton
  is `TravOK`, `law (clusterKT ½ fz c) = clusterK (ClusterFamily.ofModel …) c`.
* `flipsK_perm`, `clusterK_ofModel_eq_ofComponents` — if the flips the update offers are, up to order, the
  component flips (`componentFlips` of `KernelInvarianceComponents.lean`), its kernel is
  `clusterK (ClusterFamily.ofComponents …)`, the kernel of `Kernel.ising_timestep_invariant`.  The permutation
  hypothesis is **proved** in `QmcProofs/LawTravPerm.lean` (`modelFlips_perm_componentFlips`, `cfgSpace_hperm`: the
  traversal is complete and sound; needs `EdgeNotFrozen H fr`, true of `IsingSampler.frozenBond` and of
  `fun _ => false`).
-/

open Finset
namespace Qmc.Law
open Qmc Qmc.Kernel Qmc.Dist

/-! ### twins and refinement -/

/-- tree twin of `clusterFlips`: one `flip (c_k · prob)` per cluster, in cluster-number order -/
def clusterFlipsT (prob : Rat) : List Rat → PT (List Bool)
  | [] => PT.ret []
  | c :: cs => PT.flip (c * prob) (PT.map (fun r => true :: r) (clusterFlipsT prob cs))
      (PT.map (fun r => false :: r) (clusterFlipsT prob cs))

theorem clusterFlips_refines (prob : Rat) : ∀ (ws : List Rat) (rs : RS),
    clusterFlips prob ws rs = (clusterFlipsT prob ws).run rs
  | [], _ => rfl
  | c :: cs, rs => by
    unfold clusterFlips clusterFlipsT
    simp only [PT.run_flip, PT.run_map]
    rw [clusterFlips_refines prob cs]
    cases (rs.genBool (c * prob)).1 <;> rfl

/-- the configuration `clusterUpdate` returns for a given list of accepted clusters -/
def clusterResult (whole : Bool) (lab : Array Nat) (reps : List Nat) (c : Config) (flips : List Bool) : Config :=
  { flipConfig (flippedLegs whole lab reps flips) c with
    slots := retagSlots c.slots (flipConfig (flippedLegs whole lab reps flips) c).slots }

/-- tree twin of `clusterUpdate` (configuration part) -/
def clusterUpdateT (prob : Rat) (fr : SkOp → Bool) (c : Config) : PT Config :=
  let sk := skeleton c.slots
  let tr := traverse sk
  if tr.count == 0 then PT.ret c
  else
    let reps := if tr.whole then [0] else tr.reps
    PT.map (clusterResult tr.whole (compLab sk) reps c)
      (clusterFlipsT prob (reps.map (clusterWeight fr tr.whole (compLab sk) (legGraph sk).opsAt)))

/-- **refinement of the cluster update** (`flip_each_cluster_rng`) -/
theorem clusterUpdate_refines (prob : Rat) (fr : SkOp → Bool) (c : Config) (rs : RS) :
    clusterUpdate prob fr c rs =
      (((clusterUpdateT prob fr c).run rs).1, (traverse (skeleton c.slots)).count,
        ((clusterUpdateT prob fr c).run rs).2) := by
  unfold clusterUpdate clusterUpdateTrace clusterUpdateT
  simp only
  split
  · rfl
  · simp only [PT.run_map]
    rw [clusterFlips_refines]
    rfl

/-- tree twin of `Sampler.clusterK`: a traversal that reached `unreachable!()` is a panic -/
def clusterKT (prob : Rat) (fz : Nat → Bool) (c : Config) : PT Config :=
  if (traverse (skeleton c.slots)).bad then
    PT.bind (clusterUpdateT prob (fun o => fz o.bond) c) (fun a => PT.panic (PT.ret a))
  else clusterUpdateT prob (fun o => fz o.bond) c

theorem clusterK_refines (prob : Rat) (fz : Nat → Bool) (c : Config) (rs : RS) :
    Sampler.clusterK prob fz c rs = (clusterKT prob fz c).run rs := by
  have h := clusterUpdate_refines prob (fun o => fz o.bond) c rs
  unfold clusterUpdate at h
  unfold Sampler.clusterK clusterKT
  have h1 := congrArg Prod.fst h
  have h2 := congrArg (fun x => x.2.2) h
  simp only at h1 h2
  have hb : (clusterUpdateTrace prob (fun o => fz o.bond) c rs).1.trav.bad =
      (traverse (skeleton c.slots)).bad := by
    unfold clusterUpdateTrace
    simp only
    split <;> rfl
  simp only [hb]
  split
  · rw [PT.run_bind, PT.run_panic, PT.run_ret, h1, h2]
  · rw [h1, h2]


/-! ### flipping two leg sets one after the other = flipping their symmetric difference -/

/-- symmetric difference of two leg sets -/
def xorD (D1 D2 : Nat → Bool) : Nat → Bool := fun i => D1 i != D2 i

theorem xorB_assoc : ∀ (x a b : List Bool), xorB (xorB x a) b = xorB x (xorB a b)
  | [], _, _ => by simp [xorB]
  | _ :: _, [], _ => by simp [xorB]
  | _ :: _, _ :: _, [] => by simp [xorB]
  | p :: x, q :: a, r :: b => by
    have := xorB_assoc x a b
    simp only [xorB] at this
    simp only [xorB, List.zipWith_cons_cons, this, List.cons.injEq, and_true]
    cases p <;> cases q <;> cases r <;> rfl

theorem xorB_map_range (n : Nat) (f g : Nat → Bool) :
    xorB ((List.range n).map f) ((List.range n).map g) = (List.range n).map (fun k => f k != g k) := by
  unfold xorB
  rw [List.zipWith_map, List.zipWith_self]

theorem flipLegs_xorD (D1 D2 : Nat → Bool) : ∀ (s : Slots) (off : Nat),
    flipLegs (xorD D1 D2) off s = flipLegs D2 off (flipLegs D1 off s)
  | [], _ => rfl
  | none :: t, off => by simp only [flipLegs]; rw [flipLegs_xorD D1 D2 t off]
  | some o :: t, off => by
    simp only [flipLegs]
    rw [flipLegs_xorD D1 D2 t _, xorB_assoc, xorB_assoc, xorB_map_range, xorB_map_range]
    rfl

theorem lookup_zip_map {β γ : Type} (g : β → γ) (v : Nat) : ∀ (vars : List Nat) (l : List β),
    (vars.zip (l.map g)).lookup v = ((vars.zip l).lookup v).map g
  | [], _ => rfl
  | _ :: _, [] => rfl
  | a :: vars, b :: l => by
    simp only [List.map_cons, List.zip_cons_cons, List.lookup_cons]
    split
    · rfl
    · exact lookup_zip_map g v vars l

theorem firstIn_legMask (D : Nat → Bool) (v : Nat) : ∀ (s : Slots) (off : Nat),
    ∃ x : Option Nat, ∀ D' : Nat → Bool, firstIn v (legMaskSlots D' off s) = x.map D'
  | [], _ => ⟨none, fun _ => rfl⟩
  | none :: t, off => by
    obtain ⟨x, hx⟩ := firstIn_legMask D v t off
    exact ⟨x, fun D' => by simp only [legMaskSlots, firstIn]; exact hx D'⟩
  | some o :: t, off => by
    obtain ⟨x, hx⟩ := firstIn_legMask D v t (off + 2 * o.vars.length)
    by_cases hc : o.vars.contains v = true
    · refine ⟨((o.vars.zip (List.range o.vars.length)).lookup v).map (fun k => off + k), fun D' => ?_⟩
      simp only [legMaskSlots, firstIn, hc, if_true, Op.legIn]
      rw [lookup_zip_map (fun k => D' (off + k)) v o.vars (List.range o.vars.length)]
      cases (o.vars.zip (List.range o.vars.length)).lookup v <;> rfl
    · refine ⟨x, fun D' => ?_⟩
      simp only [legMaskSlots, firstIn, hc, Bool.false_eq_true, if_false]
      exact hx D'

theorem xorState_xorD (D1 D2 : Nat → Bool) (st : List Bool) (s : Slots) :
    xorState st (legMaskSlots (xorD D1 D2) 0 s) =
      xorState (xorState st (legMaskSlots D1 0 s)) (legMaskSlots D2 0 s) := by
  apply List.ext_getElem?
  intro v
  simp only [xorState_get]
  obtain ⟨x, hx⟩ := firstIn_legMask D1 v s 0
  rw [hx (xorD D1 D2), hx D1, hx D2]
  cases st[v]? with
  | none => rfl
  | some y =>
    cases x with
    | none => cases y <;> rfl
    | some k =>
      simp only [Option.map_some, Option.getD_some, xorD]
      cases y <;> cases D1 k <;> cases D2 k <;> rfl

/-- **flipping `D1` and then `D2` is flipping their symmetric difference** -/
theorem flipConfig_xorD (D1 D2 : Nat → Bool) (c : Config) :
    flipConfig (xorD D1 D2) c = flipConfig D2 (flipConfig D1 c) := by
  simp only [flipConfig, legMaskSlots_flipLegs, flipLegs_xorD, xorState_xorD]

theorem flipConfigT_xorD (D1 D2 : Nat → Bool) (c : Config) :
    flipConfigT (xorD D1 D2) c = flipConfigT D2 (flipConfigT D1 c) := by
  unfold flipConfigT
  rw [flipConfigT_canon, flipConfig_xorD]


/-! ### the result of the update on canonical-tag configurations -/

theorem flipLegs_false : ∀ (s : Slots) (off : Nat), ShapedSlots s → flipLegs (fun _ => false) off s = s
  | [], _, _ => rfl
  | none :: t, off, h => by
    simp only [flipLegs]
    rw [flipLegs_false t off (fun o ho => h o (by simpa [opsOf] using ho))]
  | some o :: t, off, h => by
    obtain ⟨h1, h2⟩ := h o (by simp [opsOf])
    simp only [flipLegs]
    rw [flipLegs_false t _ (fun o' ho' => h o' (by simp [opsOf, ho']))]
    have e : (List.range o.vars.length).map (fun _ => false) = List.replicate o.vars.length false := by
      simp
    rw [e]
    conv_lhs => rw [← h1]
    rw [xorB_replicate_false, h1]
    conv_lhs => rw [← h2]
    rw [xorB_replicate_false]

theorem flipConfig_false (c : Config) (h : ShapedSlots c.slots) : flipConfig (fun _ => false) c = c := by
  have hst : xorState c.state (legMaskSlots (fun _ => false) 0 c.slots) = c.state := by
    apply List.ext_getElem?
    intro v
    rw [xorState_get]
    obtain ⟨x, hx⟩ := firstIn_legMask (fun _ => false) v c.slots 0
    rw [hx (fun _ => false)]
    cases c.state[v]? with
    | none => rfl
    | some y => cases x <;> cases y <;> rfl
  simp only [flipConfig, hst, flipLegs_false c.slots 0 h]

theorem flipConfigT_false (c : Config) (h : ShapedSlots c.slots) (ht : TagCanon c.slots) :
    flipConfigT (fun _ => false) c = c := by
  unfold flipConfigT canonConfig
  rw [flipConfig_false c h, canonSlots_of_tagCanon c.slots ht]

theorem retag_flipLegs (D : Nat → Bool) : ∀ (s : Slots) (off : Nat), TagCanon s →
    retagSlots s (flipLegs D off s) = canonSlots (flipLegs D off s)
  | [], _, _ => rfl
  | none :: t, off, h => by
    have ih := retag_flipLegs D t off (fun o ho => h o (by simpa [opsOf] using ho))
    simp only [canonSlots] at ih
    simp only [flipLegs, retagSlots, canonSlots, List.map_cons, Option.map_none, ih]
  | some o :: t, off, h => by
    have ih := retag_flipLegs D t (off + 2 * o.vars.length) (fun o' ho' => h o' (by simp [opsOf, ho']))
    simp only [canonSlots] at ih
    have ho := h o (by simp [opsOf])
    simp only [flipLegs, retagSlots, canonSlots, List.map_cons, Option.map_some, ih, List.cons.injEq,
      Option.some.injEq, and_true]
    congr 1
    split
    · rename_i hc
      simp only [Bool.and_eq_true, beq_iff_eq] at hc
      rw [ho, hc.1, hc.2]
    · rfl

/-- on canonical-tag configurations the tag rule of `edit_in_out` gives canonical tags -/
theorem clusterResult_eq (whole : Bool) (lab : Array Nat) (reps : List Nat) (c : Config) (flips : List Bool)
    (ht : TagCanon c.slots) :
    clusterResult whole lab reps c flips = flipConfigT (flippedLegs whole lab reps flips) c := by
  unfold clusterResult flipConfigT canonConfig
  simp only [flipConfig]
  rw [retag_flipLegs _ c.slots 0 ht]

theorem xorB_length (x y : List Bool) (h : y.length = x.length) : (xorB x y).length = x.length := by
  unfold xorB; simp [h]

theorem shaped_flipLegs (D : Nat → Bool) : ∀ (s : Slots) (off : Nat), ShapedSlots s →
    ShapedSlots (flipLegs D off s)
  | [], _, h => h
  | none :: t, off, h => by
    intro o ho
    simp only [flipLegs, opsOf] at ho
    exact shaped_flipLegs D t off (fun o ho => h o (by simpa [opsOf] using ho)) o ho
  | some o1 :: t, off, h => by
    intro o ho
    simp only [flipLegs, opsOf, List.mem_cons] at ho
    obtain ⟨h1, h2⟩ := h o1 (by simp [opsOf])
    rcases ho with rfl | ho
    · exact ⟨by simp only; rw [xorB_length _ _ (by simp [h1])]; exact h1,
        by simp only; rw [xorB_length _ _ (by simp [h2])]; exact h2⟩
    · exact shaped_flipLegs D t _ (fun o' ho' => h o' (by simp [opsOf, ho'])) o ho

theorem shaped_canonSlots : ∀ (s : Slots), ShapedSlots s → ShapedSlots (canonSlots s)
  | [], h => h
  | none :: t, h => by
    intro o ho
    exact shaped_canonSlots t (fun o ho => h o (by simpa [opsOf] using ho)) o
      (by simpa [canonSlots, opsOf] using ho)
  | some o1 :: t, h => by
    intro o ho
    simp only [canonSlots, List.map_cons, Option.map_some, opsOf, List.mem_cons] at ho
    rcases ho with rfl | ho
    · exact h o1 (by simp [opsOf])
    · exact shaped_canonSlots t (fun o' ho' => h o' (by simp [opsOf, ho'])) o (by simpa [canonSlots] using ho)

theorem shaped_flipConfigT (D : Nat → Bool) (c : Config) (h : ShapedSlots c.slots) :
    ShapedSlots (flipConfigT D c).slots :=
  shaped_canonSlots _ (shaped_flipLegs D c.slots 0 h)


/-! ### law of the cluster coins = independent choices over the clusters -/

/-- the leg set of the cluster with representative `r` -/
def clusterLegs (whole : Bool) (lab : Array Nat) (r : Nat) : Nat → Bool := fun i => inCluster whole lab r i

/-- the clusters of the listed representatives are pairwise disjoint -/
def RepsDisjoint (whole : Bool) (lab : Array Nat) (reps : List Nat) : Prop :=
  reps.Pairwise (fun r r' => ∀ i, ¬ (inCluster whole lab r i = true ∧ inCluster whole lab r' i = true))

theorem flippedLegs_nil (whole : Bool) (lab : Array Nat) (fl : List Bool) :
    flippedLegs whole lab [] fl = fun _ => false := by
  funext i; simp [flippedLegs]

theorem flippedLegs_cons (whole : Bool) (lab : Array Nat) (r : Nat) (reps : List Nat) (f : Bool)
    (fl : List Bool) :
    flippedLegs whole lab (r :: reps) (f :: fl) =
      fun i => (f && clusterLegs whole lab r i) || flippedLegs whole lab reps fl i := by
  funext i; simp [flippedLegs, clusterLegs]

theorem flippedLegs_mem {whole : Bool} {lab : Array Nat} {reps : List Nat} {fl : List Bool} {i : Nat}
    (h : flippedLegs whole lab reps fl i = true) : ∃ r ∈ reps, inCluster whole lab r i = true := by
  unfold flippedLegs at h
  rw [List.any_eq_true] at h
  obtain ⟨⟨r, f⟩, hm, hx⟩ := h
  simp only [Bool.and_eq_true] at hx
  exact ⟨r, (List.of_mem_zip hm).1, hx.2⟩

/-- **law of the cluster coins**: drawing one `flip (w_r · ½)` per listed cluster and flipping the union
of the accepted ones is the product of independent choices "flip cluster `r` with probability `w_r/2`",
when the clusters are pairwise disjoint -/
theorem law_clusterFlips (whole : Bool) (lab : Array Nat) (w : Nat → Rat)
    (hw : ∀ r, w r = 0 ∨ w r = 1) (c' : Config) : ∀ (reps : List Nat), RepsDisjoint whole lab reps →
    ∀ (c : Config), ShapedSlots c.slots → TagCanon c.slots →
    PT.law (PT.map (fun fl => flipConfigT (flippedLegs whole lab reps fl) c)
      (clusterFlipsT (1 / 2) (reps.map w))) c' =
    flipsK (reps.map (fun r => (w r * (1 / 2), flipConfigT (clusterLegs whole lab r)))) c c'
  | [], _, c, hs, ht => by
    simp only [List.map_nil, clusterFlipsT, PT.map_ret, PT.law_ret, flipsK, flippedLegs_nil]
    rw [flipConfigT_false c hs ht]
  | r :: reps, hd, c, hs, ht => by
    have hd' : RepsDisjoint whole lab reps := (List.pairwise_cons.mp hd).2
    have hq : 0 ≤ w r * (1 / 2) ∧ w r * (1 / 2) ≤ 1 := by
      rcases hw r with h | h <;> rw [h] <;> constructor <;> norm_num
    simp only [List.map_cons, clusterFlipsT, flipsK]
    rw [PT.map_flip, PT.law_flip hq.1 hq.2, PT.map_map, PT.map_map]
    simp only [flippedLegs_cons, Bool.false_and, Bool.false_or, Bool.true_and]
    have ih0 := law_clusterFlips whole lab w hw c' reps hd' c hs ht
    have ih1 := law_clusterFlips whole lab w hw c' reps hd' (flipConfigT (clusterLegs whole lab r) c)
      (shaped_flipConfigT _ c hs) (flipConfigT_tagCanon _ c)
    have hx : ∀ fl : List Bool,
        flipConfigT (fun i => clusterLegs whole lab r i || flippedLegs whole lab reps fl i) c =
        flipConfigT (flippedLegs whole lab reps fl) (flipConfigT (clusterLegs whole lab r) c) := by
      intro fl
      rw [← flipConfigT_xorD]
      congr 1
      funext i
      unfold xorD
      cases h1 : clusterLegs whole lab r i
      · simp
      · cases h2 : flippedLegs whole lab reps fl i
        · simp
        · exfalso
          obtain ⟨r', hr', hin⟩ := flippedLegs_mem h2
          exact (List.pairwise_cons.mp hd).1 r' hr' i ⟨h1, hin⟩
    simp only [hx]
    rw [ih0, ih1]
    ring


/-! ### general facts about `flipsK` -/

/-- entries of probability 0 can be dropped -/
theorem flipsK_drop_zero {α ι : Type} [DecidableEq α] (w : ι → Rat) (hw : ∀ r, w r = 0 ∨ w r = 1)
    (F : ι → α → α) : ∀ (l : List ι) (a b : α),
    flipsK (l.map (fun r => (w r * (1 / 2), F r))) a b =
      flipsK ((l.filter (fun r => decide (w r = 1))).map (fun r => ((1 / 2 : Rat), F r))) a b
  | [], _, _ => rfl
  | r :: l, a, b => by
    rcases hw r with h | h
    · have hf : (r :: l).filter (fun r => decide (w r = 1)) = l.filter (fun r => decide (w r = 1)) :=
        List.filter_cons_of_neg (by rw [h]; norm_num)
      rw [hf]
      simp only [List.map_cons, flipsK]
      rw [h, flipsK_drop_zero w hw F l a b]
      ring
    · have hf : (r :: l).filter (fun r => decide (w r = 1)) = r :: l.filter (fun r => decide (w r = 1)) :=
        List.filter_cons_of_pos (by rw [h]; simp)
      rw [hf]
      simp only [List.map_cons, flipsK]
      rw [h, flipsK_drop_zero w hw F l a b, flipsK_drop_zero w hw F l (F r a) b]
      ring

/-- two lists of flips that agree on a set closed under them give the same kernel from that set -/
theorem flipsK_congr_on {α ι : Type} [DecidableEq α] (P : α → Prop) (q : ι → Rat) (F G : ι → α → α) :
    ∀ (l : List ι), (∀ r ∈ l, ∀ a, P a → F r a = G r a ∧ P (F r a)) → ∀ (a b : α), P a →
    flipsK (l.map (fun r => (q r, F r))) a b = flipsK (l.map (fun r => (q r, G r))) a b
  | [], _, _, _, _ => rfl
  | r :: l, h, a, b, ha => by
    have ih := flipsK_congr_on P q F G l (fun r' hr' => h r' (List.mem_cons_of_mem _ hr'))
    obtain ⟨e, hP⟩ := h r (by simp) a ha
    simp only [List.map_cons, flipsK]
    rw [ih a b ha, ih (F r a) b hP, e]


/-! ### the clusters the update flips, as a `ClusterFamily` -/

/-- representatives of the clusters in the order of the update's draws -/
def modelReps (sk : Skel) : List Nat := if (traverse sk).whole then [0] else (traverse sk).reps

/-- the closure's factor (0 or 1) of the cluster of `r` -/
def modelWeight (fr : SkOp → Bool) (sk : Skel) (r : Nat) : Rat :=
  clusterWeight fr (traverse sk).whole (compLab sk) (legGraph sk).opsAt r

theorem modelWeight_01 (fr : SkOp → Bool) (sk : Skel) (r : Nat) :
    modelWeight fr sk r = 0 ∨ modelWeight fr sk r = 1 := by
  unfold modelWeight clusterWeight
  split
  · exact Or.inl rfl
  · exact Or.inr rfl

/-- a cluster of weight 1 holds no non-edge operator of flip weight 0 -/
theorem modelWeight_one_free {fr : SkOp → Bool} {sk : Skel} {r : Nat} (h : modelWeight fr sk r = 1) :
    ((traverse sk).whole = false → ComponentFreeSk fr sk ((compLab sk)[r]!)) ∧
    ((traverse sk).whole = true → ∀ r0, ComponentFreeSk fr sk r0) := by
  unfold modelWeight clusterWeight at h
  split at h
  · exact absurd h (by norm_num)
  · rename_i hany
    rw [Bool.not_eq_true, List.any_eq_false] at hany
    constructor
    · intro hwh x hx hed hfr hpos heq
      have := hany x hx
      simp only [hfr, hpos, decide_true, hed, Bool.not_false, Bool.true_or, Bool.and_true, Bool.true_and,
        inCluster, hwh, Bool.false_or, beq_iff_eq] at this
      exact this heq
    · intro hwh r0 x hx hed hfr hpos _
      have := hany x hx
      simp [hfr, hpos, hed, inCluster, hwh] at this

theorem clusterLegs_false (lab : Array Nat) (r : Nat) :
    clusterLegs false lab r = fun i => lab[i]! == lab[r]! := by
  funext i; simp [clusterLegs, inCluster]

theorem clusterLegs_true (lab : Array Nat) (r : Nat) : clusterLegs true lab r = fun _ => true := by
  funext i; simp [clusterLegs, inCluster]

/-- **each cluster of weight 1 is flipped by a C09 cluster move** -/
theorem modelFlip_clusterMove (fr : SkOp → Bool) (c : Config) (hshape : ShapeOk c)
    (hn : NodupVars c.slots) (r : Nat) (h : modelWeight fr (skeleton c.slots) r = 1) :
    ClusterMove fr c
      (flipConfigT (clusterLegs (traverse (skeleton c.slots)).whole (compLab (skeleton c.slots)) r) c) := by
  obtain ⟨h0, h1⟩ := modelWeight_one_free h
  cases hwh : (traverse (skeleton c.slots)).whole
  · rw [clusterLegs_false]
    exact flipComponentT_clusterMove fr c _ hshape hn ((componentFree_iff fr c.slots hn _).mpr (h0 hwh))
  · rw [clusterLegs_true]
    refine clusterMove_canon (flipConfig_clusterMove fr _ c hshape hn (fun _ _ => rfl) ?_)
    intro x hx hed hfr hpos
    exact absurd rfl ((componentFree_iff fr c.slots hn _).mpr (h1 hwh _) x hx hed hfr hpos)

/-- the clusters of weight 1, in the order of the draws -/
def freeReps (fr : SkOp → Bool) (sk : Skel) : List Nat :=
  (modelReps sk).filter (fun r => decide (modelWeight fr sk r = 1))

/-- the flips the update offers on skeleton `sk`, on canonical-tag configurations -/
noncomputable def modelFlips (fr : SkOp → Bool) (sk : Skel) : List (Config → Config) :=
  (freeReps fr sk).map (fun r => tagFlip (clusterLegs (traverse sk).whole (compLab sk) r))

theorem mem_modelFlips {fr : SkOp → Bool} {sk : Skel} {f : Config → Config} (hf : f ∈ modelFlips fr sk) :
    ∃ r, modelWeight fr sk r = 1 ∧ f = tagFlip (clusterLegs (traverse sk).whole (compLab sk) r) := by
  unfold modelFlips freeReps at hf
  obtain ⟨r, hr, rfl⟩ := List.mem_map.mp hf
  rw [List.mem_filter] at hr
  exact ⟨r, of_decide_eq_true hr.2, rfl⟩

theorem modelFlips_move {fr : SkOp → Bool} {c : Config} (hshape : ShapeOk c) (hn : NodupVars c.slots)
    {f : Config → Config} (hf : f ∈ modelFlips fr (skeleton c.slots)) :
    f c = c ∨ ClusterMove fr c (f c) := by
  obtain ⟨r, hr, rfl⟩ := mem_modelFlips hf
  by_cases ht : TagCanon c.slots
  · right
    unfold tagFlip; rw [if_pos ht]
    exact modelFlip_clusterMove fr c hshape hn r hr
  · left
    unfold tagFlip; rw [if_neg ht]

/-- **the cluster family of the update itself**: per skeleton the clusters of weight 1 found by the
traversal (`traverse`), in the order of the draws; all fields from C09's theorems -/
noncomputable def ClusterFamily.ofModel (fr : SkOp → Bool) (H : Ham) (N L : Nat) (hV : VarsOK H N) :
    ClusterFamily fr (cfgSpace H N L) :=
  ClusterFamily.ofMoves (modelFlips fr)
    (by
      intro s f hf c hc _
      obtain ⟨r, -, rfl⟩ := mem_modelFlips hf
      have hs := (cfgSpace_shapeOk hV hc).1
      exact tagFlip_invol _ c (fun o ho => ⟨(hs o ho).1, (hs o ho).2.1⟩))
    (by
      intro s f hf g hg c _ _
      obtain ⟨r, -, rfl⟩ := mem_modelFlips hf
      obtain ⟨r', -, rfl⟩ := mem_modelFlips hg
      exact tagFlip_comm _ _ c)
    (by
      intro s f hf c hc hs
      obtain ⟨h1, h2⟩ := cfgSpace_shapeOk hV hc
      subst hs
      exact modelFlips_move h1 h2 hf)


/-! ### law of the cluster update = the cluster kernel of its own family -/

/-- **what is assumed of the traversal `traverse`** (`QmcModel/ClusterExact.lean`, the transliteration of
the stack traversal of `flip_each_cluster_rng`) on one skeleton — decidable; proved for every string whose
operators act on distinct variables and have at least one variable in `QmcProofs/LawTravOK.lean` (`Qmc.Law.travOK`,
`cfgSpace_travOK`), kept here as a hypothesis so that this file does not depend on that proof: it terminates
without reaching an `unreachable!()`, and the
representatives it returns lie in pairwise different components -/
structure TravOK (sk : Skel) : Prop where
  notBad : (traverse sk).bad = false
  nodup : ((traverse sk).reps.map (fun r => (compLab sk)[r]!)).Nodup

instance (sk : Skel) : Decidable (TravOK sk) :=
  decidable_of_iff ((traverse sk).bad = false ∧ ((traverse sk).reps.map (fun r => (compLab sk)[r]!)).Nodup)
    ⟨fun h => ⟨h.1, h.2⟩, fun h => ⟨h.1, h.2⟩⟩

theorem repsDisjoint_of_nodup (lab : Array Nat) : ∀ (reps : List Nat),
    (reps.map (fun r => lab[r]!)).Nodup → RepsDisjoint false lab reps
  | [], _ => List.Pairwise.nil
  | r :: reps, h => by
    simp only [List.map_cons, List.nodup_cons] at h
    refine List.Pairwise.cons (fun r' hr' i hi => ?_) (repsDisjoint_of_nodup lab reps h.2)
    simp only [inCluster, Bool.false_or, beq_iff_eq] at hi
    apply h.1
    rw [← hi.1, hi.2]
    exact List.mem_map.mpr ⟨r', hr', rfl⟩

theorem TravOK.disjoint {sk : Skel} (h : TravOK sk) :
    RepsDisjoint (traverse sk).whole (compLab sk) (modelReps sk) := by
  unfold modelReps
  cases hwh : (traverse sk).whole
  · simp only [Bool.false_eq_true, if_false]
    exact repsDisjoint_of_nodup _ _ h.nodup
  · simp only [if_true]
    exact List.pairwise_singleton _ _

theorem traverse_count_zero (sk : Skel) (h : (traverse sk).count = 0) :
    (traverse sk).whole = false ∧ (traverse sk).reps = [] := by
  unfold traverse at h ⊢
  by_cases h0 : (skCount sk == 0) = true
  · rw [if_pos h0]; exact ⟨rfl, rfl⟩
  · rw [if_neg h0] at h ⊢
    cases hf : findConstantOp sk with
    | none => rw [hf] at h; simp at h
    | some cp =>
      rw [hf] at h
      simp only at h ⊢
      exact ⟨trivial, by rw [Array.size_eq_zero_iff.mp h]⟩

theorem modelReps_of_count_zero (sk : Skel) (h : ((traverse sk).count == 0) = true) : modelReps sk = [] := by
  obtain ⟨h1, h2⟩ := traverse_count_zero sk (by simpa using h)
  unfold modelReps
  rw [h1, h2]; rfl

theorem ofModel_flips (fr : SkOp → Bool) (H : Ham) (N L : Nat) (hV : VarsOK H N) (s : Skel) :
    (ClusterFamily.ofModel fr H N L hV).flips s = modelFlips fr s := rfl

theorem tagFlip_of_tagCanon (D : Nat → Bool) {a : Config} (h : TagCanon a.slots) :
    tagFlip D a = flipConfigT D a := by
  unfold tagFlip; rw [if_pos h]

/-- **law of the cluster update** on a canonical-tag configuration of the space, for a traversal that
is `TravOK`: every cluster of weight 1 the traversal found is flipped independently with probability ½ -/
theorem law_clusterKT (fz : Nat → Bool) (H : Ham) (N L : Nat) (hV : VarsOK H N) (c : Config)
    (hc : c ∈ cfgSpace H N L) (ht : TagCanon c.slots) (htr : TravOK (skeleton c.slots)) (c' : Config) :
    PT.law (clusterKT (1 / 2) fz c) c' =
      clusterK (ClusterFamily.ofModel (fun o => fz o.bond) H N L hV) c c' := by
  have hshape := (cfgSpace_shapeOk hV hc).1
  have hsh : ShapedSlots c.slots := fun o ho => ⟨(hshape o ho).1, (hshape o ho).2.1⟩
  unfold clusterKT
  rw [if_neg (by rw [htr.notBad]; simp)]
  unfold clusterK fiberK clusterFlipList
  simp only [ofModel_flips]
  unfold clusterUpdateT
  simp only
  by_cases h0 : ((traverse (skeleton c.slots)).count == 0) = true
  · rw [if_pos h0]
    have : modelFlips (fun o => fz o.bond) (skeleton c.slots) = [] := by
      unfold modelFlips freeReps
      rw [modelReps_of_count_zero _ h0]; rfl
    rw [this]
    simp only [List.map_nil, flipsK, PT.law_ret]
  · rw [if_neg h0]
    have hres : clusterResult (traverse (skeleton c.slots)).whole (compLab (skeleton c.slots))
        (modelReps (skeleton c.slots)) c =
        fun fl => flipConfigT (flippedLegs (traverse (skeleton c.slots)).whole (compLab (skeleton c.slots))
          (modelReps (skeleton c.slots)) fl) c := by
      funext fl; exact clusterResult_eq _ _ _ c fl ht
    have hlaw := law_clusterFlips (traverse (skeleton c.slots)).whole (compLab (skeleton c.slots))
      (modelWeight (fun o => fz o.bond) (skeleton c.slots)) (modelWeight_01 _ _) c'
      (modelReps (skeleton c.slots)) htr.disjoint c hsh ht
    show PT.law (PT.map (clusterResult (traverse (skeleton c.slots)).whole (compLab (skeleton c.slots))
        (modelReps (skeleton c.slots)) c)
      (clusterFlipsT (1 / 2) ((modelReps (skeleton c.slots)).map
        (modelWeight (fun o => fz o.bond) (skeleton c.slots))))) c' = _
    rw [hres, hlaw, flipsK_drop_zero _ (modelWeight_01 _ _)]
    unfold modelFlips freeReps
    rw [List.map_map]
    refine flipsK_congr_on
      (fun a => a ∈ cfgSpace H N L ∧ skeleton a.slots = skeleton c.slots ∧ TagCanon a.slots)
      (fun _ => (1 / 2 : Rat)) _ _ _ (fun r hr a ha => ?_) c c' ⟨hc, rfl, ht⟩
    have hf : tagFlip (clusterLegs (traverse (skeleton c.slots)).whole (compLab (skeleton c.slots)) r) ∈
        (ClusterFamily.ofModel (fun o => fz o.bond) H N L hV).flips (skeleton c.slots) := by
      rw [ofModel_flips]
      unfold modelFlips freeReps
      exact List.mem_map.mpr ⟨r, hr, rfl⟩
    have e1 : tagFlip (clusterLegs (traverse (skeleton c.slots)).whole (compLab (skeleton c.slots)) r) a =
        flipConfigT (clusterLegs (traverse (skeleton c.slots)).whole (compLab (skeleton c.slots)) r) a :=
      tagFlip_of_tagCanon _ ha.2.2
    constructor
    · beta_reduce
      unfold guardFlip
      rw [if_pos ⟨ha.1, ha.2.1⟩, e1]
    · refine ⟨?_, ?_, flipConfigT_tagCanon _ a⟩
      · rw [← e1]
        exact (ClusterFamily.ofModel (fun o => fz o.bond) H N L hV).closed _ _ hf a ha.1 ha.2.1
      · rw [← e1]
        exact (ClusterFamily.ofModel (fun o => fz o.bond) H N L hV).skeleton_eq hf ha.1 ha.2.1

/-! ### the update's family vs. the component family -/

theorem commuting_perm {α : Type} {l1 l2 : List (Rat × (α → α))} (h : l1.Perm l2) (hc : Commuting l1) :
    Commuting l2 :=
  fun x hx y hy => hc x (h.symm.subset hx) y (h.symm.subset hy)

/-- the order of pairwise commuting flips does not matter -/
theorem flipsK_perm {α : Type} [DecidableEq α] {l1 l2 : List (Rat × (α → α))} (h : l1.Perm l2) :
    Commuting l1 → ∀ a b, flipsK l1 a b = flipsK l2 a b := by
  induction h with
  | nil => intro _ a b; rfl
  | cons x _ ih =>
    intro hc a b
    simp only [flipsK]
    rw [ih hc.tail a b, ih hc.tail (x.2 a) b]
  | swap x y l =>
    intro hc a b
    simp only [flipsK]
    have := hc x (by simp) y (by simp) a
    rw [this]
    ring
  | trans h1 _ ih1 ih2 =>
    intro hc a b
    rw [ih1 hc a b, ih2 (commuting_perm h1 hc) a b]

/-- **if the flips the update offers are, up to order, the flips of the components** (`componentFlips`:
one per flippable component, resp. the single flip of everything) — i.e. if the traversal is complete
and its notion of a frozen cluster agrees with `ComponentFreeSk` on this skeleton — **the cluster kernel of
the update's own family is the cluster kernel of `ClusterFamily.ofComponents`** of `KernelInvariance` -/
theorem clusterK_ofModel_eq_ofComponents (fr : SkOp → Bool) (H : Ham) (N L : Nat) (hV : VarsOK H N)
    (c c' : Config) (hperm : (modelFlips fr (skeleton c.slots)).Perm (componentFlips fr (skeleton c.slots))) :
    clusterK (ClusterFamily.ofModel fr H N L hV) c c' =
      clusterK (ClusterFamily.ofComponents fr H N L hV) c c' := by
  unfold clusterK fiberK
  refine flipsK_perm ?_ (clusterFlipList_comm _ _) c c'
  unfold clusterFlipList
  rw [ofModel_flips, ClusterFamily.ofComponents_flips]
  exact hperm.map _

end Qmc.Law
