/-
Helper lemmas for C06 / C07: propagation, rolling state, the imaginary-time fold, soundness of the
deciders of `QmcModel/Worldline.lean`, and preservation of `Consistent` / `Legal` by each relation.
-/
import QmcModel.Worldline
import QmcProofs.Common

namespace Qmc

/-! ### writeVars / readVars / inputsMatch
(`writeVars_length`, `readVars_length`, `propagate_length` are in QmcProofs/Common.lean) -/

theorem writeVars_nil_vars (st : List Bool) (vals : List Bool) : writeVars st [] vals = st := by
  simp [writeVars]

theorem writeVars_nil_vals (st : List Bool) (vars : List Nat) : writeVars st vars [] = st := by
  simp [writeVars]

theorem writeVars_cons (st : List Bool) (v : Nat) (vs : List Nat) (x : Bool) (xs : List Bool) :
    writeVars st (v :: vs) (x :: xs) = writeVars (st.set v x) vs xs := by
  simp [writeVars]

theorem inputsMatch_nil_vars (st : List Bool) (o : Op) (h : o.vars = []) : inputsMatch st o = true := by
  simp [inputsMatch, h]

/-- inputs match, as a statement about a variable list and a value list -/
def matchL (st : List Bool) (vars : List Nat) (vals : List Bool) : Bool :=
  (vars.zip vals).all (fun vb => st[vb.1]? == some vb.2)

theorem inputsMatch_eq (st : List Bool) (o : Op) : inputsMatch st o = matchL st o.vars o.ins := rfl

theorem matchL_cons (st : List Bool) (v : Nat) (vs : List Nat) (x : Bool) (xs : List Bool) :
    matchL st (v :: vs) (x :: xs) = ((st[v]? == some x) && matchL st vs xs) := by
  simp [matchL]

theorem matchL_nil_left (st : List Bool) (xs : List Bool) : matchL st [] xs = true := by simp [matchL]
theorem matchL_nil_right (st : List Bool) (vs : List Nat) : matchL st vs [] = true := by simp [matchL]

/-- writing values that are already there changes nothing -/
theorem writeVars_of_match (st : List Bool) (vars : List Nat) (vals : List Bool)
    (h : matchL st vars vals = true) : writeVars st vars vals = st := by
  induction vars generalizing st vals with
  | nil => simp [writeVars]
  | cons v vs ih =>
    cases vals with
    | nil => simp [writeVars]
    | cons x xs =>
      rw [matchL_cons, Bool.and_eq_true] at h
      rw [writeVars_cons]
      have hv : st[v]? = some x := by simpa using h.1
      have hset : st.set v x = st := by
        apply List.ext_getElem?
        intro i
        by_cases hi : i = v
        · subst hi
          rw [hv]
          have : i < st.length := by
            rcases Nat.lt_or_ge i st.length with hlt | hge
            · exact hlt
            · rw [List.getElem?_eq_none hge] at hv; cases hv
          simp [this]
        · have : v ≠ i := fun e => hi e.symm
          simp [this]
      rw [hset]
      exact ih st xs h.2

/-- reading the current values always matches, when the variables are in range -/
theorem matchL_readVars (st : List Bool) (vars : List Nat) (h : ∀ v, v ∈ vars → v < st.length) :
    matchL st vars (readVars st vars) = true := by
  induction vars with
  | nil => simp [matchL]
  | cons v vs ih =>
    have hv : v < st.length := h v (List.mem_cons_self ..)
    have : readVars st (v :: vs) = st.getD v false :: readVars st vs := by simp [readVars]
    rw [this, matchL_cons, Bool.and_eq_true]
    refine ⟨?_, ih (fun w hw => h w (List.mem_cons_of_mem _ hw))⟩
    simp [List.getD, List.getElem?_eq_getElem hv]

/-! ### propagation -/

theorem applyOp_eq_some {st : List Bool} {o : Op} {r : List Bool} (h : applyOp st o = some r) :
    inputsMatch st o = true ∧ r = writeVars st o.vars o.outs := by
  unfold applyOp at h
  split at h
  · rename_i hm
    exact ⟨hm, by cases h; rfl⟩
  · cases h

theorem applyOp_of_match {st : List Bool} {o : Op} (h : inputsMatch st o = true) :
    applyOp st o = some (writeVars st o.vars o.outs) := by
  simp [applyOp, h]

theorem propagate_none (st : List Bool) (t : Slots) : propagate st (none :: t) = propagate st t := rfl

theorem propagate_some_eq {st : List Bool} {o : Op} {t : Slots} {r : List Bool}
    (h : propagate st (some o :: t) = some r) :
    inputsMatch st o = true ∧ propagate (writeVars st o.vars o.outs) t = some r := by
  simp only [propagate] at h
  split at h
  · rename_i st' hap
    obtain ⟨hm, rfl⟩ := applyOp_eq_some hap
    exact ⟨hm, h⟩
  · cases h

theorem propagate_some_of {st : List Bool} {o : Op} {t : Slots}
    (hm : inputsMatch st o = true) :
    propagate st (some o :: t) = propagate (writeVars st o.vars o.outs) t := by
  simp [propagate, applyOp_of_match hm]

theorem propagate_append_none (st : List Bool) (s : Slots) (k : Nat) :
    propagate st (s ++ List.replicate k none) = propagate st s := by
  induction s generalizing st with
  | nil =>
    induction k with
    | zero => rfl
    | succ k ih => simpa [List.replicate_succ, propagate] using ih
  | cons x t ih =>
    cases x with
    | none => simpa [propagate] using ih st
    | some o =>
      simp only [List.cons_append, propagate]
      split
      · exact ih _
      · rfl

/-- checked propagation ends in the rolling state -/
theorem propagate_eq_rollEnd {st : List Bool} {s : Slots} {r : List Bool} (h : propagate st s = some r) :
    r = rollEnd st s := by
  induction s generalizing st with
  | nil => simp [propagate] at h; simp [rollEnd, h]
  | cons x t ih =>
    cases x with
    | none => simpa [rollEnd, stepState] using ih (st := st) (by simpa [propagate] using h)
    | some o =>
      obtain ⟨_, h2⟩ := propagate_some_eq h
      simpa [rollEnd, stepState] using ih h2

theorem propagate_append {st : List Bool} {s t : Slots} {r : List Bool}
    (h : propagate st (s ++ t) = some r) :
    ∃ m, propagate st s = some m ∧ propagate m t = some r := by
  induction s generalizing st with
  | nil => exact ⟨st, rfl, h⟩
  | cons x s ih =>
    cases x with
    | none => exact ih (by simpa [propagate] using h)
    | some o =>
      obtain ⟨hm, h2⟩ := propagate_some_eq (t := s ++ t) h
      obtain ⟨m, h3, h4⟩ := ih h2
      exact ⟨m, by rw [propagate_some_of hm]; exact h3, h4⟩

theorem propagate_append_of {st m r : List Bool} {s t : Slots}
    (h1 : propagate st s = some m) (h2 : propagate m t = some r) :
    propagate st (s ++ t) = some r := by
  induction s generalizing st with
  | nil => simp [propagate] at h1; subst h1; exact h2
  | cons x s ih =>
    cases x with
    | none => simpa [propagate] using ih (by simpa [propagate] using h1)
    | some o =>
      obtain ⟨hm, h3⟩ := propagate_some_eq h1
      rw [List.cons_append, propagate_some_of hm]
      exact ih h3

/-! ### the imaginary-time fold -/

theorem foldStates_length (st : List Bool) (s : Slots) : (foldStates st s).length = s.length := by
  induction s generalizing st with
  | nil => rfl
  | cons x t ih => simp [foldStates, ih]

theorem rollEnd_cons (st : List Bool) (x : Option Op) (t : Slots) :
    rollEnd st (x :: t) = rollEnd (stepState st x) t := rfl

theorem stateAt_zero (st : List Bool) (s : Slots) : stateAt st s 0 = st := by simp [stateAt, rollEnd]

theorem stateAt_succ (st : List Bool) (x : Option Op) (t : Slots) (p : Nat) :
    stateAt st (x :: t) (p + 1) = stateAt (stepState st x) t p := by
  simp [stateAt, rollEnd]

/-- the fold visits exactly the propagated states: entry `p` is the state after the first `p` slots -/
theorem foldStates_getElem? (st : List Bool) (s : Slots) (p : Nat) (hp : p < s.length) :
    (foldStates st s)[p]? = some (stateAt st s p) := by
  induction s generalizing st p with
  | nil => simp at hp
  | cons x t ih =>
    cases p with
    | zero => simp [foldStates, stateAt_zero]
    | succ p =>
      simp only [foldStates, List.getElem?_cons_succ, stateAt_succ]
      exact ih _ p (by simpa using hp)

theorem foldStates_eq_map (st : List Bool) (s : Slots) :
    foldStates st s = (List.range s.length).map (stateAt st s) := by
  apply List.ext_getElem?
  intro p
  by_cases hp : p < s.length
  · rw [foldStates_getElem? st s p hp]
    simp [List.getElem?_map, List.getElem?_range hp]
  · have h1 : (foldStates st s).length ≤ p := by rw [foldStates_length]; omega
    have h2 : ((List.range s.length).map (stateAt st s)).length ≤ p := by simp; omega
    rw [List.getElem?_eq_none h1, List.getElem?_eq_none h2]

/-- in a configuration that propagates, the op at slot `p` meets its recorded inputs in the
state the fold shows at `p` -/
theorem inputs_met_at {st : List Bool} {s : Slots} {r : List Bool} (h : propagate st s = some r)
    (p : Nat) (o : Op) (hp : s[p]? = some (some o)) : inputsMatch (stateAt st s p) o = true := by
  induction s generalizing st p with
  | nil => simp at hp
  | cons x t ih =>
    cases p with
    | zero =>
      simp at hp
      subst hp
      rw [stateAt_zero]
      exact (propagate_some_eq h).1
    | succ p =>
      rw [stateAt_succ]
      simp only [List.getElem?_cons_succ] at hp
      cases x with
      | none => exact ih (st := st) (by simpa [propagate] using h) p hp
      | some o' => exact ih (propagate_some_eq h).2 p hp

/-- relation with the after-op variant of `Basic.lean` -/
theorem statesVisited_eq (st : List Bool) (s : Slots) :
    st :: statesVisited st s = foldStates st s ++ [rollEnd st s] := by
  induction s generalizing st with
  | nil => simp [statesVisited, foldStates, rollEnd]
  | cons x t ih =>
    cases x with
    | none =>
      simp only [statesVisited, foldStates, List.cons_append, rollEnd_cons, stepState]
      rw [ih st]
    | some o =>
      simp only [statesVisited, foldStates, List.cons_append, rollEnd_cons, stepState]
      rw [ih]

/-! ### Legal: decider -/

theorem legalSlotsB_iff (H : Ham) (s : Slots) :
    legalSlotsB H s = true ↔ ∀ o, some o ∈ s → o.LegalFor H := by
  unfold legalSlotsB
  rw [List.all_eq_true]
  constructor
  · intro h o ho
    have := h (some o) ho
    simpa using this
  · intro h x hx
    cases x with
    | none => rfl
    | some o => simpa using h o hx

theorem legalB_iff (H : Ham) (c : Config) : legalB H c = true ↔ Legal H c :=
  legalSlotsB_iff H c.slots

theorem hamWFB_sound (H : Ham) (n : Nat) (h : hamWFB H n = true) : HamWF H n := by
  intro b hb
  unfold hamWFB at h
  rw [List.all_eq_true] at h
  have := h b (List.mem_range.mpr hb)
  rw [Bool.and_eq_true] at this
  refine ⟨by simpa using this.1, ?_⟩
  intro v hv
  have h2 := this.2
  rw [List.all_eq_true] at h2
  simpa using h2 v hv

theorem Legal.cons_iff (H : Ham) (st : List Bool) (x : Option Op) (t : Slots) :
    Legal H ⟨st, x :: t⟩ ↔ (∀ o, x = some o → o.LegalFor H) ∧ Legal H ⟨st, t⟩ := by
  unfold Legal
  simp only [List.mem_cons]
  constructor
  · intro h
    exact ⟨fun o ho => h o (Or.inl ho.symm), fun o ho => h o (Or.inr ho)⟩
  · rintro ⟨h1, h2⟩ o (ho | ho)
    · exact h1 o ho.symm
    · exact h2 o ho

/-! ### Diagonal sweep -/

theorem diagSlotsB_sound (H : Ham) (st : List Bool) (b a : Slots) (fin : List Bool)
    (h : diagSlotsB H st b a = some fin) : DiagSlots H st b a fin := by
  induction b generalizing st a with
  | nil =>
    cases a with
    | nil => simp [diagSlotsB] at h; subst h; exact DiagSlots.nil st
    | cons y a => simp [diagSlotsB] at h
  | cons x b ih =>
    cases a with
    | nil => cases x <;> simp [diagSlotsB] at h
    | cons y a =>
      cases x with
      | none =>
        cases y with
        | none => exact DiagSlots.skip (ih st a (by simpa [diagSlotsB] using h))
        | some o =>
          simp only [diagSlotsB] at h
          split at h
          · rename_i hc
            obtain ⟨h1, h2, h3⟩ := hc
            rw [h2]
            exact DiagSlots.insert o.bond h1 h3 (ih st a h)
          · cases h
      | some o =>
        cases y with
        | none =>
          simp only [diagSlotsB] at h
          split at h
          · rename_i hc; exact DiagSlots.remove o hc (ih st a h)
          · cases h
        | some o' =>
          simp only [diagSlotsB] at h
          split at h
          · rename_i he
            subst he
            split at h
            · rename_i hc; exact DiagSlots.keep o' hc (ih st a h)
            · rename_i hc
              exact DiagSlots.offdiag o' (by simpa using hc) (ih _ a h)
          · cases h

theorem diagSweepB_sound (H : Ham) (L : Nat) (b a : Config) (h : diagSweepB H L b a = true) :
    DiagSweepStep H L b a := by
  unfold diagSweepB at h
  rw [Bool.and_eq_true] at h
  exact ⟨diagSlotsB_sound H _ _ _ _ (by simpa using h.1), by simpa using h.2⟩

theorem insertedOp_legal (H : Ham) (n : Nat) (hH : HamWF H n) (st : List Bool) (bd : Nat)
    (hb : bd < H.nbonds)
    (hw : 0 < H.w bd (readVars st (H.vars bd)) (readVars st (H.vars bd))) :
    (insertedOp H st bd).LegalFor H := by
  refine ⟨hb, rfl, rfl, ?_, ?_, hw⟩
  · simp [insertedOp, Op.diagonal]
  · refine ⟨?_, ?_, (hH bd hb).1, fun _ => rfl⟩ <;> simp [insertedOp, Op.diagonal, readVars_length]

theorem insertedOp_match (H : Ham) (n : Nat) (hH : HamWF H n) (st : List Bool) (hn : st.length = n)
    (bd : Nat) (hb : bd < H.nbonds) : inputsMatch st (insertedOp H st bd) = true := by
  rw [inputsMatch_eq]
  exact matchL_readVars st (H.vars bd) (fun v hv => by rw [hn]; exact (hH bd hb).2 v hv)

theorem insertedOp_write (H : Ham) (n : Nat) (hH : HamWF H n) (st : List Bool) (hn : st.length = n)
    (bd : Nat) (hb : bd < H.nbonds) :
    writeVars st (insertedOp H st bd).vars (insertedOp H st bd).outs = st :=
  writeVars_of_match st _ _ (matchL_readVars st (H.vars bd) (fun v hv => by rw [hn]; exact (hH bd hb).2 v hv))

/-- a diagonal-tagged well-formed op that meets its inputs leaves the rolling state alone -/
theorem diag_transparent {st : List Bool} {o : Op} (hwf : o.WF) (ht : o.tagDiag = true)
    (hm : inputsMatch st o = true) : writeVars st o.vars o.outs = st := by
  rw [hwf.2.2.2 ht]
  exact writeVars_of_match st _ _ hm

/-- the sweep keeps propagation: same end state, and the rolling state the sweep hands back is
that end state -/
theorem diagSlots_propagate (H : Ham) (n : Nat) (hH : HamWF H n) {st : List Bool} {b a : Slots}
    {fin r : List Bool} (h : DiagSlots H st b a fin) (hn : st.length = n)
    (hwf : ∀ o, some o ∈ b → o.WF) (hp : propagate st b = some r) :
    propagate st a = some r ∧ fin = r := by
  induction h generalizing r with
  | nil st => simp [propagate] at hp; exact ⟨by simp [propagate, hp], hp⟩
  | skip _ ih =>
    have := ih hn (fun o ho => hwf o (List.mem_cons_of_mem _ ho)) (by simpa [propagate] using hp)
    exact ⟨by simpa [propagate] using this.1, this.2⟩
  | @insert st b a fin bd hb hw _ ih =>
    have := ih hn (fun o ho => hwf o (List.mem_cons_of_mem _ ho)) (by simpa [propagate] using hp)
    refine ⟨?_, this.2⟩
    rw [propagate_some_of (insertedOp_match H n hH st hn bd hb), insertedOp_write H n hH st hn bd hb]
    exact this.1
  | @keep st b a fin o ht _ ih =>
    obtain ⟨hm, h2⟩ := propagate_some_eq hp
    have hw := hwf o (List.mem_cons_self ..)
    rw [diag_transparent hw ht hm] at h2
    have := ih hn (fun o ho => hwf o (List.mem_cons_of_mem _ ho)) h2
    refine ⟨?_, this.2⟩
    rw [propagate_some_of hm, diag_transparent hw ht hm]
    exact this.1
  | @remove st b a fin o ht _ ih =>
    obtain ⟨hm, h2⟩ := propagate_some_eq hp
    have hw := hwf o (List.mem_cons_self ..)
    rw [diag_transparent hw ht hm] at h2
    have := ih hn (fun o ho => hwf o (List.mem_cons_of_mem _ ho)) h2
    exact ⟨by simpa [propagate] using this.1, this.2⟩
  | @offdiag st b a fin o ht _ ih =>
    obtain ⟨hm, h2⟩ := propagate_some_eq hp
    have := ih (by rw [writeVars_length]; exact hn) (fun o ho => hwf o (List.mem_cons_of_mem _ ho)) h2
    refine ⟨?_, this.2⟩
    rw [propagate_some_of hm]
    exact this.1

theorem diagSlots_legal (H : Ham) (n : Nat) (hH : HamWF H n) {st : List Bool} {b a : Slots}
    {fin : List Bool} (h : DiagSlots H st b a fin)
    (hl : ∀ o, some o ∈ b → o.LegalFor H) : ∀ o, some o ∈ a → o.LegalFor H := by
  induction h with
  | nil st => intro o ho; simp at ho
  | skip _ ih =>
    intro o ho
    simp only [List.mem_cons] at ho
    rcases ho with ho | ho
    · cases ho
    · exact ih (fun o ho => hl o (List.mem_cons_of_mem _ ho)) o ho
  | @insert st b a fin bd hb hw _ ih =>
    intro o ho
    simp only [List.mem_cons] at ho
    rcases ho with ho | ho
    · cases ho; exact insertedOp_legal H n hH st bd hb hw
    · exact ih (fun o ho => hl o (List.mem_cons_of_mem _ ho)) o ho
  | @keep st b a fin o' ht _ ih =>
    intro o ho
    simp only [List.mem_cons] at ho
    rcases ho with ho | ho
    · cases ho; exact hl _ (List.mem_cons_self ..)
    · exact ih (fun o ho => hl o (List.mem_cons_of_mem _ ho)) o ho
  | @remove st b a fin o' ht _ ih =>
    intro o ho
    simp only [List.mem_cons] at ho
    rcases ho with ho | ho
    · cases ho
    · exact ih (fun o ho => hl o (List.mem_cons_of_mem _ ho)) o ho
  | @offdiag st b a fin o' ht _ ih =>
    intro o ho
    simp only [List.mem_cons] at ho
    rcases ho with ho | ho
    · cases ho; exact hl _ (List.mem_cons_self ..)
    · exact ih (fun o ho => hl o (List.mem_cons_of_mem _ ho)) o ho

/-- off-diagonal operators are never touched, positions are kept, and the string only grows -/
theorem diagSlots_length {H : Ham} {st : List Bool} {b a : Slots} {fin : List Bool}
    (h : DiagSlots H st b a fin) : a.length = b.length := by
  induction h <;> simp_all

theorem diagSlots_offdiag {H : Ham} {st : List Bool} {b a : Slots} {fin : List Bool}
    (h : DiagSlots H st b a fin) (p : Nat) (o : Op) (ho : o.tagDiag = false) :
    b[p]? = some (some o) ↔ a[p]? = some (some o) := by
  induction h generalizing p with
  | nil st => simp
  | skip _ ih => cases p with
    | zero => simp
    | succ p => simpa using ih p
  | @insert st b a fin bd hb hw _ ih => cases p with
    | zero =>
      simp only [List.getElem?_cons_zero, Option.some.injEq]
      constructor
      · intro h; cases h
      · intro h; rw [← h] at ho; simp [insertedOp, Op.diagonal] at ho
    | succ p => simpa using ih p
  | @keep st b a fin o' ht _ ih => cases p with
    | zero => simp
    | succ p => simpa using ih p
  | @remove st b a fin o' ht _ ih => cases p with
    | zero =>
      simp only [List.getElem?_cons_zero, Option.some.injEq]
      constructor
      · intro h; rw [h] at ht; rw [ht] at ho; cases ho
      · intro h; cases h
    | succ p => simpa using ih p
  | @offdiag st b a fin o' ht _ ih => cases p with
    | zero => simp
    | succ p => simpa using ih p

theorem padTo_take_of_le (s : Slots) (L : Nat) (h : s.length ≤ L) :
    (padTo s L).take L = padTo s L ∧ (padTo s L).drop L = [] := by
  have hl : (padTo s L).length = L := by simp [padTo]; omega
  exact ⟨List.take_of_length_le (by omega), List.drop_of_length_le (by omega)⟩

/-- Preservation by one diagonal sweep that covers the whole string (`length ≤ L`). -/
theorem diagSweep_pres_aux (H : Ham) (n L : Nat) (hH : HamWF H n) (b a : Config)
    (hn : b.state.length = n) (hL : b.slots.length ≤ L) (hc : Consistent b) (hl : Legal H b)
    (h : DiagSweepStep H L b a) : Consistent a ∧ Legal H a ∧ a.state = b.state := by
  obtain ⟨h1, h2⟩ := h
  obtain ⟨ht, hd⟩ := padTo_take_of_le b.slots L hL
  rw [ht] at h1
  rw [hd] at h2
  have ha : a.slots = a.slots.take L := by
    have := List.take_append_drop L a.slots
    rw [h2, List.append_nil] at this
    exact this.symm
  have hwf : ∀ o, some o ∈ padTo b.slots L → o.WF := by
    intro o ho
    simp only [padTo, List.mem_append, List.mem_replicate] at ho
    rcases ho with ho | ho
    · exact (hl o ho).2.2.2.2.1
    · cases ho.2
  have hp : propagate b.state (padTo b.slots L) = some b.state := by
    unfold padTo; rw [propagate_append_none]; exact hc
  obtain ⟨h3, h4⟩ := diagSlots_propagate H n hH h1 hn hwf hp
  refine ⟨?_, ?_, h4⟩
  · unfold Consistent; rw [ha, h4]; exact h3
  · intro o ho
    rw [ha] at ho
    refine diagSlots_legal H n hH h1 ?_ o ho
    intro o ho
    simp only [padTo, List.mem_append, List.mem_replicate] at ho
    rcases ho with ho | ho
    · exact hl o ho
    · cases ho.2

/-! ### xor lemma: link-closed flips keep consistency -/

/-- `xorB` (QmcModel/Common.lean, used by the shared `maskOp` / `maskSlots`) is `xorBits`: `xor` is an
abbreviation of `bne` -/
theorem xorB_eq_xorBits (a b : List Bool) : xorB a b = xorBits a b := rfl

theorem xorBits_length (a b : List Bool) : (xorBits a b).length = min a.length b.length := by
  simp [xorBits]

theorem xorBits_getElem? (a b : List Bool) (i : Nat) (x y : Bool) (ha : a[i]? = some x)
    (hb : b[i]? = some y) : (xorBits a b)[i]? = some (xor x y) := by
  simp [xorBits, List.getElem?_zipWith, ha, hb]

theorem xorBits_set (a b : List Bool) (i : Nat) (x y : Bool) :
    xorBits (a.set i x) (b.set i y) = (xorBits a b).set i (xor x y) := by
  apply List.ext_getElem?
  intro j
  simp only [xorBits, List.getElem?_zipWith, List.getElem?_set]
  by_cases hij : i = j
  · subst hij
    by_cases h1 : i < a.length <;> by_cases h2 : i < b.length <;>
      simp [h1, h2, List.length_zipWith] <;> omega
  · simp [hij]

theorem xorBits_cancel (a b : List Bool) (h : b.length = a.length) : xorBits a (xorBits a b) = b := by
  induction a generalizing b with
  | nil => cases b with
    | nil => rfl
    | cons y b => simp at h
  | cons x a ih =>
    cases b with
    | nil => simp at h
    | cons y b =>
      simp only [xorBits, List.zipWith_cons_cons, List.cons.injEq]
      refine ⟨by cases x <;> cases y <;> rfl, ?_⟩
      exact ih b (by simpa using h)

theorem matchL_xor (s t : List Bool) (vars : List Nat) (x y : List Bool)
    (hx : matchL s vars x = true) (hy : matchL t vars y = true) :
    matchL (xorBits s t) vars (xorBits x y) = true := by
  induction vars generalizing x y with
  | nil => simp [matchL]
  | cons v vs ih =>
    cases x with
    | nil => simp [xorBits, matchL]
    | cons a x =>
      cases y with
      | nil => simp [xorBits, matchL]
      | cons c y =>
        rw [matchL_cons, Bool.and_eq_true] at hx hy
        have : xorBits (a :: x) (c :: y) = xor a c :: xorBits x y := by simp [xorBits]
        rw [this, matchL_cons, Bool.and_eq_true]
        refine ⟨?_, ih x y hx.2 hy.2⟩
        have h1 : s[v]? = some a := by simpa using hx.1
        have h2 : t[v]? = some c := by simpa using hy.1
        simp [xorBits_getElem? s t v a c h1 h2]

theorem writeVars_xor (s t : List Bool) (vars : List Nat) (x y : List Bool) (h : x.length = y.length) :
    writeVars (xorBits s t) vars (xorBits x y) = xorBits (writeVars s vars x) (writeVars t vars y) := by
  induction vars generalizing s t x y with
  | nil => simp [writeVars]
  | cons v vs ih =>
    cases x with
    | nil =>
      cases y with
      | nil => simp [writeVars, xorBits]
      | cons c y => simp at h
    | cons a x =>
      cases y with
      | nil => simp at h
      | cons c y =>
        have : xorBits (a :: x) (c :: y) = xor a c :: xorBits x y := by simp [xorBits]
        rw [this, writeVars_cons, writeVars_cons, writeVars_cons, ← xorBits_set]
        exact ih _ _ x y (by simpa using h)

/-- pointwise: `a = b xor m` on a common skeleton -/
inductive XorRel : Slots → Slots → Slots → Prop
  | nil : XorRel [] [] []
  | none {b m a} : XorRel b m a → XorRel (none :: b) (none :: m) (none :: a)
  | some {b m a} (ob om oa : Op) : om.vars = ob.vars → oa.vars = ob.vars →
      oa.ins = xorBits ob.ins om.ins → oa.outs = xorBits ob.outs om.outs →
      ob.outs.length = om.outs.length → XorRel b m a →
      XorRel (some ob :: b) (some om :: m) (some oa :: a)

/-- **Propagation commutes with xor**: if `b` propagates `s` to `r` and the mask `m` propagates
the mask state `t` to `u`, then `b xor m` propagates `s xor t` to `r xor u`. -/
theorem propagate_xor {b m a : Slots} (h : XorRel b m a) {s t r u : List Bool}
    (hb : propagate s b = some r) (hm : propagate t m = some u) :
    propagate (xorBits s t) a = some (xorBits r u) := by
  induction h generalizing s t with
  | nil => simp [propagate] at hb hm ⊢; rw [hb, hm]
  | none _ ih => exact ih (by simpa [propagate] using hb) (by simpa [propagate] using hm)
  | some ob om oa hv1 hv2 hi ho hlen _ ih =>
    obtain ⟨hmb, hb2⟩ := propagate_some_eq hb
    obtain ⟨hmm, hm2⟩ := propagate_some_eq hm
    have hma : inputsMatch (xorBits s t) oa = true := by
      rw [inputsMatch_eq, hv2, hi]
      rw [inputsMatch_eq] at hmb hmm
      rw [hv1] at hmm
      exact matchL_xor s t ob.vars ob.ins om.ins hmb hmm
    rw [propagate_some_of hma, hv2, ho, writeVars_xor _ _ _ _ _ hlen]
    rw [hv1] at hm2
    exact ih hb2 hm2

theorem sameSkeletonB_sound (b a : Slots) (h : sameSkeletonB b a = true) : SameSkeleton b a := by
  induction b generalizing a with
  | nil => cases a with
    | nil => exact SameSkeleton.nil
    | cons y a => simp [sameSkeletonB] at h
  | cons x b ih =>
    cases a with
    | nil => cases x <;> simp [sameSkeletonB] at h
    | cons y a =>
      cases x with
      | none => cases y with
        | none => exact SameSkeleton.none (ih a (by simpa [sameSkeletonB] using h))
        | some o' => simp [sameSkeletonB] at h
      | some o => cases y with
        | none => simp [sameSkeletonB] at h
        | some o' =>
          simp only [sameSkeletonB, Bool.and_eq_true, decide_eq_true_eq] at h
          exact SameSkeleton.some o o' h.1.1 h.1.2 (ih a h.2)

theorem spinFlipB_sound (b a : Config) (h : spinFlipB b a = true) : SpinFlipStep b a := by
  simp only [spinFlipB, Bool.and_eq_true, decide_eq_true_eq] at h
  exact ⟨h.1.1, sameSkeletonB_sound _ _ h.1.2, h.2⟩

theorem xorRel_of_sameSkeleton {b a : Slots} (h : SameSkeleton b a) : XorRel b (maskSlots b a) a := by
  induction h with
  | nil => exact XorRel.nil
  | none _ ih => exact XorRel.none ih
  | some o o' hs _ _ ih =>
    obtain ⟨hv, _, _, hi, ho⟩ := hs
    refine XorRel.some o (maskOp o o') o' rfl hv ?_ ?_ ?_ ih
    · exact (xorBits_cancel o.ins o'.ins hi).symm
    · exact (xorBits_cancel o.outs o'.outs ho).symm
    · simp [maskOp, xorB_eq_xorBits, xorBits_length, ho]

/-- **Link-closed flips keep consistency** (shared by cluster / loop / free refresh / RVB spin
part): on a common skeleton, if the flip mask is a consistent mask configuration then the flipped
configuration is consistent. -/
theorem linkClosed_flip_consistent_aux (b a : Config) (hc : Consistent b) (h : SpinFlipStep b a) :
    Consistent a := by
  obtain ⟨hlen, hs, hm⟩ := h
  have := propagate_xor (xorRel_of_sameSkeleton hs) hc hm
  simp only [maskConfig] at this
  rw [xorBits_cancel b.state a.state hlen] at this
  exact this

theorem sameSkeleton_length {b a : Slots} (h : SameSkeleton b a) : a.length = b.length := by
  induction h <;> simp_all

/-- spin-only updates keep which bond sits at which position -/
theorem sameSkeleton_bondAt {b a : Slots} (h : SameSkeleton b a) (st st' : List Bool) (p : Nat) :
    bondAt ⟨st', a⟩ p = bondAt ⟨st, b⟩ p := by
  induction h generalizing p with
  | nil => simp [bondAt]
  | none _ ih => cases p with
    | zero => simp [bondAt]
    | succ p => simpa [bondAt] using ih p
  | some o o' hs _ _ ih => cases p with
    | zero => simp [bondAt, hs.2.1]
    | succ p => simpa [bondAt] using ih p

/-- structural part of legality survives a spin flip; the weight is the hypothesis -/
theorem sameSkeleton_legal (H : Ham) {b a : Slots} (h : SameSkeleton b a)
    (hw : FlipKeepsWeight H b a) (hl : ∀ o, some o ∈ b → o.LegalFor H) :
    ∀ o, some o ∈ a → o.LegalFor H := by
  induction h with
  | nil => intro o ho; simp at ho
  | none _ ih =>
    intro o ho
    simp only [List.mem_cons] at ho
    rcases ho with ho | ho
    · cases ho
    · exact ih (by simpa [FlipKeepsWeight] using hw) (fun o ho => hl o (List.mem_cons_of_mem _ ho)) o ho
  | some o1 o2 hs ht _ ih =>
    intro o ho
    simp only [FlipKeepsWeight] at hw
    simp only [List.mem_cons] at ho
    rcases ho with ho | ho
    · cases ho
      have hl1 := hl o1 (List.mem_cons_self ..)
      rcases hw.1 with he | hpos
      · rw [he]; exact hl1
      · obtain ⟨hv, hb, hcst, hi, hou⟩ := hs
        obtain ⟨l1, l2, l3, l4, l5, l6⟩ := hl1
        have htag : o2.tagDiag = true ↔ o2.ins = o2.outs := by
          rcases ht with he | he
          · rw [he]; exact l4
          · rw [he]; simp
        refine ⟨by rw [hb]; exact l1, by rw [hv, hb]; exact l2, by rw [hcst, hb]; exact l3, htag, ?_, hpos⟩
        refine ⟨by rw [hi, hv]; exact l5.1, by rw [hou, hv]; exact l5.2.1, by rw [hv]; exact l5.2.2.1, ?_⟩
        intro h; exact (htag.mp h).symm
    · exact ih hw.2 (fun o ho => hl o (List.mem_cons_of_mem _ ho)) o ho

theorem flipKeepsWeightB_sound (H : Ham) (b a : Slots) (h : flipKeepsWeightB H b a = true) :
    FlipKeepsWeight H b a := by
  induction b generalizing a with
  | nil => cases a <;> simp [FlipKeepsWeight]
  | cons x b ih =>
    cases a with
    | nil => cases x <;> simp [FlipKeepsWeight]
    | cons y a =>
      cases x with
      | none => cases y <;> simpa [FlipKeepsWeight] using ih a (by simpa [flipKeepsWeightB] using h)
      | some o => cases y with
        | none => simpa [FlipKeepsWeight] using ih a (by simpa [flipKeepsWeightB] using h)
        | some o' =>
          simp only [flipKeepsWeightB, Bool.and_eq_true, Bool.or_eq_true, decide_eq_true_eq] at h
          exact ⟨h.1, ih a h.2⟩

/-! ### free-spin refresh -/

theorem sameSkeleton_refl (s : Slots) : SameSkeleton s s := by
  induction s with
  | nil => exact SameSkeleton.nil
  | cons x t ih =>
    cases x with
    | none => exact SameSkeleton.none ih
    | some o => exact SameSkeleton.some o o ⟨rfl, rfl, rfl, rfl, rfl⟩ (Or.inl rfl) ih

theorem xorBits_self_false (x : List Bool) : ∀ y, y ∈ xorBits x x → y = false := by
  induction x with
  | nil => intro y hy; simp [xorBits] at hy
  | cons a x ih =>
    intro y hy
    simp only [xorBits, List.zipWith_cons_cons, List.mem_cons] at hy
    rcases hy with hy | hy
    · rw [hy]; cases a <;> rfl
    · exact ih y hy

theorem matchL_allFalse (t : List Bool) (vars : List Nat) (vals : List Bool)
    (hv : ∀ v, v ∈ vars → t[v]? = some false) (hf : ∀ y, y ∈ vals → y = false) :
    matchL t vars vals = true := by
  induction vars generalizing vals with
  | nil => simp [matchL]
  | cons v vs ih =>
    cases vals with
    | nil => simp [matchL]
    | cons y ys =>
      rw [matchL_cons, Bool.and_eq_true]
      refine ⟨?_, ih ys (fun w hw => hv w (List.mem_cons_of_mem _ hw)) (fun z hz => hf z (List.mem_cons_of_mem _ hz))⟩
      rw [hf y (List.mem_cons_self ..), hv v (List.mem_cons_self ..)]
      simp

theorem zeroMask_propagate (t : List Bool) (s : Slots)
    (hv : ∀ o, some o ∈ s → ∀ v, v ∈ o.vars → t[v]? = some false) :
    propagate t (maskSlots s s) = some t := by
  induction s with
  | nil => simp [maskSlots, propagate]
  | cons x s ih =>
    cases x with
    | none =>
      simp only [maskSlots, propagate]
      exact ih (fun o ho => hv o (List.mem_cons_of_mem _ ho))
    | some o =>
      simp only [maskSlots]
      have hvo := hv o (List.mem_cons_self ..)
      have hm : inputsMatch t (maskOp o o) = true := by
        rw [inputsMatch_eq]
        exact matchL_allFalse t o.vars _ hvo (xorBits_self_false o.ins)
      have hw : writeVars t (maskOp o o).vars (maskOp o o).outs = t :=
        writeVars_of_match t _ _ (matchL_allFalse t o.vars _ hvo (xorBits_self_false o.outs))
      rw [propagate_some_of hm, hw]
      exact ih (fun o ho => hv o (List.mem_cons_of_mem _ ho))

theorem mem_coveredVars {s : Slots} {o : Op} {v : Nat} (ho : some o ∈ s) (hv : v ∈ o.vars) :
    v ∈ coveredVars s := by
  unfold coveredVars
  rw [List.mem_flatMap]
  exact ⟨some o, ho, hv⟩

/-- the free-spin refresh is a spin flip with an empty operator mask -/
theorem free_spinFlip (H : Ham) (n : Nat) (hH : HamWF H n) (b a : Config) (hn : b.state.length = n)
    (hl : Legal H b) (h : FreeStep b a) : SpinFlipStep b a := by
  obtain ⟨hs, hlen, hv⟩ := h
  refine ⟨hlen, by rw [hs]; exact sameSkeleton_refl _, ?_⟩
  unfold Consistent maskConfig
  simp only
  rw [hs]
  apply zeroMask_propagate
  intro o ho v hvo
  have hcov := hv v (mem_coveredVars ho hvo)
  obtain ⟨l1, l2, _⟩ := hl o ho
  have hvn : v < n := (hH o.bond l1).2 v (by rw [← l2]; exact hvo)
  have h1 : v < b.state.length := by omega
  have h2 : v < a.state.length := by omega
  rw [List.getElem?_eq_getElem h1, List.getElem?_eq_getElem h2] at hcov
  have := xorBits_getElem? b.state a.state v _ _ (List.getElem?_eq_getElem h1) (List.getElem?_eq_getElem h2)
  rw [this]
  simp only [Option.some.injEq] at hcov
  rw [hcov]; simp

theorem freeB_sound (b a : Config) (h : freeB b a = true) : FreeStep b a := by
  simp only [freeB, Bool.and_eq_true, decide_eq_true_eq, List.all_eq_true, beq_iff_eq] at h
  exact ⟨h.1.1, h.1.2, h.2⟩

theorem flipKeepsWeight_refl (H : Ham) (s : Slots) : FlipKeepsWeight H s s := by
  induction s with
  | nil => simp [FlipKeepsWeight]
  | cons x s ih => cases x <;> simp [FlipKeepsWeight, ih]

/-! ### re-bonding (RVB) -/

theorem rebondSlotsB_sound (H : Ham) (st : List Bool) (m a : Slots) (h : rebondSlotsB H st m a = true) :
    RebondSlots H st m a := by
  induction m generalizing st a with
  | nil => cases a with
    | nil => exact RebondSlots.nil st
    | cons y a => simp [rebondSlotsB] at h
  | cons x m ih =>
    cases a with
    | nil => cases x <;> simp [rebondSlotsB] at h
    | cons y a =>
      cases x with
      | none => cases y with
        | none => exact RebondSlots.none (ih st a (by simpa [rebondSlotsB] using h))
        | some o' => simp [rebondSlotsB] at h
      | some o => cases y with
        | none => simp [rebondSlotsB] at h
        | some o' =>
          simp only [rebondSlotsB] at h
          split at h
          · rename_i he; subst he; exact RebondSlots.same o' (ih _ a h)
          · simp only [Bool.and_eq_true, decide_eq_true_eq] at h
            obtain ⟨⟨h1, h2, h3, h4, h5, h6, h7, h8, h9⟩, h10⟩ := h
            rw [h8]
            exact RebondSlots.rebond o o'.bond h1 h2 h3 h4 h5 h6 h7 h9 (ih st a h10)

theorem rebondSlots_propagate (H : Ham) (n : Nat) (hH : HamWF H n) {st : List Bool} {m a : Slots}
    {r : List Bool} (h : RebondSlots H st m a) (hn : st.length = n)
    (hp : propagate st m = some r) : propagate st a = some r := by
  induction h generalizing r with
  | nil st => exact hp
  | none _ ih => exact ih hn (by simpa [propagate] using hp) |> fun x => by simpa [propagate] using x
  | same o _ ih =>
    obtain ⟨hm, h2⟩ := propagate_some_eq hp
    rw [propagate_some_of hm]
    exact ih (by rw [writeVars_length]; exact hn) h2
  | @rebond st m a o bd ht ho hm _ _ hb _ _ _ ih =>
    obtain ⟨_, h2⟩ := propagate_some_eq hp
    have hw : writeVars st o.vars o.outs = st := by rw [ho]; exact writeVars_of_match st _ _ hm
    rw [hw] at h2
    rw [propagate_some_of (insertedOp_match H n hH st hn bd hb), insertedOp_write H n hH st hn bd hb]
    exact ih hn h2

theorem rebond_pres (H : Ham) (n : Nat) (hH : HamWF H n) (m a : Config) (hn : m.state.length = n)
    (hc : Consistent m) (h : RebondStep H m a) : Consistent a := by
  obtain ⟨hs, hr⟩ := h
  unfold Consistent
  rw [hs]
  exact rebondSlots_propagate H n hH hr hn hc

theorem rvbB_sound (H : Ham) (b a : Config) (h : rvbB H b a = true) : RvbStep H b a := by
  simp only [rvbB, Bool.and_eq_true] at h
  refine ⟨rvbMid b a, spinFlipB_sound _ _ h.1, ?_⟩
  have h2 := h.2
  simp only [rebondB, Bool.and_eq_true, decide_eq_true_eq] at h2
  exact ⟨h2.1, rebondSlotsB_sound H _ _ _ h2.2⟩

/-- an RVB update keeps consistency -/
theorem rvb_consistent (H : Ham) (n : Nat) (hH : HamWF H n) (b a : Config) (hn : b.state.length = n)
    (hc : Consistent b) (h : RvbStep H b a) : Consistent a := by
  obtain ⟨m, h1, h2⟩ := h
  exact rebond_pres H n hH m a (by rw [h1.1]; exact hn) (linkClosed_flip_consistent_aux b m hc h1) h2

theorem sameSkel_legal_op (H : Ham) {o1 o2 : Op} (hs : o1.sameSkel o2) (ht : o1.tagOk o2)
    (hw : o2 = o1 ∨ 0 < H.w o2.bond o2.ins o2.outs) (hl1 : o1.LegalFor H) : o2.LegalFor H := by
  rcases hw with he | hpos
  · rw [he]; exact hl1
  · obtain ⟨hv, hb, hcst, hi, hou⟩ := hs
    obtain ⟨l1, l2, l3, l4, l5, l6⟩ := hl1
    have htag : o2.tagDiag = true ↔ o2.ins = o2.outs := by
      rcases ht with he | he
      · rw [he]; exact l4
      · rw [he]; simp
    refine ⟨by rw [hb]; exact l1, by rw [hv, hb]; exact l2, by rw [hcst, hb]; exact l3, htag, ?_, hpos⟩
    refine ⟨by rw [hi, hv]; exact l5.1, by rw [hou, hv]; exact l5.2.1, by rw [hv]; exact l5.2.2.1, ?_⟩
    intro h; exact (htag.mp h).symm

/-- legality after an RVB update: kept operators by the weight hypothesis, re-bonded ones by
construction -/
theorem rvb_legal_slots (H : Ham) (n : Nat) (hH : HamWF H n) {b m a : Slots} {st : List Bool}
    (hs : SameSkeleton b m) (hr : RebondSlots H st m a) (hw : FlipKeepsWeight H b a)
    (hl : ∀ o, some o ∈ b → o.LegalFor H) : ∀ o, some o ∈ a → o.LegalFor H := by
  induction hs generalizing st a with
  | nil => cases hr; intro o ho; simp at ho
  | none _ ih =>
    cases hr with
    | none hr' =>
      intro o ho
      simp only [List.mem_cons] at ho
      rcases ho with ho | ho
      · cases ho
      · exact ih hr' (by simpa [FlipKeepsWeight] using hw) (fun o ho => hl o (List.mem_cons_of_mem _ ho)) o ho
  | some o1 o2 hsk ht _ ih =>
    cases hr with
    | same _ hr' =>
      intro o ho
      simp only [FlipKeepsWeight] at hw
      simp only [List.mem_cons] at ho
      rcases ho with ho | ho
      · cases ho
        exact sameSkel_legal_op H hsk ht hw.1 (hl o1 (List.mem_cons_self ..))
      · exact ih hr' hw.2 (fun o ho => hl o (List.mem_cons_of_mem _ ho)) o ho
    | rebond _ bd _ _ _ _ _ hb _ hpos hr' =>
      intro o ho
      simp only [FlipKeepsWeight] at hw
      simp only [List.mem_cons] at ho
      rcases ho with ho | ho
      · cases ho
        exact insertedOp_legal H n hH _ bd hb hpos
      · exact ih hr' hw.2 (fun o ho => hl o (List.mem_cons_of_mem _ ho)) o ho

/-! ### moves -/

theorem moveB_sound (b a : Config) (h : moveB b a = true) : MoveStep b a := by
  simp only [moveB, Bool.and_eq_true, decide_eq_true_eq] at h
  exact ⟨h.1, _, h.2⟩

theorem move_consistent (b a : Config) (hc : Consistent b) (h : MoveStep b a) : Consistent a := by
  obtain ⟨hs, k, hk⟩ := h
  unfold Consistent
  rw [hs, hk, propagate_append_none]
  exact hc

theorem move_legal (H : Ham) (b a : Config) (hl : Legal H b) (h : MoveStep b a) : Legal H a := by
  obtain ⟨_, k, hk⟩ := h
  intro o ho
  rw [hk] at ho
  simp only [List.mem_append, List.mem_replicate] at ho
  rcases ho with ho | ho
  · exact hl o ho
  · cases ho.2

theorem legal_transfer (H H' : Ham) (c : Config) (hs : SupportLe H H') (hl : Legal H c) : Legal H' c := by
  intro o ho
  obtain ⟨l1, l2, l3, l4, l5, l6⟩ := hl o ho
  obtain ⟨s1, s2, s3, s4⟩ := hs o.bond l1
  exact ⟨s1, by rw [s2]; exact l2, by rw [s3]; exact l3, l4, l5, s4 _ _ l6⟩

/-! ### one call, histories -/

theorem step_pres (H : Ham) (n : Nat) (hH : HamWF H n) (b a : Config) (h : Step H b a)
    (hn : b.state.length = n) (hc : Consistent b) (hl : Legal H b) :
    Consistent a ∧ Legal H a ∧ a.state.length = n := by
  cases h with
  | diag L hL hd =>
    obtain ⟨h1, h2, h3⟩ := diagSweep_pres_aux H n L hH b a hn hL hc hl hd
    exact ⟨h1, h2, by rw [h3]; exact hn⟩
  | flip hf hw =>
    refine ⟨linkClosed_flip_consistent_aux b a hc hf, ?_, by rw [hf.1]; exact hn⟩
    exact sameSkeleton_legal H hf.2.1 hw hl
  | rvb hr hw =>
    refine ⟨rvb_consistent H n hH b a hn hc hr, ?_, ?_⟩
    · obtain ⟨m, h1, h2⟩ := hr
      exact rvb_legal_slots H n hH h1.2.1 h2.2 hw hl
    · obtain ⟨m, h1, h2⟩ := hr
      rw [h2.1, h1.1]; exact hn
  | move hm =>
    exact ⟨move_consistent b a hc hm, move_legal H b a hl hm, by rw [hm.1]; exact hn⟩

theorem history_inv (n : Nat) (l : List (Ham × Config)) : ∀ (H : Ham) (c : Config), HamWF H n →
    c.state.length = n → Consistent c → Legal H c → History n H c l →
    ∀ hc, hc ∈ l → Consistent hc.2 ∧ Legal hc.1 hc.2 := by
  induction l with
  | nil => intro H c _ _ _ _ _ hc h; simp at h
  | cons x rest ih =>
    intro H c hH hn hcons hleg hist hc hmem
    obtain ⟨H', c'⟩ := x
    simp only [History] at hist
    obtain ⟨hstep, hrest⟩ := hist
    have key : HamWF H' n ∧ Consistent c' ∧ Legal H' c' ∧ c'.state.length = n := by
      rcases hstep with ⟨he, hs⟩ | ⟨hH', hsup, hm⟩
      · subst he
        exact ⟨hH, step_pres _ n hH c c' hs hn hcons hleg⟩
      · exact ⟨hH', move_consistent c c' hcons hm,
          legal_transfer H H' c' hsup (move_legal H c c' hleg hm), by rw [hm.1]; exact hn⟩
    simp only [List.mem_cons] at hmem
    rcases hmem with he | hmem
    · subst he; exact ⟨key.2.1, key.2.2.1⟩
    · exact ih H' c' key.1 key.2.2.2 key.2.1 key.2.2.1 hrest hc hmem

/-- the empty string with any state is consistent and legal -/
theorem empty_consistent_legal (H : Ham) (st : List Bool) (L : Nat) :
    Consistent ⟨st, List.replicate L none⟩ ∧ Legal H ⟨st, List.replicate L none⟩ := by
  constructor
  · unfold Consistent
    have := propagate_append_none st [] L
    simpa [propagate] using this
  · intro o ho
    simp only [List.mem_replicate] at ho
    cases ho.2

end Qmc
