/-
Helper lemmas for C06 / C07: propagation, rolling state, the imaginary-time fold, soundness of the
deciders of `QmcModel/Worldline.lean`, and preservation of `Consistent` / `Legal` by each relation.
-/
import QmcModel.Worldline

namespace Qmc

/-! ### writeVars / readVars / inputsMatch -/

theorem writeVars_length (st : List Bool) (vars : List Nat) (vals : List Bool) :
    (writeVars st vars vals).length = st.length := by
  unfold writeVars
  generalize vars.zip vals = z
  induction z generalizing st with
  | nil => rfl
  | cons x t ih => simp [List.foldl_cons, ih]

theorem writeVars_nil_vars (st : List Bool) (vals : List Bool) : writeVars st [] vals = st := by
  simp [writeVars]

theorem writeVars_nil_vals (st : List Bool) (vars : List Nat) : writeVars st vars [] = st := by
  simp [writeVars]

theorem writeVars_cons (st : List Bool) (v : Nat) (vs : List Nat) (x : Bool) (xs : List Bool) :
    writeVars st (v :: vs) (x :: xs) = writeVars (st.set v x) vs xs := by
  simp [writeVars]

theorem readVars_length (st : List Bool) (vars : List Nat) : (readVars st vars).length = vars.length := by
  simp [readVars]

theorem inputsMatch_nil_vars (st : List Bool) (o : Op) (h : o.vars = []) : inputsMatch st o = true := by
  simp [inputsMatch, h]

/-- inputs match, as a statement about a variable list and a value list -/
def matchL (st : List Bool) (vars : List Nat) (vals : List Bool) : Bool :=
  (vars.zip vals).all (fun vb => st[vb.1]? == some vb.2)

theorem inputsMatch_eq (st : List Bool) (o : Op) : inputsMatch st o = matchL st o.vars o.ins := rfl

theorem matchL_cons (st : List Bool) (v : Nat) (vs : List Nat) (x : Bool) (xs : List Bool) :
    matchL st (v :: vs) (x :: xs) = ((st[v]? == some x) && matchL st vs xs) := by
  simp [matchL]

theorem matchL_nil_left (st : List Bool) (xs : List Bool) : matchL st [] xs = true := by simp [matchL]
theorem matchL_nil_right (st : List Bool) (vs : List Nat) : matchL st vs [] = true := by simp [matchL]

/-- writing values that are already there changes nothing -/
theorem writeVars_of_match (st : List Bool) (vars : List Nat) (vals : List Bool)
    (h : matchL st vars vals = true) : writeVars st vars vals = st := by
  induction vars generalizing st vals with
  | nil => simp [writeVars]
  | cons v vs ih =>
    cases vals with
    | nil => simp [writeVars]
    | cons x xs =>
      rw [matchL_cons, Bool.and_eq_true] at h
      rw [writeVars_cons]
      have hv : st[v]? = some x := by simpa using h.1
      have hset : st.set v x = st := by
        apply List.ext_getElem?
        intro i
        by_cases hi : i = v
        · subst hi
          rw [hv]
          have : i < st.length := by
            rcases Nat.lt_or_ge i st.length with hlt | hge
            · exact hlt
            · rw [List.getElem?_eq_none hge] at hv; cases hv
          simp [List.getElem?_set, this]
        · have : v ≠ i := fun e => hi e.symm
          simp [List.getElem?_set, this]
      rw [hset]
      exact ih st xs h.2

/-- reading the current values always matches, when the variables are in range -/
theorem matchL_readVars (st : List Bool) (vars : List Nat) (h : ∀ v, v ∈ vars → v < st.length) :
    matchL st vars (readVars st vars) = true := by
  induction vars with
  | nil => simp [matchL]
  | cons v vs ih =>
    have hv : v < st.length := h v (List.mem_cons_self ..)
    have : readVars st (v :: vs) = st.getD v false :: readVars st vs := by simp [readVars]
    rw [this, matchL_cons, Bool.and_eq_true]
    refine ⟨?_, ih (fun w hw => h w (List.mem_cons_of_mem _ hw))⟩
    simp [List.getD, List.getElem?_eq_getElem hv]

/-! ### propagation -/

theorem applyOp_eq_some {st : List Bool} {o : Op} {r : List Bool} (h : applyOp st o = some r) :
    inputsMatch st o = true ∧ r = writeVars st o.vars o.outs := by
  unfold applyOp at h
  split at h
  · rename_i hm
    exact ⟨hm, by cases h; rfl⟩
  · cases h

theorem applyOp_of_match {st : List Bool} {o : Op} (h : inputsMatch st o = true) :
    applyOp st o = some (writeVars st o.vars o.outs) := by
  simp [applyOp, h]

theorem propagate_none (st : List Bool) (t : Slots) : propagate st (none :: t) = propagate st t := rfl

theorem propagate_some_eq {st : List Bool} {o : Op} {t : Slots} {r : List Bool}
    (h : propagate st (some o :: t) = some r) :
    inputsMatch st o = true ∧ propagate (writeVars st o.vars o.outs) t = some r := by
  simp only [propagate] at h
  split at h
  · rename_i st' hap
    obtain ⟨hm, rfl⟩ := applyOp_eq_some hap
    exact ⟨hm, h⟩
  · cases h

theorem propagate_some_of {st : List Bool} {o : Op} {t : Slots}
    (hm : inputsMatch st o = true) :
    propagate st (some o :: t) = propagate (writeVars st o.vars o.outs) t := by
  simp [propagate, applyOp_of_match hm]

theorem propagate_length {st : List Bool} {s : Slots} {r : List Bool} (h : propagate st s = some r) :
    r.length = st.length := by
  induction s generalizing st with
  | nil => simp [propagate] at h; subst h; rfl
  | cons x t ih =>
    cases x with
    | none => exact ih (by simpa [propagate] using h)
    | some o =>
      obtain ⟨_, h2⟩ := propagate_some_eq h
      rw [ih h2, writeVars_length]

theorem propagate_append_none (st : List Bool) (s : Slots) (k : Nat) :
    propagate st (s ++ List.replicate k none) = propagate st s := by
  induction s generalizing st with
  | nil =>
    induction k with
    | zero => rfl
    | succ k ih => simpa [List.replicate_succ, propagate] using ih
  | cons x t ih =>
    cases x with
    | none => simpa [propagate] using ih st
    | some o =>
      simp only [List.cons_append, propagate]
      split
      · exact ih _
      · rfl

/-- checked propagation ends in the rolling state -/
theorem propagate_eq_rollEnd {st : List Bool} {s : Slots} {r : List Bool} (h : propagate st s = some r) :
    r = rollEnd st s := by
  induction s generalizing st with
  | nil => simp [propagate] at h; simp [rollEnd, h]
  | cons x t ih =>
    cases x with
    | none => simpa [rollEnd, stepState] using ih (st := st) (by simpa [propagate] using h)
    | some o =>
      obtain ⟨_, h2⟩ := propagate_some_eq h
      simpa [rollEnd, stepState] using ih h2

theorem propagate_append {st : List Bool} {s t : Slots} {r : List Bool}
    (h : propagate st (s ++ t) = some r) :
    ∃ m, propagate st s = some m ∧ propagate m t = some r := by
  induction s generalizing st with
  | nil => exact ⟨st, rfl, h⟩
  | cons x s ih =>
    cases x with
    | none => exact ih (by simpa [propagate] using h)
    | some o =>
      obtain ⟨hm, h2⟩ := propagate_some_eq (t := s ++ t) h
      obtain ⟨m, h3, h4⟩ := ih h2
      exact ⟨m, by rw [propagate_some_of hm]; exact h3, h4⟩

theorem propagate_append_of {st m r : List Bool} {s t : Slots}
    (h1 : propagate st s = some m) (h2 : propagate m t = some r) :
    propagate st (s ++ t) = some r := by
  induction s generalizing st with
  | nil => simp [propagate] at h1; subst h1; exact h2
  | cons x s ih =>
    cases x with
    | none => simpa [propagate] using ih (by simpa [propagate] using h1)
    | some o =>
      obtain ⟨hm, h3⟩ := propagate_some_eq h1
      rw [List.cons_append, propagate_some_of hm]
      exact ih h3

/-! ### the imaginary-time fold -/

theorem foldStates_length (st : List Bool) (s : Slots) : (foldStates st s).length = s.length := by
  induction s generalizing st with
  | nil => rfl
  | cons x t ih => simp [foldStates, ih]

theorem rollEnd_cons (st : List Bool) (x : Option Op) (t : Slots) :
    rollEnd st (x :: t) = rollEnd (stepState st x) t := rfl

theorem stateAt_zero (st : List Bool) (s : Slots) : stateAt st s 0 = st := by simp [stateAt, rollEnd]

theorem stateAt_succ (st : List Bool) (x : Option Op) (t : Slots) (p : Nat) :
    stateAt st (x :: t) (p + 1) = stateAt (stepState st x) t p := by
  simp [stateAt, rollEnd]

/-- the fold visits exactly the propagated states: entry `p` is the state after the first `p` slots -/
theorem foldStates_getElem? (st : List Bool) (s : Slots) (p : Nat) (hp : p < s.length) :
    (foldStates st s)[p]? = some (stateAt st s p) := by
  induction s generalizing st p with
  | nil => simp at hp
  | cons x t ih =>
    cases p with
    | zero => simp [foldStates, stateAt_zero]
    | succ p =>
      simp only [foldStates, List.getElem?_cons_succ, stateAt_succ]
      exact ih _ p (by simpa using hp)

theorem foldStates_eq_map (st : List Bool) (s : Slots) :
    foldStates st s = (List.range s.length).map (stateAt st s) := by
  apply List.ext_getElem?
  intro p
  by_cases hp : p < s.length
  · rw [foldStates_getElem? st s p hp]
    simp [List.getElem?_map, List.getElem?_range hp]
  · have h1 : (foldStates st s).length ≤ p := by rw [foldStates_length]; omega
    have h2 : ((List.range s.length).map (stateAt st s)).length ≤ p := by simp; omega
    rw [List.getElem?_eq_none h1, List.getElem?_eq_none h2]

/-- in a configuration that propagates, the op at slot `p` meets its recorded inputs in the
state the fold shows at `p` -/
theorem inputs_met_at {st : List Bool} {s : Slots} {r : List Bool} (h : propagate st s = some r)
    (p : Nat) (o : Op) (hp : s[p]? = some (some o)) : inputsMatch (stateAt st s p) o = true := by
  induction s generalizing st p with
  | nil => simp at hp
  | cons x t ih =>
    cases p with
    | zero =>
      simp at hp
      subst hp
      rw [stateAt_zero]
      exact (propagate_some_eq h).1
    | succ p =>
      rw [stateAt_succ]
      simp only [List.getElem?_cons_succ] at hp
      cases x with
      | none => exact ih (st := st) (by simpa [propagate] using h) p hp
      | some o' => exact ih (propagate_some_eq h).2 p hp

/-- relation with the after-op variant of `Basic.lean` -/
theorem statesVisited_eq (st : List Bool) (s : Slots) :
    st :: statesVisited st s = foldStates st s ++ [rollEnd st s] := by
  induction s generalizing st with
  | nil => simp [statesVisited, foldStates, rollEnd]
  | cons x t ih =>
    cases x with
    | none =>
      simp only [statesVisited, foldStates, List.cons_append, rollEnd_cons, stepState]
      rw [ih st]
    | some o =>
      simp only [statesVisited, foldStates, List.cons_append, rollEnd_cons, stepState]
      rw [ih]

end Qmc
