/-
C01 capstone, the limit `L → ∞`, Ising side (rational; no analysis): the transverse-field Ising matrix
`isingMatrix s` (QmcProofs/ConfigMarginalIsing.lean) is SYMMETRIC, and the index type `St N` of basis states is
non-empty — the two facts the positivity of `Tr e^{−βH}` (QmcProofs/CapstoneLimit.lean `exp_trace_pos`) rests on.
-/
import QmcProofs.ConfigMarginalIsing
import Mathlib.LinearAlgebra.Matrix.Symmetric

namespace Qmc.CapstoneLimit
open Qmc Qmc.IsingSSE Qmc.PathSum Qmc.SSEConfig Qmc.Marginal

theorem agreeOff_comm (vars : List Nat) (s s' : List Bool) : agreeOff vars s s' = agreeOff vars s' s := by
  unfold agreeOff
  by_cases h : s.length = s'.length
  · rw [h]
    simp only [beq_self_eq_true, Bool.true_and]
    congr 1
    funext i
    rw [Bool.beq_comm]
  · have h' : ¬ s'.length = s.length := fun e => h e.symm
    rw [beq_false_of_ne h, beq_false_of_ne h', Bool.false_and, Bool.false_and]

theorem flipSites_comm (N : Nat) (σ σ' : List Bool) : flipSites N σ σ' = flipSites N σ' σ := by
  unfold flipSites
  simp only [agreeOff_comm [_] σ σ']

/-- **the Ising Hamiltonian matrix is symmetric** -/
theorem isingMatrix_symm (s : IsingSpec) : (isingMatrix s).IsSymm := by
  ext σ σ'
  simp only [Matrix.transpose_apply, isingMatrix]
  by_cases h : σ = σ'
  · subst h; rfl
  · have h' : ¬ σ' = σ := fun e => h e.symm
    rw [if_neg h, if_neg h', flipSites_comm]

/-- there is at least one basis state (`2^N ≥ 1`) -/
instance instNonemptySt (N : Nat) : Nonempty (St N) :=
  ⟨⟨List.replicate N false, by
    rw [List.mem_toFinset]; exact mem_patterns.mpr (List.length_replicate ..)⟩⟩

end Qmc.CapstoneLimit
