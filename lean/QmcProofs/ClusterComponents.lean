/-
C09, step A: theorems about the cluster decomposition.

* the flipped-leg set of every `ClusterMove` is a union of connected components of `legGraph`
  (`clusterMove_edge_closed`, `clusterMove_union_of_components`);
* conversely, flipping any edge-closed leg set that avoids the frozen ops — in particular one
  component — is a `ClusterMove` (`flipConfig_clusterMove`, `flipComponent_clusterMove`);
* `numClusters` counts the components (`numClusters_spec`);
* component flips are commuting involutions (`flipConfig_involutive`, `flipConfig_comm`).
-/
import QmcProofs.ClusterRelax
import QmcProofs.ClusterScan
import QmcProofs.ClusterDraws

namespace Qmc

/-! ### `legGraph` of the skeleton of a string -/

/-- the links through the time boundary: output leg of the last op ~ input leg of the first op -/
def wrapEdges (s : Scan) : List (Nat × Nat) :=
  s.first.filterMap fun vf => (s.last.lookup vf.1).map fun l => (l, vf.2)

theorem mem_wrapEdges (s : Scan) (e : Nat × Nat) :
    e ∈ wrapEdges s ↔ ∃ vf ∈ s.first, ∃ l, s.last.lookup vf.1 = some l ∧ e = (l, vf.2) := by
  simp only [wrapEdges, List.mem_filterMap, Option.map_eq_some_iff]
  constructor
  · rintro ⟨vf, hvf, l, hl, rfl⟩; exact ⟨vf, hvf, l, hl, rfl⟩
  · rintro ⟨vf, hvf, l, hl, rfl⟩; exact ⟨vf, hvf, l, hl, rfl⟩

theorem legGraph_nlegs (m : Slots) : (legGraph (skeleton m)).nlegs = (scanFrom {} m).off := rfl
theorem legGraph_edges (m : Slots) :
    (legGraph (skeleton m)).edges = wrapEdges (scanFrom {} m) ++ (scanFrom {} m).edges := rfl
theorem legGraph_hasEdge (m : Slots) : (legGraph (skeleton m)).hasEdge = (scanFrom {} m).hasEdge := rfl
theorem legGraph_opsAt (m : Slots) : (legGraph (skeleton m)).opsAt = (scanFrom {} m).opsAt := rfl

theorem legGraph_inRange (m : Slots) (hn : NodupVars m) :
    EdgesInRange (legGraph (skeleton m)).edges (legGraph (skeleton m)).nlegs := by
  have hw := scanWF_scanFrom m {} hn scanWF_init
  intro e he
  rw [legGraph_edges, List.mem_append] at he
  rw [legGraph_nlegs]
  rcases he with he | he
  · obtain ⟨vf, hvf, l, hl, rfl⟩ := (mem_wrapEdges _ _).mp he
    exact ⟨hw.lastLt _ _ hl, hw.firstLt vf hvf⟩
  · exact hw.edgesLt e he

theorem scanInv_init (val : Nat → Bool) (st0 : List Bool) : ScanInv val st0 {} st0 :=
  ⟨fun v l h => by simp at h, fun _ _ => rfl⟩

/-! ### leg values of a string -/

theorem legDiff_eq_legVals : ∀ (sb sa : Slots), legDiff sb sa = legVals (maskSlots sb sa)
  | [], _ => by simp [legDiff, maskSlots, legVals]
  | _ :: _, [] => by simp [legDiff, maskSlots, legVals]
  | none :: tb, _ :: ta => by simp [legDiff, maskSlots, legVals, legDiff_eq_legVals tb ta]
  | some ob :: tb, none :: ta => by simp [legDiff, maskSlots, legVals, legDiff_eq_legVals tb ta]
  | some ob :: tb, some oa :: ta => by
    simp [legDiff, maskSlots, legVals, maskOp, legDiff_eq_legVals tb ta]

def ShapedSlots (m : Slots) : Prop :=
  ∀ o ∈ opsOf m, o.ins.length = o.vars.length ∧ o.outs.length = o.vars.length

theorem carries_legVals : ∀ (m : Slots) (pre : List Bool), ShapedSlots m →
    Carries (fun i => (pre ++ legVals m).getD i false) pre.length m
  | [], _, _ => trivial
  | none :: t, pre, h => by
    simp only [Carries, legVals]
    exact carries_legVals t pre (fun o ho => h o (by simpa [opsOf] using ho))
  | some o :: t, pre, h => by
    obtain ⟨h1, h2⟩ := h o (by simp [opsOf])
    simp only [Carries, legVals]
    refine ⟨?_, ?_, ?_⟩
    · apply List.ext_getElem (by simp [h1])
      intro k hk1 hk2
      simp only [List.getElem_map, List.getElem_range, List.getD_eq_getElem?_getD]
      rw [List.getElem?_append_right (Nat.le_add_right _ _), Nat.add_sub_cancel_left,
        List.append_assoc, List.getElem?_append_left hk1, List.getElem?_eq_getElem hk1]
      rfl
    · apply List.ext_getElem (by simp [h2])
      intro k hk1 hk2
      simp only [List.getElem_map, List.getElem_range, List.getD_eq_getElem?_getD]
      rw [List.getElem?_append_right (by omega), List.append_assoc,
        List.getElem?_append_right (by omega), List.getElem?_append_left (by omega),
        List.getElem?_eq_getElem (by omega)]
      simp only [Option.getD_some]
      congr 1
      omega
    · have := carries_legVals t (pre ++ o.ins ++ o.outs) (fun o' ho' => h o' (by simp [opsOf, ho']))
      simp only [List.length_append, h1, h2, List.append_assoc] at this
      have e : pre.length + (o.vars.length + o.vars.length) = pre.length + 2 * o.vars.length := by omega
      rw [e] at this
      simp only [List.append_assoc]
      exact this

theorem opOffsets_mem_opsOf : ∀ (m : Slots) (off : Nat) (x : Nat × Op), x ∈ opOffsets off m → x.2 ∈ opsOf m
  | [], _, _, h => by simp [opOffsets] at h
  | none :: t, off, x, h => by
    simp only [opOffsets] at h; simp only [opsOf]; exact opOffsets_mem_opsOf t off x h
  | some o :: t, off, x, h => by
    simp only [opOffsets, List.mem_cons] at h
    simp only [opsOf, List.mem_cons]
    rcases h with rfl | h
    · exact Or.inl rfl
    · exact Or.inr (opOffsets_mem_opsOf t _ x h)

/-- in a string carrying `val`, the legs of the op at offset `off'` read `val (off' + j)` -/
theorem carries_at (val : Nat → Bool) : ∀ (m : Slots) (off : Nat), Carries val off m →
    ∀ x ∈ opOffsets off m,
      x.2.ins = (List.range x.2.vars.length).map (fun k => val (x.1 + k)) ∧
      x.2.outs = (List.range x.2.vars.length).map (fun k => val (x.1 + x.2.vars.length + k))
  | [], _, _, x, h => by simp [opOffsets] at h
  | none :: t, off, hc, x, h => carries_at val t off hc x h
  | some o :: t, off, hc, x, h => by
    simp only [opOffsets, List.mem_cons] at h
    rcases h with rfl | h
    · exact ⟨hc.1, hc.2.1⟩
    · exact carries_at val t _ hc.2.2 x h

theorem replicate_eq_map_range (n : Nat) (c : Bool) (f : Nat → Bool)
    (h : List.replicate n c = (List.range n).map f) {k : Nat} (hk : k < n) : f k = c := by
  have := congrArg (fun l => l[k]?) h
  simp only [List.getElem?_replicate, if_pos hk, List.getElem?_map, List.getElem?_range hk,
    Option.map_some] at this
  exact (Option.some.inj this).symm

/-! ### (i) the flipped set of a cluster move is closed under the adjacency of `legGraph` -/

theorem xorB_flipBits : ∀ (x : List Bool), xorB x (flipBits x) = List.replicate x.length true
  | [] => rfl
  | a :: x => by
    have := xorB_flipBits x
    simp only [xorB, flipBits] at this
    simp only [xorB, flipBits, List.map_cons, List.zipWith_cons_cons, List.length_cons, List.replicate_succ,
      this, List.cons.injEq, and_true]
    cases a <;> rfl

theorem maskSlots_star {fr : SkOp → Bool} : ∀ {sb sa : Slots}, PairAll (OpOk fr) sb sa →
    ∀ m ∈ opsOf (maskSlots sb sa), m.isEdge = false →
      ∃ c, m.ins = List.replicate m.vars.length c ∧ m.outs = List.replicate m.vars.length c
  | [], [], _ => by intro m hm; simp [maskSlots, opsOf] at hm
  | [], _ :: _, h' => by simp [PairAll] at h'
  | none :: _, [], h' => by simp [PairAll] at h'
  | some _ :: _, [], h' => by simp [PairAll] at h'
  | none :: tb, none :: ta, h' => by
    simp only [PairAll] at h'
    intro m hm
    exact maskSlots_star h' m (by simpa [maskSlots, opsOf] using hm)
  | none :: tb, some _ :: ta, h' => by simp [PairAll] at h'
  | some _ :: tb, none :: ta, h' => by simp [PairAll] at h'
  | some ob :: tb, some oa :: ta, h' => by
    simp only [PairAll] at h'
    intro m hm hed
    simp only [maskSlots, opsOf, List.mem_cons] at hm
    rcases hm with rfl | hm
    · have hed' : ob.isEdge = false := hed
      rcases h'.1.closed hed' with hu | hf
      · refine ⟨false, ?_, ?_⟩
        · simp only [maskOp, hu.1, xorB_self, h'.1.insB]
        · simp only [maskOp, hu.2, xorB_self, h'.1.outsB]
      · refine ⟨true, ?_, ?_⟩
        · simp only [maskOp, hf.1, xorB_flipBits, h'.1.insB]
        · simp only [maskOp, hf.2, xorB_flipBits, h'.1.outsB]
    · exact maskSlots_star h'.2 m hm hed

theorem maskSlots_skeleton {fr : SkOp → Bool} : ∀ {sb sa : Slots}, PairAll (OpOk fr) sb sa →
    skeleton (maskSlots sb sa) = skeleton sb ∧
    (NodupVars sb → NodupVars (maskSlots sb sa))
  | [], [], _ => ⟨rfl, fun h => h⟩
  | [], _ :: _, h' => by simp [PairAll] at h'
  | none :: _, [], h' => by simp [PairAll] at h'
  | some _ :: _, [], h' => by simp [PairAll] at h'
  | none :: tb, none :: ta, h' => by
    simp only [PairAll] at h'
    obtain ⟨i1, i2⟩ := maskSlots_skeleton h'
    refine ⟨?_, fun hn o ho => i2 hn.tail_none o (by simpa [maskSlots, opsOf] using ho)⟩
    simp only [maskSlots, skeleton, List.map_cons, Option.map_none] at i1 ⊢
    rw [i1]
  | none :: tb, some _ :: ta, h' => by simp [PairAll] at h'
  | some _ :: tb, none :: ta, h' => by simp [PairAll] at h'
  | some ob :: tb, some oa :: ta, h' => by
    simp only [PairAll] at h'
    obtain ⟨i1, i2⟩ := maskSlots_skeleton h'.2
    refine ⟨?_, fun hn o ho => ?_⟩
    · simp only [maskSlots, skeleton, List.map_cons, Option.map_some] at i1 ⊢
      rw [i1]; rfl
    · simp only [maskSlots, opsOf, List.mem_cons] at ho
      rcases ho with rfl | ho
      · exact hn.head
      · exact i2 hn.tail_some o ho

/-- the flip indicator of a move, by leg id -/
def flipAt (b a : Config) (i : Nat) : Bool := (legDiff b.slots a.slots).getD i false

/-- **(i)** for every cluster move the flip indicator takes the same value on the two ends of every
edge of the leg graph (inner edges of non-edge ops and world-line links, including the links
through the time boundary) -/
theorem clusterMove_edge_closed {fr : SkOp → Bool} {b a : Config} (h : ClusterMove fr b a)
    (hn : NodupVars b.slots) :
    ∀ e ∈ (legGraph (skeleton b.slots)).edges, flipAt b a e.1 = flipAt b a e.2 := by
  obtain ⟨hsk, hnm⟩ := maskSlots_skeleton h.ops
  have hnm := hnm hn
  have hshape : ShapedSlots (maskSlots b.slots a.slots) := maskSlots_shape h.ops
  have hcar := carries_legVals (maskSlots b.slots a.slots) [] hshape
  simp only [List.nil_append, List.length_nil] at hcar
  have hval : (fun i => (legVals (maskSlots b.slots a.slots)).getD i false) = flipAt b a := by
    funext i; simp only [flipAt, legDiff_eq_legVals]
  rw [hval] at hcar
  have hc := h.linkClosed
  unfold Consistent at hc
  simp only [mask] at hc
  have hstar : ∀ x ∈ opOffsets 0 (maskSlots b.slots a.slots), x.2.isEdge = false →
      ∀ j, j < 2 * x.2.vars.length → flipAt b a (x.1 + j) = flipAt b a x.1 := by
    intro x hx hed j hj
    obtain ⟨c, hi, ho⟩ := maskSlots_star h.ops x.2 (opOffsets_mem_opsOf _ _ x hx) hed
    obtain ⟨ci, co⟩ := carries_at _ _ 0 hcar x hx
    rw [hi] at ci; rw [ho] at co
    have hall : ∀ j, j < 2 * x.2.vars.length → flipAt b a (x.1 + j) = c := by
      intro j hj
      by_cases hjn : j < x.2.vars.length
      · exact replicate_eq_map_range _ c _ ci hjn
      · have := replicate_eq_map_range _ c _ co (k := j - x.2.vars.length) (by omega)
        rw [← this]; congr 1; omega
    rw [hall j hj, ← hall 0 (by omega)]; rfl
  obtain ⟨hinv, he, hf⟩ := bridge_fwd (flipAt b a) (xorB b.state a.state) (maskSlots b.slots a.slots) {}
    _ _ hcar hnm (scanInv_init _ _) hc hstar
  intro e hmem
  rw [← hsk, legGraph_edges, List.mem_append] at hmem
  rcases hmem with hw | hs
  · obtain ⟨vf, hvf, l, hl, rfl⟩ := (mem_wrapEdges _ _).mp hw
    have h1 := hinv.seen _ _ hl
    rcases hf vf hvf with h2 | h2
    · simp at h2
    · rw [h2] at h1
      exact (Option.some.inj h1).symm
  · rcases he e hs with h2 | h2
    · simp at h2
    · exact h2

/-! ### (ii) flipping an edge-closed leg set is a cluster move -/

theorem xorB_xorB_left : ∀ (x d : List Bool), d.length = x.length → xorB x (xorB x d) = d
  | [], [], _ => rfl
  | [], _ :: _, h => by simp at h
  | _ :: _, [], h => by simp at h
  | a :: x, b :: d, h => by
    have := xorB_xorB_left x d (by simpa using h)
    simp only [xorB] at this
    simp only [xorB, List.zipWith_cons_cons, this, List.cons.injEq, and_true]
    cases a <;> cases b <;> rfl

theorem xorB_xorB_right : ∀ (x d : List Bool), d.length = x.length → xorB (xorB x d) d = x
  | [], [], _ => rfl
  | [], _ :: _, h => by simp at h
  | _ :: _, [], h => by simp at h
  | a :: x, b :: d, h => by
    have := xorB_xorB_right x d (by simpa using h)
    simp only [xorB] at this
    simp only [xorB, List.zipWith_cons_cons, this, List.cons.injEq, and_true]
    cases a <;> cases b <;> rfl

theorem xorB_replicate_false : ∀ (x : List Bool), xorB x (List.replicate x.length false) = x
  | [] => rfl
  | a :: x => by
    have := xorB_replicate_false x
    simp only [xorB] at this
    simp only [xorB, List.length_cons, List.replicate_succ, List.zipWith_cons_cons, this, List.cons.injEq,
      and_true]
    cases a <;> rfl

theorem xorB_replicate_true : ∀ (x : List Bool), xorB x (List.replicate x.length true) = flipBits x
  | [] => rfl
  | a :: x => by
    have := xorB_replicate_true x
    simp only [xorB, flipBits] at this
    simp only [xorB, flipBits, List.length_cons, List.replicate_succ, List.zipWith_cons_cons, this,
      List.map_cons, List.cons.injEq, and_true]
    cases a <;> rfl

theorem map_range_const (n : Nat) (f : Nat → Bool) (c : Bool) (h : ∀ k, k < n → f k = c) :
    (List.range n).map f = List.replicate n c := by
  apply List.ext_getElem (by simp)
  intro k h1 h2
  simp only [List.getElem_map, List.getElem_range, List.getElem_replicate]
  exact h k (by simpa using h1)

theorem maskSlots_flipLegs (D : Nat → Bool) : ∀ (s : Slots) (off : Nat), ShapedSlots s →
    maskSlots s (flipLegs D off s) = legMaskSlots D off s
  | [], _, _ => rfl
  | none :: t, off, h => by
    simp only [flipLegs, maskSlots, legMaskSlots]
    rw [maskSlots_flipLegs D t off (fun o ho => h o (by simpa [opsOf] using ho))]
  | some o :: t, off, h => by
    obtain ⟨h1, h2⟩ := h o (by simp [opsOf])
    simp only [flipLegs, maskSlots, legMaskSlots, maskOp]
    rw [maskSlots_flipLegs D t _ (fun o' ho' => h o' (by simp [opsOf, ho'])),
      xorB_xorB_left _ _ (by simp [h1]), xorB_xorB_left _ _ (by simp [h2])]

theorem carries_legMask (D : Nat → Bool) : ∀ (s : Slots) (off : Nat), Carries D off (legMaskSlots D off s)
  | [], _ => trivial
  | none :: t, off => by simp only [legMaskSlots, Carries]; exact carries_legMask D t off
  | some o :: t, off => by
    simp only [legMaskSlots, Carries]
    exact ⟨trivial, trivial, carries_legMask D t _⟩

theorem legMask_skeleton (D : Nat → Bool) : ∀ (s : Slots) (off : Nat),
    skeleton (legMaskSlots D off s) = skeleton s ∧ (NodupVars s → NodupVars (legMaskSlots D off s))
  | [], _ => ⟨rfl, fun h => h⟩
  | none :: t, off => by
    obtain ⟨i1, i2⟩ := legMask_skeleton D t off
    refine ⟨?_, fun hn o ho => i2 hn.tail_none o (by simpa [legMaskSlots, opsOf] using ho)⟩
    simp only [legMaskSlots, skeleton, List.map_cons, Option.map_none] at i1 ⊢
    rw [i1]
  | some o :: t, off => by
    obtain ⟨i1, i2⟩ := legMask_skeleton D t (off + 2 * o.vars.length)
    refine ⟨?_, fun hn o' ho' => ?_⟩
    · simp only [legMaskSlots, skeleton, List.map_cons, Option.map_some] at i1 ⊢
      rw [i1]; rfl
    · simp only [legMaskSlots, opsOf, List.mem_cons] at ho'
      rcases ho' with rfl | ho'
      · exact hn.head
      · exact i2 hn.tail_some o' ho'

theorem pairAll_flipLegs (fr : SkOp → Bool) (D : Nat → Bool) : ∀ (s : Slots) (off : Nat), ShapedSlots s →
    (∀ x ∈ opOffsets off s, x.2.isEdge = false → ∀ j, j < 2 * x.2.vars.length → D (x.1 + j) = D x.1) →
    (∀ x ∈ opOffsets off s, x.2.isEdge = false → fr x.2.sk = true → 0 < x.2.vars.length → D x.1 = false) →
    PairAll (OpOk fr) s (flipLegs D off s)
  | [], _, _, _, _ => trivial
  | none :: t, off, h, hs, hf => by
    simp only [flipLegs, PairAll]
    exact pairAll_flipLegs fr D t off (fun o ho => h o (by simpa [opsOf] using ho)) hs hf
  | some o :: t, off, h, hs, hf => by
    obtain ⟨h1, h2⟩ := h o (by simp [opsOf])
    simp only [flipLegs, PairAll]
    refine ⟨?_, pairAll_flipLegs fr D t _ (fun o' ho' => h o' (by simp [opsOf, ho']))
      (fun x hx => hs x (by simp [opOffsets, hx])) (fun x hx => hf x (by simp [opOffsets, hx]))⟩
    have hstar : o.isEdge = false → ∀ j, j < 2 * o.vars.length → D (off + j) = D off :=
      hs (off, o) (by simp [opOffsets])
    have hcl : o.isEdge = false →
        (List.range o.vars.length).map (fun k => D (off + k)) = List.replicate o.ins.length (D off) ∧
        (List.range o.vars.length).map (fun k => D (off + o.vars.length + k)) =
          List.replicate o.outs.length (D off) := by
      intro hed
      rw [h1, h2]
      refine ⟨map_range_const _ _ _ (fun k hk => hstar hed k (by omega)),
        map_range_const _ _ _ (fun k hk => ?_)⟩
      rw [Nat.add_assoc]; exact hstar hed _ (by omega)
    refine ⟨rfl, rfl, rfl, h1, h2, by simp [xorB_length, h1], by simp [xorB_length, h2], ?_, ?_⟩
    · intro hed
      obtain ⟨e1, e2⟩ := hcl hed
      simp only [Unchanged, FlippedAll, e1, e2]
      cases D off
      · exact Or.inl ⟨xorB_replicate_false _, xorB_replicate_false _⟩
      · exact Or.inr ⟨xorB_replicate_true _, xorB_replicate_true _⟩
    · intro hed hfr
      obtain ⟨e1, e2⟩ := hcl hed
      simp only [Unchanged, e1, e2]
      rcases Nat.eq_zero_or_pos o.vars.length with hz | hpos
      · have hi : o.ins = [] := List.length_eq_zero_iff.mp (by rw [h1, hz])
        have ho : o.outs = [] := List.length_eq_zero_iff.mp (by rw [h2, hz])
        simp [hi, ho, xorB]
      · rw [hf (off, o) (by simp [opOffsets]) hed hfr hpos]
        exact ⟨xorB_replicate_false _, xorB_replicate_false _⟩

/-- the first-input-leg table of the scan agrees with `firstIn` -/
theorem first_firstIn (val : Nat → Bool) : ∀ (m : Slots) (sc : Scan), Carries val sc.off m → NodupVars m →
    ∀ vf ∈ (scanFrom sc m).first,
      vf ∈ sc.first ∨ (sc.last.lookup vf.1 = none ∧ firstIn vf.1 m = some (val vf.2))
  | [], sc, _, _, vf, h => Or.inl h
  | none :: t, sc, hc, hn, vf, h => by
    rw [scanFrom_none] at h
    simp only [firstIn]
    exact first_firstIn val t (sc.step none) hc hn.tail_none vf h
  | some o :: t, sc, hc, hn, vf, h => by
    rw [scanFrom_some] at h
    obtain ⟨hins, _, hct⟩ := hc
    have hs := step_some_spec sc o.sk hn.head
    have hoff : (sc.step (some o.sk)).off = sc.off + 2 * o.vars.length := hs.off
    have hsv : o.sk.vars = o.vars := rfl
    rcases first_firstIn val t (sc.step (some o.sk)) (hoff ▸ hct) hn.tail_some vf h with h1 | ⟨h1, h2⟩
    · rcases (hs.first vf).mp h1 with h1 | ⟨k, v, hkv, hl, rfl⟩
      · exact Or.inl h1
      · refine Or.inr ⟨hl, ?_⟩
        have hv : v ∈ o.vars := List.mem_of_getElem? hkv
        simp only [firstIn, List.contains_iff_mem, hv, if_true, Op.legIn]
        rw [hins]
        exact zip_range_lookup o.vars _ hn.head k v hkv
    · have hv : vf.1 ∉ o.vars := by
        intro hv
        obtain ⟨k, hk⟩ := List.getElem?_of_mem hv
        rw [hs.lastIn k vf.1 (hsv ▸ hk)] at h1
        cases h1
      rw [hs.lastOut vf.1 (hsv ▸ hv)] at h1
      refine Or.inr ⟨h1, ?_⟩
      simp only [firstIn, List.contains_iff_mem, hv, if_false]
      exact h2

theorem firstIn_some_mem : ∀ (m : Slots) (v : Nat) (x : Bool), firstIn v m = some x →
    ∃ o ∈ opsOf m, v ∈ o.vars
  | [], _, _, h => by simp [firstIn] at h
  | none :: t, v, x, h => by
    simp only [firstIn] at h
    obtain ⟨o, ho, hv⟩ := firstIn_some_mem t v x h
    exact ⟨o, by simpa [opsOf] using ho, hv⟩
  | some o :: t, v, x, h => by
    simp only [firstIn] at h
    split at h
    · rename_i hc
      exact ⟨o, by simp [opsOf], by simpa using hc⟩
    · obtain ⟨o', ho', hv⟩ := firstIn_some_mem t v x h
      exact ⟨o', by simp [opsOf, ho'], hv⟩

theorem firstIn_none_of_idle (D : Nat → Bool) (v : Nat) : ∀ (s : Slots) (off : Nat),
    varHasOp (skeleton s) v = false → firstIn v (legMaskSlots D off s) = none
  | [], _, _ => rfl
  | none :: t, off, h => by
    simp only [legMaskSlots, firstIn]
    exact firstIn_none_of_idle D v t off (by simpa [varHasOp, skeleton] using h)
  | some o :: t, off, h => by
    simp only [varHasOp, skeleton, List.map_cons, Option.map_some, List.any_cons, Bool.or_eq_false_iff,
      Op.sk] at h
    simp only [legMaskSlots, firstIn, h.1, Bool.false_eq_true, if_false]
    exact firstIn_none_of_idle D v t _ (by simpa [varHasOp, skeleton] using h.2)

theorem xorState_length (st : List Bool) (m : Slots) : (xorState st m).length = st.length := by
  simp [xorState]

theorem xorState_get (st : List Bool) (m : Slots) (v : Nat) :
    (xorState st m)[v]? = st[v]?.map (fun x => x != (firstIn v m).getD false) := by
  simp [xorState, List.getElem?_mapIdx]

theorem maskState_get (st : List Bool) (m : Slots) (v : Nat) (hv : v < st.length) :
    (xorB st (xorState st m))[v]? = some ((firstIn v m).getD false) := by
  rw [getElem?_xorB, xorState_get, List.getElem?_eq_getElem hv]
  simp only [Option.map_some]
  cases st[v] <;> cases (firstIn v m).getD false <;> rfl

/-- **(ii)** flipping a leg set that is closed under the adjacency of the leg graph and contains no
leg of a (non-edge) op of flip weight 0 is a cluster move -/
theorem flipConfig_clusterMove (fr : SkOp → Bool) (D : Nat → Bool) (c : Config) (hshape : ShapeOk c)
    (hn : NodupVars c.slots)
    (hclosed : ∀ e ∈ (legGraph (skeleton c.slots)).edges, D e.1 = D e.2)
    (hfrozen : ∀ x ∈ opOffsets 0 c.slots, x.2.isEdge = false → fr x.2.sk = true →
      0 < x.2.vars.length → D x.1 = false) :
    ClusterMove fr c (flipConfig D c) := by
  have hsh : ShapedSlots c.slots := fun o ho => ⟨(hshape o ho).1, (hshape o ho).2.1⟩
  obtain ⟨hsk, hnm⟩ := legMask_skeleton D c.slots 0
  have hnm := hnm hn
  have hfacts := scanFrom_facts c.slots {} hn
  have hstar : ∀ x ∈ opOffsets 0 c.slots, x.2.isEdge = false → ∀ j, j < 2 * x.2.vars.length →
      D (x.1 + j) = D x.1 := by
    intro x hx hed j hj
    rcases Nat.eq_zero_or_pos j with rfl | hpos
    · rfl
    · have hmem := hfacts.2.2.2.1 x hx hed j hpos hj
      have := hclosed (x.1, x.1 + j) (by rw [legGraph_edges]; exact List.mem_append_right _ hmem)
      exact this.symm
  have hops := pairAll_flipLegs fr D c.slots 0 hsh hstar hfrozen
  refine ⟨hops, by simp [flipConfig, xorState_length], ?_, ?_⟩
  · -- the mask is a consistent configuration
    unfold Consistent
    simp only [mask, flipConfig, maskSlots_flipLegs D c.slots 0 hsh]
    have hcar := carries_legMask D c.slots 0
    rw [← hsk, legGraph_edges] at hclosed
    have hfirst : ∀ vf ∈ (scanFrom {} (legMaskSlots D 0 c.slots)).first,
        (xorB c.state (xorState c.state (legMaskSlots D 0 c.slots)))[vf.1]? = some (D vf.2) := by
      intro vf hvf
      rcases first_firstIn D _ {} hcar hnm vf hvf with h | ⟨_, h⟩
      · simp at h
      · obtain ⟨o, ho, hv⟩ := firstIn_some_mem _ _ _ h
        have hoc : ∃ o' ∈ opsOf c.slots, vf.1 ∈ o'.vars := by
          clear hops hclosed hcar h hvf hstar hfacts hfrozen
          revert ho
          generalize 0 = off
          induction c.slots generalizing off with
          | nil => intro ho; simp [legMaskSlots, opsOf] at ho
          | cons x t ih =>
            cases x with
            | none =>
              intro ho
              simp only [legMaskSlots, opsOf] at ho
              obtain ⟨o', ho', hv'⟩ := ih off ho
              exact ⟨o', by simpa [opsOf] using ho', hv'⟩
            | some o1 =>
              intro ho
              simp only [legMaskSlots, opsOf, List.mem_cons] at ho
              rcases ho with rfl | ho
              · exact ⟨o1, by simp [opsOf], hv⟩
              · obtain ⟨o', ho', hv'⟩ := ih _ ho
                exact ⟨o', by simp [opsOf, ho'], hv'⟩
        obtain ⟨o', ho', hv'⟩ := hoc
        rw [maskState_get _ _ _ ((hshape o' ho').2.2 _ hv'), h]
        rfl
    obtain ⟨st', hp, hinv⟩ := bridge_bwd D _ (legMaskSlots D 0 c.slots) {} _ hcar hnm (scanInv_init D _)
      (fun e he => hclosed e (List.mem_append_right _ he)) hfirst
    rw [hp]
    congr 1
    have hw := scanWF_scanFrom _ {} hnm scanWF_init
    apply List.ext_getElem?
    intro v
    cases hl : (scanFrom {} (legMaskSlots D 0 c.slots)).last.lookup v with
    | none => exact hinv.unseen v hl
    | some l =>
      rw [hinv.seen v l hl]
      obtain ⟨f, hf⟩ := hw.firstOf v l hl
      rw [hfirst (v, f) hf]
      have := hclosed (l, f) (List.mem_append_left _ ((mem_wrapEdges _ _).mpr ⟨(v, f), hf, l, hl, rfl⟩))
      exact congrArg some this
  · intro v hv
    simp only [flipConfig, xorState_get, firstIn_none_of_idle D v c.slots 0 hv]
    cases c.state[v]? with
    | none => rfl
    | some x => cases x <;> rfl

/-! ### components -/

/-- `compLab` labels every leg with the smallest leg id of its connected component -/
theorem compLab_spec (s : Slots) (hn : NodupVars s) :
    (compLab (skeleton s)).size = (legGraph (skeleton s)).nlegs ∧
    ∀ i, i < (legGraph (skeleton s)).nlegs →
      (compLab (skeleton s))[i]! = minConn (legGraph (skeleton s)).edges i :=
  componentLabels_spec _ (legGraph_inRange s hn)

theorem compLab_edge (s : Slots) (hn : NodupVars s) :
    ∀ e ∈ (legGraph (skeleton s)).edges, (compLab (skeleton s))[e.1]! = (compLab (skeleton s))[e.2]! := by
  intro e he
  obtain ⟨h1, h2⟩ := legGraph_inRange s hn e he
  rw [(compLab_spec s hn).2 _ h1, (compLab_spec s hn).2 _ h2]
  exact minConn_eq_of_conn (Conn.of_adj (Or.inl he))

theorem compLab_eq_iff (s : Slots) (hn : NodupVars s) {i j : Nat}
    (hi : i < (legGraph (skeleton s)).nlegs) (hj : j < (legGraph (skeleton s)).nlegs) :
    (compLab (skeleton s))[i]! = (compLab (skeleton s))[j]! ↔ Conn (legGraph (skeleton s)).edges i j := by
  rw [(compLab_spec s hn).2 _ hi, (compLab_spec s hn).2 _ hj]
  exact minConn_eq_iff

/-- **(i), component form**: every connected component of the leg graph lies entirely inside or
entirely outside the flipped set of a cluster move -/
theorem clusterMove_union_of_components {fr : SkOp → Bool} {b a : Config} (h : ClusterMove fr b a)
    (hn : NodupVars b.slots) {i j : Nat} (hi : i < (legGraph (skeleton b.slots)).nlegs)
    (hj : j < (legGraph (skeleton b.slots)).nlegs)
    (hij : (compLab (skeleton b.slots))[i]! = (compLab (skeleton b.slots))[j]!) :
    flipAt b a i = flipAt b a j :=
  Conn.const (flipAt b a) (clusterMove_edge_closed h hn) ((compLab_eq_iff b.slots hn hi hj).mp hij)

/-- no (non-edge) op of flip weight 0 has its legs in the component labelled `r` -/
def ComponentFree (fr : SkOp → Bool) (s : Slots) (r : Nat) : Prop :=
  ∀ x ∈ opOffsets 0 s, x.2.isEdge = false → fr x.2.sk = true → 0 < x.2.vars.length →
    (compLab (skeleton s))[x.1]! ≠ r

/-- **(ii), component form**: flipping exactly one component that holds no op of flip weight 0 is a
cluster move -/
theorem flipComponent_clusterMove (fr : SkOp → Bool) (c : Config) (r : Nat) (hshape : ShapeOk c)
    (hn : NodupVars c.slots) (hfree : ComponentFree fr c.slots r) :
    ClusterMove fr c (flipComponent (skeleton c.slots) r c) := by
  unfold flipComponent
  refine flipConfig_clusterMove fr _ c hshape hn ?_ ?_
  · intro e he
    simp only [compLab_edge c.slots hn e he]
  · intro x hx hed hfr hpos
    simpa using hfree x hx hed hfr hpos

/-! ### the legs of a frozen op are not in the flipped set of a move -/

theorem opOffsets_maskSlots {fr : SkOp → Bool} : ∀ {sb sa : Slots} (off : Nat), PairAll (OpOk fr) sb sa →
    ∀ x ∈ opOffsets off sb, ∃ oa, OpOk fr x.2 oa ∧ (x.1, maskOp x.2 oa) ∈ opOffsets off (maskSlots sb sa)
  | [], [], _, _ => by intro x hx; simp [opOffsets] at hx
  | [], _ :: _, _, h' => by simp [PairAll] at h'
  | none :: _, [], _, h' => by simp [PairAll] at h'
  | some _ :: _, [], _, h' => by simp [PairAll] at h'
  | none :: tb, none :: ta, off, h' => by
    simp only [PairAll] at h'
    intro x hx
    simp only [opOffsets, maskSlots] at hx ⊢
    exact opOffsets_maskSlots off h' x hx
  | none :: tb, some _ :: ta, _, h' => by simp [PairAll] at h'
  | some _ :: tb, none :: ta, _, h' => by simp [PairAll] at h'
  | some ob :: tb, some oa :: ta, off, h' => by
    simp only [PairAll] at h'
    intro x hx
    simp only [opOffsets, maskSlots, List.mem_cons] at hx ⊢
    rcases hx with rfl | hx
    · exact ⟨oa, h'.1, Or.inl rfl⟩
    · obtain ⟨oa', h1, h2⟩ := opOffsets_maskSlots _ h'.2 x hx
      exact ⟨oa', h1, Or.inr (by simpa [maskOp] using h2)⟩

theorem clusterMove_frozen_leg {fr : SkOp → Bool} {b a : Config} (h : ClusterMove fr b a)
    (x : Nat × Op) (hx : x ∈ opOffsets 0 b.slots) (hed : x.2.isEdge = false) (hfr : fr x.2.sk = true)
    (hpos : 0 < x.2.vars.length) : flipAt b a x.1 = false := by
  have hshape : ShapedSlots (maskSlots b.slots a.slots) := maskSlots_shape h.ops
  have hcar := carries_legVals (maskSlots b.slots a.slots) [] hshape
  simp only [List.nil_append, List.length_nil] at hcar
  have hval : (fun i => (legVals (maskSlots b.slots a.slots)).getD i false) = flipAt b a := by
    funext i; simp only [flipAt, legDiff_eq_legVals]
  rw [hval] at hcar
  obtain ⟨oa, hok, hmem⟩ := opOffsets_maskSlots 0 h.ops x hx
  obtain ⟨ci, _⟩ := carries_at _ _ 0 hcar _ hmem
  have hu := hok.frozen hed hfr
  simp only [maskOp, hu.1, xorB_self, hok.insB] at ci
  have := replicate_eq_map_range _ false _ ci hpos
  simpa using this

theorem opOffsets_lt (s : Slots) (hn : NodupVars s) (x : Nat × Op) (hx : x ∈ opOffsets 0 s)
    (hed : x.2.isEdge = false) (hpos : 0 < x.2.vars.length) : x.1 < (legGraph (skeleton s)).nlegs := by
  have hmem := (scanFrom_facts s {} hn).2.2.2.1 x hx hed 1 (Nat.le_refl 1) (by omega)
  exact (legGraph_inRange s hn _ (by rw [legGraph_edges]; exact List.mem_append_right _ hmem)).1

/-- **components are exactly the atoms of the cluster update**: (1) every component that holds no op
of flip weight 0 can be flipped on its own; (2) whatever a cluster move flips, with a leg it flips
the leg's whole component, and that component holds no op of flip weight 0. Hence the minimal
non-empty flippable leg sets are the components free of such ops, and every flippable set is a union of them. -/
theorem components_are_atoms (fr : SkOp → Bool) (c : Config) (hshape : ShapeOk c) (hn : NodupVars c.slots) :
    (∀ r, ComponentFree fr c.slots r → ClusterMove fr c (flipComponent (skeleton c.slots) r c)) ∧
    (∀ a, ClusterMove fr c a → ∀ i, i < (legGraph (skeleton c.slots)).nlegs → flipAt c a i = true →
      (∀ j, j < (legGraph (skeleton c.slots)).nlegs →
        (compLab (skeleton c.slots))[j]! = (compLab (skeleton c.slots))[i]! → flipAt c a j = true) ∧
      ComponentFree fr c.slots (compLab (skeleton c.slots))[i]!) := by
  refine ⟨fun r hr => flipComponent_clusterMove fr c r hshape hn hr, fun a h i hi hfi => ⟨?_, ?_⟩⟩
  · intro j hj hji
    rw [clusterMove_union_of_components h hn hj hi hji]; exact hfi
  · intro x hx hed hfr hpos heq
    have h1 := clusterMove_frozen_leg h x hx hed hfr hpos
    rw [clusterMove_union_of_components h hn (opOffsets_lt c.slots hn x hx hed hpos) hi heq, hfi] at h1
    cases h1

/-! ### (iv) flips are commuting involutions -/

theorem xorB_right_comm : ∀ (x d1 d2 : List Bool), xorB (xorB x d2) d1 = xorB (xorB x d1) d2
  | [], _, _ => by simp [xorB]
  | _ :: _, [], [] => by simp [xorB]
  | _ :: _, [], _ :: _ => by simp [xorB]
  | _ :: _, _ :: _, [] => by simp [xorB]
  | a :: x, b :: d1, c :: d2 => by
    have := xorB_right_comm x d1 d2
    simp only [xorB] at this
    simp only [xorB, List.zipWith_cons_cons, this, List.cons.injEq, and_true]
    cases a <;> cases b <;> cases c <;> rfl

theorem flipLegs_flipLegs (D : Nat → Bool) : ∀ (s : Slots) (off : Nat), ShapedSlots s →
    flipLegs D off (flipLegs D off s) = s
  | [], _, _ => rfl
  | none :: t, off, h => by
    simp only [flipLegs]
    rw [flipLegs_flipLegs D t off (fun o ho => h o (by simpa [opsOf] using ho))]
  | some o :: t, off, h => by
    obtain ⟨h1, h2⟩ := h o (by simp [opsOf])
    simp only [flipLegs]
    rw [flipLegs_flipLegs D t _ (fun o' ho' => h o' (by simp [opsOf, ho'])),
      xorB_xorB_right _ _ (by simp [h1]), xorB_xorB_right _ _ (by simp [h2])]

theorem flipLegs_comm (D1 D2 : Nat → Bool) : ∀ (s : Slots) (off : Nat),
    flipLegs D1 off (flipLegs D2 off s) = flipLegs D2 off (flipLegs D1 off s)
  | [], _ => rfl
  | none :: t, off => by simp only [flipLegs]; rw [flipLegs_comm D1 D2 t off]
  | some o :: t, off => by
    simp only [flipLegs]
    rw [flipLegs_comm D1 D2 t _, xorB_right_comm o.ins, xorB_right_comm o.outs]

theorem legMaskSlots_flipLegs (D D' : Nat → Bool) : ∀ (s : Slots) (off : Nat),
    legMaskSlots D off (flipLegs D' off s) = legMaskSlots D off s
  | [], _ => rfl
  | none :: t, off => by simp only [flipLegs, legMaskSlots]; rw [legMaskSlots_flipLegs D D' t off]
  | some o :: t, off => by
    simp only [flipLegs, legMaskSlots]; rw [legMaskSlots_flipLegs D D' t _]

theorem flipLegs_skeleton (D : Nat → Bool) : ∀ (s : Slots) (off : Nat),
    skeleton (flipLegs D off s) = skeleton s
  | [], _ => rfl
  | none :: t, off => by
    have := flipLegs_skeleton D t off
    simp only [skeleton] at this
    simp only [flipLegs, skeleton, List.map_cons, this]
  | some o :: t, off => by
    have := flipLegs_skeleton D t (off + 2 * o.vars.length)
    simp only [skeleton] at this
    simp only [flipLegs, skeleton, List.map_cons, this, Option.map_some, Op.sk]

theorem xorState_xorState (st : List Bool) (m : Slots) : xorState (xorState st m) m = st := by
  apply List.ext_getElem?
  intro v
  rw [xorState_get, xorState_get]
  cases st[v]? with
  | none => rfl
  | some x => simp only [Option.map_some]; cases x <;> cases (firstIn v m).getD false <;> rfl

theorem xorState_comm (st : List Bool) (m1 m2 : Slots) :
    xorState (xorState st m2) m1 = xorState (xorState st m1) m2 := by
  apply List.ext_getElem?
  intro v
  simp only [xorState_get]
  cases st[v]? with
  | none => rfl
  | some x =>
    simp only [Option.map_some]
    cases x <;> cases (firstIn v m1).getD false <;> cases (firstIn v m2).getD false <;> rfl

theorem flipConfig_skeleton (D : Nat → Bool) (c : Config) :
    skeleton (flipConfig D c).slots = skeleton c.slots := flipLegs_skeleton D c.slots 0

/-- flipping the same leg set twice restores the configuration -/
theorem flipConfig_involutive (D : Nat → Bool) (c : Config) (h : ShapedSlots c.slots) :
    flipConfig D (flipConfig D c) = c := by
  simp only [flipConfig, legMaskSlots_flipLegs, xorState_xorState, flipLegs_flipLegs D c.slots 0 h]

/-- flips of two leg sets commute -/
theorem flipConfig_comm (D1 D2 : Nat → Bool) (c : Config) :
    flipConfig D1 (flipConfig D2 c) = flipConfig D2 (flipConfig D1 c) := by
  simp only [flipConfig, legMaskSlots_flipLegs, flipLegs_comm D1 D2 c.slots 0,
    xorState_comm c.state (legMaskSlots D1 0 c.slots) (legMaskSlots D2 0 c.slots)]

/-! ### (iii) `numClusters` counts the components -/

/-- number of legs of a string -/
def legCount : Slots → Nat
  | [] => 0
  | none :: t => legCount t
  | some o :: t => 2 * o.vars.length + legCount t

theorem scanFrom_off : ∀ (m : Slots) (sc : Scan), NodupVars m → (scanFrom sc m).off = sc.off + legCount m
  | [], _, _ => rfl
  | none :: t, sc, hn => by
    rw [scanFrom_none, scanFrom_off t _ hn.tail_none]; rfl
  | some o :: t, sc, hn => by
    rw [scanFrom_some, scanFrom_off t _ hn.tail_some, (step_some_spec sc o.sk hn.head).off]
    simp only [legCount, Op.sk]; omega

theorem legGraph_nlegs_eq (s : Slots) (hn : NodupVars s) : (legGraph (skeleton s)).nlegs = legCount s := by
  rw [legGraph_nlegs, scanFrom_off s {} hn]; simp

theorem legGraph_hasEdge_eq (s : Slots) (hn : NodupVars s) :
    (legGraph (skeleton s)).hasEdge = (opsOf s).any (·.isEdge) := by
  rw [legGraph_hasEdge, (scanFrom_facts s {} hn).2.2.2.2]; simp

theorem legCount_eq_zero_iff (s : Slots) (hv : ∀ o ∈ opsOf s, o.vars ≠ []) : legCount s = 0 ↔ opsOf s = [] := by
  induction s with
  | nil => simp [legCount, opsOf]
  | cons x t ih =>
    cases x with
    | none => simp only [legCount, opsOf]; exact ih (fun o ho => hv o (by simpa [opsOf] using ho))
    | some o =>
      have : o.vars.length ≠ 0 := fun h => hv o (by simp [opsOf]) (List.length_eq_zero_iff.mp h)
      simp only [legCount, opsOf]
      constructor
      · intro h; omega
      · intro h; cases h

theorem filter_zero_range (n : Nat) (hn : 0 < n) :
    ((List.range n).filter (fun i => (0 : Nat) == i)).length = 1 := by
  cases n with
  | zero => cases hn
  | succ m =>
    rw [List.range_succ_eq_map, List.filter_cons, List.filter_map]
    have : (List.range m).filter ((fun i => (0 : Nat) == i) ∘ Nat.succ) = [] := by
      rw [List.filter_eq_nil_iff]
      intro a _
      simp
    simp [this]

/-- **(iii)** the count the model attributes to the code (`numClusters`): 0 for a string without
legs; 1 when there is no constant single-site op ("the whole thing is one cluster", whatever the number
of components); otherwise the number of connected components of the leg graph (counted by their
smallest legs) -/
theorem numClusters_spec (s : Slots) (hn : NodupVars s) :
    numClusters (skeleton s) =
      if (legGraph (skeleton s)).nlegs = 0 then 0
      else if (legGraph (skeleton s)).hasEdge = false then 1
      else ((List.range (legGraph (skeleton s)).nlegs).filter
              (fun i => minConn (legGraph (skeleton s)).edges i == i)).length := by
  unfold numClusters clusterLabels
  simp only []
  cases hE : (legGraph (skeleton s)).hasEdge
  · simp only [Bool.false_eq_true, if_false, Array.size_replicate, if_true]
    by_cases hz : (legGraph (skeleton s)).nlegs = 0
    · simp [hz]
    · rw [if_neg hz]
      rw [← filter_zero_range _ (Nat.pos_of_ne_zero hz)]
      congr 1
      apply List.filter_congr
      intro i hi
      have hi' := List.mem_range.mp hi
      simp [hi']
  · simp only [if_true]
    have hspec := compLab_spec s hn
    unfold compLab at hspec
    rw [hspec.1]
    by_cases hz : (legGraph (skeleton s)).nlegs = 0
    · simp [hz]
    · rw [if_neg hz, if_neg (by simp)]
      congr 1
      apply List.filter_congr
      intro i hi
      rw [hspec.2 i (List.mem_range.mp hi)]

/-! ### skeleton-only form of `ComponentFree`, component flips -/

/-- `ComponentFree` read off the skeleton alone -/
def ComponentFreeSk (fr : SkOp → Bool) (sk : Skel) (r : Nat) : Prop :=
  ∀ x ∈ (legGraph sk).opsAt, x.2.isEdge = false → fr x.2 = true → 0 < x.2.vars.length → (compLab sk)[x.1]! ≠ r

theorem componentFree_iff (fr : SkOp → Bool) (s : Slots) (hn : NodupVars s) (r : Nat) :
    ComponentFree fr s r ↔ ComponentFreeSk fr (skeleton s) r := by
  unfold ComponentFree ComponentFreeSk
  rw [legGraph_opsAt, (scanFrom_facts s {} hn).2.2.1]
  simp only [List.nil_append, List.mem_map]
  constructor
  · rintro h x ⟨y, hy, rfl⟩ hed hfr hpos
    exact h y hy hed hfr hpos
  · intro h y hy hed hfr hpos
    exact h (y.1, y.2.sk) ⟨y, hy, rfl⟩ hed hfr hpos

theorem flipComponent_involutive (sk : Skel) (r : Nat) (c : Config) (h : ShapedSlots c.slots) :
    flipComponent sk r (flipComponent sk r c) = c := by
  unfold flipComponent
  exact flipConfig_involutive _ c h

theorem flipComponent_comm (sk : Skel) (r1 r2 : Nat) (c : Config) :
    flipComponent sk r1 (flipComponent sk r2 c) = flipComponent sk r2 (flipComponent sk r1 c) := by
  unfold flipComponent
  exact flipConfig_comm _ _ c

theorem flipComponent_skeleton (sk : Skel) (r : Nat) (c : Config) :
    skeleton (flipComponent sk r c).slots = skeleton c.slots := by
  unfold flipComponent
  exact flipConfig_skeleton _ c

/-- a cluster move keeps the structural validity of the configuration -/
theorem ClusterMove.shapeOk {fr : SkOp → Bool} {b a : Config} (h : ClusterMove fr b a) (hb : ShapeOk b)
    (hn : NodupVars b.slots) : ShapeOk a ∧ NodupVars a.slots := by
  have key : ∀ {sb sa : Slots}, PairAll (OpOk fr) sb sa → ∀ oa ∈ opsOf sa, ∃ ob ∈ opsOf sb, OpOk fr ob oa := by
    intro sb
    induction sb with
    | nil =>
      intro sa h' oa hoa
      cases sa with
      | nil => simp [opsOf] at hoa
      | cons _ _ => simp [PairAll] at h'
    | cons x tb ih =>
      intro sa h' oa hoa
      cases sa with
      | nil => cases x <;> simp [PairAll] at h'
      | cons y ta =>
        cases x with
        | none =>
          cases y with
          | none =>
            simp only [PairAll] at h'
            obtain ⟨ob, hob, hok⟩ := ih h' oa (by simpa [opsOf] using hoa)
            exact ⟨ob, by simpa [opsOf] using hob, hok⟩
          | some _ => simp [PairAll] at h'
        | some ob =>
          cases y with
          | none => simp [PairAll] at h'
          | some oa' =>
            simp only [PairAll] at h'
            simp only [opsOf, List.mem_cons] at hoa
            rcases hoa with rfl | hoa
            · exact ⟨ob, by simp [opsOf], h'.1⟩
            · obtain ⟨ob', hob', hok⟩ := ih h'.2 oa hoa
              exact ⟨ob', by simp [opsOf, hob'], hok⟩
  constructor
  · intro oa hoa
    obtain ⟨ob, hob, hok⟩ := key h.ops oa hoa
    refine ⟨by rw [hok.insA, hok.vars], by rw [hok.outsA, hok.vars], fun v hv => ?_⟩
    rw [h.stateLen]
    exact (hb ob hob).2.2 v (hok.vars ▸ hv)
  · intro oa hoa
    obtain ⟨ob, hob, hok⟩ := key h.ops oa hoa
    rw [hok.vars]; exact hn ob hob

/-! ### tags: component flips followed by the canonical tag (`Diagonal` iff inputs = outputs)

`flipConfig` leaves the derived tag field alone; the code recomputes it (`edit_in_out`). On strings with
canonical tags (`TagCanon`, what the sampler maintains) the code's result is `flipConfigT`. -/

def canonConfig (c : Config) : Config := { c with slots := canonSlots c.slots }

def flipConfigT (D : Nat → Bool) (c : Config) : Config := canonConfig (flipConfig D c)

/-- component flip with the tag rule applied -/
def flipComponentT (sk : Skel) (r : Nat) (c : Config) : Config := canonConfig (flipComponent sk r c)

theorem canonSlots_of_tagCanon : ∀ (s : Slots), TagCanon s → canonSlots s = s
  | [], _ => rfl
  | none :: t, h => by
    have := canonSlots_of_tagCanon t (fun o ho => h o (by simpa [opsOf] using ho))
    simp only [canonSlots] at this
    simp only [canonSlots, List.map_cons, Option.map_none, this]
  | some o :: t, h => by
    have := canonSlots_of_tagCanon t (fun o' ho' => h o' (by simp [opsOf, ho']))
    simp only [canonSlots] at this
    have ho := h o (by simp [opsOf])
    simp only [canonSlots, List.map_cons, Option.map_some, this, ← ho]

theorem tagCanon_canonSlots : ∀ (s : Slots), TagCanon (canonSlots s)
  | [] => by intro o ho; simp [canonSlots, opsOf] at ho
  | none :: t => by
    intro o ho
    exact tagCanon_canonSlots t o (by simpa [canonSlots, opsOf] using ho)
  | some o1 :: t => by
    intro o ho
    simp only [canonSlots, List.map_cons, Option.map_some, opsOf, List.mem_cons] at ho
    rcases ho with rfl | ho
    · rfl
    · exact tagCanon_canonSlots t o (by simpa [canonSlots] using ho)

theorem flipLegs_canonSlots (D : Nat → Bool) : ∀ (s : Slots) (off : Nat),
    canonSlots (flipLegs D off (canonSlots s)) = canonSlots (flipLegs D off s)
  | [], _ => rfl
  | none :: t, off => by
    have := flipLegs_canonSlots D t off
    simp only [canonSlots] at this
    simp only [canonSlots, flipLegs, List.map_cons, Option.map_none, this]
  | some o :: t, off => by
    have := flipLegs_canonSlots D t (off + 2 * o.vars.length)
    simp only [canonSlots] at this
    simp only [canonSlots, flipLegs, List.map_cons, Option.map_some, this]

theorem legMaskSlots_canonSlots (D : Nat → Bool) : ∀ (s : Slots) (off : Nat),
    legMaskSlots D off (canonSlots s) = legMaskSlots D off s
  | [], _ => rfl
  | none :: t, off => by
    have := legMaskSlots_canonSlots D t off
    simp only [canonSlots] at this
    simp only [canonSlots, legMaskSlots, List.map_cons, Option.map_none, this]
  | some o :: t, off => by
    have := legMaskSlots_canonSlots D t (off + 2 * o.vars.length)
    simp only [canonSlots] at this
    simp only [canonSlots, legMaskSlots, List.map_cons, Option.map_some, this]

theorem flipConfigT_canon (D : Nat → Bool) (x : Config) :
    canonConfig (flipConfig D (canonConfig x)) = canonConfig (flipConfig D x) := by
  simp only [canonConfig, flipConfig, legMaskSlots_canonSlots, flipLegs_canonSlots]

theorem flipConfigT_involutive (D : Nat → Bool) (c : Config) (h : ShapedSlots c.slots) (ht : TagCanon c.slots) :
    flipConfigT D (flipConfigT D c) = c := by
  unfold flipConfigT
  rw [flipConfigT_canon, flipConfig_involutive D c h]
  simp only [canonConfig, canonSlots_of_tagCanon c.slots ht]

theorem flipConfigT_comm (D1 D2 : Nat → Bool) (c : Config) :
    flipConfigT D1 (flipConfigT D2 c) = flipConfigT D2 (flipConfigT D1 c) := by
  unfold flipConfigT
  rw [flipConfigT_canon, flipConfigT_canon, flipConfig_comm]

theorem canon_pairAll {fr : SkOp → Bool} : ∀ {sb sa : Slots}, PairAll (OpOk fr) sb sa →
    PairAll (OpOk fr) sb (canonSlots sa) ∧ maskSlots sb (canonSlots sa) = maskSlots sb sa
  | [], [], _ => ⟨trivial, rfl⟩
  | [], _ :: _, h' => by simp [PairAll] at h'
  | none :: _, [], h' => by simp [PairAll] at h'
  | some _ :: _, [], h' => by simp [PairAll] at h'
  | none :: tb, none :: ta, h' => by
    simp only [PairAll] at h'
    obtain ⟨i1, i2⟩ := canon_pairAll h'
    simp only [canonSlots] at i1 i2
    simp only [canonSlots, List.map_cons, Option.map_none, PairAll, maskSlots, i2]
    exact ⟨i1, trivial⟩
  | none :: tb, some _ :: ta, h' => by simp [PairAll] at h'
  | some _ :: tb, none :: ta, h' => by simp [PairAll] at h'
  | some ob :: tb, some oa :: ta, h' => by
    simp only [PairAll] at h'
    obtain ⟨i1, i2⟩ := canon_pairAll h'.2
    simp only [canonSlots] at i1 i2
    simp only [canonSlots, List.map_cons, Option.map_some, PairAll, maskSlots, i2]
    have h1 := h'.1
    exact ⟨⟨⟨h1.vars, h1.bond, h1.const, h1.insB, h1.outsB, h1.insA, h1.outsA, h1.closed, h1.frozen⟩, i1⟩, rfl⟩

/-- recomputing the tags of the result keeps a cluster move a cluster move -/
theorem clusterMove_canon {fr : SkOp → Bool} {c a : Config} (h : ClusterMove fr c a) :
    ClusterMove fr c (canonConfig a) := by
  obtain ⟨i1, i2⟩ := canon_pairAll h.ops
  refine ⟨i1, h.stateLen, ?_, h.idle⟩
  have : mask c (canonConfig a) = mask c a := by simp only [mask, canonConfig, i2]
  rw [this]; exact h.linkClosed

theorem flipComponentT_clusterMove (fr : SkOp → Bool) (c : Config) (r : Nat) (hshape : ShapeOk c)
    (hn : NodupVars c.slots) (hfree : ComponentFree fr c.slots r) :
    ClusterMove fr c (flipComponentT (skeleton c.slots) r c) :=
  clusterMove_canon (flipComponent_clusterMove fr c r hshape hn hfree)

theorem flipComponentT_involutive (sk : Skel) (r : Nat) (c : Config) (h : ShapedSlots c.slots)
    (ht : TagCanon c.slots) : flipComponentT sk r (flipComponentT sk r c) = c := by
  unfold flipComponentT flipComponent
  exact flipConfigT_involutive _ c h ht

theorem flipComponentT_comm (sk : Skel) (r1 r2 : Nat) (c : Config) :
    flipComponentT sk r1 (flipComponentT sk r2 c) = flipComponentT sk r2 (flipComponentT sk r1 c) := by
  unfold flipComponentT flipComponent
  exact flipConfigT_comm _ _ c

theorem flipComponentT_tagCanon (sk : Skel) (r : Nat) (c : Config) : TagCanon (flipComponentT sk r c).slots :=
  tagCanon_canonSlots _

end Qmc
