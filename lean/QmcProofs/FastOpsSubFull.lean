/-
C11, sub-variable mutations, assembly: the public sequences
`get_empty_args(All | Varlist | Args(…))` → `fill_args_at_p(pstart)` → `mutate_subsection[_ops](…, Some(args))`
on the canonical container.
-/
import QmcProofs.FastOpsSubSweep

namespace Qmc

theorem prevRel_append_none (s : Slots) (k v p : Nat) :
    prevRel (s ++ List.replicate k none) v p = prevRel s v p := by
  unfold prevRel; rw [occV_append_none, relAt_append_none]

theorem prevRel_growA (s : Slots) (k v p : Nat) : prevRel (growA s k) v p = prevRel s v p := by
  unfold growA; split
  · exact prevRel_append_none s _ v p
  · rfl

theorem occAt_growA (s : Slots) (k : Nat) : occAt (growA s k) = occAt s := by
  unfold growA; split
  · exact FastOps.occ_append_none s _
  · rfl

theorem cursorByScan_growA (nv : Nat) (s : Slots) (k p u : Nat) :
    cursorByScan nv (growA s k) p u = cursorByScan nv s p u := by
  unfold cursorByScan
  simp only [occAt_growA, prevRel_growA]

theorem SubCur.growA {a : Cursor} {vs : List Nat} {s : Slots} {p : Nat} (h : SubCur a vs s p) (k : Nat) :
    SubCur a vs (Qmc.growA s k) p := by
  constructor
  · rw [occAt_growA]; exact h.hP
  · exact h.hm
  · rw [h.hv]; apply List.map_congr_left; intro v _; rw [prevRel_growA]
  · rw [h.hr]; apply List.map_congr_left; intro v _; rw [prevRel_growA]

theorem length_growA_ge (s : Slots) (k : Nat) : k ≤ (growA s k).length ∧ s.length ≤ (growA s k).length := by
  unfold growA; split
  · simp; omega
  · omega

theorem filter_range_getD (l : List Nat) (P : Nat → Bool) (d : Nat) :
    ((List.range l.length).filter (fun i => P (l.getD i d))).length = (l.filter P).length := by
  have hmap : (List.range l.length).map (fun i => l.getD i d) = l := by
    apply List.ext_getElem?
    intro i
    simp only [List.getElem?_map]
    by_cases hi : i < l.length
    · rw [List.getElem?_range hi]
      simp [List.getD_eq_getElem?_getD, List.getElem?_eq_getElem hi]
    · rw [List.getElem?_eq_none (by simpa using Nat.le_of_not_lt hi),
        List.getElem?_eq_none (Nat.le_of_not_lt hi)]
      rfl
  have : (l.filter P).length = (((List.range l.length).map (fun i => l.getD i d)).filter P).length := by
    rw [hmap]
  rw [this, List.filter_map, List.length_map]
  rfl

namespace FastOps

/-- `get_empty_args(SubvarAccess::Args(a))` on a freshly made Varlist cursor recomputes the same
counter -/
theorem getEmptyArgsFromArgs_varlist (c : FastOps) (vs : List Nat) :
    c.getEmptyArgsFromArgs (c.getEmptyArgsVarlist vs) = c.getEmptyArgsVarlist vs := by
  unfold getEmptyArgsFromArgs
  have hlen : (c.getEmptyArgsVarlist vs).lastVars.length = vs.length := by simp [getEmptyArgsVarlist]
  have hu : ((List.range (c.getEmptyArgsVarlist vs).lastVars.length).filter (fun sub =>
      ((c.getEmptyArgsVarlist vs).lastVar sub).isNone &&
        (c.varEnd ((c.getEmptyArgsVarlist vs).subvarToVar sub)).isSome)).length
      = (c.getEmptyArgsVarlist vs).unfilled := by
    rw [hlen]
    have : (List.range vs.length).filter (fun sub =>
        ((c.getEmptyArgsVarlist vs).lastVar sub).isNone &&
          (c.varEnd ((c.getEmptyArgsVarlist vs).subvarToVar sub)).isSome)
        = (List.range vs.length).filter (fun i => (c.varEnd (vs.getD i 0)).isSome) := by
      apply List.filter_congr
      intro i hi
      have hi' : i < vs.length := by simpa using hi
      simp [Cursor.lastVar, getEmptyArgsVarlist, Cursor.subvarToVar, hi']
    rw [this, filter_range_getD vs (fun v => (c.varEnd v).isSome) 0]
    rfl
  rw [hu]

/-- … and on a freshly made All cursor of the canonical container -/
theorem getEmptyArgsFromArgs_all (nv : Nat) (nb : Option Nat) (s : Slots) :
    (canon nv nb s).getEmptyArgsFromArgs (canon nv nb s).getEmptyArgsAll = (canon nv nb s).getEmptyArgsAll := by
  unfold getEmptyArgsFromArgs
  have hu : ((List.range (canon nv nb s).getEmptyArgsAll.lastVars.length).filter (fun sub =>
      ((canon nv nb s).getEmptyArgsAll.lastVar sub).isNone &&
        ((canon nv nb s).varEnd ((canon nv nb s).getEmptyArgsAll.subvarToVar sub)).isSome)).length
      = (canon nv nb s).getEmptyArgsAll.unfilled := by
    have hlen : (canon nv nb s).getEmptyArgsAll.lastVars.length = nv := by
      simp [getEmptyArgsAll, getNvars_canon]
    rw [hlen]
    have : (List.range nv).filter (fun sub =>
        ((canon nv nb s).getEmptyArgsAll.lastVar sub).isNone &&
          ((canon nv nb s).varEnd ((canon nv nb s).getEmptyArgsAll.subvarToVar sub)).isSome)
        = (List.range nv).filter (fun i => (canonVarEnd s i).isSome) := by
      apply List.filter_congr
      intro i hi
      have hi' : i < nv := by simpa using hi
      simp [Cursor.lastVar, getEmptyArgsAll, Cursor.subvarToVar, getNvars_canon, hi',
        varEnd_canon nv nb s i hi']
    rw [this]
    simp only [getEmptyArgsAll, canon, List.filter_map, List.length_map]
    rfl
  rw [hu]

theorem emptyArgsOf_all (nv : Nat) (nb : Option Nat) (s : Slots) (via : Bool) :
    (canon nv nb s).emptyArgsOf .all via = (canon nv nb s).getEmptyArgsAll := by
  unfold emptyArgsOf
  cases via
  · rfl
  · simp [getEmptyArgsFromArgs_all]

theorem emptyArgsOf_varlist (c : FastOps) (vs : List Nat) (via : Bool) :
    c.emptyArgsOf (.varlist vs) via = c.getEmptyArgsVarlist vs := by
  unfold emptyArgsOf
  cases via
  · rfl
  · simp [getEmptyArgsFromArgs_varlist]

/-- `mutate_subsection(…, Some(args))`, args = All through the non-hint fill -/
theorem sweepArgsAll_canon {τ : Type} (nv : Nat) (nb : Option Nat) (s : Slots) (via : Bool) (ps pe : Nat) (t : τ)
    (f : FastOps → Option Op → τ → Option (Option Op) × τ) (hwf : WF nv nb s) (hle : ps ≤ pe)
    (hf : ∀ c o t, ActOK nv nb (f c o t).1) :
    (mutateSubsection (canon nv nb s) ps pe t f
        (some ((canon nv nb s).fillArgsAtP ps ((canon nv nb s).emptyArgsOf .all via)))).1
      = canon nv nb (sweepLoopA nv nb f ps (pe - ps) (growA s pe) t).1 ∧
    WF nv nb (sweepLoopA nv nb f ps (pe - ps) (growA s pe) t).1 := by
  rw [emptyArgsOf_all, fillArgsAtP_canon nv nb s ps hwf]
  unfold mutateSubsection
  simp only [grow_canon]
  have hwf' := WF_growA nv nb s pe hwf
  rw [← cursorByScan_growA nv s pe]
  have hlen : ps + (pe - ps) ≤ (growA s pe).length := by
    have := (length_growA_ge s pe).1; omega
  obtain ⟨h1, h2⟩ := sweepLoop_canon nv nb f hf _ (pe - ps) ps (growA s pe) t hwf' hlen
  rw [h1]
  exact ⟨rfl, h2⟩

/-- `mutate_subsection_ops(…, Some(args))`, args = All through the non-hint fill -/
theorem sweepOpsArgsAll_canon {τ : Type} (nv : Nat) (nb : Option Nat) (s : Slots) (via : Bool) (ps pe : Nat)
    (t : τ) (f : FastOps → Op → Nat → τ → Option (Option Op) × τ) (hwf : WF nv nb s) (hle : ps ≤ pe)
    (hlt : ps < s.length)
    (hf : ∀ c o q t, ActOK nv nb (f c o q t).1 ∧ (f c o q t).1 ≠ some none) :
    (mutateSubsectionOps (canon nv nb s) ps pe t f
        (some ((canon nv nb s).fillArgsAtP ps ((canon nv nb s).emptyArgsOf .all via)))).1
      = canon nv nb (sweepLoopA nv nb (opsWrap f) ps (min (pe + 1) (growA s pe).length - ps)
          (growA s pe) (t, ps)).1 ∧
    WF nv nb (sweepLoopA nv nb (opsWrap f) ps (min (pe + 1) (growA s pe).length - ps)
          (growA s pe) (t, ps)).1 := by
  rw [emptyArgsOf_all, fillArgsAtP_canon nv nb s ps hwf]
  unfold mutateSubsectionOps
  simp only [grow_canon]
  have hwf' := WF_growA nv nb s pe hwf
  rw [← cursorByScan_growA nv s pe]
  simp only [cursorByScan]
  have hstart := opsStart_canon nv nb (growA s pe) ps
  have hge := length_growA_ge s pe
  have hk : ps + (min (pe + 1) (growA s pe).length - ps) = min (pe + 1) (growA s pe).length := by omega
  have := opsWalk_canon nv nb f pe hf
    ((canon nv nb s).fillArgsAtP ps (canon nv nb s).getEmptyArgsAll).unfilled
    (min (pe + 1) (growA s pe).length - ps) ps (growA s pe) t ((growA s pe).length + 1) hwf' hk (by omega)
  rw [← hstart] at this
  simp only [cursorByScan, length_canon] at this ⊢
  exact ⟨this.1, this.2.2⟩

/-- `mutate_subsection(…, Some(args))`, args = Varlist through the non-hint fill -/
theorem sweepArgsVarlist_canon {τ : Type} (nv : Nat) (nb : Option Nat) (s : Slots) (vs : List Nat) (via : Bool)
    (ps pe : Nat) (t : τ)
    (f : FastOps → Option Op → τ → Option (Option Op) × τ) (hwf : WF nv nb s) (hle : ps ≤ pe)
    (hn : vs.Nodup) (hlt : ∀ v, v ∈ vs → v < nv)
    (hdom : (∃ v, v ∈ vs ∧ hasOpsV s v = true) ∨ prevOcc (occAt s) ps = none)
    (hf : ∀ c o t, SubActOK nv nb vs o (f c o t).1) :
    (mutateSubsection (canon nv nb s) ps pe t f
        (some ((canon nv nb s).fillArgsAtP ps ((canon nv nb s).emptyArgsOf (.varlist vs) via)))).1
      = canon nv nb (sweepLoopA nv nb f ps (pe - ps) (growA s pe) t).1 ∧
    WF nv nb (sweepLoopA nv nb f ps (pe - ps) (growA s pe) t).1 := by
  rw [emptyArgsOf_varlist]
  obtain ⟨h0, hlp0, hu0⟩ := emptyArgsVarlist_WGS nv nb vs hn hlt s ps
  have hcur := fillArgsAtP_sub nv nb vs hn s ps hwf _ h0 hlp0 (by
    intro hu
    cases hdom with
    | inr h => exact h
    | inl h =>
      exfalso
      obtain ⟨v, hv, hops⟩ := h
      rw [hu0] at hu
      have : v ∈ vs.filter (hasOpsV s) := by rw [List.mem_filter]; exact ⟨hv, hops⟩
      rw [List.length_eq_zero_iff] at hu
      rw [hu] at this; cases this)
  unfold mutateSubsection
  simp only [grow_canon]
  have hwf' := WF_growA nv nb s pe hwf
  have hlen : ps + (pe - ps) ≤ (growA s pe).length := by
    have := (length_growA_ge s pe).1; omega
  obtain ⟨h1, _, h3⟩ := sweepLoop_sub nv nb vs hn hlt f hf (pe - ps) ps (growA s pe) t _ hwf' hlen
    (hcur.growA pe)
  rw [h1]
  exact ⟨rfl, h3⟩

end FastOps
end Qmc
