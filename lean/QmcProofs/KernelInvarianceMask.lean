import QmcProofs.KernelInvarianceSpace

/-!
# Cluster families from flip masks (helper of `KernelInvariance.lean`)

A *mask* is a configuration on the same skeleton whose values say which legs (and which `p = 0`
spins) are flipped — the object `mask before after` of C09.  `applyMask m c` xors the values of `c`
with the mask and recomputes every tag (`edit_in_out`).  For a list of masks of one skeleton the maps
`maskFlip ms m` are total, pairwise commuting involutions (xor algebra — nothing assumed), and each is
a C09 cluster move as soon as the mask is `ValidMask` (adjacency-closed: `Consistent m`, every
non-edge operator entirely in or entirely out; no operator of flip weight 0; no idle variable).
So a cluster decomposition enters the kernel theorems only through `ValidMask` of its cluster
indicators.
-/

namespace Qmc.Kernel
open Qmc

/-! ### xor algebra on bit lists -/

theorem xorB_cancel_left : ∀ (x m : List Bool), x.length = m.length → xorB x (xorB x m) = m
  | [], [], _ => rfl
  | [], _ :: _, h => by simp at h
  | _ :: _, [], h => by simp at h
  | a :: x, b :: m, h => by
    have ih := xorB_cancel_left x m (by simpa using h)
    simp only [xorB, List.zipWith_cons_cons, List.cons.injEq] at ih ⊢
    exact ⟨by cases a <;> cases b <;> rfl, ih⟩

theorem xorB_cancel_right : ∀ (x m : List Bool), x.length = m.length → xorB (xorB x m) m = x
  | [], [], _ => rfl
  | [], _ :: _, h => by simp at h
  | _ :: _, [], h => by simp at h
  | a :: x, b :: m, h => by
    have ih := xorB_cancel_right x m (by simpa using h)
    simp only [xorB, List.zipWith_cons_cons, List.cons.injEq] at ih ⊢
    exact ⟨by cases a <;> cases b <;> rfl, ih⟩

theorem xorB_right_comm : ∀ (s a b : List Bool), xorB (xorB s a) b = xorB (xorB s b) a
  | [], _, _ => by simp [xorB]
  | _ :: _, [], [] => by simp [xorB]
  | _ :: _, [], _ :: _ => by simp [xorB]
  | _ :: _, _ :: _, [] => by simp [xorB]
  | x :: s, y :: a, z :: b => by
    have ih := xorB_right_comm s a b
    simp only [xorB, List.zipWith_cons_cons, List.cons.injEq] at ih ⊢
    exact ⟨by cases x <;> cases y <;> cases z <;> rfl, ih⟩

theorem xorB_false : ∀ (x : List Bool), xorB x (List.replicate x.length false) = x
  | [] => rfl
  | a :: x => by
    have ih := xorB_false x
    simp only [xorB, List.length_cons, List.replicate_succ, List.zipWith_cons_cons, List.cons.injEq] at ih ⊢
    exact ⟨by cases a <;> rfl, ih⟩

theorem xorB_true : ∀ (x : List Bool), xorB x (List.replicate x.length true) = flipBits x
  | [] => rfl
  | a :: x => by
    have ih := xorB_true x
    simp only [xorB, List.length_cons, List.replicate_succ, List.zipWith_cons_cons, flipBits,
      List.map_cons, List.cons.injEq] at ih ⊢
    exact ⟨by cases a <;> rfl, ih⟩

/-! ### applying a mask -/

/-- xor the values with the mask, recompute the tag (`Diagonal` iff inputs = outputs) -/
def xorOp (o m : Op) : Op :=
  { o with ins := xorB o.ins m.ins, outs := xorB o.outs m.outs,
           tagDiag := (xorB o.ins m.ins == xorB o.outs m.outs) }

def xorSlots : Slots → Slots → Slots
  | some o :: t, some m :: tm => some (xorOp o m) :: xorSlots t tm
  | none :: t, _ :: tm => none :: xorSlots t tm
  | _, _ => []

def applyMask (m c : Config) : Config :=
  { state := xorB c.state m.state, slots := xorSlots c.slots m.slots }

/-- the mask operator sits on the same operator, has one bit per leg, and carries the tag of
`maskOp` -/
def FitOp (o m : Op) : Prop :=
  m.vars = o.vars ∧ m.bond = o.bond ∧ m.const = o.const ∧ m.tagDiag = false ∧
    o.ins.length = o.vars.length ∧ o.outs.length = o.vars.length ∧
    m.ins.length = o.vars.length ∧ m.outs.length = o.vars.length

/-- the mask has the shape of the configuration -/
def FitsShape (m c : Config) : Prop :=
  m.state.length = c.state.length ∧ PairAll FitOp c.slots m.slots

theorem FitOp.xor {o m m' : Op} (h : FitOp o m) (h' : FitOp o m') : FitOp (xorOp o m) m' := by
  obtain ⟨h1, h2, h3, h4, h5, h6, h7, h8⟩ := h
  obtain ⟨g1, g2, g3, g4, -, -, g7, g8⟩ := h'
  refine ⟨g1, g2, g3, g4, ?_, ?_, g7, g8⟩
  · simp only [xorOp, xorB_length, h5, h7, Nat.min_self]
  · simp only [xorOp, xorB_length, h6, h8, Nat.min_self]

theorem pairAll_fit_xor : ∀ {sc sm sm' : Slots}, PairAll FitOp sc sm → PairAll FitOp sc sm' →
    PairAll FitOp (xorSlots sc sm) sm'
  | [], [], [], _, _ => trivial
  | [], [], _ :: _, _, h' => by simp [PairAll] at h'
  | [], _ :: _, _, h, _ => by simp [PairAll] at h
  | none :: _, [], _, h, _ => by simp [PairAll] at h
  | some _ :: _, [], _, h, _ => by simp [PairAll] at h
  | none :: _, _ :: _, [], _, h' => by simp [PairAll] at h'
  | some _ :: _, _ :: _, [], _, h' => by simp [PairAll] at h'
  | none :: tc, some _ :: tm, _ :: _, h, _ => by simp [PairAll] at h
  | some _ :: tc, none :: tm, _ :: _, h, _ => by simp [PairAll] at h
  | none :: tc, none :: tm, some _ :: _, _, h' => by simp [PairAll] at h'
  | some _ :: tc, some _ :: tm, none :: _, _, h' => by simp [PairAll] at h'
  | none :: tc, none :: tm, none :: tm', h, h' => by
    simp only [PairAll] at h h'
    simp only [xorSlots, PairAll]
    exact pairAll_fit_xor h h'
  | some o :: tc, some m :: tm, some m' :: tm', h, h' => by
    simp only [PairAll] at h h'
    simp only [xorSlots, PairAll]
    exact ⟨h.1.xor h'.1, pairAll_fit_xor h.2 h'.2⟩

theorem xorB_length_eq {x y : List Bool} (h : y.length = x.length) : (xorB x y).length = x.length := by
  rw [xorB_length, h, Nat.min_self]

theorem FitsShape.applyMask {m m' c : Config} (h : FitsShape m c) (h' : FitsShape m' c) :
    FitsShape m' (applyMask m c) :=
  ⟨by simp only [Qmc.Kernel.applyMask]; rw [xorB_length_eq h.1]; exact h'.1,
   pairAll_fit_xor h.2 h'.2⟩

theorem xorSlots_tagCanon : ∀ {sc sm : Slots}, TagCanon (xorSlots sc sm)
  | [], _ => by intro o ho; simp [xorSlots, opsOf] at ho
  | none :: tc, [] => by intro o ho; simp [xorSlots, opsOf] at ho
  | some _ :: tc, [] => by intro o ho; simp [xorSlots, opsOf] at ho
  | none :: tc, _ :: tm => by
    intro o ho
    simp only [xorSlots, opsOf] at ho
    exact xorSlots_tagCanon o ho
  | some _ :: tc, none :: tm => by intro o ho; simp [xorSlots, opsOf] at ho
  | some oc :: tc, some om :: tm => by
    intro o ho
    simp only [xorSlots, opsOf, List.mem_cons] at ho
    rcases ho with rfl | ho
    · rfl
    · exact xorSlots_tagCanon o ho

theorem xorOp_xorOp {o m : Op} (h : FitOp o m) (ht : o.tagDiag = (o.ins == o.outs)) :
    xorOp (xorOp o m) m = o := by
  obtain ⟨-, -, -, -, h5, h6, h7, h8⟩ := h
  cases o with
  | mk vars bond ins outs tag const =>
    simp only at h5 h6 h7 h8 ht
    simp only [xorOp, Op.mk.injEq, true_and, and_true]
    rw [xorB_cancel_right ins m.ins (by rw [h5, h7]), xorB_cancel_right outs m.outs (by rw [h6, h8])]
    exact ⟨rfl, rfl, ht.symm⟩

theorem xorSlots_xorSlots : ∀ {sc sm : Slots}, PairAll FitOp sc sm → TagCanon sc →
    xorSlots (xorSlots sc sm) sm = sc
  | [], [], _, _ => rfl
  | [], _ :: _, h, _ => by simp [PairAll] at h
  | none :: _, [], h, _ => by simp [PairAll] at h
  | some _ :: _, [], h, _ => by simp [PairAll] at h
  | none :: tc, some _ :: tm, h, _ => by simp [PairAll] at h
  | some _ :: tc, none :: tm, h, _ => by simp [PairAll] at h
  | none :: tc, none :: tm, h, ht => by
    simp only [PairAll] at h
    simp only [xorSlots, List.cons.injEq, true_and]
    exact xorSlots_xorSlots h (fun o ho => ht o (by simpa [opsOf] using ho))
  | some o :: tc, some m :: tm, h, ht => by
    simp only [PairAll] at h
    simp only [xorSlots, List.cons.injEq, Option.some.injEq]
    exact ⟨xorOp_xorOp h.1 (ht o (by simp [opsOf])),
      xorSlots_xorSlots h.2 (fun o' ho => ht o' (by simp [opsOf, ho]))⟩

theorem applyMask_applyMask {m c : Config} (h : FitsShape m c) (ht : TagCanon c.slots) :
    applyMask m (applyMask m c) = c := by
  cases c with
  | mk st sl =>
    simp only [applyMask, Config.mk.injEq]
    exact ⟨xorB_cancel_right st m.state h.1.symm, xorSlots_xorSlots h.2 ht⟩

theorem xorSlots_comm : ∀ {sc sm sm' : Slots}, PairAll FitOp sc sm → PairAll FitOp sc sm' →
    xorSlots (xorSlots sc sm) sm' = xorSlots (xorSlots sc sm') sm
  | [], [], [], _, _ => rfl
  | [], [], _ :: _, _, h' => by simp [PairAll] at h'
  | [], _ :: _, _, h, _ => by simp [PairAll] at h
  | none :: _, [], _, h, _ => by simp [PairAll] at h
  | some _ :: _, [], _, h, _ => by simp [PairAll] at h
  | none :: _, _ :: _, [], _, h' => by simp [PairAll] at h'
  | some _ :: _, _ :: _, [], _, h' => by simp [PairAll] at h'
  | none :: tc, some _ :: tm, _ :: _, h, _ => by simp [PairAll] at h
  | some _ :: tc, none :: tm, _ :: _, h, _ => by simp [PairAll] at h
  | none :: tc, none :: tm, some _ :: _, _, h' => by simp [PairAll] at h'
  | some _ :: tc, some _ :: tm, none :: _, _, h' => by simp [PairAll] at h'
  | none :: tc, none :: tm, none :: tm', h, h' => by
    simp only [PairAll] at h h'
    simp only [xorSlots, List.cons.injEq, true_and]
    exact xorSlots_comm h h'
  | some o :: tc, some m :: tm, some m' :: tm', h, h' => by
    simp only [PairAll] at h h'
    simp only [xorSlots, List.cons.injEq, Option.some.injEq]
    refine ⟨?_, xorSlots_comm h.2 h'.2⟩
    simp only [xorOp, Op.mk.injEq, true_and, and_true]
    rw [xorB_right_comm o.ins m.ins m'.ins, xorB_right_comm o.outs m.outs m'.outs]
    exact ⟨rfl, rfl, rfl⟩

theorem applyMask_comm {m m' c : Config} (h : FitsShape m c) (h' : FitsShape m' c) :
    applyMask m' (applyMask m c) = applyMask m (applyMask m' c) := by
  simp only [applyMask, Config.mk.injEq]
  exact ⟨xorB_right_comm _ _ _, xorSlots_comm h.2 h'.2⟩

/-! ### a valid mask gives a cluster move -/

def AllFalse (m : Op) : Prop :=
  m.ins = List.replicate m.ins.length false ∧ m.outs = List.replicate m.outs.length false
def AllTrue (m : Op) : Prop :=
  m.ins = List.replicate m.ins.length true ∧ m.outs = List.replicate m.outs.length true

/-- the mask is the indicator of an adjacency-closed set of legs avoiding the operators of flip
weight 0 and the idle variables — a union of flippable clusters -/
structure ValidMask (fr : SkOp → Bool) (m : Config) : Prop where
  /-- closed along world lines, through the time boundary, including the `p = 0` state -/
  link : Consistent m
  /-- a non-edge operator is entirely in or entirely out -/
  closed : ∀ o ∈ opsOf m.slots, o.isEdge = false → AllFalse o ∨ AllTrue o
  /-- operators of flip weight 0 are out -/
  frozen : ∀ o ∈ opsOf m.slots, o.isEdge = false → fr o.sk = true → AllFalse o
  /-- variables without operators are out -/
  idle : ∀ v, varHasOp (skeleton m.slots) v = false → m.state.getD v false = false

theorem opOk_xorOp {fr : SkOp → Bool} {o m : Op} (h : FitOp o m)
    (hc : m.isEdge = false → AllFalse m ∨ AllTrue m)
    (hf : m.isEdge = false → fr m.sk = true → AllFalse m) : OpOk fr o (xorOp o m) := by
  obtain ⟨h1, h2, h3, h4, h5, h6, h7, h8⟩ := h
  have hsk : m.sk = o.sk := by simp [Op.sk, h1, h2, h3]
  have hedge : m.isEdge = o.isEdge := by simp [Op.isEdge, hsk]
  have unch : AllFalse m → Unchanged o (xorOp o m) := by
    intro ha
    constructor
    · simp only [xorOp]; rw [ha.1, h7, ← h5]; exact xorB_false _
    · simp only [xorOp]; rw [ha.2, h8, ← h6]; exact xorB_false _
  refine ⟨rfl, rfl, rfl, h5, h6, ?_, ?_, ?_, ?_⟩
  · simp only [xorOp, xorB_length, h5, h7, Nat.min_self]
  · simp only [xorOp, xorB_length, h6, h8, Nat.min_self]
  · intro he
    rcases hc (by rw [hedge]; exact he) with ha | ha
    · exact Or.inl (unch ha)
    · right
      constructor
      · simp only [xorOp]; rw [ha.1, h7, ← h5]; exact xorB_true _
      · simp only [xorOp]; rw [ha.2, h8, ← h6]; exact xorB_true _
  · intro he hfr
    exact unch (hf (by rw [hedge]; exact he) (by rw [hsk]; exact hfr))

theorem pairAll_opOk_xor {fr : SkOp → Bool} : ∀ {sc sm : Slots}, PairAll FitOp sc sm →
    (∀ o ∈ opsOf sm, o.isEdge = false → AllFalse o ∨ AllTrue o) →
    (∀ o ∈ opsOf sm, o.isEdge = false → fr o.sk = true → AllFalse o) →
    PairAll (OpOk fr) sc (xorSlots sc sm)
  | [], [], _, _, _ => trivial
  | [], _ :: _, h, _, _ => by simp [PairAll] at h
  | none :: _, [], h, _, _ => by simp [PairAll] at h
  | some _ :: _, [], h, _, _ => by simp [PairAll] at h
  | none :: tc, some _ :: tm, h, _, _ => by simp [PairAll] at h
  | some _ :: tc, none :: tm, h, _, _ => by simp [PairAll] at h
  | none :: tc, none :: tm, h, hc, hf => by
    simp only [PairAll] at h
    simp only [xorSlots, PairAll]
    exact pairAll_opOk_xor h (fun o ho => hc o (by simpa [opsOf] using ho))
      (fun o ho => hf o (by simpa [opsOf] using ho))
  | some o :: tc, some m :: tm, h, hc, hf => by
    simp only [PairAll] at h
    simp only [xorSlots, PairAll]
    exact ⟨opOk_xorOp h.1 (hc m (by simp [opsOf])) (hf m (by simp [opsOf])),
      pairAll_opOk_xor h.2 (fun o' ho => hc o' (by simp [opsOf, ho]))
        (fun o' ho => hf o' (by simp [opsOf, ho]))⟩

theorem maskSlots_xorSlots : ∀ {sc sm : Slots}, PairAll FitOp sc sm →
    maskSlots sc (xorSlots sc sm) = sm
  | [], [], _ => rfl
  | [], _ :: _, h => by simp [PairAll] at h
  | none :: _, [], h => by simp [PairAll] at h
  | some _ :: _, [], h => by simp [PairAll] at h
  | none :: tc, some _ :: tm, h => by simp [PairAll] at h
  | some _ :: tc, none :: tm, h => by simp [PairAll] at h
  | none :: tc, none :: tm, h => by
    simp only [PairAll] at h
    simp only [xorSlots, maskSlots, List.cons.injEq, true_and]
    exact maskSlots_xorSlots h
  | some o :: tc, some m :: tm, h => by
    simp only [PairAll] at h
    simp only [xorSlots, maskSlots, List.cons.injEq, Option.some.injEq]
    refine ⟨?_, maskSlots_xorSlots h.2⟩
    obtain ⟨h1, h2, h3, h4, h5, h6, h7, h8⟩ := h.1
    cases m with
    | mk vars bond ins outs tag const =>
      simp only at h1 h2 h3 h4 h7 h8
      simp only [maskOp, xorOp, Op.mk.injEq]
      exact ⟨h1.symm, h2.symm, xorB_cancel_left o.ins ins (by rw [h5, h7]),
        xorB_cancel_left o.outs outs (by rw [h6, h8]), h4.symm, h3.symm⟩

theorem skeleton_of_pairAll_fit : ∀ {sc sm : Slots}, PairAll FitOp sc sm → skeleton sm = skeleton sc :=
  fun h => PairAll.skeleton_eq (fun x y (hxy : FitOp x y) => by
    simp [Op.sk, hxy.1, hxy.2.1, hxy.2.2.1]) h

/-- **a valid mask of the right shape is a C09 cluster move** -/
theorem clusterMove_applyMask {fr : SkOp → Bool} {m c : Config} (hv : ValidMask fr m)
    (hs : FitsShape m c) : ClusterMove fr c (applyMask m c) := by
  have hmask : mask c (applyMask m c) = m := by
    cases m with
    | mk mst msl =>
      simp only [mask, applyMask, Config.mk.injEq]
      exact ⟨xorB_cancel_left c.state mst hs.1.symm, maskSlots_xorSlots hs.2⟩
  refine ⟨pairAll_opOk_xor hs.2 hv.closed hv.frozen, ?_, ?_, ?_⟩
  · simp only [applyMask]; exact xorB_length_eq hs.1
  · rw [hmask]; exact hv.link
  · intro v hvv
    have hsk := skeleton_of_pairAll_fit hs.2
    have hm := hv.idle v (by rw [hsk]; exact hvv)
    simp only [applyMask]
    rw [getElem?_xorB]
    by_cases hlt : v < c.state.length
    · have hlt' : v < m.state.length := by rw [hs.1]; exact hlt
      rw [List.getD_eq_getElem?_getD, List.getElem?_eq_getElem hlt'] at hm
      simp only [Option.getD_some] at hm
      rw [List.getElem?_eq_getElem hlt, List.getElem?_eq_getElem hlt', hm]
      simp
    · have h1 : c.state.length ≤ v := Nat.le_of_not_lt hlt
      rw [List.getElem?_eq_none h1]

/-! ### the family of a list of masks -/

open Classical in
/-- flip the legs of `m`, on the canonical-tag configurations that all masks `ms` fit; identity
elsewhere -/
noncomputable def maskFlip (ms : List Config) (m : Config) (c : Config) : Config :=
  if TagCanon c.slots ∧ ∀ m' ∈ ms, FitsShape m' c then applyMask m c else c

theorem maskFlip_dom {ms : List Config} {m : Config} (hm : m ∈ ms) {c : Config}
    (h : TagCanon c.slots ∧ ∀ m' ∈ ms, FitsShape m' c) :
    maskFlip ms m c = applyMask m c ∧
      (TagCanon (applyMask m c).slots ∧ ∀ m' ∈ ms, FitsShape m' (applyMask m c)) := by
  refine ⟨by unfold maskFlip; rw [if_pos h], xorSlots_tagCanon, fun m' hm' => ?_⟩
  exact (h.2 m hm).applyMask (h.2 m' hm')

theorem maskFlip_invol {ms : List Config} {m : Config} (hm : m ∈ ms) (c : Config) :
    maskFlip ms m (maskFlip ms m c) = c := by
  by_cases h : TagCanon c.slots ∧ ∀ m' ∈ ms, FitsShape m' c
  · obtain ⟨e, h'⟩ := maskFlip_dom hm h
    rw [e]
    rw [(maskFlip_dom hm h').1]
    exact applyMask_applyMask (h.2 m hm) h.1
  · have e : maskFlip ms m c = c := by unfold maskFlip; rw [if_neg h]
    rw [e, e]

theorem maskFlip_comm {ms : List Config} {m m' : Config} (hm : m ∈ ms) (hm' : m' ∈ ms) (c : Config) :
    maskFlip ms m (maskFlip ms m' c) = maskFlip ms m' (maskFlip ms m c) := by
  by_cases h : TagCanon c.slots ∧ ∀ m' ∈ ms, FitsShape m' c
  · obtain ⟨e, h1⟩ := maskFlip_dom hm h
    obtain ⟨e', h1'⟩ := maskFlip_dom hm' h
    rw [e, e', (maskFlip_dom hm h1').1, (maskFlip_dom hm' h1).1]
    exact applyMask_comm (h.2 m' hm') (h.2 m hm)
  · have e : maskFlip ms m c = c := by unfold maskFlip; rw [if_neg h]
    have e' : maskFlip ms m' c = c := by unfold maskFlip; rw [if_neg h]
    rw [e, e', e]

theorem maskFlip_move {fr : SkOp → Bool} {ms : List Config} {m : Config} (hm : m ∈ ms)
    (hv : ValidMask fr m) (c : Config) : maskFlip ms m c = c ∨ ClusterMove fr c (maskFlip ms m c) := by
  by_cases h : TagCanon c.slots ∧ ∀ m' ∈ ms, FitsShape m' c
  · right
    rw [(maskFlip_dom hm h).1]
    exact clusterMove_applyMask hv (h.2 m hm)
  · left; unfold maskFlip; rw [if_neg h]

/-- **Cluster family of a mask decomposition.**  `masks s` lists the indicator masks of the
flippable clusters of skeleton `s`; the only hypothesis is that each of them is a `ValidMask`.
Involution, commutation and closure are proved, not assumed. -/
noncomputable def ClusterFamily.ofMasks {fr : SkOp → Bool} (H : Ham) (N L : Nat)
    (masks : Skel → List Config) (hvalid : ∀ s, ∀ m ∈ masks s, ValidMask fr m) :
    ClusterFamily fr (cfgSpace H N L) :=
  ClusterFamily.ofMoves (fun s => (masks s).map (maskFlip (masks s)))
    (by
      intro s f hf c _ _
      obtain ⟨m, hm, rfl⟩ := List.mem_map.mp hf
      exact maskFlip_invol hm c)
    (by
      intro s f hf g hg c _ _
      obtain ⟨m, hm, rfl⟩ := List.mem_map.mp hf
      obtain ⟨m', hm', rfl⟩ := List.mem_map.mp hg
      exact maskFlip_comm hm hm' c)
    (by
      intro s f hf c _ _
      obtain ⟨m, hm, rfl⟩ := List.mem_map.mp hf
      exact maskFlip_move hm (hvalid s m hm) c)

end Qmc.Kernel
