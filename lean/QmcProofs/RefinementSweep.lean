/-
Refinement, part 1: the EXACT diagonal-update functions of C08 (`metropolisSweep`, `heatBathSweep`,
QmcModel/Diagonal.lean / HeatBath.lean — the functions whose trajectories the C08 correspondence
compares word for word with the real code) are instances of the RELATION `DiagSweepStep` of
C06/C07 (QmcModel/Worldline.lean).

Imports: `QmcProofs.HeatBath` cannot be imported next to `QmcProofs.Worldline` (both declare
`Qmc.readVars_length`; it also clashes with `QmcProofs.Cutoff` on `foldl_max_*`), so the three small
facts needed about the heat-bath draws are re-proved here under `Qmc.Refine`.
-/
import QmcModel.HeatBath
import QmcProofs.Diagonal
import QmcProofs.Worldline
import Mathlib.Tactic.Linarith
import Mathlib.Tactic.Positivity
import Mathlib.Algebra.Order.Field.Rat

namespace Qmc.Refine
open Qmc Qmc.RS

/-! ### what a slot function has to do -/

/-- A slot function refines the diagonal-sweep relation of `H`: an empty slot stays empty or receives
`insertedOp H st bd` of a bond in range with strictly positive diagonal weight at the rolling state; a
diagonal-tagged operator is kept or removed; an operator with the off-diagonal tag is kept and the
rolling state takes its outputs. Nothing is said about counts, draws or probabilities (any `n`, any
`rs`, in particular a script that is too short or a state in which the model already flagged a panic). -/
structure SlotRefines (H : Ham) (f : Option Op → List Bool → Nat → RS → SlotRes) : Prop where
  empty : ∀ st n rs, (f none st n rs).state = st ∧
    ((f none st n rs).slot = none ∨
      ∃ bd, bd < H.nbonds ∧ 0 < H.w bd (readVars st (H.vars bd)) (readVars st (H.vars bd)) ∧
        (f none st n rs).slot = some (insertedOp H st bd))
  diag : ∀ op st n rs, op.tagDiag = true → (f (some op) st n rs).state = st ∧
    ((f (some op) st n rs).slot = some op ∨ (f (some op) st n rs).slot = none)
  offdiag : ∀ op st n rs, op.tagDiag = false →
    (f (some op) st n rs).state = writeVars st op.vars op.outs ∧ (f (some op) st n rs).slot = some op

/-- slot by slot: the fold of a refining slot function is a `DiagSlots` derivation, from every rolling
state, count and RNG state -/
theorem sweepAux_diagSlots (H : Ham) (f : Option Op → List Bool → Nat → RS → SlotRes)
    (hf : SlotRefines H f) : ∀ (sl : Slots) (st : List Bool) (n : Nat) (rs : RS),
    DiagSlots H st sl (sweepAux f sl st n rs).1 (sweepAux f sl st n rs).2.1
  | [], st, _, _ => DiagSlots.nil st
  | none :: t, st, n, rs => by
    rw [sweepAux_cons]
    simp only
    obtain ⟨hst, hsl⟩ := hf.empty st n rs
    generalize f none st n rs = r at hst hsl ⊢
    obtain ⟨slot, state, n', rs'⟩ := r
    simp only at hst hsl ⊢
    subst hst
    have ih := sweepAux_diagSlots H f hf t state n' rs'
    rcases hsl with h | ⟨bd, hb, hw, h⟩
    · rw [h]; exact DiagSlots.skip ih
    · rw [h]; exact DiagSlots.insert bd hb hw ih
  | some op :: t, st, n, rs => by
    rw [sweepAux_cons]
    simp only
    cases htag : op.tagDiag with
    | true =>
      obtain ⟨hst, hsl⟩ := hf.diag op st n rs htag
      generalize f (some op) st n rs = r at hst hsl ⊢
      obtain ⟨slot, state, n', rs'⟩ := r
      simp only at hst hsl ⊢
      subst hst
      have ih := sweepAux_diagSlots H f hf t state n' rs'
      rcases hsl with h | h
      · rw [h]; exact DiagSlots.keep op htag ih
      · rw [h]; exact DiagSlots.remove op htag ih
    | false =>
      obtain ⟨hst, hsl⟩ := hf.offdiag op st n rs htag
      generalize f (some op) st n rs = r at hst hsl ⊢
      obtain ⟨slot, state, n', rs'⟩ := r
      simp only at hst hsl ⊢
      subst hst
      have ih := sweepAux_diagSlots H f hf t (writeVars st op.vars op.outs) n' rs'
      rw [hsl]; exact DiagSlots.offdiag op htag ih

theorem padSlots_eq_padTo (L : Nat) (s : Slots) : padSlots L s = padTo s L := rfl

theorem padTo_length_ge (s : Slots) (L : Nat) : L ≤ (padTo s L).length := by
  simp [padTo]; omega

/-- the configuration a sweep returns, spelled out -/
theorem sweep_config (f : Option Op → List Bool → Nat → RS → SlotRes) (L : Nat) (c : Config) (rs : RS) :
    (sweep f L c rs).1 =
      { state := (sweepAux f ((padTo c.slots L).take L) c.state (countOps (padTo c.slots L)) rs).2.1,
        slots := (sweepAux f ((padTo c.slots L).take L) c.state (countOps (padTo c.slots L)) rs).1
                  ++ (padTo c.slots L).drop L } := rfl

/-- **The sweep driver (`mutate_ps(0, cutoff, …)`) with a refining slot function is a
`DiagSweepStep`** of a sampler whose cutoff is `L` — for every `L` (also one below the container
length), configuration and RNG state. -/
theorem sweep_is_diagSweepStep (H : Ham) (f : Option Op → List Bool → Nat → RS → SlotRes)
    (hf : SlotRefines H f) (L : Nat) (c : Config) (rs : RS) :
    DiagSweepStep H L c (sweep f L c rs).1 := by
  rw [sweep_config]
  have hlen : (sweepAux f ((padTo c.slots L).take L) c.state (countOps (padTo c.slots L)) rs).1.length = L := by
    rw [sweepAux_length, List.length_take]
    have := padTo_length_ge c.slots L
    omega
  refine ⟨?_, ?_⟩
  · simp only
    rw [List.take_left' hlen]
    exact sweepAux_diagSlots H f hf _ _ _ _
  · simp only
    rw [List.drop_left' hlen]

/-! ### draws -/

theorem next_lt (s : RS) : s.next.1 < two64 := by
  unfold RS.next
  split
  · simp [two64]
  · exact Nat.mod_lt _ (by simp [two64])

theorem genRangeLoop_lt (range zone : Nat) (h : 0 < range) : ∀ (fuel : Nat) (s : RS),
    (genRangeLoop range zone fuel s).1 < range
  | 0, _ => h
  | fuel + 1, s => by
    unfold genRangeLoop
    simp only
    split
    · exact h
    · split
      · have hv := next_lt s
        rw [Nat.div_lt_iff_lt_mul (by simp [two64]), Nat.mul_comm range]
        exact Nat.mul_lt_mul_of_lt_of_le hv (Nat.le_refl _) h
      · exact genRangeLoop_lt range zone h fuel _

/-- `gen_range(0..n)` answers below `n` — for every script, also an exhausted one (the model then
answers 0 and raises `short`) -/
theorem genRange_lt (s : RS) (n : Nat) (h : 0 < n) : (s.genRange n).1 < n := by
  unfold genRange
  rw [if_neg (by omega)]
  exact genRangeLoop_lt n _ h _ _

theorem genRangeF_nonneg (rs : RS) (t : Rat) : 0 ≤ (rs.genRangeF t).1 := by
  unfold genRangeF
  by_cases h : t ≤ 0
  · rw [if_pos h]
  · rw [if_neg h]
    simp only
    have ht : 0 ≤ t := le_of_lt (not_le.mp h)
    positivity

theorem getD_nonneg (bw : BW) (hbw : ∀ w ∈ bw, 0 ≤ w) (i : Nat) : 0 ≤ bw.getD i 0 := by
  rw [List.getD_eq_getElem?_getD]
  cases hget : bw[i]? with
  | none => simp
  | some x => simp only [Option.getD_some]; exact hbw x (List.mem_of_getElem? hget)

/-! ### Metropolis -/

/-- The hypothesis on signs under which the Metropolis insertion test `β·Nb·w > L−n ||
gen_bool(β·Nb·w/(L−n))` can only pass for a strictly positive `w`: `β ≥ 0` (any weights), or
non-negative diagonal weights on the bonds in range (any `β`). Both hold for every sampler of the
library (`β` is a temperature; the Ising / interaction matrices are shifted to be non-negative). -/
def MetroSigns (H : Ham) (β : Rat) : Prop :=
  0 ≤ β ∨ ∀ b, b < H.nbonds → ∀ s, 0 ≤ H.w b s s

theorem metro_insert_pos (H : Ham) (β : Rat) (hs : MetroSigns H β) (b : Nat) (sub : List Bool)
    (hpos : 0 < β * (H.nbonds : Rat) * H.w b sub sub) (hb : b < H.nbonds) : 0 < H.w b sub sub := by
  have hNb : (0 : Rat) ≤ (H.nbonds : Rat) := Nat.cast_nonneg _
  rcases hs with hβ | hw
  · by_contra hc
    rw [not_lt] at hc
    have := mul_nonpos_of_nonneg_of_nonpos (mul_nonneg hβ hNb) hc
    linarith
  · have h0 := hw b hb sub
    rcases eq_or_lt_of_le h0 with he | hlt
    · rw [← he] at hpos; simp at hpos
    · exact hlt

/-- `metropolis_single_diagonal_update` refines the relation. -/
theorem metropolisSlot_refines (H : Ham) (β : Rat) (L : Nat) (hs : MetroSigns H β) :
    SlotRefines H (metropolisSlot H β L) where
  empty := by
    intro st n rs
    unfold metropolisSlot
    simp only
    split
    · exact ⟨rfl, Or.inl rfl⟩
    · split
      · rename_i hc
        refine ⟨rfl, Or.inr ⟨(rs.genRange H.nbonds).1, ?_, ?_, rfl⟩⟩
        · have hpos := genClipped_true_pos _ _ _ (Nat.cast_nonneg _) hc
          have hNb : 0 < H.nbonds := by
            rcases Nat.eq_zero_or_pos H.nbonds with h0 | h0
            · rw [h0] at hpos; simp at hpos
            · exact h0
          exact genRange_lt rs H.nbonds hNb
        · have hpos := genClipped_true_pos _ _ _ (Nat.cast_nonneg _) hc
          have hNb : 0 < H.nbonds := by
            rcases Nat.eq_zero_or_pos H.nbonds with h0 | h0
            · rw [h0] at hpos; simp at hpos
            · exact h0
          exact metro_insert_pos H β hs _ _ hpos (genRange_lt rs H.nbonds hNb)
      · exact ⟨rfl, Or.inl rfl⟩
  diag := by
    intro op st n rs htag
    unfold metropolisSlot
    simp only [htag, if_true]
    split
    · exact ⟨rfl, Or.inl rfl⟩
    · split
      · exact ⟨rfl, Or.inr rfl⟩
      · exact ⟨rfl, Or.inl rfl⟩
  offdiag := by
    intro op st n rs htag
    rw [metropolisSlot_offdiag H β L op st n rs htag]
    exact ⟨rfl, rfl⟩

/-! ### heat bath -/

/-- What the heat-bath insertion needs of its table: it indexes bonds of `H` only, with non-negative
entries. `makeBondWeights H` (the table both samplers build) satisfies it, see
`makeBondWeights_tableOK`. -/
def TableOK (H : Ham) (bw : BW) : Prop := bw.length ≤ H.nbonds ∧ ∀ w ∈ bw, 0 ≤ w

/-- `heat_bath_single_diagonal_update` refines the relation. -/
theorem heatBathSlot_refines (H : Ham) (bw : BW) (β : Rat) (L : Nat) (ht : TableOK H bw) :
    SlotRefines H (heatBathSlot H bw β L) where
  empty := by
    intro st n rs
    unfold heatBathSlot
    simp only
    split
    · exact ⟨rfl, Or.inl rfl⟩
    · split
      · exact ⟨rfl, Or.inl rfl⟩
      · split
        · exact ⟨rfl, Or.inl rfl⟩
        · split
          · exact ⟨rfl, Or.inl rfl⟩
          · split
            · exact ⟨rfl, Or.inl rfl⟩
            · rename_i hno
              split
              · rename_i hc
                refine ⟨rfl, Or.inr ⟨_, ?_, ?_, rfl⟩⟩
                · have : ¬ bw.length ≤ _ := fun h => hno (Or.inl h)
                  have := ht.1
                  omega
                · exact lt_of_le_of_lt (mul_nonneg (genRangeF_nonneg _ _) (getD_nonneg bw ht.2 _)) hc
              · exact ⟨rfl, Or.inl rfl⟩
  diag := by
    intro op st n rs htag
    unfold heatBathSlot
    simp only [htag, if_true]
    split
    · exact ⟨rfl, Or.inl rfl⟩
    · split
      · exact ⟨rfl, Or.inl rfl⟩
      · split
        · exact ⟨rfl, Or.inl rfl⟩
        · split
          · exact ⟨rfl, Or.inr rfl⟩
          · exact ⟨rfl, Or.inl rfl⟩
  offdiag := by
    intro op st n rs htag
    unfold heatBathSlot
    simp [htag]

theorem foldl_max_ge_init' (g : List Bool → Rat) : ∀ (l : List (List Bool)) (a : Rat),
    a ≤ l.foldl (fun acc s => if g s > acc then g s else acc) a
  | [], a => le_refl a
  | s :: t, a => by
    simp only [List.foldl_cons]
    by_cases hc : g s > a
    · rw [if_pos hc]
      have := foldl_max_ge_init' g t (g s)
      linarith
    · rw [if_neg hc]
      exact foldl_max_ge_init' g t a

/-- the table of `make_bond_weights` is admissible for every Hamiltonian -/
theorem makeBondWeights_tableOK (H : Ham) : TableOK H (makeBondWeights H) := by
  refine ⟨by simp [makeBondWeights], ?_⟩
  intro w hw
  unfold makeBondWeights at hw
  obtain ⟨b, _, rfl⟩ := List.mem_map.mp hw
  unfold maxDiag
  exact foldl_max_ge_init' (fun s => H.w b s s) _ 0

/-! ### item 1: the exact sweeps are `DiagSweepStep`s -/

/-- **`make_diagonal_update_with_rng_and_state_ref` is a `DiagSweepStep`.** For every Hamiltonian and
`β` with `MetroSigns H β`, every cutoff, configuration and RNG state (any script: when it runs out
the model keeps going with the word 0 and `short` raised; when it flags a modelled panic it leaves the
slot alone and keeps going — the statement covers those runs too). No hypothesis on the shape of `H`
or `c` is needed for the relation itself; `HamWF`, `Consistent`, `Legal` and `length ≤ cutoff` enter
only in the preservation corollaries. -/
theorem metropolisSweep_is_diagSweepStep (H : Ham) (β : Rat) (hs : MetroSigns H β) (cutoff : Nat)
    (c : Config) (rs : RS) : DiagSweepStep H cutoff c (metropolisSweep H β cutoff c rs).1 :=
  sweep_is_diagSweepStep H _ (metropolisSlot_refines H β cutoff hs) cutoff c rs

/-- **`make_heatbath_diagonal_update_with_rng_and_state_ref` is a `DiagSweepStep`**, for every table
with `TableOK H bw` (length ≤ number of bonds, entries ≥ 0), every `β` (any sign), cutoff,
configuration and RNG state. -/
theorem heatBathSweep_is_diagSweepStep (H : Ham) (bw : BW) (ht : TableOK H bw) (β : Rat) (cutoff : Nat)
    (c : Config) (rs : RS) : DiagSweepStep H cutoff c (heatBathSweep H bw β cutoff c rs).1 :=
  sweep_is_diagSweepStep H _ (heatBathSlot_refines H bw β cutoff ht) cutoff c rs

/-- … hence one public call in the sense of C06/C07, when the sweep covers the whole string (the
hypothesis `diagSweep_pres` needs; since fix F16 every sampler keeps `container length ≤ cutoff`,
which is C12's `CSampler.Inv`). -/
theorem metropolisSweep_is_step (H : Ham) (β : Rat) (hs : MetroSigns H β) (cutoff : Nat) (c : Config)
    (rs : RS) (hL : c.slots.length ≤ cutoff) : Step H c (metropolisSweep H β cutoff c rs).1 :=
  Step.diag cutoff hL (metropolisSweep_is_diagSweepStep H β hs cutoff c rs)

theorem heatBathSweep_is_step (H : Ham) (bw : BW) (ht : TableOK H bw) (β : Rat) (cutoff : Nat)
    (c : Config) (rs : RS) (hL : c.slots.length ≤ cutoff) :
    Step H c (heatBathSweep H bw β cutoff c rs).1 :=
  Step.diag cutoff hL (heatBathSweep_is_diagSweepStep H bw ht β cutoff c rs)

/-- **Corollary (C06 + C07 for the exact Metropolis sweep, all scripts)**: it keeps `Consistent` and
`Legal` and hands back the state it started from. No per-run check is needed for this update. -/
theorem metropolisSweep_pres (H : Ham) (n : Nat) (hH : HamWF H n) (β : Rat) (hs : MetroSigns H β)
    (cutoff : Nat) (c : Config) (rs : RS) (hn : c.state.length = n) (hL : c.slots.length ≤ cutoff)
    (hc : Consistent c) (hl : Legal H c) :
    Consistent (metropolisSweep H β cutoff c rs).1 ∧ Legal H (metropolisSweep H β cutoff c rs).1 ∧
      (metropolisSweep H β cutoff c rs).1.state = c.state :=
  diagSweep_pres_aux H n cutoff hH c _ hn hL hc hl (metropolisSweep_is_diagSweepStep H β hs cutoff c rs)

/-- **Corollary (C06 + C07 for the exact heat-bath sweep, all scripts).** -/
theorem heatBathSweep_pres (H : Ham) (n : Nat) (hH : HamWF H n) (bw : BW) (ht : TableOK H bw) (β : Rat)
    (cutoff : Nat) (c : Config) (rs : RS) (hn : c.state.length = n) (hL : c.slots.length ≤ cutoff)
    (hc : Consistent c) (hl : Legal H c) :
    Consistent (heatBathSweep H bw β cutoff c rs).1 ∧ Legal H (heatBathSweep H bw β cutoff c rs).1 ∧
      (heatBathSweep H bw β cutoff c rs).1.state = c.state :=
  diagSweep_pres_aux H n cutoff hH c _ hn hL hc hl (heatBathSweep_is_diagSweepStep H bw ht β cutoff c rs)

/-- the container after a sweep is exactly `max length cutoff` long (what C12 calls `growLen`) -/
theorem sweep_length (f : Option Op → List Bool → Nat → RS → SlotRes) (L : Nat) (c : Config) (rs : RS) :
    (sweep f L c rs).1.slots.length = max c.slots.length L := by
  rw [sweep_config]
  simp only [List.length_append, sweepAux_length, List.length_take, List.length_drop]
  have : (padTo c.slots L).length = c.slots.length + (L - c.slots.length) := by simp [padTo]
  omega

end Qmc.Refine
