/-
Helper lemmas for C12, round 9: states reached through a USER-SUPPLIED cutoff (`set_cutoff(c)` with any
`c`, restore through a manager hook).  `Fits` (every operator below the cutoff) instead of `Inv`
(container not longer than the cutoff).  Model: QmcModel/Cutoff.lean.
-/
import QmcProofs.Cutoff

namespace Qmc

theorem countOcc_append (a b : List Bool) : countOcc (a ++ b) = countOcc a + countOcc b := by
  unfold countOcc; exact List.count_append

theorem countOcc_replicate_false (k : Nat) : countOcc (List.replicate k false) = 0 := by
  unfold countOcc; rw [List.count_replicate]; simp

theorem countOcc_drop_le (l : List Bool) (k : Nat) : countOcc (l.drop k) ≤ countOcc l := by
  unfold countOcc; exact (List.drop_sublist k l).count_le true

/-- dropping more slots cannot uncover operators -/
theorem countOcc_drop_mono (l : List Bool) (a b : Nat) (h : a ≤ b) :
    countOcc (l.drop b) ≤ countOcc (l.drop a) := by
  have : l.drop b = (l.drop a).drop (b - a) := by
    rw [List.drop_drop]; congr 1; omega
  rw [this]; exact countOcc_drop_le _ _

theorem countOcc_take_le (l : List Bool) (k : Nat) : countOcc (l.take k) ≤ k := by
  have := countOcc_le_length (l.take k)
  rw [List.length_take] at this; omega

/-- operators = those below `k` + those at or beyond `k` -/
theorem countOcc_split (l : List Bool) (k : Nat) :
    countOcc l = countOcc (l.take k) + countOcc (l.drop k) := by
  rw [← countOcc_append, List.take_append_drop]

theorem countOcc_growOcc_drop (occ : List Bool) (c k : Nat) :
    countOcc ((growOcc occ c).drop k) = countOcc (occ.drop k) := by
  unfold growOcc
  rw [List.drop_append, countOcc_append]
  have : countOcc ((List.replicate (c - occ.length) false).drop (k - occ.length)) = 0 := by
    rw [List.drop_replicate]; exact countOcc_replicate_false _
  rw [this]; rfl

namespace CSampler

theorem fits_iff (s : CSampler) : s.fitsB = true ↔ s.Fits := by
  unfold fitsB Fits; simp

/-- `Inv` (the library's own invariant) implies `Fits` -/
theorem fits_of_inv (s : CSampler) (h : s.Inv) : s.Fits := by
  unfold Fits
  have : s.occ.drop s.cutoff = [] := List.drop_eq_nil_of_le h
  rw [this]; rfl

theorem fits_n_le (s : CSampler) (h : s.Fits) : s.n ≤ s.cutoff := by
  unfold Fits at h
  unfold n
  rw [countOcc_split s.occ s.cutoff, h]
  have := countOcc_take_le s.occ s.cutoff
  omega

/-- a sweep leaves the slots at or beyond the cutoff alone: a string that fits still fits the cutoff
the sweep used -/
theorem diagStepWith_fits_old (rule : Nat → Nat → Nat) (d : Nat → Bool → Bool) (s : CSampler)
    (h : s.Fits) : countOcc ((diagStepWith rule d s).occ.drop s.cutoff) = 0 := by
  show countOcc ((sweepOcc d s.cutoff s.occ).drop s.cutoff) = 0
  rw [sweepOcc_drop, countOcc_growOcc_drop]; exact h

theorem diagStepWith_n_le_of_fits (rule : Nat → Nat → Nat) (d : Nat → Bool → Bool) (s : CSampler)
    (h : s.Fits) : (diagStepWith rule d s).n ≤ s.cutoff := by
  have h0 := diagStepWith_fits_old rule d s h
  unfold n
  rw [countOcc_split _ s.cutoff, h0]
  have := countOcc_take_le (diagStepWith rule d s).occ s.cutoff
  omega

theorem diagStepWith_fits (rule : Nat → Nat → Nat) (hr : ∀ c n, c ≤ rule c n)
    (d : Nat → Bool → Bool) (s : CSampler) (h : s.Fits) : (diagStepWith rule d s).Fits := by
  unfold Fits
  have h0 := diagStepWith_fits_old rule d s h
  have hc : s.cutoff ≤ (diagStepWith rule d s).cutoff := by rw [diagStepWith_cutoff]; exact hr _ _
  have := countOcc_drop_mono (diagStepWith rule d s).occ _ _ hc
  omega

theorem setCutoff_fits (c : Nat) (s : CSampler) (h : countOcc (s.occ.drop c) = 0) :
    (setCutoff c s).Fits := by
  unfold Fits setCutoff
  simp only
  rw [countOcc_growOcc_drop]; exact h

theorem restore_fits (c : Nat) (occ : List Bool) (h : countOcc (occ.drop c) = 0) :
    (restore c occ).Fits := by
  unfold Fits restore
  simp only
  rw [countOcc_growOcc_drop]; exact h

theorem restore_n (c : Nat) (occ : List Bool) : (restore c occ).n = countOcc occ := by
  simp [restore, n, countOcc_growOcc]

theorem restore_len (c : Nat) (occ : List Bool) : (restore c occ).len = growLen occ.length c := by
  simp [restore, len, growOcc_length]

end CSampler

end Qmc
