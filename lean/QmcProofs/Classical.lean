/-
Helper lemmas for C19 (classical Ising sampler): the binding-matrix sums are sums over the edge
list, effect of spin flips on the energy, length preservation of the moves.
-/
import QmcModel.Classical
import Mathlib.Tactic.Ring
import Mathlib.Tactic.Linarith
import Mathlib.Tactic.NormNum
import Mathlib.Algebra.Order.Field.Rat
import Mathlib.Analysis.Complex.Exponential
import QmcProofs.Dist

namespace Qmc.Classical

/-! ### list sums over `Rat` -/

theorem sum_map_add {α : Type} (l : List α) (f g : α → Rat) :
    (l.map fun x => f x + g x).sum = (l.map f).sum + (l.map g).sum := by
  induction l with
  | nil => simp
  | cons a t ih => simp only [List.map_cons, List.sum_cons, ih]; ring

theorem sum_map_sub {α : Type} (l : List α) (f g : α → Rat) :
    (l.map fun x => f x - g x).sum = (l.map f).sum - (l.map g).sum := by
  induction l with
  | nil => simp
  | cons a t ih => simp only [List.map_cons, List.sum_cons, ih]; ring

theorem sum_map_neg {α : Type} (l : List α) (f : α → Rat) :
    (l.map fun x => - f x).sum = - (l.map f).sum := by
  induction l with
  | nil => simp
  | cons a t ih => simp only [List.map_cons, List.sum_cons, ih]; ring

theorem sum_map_congr {α : Type} (l : List α) (f g : α → Rat) (h : ∀ x ∈ l, f x = g x) :
    (l.map f).sum = (l.map g).sum := by
  rw [List.map_congr_left h]

theorem sum_map_zero {α : Type} (l : List α) : (l.map fun _ => (0 : Rat)).sum = 0 := by
  induction l with
  | nil => simp
  | cons a t _ => simp

theorem sum_filter_map {α : Type} (l : List α) (p : α → Bool) (h : α → Rat) :
    ((l.filter p).map h).sum = (l.map fun e => if p e then h e else 0).sum := by
  induction l with
  | nil => simp
  | cons a t ih =>
    by_cases hp : p a = true
    · simp [hp, ih]
    · simp [hp, ih]

theorem foldl_add_eq_sum {α : Type} (l : List α) (f : α → Rat) (z : Rat) :
    l.foldl (fun acc i => acc + f i) z = z + (l.map f).sum := by
  induction l generalizing z with
  | nil => simp
  | cons a t ih => simp only [List.foldl_cons, ih, List.map_cons, List.sum_cons]; ring

theorem sum_range_ite (n a : Nat) (x : Nat → Rat) (ha : a < n) :
    ((List.range n).map fun i => if a = i then x i else 0).sum = x a := by
  induction n with
  | zero => omega
  | succ m ih =>
    rw [List.range_succ, List.map_append, List.sum_append]
    by_cases h : a < m
    · rw [ih h]
      have : a ≠ m := by omega
      simp [this]
    · have : a = m := by omega
      subst this
      have hz : ((List.range a).map fun i => if a = i then x i else 0).sum = 0 := by
        rw [sum_map_congr _ _ (fun _ => (0 : Rat))]
        · exact sum_map_zero _
        · intro i hi
          have : i < a := List.mem_range.mp hi
          have : a ≠ i := by omega
          simp [this]
      rw [hz]; simp

/-! ### binding matrix rows as sums over edges -/

theorem sum_insKey (x : Nat × Rat) (l : List (Nat × Rat)) (h : Nat × Rat → Rat) :
    ((insKey x l).map h).sum = h x + (l.map h).sum := by
  induction l with
  | nil => simp [insKey]
  | cons y ys ih =>
    unfold insKey
    split
    · simp
    · simp only [List.map_cons, List.sum_cons, ih]; ring

theorem sum_sortKey (l : List (Nat × Rat)) (h : Nat × Rat → Rat) :
    ((sortKey l).map h).sum = (l.map h).sum := by
  induction l with
  | nil => simp [sortKey]
  | cons x xs ih => simp [sortKey, sum_insKey, ih]

theorem sum_rowRaw (edges : List Edge) (v : Nat) (h : Nat × Rat → Rat) :
    ((rowRaw edges v).map h).sum =
      (edges.map fun e => (if e.1.1 = v then h (e.1.2, e.2) else 0)
        + (if e.1.2 = v then h (e.1.1, e.2) else 0)).sum := by
  induction edges with
  | nil => simp [rowRaw]
  | cons e es ih =>
    have : rowRaw (e :: es) v =
        ((if e.1.1 = v then [(e.1.2, e.2)] else []) ++ (if e.1.2 = v then [(e.1.1, e.2)] else []))
          ++ rowRaw es v := by
      simp [rowRaw, List.flatMap_cons]
    rw [this, List.map_append, List.sum_append, ih, List.map_cons, List.sum_cons]
    congr 1
    by_cases h1 : e.1.1 = v <;> by_cases h2 : e.1.2 = v <;> simp [h1, h2]

theorem row_bindingMat (edges : List Edge) (n v : Nat) (hv : v < n) :
    row (bindingMat edges n) v = sortKey (rowRaw edges v) := by
  simp [row, bindingMat, List.getD, hv]

theorem row_bindingMat_ge (edges : List Edge) (n v : Nat) (hv : n ≤ v) :
    row (bindingMat edges n) v = [] := by
  have : ¬ v < n := by omega
  simp [row, bindingMat, List.getD, this]

/-- any filtered sum over a row of the binding matrix is a sum over the edge list -/
theorem sum_row (edges : List Edge) (n v : Nat) (hv : v < n) (p : Nat × Rat → Bool)
    (h : Nat × Rat → Rat) :
    (((row (bindingMat edges n) v).filter p).map h).sum =
      (edges.map fun e =>
        (if e.1.1 = v then (if p (e.1.2, e.2) then h (e.1.2, e.2) else 0) else 0)
        + (if e.1.2 = v then (if p (e.1.1, e.2) then h (e.1.1, e.2) else 0) else 0)).sum := by
  rw [row_bindingMat _ _ _ hv, sum_filter_map, sum_sortKey, sum_rowRaw]

/-! ### spins and flips -/

theorem length_flipAt (s : List Bool) (i : Nat) : (flipAt s i).length = s.length := by
  simp [flipAt]

theorem st_flipAt (s : List Bool) (i k : Nat) (hi : i < s.length) :
    st (flipAt s i) k = if k = i then !st s i else st s k := by
  unfold flipAt st
  by_cases hk : k = i
  · subst hk; simp [List.getD, hi]
  · have : i ≠ k := fun h => hk h.symm
    simp [List.getD, this, hk]

theorem st_flipAt_ge (s : List Bool) (i : Nat) (hi : s.length ≤ i) : flipAt s i = s := by
  unfold flipAt
  exact List.set_eq_of_length_le hi

theorem cpl_comm (x y : Bool) : cpl x y = cpl y x := by
  cases x <;> cases y <;> simp [cpl]

theorem cpl_not_left (x y : Bool) : cpl (!x) y = - cpl x y := by
  cases x <;> cases y <;> simp [cpl]

theorem cpl_not_right (x y : Bool) : cpl x (!y) = - cpl x y := by
  cases x <;> cases y <;> simp [cpl]

theorem cpl_not_not (x y : Bool) : cpl (!x) (!y) = cpl x y := by
  cases x <;> cases y <;> simp [cpl]

theorem sgn_not (x : Bool) : sgn (!x) = - sgn x := by
  cases x <;> simp [sgn]

/-! ### well-formedness -/

/-- all edge endpoints are valid spin indices (otherwise `new_with_state_and_rng` panics) -/
def WF (edges : List Edge) (n : Nat) : Prop := ∀ e ∈ edges, e.1.1 < n ∧ e.1.2 < n

/-- no edge joins a spin to itself -/
def NoSelfLoops (edges : List Edge) : Prop := ∀ e ∈ edges, e.1.1 ≠ e.1.2

/-! ### `get_energy` is the direct sum -/

theorem biasE_eq (biases : List Rat) (s : List Bool) (i : Nat) :
    biasE biases s i = - (biases.getD i 0 * sgn (st s i)) := by
  unfold biasE sgn
  cases st s i <;> simp

theorem getEnergy_eq_sum (bm : List (List (Nat × Rat))) (biases : List Rat) (s : List Bool) :
    getEnergy bm biases s =
      ((List.range s.length).map fun i => rowEnergy (row bm i) s i).sum
        + ((List.range s.length).map fun i => biasE biases s i).sum := by
  unfold getEnergy
  have : (fun (acc : Rat) i => acc + rowEnergy (row bm i) s i + biasE biases s i)
      = (fun (acc : Rat) i => acc + (rowEnergy (row bm i) s i + biasE biases s i)) := by
    funext acc i; ring
  rw [this, foldl_add_eq_sum, sum_map_add]; ring

theorem rowEnergy_bindingMat (edges : List Edge) (n : Nat) (s : List Bool) (i : Nat) (hi : i < n) :
    rowEnergy (row (bindingMat edges n) i) s i =
      (edges.map fun e =>
        (if e.1.1 = i then e.2 * cpl (st s i) (st s e.1.2) / 2 else 0)
        + (if e.1.2 = i then e.2 * cpl (st s i) (st s e.1.1) / 2 else 0)).sum := by
  unfold rowEnergy
  rw [row_bindingMat _ _ _ hi, sum_sortKey, sum_rowRaw]

/-- sum over sites of the per-site edge indicator sums = sum over edges -/
theorem sum_sites_edges (edges : List Edge) (n : Nat) (hwf : WF edges n)
    (F : Nat → Edge → Rat) (G : Nat → Edge → Rat) :
    ((List.range n).map fun i =>
      (edges.map fun e => (if e.1.1 = i then F i e else 0) + (if e.1.2 = i then G i e else 0)).sum).sum
    = (edges.map fun e => F e.1.1 e + G e.1.2 e).sum := by
  induction edges with
  | nil => simp
  | cons e es ih =>
    have hwf' : WF es n := fun x hx => hwf x (List.mem_cons_of_mem _ hx)
    have he := hwf e (List.mem_cons_self ..)
    simp only [List.map_cons, List.sum_cons]
    rw [sum_map_add, ih hwf', sum_map_add, sum_range_ite n e.1.1 (fun i => F i e) he.1,
      sum_range_ite n e.1.2 (fun i => G i e) he.2]

theorem energy_eq_aux (edges : List Edge) (biases : List Rat) (s : List Bool) (n : Nat)
    (hn : s.length = n) (hwf : WF edges n) :
    getEnergy (bindingMat edges n) biases s = energyEdges edges biases s := by
  rw [getEnergy_eq_sum, energyEdges, hn]
  have h1 : ((List.range n).map fun i => rowEnergy (row (bindingMat edges n) i) s i).sum
      = (edges.map fun e => e.2 * cpl (st s e.1.1) (st s e.1.2)).sum := by
    rw [sum_map_congr _ _ (fun i => (edges.map fun e =>
        (if e.1.1 = i then e.2 * cpl (st s i) (st s e.1.2) / 2 else 0)
        + (if e.1.2 = i then e.2 * cpl (st s i) (st s e.1.1) / 2 else 0)).sum)]
    · rw [sum_sites_edges edges n hwf (fun i e => e.2 * cpl (st s i) (st s e.1.2) / 2)
        (fun i e => e.2 * cpl (st s i) (st s e.1.1) / 2)]
      apply sum_map_congr
      intro e _
      rw [cpl_comm (st s e.1.2) (st s e.1.1)]; ring
    · intro i hi
      exact rowEnergy_bindingMat edges n s i (List.mem_range.mp hi)
  have h2 : ((List.range n).map fun i => biasE biases s i).sum
      = - ((List.range n).map fun i => biases.getD i 0 * sgn (st s i)).sum := by
    rw [← sum_map_neg]
    apply sum_map_congr
    intro i _
    exact biasE_eq biases s i
  rw [h1, h2]; ring

/-! ### the energy differences used by the moves are true differences -/

theorem deltaE_bindingMat (edges : List Edge) (n : Nat) (s : List Bool) (v : Nat) (hv : v < n)
    (om : Option Nat) :
    deltaE (bindingMat edges n) s v om =
      (edges.map fun e =>
        (if e.1.1 = v then (if some e.1.2 != om then -2 * e.2 * cpl (st s v) (st s e.1.2) else 0) else 0)
        + (if e.1.2 = v then (if some e.1.1 != om then -2 * e.2 * cpl (st s v) (st s e.1.1) else 0) else 0)).sum := by
  unfold deltaE
  rw [sum_row edges n v hv (fun e => some e.1 != om) (fun e => -2 * e.2 * cpl (st s v) (st s e.1))]

/-- energy difference between two states of the same length, edge by edge and site by site -/
theorem energyEdges_sub (edges : List Edge) (biases : List Rat) (s s' : List Bool)
    (hl : s'.length = s.length) :
    energyEdges edges biases s' - energyEdges edges biases s =
      (edges.map fun e => e.2 * cpl (st s' e.1.1) (st s' e.1.2) - e.2 * cpl (st s e.1.1) (st s e.1.2)).sum
      - ((List.range s.length).map fun i =>
          biases.getD i 0 * sgn (st s' i) - biases.getD i 0 * sgn (st s i)).sum := by
  unfold energyEdges
  rw [hl, sum_map_sub, sum_map_sub]; ring

theorem spin_delta_aux (edges : List Edge) (biases : List Rat) (s : List Bool) (n i : Nat)
    (hn : s.length = n) (hns : NoSelfLoops edges) (hi : i < n) :
    energyEdges edges biases (flipAt s i) - energyEdges edges biases s
      = spinDelta (bindingMat edges n) biases s i := by
  have his : i < s.length := by omega
  rw [energyEdges_sub _ _ _ _ (length_flipAt s i), spinDelta, deltaE_bindingMat _ _ _ _ hi, biasDelta, hn]
  have hb : ((List.range n).map fun k =>
      biases.getD k 0 * sgn (st (flipAt s i) k) - biases.getD k 0 * sgn (st s k)).sum
      = -(2 * biases.getD i 0 * sgn (st s i)) := by
    rw [sum_map_congr _ _ (fun k => if i = k then -(2 * biases.getD k 0 * sgn (st s k)) else 0)]
    · rw [sum_range_ite n i _ hi]
    · intro k _
      rw [st_flipAt s i k his]
      by_cases hk : k = i
      · subst hk; simp [sgn_not]; ring
      · have : i ≠ k := fun h => hk h.symm
        simp [hk, this]
  rw [hb]
  have he : (edges.map fun e => e.2 * cpl (st (flipAt s i) e.1.1) (st (flipAt s i) e.1.2)
        - e.2 * cpl (st s e.1.1) (st s e.1.2)).sum
      = (edges.map fun e =>
        (if e.1.1 = i then (if some e.1.2 != none then -2 * e.2 * cpl (st s i) (st s e.1.2) else 0) else 0)
        + (if e.1.2 = i then (if some e.1.1 != none then -2 * e.2 * cpl (st s i) (st s e.1.1) else 0) else 0)).sum := by
    apply sum_map_congr
    intro e he
    have hne := hns e he
    rw [st_flipAt s i _ his, st_flipAt s i _ his]
    by_cases h1 : e.1.1 = i
    · have h2 : e.1.2 ≠ i := fun h => hne (h1.trans h.symm)
      simp [h1, h2, cpl_not_left]; ring
    · by_cases h2 : e.1.2 = i
      · simp [h1, h2, cpl_not_right, cpl_comm (st s i)]; ring
      · simp [h1, h2]
  rw [he]; ring

theorem st_flip2 (s : List Bool) (a b k : Nat) (ha : a < s.length) (hb : b < s.length) (hab : a ≠ b) :
    st (flipAt (flipAt s a) b) k = if k = a ∨ k = b then !st s k else st s k := by
  rw [st_flipAt _ b k (by rw [length_flipAt]; exact hb), st_flipAt s a k ha, st_flipAt s a b ha]
  have hba : b ≠ a := fun h => hab h.symm
  by_cases h1 : k = a
  · simp [h1, hab]
  · by_cases h2 : k = b
    · simp [h2, hba]
    · simp [h1, h2]

theorem cpl_eq_mul (x y : Bool) : cpl x y = sgn x * sgn y := by
  cases x <;> cases y <;> simp [cpl, sgn]

theorem edge_delta_aux (edges : List Edge) (biases : List Rat) (s : List Bool) (n a b : Nat)
    (hn : s.length = n) (hns : NoSelfLoops edges) (ha : a < n) (hb : b < n)
    (hab : a ≠ b) :
    energyEdges edges biases (flipAt (flipAt s a) b) - energyEdges edges biases s
      = edgeDelta (bindingMat edges n) biases s a b := by
  have has : a < s.length := by omega
  have hbs : b < s.length := by omega
  have hba : b ≠ a := fun h => hab h.symm
  rw [energyEdges_sub _ _ _ _ (by rw [length_flipAt, length_flipAt]), edgeDelta,
    deltaE_bindingMat _ _ _ _ ha, deltaE_bindingMat _ _ _ _ hb, biasDelta, biasDelta, hn]
  have hbias : ((List.range n).map fun k =>
      biases.getD k 0 * sgn (st (flipAt (flipAt s a) b) k) - biases.getD k 0 * sgn (st s k)).sum
      = -(2 * biases.getD a 0 * sgn (st s a)) + -(2 * biases.getD b 0 * sgn (st s b)) := by
    rw [sum_map_congr _ _ (fun k => (if a = k then -(2 * biases.getD k 0 * sgn (st s k)) else 0)
        + (if b = k then -(2 * biases.getD k 0 * sgn (st s k)) else 0))]
    · rw [sum_map_add, sum_range_ite n a _ ha, sum_range_ite n b _ hb]
    · intro k _
      rw [st_flip2 s a b k has hbs hab]
      by_cases h1 : k = a
      · simp [h1, sgn_not, hab, hba]; ring
      · by_cases h2 : k = b
        · simp [h2, sgn_not, hab, hba]; ring
        · have h1' : a ≠ k := fun h => h1 h.symm
          have h2' : b ≠ k := fun h => h2 h.symm
          simp [h1, h2, h1', h2']
  rw [hbias]
  have he : (edges.map fun e =>
        e.2 * cpl (st (flipAt (flipAt s a) b) e.1.1) (st (flipAt (flipAt s a) b) e.1.2)
        - e.2 * cpl (st s e.1.1) (st s e.1.2)).sum
      = (edges.map fun e =>
        ((if e.1.1 = a then (if some e.1.2 != some b then -2 * e.2 * cpl (st s a) (st s e.1.2) else 0) else 0)
        + (if e.1.2 = a then (if some e.1.1 != some b then -2 * e.2 * cpl (st s a) (st s e.1.1) else 0) else 0))
        + ((if e.1.1 = b then (if some e.1.2 != some a then -2 * e.2 * cpl (st s b) (st s e.1.2) else 0) else 0)
        + (if e.1.2 = b then (if some e.1.1 != some a then -2 * e.2 * cpl (st s b) (st s e.1.1) else 0) else 0))).sum := by
    apply sum_map_congr
    intro e he
    have hne := hns e he
    rw [st_flip2 s a b _ has hbs hab, st_flip2 s a b _ has hbs hab]
    simp only [cpl_eq_mul]
    by_cases h1a : e.1.1 = a <;> by_cases h1b : e.1.1 = b <;> by_cases h2a : e.1.2 = a <;>
      by_cases h2b : e.1.2 = b <;>
      first
      | (exfalso; omega)
      | (simp [h1a, h1b, h2a, h2b, hab, hba, sgn_not] <;> ring)
  rw [he, sum_map_add]; ring

/-! ### moves never change the number of spins -/

theorem length_foldl_flipAt (vars : List Nat) (s : List Bool) :
    (vars.foldl flipAt s).length = s.length := by
  induction vars generalizing s with
  | nil => rfl
  | cons v t ih => simp [List.foldl_cons, ih, length_flipAt]

theorem length_WM_apply (m : WM) (s : List Bool) : (m.apply s).length = s.length := by
  cases m <;> simp [WM.apply, length_flipAt]

theorem length_wormLoop (bm : List (List (Nat × Rat))) (n : Nat) (startE : Rat) (doubles : Bool)
    (fuel : Nat) (pathRev : List WM) (last : Nat) (s : List Bool) (rs : RS) :
    (wormLoop bm n startE doubles fuel pathRev last s rs).2.1.length = s.length := by
  induction fuel generalizing pathRev last s rs with
  | zero => simp [wormLoop]
  | succ f ih =>
    unfold wormLoop
    simp only []
    split <;> (split <;> [skip; split]) <;> simp [ih, length_WM_apply]

theorem length_doSpinFlip (ch : Rat → Rat) (bm : List (List (Nat × Rat))) (biases : List Rat)
    (x : List Bool × RS) : (doSpinFlip ch bm biases x).1.length = x.1.length := by
  unfold doSpinFlip
  simp only []
  split <;> simp [length_flipAt]

theorem length_doEdgeFlip (ch : Rat → Rat) (edges : List Edge) (bm : List (List (Nat × Rat)))
    (biases : List Rat) (cum : Option (List Rat × Rat)) (x : List Bool × RS) :
    (doEdgeFlip ch edges bm biases cum x).1.length = x.1.length := by
  unfold doEdgeFlip
  simp only []
  split
  · rfl
  · split
    · rfl
    · split <;> simp [length_flipAt]

theorem length_doWormFlip (ch : Rat → Rat) (bm : List (List (Nat × Rat))) (biases : List Rat)
    (doubles : Bool) (x : List Bool × RS) :
    (doWormFlip ch bm biases doubles x).1.length = x.1.length := by
  unfold doWormFlip
  simp only []
  have hl := length_wormLoop bm x.1.length (deltaE bm x.1 (x.2.genRange x.1.length).1 none) doubles
    (x.1.length + 2) [WM.single (x.2.genRange x.1.length).1] (x.2.genRange x.1.length).1
    (flipAt x.1 (x.2.genRange x.1.length).1) (x.2.genRange x.1.length).2
  rw [length_flipAt] at hl
  split <;> [skip; split] <;> simp [length_foldl_flipAt, hl]

theorem length_iter (k : Nat) (f : List Bool × RS → List Bool × RS)
    (hf : ∀ x, (f x).1.length = x.1.length) (x : List Bool × RS) :
    (iter k f x).1.length = x.1.length := by
  induction k generalizing x with
  | zero => rfl
  | succ k ih => simp [iter, ih, hf]

theorem length_doTimeStep (ch : Rat → Rat) (g : Sampler) (ns ne nw : Option Nat) (basic : Bool)
    (x : List Bool × RS) : (doTimeStep ch g ns ne nw basic x).1.length = x.1.length := by
  unfold doTimeStep
  simp only []
  split
  · rw [length_iter _ _ (length_doSpinFlip ch g.bm g.biases)]
  · rw [length_iter _ _ (length_doEdgeFlip ch g.edges g.bm g.biases g.cum)]
  · rw [length_iter _ _ (length_doWormFlip ch g.bm g.biases true)]

/-! ### kernels on the finite state space `Fin n → Bool` -/

open Qmc.Dist

/-- spin configurations of `n` sites -/
abbrev Cfg (n : Nat) := Fin n → Bool

/-- the list the sampler stores -/
def toL {n : Nat} (x : Cfg n) : List Bool := List.ofFn x

/-- flip site `k` (no effect when `k ≥ n`) -/
def flipN {n : Nat} (k : Nat) (x : Cfg n) : Cfg n := fun j => if j.val = k then !x j else x j

theorem length_toL {n : Nat} (x : Cfg n) : (toL x).length = n := by simp [toL]

theorem st_toL {n : Nat} (x : Cfg n) (j : Fin n) : st (toL x) j.val = x j := by
  simp [st, toL, List.getD]

theorem toL_flipN {n : Nat} (k : Nat) (x : Cfg n) : toL (flipN k x) = flipAt (toL x) k := by
  apply List.ext_getElem?
  intro j
  unfold flipAt toL
  rw [List.getElem?_set]
  by_cases hj : j < n
  · by_cases hk : k = j
    · subst hk; simp [hj, flipN, st, List.getD]
    · have : ¬ j = k := fun h => hk h.symm
      simp [hj, flipN, hk, this]
  · by_cases hk : k = j
    · simp [hj, hk]
    · simp [hj, hk]

theorem flipN_flipN {n : Nat} (k : Nat) (x : Cfg n) : flipN k (flipN k x) = x := by
  funext j; simp only [flipN]; split_ifs <;> simp

theorem flipN_comm {n : Nat} (a b : Nat) (x : Cfg n) : flipN a (flipN b x) = flipN b (flipN a x) := by
  funext j; simp only [flipN]; split_ifs <;> simp

theorem flip2_invol {n : Nat} (a b : Nat) (x : Cfg n) :
    flipN b (flipN a (flipN b (flipN a x))) = x := by
  rw [flipN_comm a b, flipN_flipN, flipN_flipN]

/-- probability that `should_flip` accepts: `1` when `ΔE ≤ 0`, else `P(u < exp(−βΔE))` for `u`
uniform on `[0,1)`, i.e. `min 1 (exp(−βΔE))`. -/
noncomputable def acc (β : ℝ) (de : ℚ) : ℝ :=
  if 0 < de then min 1 (Real.exp (-β * (de : ℝ))) else 1

theorem acc_nonneg (β : ℝ) (de : ℚ) : 0 ≤ acc β de := by
  unfold acc; split
  · exact le_min zero_le_one (Real.exp_pos _).le
  · exact zero_le_one

theorem acc_le_one (β : ℝ) (de : ℚ) : acc β de ≤ 1 := by
  unfold acc; split
  · exact min_le_left _ _
  · exact le_refl _

/-- Boltzmann weight (not normalised) of the energy function `E` -/
noncomputable def boltz {α : Type} (E : α → ℚ) (β : ℝ) (x : α) : ℝ := Real.exp (-β * (E x : ℝ))

theorem boltz_pos {α : Type} (E : α → ℚ) (β : ℝ) (x : α) : 0 < boltz E β x := Real.exp_pos _

/-- Metropolis acceptance `if ΔE > 0 then exp(−βΔE) else 1` balances the Boltzmann weights of a
state and its image under an involution, when the `ΔE` it uses is the true energy difference. -/
theorem acc_balance {α : Type} (E : α → ℚ) (β : ℝ) (hβ : 0 ≤ β) (f : α → α)
    (hinv : ∀ a, f (f a) = a) (d : α → ℚ) (hd : ∀ a, d a = E (f a) - E a) (a : α) :
    boltz E β a * acc β (d a) = boltz E β (f a) * acc β (d (f a)) := by
  have hda : d (f a) = - d a := by rw [hd, hd, hinv]; ring
  have hE : (E (f a) : ℝ) = (E a : ℝ) + (d a : ℝ) := by rw [hd]; push_cast; ring
  unfold acc boltz
  rw [hda]
  rcases lt_trichotomy (d a) 0 with h | h | h
  · have h1 : ¬ (0 < d a) := not_lt.mpr h.le
    have h2 : (0 : ℚ) < - d a := by linarith
    have h3 : (d a : ℝ) < 0 := by exact_mod_cast h
    have hle : Real.exp (-β * ((-d a : ℚ) : ℝ)) ≤ 1 := by
      rw [Real.exp_le_one_iff]; push_cast; nlinarith
    rw [if_neg h1, if_pos h2, min_eq_right hle, hE, ← Real.exp_add]
    push_cast; ring_nf
  · have h1 : ¬ (0 < d a) := by rw [h]; exact lt_irrefl _
    have h2 : ¬ ((0 : ℚ) < - d a) := by rw [h]; simp
    rw [if_neg h1, if_neg h2, hE, h]; simp
  · have h1 : ¬ ((0 : ℚ) < - d a) := by linarith
    have h3 : (0 : ℝ) < (d a : ℝ) := by exact_mod_cast h
    have hle : Real.exp (-β * (d a : ℝ)) ≤ 1 := by
      rw [Real.exp_le_one_iff]; nlinarith
    rw [if_pos h, if_neg h1, min_eq_right hle, hE, ← Real.exp_add]
    ring_nf

/-! ### the move kernels -/

/-- the energy the sampler reports (`get_energy`) for a configuration -/
def reportedE (edges : List Edge) (biases : List Rat) {n : Nat} (x : Cfg n) : ℚ :=
  getEnergy (bindingMat edges n) biases (toL x)

/-- one `do_spin_flip`: site uniform in `0..n`, proposal = flip it, acceptance = `should_flip` on
the `ΔE` **computed by the move** (`spinDelta`). -/
noncomputable def spinKernel (edges : List Edge) (biases : List Rat) (β : ℝ) {n : Nat} :
    Cfg n → Cfg n → ℝ :=
  wsum (fun _ : Fin n => (1 : ℝ) / n) (fun i =>
    metropolis (flipN i.val) (fun x => acc β (spinDelta (bindingMat edges n) biases (toL x) i.val)))

/-- one `do_edge_flip`: edge `k` with a state-independent probability `q k` (uniform, or whatever
the cumulative importance table yields), proposal = flip both endpoints, acceptance on the `ΔE`
computed by the move (`edgeDelta`). -/
noncomputable def edgeKernel (edges : List Edge) (biases : List Rat) (β : ℝ) {n : Nat}
    (q : Fin edges.length → ℝ) : Cfg n → Cfg n → ℝ :=
  wsum q (fun k =>
    metropolis (fun x => flipN (edges[k]).1.2 (flipN (edges[k]).1.1 x))
      (fun x => acc β (edgeDelta (bindingMat edges n) biases (toL x) (edges[k]).1.1 (edges[k]).1.2)))

/-- `do_time_step` with `only_basic_moves`: fair choice between `ns` spin updates and `ne` edge updates -/
noncomputable def stepKernel (edges : List Edge) (biases : List Rat) (β : ℝ) {n : Nat}
    (q : Fin edges.length → ℝ) (ns ne : Nat) : Cfg n → Cfg n → ℝ :=
  mix (1 / 2) (Dist.iter (spinKernel edges biases β) ns) (Dist.iter (edgeKernel edges biases β q) ne)

/-- `do_time_step` with all three move kinds, for an arbitrary worm kernel `W` -/
noncomputable def stepKernel3 (edges : List Edge) (biases : List Rat) (β : ℝ) {n : Nat}
    (q : Fin edges.length → ℝ) (W : Cfg n → Cfg n → ℝ) (ns ne nw : Nat) : Cfg n → Cfg n → ℝ :=
  mix (1 / 3) (Dist.iter (spinKernel edges biases β) ns)
    (mix (1 / 2) (Dist.iter (edgeKernel edges biases β q) ne) (Dist.iter W nw))

theorem reportedE_flipN (edges : List Edge) (biases : List Rat) {n : Nat} (hwf : WF edges n)
    (hns : NoSelfLoops edges) (i : Nat) (hi : i < n) (x : Cfg n) :
    spinDelta (bindingMat edges n) biases (toL x) i
      = reportedE edges biases (flipN i x) - reportedE edges biases x := by
  unfold reportedE
  rw [energy_eq_aux edges biases _ n (length_toL _) hwf, energy_eq_aux edges biases _ n (length_toL _) hwf,
    toL_flipN, spin_delta_aux edges biases (toL x) n i (length_toL x) hns hi]

theorem reportedE_flip2 (edges : List Edge) (biases : List Rat) {n : Nat} (hwf : WF edges n)
    (hns : NoSelfLoops edges) (a b : Nat) (ha : a < n) (hb : b < n) (hab : a ≠ b) (x : Cfg n) :
    edgeDelta (bindingMat edges n) biases (toL x) a b
      = reportedE edges biases (flipN b (flipN a x)) - reportedE edges biases x := by
  unfold reportedE
  rw [energy_eq_aux edges biases _ n (length_toL _) hwf, energy_eq_aux edges biases _ n (length_toL _) hwf,
    toL_flipN, toL_flipN, edge_delta_aux edges biases (toL x) n a b (length_toL x) hns ha hb hab]

theorem sum_uniform (n : Nat) (hn : 0 < n) : ∑ _i : Fin n, (1 : ℝ) / n = 1 := by
  have : (n : ℝ) ≠ 0 := by exact_mod_cast hn.ne'
  simp [Finset.sum_const, Finset.card_univ, this]

theorem spinKernel_reversible (edges : List Edge) (biases : List Rat) (β : ℝ) (hβ : 0 ≤ β) {n : Nat}
    (hwf : WF edges n) (hns : NoSelfLoops edges) :
    Reversible (boltz (reportedE edges biases (n := n)) β) (spinKernel edges biases β) := by
  apply reversible_wsum
  intro i
  apply involution_metropolis_reversible (fun a => flipN_flipN i.val a)
  intro a
  exact acc_balance (reportedE edges biases) β hβ (flipN i.val) (fun a => flipN_flipN i.val a)
    (fun x => spinDelta (bindingMat edges n) biases (toL x) i.val)
    (fun x => reportedE_flipN edges biases hwf hns i.val i.isLt x) a

theorem spinKernel_stochastic (edges : List Edge) (biases : List Rat) (β : ℝ) {n : Nat} (hn : 0 < n) :
    Stochastic (spinKernel edges biases β (n := n)) := by
  apply stochastic_wsum
  · intro i; exact stochastic_metropolis (fun a => acc_nonneg _ _) (fun a => acc_le_one _ _)
  · intro i; positivity
  · exact sum_uniform n hn

theorem edgeKernel_reversible (edges : List Edge) (biases : List Rat) (β : ℝ) (hβ : 0 ≤ β) {n : Nat}
    (hwf : WF edges n) (hns : NoSelfLoops edges) (q : Fin edges.length → ℝ) :
    Reversible (boltz (reportedE edges biases (n := n)) β) (edgeKernel edges biases β q) := by
  apply reversible_wsum
  intro k
  have hmem : edges[k] ∈ edges := List.getElem_mem _
  have hk := hwf _ hmem
  have hne := hns _ hmem
  apply involution_metropolis_reversible (fun a => flip2_invol _ _ a)
  intro a
  exact acc_balance (reportedE edges biases) β hβ
    (fun x => flipN (edges[k]).1.2 (flipN (edges[k]).1.1 x)) (fun a => flip2_invol _ _ a)
    (fun x => edgeDelta (bindingMat edges n) biases (toL x) (edges[k]).1.1 (edges[k]).1.2)
    (fun x => reportedE_flip2 edges biases hwf hns _ _ hk.1 hk.2 hne x) a

theorem edgeKernel_stochastic (edges : List Edge) (biases : List Rat) (β : ℝ) {n : Nat}
    (q : Fin edges.length → ℝ) (hq0 : ∀ k, 0 ≤ q k) (hq1 : ∑ k, q k = 1) :
    Stochastic (edgeKernel edges biases β q (n := n)) := by
  apply stochastic_wsum
  · intro i; exact stochastic_metropolis (fun a => acc_nonneg _ _) (fun a => acc_le_one _ _)
  · exact hq0
  · exact hq1

/-! ### acceptance decision, edge selection, importance table -/

theorem shouldFlip_accepts_iff (ch : Rat → Rat) (rs : RS) (de : Rat) :
    (shouldFlip ch rs de).1 = true ↔ de ≤ 0 ∨ rs.genF64.1 < ch de := by
  unfold shouldFlip
  by_cases h : de > 0
  · have : ¬ de ≤ 0 := not_le.mpr h
    simp [h, this]
  · have : de ≤ 0 := not_lt.mp h
    simp [h, this]

theorem accProb_nonneg (ch : Rat → Rat) (de : Rat) : 0 ≤ accProb ch de := by
  unfold accProb
  split_ifs <;> linarith

theorem accProb_le_one (ch : Rat → Rat) (de : Rat) : accProb ch de ≤ 1 := by
  unfold accProb
  split_ifs <;> linarith

theorem accProb_of_nonpos (ch : Rat → Rat) (de : Rat) (h : de ≤ 0) : accProb ch de = 1 := by
  unfold accProb
  have : ¬ de > 0 := not_lt.mpr h
  simp [this]

theorem absR_nonneg (x : Rat) : 0 ≤ absR x := by
  unfold absR; split <;> linarith

theorem cumTable_fold_total (edges : List Edge) (acc : List Rat × Rat) :
    (edges.foldl (fun (acc : List Rat × Rat) e => (acc.1 ++ [acc.2 + absR e.2], acc.2 + absR e.2)) acc).2
      = acc.2 + (edges.map fun e => absR e.2).sum := by
  induction edges generalizing acc with
  | nil => simp
  | cons e es ih => simp only [List.foldl_cons, ih, List.map_cons, List.sum_cons]; ring

theorem cumTable_total (edges : List Edge) : (cumTable edges).2 = (edges.map fun e => absR e.2).sum := by
  unfold cumTable; rw [cumTable_fold_total]; simp

/-- recursive characterisation: the table of `es ++ [e]` is the table of `es` extended by the new total -/
theorem cumTable_snoc (es : List Edge) (e : Edge) :
    cumTable (es ++ [e]) =
      ((cumTable es).1 ++ [(cumTable es).2 + absR e.2], (cumTable es).2 + absR e.2) := by
  unfold cumTable; rw [List.foldl_append]; rfl

/-- the table is non-decreasing, bounded by the total, as long as the edge list -/
theorem cumTable_sorted (edges : List Edge) :
    (cumTable edges).1.Pairwise (· ≤ ·) ∧ (∀ x ∈ (cumTable edges).1, x ≤ (cumTable edges).2)
      ∧ (cumTable edges).1.length = edges.length := by
  induction edges using List.reverseRecOn with
  | nil => simp [cumTable]
  | append_singleton es e ih =>
    rw [cumTable_snoc]
    obtain ⟨h1, h2, h3⟩ := ih
    have hab := absR_nonneg e.2
    refine ⟨?_, ?_, ?_⟩
    · rw [List.pairwise_append]
      refine ⟨h1, by simp, ?_⟩
      intro a ha b hb
      simp at hb; subst hb
      have := h2 a ha; linarith
    · intro x hx
      simp at hx
      rcases hx with hx | hx
      · have := h2 x hx; linarith
      · rw [hx]
    · simp [h3]

/-- in a non-decreasing list, `#{x < p}` splits the list into the entries `< p` and those `≥ p` -/
theorem count_lt_sorted (l : List Rat) (hs : l.Pairwise (· ≤ ·)) (p : Rat) :
    (∀ x ∈ l.take (l.filter (· < p)).length, x < p)
      ∧ (∀ x ∈ l.drop (l.filter (· < p)).length, p ≤ x) := by
  induction l with
  | nil => simp
  | cons a t ih =>
    have hs' := (List.pairwise_cons.mp hs).2
    have ha := (List.pairwise_cons.mp hs).1
    by_cases hap : a < p
    · have hf : (a :: t).filter (· < p) = a :: t.filter (· < p) := by simp [hap]
      rw [hf]
      simp only [List.length_cons, List.take_succ_cons, List.drop_succ_cons]
      refine ⟨?_, (ih hs').2⟩
      intro x hx
      rcases List.mem_cons.mp hx with h | h
      · rw [h]; exact hap
      · exact (ih hs').1 x h
    · have hall : ∀ x ∈ t, ¬ x < p := by
        intro x hx hxp
        have := ha x hx
        exact hap (lt_of_le_of_lt this hxp)
      have hf : (a :: t).filter (· < p) = [] := by
        rw [List.filter_eq_nil_iff]
        intro x hx
        rcases List.mem_cons.mp hx with h | h
        · rw [h]; simpa using hap
        · simpa using hall x h
      rw [hf]
      refine ⟨by simp, ?_⟩
      intro x hx
      simp at hx
      rcases hx with h | h
      · rw [h]; exact not_lt.mp hap
      · exact not_lt.mp (hall x h)

theorem noteMargin_panicked (rs : RS) (m : Rat) : (rs.noteMargin m).panicked = rs.panicked := by
  unfold RS.noteMargin; simp only []; split <;> split <;> rfl

theorem foldl_noteMargin_panicked (l : List Rat) (p t : Rat) (rs : RS) :
    (l.foldl (fun r v => r.noteMargin ((v - p) / t)) rs).panicked = rs.panicked := by
  induction l generalizing rs with
  | nil => rfl
  | cons a t ih => simp only [List.foldl_cons, ih, noteMargin_panicked]

theorem next_panicked (rs : RS) : rs.next.2.panicked = rs.panicked := by
  unfold RS.next; split <;> rfl

theorem genRangeLoop_panicked (range zone fuel : Nat) (rs : RS) :
    (RS.genRangeLoop range zone fuel rs).2.panicked = rs.panicked := by
  induction fuel generalizing rs with
  | zero => simp [RS.genRangeLoop]
  | succ f ih =>
    unfold RS.genRangeLoop
    simp only []
    split
    · exact next_panicked rs
    · split
      · exact next_panicked rs
      · rw [ih, next_panicked]

theorem genRange_panicked (rs : RS) (n : Nat) (hn : n ≠ 0) :
    (rs.genRange n).2.panicked = rs.panicked := by
  unfold RS.genRange
  simp only [hn, if_false]
  exact genRangeLoop_panicked _ _ _ _

/-- the edge selection never panics on a graph with at least one edge, with or without
importance sampling (the table is only installed when its total is positive) -/
theorem pickEdge_no_panic (edges : List Edge) (enable : Bool) (rs : RS) (h : rs.panicked = false)
    (hne : edges ≠ []) :
    (pickEdge edges.length (importanceTable edges enable) rs).2.panicked = false := by
  have hlen : edges.length ≠ 0 := by simpa using hne
  unfold importanceTable
  by_cases he : enable = true
  · by_cases ht : (cumTable edges).2 > 0
    · simp only [he, ht, if_true]
      unfold pickEdge
      simp only [foldl_noteMargin_panicked]
      unfold RS.genRangeF
      have : ¬ (cumTable edges).2 ≤ 0 := not_le.mpr ht
      simp only [this, if_false, next_panicked, h]
    · simp only [he, ht, if_true, if_false]
      unfold pickEdge
      simp only []
      rw [genRange_panicked rs _ hlen, h]
  · have he' : enable = false := by cases enable <;> simp_all
    subst he'
    simp only [Bool.false_eq_true, if_false]
    unfold pickEdge
    simp only []
    rw [genRange_panicked rs _ hlen, h]

/-! ### worm kernel: independence of the acceptance function when no proposal costs bias energy -/

theorem wormRow_congr (ch ch' : Rat → Rat) (bm : List (List (Nat × Rat))) (biases : List Rat)
    (doubles : Bool) (s : List Bool)
    (h : ∀ p ∈ wormProposals bm biases doubles s, ∀ e, p.2.2.2 = some e → e ≤ 0) :
    wormRow ch bm biases doubles s = wormRow ch' bm biases doubles s := by
  unfold wormRow
  apply List.flatMap_congr
  intro p hp
  obtain ⟨w, s2, back, he⟩ := p
  cases he with
  | none => rfl
  | some e =>
    have := h _ hp e rfl
    simp [accProb_of_nonpos _ _ this]

/-- bias part of the reported energy: `energyEdges [] biases s = − Σ b_i σ_i` -/
theorem biasDelta_eq_flip (biases : List Rat) (s : List Bool) (v : Nat) (hv : v < s.length) :
    biasDelta biases s v = energyEdges [] biases (flipAt s v) - energyEdges [] biases s := by
  rw [spin_delta_aux [] biases s s.length v rfl (fun e he => by simp at he) hv, spinDelta,
    deltaE_bindingMat [] s.length s v hv none]
  simp

/-- The worm's `total_he` (`Σ_v 2 b_v σ_v` over the flipped sites, on the state **after** the
flips) is the bias energy of the *old* state minus that of the *new* state — the opposite of the
`new − old` convention of `do_spin_flip`, `do_edge_flip` and `get_energy`. -/
theorem wormHe_eq_old_minus_new (biases : List Rat) (vars : List Nat) (s2 : List Bool)
    (hnd : vars.Nodup) (hlt : ∀ v ∈ vars, v < s2.length) :
    wormHe biases s2 vars
      = energyEdges [] biases (vars.foldl flipAt s2) - energyEdges [] biases s2 := by
  induction vars generalizing s2 with
  | nil => simp [wormHe]
  | cons v t ih =>
    have hv : v < s2.length := hlt v (List.mem_cons_self ..)
    have hnd' : t.Nodup := (List.nodup_cons.mp hnd).2
    have hvt : v ∉ t := (List.nodup_cons.mp hnd).1
    have hlt' : ∀ u ∈ t, u < (flipAt s2 v).length := by
      intro u hu; rw [length_flipAt]; exact hlt u (List.mem_cons_of_mem _ hu)
    have h1 := ih (flipAt s2 v) hnd' hlt'
    have h2 : wormHe biases (flipAt s2 v) t = wormHe biases s2 t := by
      unfold wormHe
      apply sum_map_congr
      intro u hu
      have : u ≠ v := fun h => hvt (h ▸ hu)
      unfold biasDelta
      rw [st_flipAt s2 v u hv]; simp [this]
    have h3 : wormHe biases s2 (v :: t) = biasDelta biases s2 v + wormHe biases s2 t := by
      simp [wormHe]
    rw [h3, ← h2, h1, biasDelta_eq_flip biases s2 v hv, List.foldl_cons]; ring

/-- Boltzmann inflow into a state when the kernel only connects states of equal energy -/
theorem inflow_energy_conserving {σ : Type} (states : List σ) (E : σ → ℚ) (K : σ → ℚ) (Eb : ℚ)
    (β : ℝ) (h : ∀ a ∈ states, K a ≠ 0 → E a = Eb) :
    (states.map fun a => Real.exp (-β * (E a : ℝ)) * (K a : ℝ)).sum
      = Real.exp (-β * (Eb : ℝ)) * (((states.map K).sum : ℚ) : ℝ) := by
  induction states with
  | nil => simp
  | cons a t ih =>
    have ht : ∀ a ∈ t, K a ≠ 0 → E a = Eb := fun x hx => h x (List.mem_cons_of_mem _ hx)
    simp only [List.map_cons, List.sum_cons, ih ht]
    push_cast
    by_cases hk : K a = 0
    · simp [hk]
    · rw [h a (List.mem_cons_self ..) hk]; ring

end Qmc.Classical
