import QmcModel.ProbTree
import QmcProofs.KernelInvarianceLib
import Mathlib.Tactic.Ring
import Mathlib.Tactic.Linarith

/-!
# The law of a probability tree (general part of the `Law*` files)

`PT.law t : α → ℚ` — the idealised law of the tree `t` (`QmcModel/ProbTree.lean`): the sum over the leaves
of the products of the idealised outcome weights of the draws on the way (`Draw.w`).  A draw that would
make the real code panic carries no mass, so `law t` is in general a *sub*-probability: the missing
mass is the idealised probability of a panic.

* `run_bind`, `run_map`, `run_flip`, `run_pick`, `run_panic`, `run_clipped` — how `PT.run` executes the
  combinators: exactly the `RS` primitives of `QmcModel/Rand.lean`;
* `law_bind_on` — **law of a bind = composition**: `law (t >>= f) c = Σ_{b ∈ S} law t b · law (f b) c` for every
  finite set `S` containing the leaves of `t` (`All (· ∈ S) t`);
* `lawK S T` — the law of a tree-valued function `T : α → PT α` read as a kernel on the finite set `S`,
  `lawK_bind : lawK S (fun a => T₁ a >>= T₂) = Dist.comp (lawK S T₁) (lawK S T₂)`, so laws of sequential
  programs plug into `Kernel.compList`.
-/

open Finset

namespace Qmc.Law
open Qmc Qmc.Dist Qmc.Kernel

namespace PT
variable {α β γ : Type}

/-! ### monad laws and how `run` executes the combinators -/

@[simp] theorem ret_bind (a : α) (f : α → PT β) : bind (ret a) f = f a := rfl

@[simp] theorem node_bind (d : Draw) (k : Nat → PT α) (f : α → PT β) :
    bind (node d k) f = node d (fun i => bind (k i) f) := rfl

@[simp] theorem bind_ret : ∀ (t : PT α), bind t ret = t
  | ret _ => rfl
  | node d k => by
    simp only [node_bind]
    congr 1
    funext i
    exact bind_ret (k i)

theorem bind_assoc : ∀ (t : PT α) (f : α → PT β) (g : β → PT γ),
    bind (bind t f) g = bind t (fun a => bind (f a) g)
  | ret _, _, _ => rfl
  | node d k, f, g => by
    simp only [node_bind]
    congr 1
    funext i
    exact bind_assoc (k i) f g

@[simp] theorem map_ret (φ : α → β) (a : α) : map φ (ret a) = ret (φ a) := rfl

@[simp] theorem map_node (φ : α → β) (d : Draw) (k : Nat → PT α) :
    map φ (node d k) = node d (fun i => map φ (k i)) := rfl

theorem map_map (φ : α → β) (ψ : β → γ) (t : PT α) : map ψ (map φ t) = map (fun a => ψ (φ a)) t := by
  unfold map
  rw [bind_assoc]
  rfl

theorem map_bind (φ : β → γ) (t : PT α) (f : α → PT β) :
    map φ (bind t f) = bind t (fun a => map φ (f a)) := by
  unfold map
  rw [bind_assoc]

theorem bind_map (φ : α → β) (t : PT α) (f : β → PT γ) :
    bind (map φ t) f = bind t (fun a => f (φ a)) := by
  unfold map
  rw [bind_assoc]
  rfl

@[simp] theorem map_id' (t : PT α) : map (fun a => a) t = t := bind_ret t

@[simp] theorem map_flip (φ : α → β) (p : Rat) (y n : PT α) :
    map φ (flip p y n) = flip p (map φ y) (map φ n) := by
  unfold flip
  rw [map_node]
  congr 1
  funext i
  split <;> rfl

@[simp] theorem map_pick (φ : α → β) (n : Nat) (k : Nat → PT α) :
    map φ (pick n k) = pick n (fun i => map φ (k i)) := rfl

@[simp] theorem map_panic (φ : α → β) (t : PT α) : map φ (panic t) = panic (map φ t) := rfl

@[simp] theorem map_clipped (φ : α → β) (num den : Rat) (y n : PT α) :
    map φ (clipped num den y n) = clipped num den (map φ y) (map φ n) := by
  unfold clipped
  split
  · rfl
  · split
    · rfl
    · exact map_flip φ _ y n

theorem map_ite (φ : α → β) (c : Prop) [Decidable c] (a b : PT α) :
    map φ (if c then a else b) = if c then map φ a else map φ b := by
  split <;> rfl

@[simp] theorem run_ret (a : α) (rs : RS) : run (ret a) rs = (a, rs) := rfl

@[simp] theorem run_node (d : Draw) (k : Nat → PT α) (rs : RS) :
    run (node d k) rs = run (k (d.run rs).1) (d.run rs).2 := rfl

theorem run_bind : ∀ (t : PT α) (f : α → PT β) (rs : RS),
    run (bind t f) rs = run (f (run t rs).1) (run t rs).2
  | ret _, _, _ => rfl
  | node d k, f, rs => by
    simp only [node_bind, run_node]
    exact run_bind (k _) f _

theorem run_map (φ : α → β) (t : PT α) (rs : RS) : run (map φ t) rs = (φ (run t rs).1, (run t rs).2) := by
  unfold map
  rw [run_bind]
  rfl

/-- `flip p` is `gen_bool(p)` -/
theorem run_flip (p : Rat) (y n : PT α) (rs : RS) :
    run (flip p y n) rs = if (rs.genBool p).1 then run y (rs.genBool p).2 else run n (rs.genBool p).2 := by
  unfold flip
  simp only [run_node, Draw.flip]
  by_cases h : (rs.genBool p).1 = true <;> simp [h]

/-- `pick n` is `gen_range(0..n)` -/
theorem run_pick (n : Nat) (k : Nat → PT α) (rs : RS) :
    run (pick n k) rs = run (k (rs.genRange n).1) (rs.genRange n).2 := rfl

theorem run_panic (t : PT α) (rs : RS) : run (panic t) rs = run t { rs with panicked := true } := rfl

/-- `clipped` is `genClipped` -/
theorem run_clipped (num den : Rat) (y n : PT α) (rs : RS) :
    run (clipped num den y n) rs =
      if (genClipped rs num den).1 then run y (genClipped rs num den).2
      else run n (genClipped rs num den).2 := by
  unfold clipped genClipped
  split
  · simp
  · split
    · simp [run_panic]
    · exact run_flip _ y n rs

/-! ### leaves -/

/-- every leaf that can carry mass satisfies `P`: outcomes `i ≥ d.n` and outcomes of idealised weight 0
are not followed -/
def All (P : α → Prop) : PT α → Prop
  | ret a => P a
  | node d k => ∀ i, i < d.n → d.w i ≠ 0 → All P (k i)

@[simp] theorem All_ret (P : α → Prop) (a : α) : All P (ret a) ↔ P a := Iff.rfl

theorem All_node (P : α → Prop) (d : Draw) (k : Nat → PT α) :
    All P (node d k) ↔ ∀ i, i < d.n → d.w i ≠ 0 → All P (k i) := Iff.rfl

theorem All_mono {P Q : α → Prop} (h : ∀ a, P a → Q a) : ∀ (t : PT α), All P t → All Q t
  | ret a, ht => h a ht
  | node _ k, ht => fun i hi hw => All_mono h (k i) (ht i hi hw)

theorem All_true : ∀ (t : PT α), All (fun _ => True) t
  | ret _ => trivial
  | node _ k => fun i _ _ => All_true (k i)

theorem All_and {P Q : α → Prop} : ∀ (t : PT α), All P t → All Q t → All (fun a => P a ∧ Q a) t
  | ret _, h1, h2 => ⟨h1, h2⟩
  | node _ k, h1, h2 => fun i hi hw => All_and (k i) (h1 i hi hw) (h2 i hi hw)

theorem All_bind {Q : α → Prop} {P : β → Prop} {f : α → PT β} :
    ∀ (t : PT α), All Q t → (∀ a, Q a → All P (f a)) → All P (bind t f)
  | ret a, ht, hf => hf a ht
  | node _ k, ht, hf => fun i hi hw => All_bind (k i) (ht i hi hw) hf

theorem All_map {Q : α → Prop} {P : β → Prop} {φ : α → β} (t : PT α) (ht : All Q t)
    (hφ : ∀ a, Q a → P (φ a)) : All P (map φ t) :=
  All_bind t ht hφ

/-- the `yes` branch of `flip p` matters only if `p ≠ 0`, the `no` branch only if `p ≠ 1` -/
theorem All_flip_w {P : α → Prop} {p : Rat} {y n : PT α} (hy : p ≠ 0 → All P y) (hn : p ≠ 1 → All P n) :
    All P (flip p y n) := by
  intro i _ hw
  show All P (if i = 1 then y else n)
  have hw' : (if 0 ≤ p ∧ p ≤ 1 then (if i = 1 then p else 1 - p) else 0) ≠ 0 := hw
  by_cases hg : 0 ≤ p ∧ p ≤ 1
  · rw [if_pos hg] at hw'
    by_cases hi : i = 1
    · rw [if_pos hi] at hw' ⊢; exact hy hw'
    · rw [if_neg hi] at hw' ⊢
      exact hn (fun e => hw' (by rw [e]; ring))
  · rw [if_neg hg] at hw'; exact absurd rfl hw'

theorem All_flip {P : α → Prop} {p : Rat} {y n : PT α} (hy : All P y) (hn : All P n) :
    All P (flip p y n) := All_flip_w (fun _ => hy) (fun _ => hn)

theorem All_pick {P : α → Prop} {n : Nat} {k : Nat → PT α} (h : ∀ i, i < n → All P (k i)) :
    All P (pick n k) := fun i hi _ => h i hi

theorem All_panic {P : α → Prop} (t : PT α) : All P (panic t) := by
  intro i hi
  exact absurd hi (Nat.not_lt_zero i)

/-- the `yes` branch of `clipped num den` matters only if `clipProb num den ≠ 0` -/
theorem All_clipped_w {P : α → Prop} {num den : Rat} {y n : PT α} (hy : clipProb num den ≠ 0 → All P y)
    (hn : All P n) : All P (clipped num den y n) := by
  unfold clipped
  unfold clipProb at hy
  split
  · rename_i h
    rw [if_pos h] at hy
    exact hy one_ne_zero
  · rename_i h
    rw [if_neg h] at hy
    split
    · exact All_panic n
    · exact All_flip_w hy (fun _ => hn)

theorem All_clipped {P : α → Prop} {num den : Rat} {y n : PT α} (hy : All P y) (hn : All P n) :
    All P (clipped num den y n) := All_clipped_w (fun _ => hy) hn

/-! ### the law -/

/-- **idealised law** of a tree: weight of the leaf `x` -/
def law [DecidableEq α] : PT α → α → ℚ
  | ret a, x => if x = a then 1 else 0
  | node d k, x => ∑ i ∈ Finset.range d.n, d.w i * law (k i) x

variable [DecidableEq α] [DecidableEq β]

@[simp] theorem law_ret (a x : α) : law (ret a) x = if x = a then 1 else 0 := rfl

theorem law_node (d : Draw) (k : Nat → PT α) (x : α) :
    law (node d k) x = ∑ i ∈ Finset.range d.n, d.w i * law (k i) x := rfl

/-- `flip p` with `0 ≤ p ≤ 1`: weight `p` on `yes`, `1 − p` on `no` -/
theorem law_flip {p : Rat} (h0 : 0 ≤ p) (h1 : p ≤ 1) (y n : PT α) (x : α) :
    law (flip p y n) x = p * law y x + (1 - p) * law n x := by
  unfold flip
  rw [law_node]
  simp only [Draw.flip, Finset.sum_range_succ, Finset.sum_range_zero, zero_add, if_pos (And.intro h0 h1)]
  simp only [show ¬ ((0 : Nat) = 1) by decide, if_false, if_true]
  ring

/-- `flip p` with `p ∉ [0,1]` (`gen_bool` panics) carries no mass -/
theorem law_flip_bad {p : Rat} (h : ¬ (0 ≤ p ∧ p ≤ 1)) (y n : PT α) (x : α) : law (flip p y n) x = 0 := by
  unfold flip
  rw [law_node]
  simp only [Draw.flip, if_neg h, zero_mul, Finset.sum_const_zero]

/-- `pick n`: weight `1/n` on each of `0 … n−1` -/
theorem law_pick (n : Nat) (k : Nat → PT α) (x : α) :
    law (pick n k) x = ∑ i ∈ Finset.range n, 1 / (n : Rat) * law (k i) x := rfl

@[simp] theorem law_panic (t : PT α) (x : α) : law (panic t) x = 0 := by
  unfold panic
  rw [law_node]
  simp [Draw.panic]

/-- `clipped num den`: weight `clipProb num den = min 1 (num/den)` on `yes` (no panic when
`0 ≤ num`, `0 ≤ den` and not both are 0) -/
theorem law_clipped {num den : Rat} (h0 : 0 ≤ num) (hd : 0 ≤ den) (hnz : den = 0 → 0 < num)
    (y n : PT α) (x : α) :
    law (clipped num den y n) x = clipProb num den * law y x + (1 - clipProb num den) * law n x := by
  unfold clipped clipProb
  by_cases hgt : num > den
  · rw [if_pos hgt, if_pos hgt]; ring
  · rw [if_neg hgt, if_neg hgt]
    have hle : num ≤ den := not_lt.mp hgt
    have hdne : den ≠ 0 := by
      intro e
      have := hnz e
      rw [e] at hle
      linarith
    rw [if_neg hdne]
    have hdpos : 0 < den := lt_of_le_of_ne hd (Ne.symm hdne)
    exact law_flip (div_nonneg h0 hd) ((div_le_one hdpos).mpr hle) y n x

/-- no mass off the leaves -/
theorem law_eq_zero_of_All {P : α → Prop} : ∀ (t : PT α), All P t → ∀ x, ¬ P x → law t x = 0
  | ret a, ht, x, hx => by
    rw [law_ret, if_neg]
    intro e
    exact hx (e ▸ ht)
  | node d k, ht, x, hx => by
    rw [law_node]
    refine Finset.sum_eq_zero (fun i hi => ?_)
    by_cases hw : d.w i = 0
    · rw [hw, zero_mul]
    · rw [law_eq_zero_of_All (k i) (ht i (Finset.mem_range.mp hi) hw) x hx, mul_zero]

/-! ### law of a bind -/

/-- **law of `t >>= f`** = `Σ_b law t b · law (f b)`, the sum over any finite set holding the leaves of `t` -/
theorem law_bind_on (S : Finset α) (f : α → PT β) (c : β) :
    ∀ (t : PT α), All (fun a => a ∈ S) t → law (bind t f) c = ∑ b ∈ S, law t b * law (f b) c
  | ret a, ht => by
    have ha : a ∈ S := ht
    simp only [ret_bind, law_ret]
    rw [Finset.sum_eq_single a]
    · simp
    · intro b _ hb; simp [hb]
    · intro h; exact absurd ha h
  | node d k, ht => by
    simp only [node_bind, law_node]
    have hterm : ∀ i ∈ Finset.range d.n, d.w i * law (bind (k i) f) c =
        d.w i * ∑ b ∈ S, law (k i) b * law (f b) c := by
      intro i hi
      by_cases hw : d.w i = 0
      · rw [hw, zero_mul, zero_mul]
      · rw [law_bind_on S f c (k i) (ht i (Finset.mem_range.mp hi) hw)]
    rw [Finset.sum_congr rfl hterm]
    simp only [Finset.mul_sum, Finset.sum_mul]
    rw [Finset.sum_comm]
    refine Finset.sum_congr rfl (fun b _ => Finset.sum_congr rfl (fun i _ => ?_))
    ring

/-- on a finite type -/
theorem law_bind [Fintype α] (t : PT α) (f : α → PT β) (c : β) :
    law (bind t f) c = ∑ b, law t b * law (f b) c :=
  law_bind_on Finset.univ f c t (All_mono (fun a _ => Finset.mem_univ a) t (All_true t))

omit [DecidableEq α] in
/-- continuations that agree (in law) on the leaves give the same law -/
theorem law_bind_congr {P : α → Prop} {f g : α → PT β} (c : β) :
    ∀ (t : PT α), All P t → (∀ a, P a → law (f a) c = law (g a) c) → law (bind t f) c = law (bind t g) c
  | ret a, ht, h => h a ht
  | node d k, ht, h => by
    simp only [node_bind, law_node]
    refine Finset.sum_congr rfl (fun i hi => ?_)
    by_cases hw : d.w i = 0
    · rw [hw, zero_mul, zero_mul]
    · rw [law_bind_congr c (k i) (ht i (Finset.mem_range.mp hi) hw) h]

/-- law of an image -/
theorem law_map_on (S : Finset α) (φ : α → β) (c : β) (t : PT α) (ht : All (fun a => a ∈ S) t) :
    law (map φ t) c = ∑ b ∈ S, law t b * (if c = φ b then 1 else 0) := by
  unfold map
  rw [law_bind_on S _ c t ht]
  rfl

/-- an injective relabelling of the leaves -/
theorem law_map_inj (φ : α → β) (hφ : ∀ a b, φ a = φ b → a = b) : ∀ (t : PT α) (a : α),
    law (map φ t) (φ a) = law t a
  | ret b, a => by
    simp only [map_ret, law_ret]
    by_cases h : a = b
    · rw [if_pos h, if_pos (by rw [h])]
    · rw [if_neg h, if_neg (fun e => h (hφ _ _ e))]
  | node d k, a => by
    simp only [map_node, law_node]
    exact Finset.sum_congr rfl (fun i _ => by rw [law_map_inj φ hφ (k i) a])

omit [DecidableEq α] in
/-- two maps that agree on the leaves -/
theorem map_congr_All {P : α → Prop} {φ ψ : α → β} (h : ∀ a, P a → φ a = ψ a) (c : β) (t : PT α)
    (ht : All P t) : law (map φ t) c = law (map ψ t) c :=
  law_bind_congr c t ht (fun a ha => by rw [h a ha])

/-- the finite set of all leaves -/
def leaves : PT α → Finset α
  | ret a => {a}
  | node d k => (Finset.range d.n).biUnion (fun i => leaves (k i))

theorem All_leaves : ∀ (t : PT α), All (fun a => a ∈ leaves t) t
  | ret a => by simp [leaves]
  | node d k => fun i hi _ =>
    All_mono (fun a ha => by
      simp only [leaves, Finset.mem_biUnion, Finset.mem_range]
      exact ⟨i, hi, ha⟩) (k i) (All_leaves (k i))

/-- **law of `t >>= f`** as a sum over any finite set off which the law of `t` vanishes -/
theorem law_bind_of_zero (S : Finset α) (f : α → PT β) (c : β) (t : PT α)
    (hz : ∀ b, b ∉ S → law t b = 0) : law (bind t f) c = ∑ b ∈ S, law t b * law (f b) c := by
  rw [law_bind_on (S ∪ leaves t) f c t
    (All_mono (fun a ha => Finset.mem_union_right S ha) t (All_leaves t))]
  symm
  exact Finset.sum_subset Finset.subset_union_left (fun b _ hb => by rw [hz b hb, zero_mul])

/-- no mass of `t >>= f` outside `S` if `t` and every `f b`, `b ∈ S`, have none -/
theorem law_bind_zero_off (S : Finset α) (S' : Finset β) (f : α → PT β) (t : PT α)
    (hz : ∀ b, b ∉ S → law t b = 0) (hf : ∀ b ∈ S, ∀ c, c ∉ S' → law (f b) c = 0) :
    ∀ c, c ∉ S' → law (bind t f) c = 0 := by
  intro c hc
  rw [law_bind_of_zero S f c t hz]
  exact Finset.sum_eq_zero (fun b hb => by rw [hf b hb c hc, mul_zero])

end PT

/-! ### tree-valued functions as kernels on a finite set -/

section LawK
variable {α : Type} [DecidableEq α]

/-- the law of the tree-valued function `T`, read as a kernel on the finite set `S` -/
def lawK (S : Finset α) (T : α → PT α) : S → S → ℚ := fun a b => PT.law (T a.1) b.1

/-- **sequential composition of programs = composition of kernels** (`Dist.comp`), provided the first
program does not leave `S` -/
theorem lawK_bind (S : Finset α) (T₁ T₂ : α → PT α) (h : ∀ a ∈ S, PT.All (fun b => b ∈ S) (T₁ a)) :
    lawK S (fun a => PT.bind (T₁ a) T₂) = comp (lawK S T₁) (lawK S T₂) := by
  funext a c
  unfold lawK comp
  rw [PT.law_bind_on S T₂ c.1 (T₁ a.1) (h a.1 a.2)]
  exact (Finset.sum_coe_sort S (fun b => PT.law (T₁ a.1) b * PT.law (T₂ b) c.1)).symm

theorem lawK_ret (S : Finset α) : lawK S (fun a => PT.ret a) = (idK : S → S → ℚ) := by
  funext a c
  unfold lawK idK
  rw [PT.law_ret]
  by_cases h : a = c
  · rw [if_pos h, if_pos (by rw [h])]
  · rw [if_neg h, if_neg (fun e => h (Subtype.ext e.symm))]

/-- sequential composition = composition of kernels, for a first program whose law does not leave `S` -/
theorem lawK_bind_of_zero (S : Finset α) (T₁ T₂ : α → PT α)
    (h : ∀ a ∈ S, ∀ b, b ∉ S → PT.law (T₁ a) b = 0) :
    lawK S (fun a => PT.bind (T₁ a) T₂) = comp (lawK S T₁) (lawK S T₂) := by
  funext a c
  unfold lawK comp
  rw [PT.law_bind_of_zero S T₂ c.1 (T₁ a.1) (h a.1 a.2)]
  exact (Finset.sum_coe_sort S (fun b => PT.law (T₁ a.1) b * PT.law (T₂ b) c.1)).symm

end LawK

end Qmc.Law
