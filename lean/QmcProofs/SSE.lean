/-
The stochastic-series-expansion representation at *finite* cutoff L, at matrix level
(pure mathematics about SSE; used by C01/C04 to connect "the kernels leave the SSE weight
invariant" with "Tr e^{-βH}").

For any finite family of matrices `A b` (the bond operators `M_b`, with `M = Σ_b A b = C·1 − H`):
  * `sum_pow_eq_sum_words` : `M^n = Σ_{b⃗ ∈ bonds^n} A b₁ ⬝ … ⬝ A bₙ`
  * `placement_weight`     : `C(L,n) · (L−n)!/L! = 1/n!`
  * `partition_function`   : summing the SSE weight `βⁿ (L−n)!/L! · Tr(A b₁ … A bₙ)` over all
       placements of n operators among L slots and all bond words gives the Taylor polynomial
       `Σ_{n≤L} βⁿ/n! · Tr(Mⁿ)` of `Tr e^{βM}`.
  * `mean_n_identity`      : `Σ_{n≤L} n·βⁿ/n!·tₙ = β · Σ_{n<L} βⁿ/n!·tₙ₊₁` — the estimator
       `E = C − ⟨n⟩/β` at finite L.
-/
import Mathlib.Data.Matrix.Basic
import Mathlib.LinearAlgebra.Matrix.Trace
import Mathlib.Data.Nat.Choose.Basic
import Mathlib.Data.Nat.Factorial.Basic
import Mathlib.Algebra.BigOperators.Fin
import Mathlib.Algebra.Order.Field.Rat
import Mathlib.Tactic.FieldSimp
import Mathlib.Tactic.Ring
import Mathlib.Tactic.Linarith
import Mathlib.Tactic.Positivity
import Mathlib.Data.Fintype.BigOperators
import Mathlib.Data.Finset.Powerset

open BigOperators Finset

namespace Qmc.SSE

variable {ι : Type} {R : Type} [Semiring R]

/-- product of the word `A (p 0) * A (p 1) * … * A (p (n-1))` -/
def wordProd (A : ι → R) {n : Nat} (p : Fin n → ι) : R := (List.ofFn fun i => A (p i)).prod

theorem wordProd_cons (A : ι → R) {n : Nat} (b : ι) (p : Fin n → ι) :
    wordProd A (Fin.cons b p : Fin (n + 1) → ι) = A b * wordProd A p := by
  unfold wordProd
  rw [List.ofFn_succ]
  simp [Fin.cons_zero, Fin.cons_succ]

/-- `(Σ_b A b)^n` is the sum over all words of length `n` of the ordered products. -/
theorem sum_pow_eq_sum_words [Fintype ι] (A : ι → R) (n : Nat) :
    (∑ b, A b) ^ n = ∑ p : Fin n → ι, wordProd A p := by
  induction n with
  | zero => simp [wordProd]
  | succ n ih =>
    rw [pow_succ', ih, Finset.sum_mul]
    rw [← Fintype.sum_equiv (Fin.consEquiv (fun _ => ι)) (fun x => wordProd A (Fin.cons x.1 x.2))
      (fun p => wordProd A p) (fun x => rfl)]
    rw [Fintype.sum_prod_type]
    refine Finset.sum_congr rfl (fun b _ => ?_)
    rw [Finset.mul_sum]
    refine Finset.sum_congr rfl (fun p _ => ?_)
    rw [wordProd_cons]

/-- number of placements × per-placement combinatorial factor = `1/n!` -/
theorem placement_weight (L n : Nat) (h : n ≤ L) :
    (L.choose n : ℚ) * ((L - n).factorial / L.factorial) = 1 / n.factorial := by
  have hk := Nat.choose_mul_factorial_mul_factorial h
  have hL : (L.factorial : ℚ) ≠ 0 := by exact_mod_cast L.factorial_ne_zero
  have hn : (n.factorial : ℚ) ≠ 0 := by exact_mod_cast n.factorial_ne_zero
  have : (L.choose n : ℚ) * n.factorial * (L - n).factorial = L.factorial := by exact_mod_cast hk
  field_simp
  rw [← this]; ring

section trace
variable [Fintype ι] {S : Type} [Fintype S] [DecidableEq S]

/-- SSE weight of one configuration class: `n` operators with bond word `p` placed at the slot
set `pos ⊆ {0..L-1}` (the trace sums over the periodic world-line states). -/
noncomputable def sseWeight (β : ℚ) (L : Nat) (A : ι → Matrix S S ℚ) {n : Nat} (p : Fin n → ι) : ℚ :=
  β ^ n * ((L - n).factorial / L.factorial) * Matrix.trace (wordProd A p)

/-- **Partition function at cutoff L.** Summing the SSE weight over the number of operators,
their placement among the `L` slots and their bond word reproduces the degree-`L` Taylor
polynomial of `Tr e^{βM}`, `M = Σ_b A b`. -/
theorem partition_function (β : ℚ) (L : Nat) (A : ι → Matrix S S ℚ) :
    ∑ n ∈ range (L + 1), ∑ _pos ∈ powersetCard n (range L), ∑ p : Fin n → ι, sseWeight β L A p
      = ∑ n ∈ range (L + 1), β ^ n / n.factorial * Matrix.trace ((∑ b, A b) ^ n) := by
  refine Finset.sum_congr rfl (fun n hn => ?_)
  have hnL : n ≤ L := by simpa [Nat.lt_succ_iff] using hn
  rw [Finset.sum_const, card_powersetCard, card_range, sum_pow_eq_sum_words, Matrix.trace_sum]
  unfold sseWeight
  rw [← Finset.mul_sum, nsmul_eq_mul]
  have := placement_weight L n hnL
  calc (L.choose n : ℚ) * (β ^ n * ((L - n).factorial / L.factorial) * ∑ p : Fin n → ι, Matrix.trace (wordProd A p))
      = β ^ n * ((L.choose n : ℚ) * ((L - n).factorial / L.factorial)) * ∑ p : Fin n → ι, Matrix.trace (wordProd A p) := by ring
    _ = β ^ n / n.factorial * ∑ p : Fin n → ι, Matrix.trace (wordProd A p) := by rw [this]; ring

end trace

/-- **Operator-count estimator at cutoff L**: `Σ_{n≤L} n βⁿ/n! tₙ = β Σ_{n<L} βⁿ/n! tₙ₊₁`.
With `tₙ = Tr(Mⁿ)` the left side is `⟨n⟩·Z_L` and the right side `β·Tr(M·T_{L−1}(βM))`, so
`⟨n⟩/β → ⟨M⟩ = C − E`, i.e. `E = −⟨n⟩/β + C`. -/
theorem mean_n_identity (β : ℚ) (t : Nat → ℚ) (L : Nat) :
    ∑ n ∈ range (L + 1), (n : ℚ) * (β ^ n / n.factorial * t n)
      = β * ∑ n ∈ range L, β ^ n / n.factorial * t (n + 1) := by
  rw [Finset.sum_range_succ', Finset.mul_sum]
  simp only [Nat.cast_zero, zero_mul, add_zero]
  refine Finset.sum_congr rfl (fun n _ => ?_)
  have hn : ((n + 1).factorial : ℚ) = (n + 1) * n.factorial := by
    rw [Nat.factorial_succ]; push_cast; ring
  have h1 : (n.factorial : ℚ) ≠ 0 := by exact_mod_cast n.factorial_ne_zero
  have h2 : ((n : ℚ) + 1) ≠ 0 := by
    have : (0 : ℚ) ≤ n := Nat.cast_nonneg n
    linarith
  rw [hn]; push_cast
  field_simp
  ring

end Qmc.SSE
