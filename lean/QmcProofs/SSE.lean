/-
The stochastic-series-expansion representation at *finite* cutoff L, at matrix level
(pure mathematics about SSE; used by C01/C04 to connect "the kernels leave the SSE weight
invariant" with "Tr e^{-βH}").

For any finite family of matrices `A b` (the bond operators `M_b`, with `M = Σ_b A b = C·1 − H`):
  * `sum_pow_eq_sum_words` : `M^n = Σ_{b⃗ ∈ bonds^n} A b₁ ⬝ … ⬝ A bₙ`
  * `placement_weight`     : `C(L,n) · (L−n)!/L! = 1/n!`
  * `partition_function`   : summing the SSE weight `βⁿ (L−n)!/L! · Tr(A b₁ … A bₙ)` over all
       placements of n operators among L slots and all bond words gives the Taylor polynomial
       `Σ_{n≤L} βⁿ/n! · Tr(Mⁿ)` of `Tr e^{βM}`.
  * `mean_n_identity`      : `Σ_{n≤L} n·βⁿ/n!·tₙ = β · Σ_{n<L} βⁿ/n!·tₙ₊₁` — the estimator
       `E = C − ⟨n⟩/β` at finite L.
-/
import Mathlib.Data.Matrix.Basic
import Mathlib.LinearAlgebra.Matrix.Trace
import Mathlib.Data.Nat.Choose.Basic
import Mathlib.Data.Nat.Factorial.Basic
import Mathlib.Algebra.BigOperators.Fin
import Mathlib.Algebra.Order.Field.Rat
import Mathlib.Tactic.FieldSimp
import Mathlib.Tactic.Ring
import Mathlib.Tactic.Linarith
import Mathlib.Tactic.Positivity
import Mathlib.Data.Fintype.BigOperators
import Mathlib.Data.Finset.Powerset

open BigOperators Finset

namespace Qmc.SSE

variable {ι : Type} {R : Type} [Semiring R]

/-- product of the word `A (p 0) * A (p 1) * … * A (p (n-1))` -/
def wordProd (A : ι → R) {n : Nat} (p : Fin n → ι) : R := (List.ofFn fun i => A (p i)).prod

theorem wordProd_cons (A : ι → R) {n : Nat} (b : ι) (p : Fin n → ι) :
    wordProd A (Fin.cons b p : Fin (n + 1) → ι) = A b * wordProd A p := by
  unfold wordProd
  rw [List.ofFn_succ]
  simp [Fin.cons_zero, Fin.cons_succ]

/-- `(Σ_b A b)^n` is the sum over all words of length `n` of the ordered products. -/
theorem sum_pow_eq_sum_words [Fintype ι] (A : ι → R) (n : Nat) :
    (∑ b, A b) ^ n = ∑ p : Fin n → ι, wordProd A p := by
  induction n with
  | zero => simp [wordProd]
  | succ n ih =>
    rw [pow_succ', ih, Finset.sum_mul]
    rw [← Fintype.sum_equiv (Fin.consEquiv (fun _ => ι)) (fun x => wordProd A (Fin.cons x.1 x.2))
      (fun p => wordProd A p) (fun x => rfl)]
    rw [Fintype.sum_prod_type]
    refine Finset.sum_congr rfl (fun b _ => ?_)
    rw [Finset.mul_sum]
    refine Finset.sum_congr rfl (fun p _ => ?_)
    rw [wordProd_cons]

/-- number of placements × per-placement combinatorial factor = `1/n!` -/
theorem placement_weight (L n : Nat) (h : n ≤ L) :
    (L.choose n : ℚ) * ((L - n).factorial / L.factorial) = 1 / n.factorial := by
  have hk := Nat.choose_mul_factorial_mul_factorial h
  have hL : (L.factorial : ℚ) ≠ 0 := by exact_mod_cast L.factorial_ne_zero
  have hn : (n.factorial : ℚ) ≠ 0 := by exact_mod_cast n.factorial_ne_zero
  have : (L.choose n : ℚ) * n.factorial * (L - n).factorial = L.factorial := by exact_mod_cast hk
  field_simp
  rw [← this]; ring

section trace
variable [Fintype ι] {S : Type} [Fintype S] [DecidableEq S]

/-- SSE weight of one configuration class: `n` operators with bond word `p` placed at the slot
set `pos ⊆ {0..L-1}` (the trace sums over the periodic world-line states). -/
noncomputable def sseWeight (β : ℚ) (L : Nat) (A : ι → Matrix S S ℚ) {n : Nat} (p : Fin n → ι) : ℚ :=
  β ^ n * ((L - n).factorial / L.factorial) * Matrix.trace (wordProd A p)

/-- **Partition function at cutoff L.** Summing the SSE weight over the number of operators,
their placement among the `L` slots and their bond word reproduces the degree-`L` Taylor
polynomial of `Tr e^{βM}`, `M = Σ_b A b`. -/
theorem partition_function (β : ℚ) (L : Nat) (A : ι → Matrix S S ℚ) :
    ∑ n ∈ range (L + 1), ∑ _pos ∈ powersetCard n (range L), ∑ p : Fin n → ι, sseWeight β L A p
      = ∑ n ∈ range (L + 1), β ^ n / n.factorial * Matrix.trace ((∑ b, A b) ^ n) := by
  refine Finset.sum_congr rfl (fun n hn => ?_)
  have hnL : n ≤ L := by simpa [Nat.lt_succ_iff] using hn
  rw [Finset.sum_const, card_powersetCard, card_range, sum_pow_eq_sum_words, Matrix.trace_sum]
  unfold sseWeight
  rw [← Finset.mul_sum, nsmul_eq_mul]
  have := placement_weight L n hnL
  calc (L.choose n : ℚ) * (β ^ n * ((L - n).factorial / L.factorial) * ∑ p : Fin n → ι, Matrix.trace (wordProd A p))
      = β ^ n * ((L.choose n : ℚ) * ((L - n).factorial / L.factorial)) * ∑ p : Fin n → ι, Matrix.trace (wordProd A p) := by ring
    _ = β ^ n / n.factorial * ∑ p : Fin n → ι, Matrix.trace (wordProd A p) := by rw [this]; ring

/-- **State marginal at cutoff L.** The same sum without the trace: the total SSE weight of all
configurations whose `p = 0` state is `α` is the diagonal entry `⟨α|T_L(βM)|α⟩` of the Taylor
polynomial — the distribution of the spin state the sampler returns, `∝ diag e^{β(C−H)} ∝ diag e^{−βH}`
as `L → ∞`. -/
theorem state_marginal (β : ℚ) (L : Nat) (A : ι → Matrix S S ℚ) (α : S) :
    ∑ n ∈ range (L + 1), ∑ _pos ∈ powersetCard n (range L), ∑ p : Fin n → ι,
        β ^ n * ((L - n).factorial / L.factorial) * (wordProd A p) α α
      = ∑ n ∈ range (L + 1), β ^ n / n.factorial * ((∑ b, A b) ^ n) α α := by
  refine Finset.sum_congr rfl (fun n hn => ?_)
  have hnL : n ≤ L := by simpa [Nat.lt_succ_iff] using hn
  rw [Finset.sum_const, card_powersetCard, card_range, sum_pow_eq_sum_words, Matrix.sum_apply,
    ← Finset.mul_sum, nsmul_eq_mul]
  have := placement_weight L n hnL
  calc (L.choose n : ℚ) * (β ^ n * ((L - n).factorial / L.factorial) * ∑ p : Fin n → ι, (wordProd A p) α α)
      = β ^ n * ((L.choose n : ℚ) * ((L - n).factorial / L.factorial)) * ∑ p : Fin n → ι, (wordProd A p) α α := by ring
    _ = β ^ n / n.factorial * ∑ p : Fin n → ι, (wordProd A p) α α := by rw [this]; ring

end trace

/-- **Operator-count estimator at cutoff L**: `Σ_{n≤L} n βⁿ/n! tₙ = β Σ_{n<L} βⁿ/n! tₙ₊₁`.
With `tₙ = Tr(Mⁿ)` the left side is `⟨n⟩·Z_L` and the right side `β·Tr(M·T_{L−1}(βM))`, so
`⟨n⟩/β → ⟨M⟩ = C − E`, i.e. `E = −⟨n⟩/β + C`. -/
theorem mean_n_identity (β : ℚ) (t : Nat → ℚ) (L : Nat) :
    ∑ n ∈ range (L + 1), (n : ℚ) * (β ^ n / n.factorial * t n)
      = β * ∑ n ∈ range L, β ^ n / n.factorial * t (n + 1) := by
  rw [Finset.sum_range_succ', Finset.mul_sum]
  simp only [Nat.cast_zero, zero_mul, add_zero]
  refine Finset.sum_congr rfl (fun n _ => ?_)
  have hn : ((n + 1).factorial : ℚ) = (n + 1) * n.factorial := by
    rw [Nat.factorial_succ]; push_cast; ring
  have h1 : (n.factorial : ℚ) ≠ 0 := by exact_mod_cast n.factorial_ne_zero
  have h2 : ((n : ℚ) + 1) ≠ 0 := by
    have : (0 : ℚ) ≤ n := Nat.cast_nonneg n
    linarith
  rw [hn]; push_cast
  field_simp
  ring


/-! ### per-bond operator counts -/

section counts
variable [Fintype ι] [DecidableEq ι]

/-- number of occurrences of bond `b` in the word `p` -/
def countIn (b : ι) {n : Nat} (p : Fin n → ι) : Nat := ∑ i, if p i = b then 1 else 0

theorem countIn_cons (b c : ι) {n : Nat} (q : Fin n → ι) :
    countIn b (Fin.cons c q : Fin (n + 1) → ι) = (if c = b then 1 else 0) + countIn b q := by
  unfold countIn
  rw [Fin.sum_univ_succ]
  simp [Fin.cons_zero, Fin.cons_succ]

/-- `K_n = Σ_words (#b in word) · A(word)` has the closed form `Σ_{i<n} M^i A_b M^{n-1-i}`. -/
theorem count_weighted_words (A : ι → R) (b : ι) (n : Nat) :
    ∑ p : Fin n → ι, (countIn b p : R) * wordProd A p
      = ∑ i ∈ range n, (∑ c, A c) ^ i * A b * (∑ c, A c) ^ (n - 1 - i) := by
  induction n with
  | zero => simp [countIn]
  | succ n ih =>
    rw [← Fintype.sum_equiv (Fin.consEquiv (fun _ => ι))
      (fun x => (countIn b (Fin.cons x.1 x.2 : Fin (n+1) → ι) : R) * wordProd A (Fin.cons x.1 x.2))
      (fun p => (countIn b p : R) * wordProd A p) (fun x => rfl)]
    rw [Fintype.sum_prod_type]
    simp only [countIn_cons, wordProd_cons, Nat.cast_add, add_mul]
    rw [Finset.sum_comm]
    simp only [Finset.sum_add_distrib]
    -- first part: the new letter is `b`
    have h1 : ∑ q : Fin n → ι, ∑ c, ((if c = b then (1 : ℕ) else 0 : ℕ) : R) * (A c * wordProd A q)
        = A b * (∑ c, A c) ^ n := by
      rw [sum_pow_eq_sum_words, Finset.mul_sum]
      refine Finset.sum_congr rfl (fun q _ => ?_)
      rw [Finset.sum_eq_single b]
      · simp
      · intro c _ hc; simp [hc]
      · intro h; exact absurd (Finset.mem_univ b) h
    -- second part: recursion
    have h2 : ∑ q : Fin n → ι, ∑ c, (countIn b q : R) * (A c * wordProd A q)
        = (∑ c, A c) * ∑ q : Fin n → ι, (countIn b q : R) * wordProd A q := by
      rw [Finset.mul_sum]
      refine Finset.sum_congr rfl (fun q _ => ?_)
      rw [Finset.sum_mul]
      refine Finset.sum_congr rfl (fun c _ => ?_)
      rw [← mul_assoc, ← mul_assoc, (Nat.cast_commute (countIn b q) (A c)).eq]
    rw [h1, h2, ih, Finset.sum_range_succ', Finset.mul_sum]
    simp only [pow_zero, one_mul, Nat.add_sub_cancel, Nat.sub_zero]
    rw [add_comm]
    congr 1
    refine Finset.sum_congr rfl (fun i hi => ?_)
    have : n - (i + 1) = n - 1 - i := by omega
    rw [this, pow_succ']
    simp only [mul_assoc]

end counts

section counts_trace
variable [Fintype ι] [DecidableEq ι] {S : Type} [Fintype S] [DecidableEq S]

/-- **Per-bond count, fixed n**: `Σ_words (#b in word) · Tr(A(word)) = n · Tr(A_b M^{n-1})`. -/
theorem count_trace (A : ι → Matrix S S ℚ) (b : ι) (n : Nat) :
    ∑ p : Fin n → ι, (countIn b p : ℚ) * Matrix.trace (wordProd A p)
      = n * Matrix.trace (A b * (∑ c, A c) ^ (n - 1)) := by
  have h := congrArg Matrix.trace (count_weighted_words A b n)
  rw [Matrix.trace_sum, Matrix.trace_sum] at h
  have hl : ∀ p : Fin n → ι, Matrix.trace ((countIn b p : Matrix S S ℚ) * wordProd A p)
      = (countIn b p : ℚ) * Matrix.trace (wordProd A p) := by
    intro p
    rw [← nsmul_eq_mul, Matrix.trace_smul, nsmul_eq_mul]
  simp only [hl] at h
  rw [h]
  have hr : ∀ i ∈ range n, Matrix.trace ((∑ c, A c) ^ i * A b * (∑ c, A c) ^ (n - 1 - i))
      = Matrix.trace (A b * (∑ c, A c) ^ (n - 1)) := by
    intro i hi
    have hi' : i < n := Finset.mem_range.mp hi
    rw [mul_assoc, Matrix.trace_mul_comm, mul_assoc, ← pow_add]
    congr 3; omega
  rw [Finset.sum_congr rfl hr, Finset.sum_const, card_range, nsmul_eq_mul]

/-- **Per-bond operator count at cutoff L**: weighting every SSE configuration class by the number
of `b`-operators it holds gives `β · Σ_{n<L} βⁿ/n! · Tr(A_b Mⁿ)`; divided by the partition
function this is `⟨n_b⟩ = β·Tr(A_b T_{L−1}(βM))/Tr(T_L(βM)) → β⟨M_b⟩`. -/
theorem bond_count_identity (β : ℚ) (L : Nat) (A : ι → Matrix S S ℚ) (b : ι) :
    ∑ n ∈ range (L + 1), ∑ _pos ∈ powersetCard n (range L), ∑ p : Fin n → ι,
        (countIn b p : ℚ) * sseWeight β L A p
      = β * ∑ n ∈ range L, β ^ n / n.factorial * Matrix.trace (A b * (∑ c, A c) ^ n) := by
  have hm := mean_n_identity β (fun n => Matrix.trace (A b * (∑ c, A c) ^ (n - 1))) L
  simp only [Nat.add_sub_cancel] at hm
  rw [← hm]
  refine Finset.sum_congr rfl (fun n hn => ?_)
  have hnL : n ≤ L := by simpa [Nat.lt_succ_iff] using hn
  rw [Finset.sum_const, card_powersetCard, card_range]
  unfold sseWeight
  have : ∑ p : Fin n → ι, (countIn b p : ℚ) * (β ^ n * ((L - n).factorial / L.factorial) * Matrix.trace (wordProd A p))
      = β ^ n * ((L - n).factorial / L.factorial) * ∑ p : Fin n → ι, (countIn b p : ℚ) * Matrix.trace (wordProd A p) := by
    rw [Finset.mul_sum]; refine Finset.sum_congr rfl (fun p _ => ?_); ring
  rw [this, count_trace, nsmul_eq_mul]
  have hw := placement_weight L n hnL
  calc (L.choose n : ℚ) * (β ^ n * ((L - n).factorial / L.factorial) * (n * Matrix.trace (A b * (∑ c, A c) ^ (n - 1))))
      = (n : ℚ) * (β ^ n * ((L.choose n : ℚ) * ((L - n).factorial / L.factorial)) * Matrix.trace (A b * (∑ c, A c) ^ (n - 1))) := by ring
    _ = (n : ℚ) * (β ^ n / n.factorial * Matrix.trace (A b * (∑ c, A c) ^ (n - 1))) := by rw [hw]; ring

end counts_trace

end Qmc.SSE
