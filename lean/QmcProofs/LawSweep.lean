import QmcProofs.LawSlot
import QmcProofs.KernelInvariance
import QmcProofs.Common

/-!
# Law of the whole Metropolis sweep = `sweepKM`; the executable model's idealised law is invariant

* `sweepAux_refines`, `sweep_refines`, `metropolisSweep_refines` — **refinement**: for every script the
  model's sweep is the run of its tree twin (`sweepAuxT`, `sweepT`, `metropolisSweepT`).
* `DiagLegal H c` — legality of a configuration for the diagonal update: every bond's variables are
  defined in the state, every diagonal-tagged operator is the canonical operator of a bond of `H` at
  the rolling state of its slot, and the rolling state closes (`rollState c.state c.slots = c.state`).
* `law_sweep_eq_compList` — generic in the slot function: the law of the sweep is the composition of the
  laws of the slot visits (each acting on the configuration produced so far).
* `law_metropolisSweep` — **law = kernel**: `lawK S (metropolisSweepT H β L) = sweepKM H β S L` on every
  finite set `S` of legal configurations with `L` slots that the diagonal proposals do not leave.
* `metropolisSweep_law_invariant` — **the idealised law of the executable sweep leaves the SSE weight
  invariant**, on `legalSpace H N L` (all legal configurations of `cfgSpace H N L`).
-/

open Finset

namespace Qmc.Law
open Qmc Qmc.Kernel Qmc.Dist

/-! ### refinement -/

theorem sweepAux_refines (F : Option Op → List Bool → Nat → RS → SlotRes)
    (f : Option Op → List Bool → Nat → PT SlotOut)
    (hF : ∀ s st n rs, F s st n rs = ((f s st n).run rs).1.withRS ((f s st n).run rs).2) :
    ∀ (sl : Slots) (st : List Bool) (n : Nat) (rs : RS),
      sweepAux F sl st n rs =
        (((sweepAuxT f sl st n).run rs).1.1, ((sweepAuxT f sl st n).run rs).1.2.1,
          ((sweepAuxT f sl st n).run rs).1.2.2, ((sweepAuxT f sl st n).run rs).2)
  | [], _, _, _ => rfl
  | s :: t, st, n, rs => by
    rw [sweepAux_cons]
    simp only [sweepAuxT, PT.run_bind, PT.run_map]
    rw [hF s st n rs]
    simp only [SlotOut.withRS]
    rw [sweepAux_refines F f hF t]

theorem sweep_refines (F : Option Op → List Bool → Nat → RS → SlotRes)
    (f : Option Op → List Bool → Nat → PT SlotOut)
    (hF : ∀ s st n rs, F s st n rs = ((f s st n).run rs).1.withRS ((f s st n).run rs).2)
    (cutoff : Nat) (c : Config) (rs : RS) :
    sweep F cutoff c rs =
      (((sweepT f cutoff c).run rs).1.1, ((sweepT f cutoff c).run rs).1.2, ((sweepT f cutoff c).run rs).2) := by
  unfold sweep sweepT
  simp only [PT.run_map]
  rw [sweepAux_refines F f hF]

/-- **refinement of the Metropolis sweep**: on every script the model function is the run of its tree -/
theorem metropolisSweep_refines (H : Ham) (β : Rat) (cutoff : Nat) (c : Config) (rs : RS) :
    metropolisSweep H β cutoff c rs = (metropolisSweepT H β cutoff c).run rs := by
  unfold metropolisSweep metropolisSweepT
  rw [sweep_refines _ _ (metropolisSlot_refines H β cutoff), PT.run_map]

/-! ### leaves of a slot tree -/

/-- tree-level counterpart of `SlotOK` + `StateOK`: every leaf of a slot visit hands on the rolling
state, leaves a slot with the same effect on the rolling state, and keeps the count in step -/
def SlotLeafOK (f : Option Op → List Bool → Nat → PT SlotOut) : Prop :=
  ∀ s st n, PT.All (fun r : SlotOut => r.state = rollState st [s] ∧
    (∀ st', rollState st' [r.slot] = rollState st' [s]) ∧
    ((s.isSome → 1 ≤ n) → r.n + cnt s = n + cnt r.slot)) (f s st n)

theorem metropolisSlotT_leafOK (H : Ham) (β : Rat) (L : Nat) : SlotLeafOK (metropolisSlotT H β L) := by
  intro s st n
  unfold metropolisSlotT
  cases s with
  | none =>
    refine PT.All_pick (fun b _ => ?_)
    unfold metropolisInsertT
    simp only
    split
    · exact PT.All_panic _
    · refine PT.All_clipped ?_ ?_
      · exact ⟨rfl, fun st' => by simp [rollState, Op.diagonal], fun _ => by simp [cnt]⟩
      · exact ⟨rfl, fun st' => rfl, fun _ => rfl⟩
  | some op =>
    simp only
    split
    · rename_i hd
      split
      · exact PT.All_panic _
      · refine PT.All_clipped ?_ ?_
        · refine ⟨by simp [rollState, hd], fun st' => by simp [rollState, hd], fun h => ?_⟩
          have := h rfl
          simp [cnt]; omega
        · exact ⟨by simp [rollState, hd], fun st' => rfl, fun _ => rfl⟩
    · rename_i hd
      exact ⟨by simp [rollState, hd], fun st' => rfl, fun _ => rfl⟩

/-- every leaf of the sweep carries the rolling state of the original slots -/
theorem sweepAuxT_state (f : Option Op → List Bool → Nat → PT SlotOut) (hf : SlotLeafOK f) :
    ∀ (sl : Slots) (st : List Bool) (n : Nat),
      PT.All (fun x : Slots × List Bool × Nat => x.2.1 = rollState st sl) (sweepAuxT f sl st n)
  | [], _, _ => rfl
  | s :: t, st, n => by
    unfold sweepAuxT
    refine PT.All_bind _ (hf s st n) (fun r hr => ?_)
    refine PT.All_map _ (sweepAuxT_state f hf t r.state r.n) (fun x hx => ?_)
    simp only
    rw [hx, hr.1, ← rollState_cons]


/-! ### the sweep as a sequence of visits of the configuration produced so far -/

/-- the visit of slot `p` of the configuration `c`: slot content, `stateAt c p`, current count -/
def slotCfgT (f : Option Op → List Bool → Nat → PT SlotOut) (p : Nat) (c : Config) : PT Config :=
  PT.map (fun r : SlotOut => setSlot c p r.slot) (f (c.slots.getD p none) (stateAt c p) (countOps c.slots))

/-- visits of the slots `p, p+1, …, p+k−1`, each on the configuration the previous ones produced -/
def cfgSweepT (f : Option Op → List Bool → Nat → PT SlotOut) : Nat → Nat → Config → PT Config
  | _, 0, c => PT.ret c
  | p, k + 1, c => PT.bind (slotCfgT f p c) (cfgSweepT f (p + 1) k)

theorem stateAt_mk_append (st0 : List Bool) (pre rest : Slots) :
    stateAt { state := st0, slots := pre ++ rest } pre.length = rollState st0 pre := by
  unfold stateAt
  simp

theorem setSlot_mk_append (st0 : List Bool) (pre : Slots) (s x : Option Op) (t : Slots) :
    setSlot { state := st0, slots := pre ++ s :: t } pre.length x =
      { state := st0, slots := (pre ++ [x]) ++ t } := by
  simp [setSlot]

/-- **the model's sweep visits each slot with `stateAt` and the count of the configuration produced so
far** (tree level; the script-level statements are `sweep_uses_stateAt`, `sweep_uses_current_n`) -/
theorem law_sweepAuxT_eq_cfgSweepT (f : Option Op → List Bool → Nat → PT SlotOut) (hf : SlotLeafOK f)
    (st0 : List Bool) (c' : Config) : ∀ (rest pre : Slots),
    PT.law (PT.map (fun x : Slots × List Bool × Nat => ({ state := st0, slots := pre ++ x.1 } : Config))
      (sweepAuxT f rest (rollState st0 pre) (countOps (pre ++ rest)))) c' =
    PT.law (cfgSweepT f pre.length rest.length { state := st0, slots := pre ++ rest }) c'
  | [], pre => by
    simp [sweepAuxT, cfgSweepT]
  | s :: t, pre => by
    simp only [sweepAuxT, cfgSweepT, List.length_cons, slotCfgT]
    rw [PT.map_bind, PT.bind_map]
    have hget : (pre ++ s :: t).getD pre.length none = s := by simp
    simp only [hget, stateAt_mk_append]
    refine PT.law_bind_congr c' _ (hf s (rollState st0 pre) (countOps (pre ++ s :: t))) (fun r hr => ?_)
    rw [PT.map_map, setSlot_mk_append]
    have ih := law_sweepAuxT_eq_cfgSweepT f hf st0 c' t (pre ++ [r.slot])
    have h1 : rollState st0 (pre ++ [r.slot]) = r.state := by
      rw [rollState_append, hr.2.1, hr.1]
    have h2 : countOps ((pre ++ [r.slot]) ++ t) = r.n := by
      have := hr.2.2 (by
        intro hs
        rw [countOps_append, countOps_cons]
        unfold cnt; rw [if_pos hs]; omega)
      simp only [countOps_append, countOps_cons, countOps_nil] at this ⊢
      omega
    rw [h1, h2] at ih
    simp only [List.length_append, List.length_cons, List.length_nil, List.append_assoc,
      List.cons_append, List.nil_append] at ih
    simpa using ih


/-- the law of consecutive visits is the composition of the laws of the visits -/
theorem lawK_cfgSweepT (f : Option Op → List Bool → Nat → PT SlotOut) (S : Finset Config) :
    ∀ (k p : Nat), (∀ q, p ≤ q → q < p + k → ∀ a ∈ S, PT.All (fun b => b ∈ S) (slotCfgT f q a)) →
      lawK S (cfgSweepT f p k) = compList ((List.range' p k).map fun q => lawK S (slotCfgT f q))
  | 0, p, _ => by
    simp only [List.range'_zero, List.map_nil, compList]
    exact lawK_ret S
  | k + 1, p, h => by
    have e : cfgSweepT f p (k + 1) = fun c => PT.bind (slotCfgT f p c) (cfgSweepT f (p + 1) k) := by
      funext c; rfl
    rw [e, lawK_bind S _ _ (h p (Nat.le_refl p) (by omega)),
      lawK_cfgSweepT f S k (p + 1) (fun q h1 h2 => h q (by omega) (by omega))]
    simp only [List.range'_succ, List.map_cons, compList]


/-! ### legality -/

/-- the operator at slot `p`, if tagged diagonal, is the canonical operator of a bond of `H` -/
def OpLegalAt (H : Ham) (c : Config) (p : Nat) : Prop :=
  match c.slots.getD p none with
  | some o => o.tagDiag = true → (o.bond < H.nbonds ∧ o = canonOp H c p o.bond)
  | none => True

instance (H : Ham) (c : Config) (p : Nat) : Decidable (OpLegalAt H c p) := by
  unfold OpLegalAt; split <;> infer_instance

/-- **legality for the diagonal update** (decidable): bond variables in range; diagonal-tagged
operators canonical at the rolling state of their slot; the rolling state closes -/
def DiagLegal (H : Ham) (c : Config) : Prop :=
  (∀ b, b < H.nbonds → ∀ v ∈ H.vars b, v < c.state.length) ∧
  (∀ p, p < c.slots.length → OpLegalAt H c p) ∧
  rollState c.state c.slots = c.state

instance (H : Ham) (c : Config) : Decidable (DiagLegal H c) := by
  unfold DiagLegal; infer_instance

theorem DiagLegal.op {H : Ham} {c : Config} (h : DiagLegal H c) {p : Nat} {o : Op}
    (hs : c.slots[p]? = some (some o)) (hd : o.tagDiag = true) :
    o.bond < H.nbonds ∧ o = canonOp H c p o.bond := by
  have hp := lt_of_getElem? hs
  have := h.2.1 p hp
  unfold OpLegalAt at this
  have hg : c.slots.getD p none = some o := by
    rw [List.getD_eq_getElem?_getD, hs]; rfl
  rw [hg] at this
  exact this hd

theorem rollState_length : ∀ (sl : Slots) (st : List Bool), (rollState st sl).length = st.length
  | [], _ => rfl
  | none :: t, st => by simp only [rollState]; exact rollState_length t st
  | some o :: t, st => by
    simp only [rollState]
    split
    · exact rollState_length t st
    · rw [rollState_length t, writeVars_length]

theorem varsInRange_of {st : List Bool} {vars : List Nat} (h : ∀ v ∈ vars, v < st.length) :
    varsInRange st vars = true := by
  unfold varsInRange
  rw [List.all_eq_true]
  intro v hv
  exact decide_eq_true (h v hv)

theorem DiagLegal.slotLegal {H : Ham} {c : Config} (h : DiagLegal H c) (p : Nat) : SlotLegal H c p := by
  refine ⟨fun b hb => varsInRange_of (fun v hv => ?_), fun o hs hd => h.op hs hd⟩
  unfold stateAt
  rw [rollState_length]
  exact h.1 b hb v hv

/-! ### the visits of the Metropolis sweep stay in a set closed under the proposals -/

theorem clipProb_zero_num {den : Rat} (hd : 0 ≤ den) : clipProb 0 den = 0 := by
  unfold clipProb
  rw [if_neg (not_lt.mpr hd)]; simp

theorem metropolisSlotT_slots (H : Ham) (β : Rat) (L : Nat) (s : Option Op) (st : List Bool) (n : Nat) :
    PT.All (fun r : SlotOut => r.slot = s ∨
      (s = none ∧ ∃ b, b < H.nbonds ∧ H.w b (readVars st (H.vars b)) (readVars st (H.vars b)) ≠ 0 ∧
        r.slot = some (Op.diagonal (H.vars b) b (readVars st (H.vars b)) (H.const b))) ∨
      (∃ o, s = some o ∧ o.tagDiag = true ∧ r.slot = none)) (metropolisSlotT H β L s st n) := by
  unfold metropolisSlotT
  cases s with
  | none =>
    refine PT.All_pick (fun b hb => ?_)
    unfold metropolisInsertT
    simp only
    split
    · exact PT.All_panic _
    · refine PT.All_clipped_w (fun hne => Or.inr (Or.inl ⟨trivial, b, hb, ?_, rfl⟩)) (Or.inl rfl)
      intro hz
      apply hne
      rw [hz, mul_zero]
      exact clipProb_zero_num (Nat.cast_nonneg _)
  | some op =>
    simp only
    split
    · rename_i hd
      split
      · exact PT.All_panic _
      · exact PT.All_clipped (Or.inr (Or.inr ⟨op, rfl, hd, rfl⟩)) (Or.inl rfl)
    · exact Or.inl rfl

/-- **closure under the diagonal proposals, up to proposals of probability 0**: a proposal leaves `S`
only by inserting an operator of weight 0 (which both updates do with probability 0) -/
def SlotClosed (H : Ham) (S : Finset Config) : Prop :=
  ∀ p b, b < H.nbonds → ∀ c ∈ S, slotFlip H p b c ∈ S ∨ (c.slots[p]? = some none ∧ curW H c p b = 0)

theorem SlotClosed.of_closed {H : Ham} {S : Finset Config}
    (h : ∀ p b, b < H.nbonds → ∀ c ∈ S, slotFlip H p b c ∈ S) : SlotClosed H S :=
  fun p b hb c hc => Or.inl (h p b hb c hc)

theorem getElem?_getD {c : Config} {p : Nat} (hp : p < c.slots.length) :
    c.slots[p]? = some (c.slots.getD p none) := by
  rw [List.getD_eq_getElem?_getD, List.getElem?_eq_getElem hp]; rfl

theorem slotCfgT_metropolis_closed (H : Ham) (β : Rat) (L : Nat) (S : Finset Config)
    (hcl : SlotClosed H S) (a : Config) (ha : a ∈ S)
    (hleg : DiagLegal H a) (q : Nat) (hq : q < a.slots.length) :
    PT.All (fun b => b ∈ S) (slotCfgT (metropolisSlotT H β L) q a) := by
  unfold slotCfgT
  have hs := getElem?_getD hq
  refine PT.All_map _ (metropolisSlotT_slots H β L _ _ _) (fun r hr => ?_)
  rcases hr with h | ⟨hn, b, hb, hwb, h⟩ | ⟨o, ho, hd, h⟩
  · rw [h, setSlot_self hs]; exact ha
  · rw [hn] at hs
    rcases hcl q b hb a ha with this | ⟨-, hz⟩
    · rw [slotFlip_empty hs] at this
      rw [h]; exact this
    · exact absurd hz hwb
  · rw [ho] at hs
    obtain ⟨hb, hcanon⟩ := hleg.op hs hd
    rcases hcl q o.bond hb a ha with this | ⟨hn, -⟩
    · rw [slotFlip_canon (by rw [hs, ← hcanon])] at this
      rw [h]; exact this
    · rw [hs] at hn; cases hn

/-! ### law of a sweep, generic in the slot function -/

/-- with the cutoff equal to the number of slots, the sweep tree is the plain fold over all slots -/
theorem sweepT_eq (f : Option Op → List Bool → Nat → PT SlotOut) (c : Config) :
    PT.map (fun x : Config × Nat => x.1) (sweepT f c.slots.length c) =
      PT.map (fun x : Slots × List Bool × Nat => ({ state := x.2.1, slots := x.1 } : Config))
        (sweepAuxT f c.slots c.state (countOps c.slots)) := by
  unfold sweepT padSlots
  simp [PT.map_map]

/-- the law of the sweep tree (cutoff = number of slots, rolling state closes) is the law of the
consecutive visits of the configuration produced so far -/
theorem law_sweepT_eq_cfgSweepT (f : Option Op → List Bool → Nat → PT SlotOut) (hf : SlotLeafOK f)
    (c : Config) (hper : rollState c.state c.slots = c.state) (b : Config) :
    PT.law (PT.map (fun x : Config × Nat => x.1) (sweepT f c.slots.length c)) b =
      PT.law (cfgSweepT f 0 c.slots.length c) b := by
  rw [sweepT_eq f c]
  have h2 := law_sweepAuxT_eq_cfgSweepT f hf c.state b c.slots []
  simp only [List.nil_append, rollState, List.length_nil] at h2
  rw [← h2]
  refine PT.map_congr_All (fun x hx => ?_) b _ (sweepAuxT_state f hf _ _ _)
  have hx' : x.2.1 = rollState c.state c.slots := hx
  show ({ state := x.2.1, slots := x.1 } : Config) = _
  rw [hx', hper]

/-- consecutive visits stay in a set the single visits do not leave -/
theorem cfgSweepT_closed (f : Option Op → List Bool → Nat → PT SlotOut) (S : Finset Config) :
    ∀ (k p : Nat), (∀ q, p ≤ q → q < p + k → ∀ a ∈ S, PT.All (fun b => b ∈ S) (slotCfgT f q a)) →
      ∀ a ∈ S, PT.All (fun b => b ∈ S) (cfgSweepT f p k a)
  | 0, _, _, _, ha => ha
  | k + 1, p, h, a, ha =>
    PT.All_bind _ (h p (Nat.le_refl p) (by omega) a ha)
      (fun b hb => cfgSweepT_closed f S k (p + 1) (fun q h1 h2 => h q (by omega) (by omega)) b hb)

/-- **the law of a sweep is the composition of the laws of its slot visits**: for a slot function whose
leaves keep rolling state and count in step (`SlotLeafOK`), on a finite set `S` of configurations with `L`
slots whose rolling state closes and which the slot visits do not leave, if the law of the visit of slot
`q` is the row of the kernel `K q`, then the law of the sweep is `K 0 ; K 1 ; … ; K (L−1)` -/
theorem law_sweep_eq_compList (f : Option Op → List Bool → Nat → PT SlotOut) (hf : SlotLeafOK f)
    (K : Nat → Config → Config → Rat) (S : Finset Config) (L : Nat)
    (hclosed : ∀ q, q < L → ∀ a ∈ S, PT.All (fun b => b ∈ S) (slotCfgT f q a))
    (hper : ∀ c ∈ S, rollState c.state c.slots = c.state ∧ c.slots.length = L)
    (hslot : ∀ q, q < L → ∀ a ∈ S, ∀ b, PT.law (slotCfgT f q a) b = K q a b) :
    lawK S (fun c => PT.map (fun x : Config × Nat => x.1) (sweepT f L c)) =
      compList ((List.range L).map fun p => restr S (K p)) := by
  have h1 : lawK S (fun c => PT.map (fun x : Config × Nat => x.1) (sweepT f L c)) =
      lawK S (cfgSweepT f 0 L) := by
    funext a b
    unfold lawK
    obtain ⟨hl, hL⟩ := hper a.1 a.2
    have e := law_sweepT_eq_cfgSweepT f hf a.1 hl b.1
    rw [hL] at e
    exact e
  rw [h1, lawK_cfgSweepT f S L 0 (fun q _ hq a ha => hclosed q (by omega) a ha)]
  rw [List.range_eq_range']
  congr 1
  refine List.map_congr_left (fun q hq => ?_)
  have hq' : q < L := by
    have := List.mem_range'_1.mp hq
    omega
  funext a b
  exact hslot q hq' a.1 a.2 b.1

/-- no idealised mass of a sweep leaves a set the slot visits do not leave -/
theorem law_sweep_zero_off (f : Option Op → List Bool → Nat → PT SlotOut) (hf : SlotLeafOK f)
    (S : Finset Config) (L : Nat)
    (hclosed : ∀ q, q < L → ∀ a ∈ S, PT.All (fun b => b ∈ S) (slotCfgT f q a))
    (hper : ∀ c ∈ S, rollState c.state c.slots = c.state ∧ c.slots.length = L)
    (a : Config) (ha : a ∈ S) (b : Config) (hb : b ∉ S) :
    PT.law (PT.map (fun x : Config × Nat => x.1) (sweepT f L a)) b = 0 := by
  obtain ⟨hl, hL⟩ := hper a ha
  have e := law_sweepT_eq_cfgSweepT f hf a hl b
  rw [hL] at e
  rw [e]
  exact PT.law_eq_zero_of_All _
    (cfgSweepT_closed f S L 0 (fun q _ hq a ha => hclosed q (by omega) a ha) a ha) b hb

/-! ### law of the Metropolis sweep -/

/-- **law of the Metropolis sweep = `sweepKM`**, on every finite set `S` of legal configurations with
`L` slots that the diagonal proposals do not leave -/
theorem law_metropolisSweep (H : Ham) (β : Rat) (hβ : 0 ≤ β) (hw : ∀ b i, 0 ≤ H.w b i i)
    (hNb : 0 < H.nbonds) (S : Finset Config) (L : Nat) (hcl : SlotClosed H S)
    (hleg : ∀ c ∈ S, DiagLegal H c ∧ c.slots.length = L) :
    lawK S (metropolisSweepT H β L) = sweepKM H β S L := by
  refine law_sweep_eq_compList (metropolisSlotT H β L) (metropolisSlotT_leafOK H β L) (slotKM H β) S L
    (fun q hq a ha => ?_) (fun c hc => ⟨(hleg c hc).1.2.2, (hleg c hc).2⟩) (fun q hq a ha b => ?_)
  · obtain ⟨hl, hL⟩ := hleg a ha
    exact slotCfgT_metropolis_closed H β L S hcl a ha hl q (by omega)
  · obtain ⟨hl, hL⟩ := hleg a ha
    unfold slotCfgT
    have := law_metropolisSlot H β hβ hw hNb a q _ (getElem?_getD (by omega)) (hl.slotLegal q) b
    rw [hL] at this
    exact this

/-! ### the space of legal configurations -/

/-- a slot content that does not act on the rolling state: empty or tagged diagonal -/
def Neutral (x : Option Op) : Prop := ∀ st : List Bool, rollState st [x] = st

theorem neutral_none : Neutral none := fun _ => rfl

theorem neutral_diag {o : Op} (h : o.tagDiag = true) : Neutral (some o) := by
  intro st; simp [rollState, h]

theorem rollState_set_neutral {x y : Option Op} (hx : Neutral x) (hy : Neutral y) :
    ∀ (l : Slots) (p : Nat) (st : List Bool), l[p]? = some y → rollState st (l.set p x) = rollState st l
  | [], _, _, h => by simp at h
  | z :: t, 0, st, h => by
    simp only [List.getElem?_cons_zero, Option.some.injEq] at h
    have hz : Neutral z := by rw [h]; exact hy
    simp only [List.set_cons_zero]
    rw [rollState_cons st x t, hx st, rollState_cons st z t, hz st]
  | z :: t, p + 1, st, h => by
    simp only [List.getElem?_cons_succ] at h
    simp only [List.set_cons_succ]
    rw [rollState_cons st z (t.set p x), rollState_set_neutral hx hy t p _ h, ← rollState_cons]

theorem stateAt_setSlot_neutral {c : Config} {p : Nat} {x y : Option Op} (hs : c.slots[p]? = some y)
    (hx : Neutral x) (hy : Neutral y) (q : Nat) : stateAt (setSlot c p x) q = stateAt c q := by
  unfold stateAt
  simp only [setSlot_state, setSlot_slots, List.take_set]
  by_cases hpq : p < q
  · exact rollState_set_neutral hx hy _ p _ (by rw [List.getElem?_take_of_lt hpq]; exact hs)
  · rw [List.set_eq_of_length_le (by rw [List.length_take]; omega)]

theorem opLegalAt_iff (H : Ham) (c : Config) (p : Nat) :
    OpLegalAt H c p ↔ ∀ o, c.slots.getD p none = some o → o.tagDiag = true →
      (o.bond < H.nbonds ∧ o = canonOp H c p o.bond) := by
  unfold OpLegalAt
  generalize c.slots.getD p none = g
  cases g with
  | none => simp
  | some o => simp

/-- replacing a neutral slot content by a neutral one that is legal keeps the configuration legal -/
theorem diagLegal_setSlot {H : Ham} {c : Config} (h : DiagLegal H c) {p : Nat} {x y : Option Op}
    (hs : c.slots[p]? = some y) (hx : Neutral x) (hy : Neutral y)
    (hxl : ∀ o, x = some o → o.tagDiag = true → o.bond < H.nbonds ∧ o = canonOp H c p o.bond) :
    DiagLegal H (setSlot c p x) := by
  have hp := lt_of_getElem? hs
  refine ⟨h.1, fun q hq => ?_, ?_⟩
  · rw [opLegalAt_iff]
    intro o ho hd
    have hcan : ∀ b, canonOp H (setSlot c p x) q b = canonOp H c q b := by
      intro b; unfold canonOp; rw [stateAt_setSlot_neutral hs hx hy]
    rw [hcan]
    by_cases hqp : q = p
    · subst hqp
      have : (setSlot c q x).slots.getD q none = x := by
        rw [List.getD_eq_getElem?_getD, getElem?_setSlot hp]; rfl
      rw [this] at ho
      exact hxl o ho hd
    · have : (setSlot c p x).slots.getD q none = c.slots.getD q none := by
        simp only [List.getD_eq_getElem?_getD, setSlot_slots, List.getElem?_set_ne (Ne.symm hqp)]
      rw [this] at ho
      have hq' : q < c.slots.length := by simpa using hq
      exact (opLegalAt_iff H c q).mp (h.2.1 q hq') o ho hd
  · have := stateAt_setSlot_neutral hs hx hy c.slots.length
    unfold stateAt at this
    simp only [setSlot_state, setSlot_slots] at this ⊢
    rw [List.take_of_length_le (by simp), List.take_of_length_le (Nat.le_refl _)] at this
    rw [this]; exact h.2.2

/-- **the diagonal proposals keep a configuration legal** -/
theorem diagLegal_slotFlip {H : Ham} {c : Config} (h : DiagLegal H c) (p b : Nat) (hb : b < H.nbonds) :
    DiagLegal H (slotFlip H p b c) := by
  unfold slotFlip
  split
  · rename_i hs
    exact diagLegal_setSlot h hs (neutral_diag rfl) neutral_none (fun o ho _ => by cases ho; exact ⟨hb, rfl⟩)
  · rename_i o hs
    split
    · rename_i ho
      exact diagLegal_setSlot h hs neutral_none (neutral_diag (by rw [ho]; rfl)) (fun o' ho' => by cases ho')
    · exact h
  · exact h

/-- **the legal configurations** of the configuration space `cfgSpace H N L` -/
noncomputable def legalSpace (H : Ham) (N L : Nat) : Finset Config :=
  (cfgSpace H N L).filter (fun c => DiagLegal H c)

theorem mem_legalSpace {H : Ham} {N L : Nat} {c : Config} :
    c ∈ legalSpace H N L ↔ c ∈ cfgSpace H N L ∧ DiagLegal H c := by
  unfold legalSpace; rw [Finset.mem_filter]

theorem legalSpace_slotFlip (H : Ham) (N L : Nat) :
    ∀ p b, b < H.nbonds → ∀ c ∈ legalSpace H N L, slotFlip H p b c ∈ legalSpace H N L := by
  intro p b hb c hc
  rw [mem_legalSpace] at hc ⊢
  exact ⟨cfgSpace_slotFlip H N L p b hb c hc.1, diagLegal_slotFlip hc.2 p b hb⟩

theorem legalSpace_legal (H : Ham) (N L : Nat) :
    ∀ c ∈ legalSpace H N L, DiagLegal H c ∧ c.slots.length = L := by
  intro c hc
  rw [mem_legalSpace] at hc
  exact ⟨hc.2, (mem_cfgSpace.mp hc.1).2.1⟩

/-! ### invariance of the law of the executable sweep -/

theorem legalSpace_slotClosed (H : Ham) (N L : Nat) : SlotClosed H (legalSpace H N L) :=
  SlotClosed.of_closed (legalSpace_slotFlip H N L)

/-- conservation of probability of `movesK` on a finite set that a proposal leaves only with
probability 0 -/
theorem movesK_rowSumOn_of_zero {α ι : Type} [DecidableEq α] [Fintype ι] {f : ι → α → α}
    {A : ι → α → Rat} {S : Finset α} (hcl : ∀ i, ∀ a ∈ S, f i a ∈ S ∨ A i a = 0) :
    RowSumOn S (movesK f A) := by
  intro a ha
  unfold movesK
  rw [Finset.sum_add_distrib, Finset.sum_comm]
  have h1 : ∀ i, (∑ b ∈ S, if b = f i a ∧ f i a ≠ a then A i a else 0) =
      (if f i a ≠ a then A i a else 0) := by
    intro i
    by_cases hm : f i a = a
    · simp [hm]
    · simp only [hm, and_true, not_false_eq_true, if_true, ne_eq]
      rcases hcl i a ha with hin | hz
      · rw [Finset.sum_ite_eq' S (f i a) (fun _ => A i a), if_pos hin]
      · rw [hz]; simp
  rw [Finset.sum_congr rfl (fun i _ => h1 i), Finset.sum_ite_eq' S a, if_pos ha]
  ring

theorem slotKM_rowSumOn_w (H : Ham) (β : Rat) (p : Nat) {S : Finset Config} (hcl : SlotClosed H S) :
    RowSumOn S (slotKM H β p) := by
  refine movesK_rowSumOn_of_zero (fun b c hc => ?_)
  rcases hcl p b.val b.isLt c hc with h | ⟨h1, h2⟩
  · exact Or.inl h
  · right
    simp only [slotProbM, h1, h2, pInsertM_zero]

/-- the sweep kernel is invariant on every finite set the diagonal proposals do not leave (as
`Kernel.sweep_invariant`, which asks in addition for closure under the idle toggles and for exact closure) -/
theorem sweepKM_invariant_of_slotClosed (H : Ham) (β : Rat) (hβ : 0 < β) (hw : ∀ b i, 0 ≤ H.w b i i)
    (S : Finset Config) (hcl : SlotClosed H S) (L : Nat) :
    Invariant (sseOn H β S) (sweepKM H β S L) := by
  refine invariant_compList _ (fun K hK => ?_)
  obtain ⟨p, -, rfl⟩ := List.mem_map.mp hK
  exact reversible_invariantOn (slotKM_reversible H β hβ hw p) (slotKM_rowSumOn_w H β p hcl)

theorem sweepKM_rowSum_of_slotClosed (H : Ham) (β : Rat) (S : Finset Config) (hcl : SlotClosed H S)
    (L : Nat) : RowSum (sweepKM H β S L) := by
  refine rowSum_compList _ (fun K hK => ?_)
  obtain ⟨p, -, rfl⟩ := List.mem_map.mp hK
  exact restr_rowSum (slotKM_rowSumOn_w H β p hcl)

/-- **the idealised law of the executable Metropolis sweep leaves the SSE weight invariant**, on every
finite set of legal configurations with `L` slots closed under the diagonal proposals -/
theorem metropolisSweep_law_invariant_on (H : Ham) (β : Rat) (hβ : 0 < β) (hw : ∀ b i, 0 ≤ H.w b i i)
    (hNb : 0 < H.nbonds) (S : Finset Config) (L : Nat) (hcl : SlotClosed H S)
    (hleg : ∀ c ∈ S, DiagLegal H c ∧ c.slots.length = L) :
    Invariant (sseOn H β S) (lawK S (metropolisSweepT H β L)) := by
  rw [law_metropolisSweep H β (le_of_lt hβ) hw hNb S L hcl hleg]
  exact sweepKM_invariant_of_slotClosed H β hβ hw S hcl L

/-- … in particular on the space of all legal configurations with `N` variables and `L` slots -/
theorem metropolisSweep_law_invariant (H : Ham) (β : Rat) (hβ : 0 < β) (hw : ∀ b i, 0 ≤ H.w b i i)
    (hNb : 0 < H.nbonds) (N L : Nat) :
    Invariant (sseOn H β (legalSpace H N L)) (lawK (legalSpace H N L) (metropolisSweepT H β L)) :=
  metropolisSweep_law_invariant_on H β hβ hw hNb _ L (legalSpace_slotClosed H N L) (legalSpace_legal H N L)

/-- from a legal configuration the idealised law of the sweep has total mass 1 on the legal
configurations: no mass is lost to a panic -/
theorem metropolisSweep_law_rowSum (H : Ham) (β : Rat) (hβ : 0 ≤ β) (hw : ∀ b i, 0 ≤ H.w b i i)
    (hNb : 0 < H.nbonds) (N L : Nat) :
    RowSum (lawK (legalSpace H N L) (metropolisSweepT H β L)) := by
  rw [law_metropolisSweep H β hβ hw hNb _ L (legalSpace_slotClosed H N L) (legalSpace_legal H N L)]
  exact sweepKM_rowSum_of_slotClosed H β _ (legalSpace_slotClosed H N L) L

end Qmc.Law
