import QmcProofs.LawSlot
import QmcProofs.KernelInvariance

/-!
# Law of the whole Metropolis sweep = `sweepKM`; the executable model's idealised law is invariant

* `sweepAux_refines`, `sweep_refines`, `metropolisSweep_refines` — **refinement**: for every script the
  model's sweep is the run of its tree twin (`sweepAuxT`, `sweepT`, `metropolisSweepT`).
* `DiagLegal H c` — legality of a configuration for the diagonal update: every bond's variables are
  defined in the state, every diagonal-tagged operator is the canonical operator of a bond of `H` at
  the rolling state of its slot, and the rolling state closes (`rollState c.state c.slots = c.state`).
* `law_sweep_eq_compList` — generic in the slot function: the law of the sweep is the composition of the
  laws of the slot visits (each acting on the configuration produced so far).
* `law_metropolisSweep` — **law = kernel**: `lawK S (metropolisSweepT H β L) = sweepKM H β S L` on every
  finite set `S` of legal configurations with `L` slots that the diagonal proposals do not leave.
* `metropolisSweep_law_invariant` — **the idealised law of the executable sweep leaves the SSE weight
  invariant**, on `legalSpace H N L` (all legal configurations of `cfgSpace H N L`).
-/

open Finset

namespace Qmc.Law
open Qmc Qmc.Kernel Qmc.Dist

/-! ### refinement -/

theorem sweepAux_refines (F : Option Op → List Bool → Nat → RS → SlotRes)
    (f : Option Op → List Bool → Nat → PT SlotOut)
    (hF : ∀ s st n rs, F s st n rs = ((f s st n).run rs).1.withRS ((f s st n).run rs).2) :
    ∀ (sl : Slots) (st : List Bool) (n : Nat) (rs : RS),
      sweepAux F sl st n rs =
        (((sweepAuxT f sl st n).run rs).1.1, ((sweepAuxT f sl st n).run rs).1.2.1,
          ((sweepAuxT f sl st n).run rs).1.2.2, ((sweepAuxT f sl st n).run rs).2)
  | [], _, _, _ => rfl
  | s :: t, st, n, rs => by
    rw [sweepAux_cons]
    simp only [sweepAuxT, PT.run_bind, PT.run_map]
    rw [hF s st n rs]
    simp only [SlotOut.withRS]
    rw [sweepAux_refines F f hF t]

theorem sweep_refines (F : Option Op → List Bool → Nat → RS → SlotRes)
    (f : Option Op → List Bool → Nat → PT SlotOut)
    (hF : ∀ s st n rs, F s st n rs = ((f s st n).run rs).1.withRS ((f s st n).run rs).2)
    (cutoff : Nat) (c : Config) (rs : RS) :
    sweep F cutoff c rs =
      (((sweepT f cutoff c).run rs).1.1, ((sweepT f cutoff c).run rs).1.2, ((sweepT f cutoff c).run rs).2) := by
  unfold sweep sweepT
  simp only [PT.run_map]
  rw [sweepAux_refines F f hF]

/-- **refinement of the Metropolis sweep**: on every script the model function is the run of its tree -/
theorem metropolisSweep_refines (H : Ham) (β : Rat) (cutoff : Nat) (c : Config) (rs : RS) :
    metropolisSweep H β cutoff c rs = (metropolisSweepT H β cutoff c).run rs := by
  unfold metropolisSweep metropolisSweepT
  rw [sweep_refines _ _ (metropolisSlot_refines H β cutoff), PT.run_map]

end Qmc.Law
