import QmcProps.C16
