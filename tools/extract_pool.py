#!/usr/bin/env python3
"""Regenerate lean/QmcModel/Generated/PoolCaps.lean from /repo/src/sse/fast_op_alloc.rs.

Extracts (regex level; the code base is rustfmt-formatted)
  * the nine fields of `struct DefaultFastOpAllocator` with their buffer types, and
  * the nine `Allocator::new_with_max_in_flight(<literal>)` capacities in
    `impl Default for DefaultFastOpAllocator`.
Fails closed: any shape it does not recognise (missing field, non-literal capacity, unknown
buffer type, duplicate / extra field, a second constructor of the struct) is an error (exit 2,
nothing written), so the C18 capacity obligations are reported unproved rather than skipped.
The output file is rewritten only if its content changes (no needless Lean rebuild).

Also shape-checks what `return_instance` does to a buffer (`impl Reset` bodies, `BondContainer::clear`,
`Allocator::{get_instance, return_instance}`, the `verif_is_clean` probes): exit 3 and one
`RESET-SHAPE FAIL <function>: …` line per body that no longer has the modelled shape.

usage: extract_pool.py [--repo /repo] [--out <file>] [--check]
"""
import os
import re
import sys

VERIF = os.path.dirname(os.path.dirname(os.path.abspath(__file__)))

# Rust buffer type (whitespace removed) -> Lean constructor of Qmc.Pool.Ty
TYPES = {
    "Vec<usize>": "usize",
    "Vec<bool>": "bool",
    "Vec<OpSide>": "opside",
    "Vec<Leg>": "leg",
    "Vec<Option<usize>>": "optUsize",
    "Vec<f64>": "f64",
    "BondContainer<usize>": "bcUsize",
    "BondContainer<VarPos>": "bcVarPos",
    "BinaryHeap<Reverse<usize>>": "heap",
}
ORDER = ["usize", "bool", "opside", "leg", "optUsize", "f64", "bcUsize", "bcVarPos", "heap"]


class Shape(Exception):
    pass


def block_after(src, header_re, what):
    """text between the braces that follow the unique match of header_re"""
    ms = list(re.finditer(header_re, src))
    if len(ms) != 1:
        raise Shape("expected exactly one %s, found %d" % (what, len(ms)))
    i = src.index("{", ms[0].end() - 1)
    depth = 0
    for j in range(i, len(src)):
        if src[j] == "{":
            depth += 1
        elif src[j] == "}":
            depth -= 1
            if depth == 0:
                return src[i + 1 : j]
    raise Shape("unbalanced braces after " + what)


def strip_comments(s):
    s = re.sub(r"/\*.*?\*/", "", s, flags=re.S)
    return re.sub(r"//[^\n]*", "", s)


def extract(repo):
    path = os.path.join(repo, "src", "sse", "fast_op_alloc.rs")
    src = strip_comments(open(path).read())
    # 1. struct fields -> buffer types
    sbody = block_after(src, r"pub\s+struct\s+DefaultFastOpAllocator\s*\{", "struct DefaultFastOpAllocator")
    fields = {}
    for part in [p.strip() for p in sbody.split(",\n")]:
        part = re.sub(r"#\[[^\]]*\]", "", part).strip().rstrip(",").strip()
        if not part:
            continue
        m = re.fullmatch(r"(?:pub(?:\([a-z]+\))?\s+)?(\w+)\s*:\s*Allocator\s*<(.+)>", part, flags=re.S)
        if not m:
            raise Shape("unrecognised struct field: %r" % part)
        ty = re.sub(r"\s+", "", m.group(2))
        if ty not in TYPES:
            raise Shape("unknown pooled buffer type %r (field %s)" % (ty, m.group(1)))
        if m.group(1) in fields:
            raise Shape("duplicate field " + m.group(1))
        fields[m.group(1)] = TYPES[ty]
    if sorted(fields.values()) != sorted(ORDER):
        raise Shape("struct does not have exactly one allocator per buffer type: %r" % fields)
    # 2. capacities in Default::default
    ibody = block_after(src, r"impl\s+Default\s+for\s+DefaultFastOpAllocator\s*\{", "impl Default for DefaultFastOpAllocator")
    fbody = block_after(ibody, r"fn\s+default\s*\(\s*\)\s*->\s*Self\s*\{", "fn default")
    lit = block_after(fbody, r"Self\s*\{", "Self { .. } literal in default()")
    rest = fbody.replace(lit, "")
    if re.sub(r"[\s{}]|Self", "", rest) != "":
        raise Shape("default() contains code besides the struct literal: %r" % rest.strip()[:120])
    caps = {}
    for part in [p.strip() for p in lit.split(",\n")]:
        part = part.rstrip(",").strip()
        if not part:
            continue
        m = re.fullmatch(r"(\w+)\s*:\s*Allocator\s*::\s*new_with_max_in_flight\s*\(\s*([0-9][0-9_]*)\s*(?:usize)?\s*\)", part)
        if not m:
            raise Shape("unrecognised capacity initialiser: %r" % part)
        f = m.group(1)
        if f not in fields:
            raise Shape("initialiser for unknown field " + f)
        if f in caps:
            raise Shape("field initialised twice: " + f)
        caps[f] = int(m.group(2).replace("_", ""))
    if set(caps) != set(fields):
        raise Shape("fields without capacity: %r" % sorted(set(fields) - set(caps)))
    # 3. nobody else builds the struct with other numbers / turns on unbounded growth
    whole = strip_comments(open(path).read())
    if len(re.findall(r"new_with_max_in_flight", whole)) != 9:
        raise Shape("expected exactly 9 new_with_max_in_flight calls in fast_op_alloc.rs")
    alloc_src = strip_comments(open(os.path.join(repo, "src", "util", "allocator.rs")).read())
    nb = block_after(alloc_src, r"fn\s+new_with_max_in_flight\s*\(\s*max_in_flight\s*:\s*usize\s*\)\s*->\s*Self\s*\{", "Allocator::new_with_max_in_flight")
    if not re.search(r"instances\.resize_with\(\s*max_in_flight\s*,\s*T::default\s*\)", nb) or not re.search(r"gen_more\s*:\s*false", nb):
        raise Shape("Allocator::new_with_max_in_flight no longer creates exactly max_in_flight instances with gen_more = false")
    if re.search(r"gen_more\s*(?::|=)\s*true", alloc_src):
        raise Shape("allocator.rs sets gen_more = true somewhere")
    by_ty = {fields[f]: (f, caps[f]) for f in fields}
    return by_ty


def squash(t):
    return re.sub(r"\s+", "", t)


def fn_body(src, header_re, what):
    return squash(block_after(src, header_re, what))


def strip_cfg_verif(src):
    """drop `#[cfg(qmc_verif)]` items/statements (the hooks) so bodies are compared without them"""
    out = []
    i = 0
    while True:
        m = re.search(r"#\[cfg\(qmc_verif\)\]", src[i:])
        if not m:
            out.append(src[i:])
            break
        out.append(src[i : i + m.start()])
        j = i + m.end()
        # the guarded item ends at the first `;` or at the matching `}` of the first `{`, whichever comes first at depth 0
        depth = 0
        k = j
        while k < len(src):
            c = src[k]
            if c in "({[":
                depth += 1
            elif c in ")}]":
                depth -= 1
                if depth == 0 and c == "}":
                    k += 1
                    break
            elif c == ";" and depth == 0:
                k += 1
                break
            k += 1
        i = k
    return "".join(out)


def check_reset_shapes(repo):
    """What happens to a buffer handed back to the pool (modelled by hand as `Buf.reset` / `BC.clear` /
    `retBuf` in QmcModel/Pool.lean). Returns a list of (function, message) for every body that no longer has
    the modelled shape. The same expectations as the C14 check in tools/extract_fields.py (kept
    self-contained so that a shape C14 does not recognise elsewhere cannot fail C18)."""
    bad = []
    a_raw = strip_comments(open(os.path.join(repo, "src", "util", "allocator.rs")).read())
    b_raw = strip_comments(open(os.path.join(repo, "src", "util", "bondcontainer.rs")).read())

    def expect(src, header_re, what, want, hooks=True):
        try:
            got = fn_body(strip_cfg_verif(src) if hooks else src, header_re, what)
        except Shape as e:
            bad.append((what, str(e)))
            return
        if got != want:
            bad.append((what, "body is `%s`, modelled shape is `%s`" % (got, want)))

    # impl Reset bodies
    for ty, hdr, want in (
        ("Vec<T>", r"impl\s*<\s*T\s*>\s*Reset\s+for\s+Vec\s*<\s*T\s*>\s*\{", "self.clear()"),
        ("BinaryHeap<T>", r"impl\s*<\s*T\s*>\s*Reset\s+for\s+BinaryHeap\s*<\s*T\s*>\s*\{", "self.clear()"),
    ):
        try:
            ib = block_after(a_raw, hdr, "impl Reset for " + ty)
        except Shape as e:
            bad.append(("impl Reset for " + ty, str(e)))
            continue
        expect(ib, r"fn\s+reset\s*\(\s*&mut\s+self\s*\)\s*\{", "<%s as Reset>::reset" % ty, want, hooks=False)
        expect(ib, r"fn\s+verif_is_clean\s*\(\s*&self\s*\)\s*->\s*bool\s*\{", "<%s as Reset>::verif_is_clean" % ty, "self.is_empty()", hooks=False)
    try:
        ib = block_after(b_raw, r"impl[^\n{;]*\bReset\s+for\s+BondContainer\s*<\s*T\s*>\s*\{", "impl Reset for BondContainer<T>")
        expect(ib, r"fn\s+reset\s*\(\s*&mut\s+self\s*\)\s*\{", "<BondContainer<T> as Reset>::reset", "self.clear();", hooks=False)
        expect(ib, r"fn\s+verif_is_clean\s*\(\s*&self\s*\)\s*->\s*bool\s*\{", "<BondContainer<T> as Reset>::verif_is_clean",
               "self.keys.is_empty()&&self.total_weight==0.&&self.map.iter().all(|m|m.is_none())", hooks=False)
    except Shape as e:
        bad.append(("impl Reset for BondContainer<T>", str(e)))
    n_impls = len(re.findall(r"\bReset\s+for\b", a_raw + b_raw))
    if n_impls != 3:
        bad.append(("impl Reset", "expected exactly 3 `impl Reset for` (Vec, BinaryHeap, BondContainer), found %d" % n_impls))
    # BondContainer::clear
    expect(b_raw, r"pub\s+fn\s+clear\s*\(\s*&mut\s+self\s*\)\s*\{", "BondContainer::clear",
           "letkeys=&mutself.keys;letmap=&mutself.map;keys.iter().map(|(t,_)|t).for_each(|k|{letbond=k.clone().into();map[bond]=None});keys.clear();self.total_weight=0.;")
    # Allocator::{get_instance, return_instance} (hooks removed)
    expect(a_raw, r"fn\s+return_instance\s*\(\s*&mut\s+self\s*,\s*mut\s+t\s*:\s*T\s*\)\s*\{", "Allocator::return_instance",
           "t.reset();self.instances.push(t)")
    expect(a_raw, r"fn\s+get_instance\s*\(\s*&mut\s+self\s*\)\s*->\s*T\s*\{", "Allocator::get_instance",
           'matchself.instances.pop(){None=>{ifself.gen_more{T::default()}else{panic!("Outofinstances.")}}Some(t)=>t,}')
    # the forwarding impls of fast_op_alloc.rs: DefaultFastOpAllocator -> its nine fields, and the public wrapper
    # SwitchableFastOpAllocator -> the wrapped allocator (unconditionally; or fresh/dropped when there is none)
    f_raw = squash(strip_comments(open(os.path.join(repo, "src", "sse", "fast_op_alloc.rs")).read()))

    def bodies(header_re):
        out = []
        for m in re.finditer(header_re, f_raw):
            i = m.end() - 1
            depth = 0
            for j in range(i, len(f_raw)):
                if f_raw[j] == "{":
                    depth += 1
                elif f_raw[j] == "}":
                    depth -= 1
                    if depth == 0:
                        out.append(f_raw[i + 1 : j])
                        break
        return out

    rets = bodies(r"fnreturn_instance\(&mutself,t:[^{]*\)\{")
    gets = bodies(r"fnget_instance\(&mutself\)->[^{]*\{")
    want_sw_ret = "ifletSome(a)=self.alloc.as_mut(){a.return_instance(t)}"
    want_sw_get = "self.alloc.as_mut().map(|a|a.get_instance()).unwrap_or_else(Default::default)"
    d_ret = [b for b in rets if re.fullmatch(r"self\.\w+_alloc\.return_instance\(t\)", b)]
    d_get = [b for b in gets if re.fullmatch(r"self\.\w+_alloc\.get_instance\(\)", b)]
    other_ret = [b for b in rets if b not in d_ret and b != want_sw_ret]
    other_get = [b for b in gets if b not in d_get and b != want_sw_get]
    if other_ret:
        bad.append(("SwitchableFastOpAllocator/DefaultFastOpAllocator::return_instance", "body `%s` is neither `self.<field>.return_instance(t)` nor `%s` (a buffer that is not forwarded unconditionally is lost to the bounded pool)" % (other_ret[0], want_sw_ret)))
    if other_get:
        bad.append(("SwitchableFastOpAllocator/DefaultFastOpAllocator::get_instance", "body `%s` is neither `self.<field>.get_instance()` nor `%s`" % (other_get[0], want_sw_get)))
    if len(set(d_ret)) != 9 or len(set(d_get)) != 9 or len(rets) != 18 or len(gets) != 18:
        bad.append(("fast_op_alloc.rs Factory impls", "expected 9 + 9 forwarding get_instance and return_instance bodies (one per field, one per wrapper impl), found get %d (%d distinct field forwards) / return %d (%d)" % (len(gets), len(set(d_get)), len(rets), len(set(d_ret)))))
    return bad


def render(by_ty):
    lines = [
        "/-",
        "GENERATED by tools/extract_pool.py from /repo/src/sse/fast_op_alloc.rs",
        "(`DefaultFastOpAllocator::default`). Do not edit: rewritten by `./check C18` whenever the",
        "source changes. The C18 capacity obligations are `decide`d against these numbers.",
        "-/",
        "import QmcModel.Pool",
        "",
        "namespace Qmc.Pool.Generated",
        "",
        "/-- in-flight bound per buffer type (`Allocator::new_with_max_in_flight(k)`) -/",
        "def caps : Caps",
    ]
    for t in ORDER:
        f, k = by_ty[t]
        lines.append("  | .%s => %d  -- %s" % (t, k, f))
    lines += [
        "",
        "/-- field order of `struct DefaultFastOpAllocator` (= order of the serde snapshot) -/",
        "def fieldNames : List String := [%s]" % ", ".join('"%s"' % by_ty[t][0] for t in ORDER),
        "",
        "end Qmc.Pool.Generated",
        "",
    ]
    return "\n".join(lines)


def main():
    a = sys.argv[1:]
    repo = os.environ.get("VERIF_REPO", "/repo")
    out = os.path.join(VERIF, "lean", "QmcModel", "Generated", "PoolCaps.lean")
    check_only = False
    i = 0
    while i < len(a):
        if a[i] == "--repo":
            repo = a[i + 1]; i += 1
        elif a[i] == "--out":
            out = a[i + 1]; i += 1
        elif a[i] == "--check":
            check_only = True
        i += 1
    try:
        by_ty = extract(repo)
    except (Shape, OSError, ValueError) as e:
        print("extract_pool: FAIL-CLOSED: %s" % e)
        return 2
    try:
        shape_bad = check_reset_shapes(repo)
    except OSError as e:
        shape_bad = [("source files", str(e))]
    text = render(by_ty)
    old = open(out).read() if os.path.exists(out) else None
    summary = " ".join("%s=%d" % (t, by_ty[t][1]) for t in ORDER)
    if old == text:
        print("extract_pool: unchanged (%s)" % summary)
    elif check_only:
        print("extract_pool: WOULD CHANGE (%s)" % summary)
        return 1
    else:
        os.makedirs(os.path.dirname(out), exist_ok=True)
        tmp = out + ".tmp%d" % os.getpid()
        with open(tmp, "w") as f:
            f.write(text)
        os.replace(tmp, out)
        print("extract_pool: wrote %s (%s)" % (out, summary))
    if shape_bad:
        for fn, msg in shape_bad:
            print("extract_pool: RESET-SHAPE FAIL %s: %s" % (fn, msg))
        return 3
    print("extract_pool: reset shapes ok (Reset for Vec/BinaryHeap/BondContainer, BondContainer::clear, Allocator::{get,return}_instance, 18+18 forwarding Factory impls of fast_op_alloc.rs)")
    return 0


if __name__ == "__main__":
    sys.exit(main())
